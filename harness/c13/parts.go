package c13

// The part structure of the index tables (what the purge of dropped series walks), merges of
// index parts, and the histories built around repeated drop + purge rounds.
//
// After every operation the parts of the primary index table are listed (`parts`: which series
// entries have their items in which part, the being-merged / being-purged flags) and the tsids the
// deleted-tsid table holds on disk (`ddisk`); the model answers both lines from its own part
// structure. A tsid is named kid.n: the n-th tsid the series key kid was ever given.

import (
	"fmt"
	"sort"
	"strconv"
	"strings"

	"github.com/openGemini/openGemini/engine/index/tsi"

	"verif/harness/internal/hx"
)

type entry struct{ kid, n int }

func (e entry) String() string { return fmt.Sprintf("%d.%d", e.kid, e.n) }

func entryLess(a, b entry) bool { return a.kid < b.kid || (a.kid == b.kid && a.n < b.n) }

// kidOfIndexKey maps a series key as the index stores it (measurement, then key/value pairs
// separated by NUL) to the harness's series number.
func (h *history) kidOfIndexKey(key string) int {
	i := strings.IndexByte(key, ',')
	if i < 0 {
		return -1
	}
	mst, rest := key[:i], strings.Split(key[i+1:], "\x00")
	for j := 0; j+1 < len(rest); j += 2 {
		if rest[j] == "host" && len(rest[j+1]) > 1 {
			s, err := strconv.Atoi(rest[j+1][1:])
			if err != nil {
				return -1
			}
			if id, ok := h.kids[fmt.Sprintf("%s|%d", mst, s)]; ok {
				return id
			}
		}
	}
	return -1
}

// learn records the tsids of the listed parts: which series key a tsid belongs to and the order
// in which the tsids of one key were issued (tsids grow: logical clock, then sequence).
func (h *history) learn(parts []tsi.VerifIndexPart) {
	for _, p := range parts {
		for _, s := range p.Series {
			if _, ok := h.tsidKid[s.TSID]; ok || !s.IDToKey {
				continue
			}
			k := h.kidOfIndexKey(s.Key)
			h.tsidKid[s.TSID] = k
			h.seen[k] = append(h.seen[k], s.TSID)
			sort.Slice(h.seen[k], func(a, b int) bool { return h.seen[k][a] < h.seen[k][b] })
		}
	}
}

func (h *history) entryOf(tsid uint64) (entry, bool) {
	k, ok := h.tsidKid[tsid]
	if !ok {
		return entry{}, false
	}
	for n, t := range h.seen[k] {
		if t == tsid {
			return entry{k, n}, true
		}
	}
	return entry{}, false
}

// partText is the canonical form of one part: its series entries ascending; an entry whose
// items are not all there (key->tsid, tsid->key, one tag->tsids row per tag and one for the
// measurement) says which are.
func (h *history) partText(p tsi.VerifIndexPart, flags bool) (entry, string) {
	type item struct {
		e    entry
		text string
	}
	var its []item
	for _, s := range p.Series {
		e, ok := h.entryOf(s.TSID)
		t := e.String()
		if !ok {
			e = entry{999999, int(s.TSID & 0xffffff)}
			t = fmt.Sprintf("?%x", s.TSID)
		}
		// one tag->tsids row per tag and one for the measurement
		wantRows := 3
		if ok && e.kid < len(h.info) && h.info[e.kid].phys == wideMst {
			wantRows = 4
		}
		if !(s.KeyToID && s.IDToKey && s.TagRows == wantRows) || s.Deleted {
			t += fmt.Sprintf("/k%vt%vg%dd%v", s.KeyToID, s.IDToKey, s.TagRows, s.Deleted)
		}
		its = append(its, item{e, t})
	}
	sort.Slice(its, func(a, b int) bool { return entryLess(its[a].e, its[b].e) })
	var ts []string
	for _, it := range its {
		ts = append(ts, it.text)
	}
	text := strings.Join(ts, ",")
	if p.Other > 0 {
		text += fmt.Sprintf("+other%d", p.Other)
	}
	if flags {
		if p.InMerge {
			text += "~"
		}
		if p.DeleteMark {
			text += "*"
		}
	}
	first := entry{}
	if len(its) > 0 {
		first = its[0].e
	}
	return first, text
}

func (h *history) partsText(parts []tsi.VerifIndexPart, flags bool) string {
	type row struct {
		first entry
		text  string
	}
	var rows []row
	for _, p := range parts {
		f, t := h.partText(p, flags)
		rows = append(rows, row{f, t})
	}
	sort.SliceStable(rows, func(a, b int) bool { return entryLess(rows[a].first, rows[b].first) })
	var ts []string
	for _, r := range rows {
		ts = append(ts, r.text)
	}
	return strings.Join(ts, "|")
}

func (h *history) indexParts() ([]tsi.VerifIndexPart, string) {
	var parts []tsi.VerifIndexPart
	var err error
	perr := hx.Safe(func() { parts, err = h.sh.IndexParts() })
	if perr != "" || err != nil {
		return nil, errText(perr, err)
	}
	h.learn(parts)
	return parts, ""
}

// indexObs lists the parts of both index tables; after a restart it first tells the model how the
// mergers of the new process (which run until the harness stops them) regrouped the parts.
func (h *history) indexObs(afterRestart bool) {
	parts, e := h.indexParts()
	if e != "" {
		h.c.Emit("parts", e)
		return
	}
	if afterRestart {
		g := h.partsText(parts, false)
		if g == "" {
			g = "-"
		}
		h.c.Emit("regroup "+g, "ok")
	}
	h.c.Emit("parts", "parts "+h.partsText(parts, true))
	h.c.Count(fmt.Sprintf("index-parts=%d", min(len(parts), 6)))
	var dparts []tsi.VerifIndexPart
	var err error
	perr := hx.Safe(func() { dparts, err = h.sh.DeletedParts() })
	if perr != "" || err != nil {
		h.c.Emit("ddisk", errText(perr, err))
		return
	}
	var es []entry
	unknown := 0
	for _, p := range dparts {
		for _, s := range p.Series {
			if e, ok := h.entryOf(s.TSID); ok {
				es = append(es, e)
			} else {
				unknown++
			}
		}
	}
	sort.Slice(es, func(a, b int) bool { return entryLess(es[a], es[b]) })
	var ts []string
	for i, e := range es {
		if i > 0 && es[i-1] == e {
			continue
		}
		ts = append(ts, e.String())
	}
	ans := "ddisk " + strings.Join(ts, ",")
	if unknown > 0 {
		ans += fmt.Sprintf("+unknown%d", unknown)
	}
	h.c.Emit("ddisk", ans)
}

// firstEntries names the parts at the given positions by one series entry each.
func (h *history) firstEntries(parts []tsi.VerifIndexPart, pos []int) string {
	var ts []string
	for _, i := range pos {
		if len(parts[i].Series) == 0 {
			continue
		}
		if e, ok := h.entryOf(parts[i].Series[0].TSID); ok {
			ts = append(ts, e.String())
		}
	}
	if len(ts) == 0 {
		return "-"
	}
	return strings.Join(ts, ",")
}

func pickPositions(r *hx.Rng, n int) []int {
	if n == 0 {
		return nil
	}
	want := 1 + r.Intn(n)
	if n >= 2 && want < 2 && r.Chance(80) {
		want = 2
	}
	perm := r.Intn(n)
	var pos []int
	for i := 0; i < want; i++ {
		pos = append(pos, (perm+i)%n)
	}
	sort.Ints(pos)
	return pos
}

// doIndexMerge merges some parts of the primary index table from start to end.
func (h *history) doIndexMerge() {
	if h.mergeFinish != nil {
		return
	}
	parts, e := h.indexParts()
	if e != "" || len(parts) == 0 {
		return
	}
	pos := pickPositions(h.r, len(parts))
	var n int
	var err error
	perr := hx.Safe(func() { n, err = h.sh.MergeIndexParts(pos) })
	ans := fmt.Sprintf("ok %d", n)
	if perr != "" || err != nil {
		ans = errText(perr, err)
	}
	h.c.Emit("imerge "+h.firstEntries(parts, pos), ans)
	h.kinds += "i"
	h.c.Count("op:index-merge")
}

// doMergeBegin lets a merger take some parts; the merge finishes at a later doMergeEnd.
func (h *history) doMergeBegin() {
	if h.mergeFinish != nil {
		return
	}
	parts, e := h.indexParts()
	if e != "" || len(parts) == 0 {
		return
	}
	pos := pickPositions(h.r, len(parts))
	h.mergeBeginAt(parts, pos)
}

func (h *history) mergeBeginAt(parts []tsi.VerifIndexPart, pos []int) {
	var n int
	var fin func() error
	perr := hx.Safe(func() { n, fin = h.sh.BeginIndexMerge(pos) })
	ans := fmt.Sprintf("ok %d", n)
	if perr != "" {
		ans = "err " + perr
	}
	h.c.Emit("mbegin "+h.firstEntries(parts, pos), ans)
	if n > 0 && fin != nil {
		h.mergeFinish = fin
	}
	h.kinds += "b"
	h.c.Count("op:index-merge-begin")
}

func (h *history) doMergeEnd() {
	if h.mergeFinish == nil {
		return
	}
	fin := h.mergeFinish
	h.mergeFinish = nil
	var err error
	perr := hx.Safe(func() { err = fin() })
	ans := "ok"
	if perr != "" || err != nil {
		ans = errText(perr, err)
	}
	h.c.Emit("mend", ans)
	h.kinds += "e"
	h.c.Count("op:index-merge-end")
}

// doPurge is the periodic drop-series task. When it reports success, the index parts are checked
// against the property directly: no part may still hold an item of a deleted tsid (the
// deleted-tsid table has just been emptied, nothing would hide the series after the next start).
func (h *history) doPurge() {
	before, _ := h.indexParts()
	var deleted []uint64
	hx.Safe(func() { deleted = h.sh.DeletedTSIDs() })
	del := map[uint64]bool{}
	for _, t := range deleted {
		del[t] = true
	}
	var err error
	perr := hx.Safe(func() { err = h.sh.PurgeDeleted() })
	ans := "ok"
	switch {
	case perr != "":
		ans = "err " + strings.SplitN(perr, "\n", 2)[0]
	case err != nil && strings.Contains(err.Error(), "are being merged"):
		ans = "err parts-in-merge"
		h.c.Count("purge:left-to-a-running-merge")
	case err != nil:
		ans = errText("", err)
	}
	line := h.c.Emit("purge", ans)
	h.kinds += "p"
	h.c.Count("op:purge")
	if ans != "ok" {
		return
	}
	h.purges++
	touched, untouched := 0, 0
	for _, p := range before {
		hit := false
		for _, s := range p.Series {
			if del[s.TSID] {
				hit = true
			}
		}
		if hit {
			touched++
		} else {
			untouched++
		}
	}
	if len(del) > 0 {
		h.c.Count("purge:complete")
		if touched > 0 && untouched > 0 {
			h.c.Count("purge:rewrote-some-parts-left-others")
			h.partialPurges++
		}
	}
	after, e := h.indexParts()
	if e != "" {
		return
	}
	for _, p := range after {
		for _, s := range p.Series {
			if del[s.TSID] {
				en, _ := h.entryOf(s.TSID)
				h.c.Violation(line, h.taint, fmt.Sprintf("history %d (%s): the purge reported success and emptied the deleted-tsid table, but a part of the index table still holds items of the deleted tsid %x (series entry %s; key->tsid %v, tsid->key %v, tag rows %d; part flags: merge %v, purge mark %v): the series is back after the next start",
					h.idx, h.kinds, s.TSID, en, s.KeyToID, s.IDToKey, s.TagRows, p.InMerge, p.DeleteMark))
				return
			}
		}
	}
}

// ---------------------------------------------------------------------------------------------
// histories of drop + purge rounds

// runRounds: several series written in several batches (every batch that creates series makes a
// part of the index table), everything flushed; then rounds of DROP SERIES naming one or two live
// series, index flush interval, purge — with merges of index parts between or around them, new
// series and re-written dropped series between the rounds — and a restart at the end. Every
// operation is followed by the part listing and by the read shapes. No round meets the
// precondition of a known finding (rows are flushed before their series is dropped, the index
// flush interval passes before a crash), so every violation is a new one.
func (h *history) runRounds(nRounds int) error {
	r := h.r
	target := h.phys["m"]
	other := h.phys["n"]
	// several batches -> several parts
	batches := 2 + r.Intn(3)
	s := 0
	for b := 0; b < batches && s < nSeries; b++ {
		var rows []engRow
		k := 1 + r.Intn(2)
		for i := 0; i < k && s < nSeries; i++ {
			rows = append(rows, engRow{target, s, r.Intn(nTimes)})
			s++
		}
		if r.Chance(40) {
			rows = append(rows, engRow{other, r.Intn(nSeries), r.Intn(nTimes)})
		}
		if err := h.writeSimple(rows); err != nil {
			return err
		}
		h.after("write", false)
	}
	h.doFlush()
	h.after("flush", false)
	for round := 0; round < nRounds; round++ {
		live := h.specKids(target, &pred{op: "all"})
		if len(live) == 0 {
			// write the series again: new tsids for old keys
			if err := h.writeSimple([]engRow{{target, r.Intn(nSeries), r.Intn(nTimes)}, {target, r.Intn(nSeries), r.Intn(nTimes)}}); err != nil {
				return err
			}
			h.after("write again", false)
			h.doFlush()
			h.after("flush", false)
			live = h.specKids(target, &pred{op: "all"})
		}
		// a predicate that names one or two live series
		var hosts []string
		pick := r.Intn(len(live))
		hosts = append(hosts, fmt.Sprintf("h%d", h.info[live[pick]].s))
		if len(live) > 2 && r.Chance(30) {
			hosts = append(hosts, fmt.Sprintf("h%d", h.info[live[(pick+1)%len(live)]].s))
			sort.Strings(hosts)
		}
		p := &pred{op: "eq", k: "host", vals: hosts}
		if len(hosts) > 1 {
			p = &pred{op: "re", k: "host", vals: hosts}
		}
		racing := r.Chance(25)
		if racing {
			h.doMergeBegin()
			h.after("index merge begins", false)
		} else if r.Chance(25) {
			h.doIndexMerge()
			h.after("index merge", false)
		}
		h.dropSeriesWith(target, p)
		h.after("drop series", false)
		h.simple("tick", "t", func() error { h.sh.FlushIndexes(); return nil })
		h.pend = false
		h.after("index flush interval", false)
		h.doPurge()
		h.after("purge", false)
		if h.mergeFinish != nil {
			h.doMergeEnd()
			h.after("index merge ends", false)
			if r.Chance(70) {
				h.doPurge()
				h.after("purge", false)
			}
		}
		switch r.Intn(5) {
		case 0:
			// a dropped series is written again, a new one appears
			if err := h.writeSimple([]engRow{{target, r.Intn(nSeries), r.Intn(nTimes)}}); err != nil {
				return err
			}
			h.after("write", false)
			h.doFlush()
			h.after("flush", false)
		case 1:
			h.doIndexMerge()
			h.after("index merge", false)
		}
	}
	// the restart that loads the deleted set from what the purges left on disk
	if r.Chance(70) {
		if err := h.doReopen(); err != nil {
			return err
		}
		h.after("reopen", true)
	} else {
		if err := h.doCrash(); err != nil {
			return err
		}
		h.after("crash", true)
	}
	if r.Chance(50) {
		if err := h.writeSimple([]engRow{{target, r.Intn(nSeries), r.Intn(nTimes)}}); err != nil {
			return err
		}
		h.after("write", false)
	}
	if r.Chance(30) {
		h.doPurge()
		h.after("purge", false)
		if err := h.doReopen(); err != nil {
			return err
		}
		h.after("reopen", true)
	}
	return nil
}

type engRow struct {
	mst  string
	s, t int
}

// after: part listing, then the read shapes (after a restart twice: two random draws of every shape).
func (h *history) after(tag string, restarted bool) {
	h.indexObs(restarted)
	h.readChecks(tag)
	if restarted {
		h.readChecks(tag)
	}
}
