package c13

import (
	"fmt"
	"math"
	"os"
	"strings"

	"github.com/openGemini/openGemini/engine"
	"github.com/openGemini/openGemini/lib/util/lifted/influx/influxql"

	"verif/harness/engx"
	"verif/harness/internal/hx"
)

func init() { hx.Register("C13", Run) }

func mustExpr(s string) influxql.Expr {
	if s == "" {
		return nil
	}
	e := influxql.MustParseExpr(s)
	influxql.WalkFunc(e, func(n influxql.Node) {
		if r, ok := n.(*influxql.VarRef); ok {
			if t, ok := engx.QLTypes[r.Val]; ok {
				r.Type = t
			} else {
				r.Type = influxql.Tag
			}
		}
	})
	return e
}

func show(sh *engine.VerifDropShard, tag string) {
	sh.FlushIndexes()
	fmt.Println("==", tag, "deleted:", sh.DeletedTSIDs())
	for _, q := range []struct {
		cond string
		dims []string
	}{{"", nil}, {"host = 'h1'", nil}, {"host != 'h1'", nil}, {"host =~ /h1|h2/", nil}, {"host =~ /h[12]/", nil}, {"host !~ /h1|h2/", nil}, {"fi > -1000", nil}, {"host = 'h1' OR fi > -1000", nil}, {"", []string{"zone"}}, {"fi > -1000", []string{"host"}}} {
		rows, err := sh.Select("m", engx.AllFields(), mustExpr(q.cond), q.dims, math.MinInt64+1, math.MaxInt64, true)
		var out []string
		for _, r := range rows {
			out = append(out, fmt.Sprintf("[%s]%d:%d", r.Group, engx.SeriesIndex(r.Series), (r.Time-engx.BaseTime)/1e9))
		}
		fmt.Printf("  select where %q by %v: %v err=%v\n", q.cond, q.dims, out, err)
	}
	for _, call := range []string{"count", "sum", "max"} {
		for _, dims := range [][]string{nil, {"zone"}} {
			rows, err := sh.Aggregate("m", call, engine.VerifField{Name: "fi", Type: influxql.Integer}, nil, dims, math.MinInt64+1, math.MaxInt64)
			fmt.Printf("  %s(fi) by %v: %v err=%v\n", call, dims, rows, err)
		}
	}
	for _, cond := range []string{"", "zone = 'z0'"} {
		k, err := sh.SeriesKeys("m", mustExpr(cond))
		fmt.Printf("  series where %q: %v err=%v\n", cond, k, err)
		tk, err := sh.TagKeys("m", mustExpr(cond))
		fmt.Printf("  tagkeys where %q: %v err=%v\n", cond, tk, err)
		tv, err := sh.TagValues("m", []string{"host", "zone"}, mustExpr(cond))
		fmt.Printf("  tagvalues where %q: %v err=%v\n", cond, tv, err)
		n, err := sh.SeriesCardinality("m", mustExpr(cond))
		fmt.Printf("  cardinality where %q: %v err=%v\n", cond, n, err)
	}
}

func w(sh *engine.VerifDropShard, mst string, rows ...string) {
	var rs []engx.Row
	for _, x := range rows {
		var s, t, v int
		fmt.Sscanf(x, "%d:%d:%d", &s, &t, &v)
		rs = append(rs, engx.Row{Mst: mst, Series: s, T: t, Fields: map[string]string{"fi": fmt.Sprint(v)}})
	}
	if err := sh.Write(engx.ToInflux(rs)); err != nil {
		fmt.Println("write error", err)
	}
}

func probe() error {
	dir := engx.ScratchDir("c13probe")
	defer os.RemoveAll(dir)
	sh, err := engine.VerifOpenDropShard(dir, 2)
	if err != nil {
		return err
	}
	sh.DisableBackground()
	w(sh, "m", "0:0:1", "1:0:2", "2:0:3", "3:0:4")
	w(sh, "a", "0:0:1") // a measurement before and one after in index order
	w(sh, "z", "0:0:1")
	sh.Flush()
	w(sh, "m", "0:1:5", "1:1:6", "2:1:7")
	show(sh, "before drop")
	n, err := sh.DropSeries("m", "host = 'h1'")
	fmt.Println("drop host=h1:", n, err)
	show(sh, "after drop")
	w(sh, "m", "1:2:60")
	show(sh, "after rewrite of h1")
	sh.Flush()
	show(sh, "after flush")
	fmt.Println("fullcompact", sh.FullCompact(), "merge", sh.MergeOutOfOrder(true, true))
	show(sh, "after compact")
	fmt.Println("close", sh.Close())
	sh, err = engine.VerifOpenDropShard(dir, 2)
	if err != nil {
		return err
	}
	sh.DisableBackground()
	show(sh, "after reopen")
	// unflushed + drop + reopen
	w(sh, "m", "2:3:70")
	n, err = sh.DropSeries("m", "host = 'h2'")
	fmt.Println("drop host=h2 (unflushed row 2:3):", n, err)
	show(sh, "after drop h2")
	fmt.Println("close", sh.Close())
	sh, err = engine.VerifOpenDropShard(dir, 2)
	if err != nil {
		return err
	}
	sh.DisableBackground()
	show(sh, "after reopen (h2 had an unflushed row)")
	fmt.Println("purge", sh.PurgeDeleted())
	show(sh, "after purge")
	n, err = sh.DropSeries("m", "fi > 0")
	fmt.Println("drop fi>0:", n, err)
	n, err = sh.DropSeries("m", "host = 'h3' AND false")
	fmt.Println("drop host=h3 and false:", n, err)
	show(sh, "after odd drops")
	fmt.Println("close", sh.Close())
	return nil
}

func Run(c *hx.Ctx) error {
	if c.Arg("probe", "") != "" {
		return probe()
	}
	return fmt.Errorf("not implemented")
}

var _ = strings.Join
