// Package engx: shared helpers for the harnesses that drive a real shard through the
// verif facade of package engine (C01, C02, C03, C09, C13): a small typed universe of
// series / timestamps / fields, row construction, canonical dumps.
package engx

import (
	"fmt"
	"math"
	"os"
	"path/filepath"
	"sort"
	"strconv"
	"strings"
	"sync"
	"syscall"

	"github.com/openGemini/openGemini/engine"
	"github.com/openGemini/openGemini/lib/util/lifted/influx/influxql"
	"github.com/openGemini/openGemini/lib/util/lifted/vm/protoparser/influx"
)

// Field kinds of the universe; every field name has one fixed type.
var FieldNames = []string{"fb", "ff", "fi", "fs"} // sorted
var FieldTypes = map[string]int32{"fb": influx.Field_Type_Boolean, "ff": influx.Field_Type_Float, "fi": influx.Field_Type_Int, "fs": influx.Field_Type_String}
var QLTypes = map[string]influxql.DataType{"fb": influxql.Boolean, "ff": influxql.Float, "fi": influxql.Integer, "fs": influxql.String}

const BaseTime = int64(1700000000) * 1e9 // all timestamps are BaseTime + k seconds

// Cell is one field value in canonical text: int decimal, float 16 hex digits of the bit
// pattern, bool 0/1, string hex.
type Row struct {
	Mst    string
	Series int // index into the series universe
	T      int // timestamp index
	Fields map[string]string
}

func SeriesTags(i int) influx.PointTags {
	return influx.PointTags{{Key: "host", Value: fmt.Sprintf("h%d", i)}, {Key: "zone", Value: fmt.Sprintf("z%d", i%2)}}
}

func TimeOf(t int) int64 { return BaseTime + int64(t)*1e9 }

// ToInflux converts rows of one batch.
func ToInflux(rows []Row) []influx.Row {
	out := make([]influx.Row, 0, len(rows))
	for _, r := range rows {
		ir := influx.Row{Name: r.Mst, Timestamp: TimeOf(r.T)}
		ir.Tags = SeriesTags(r.Series)
		keys := make([]string, 0, len(r.Fields))
		for k := range r.Fields {
			keys = append(keys, k)
		}
		sort.Strings(keys)
		for _, k := range keys {
			v := r.Fields[k]
			f := influx.Field{Key: k, Type: FieldTypes[k]}
			switch k {
			case "fi":
				n, _ := strconv.ParseInt(v, 10, 64)
				f.NumValue = float64(n)
			case "ff":
				b, _ := strconv.ParseUint(v, 16, 64)
				f.NumValue = math.Float64frombits(b)
			case "fb":
				if v == "1" {
					f.NumValue = 1
				}
			case "fs":
				f.StrValue = v
			}
			ir.Fields = append(ir.Fields, f)
		}
		out = append(out, ir)
	}
	return out
}

// RowText is the op-line form of a row: series:time:k=v,k=v
func (r Row) Text() string {
	keys := make([]string, 0, len(r.Fields))
	for k := range r.Fields {
		keys = append(keys, k)
	}
	sort.Strings(keys)
	var kv []string
	for _, k := range keys {
		kv = append(kv, k+"="+r.Fields[k])
	}
	return fmt.Sprintf("%d:%d:%s", r.Series, r.T, strings.Join(kv, ","))
}

func cell(v interface{}) string {
	switch x := v.(type) {
	case nil:
		return "_"
	case int64:
		return strconv.FormatInt(x, 10)
	case float64:
		return fmt.Sprintf("%016x", math.Float64bits(x))
	case bool:
		if x {
			return "1"
		}
		return "0"
	case string:
		return x
	}
	return "?"
}

// SeriesIndex recovers the series index from a series key (…host=h<i>…).
func SeriesIndex(key string) int {
	i := strings.Index(key, "host\x00h")
	if i < 0 {
		i = strings.Index(key, "host=h")
		if i < 0 {
			return -1
		}
		i += len("host=h")
	} else {
		i += len("host\x00h")
	}
	j := i
	for j < len(key) && key[j] >= '0' && key[j] <= '9' {
		j++
	}
	n, err := strconv.Atoi(key[i:j])
	if err != nil {
		return -1
	}
	return n
}

// DumpText renders rows as "s:t:v,v,v|…" grouped by series (groups sorted by series index,
// order inside a group as returned). A series that comes back in two separate runs is
// reported with a "!split" marker.
func DumpText(rows []engine.VerifRow) string {
	type grp struct {
		s     int
		cells []string
	}
	var groups []*grp
	idx := map[int]*grp{}
	last := -2
	split := false
	for _, r := range rows {
		s := SeriesIndex(r.Series)
		g := idx[s]
		if g == nil {
			g = &grp{s: s}
			idx[s] = g
			groups = append(groups, g)
		} else if last != s {
			split = true
		}
		last = s
		var vs []string
		for _, v := range r.Vals {
			vs = append(vs, cell(v))
		}
		t := (r.Time - BaseTime) / 1e9
		if (r.Time-BaseTime)%1e9 != 0 {
			vs = append(vs, fmt.Sprintf("!time=%d", r.Time))
		}
		g.cells = append(g.cells, fmt.Sprintf("%d:%d:%s", s, t, strings.Join(vs, ",")))
	}
	sort.SliceStable(groups, func(a, b int) bool { return groups[a].s < groups[b].s })
	var all []string
	for _, g := range groups {
		all = append(all, g.cells...)
	}
	out := "rows " + strings.Join(all, "|")
	if split {
		out += " !split"
	}
	return out
}

func AllFields() []engine.VerifField {
	var fs []engine.VerifField
	for _, n := range FieldNames {
		fs = append(fs, engine.VerifField{Name: n, Type: QLTypes[n]})
	}
	return fs
}

var scratchMu sync.Mutex
var scratchN int

// ScratchDir returns a fresh directory under $VERIF_SCRATCH (or /var/tmp/verif-scratch).
func ScratchDir(prefix string) string {
	root := os.Getenv("VERIF_SCRATCH")
	if root == "" {
		root = "/var/tmp/verif-scratch"
	}
	scratchMu.Lock()
	scratchN++
	n := scratchN
	scratchMu.Unlock()
	d := filepath.Join(root, fmt.Sprintf("%s-%d-%d", prefix, os.Getpid(), n))
	os.RemoveAll(d)
	os.MkdirAll(d, 0o755)
	return d
}

// FastScratchDir is ScratchDir on a memory file system when one is there (/dev/shm with at
// least 4 GiB free): harnesses that copy and reopen thousands of small directory trees (crash
// images) spend most of their time in fsync on a disk. $VERIF_SCRATCH_FAST overrides the place,
// "off" disables it. The answers do not depend on where the scratch lives. Directories left
// behind by harness processes that no longer exist are removed first.
func FastScratchDir(prefix string) string {
	root := os.Getenv("VERIF_SCRATCH_FAST")
	if root == "off" {
		return ScratchDir(prefix)
	}
	if root == "" {
		root = "/dev/shm/verif-scratch"
	}
	scratchMu.Lock()
	if !fastChecked {
		fastChecked = true
		if err := os.MkdirAll(root, 0o755); err == nil && freeBytes(root) > 4<<30 {
			fastOK = true
			if ents, e := os.ReadDir(root); e == nil {
				for _, en := range ents {
					// <prefix>-<pid>-<n>
					f := strings.Split(en.Name(), "-")
					if len(f) < 3 {
						continue
					}
					pid, e := strconv.Atoi(f[len(f)-2])
					if e != nil || pid == os.Getpid() {
						continue
					}
					if _, e := os.Stat(fmt.Sprintf("/proc/%d", pid)); os.IsNotExist(e) {
						os.RemoveAll(filepath.Join(root, en.Name()))
					}
				}
			}
		}
	}
	ok := fastOK
	scratchN++
	n := scratchN
	scratchMu.Unlock()
	if !ok {
		return ScratchDir(prefix)
	}
	d := filepath.Join(root, fmt.Sprintf("%s-%d-%d", prefix, os.Getpid(), n))
	os.RemoveAll(d)
	os.MkdirAll(d, 0o755)
	return d
}

var fastChecked, fastOK bool

func freeBytes(dir string) uint64 {
	var st syscall.Statfs_t
	if err := syscall.Statfs(dir, &st); err != nil {
		return 0
	}
	return st.Bavail * uint64(st.Bsize)
}
