// C20, skip indexes: the min-max reader on every column type.
//
//	mmt <i|o> <index record> <cond…>   =>   may <0/1/e per fragment>
//
// A sorted data column (int / float / string / bool, no nulls) cut into fragments; the index
// record holds the fragment boundaries (first row, first row of every further fragment, last row:
// the layout of the primary-key index writer — the min-max writer itself is a stub). The real
// MinMaxIndexReader (test ReadFunc) answers MayBeInFragment(0..n-1) in order; the model answers
// the same; spec diff: a fragment holding a row that satisfies the condition is answered 1.
package c20

import (
	"fmt"
	"sort"
	"strings"

	"github.com/openGemini/openGemini/engine/index/sparseindex"
	"github.com/openGemini/openGemini/lib/record"
	"github.com/openGemini/openGemini/lib/rpn"
	"github.com/openGemini/openGemini/lib/util/lifted/influx/influxql"
	"github.com/openGemini/openGemini/lib/util/lifted/influx/query"

	"verif/harness/internal/hx"
)

func runMinMaxTyped(c *hx.Ctx, r *hx.Rng) {
	t := colType(r.Intn(4))
	tc := &tcase{types: []colType{t}, otherT: t}
	n := 1 + r.Intn(24)
	dom := 2 + r.Intn(8)
	if t == tString && r.Chance(20) {
		dom = 10 + r.Intn(len(strDomain2))
	}
	for i := 0; i < n; i++ {
		v := genVal(r, t, dom, 0)
		tc.rows = append(tc.rows, []val{v, v})
	}
	sort.SliceStable(tc.rows, func(a, b int) bool { return cmpVal(t, tc.rows[a][0], tc.rows[b][0]) < 0 })
	k := 1 + r.Intn(4)
	nfrag := (n + k - 1) / k
	idx := []val{tc.rows[0][0]}
	for f := 0; f < nfrag; f++ {
		p := k * (f + 1)
		if p > n-1 {
			p = n - 1
		}
		idx = append(idx, tc.rows[p][0])
	}
	cnd := genCond(r, tc, 1+r.Intn(2), dom+2)
	cnd.walk(func(x *cond) {
		if x.kind == 'O' {
			x.kind, x.col = 'A', 0
			x.c = genVal(r, t, dom+2, 0)
		}
	})
	text := strings.ReplaceAll(cnd.text(tc), "k0", "value")
	enc := &encoder{t: t}
	for _, v := range idx {
		enc.add(v)
	}
	cnd.walk(func(x *cond) {
		if x.kind == 'A' {
			enc.add(x.c)
		}
	})
	enc.finish()
	var recS []string
	for _, v := range idx {
		recS = append(recS, enc.enc(v))
	}
	ty := "o"
	if t == tInt {
		ty = "i"
	}
	op := fmt.Sprintf("mmt %s %s %s", ty, strings.Join(recS, ","), cnd.modelText([]*encoder{enc}))
	res := ""
	pe := hx.Safe(func() {
		p := influxql.NewParser(strings.NewReader(text))
		expr, perr := p.ParseExpr()
		p.Release()
		if perr != nil {
			res = "err parse"
			return
		}
		schema := record.Schemas{{Name: "value", Type: t.influx()}}
		option := &query.ProcessorOptions{Condition: expr}
		rd, err := sparseindex.NewMinMaxIndexReader(rpn.ConvertToRPNExpr(option.GetCondition()), schema, option, true)
		if err != nil {
			res = "err new"
			return
		}
		rd.ReadFunc = func(file interface{}, rc *record.Record, isCache bool) (*record.Record, error) {
			rc = record.NewRecord(record.Schemas{{Name: "value", Type: t.influx()}}, false)
			for _, v := range idx {
				appendVal(rc.Column(0), t, v)
			}
			return rc, nil
		}
		if err = rd.ReInit("f.tssp"); err != nil {
			res = "err reinit"
			return
		}
		var sb strings.Builder
		sb.WriteString("may ")
		for f := 0; f < nfrag; f++ {
			ok, e := rd.MayBeInFragment(uint32(f))
			switch {
			case e != nil:
				sb.WriteByte('e')
			case ok:
				sb.WriteByte('1')
			default:
				sb.WriteByte('0')
			}
		}
		res = sb.String()
	})
	if pe != "" {
		res = "err panic"
	}
	line := c.Emit(op, res)
	c.Case(op, strings.Contains(res, "0") && strings.Contains(res, "1"))
	c.Count("skip:minmax-typed-" + []string{"int", "float", "string", "bool"}[t])
	if !strings.HasPrefix(res, "may ") {
		c.Violation(line, "", "min-max reader fails: "+res+" "+op+" ["+text+"]")
		return
	}
	ans := res[4:]
	for f := 0; f < nfrag && f < len(ans); f++ {
		has := false
		for i := f * k; i < (f+1)*k && i < n; i++ {
			if cnd.sat(tc, tc.rows[i]) {
				has = true
			}
		}
		if has && ans[f] != '1' {
			c.Violation(line, "", fmt.Sprintf("min-max index (boundary layout, %s column): fragment %d holds a row satisfying %s and is answered %c; %s => %s", []string{"int", "float", "string", "bool"}[t], f, text, ans[f], op, res))
		}
	}
}

// mmn <index record with N> <cond…>   =>   may <1/0/e per fragment, p = panic (run stops)> [sentinel-corrupted]
//
// The same reader over an integer index record that holds nulls. A null bound of a fragment after
// the first is replaced by the package-level sentinel NEGATIVE_INFINITY; the next call writes its
// fragment number into that sentinel and panics on its nil column list. The sentinel is shared with
// the primary-key condition code, so the harness restores it after every case (and reports that it
// had to). Exact-output op (the model predicts answers, panic position and corruption); the reader
// cannot be reached by a query (nil ReadFunc, stub writer), so this is fidelity, not a finding.
func runMinMaxNull(c *hx.Ctx, r *hx.Rng) {
	tc := &tcase{types: []colType{tInt}, otherT: tInt}
	n := 2 + r.Intn(7)
	rec := make([]val, n)
	nullPct := []int{10, 25, 50}[r.Intn(3)]
	for i := range rec {
		if !r.Chance(nullPct) {
			rec[i] = val{ok: true, i: int64(r.Intn(9)) - 1}
		}
		tc.rows = append(tc.rows, []val{rec[i], {ok: true}})
	}
	cnd := genCond(r, tc, 1+r.Intn(2), 7)
	cnd.walk(func(x *cond) {
		if x.kind == 'O' || (x.kind == 'A' && !x.c.ok) {
			x.kind, x.col = 'A', 0
			x.c = val{ok: true, i: int64(r.Intn(9)) - 1}
		}
	})
	text := strings.ReplaceAll(cnd.text(tc), "k0", "value")
	enc := &encoder{t: tInt}
	var recS []string
	for _, v := range rec {
		recS = append(recS, enc.enc(v))
	}
	op := fmt.Sprintf("mmn %s %s", strings.Join(recS, ","), cnd.modelText([]*encoder{enc}))
	var sb strings.Builder
	sb.WriteString("may ")
	res := ""
	setup := hx.Safe(func() {
		p := influxql.NewParser(strings.NewReader(text))
		expr, perr := p.ParseExpr()
		p.Release()
		if perr != nil {
			res = "err parse"
			return
		}
		schema := record.Schemas{{Name: "value", Type: tInt.influx()}}
		option := &query.ProcessorOptions{Condition: expr}
		rd, err := sparseindex.NewMinMaxIndexReader(rpn.ConvertToRPNExpr(option.GetCondition()), schema, option, true)
		if err != nil {
			res = "err new"
			return
		}
		rd.ReadFunc = func(file interface{}, rc *record.Record, isCache bool) (*record.Record, error) {
			rc = record.NewRecord(record.Schemas{{Name: "value", Type: tInt.influx()}}, false)
			for _, v := range rec {
				appendVal(rc.Column(0), tInt, v)
			}
			return rc, nil
		}
		if err = rd.ReInit("f.tssp"); err != nil {
			res = "err reinit"
			return
		}
		for f := 0; f+1 < n; f++ {
			var ok bool
			var e error
			if pe := hx.Safe(func() { ok, e = rd.MayBeInFragment(uint32(f)) }); pe != "" {
				sb.WriteByte('p')
				break
			}
			switch {
			case e != nil:
				sb.WriteByte('e')
			case ok:
				sb.WriteByte('1')
			default:
				sb.WriteByte('0')
			}
		}
	})
	if setup != "" {
		res = "err panic"
	}
	if res == "" {
		res = sb.String()
		if !sparseindex.NEGATIVE_INFINITY.IsNegativeInfinity() {
			res += " sentinel-corrupted"
			c.Count("minmax:null-bound-corrupts-NEGATIVE_INFINITY")
		}
	}
	sparseindex.NEGATIVE_INFINITY.SetNegativeInfinity() // the primary-key code of later cases shares it
	c.Emit(op, res)
	c.Case(op, strings.Contains(res, "p"))
	c.Count("skip:minmax-null")
}
