// C20: readers and conditions as the stateful objects they are. In a query ONE PKIndexReader, ONE
// key condition and ONE set of skip-index file readers (ReInit per file) serve every data file.
//
//	scanseq 1 <types> <coarse> <minMarks> 1 <marks of file 1>/<marks of file 2>/… <cond…>
//	        => seq ranges … | ranges … | …        one real reader + one real key condition, files in the
//	           given order (permutations, a file scanned again later), different index contents,
//	           fragment counts, fragment sizes, fixed and variable-size fragments
//	seqs    a session: the same, interleaved in time with the files of one skip-index reader set
//	        (CreateSKFileReaders once; per file ReInit + Scan); emitted as the ordinary per-file lines
//	        `scan …` / `bloom …` / `bloomx …`, so the model's answer for every file is the answer of a
//	        fresh reader (scan_is_stateless) and any state carried over shows as a diff on that line.
//
// Spec diff per file by the row oracle; the description of a violation names the whole sequence.
package c20

import (
	"fmt"
	"os"
	"path/filepath"
	"sort"
	"strings"

	"github.com/openGemini/openGemini/engine"
	"github.com/openGemini/openGemini/engine/executor"
	"github.com/openGemini/openGemini/engine/immutable"
	"github.com/openGemini/openGemini/engine/immutable/colstore"
	"github.com/openGemini/openGemini/engine/index"
	"github.com/openGemini/openGemini/engine/index/sparseindex"
	"github.com/openGemini/openGemini/lib/fragment"
	"github.com/openGemini/openGemini/lib/record"
	"github.com/openGemini/openGemini/lib/util"
	"github.com/openGemini/openGemini/lib/util/lifted/influx/influxql"
	"github.com/openGemini/openGemini/lib/util/lifted/influx/query"
	"github.com/openGemini/openGemini/lib/util/lifted/vm/protoparser/influx"

	"verif/harness/internal/hx"
)

// pkFile is one data file of a sequence: sorted key rows, its fragments, its primary index.
type pkFile struct {
	id       int
	rows     [][]val
	fragSize int
	fix      []int // row offsets handed to the index writer
	variable bool
	pkRec    *record.Record
	pkMark   fragment.IndexFragment
	marks    [][]val
}

func genPKFile(r *hx.Rng, tc *tcase, id int) *pkFile {
	w := len(tc.types)
	f := &pkFile{id: id}
	n := 1 + r.Intn(30)
	nullPct := 0
	if r.Chance(20) {
		nullPct = 15
	}
	dom := 2 + r.Intn(6)
	for i := 0; i < n; i++ {
		row := make([]val, w+1)
		for j := 0; j < w; j++ {
			row[j] = genVal(r, tc.types[j], dom, nullPct)
			if tc.types[j] == tInt && r.Chance(50) {
				row[j].i += int64(id * 3) // files with shifted key ranges
			}
		}
		row[w] = genVal(r, tc.otherT, dom, 0)
		f.rows = append(f.rows, row)
	}
	sort.SliceStable(f.rows, func(a, b int) bool {
		for j := 0; j < w; j++ {
			if c := cmpVal(tc.types[j], f.rows[a][j], f.rows[b][j]); c != 0 {
				return c < 0
			}
		}
		return false
	})
	f.fragSize = 1 + r.Intn(6)
	if r.Chance(25) && n > 1 {
		f.variable = true
		for pos := 0; ; {
			pos += 1 + r.Intn(2*f.fragSize)
			if pos >= n-1 {
				break
			}
			f.fix = append(f.fix, pos)
		}
		f.fix = append(f.fix, n-1)
	}
	return f
}

func (f *pkFile) build(tc *tcase) error {
	w := len(tc.types)
	var schema record.Schemas
	for j := 0; j < w; j++ {
		schema = append(schema, record.Field{Name: fmt.Sprintf("k%d", j), Type: tc.types[j].influx()})
	}
	data := record.NewRecord(schema, false)
	for _, row := range f.rows {
		for j := 0; j < w; j++ {
			appendVal(data.Column(j), tc.types[j], row[j])
		}
	}
	fixRows := f.fragSize
	if f.variable {
		fixRows = 0
	} else {
		f.fix = immutable.GenFixRowsPerSegment(data, f.fragSize)
	}
	var err error
	f.pkRec, f.pkMark, err = sparseindex.NewPKIndexWriter().Build(data, schema, f.fix, colstore.DefaultTCLocation, fixRows)
	if err != nil {
		return err
	}
	for i := 0; i < f.pkRec.RowNums(); i++ {
		m := make([]val, w)
		for j := 0; j < w; j++ {
			m[j] = readVal(f.pkRec.Column(j), tc.types[j], i)
		}
		f.marks = append(f.marks, m)
	}
	return nil
}

// fragRows: the rows of fragment i.
func (f *pkFile) fragRows(i, nFrag int) (lo, hi int) {
	if !f.variable {
		return i * f.fragSize, (i + 1) * f.fragSize
	}
	lo, hi = 0, f.fix[i]
	if i > 0 {
		lo = f.fix[i-1]
	}
	if i == nFrag-1 {
		hi = len(f.rows)
	}
	return
}

func (f *pkFile) marksText(encs []*encoder) string {
	var ms []string
	for i := range f.marks {
		var cells []string
		for j := range encs {
			cells = append(cells, encs[j].enc(f.marks[i][j]))
		}
		ms = append(ms, strings.Join(cells, ","))
	}
	return strings.Join(ms, ";")
}

// missedFragments: fragments of f that hold a row satisfying the condition and are not in fr.
func (f *pkFile) missedFragments(tc *tcase, fr fragment.FragmentRanges) (missed []int, pruned, kept int) {
	nFrag := int(f.pkMark.GetFragmentCount())
	for i := 0; i < nFrag; i++ {
		if covered(fr, uint32(i)) {
			kept++
			continue
		}
		pruned++
		lo, hi := f.fragRows(i, nFrag)
		for r := lo; r < hi && r < len(f.rows); r++ {
			if tc.c.sat(tc, f.rows[r]) {
				missed = append(missed, i)
				break
			}
		}
	}
	return
}

// pkSession: one reader and one key condition, as a query builds them.
type pkSession struct {
	tc      *tcase
	files   []*pkFile
	order   []int
	encs    []*encoder
	types   string
	coarse  int
	minRows int
	rpf     int
	rd      *sparseindex.PKIndexReaderImpl
	kc      sparseindex.KeyCondition
}

func genPKSession(r *hx.Rng) (*pkSession, error) {
	w := 1 + r.Intn(3)
	tc := &tcase{}
	for i := 0; i < w; i++ {
		tc.types = append(tc.types, colType(r.Intn(4)))
	}
	tc.otherT = colType(r.Intn(3))
	s := &pkSession{tc: tc}
	nf := 2 + r.Intn(3)
	for i := 0; i < nf; i++ {
		f := genPKFile(r, tc, i)
		if err := f.build(tc); err != nil {
			return nil, err
		}
		s.files = append(s.files, f)
		tc.rows = append(tc.rows, f.rows...) // condition constants are drawn from values that occur
	}
	tc.c = genCond(r, tc, 1+r.Intn(3), 2+r.Intn(6))
	// scan order: any permutation; sometimes a file is scanned again later
	for i := range s.files {
		s.order = append(s.order, i)
	}
	for i := len(s.order) - 1; i > 0; i-- {
		j := r.Intn(i + 1)
		s.order[i], s.order[j] = s.order[j], s.order[i]
	}
	if r.Chance(35) {
		s.order = append(s.order, s.order[r.Intn(len(s.order))])
	}
	s.rpf = 1 + r.Intn(6)
	s.coarse = []int{2, 2, 3, 8}[r.Intn(4)]
	s.minRows = []int{0, 0, s.rpf * 2, s.rpf*3 + 1}[r.Intn(4)]
	for j := range tc.types {
		e := &encoder{t: tc.types[j]}
		for _, f := range s.files {
			for _, m := range f.marks {
				e.add(m[j])
			}
		}
		s.encs = append(s.encs, e)
	}
	tc.c.walk(func(c *cond) {
		if c.kind == 'A' {
			s.encs[c.col].add(c.c)
		}
	})
	for j := range s.encs {
		s.encs[j].finish()
		if tc.types[j] == tInt {
			s.types += "i"
		} else {
			s.types += "o"
		}
	}
	text := tc.c.text(tc)
	p := influxql.NewParser(strings.NewReader(text))
	expr, perr := p.ParseExpr()
	p.Release()
	if perr != nil {
		return nil, fmt.Errorf("parse %q: %w", text, perr)
	}
	var schema record.Schemas
	for j := 0; j < w; j++ {
		schema = append(schema, record.Field{Name: fmt.Sprintf("k%d", j), Type: tc.types[j].influx()})
	}
	kc, kerr := sparseindex.NewKeyCondition(nil, expr, schema)
	if kerr != nil {
		return nil, fmt.Errorf("keycond %q: %w", text, kerr)
	}
	s.kc = kc
	s.rd = sparseindex.NewPKIndexReader(s.rpf, s.coarse, s.minRows)
	return s, nil
}

func (s *pkSession) minMarks() int { return (s.minRows + s.rpf - 1) / s.rpf }

// scan the k-th file of the order with the session's reader and condition.
func (s *pkSession) scan(k int) (f *pkFile, ans string, fr fragment.FragmentRanges) {
	f = s.files[s.order[k]]
	var err error
	if pe := hx.Safe(func() { fr, err = s.rd.Scan(fmt.Sprintf("f%d.idx", f.id), f.pkRec, f.pkMark, s.kc) }); pe != "" {
		return f, "err " + pe, nil
	} else if err != nil {
		return f, "err scan", nil
	}
	return f, rangesText(fr), fr
}

func (s *pkSession) describe() string {
	var parts []string
	for _, i := range s.order {
		f := s.files[i]
		parts = append(parts, fmt.Sprintf("file%d(%d rows, %d fragments)", i, len(f.rows), f.pkMark.GetFragmentCount()))
	}
	return fmt.Sprintf("one PKIndexReader(coarse %d) + one key condition [%s] over %s", s.coarse, s.tc.c.text(s.tc), strings.Join(parts, " -> "))
}

func runScanSeq(c *hx.Ctx, r *hx.Rng) {
	s, err := genPKSession(r)
	if err != nil {
		c.Count("skipped:" + strings.SplitN(err.Error(), ":", 2)[0])
		return
	}
	var marks, answers []string
	type res struct {
		f  *pkFile
		fr fragment.FragmentRanges
		ok bool
	}
	var results []res
	for k := range s.order {
		f, ans, fr := s.scan(k)
		marks = append(marks, f.marksText(s.encs))
		answers = append(answers, ans)
		results = append(results, res{f, fr, !strings.HasPrefix(ans, "err")})
	}
	op := fmt.Sprintf("scanseq 1 %s %d %d 1 %s %s", s.types, s.coarse, s.minMarks(), strings.Join(marks, "/"), s.tc.c.modelText(s.encs))
	ans := "seq " + strings.Join(answers, " | ")
	line := c.Emit(op, ans)
	c.Count(fmt.Sprintf("seq:pk-files-%d", len(s.order)))
	nontrivial := false
	for k, x := range results {
		if !x.ok {
			c.Violation(line, "panic", fmt.Sprintf("%s: scan %d fails: %s", s.describe(), k, answers[k]))
			continue
		}
		missed, pruned, kept := x.f.missedFragments(s.tc, x.fr)
		if pruned > 0 && kept > 0 {
			nontrivial = true
		}
		if len(missed) > 0 {
			c.Violation(line, "", fmt.Sprintf("%s: scan %d (file%d): fragments %v hold a matching row but were pruned, kept %s", s.describe(), k, x.f.id, missed, answers[k]))
		}
	}
	c.Case(op, nontrivial)
}

// ---------------------------------------------------------------------------------------------
// skip-index reader set over several files

type skSession struct {
	files   []*bcase // same relation, condition, rpf, minRows; own rows / blocks / ranges
	readers []sparseindex.SKFileReader
	rd      *sparseindex.SKIndexReaderImpl
	dir     string
	created string // "" or the error answer of CreateSKFileReaders
}

func genSKSession(r *hx.Rng, work string) (*skSession, error) {
	b0 := genBCase(r)
	s := &skSession{files: []*bcase{b0}}
	nf := 1 + r.Intn(3)
	for i := 0; i < nf; i++ {
		b := *b0
		b.rows, b.segEnds = nil, nil
		nseg := 1 + r.Intn(6)
		n := nseg*b.rpf - r.Intn(b.rpf)
		nullPct := []int{0, 0, 10, 30}[r.Intn(4)]
		for k := 0; k < n; k++ {
			row := make([]sval, b.numCols())
			for f := range row {
				if !r.Chance(nullPct) {
					row[f] = sval{ok: true, s: genText(r)}
				}
			}
			b.rows = append(b.rows, row)
		}
		for sg := 1; sg <= nseg; sg++ {
			e := sg * b.rpf
			if e > n {
				e = n
			}
			b.segEnds = append(b.segEnds, e)
		}
		b.ranges = genRanges(r, nseg, 0)
		s.files = append(s.files, &b)
	}
	// phrases that panic in the query tokenizer would end the session at the first file
	b0.cond.walk(func(a *bcond) {
		if a.kind == 'A' && !validUTF8Prefixes(a.v) {
			a.v = "hello"
		}
	})
	ms := "s"
	s.dir = filepath.Join(work, ms)
	if err := os.MkdirAll(s.dir, 0o755); err != nil {
		return nil, err
	}
	rel := b0.relation()
	var schema record.Schemas
	for f := 0; f < b0.numCols(); f++ {
		schema = append(schema, record.Field{Name: b0.fieldName(f), Type: influx.Field_Type_String})
	}
	for i, b := range s.files {
		base := fmt.Sprintf("0000000%d-0001-00000001", i+1)
		rec := record.NewRecord(schema, false)
		for _, row := range b.rows {
			for f, x := range row {
				if x.ok {
					rec.Column(f).AppendString(x.s)
				} else {
					rec.Column(f).AppendStringNull()
				}
			}
		}
		werr := ""
		if pe := hx.Safe(func() {
			wb := index.NewIndexWriterBuilder()
			wb.NewIndexWriters(work, ms, base, "", schema, *rel)
			ws := wb.GetSkipIndexWriters()
			idx := wb.GetSchemaIdxes()
			for k := range ws {
				if err := ws[k].CreateAttachIndex(rec, idx[k], b.segEnds); err != nil {
					werr = err.Error()
					return
				}
			}
		}); pe != "" || werr != "" {
			return nil, fmt.Errorf("write: %s%s", pe, werr)
		}
		if len(b.colsOf("ft")) > 0 { // attached full-text file name the TSSP-file reader asks for
			os.Rename(filepath.Join(s.dir, base+".fullText.bf"), filepath.Join(s.dir, base+".bloomfilter_fullText.bf"))
		}
	}
	ents, _ := os.ReadDir(s.dir)
	for _, e := range ents {
		if strings.HasSuffix(e.Name(), ".init") {
			os.Rename(filepath.Join(s.dir, e.Name()), filepath.Join(s.dir, strings.TrimSuffix(e.Name(), ".init")))
		}
	}
	mst := &influxql.Measurement{Name: ms, IndexRelation: rel}
	option := &query.ProcessorOptions{Condition: b0.cond.ast(b0), Sources: []influxql.Source{mst}}
	s.rd = sparseindex.NewSKIndexReader(b0.rpf, 2, b0.minRows)
	if pe := hx.Safe(func() {
		var err error
		s.readers, err = s.rd.CreateSKFileReaders(option, mst, true)
		if err != nil {
			s.created = "err create"
		}
	}); pe != "" {
		s.created = "err panic"
	}
	return s, nil
}

func (s *skSession) close() { os.RemoveAll(s.dir) }

// scan file i with the session's readers: ReInit + Scan per reader, as the engine loops.
func (s *skSession) scan(i int) (b *bcase, res string, out fragment.FragmentRanges) {
	b = s.files[i]
	if s.created != "" {
		return b, s.created, nil
	}
	base := fmt.Sprintf("0000000%d-0001-00000001", i+1)
	pe := hx.Safe(func() {
		var err error
		out = toFR(b.ranges)
		for k := range s.readers {
			if err = s.readers[k].ReInit(&mockTssp{path: filepath.Join(s.dir, base+".tssp")}); err != nil {
				res = "err reinit"
				return
			}
			if out, err = s.rd.Scan(s.readers[k], out); err != nil {
				res = "err scan"
				return
			}
		}
		res = rangesText(out)
	})
	if pe != "" {
		res = "err panic"
	}
	return
}

// runSession: one primary-key reader + condition and one skip-index reader set, their files
// interleaved in time; every file is emitted as its ordinary op line.
func runSession(c *hx.Ctx, r *hx.Rng, work string) error {
	ps, err := genPKSession(r)
	if err != nil {
		c.Count("skipped:" + strings.SplitN(err.Error(), ":", 2)[0])
		return nil
	}
	ss, err := genSKSession(r, work)
	if err != nil {
		c.Count("skipped:sk-session")
		return nil
	}
	defer ss.close()
	skOrder := make([]int, len(ss.files))
	for i := range skOrder {
		skOrder[i] = i
	}
	for i := len(skOrder) - 1; i > 0; i-- {
		j := r.Intn(i + 1)
		skOrder[i], skOrder[j] = skOrder[j], skOrder[i]
	}
	if r.Chance(30) {
		skOrder = append(skOrder, skOrder[0]) // back to a file seen before
	}
	c.Count("seq:sessions")
	pi, si := 0, 0
	var trail []string
	for pi < len(ps.order) || si < len(skOrder) {
		if si >= len(skOrder) || (pi < len(ps.order) && r.Bool()) {
			f, ans, fr := ps.scan(pi)
			op := fmt.Sprintf("scan 1 %s %d %d 1 %s %s", ps.types, ps.coarse, ps.minMarks(), f.marksText(ps.encs), ps.tc.c.modelText(ps.encs))
			line := c.Emit(op, ans)
			trail = append(trail, fmt.Sprintf("pk:file%d", f.id))
			c.Count("seq:session-pk-scan")
			if strings.HasPrefix(ans, "err") {
				c.Violation(line, "panic", fmt.Sprintf("session %v, %s: %s", trail, ps.describe(), ans))
			} else {
				missed, pruned, kept := f.missedFragments(ps.tc, fr)
				c.Case(op, pruned > 0 && kept > 0)
				if len(missed) > 0 {
					c.Violation(line, "", fmt.Sprintf("session %v, %s: file%d: fragments %v hold a matching row but were pruned, kept %s", trail, ps.describe(), f.id, missed, ans))
				}
			}
			pi++
			continue
		}
		i := skOrder[si]
		b, res, out := ss.scan(i)
		op := b.opLine()
		line := c.Emit(op, res)
		trail = append(trail, fmt.Sprintf("sk:file%d", i))
		c.Count("seq:session-sk-scan-" + b.kind)
		if strings.HasPrefix(res, "err") {
			c.Count("seq:sk-answer-" + strings.ReplaceAll(res, " ", "-"))
			if res == "err panic" {
				c.Violation(line, "panic", fmt.Sprintf("session %v: skip-index readers reused over files: %s", trail, op))
			}
		} else {
			pruned, kept := 0, 0
			byClass := map[string][]uint32{}
			for _, rg := range b.ranges {
				for j := rg.s; j < rg.e; j++ {
					if covered(out, j) {
						kept++
						continue
					}
					pruned++
					st := 0
					if j > 0 {
						st = b.segEnds[j-1]
					}
					for _, row := range b.rows[st:b.segEnds[j]] {
						if b.cond.holds(b, row) {
							cl := b.classify(row)
							byClass[cl] = append(byClass[cl], j)
							break
						}
					}
				}
			}
			c.Case(op, pruned > 0 && kept > 0)
			for _, k := range hx.SortedKeys(byClass) {
				c.Violation(line, k, fmt.Sprintf("session %v (one skip-index reader set, ReInit per file): file%d: fragments %v hold a row satisfying the condition and were pruned; %s => %s", trail, i, byClass[k], op, res))
			}
		}
		si++
	}
	return nil
}

// ---------------------------------------------------------------------------------------------
// the production caller itself: engine.attachedIndexReader.Next over the files of a query.
// NewIndexContext builds the one PKIndexReader / SKIndexReader of the query, Init the one key
// condition (initKeyCondition on the first file's index schema), Next scans every file with them.
// Emitted as a `scanseq` line with the engine's index property (coarse 8, no seek threshold).

type fakeTssp struct {
	immutable.TSSPFile
	path string
}

func (f *fakeTssp) Path() string { return f.path }

func runScanProd(c *hx.Ctx, r *hx.Rng) {
	s, err := genPKSession(r)
	if err != nil {
		c.Count("skipped:" + strings.SplitN(err.Error(), ":", 2)[0])
		return
	}
	var files []immutable.TSSPFile
	var infos []*colstore.PKInfo
	var marks []string
	for k := range s.order {
		f := s.files[s.order[k]]
		files = append(files, &fakeTssp{path: fmt.Sprintf("/nonexistent/%08d-0001-0000000%d.tssp", k+1, f.id)})
		infos = append(infos, colstore.NewPKInfo(f.pkRec, f.pkMark, colstore.DefaultTCLocation))
		marks = append(marks, f.marksText(s.encs))
	}
	text := s.tc.c.text(s.tc)
	p := influxql.NewParser(strings.NewReader(text))
	expr, perr := p.ParseExpr()
	p.Release()
	if perr != nil {
		c.Count("skipped:parse")
		return
	}
	coarse := colstore.CoarseIndexFragment
	minMarks := (colstore.MinRowsForSeek + util.RowsNumPerFragment - 1) / util.RowsNumPerFragment
	op := fmt.Sprintf("scanseq 1 %s %d %d 1 %s %s", s.types, coarse, minMarks, strings.Join(marks, "/"), s.tc.c.modelText(s.encs))
	answers := make([]string, len(files))
	kept := make([]fragment.FragmentRanges, len(files))
	ans := ""
	pe := hx.Safe(func() {
		opt := &query.ProcessorOptions{Condition: expr, StartTime: influxql.MinTime, EndTime: influxql.MaxTime,
			Sources: []influxql.Source{&influxql.Measurement{Name: "m"}}}
		schema := executor.NewQuerySchema(nil, nil, opt, nil)
		rd := engine.NewAttachedIndexReader(engine.NewIndexContext(false, 0, schema, ""), executor.NewAttachedIndexInfo(files, infos), nil)
		frags, err := rd.Next()
		if err != nil {
			ans = "err next"
			return
		}
		for i := range answers {
			answers[i] = "ranges"
		}
		if frags != nil {
			idx, _ := frags.Indexes().([]immutable.TSSPFile)
			frs := frags.FragRanges()
			for i := range idx {
				for k := range files {
					if files[k] == idx[i] {
						answers[k] = rangesText(frs[i])
						kept[k] = frs[i]
					}
				}
			}
		}
		ans = "seq " + strings.Join(answers, " | ")
	})
	if pe != "" {
		ans = "err panic"
	}
	line := c.Emit(op, ans)
	c.Count("seq:production-caller-attachedIndexReader.Next")
	if strings.HasPrefix(ans, "err") {
		c.Violation(line, "panic", "attachedIndexReader.Next: "+ans+" "+s.describe())
		c.Case(op, false)
		return
	}
	nontrivial := false
	for k := range files {
		f := s.files[s.order[k]]
		missed, pruned, kp := f.missedFragments(s.tc, kept[k])
		if pruned > 0 && kp > 0 {
			nontrivial = true
		}
		if len(missed) > 0 {
			c.Violation(line, "", fmt.Sprintf("attachedIndexReader.Next (the query's one reader and key condition) over %s: file %d of the query (file%d): fragments %v hold a matching row but were pruned, kept %s", s.describe(), k, f.id, missed, answers[k]))
		}
	}
	c.Case(op, nontrivial)
}
