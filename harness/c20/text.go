// C20, skip indexes: the text (inverted) index of engine/index/textindex.
//
//	text <rpf> <minRows> <ranges> <nIdx> <segments> <cond…>
//
// Index written by the real writer (index.NewIndexWriters -> textindex.TextIndexWriter, cgo
// builder) over the string columns 0..nIdx-1 of a generated record (+ an unindexed column x),
// read by the reader the real CreateSKFileReaders builds (TextIndexReader: ReInit + Scan).
// Exact-output diff against the token-level model (OG/C20/SkipText.lean); spec diff by the
// brute-force row oracle, every miss classified with independent re-implementations of the two
// tokenizers.
package c20

import (
	"fmt"
	"os"
	"path/filepath"
	"sort"
	"strings"
	"unicode/utf8"

	"github.com/openGemini/openGemini/engine/index"
	"github.com/openGemini/openGemini/engine/index/sparseindex"
	"github.com/openGemini/openGemini/lib/fragment"
	"github.com/openGemini/openGemini/lib/record"
	"github.com/openGemini/openGemini/lib/util/lifted/influx/influxql"
	"github.com/openGemini/openGemini/lib/util/lifted/influx/query"
	"github.com/openGemini/openGemini/lib/util/lifted/vm/protoparser/influx"

	"verif/harness/internal/hx"
)

func u8width(c byte) int {
	switch {
	case c < 0x80:
		return 1
	case c < 0xe0:
		return 2
	case c < 0xf0:
		return 3
	case c < 0xf8:
		return 4
	case c < 0xfc:
		return 5
	}
	return 6
}

// txWriteTokens: what the write side stores for a value — ASCII runs between separators, one token
// per multi-byte character.
func txWriteTokens(s string) map[string]bool {
	out := map[string]bool{}
	for _, t := range txQueryTokens(s) { // the two sides cut alike (since fix 0f0f78c)
		out[t] = true
	}
	return out
}

// txQueryTokens: the tokens the query side looks up for a literal.
func txQueryTokens(s string) []string {
	var out []string
	i := 0
	for i < len(s) {
		c := s[i]
		switch {
		case c < 0x80 && contentSplit[c]:
			i++
		case c < 0x80:
			j := i
			for j < len(s) && s[j] < 0x80 && !contentSplit[s[j]] {
				j++
			}
			out = append(out, s[i:j])
			i = j
		default:
			j := i + u8width(c)
			if j > len(s) {
				j = len(s)
			}
			out = append(out, s[i:j])
			i = j
		}
	}
	return out
}

func txValidText(s string) bool {
	if !validUTF8Prefixes(s) {
		return false
	}
	for i := 0; i < len(s); i++ {
		if s[i] >= 0xf8 {
			return false
		}
	}
	return true
}

func (b *bcase) classifyText(row []sval) string {
	classes := map[string]bool{}
	schema := b.schemaOf("tx")
	b.cond.walk(func(a *bcond) {
		if a.kind != 'A' || a.field < 0 || !hasInt(schema, a.field) || (a.op != "mp" && a.op != "eq") {
			return
		}
		x := row[a.field]
		if !atomHolds(a.op, x, a.v) {
			return
		}
		q := txQueryTokens(a.v)
		if len(q) == 0 {
			classes["text_phrase_without_token_prunes_all"] = true
			return
		}
		w := txWriteTokens(x.s)
		for _, t := range q {
			if !w[t] {
				if !utf8.ValidString(x.s) {
					// both tokenizers take the width of a character from its first byte alone: a stray
					// continuation byte or a lead byte without its continuation bytes (Latin-1 text)
					// swallows the ASCII bytes behind it, while the row matcher cuts at every byte >= 0x80
					classes["text_malformed_utf8_swallows_following_bytes"] = true
				} else {
					classes["unexplained"] = true
				}
			}
		}
	})
	for _, k := range []string{"unexplained", "text_phrase_without_token_prunes_all", "text_malformed_utf8_swallows_following_bytes"} {
		if classes[k] {
			if k == "unexplained" {
				return ""
			}
			return k
		}
	}
	return ""
}

func runText(c *hx.Ctx, r *hx.Rng, work string) error {
	b := &bcase{kind: "tx", split: "c", nIdx: 1 + r.Intn(2)}
	b.rpf = 1 + r.Intn(4)
	nseg := 1 + r.Intn(6)
	if r.Chance(8) {
		nseg = 17 + r.Intn(20) // more than one part (16 segments per part)
	}
	n := nseg*b.rpf - r.Intn(b.rpf)
	nullPct := []int{0, 0, 10, 30}[r.Intn(4)]
	for i := 0; i < n; i++ {
		row := make([]sval, b.numCols())
		for f := range row {
			if r.Chance(nullPct) {
				continue
			}
			s := genText(r)
			for !txValidText(s) {
				s = genText(r)
			}
			if r.Chance(6) {
				// Latin-1 / truncated text: a lead byte followed by ASCII bytes becomes one token that
				// shares its first byte with well-formed characters (华 为 云 日 本) of other rows
				s += []string{" ", "", "."}[r.Intn(3)] + []string{"\xe5nt", "\xe4x1", "\xe6ab", "caf\xe9 a"}[r.Intn(4)]
			}
			row[f] = sval{ok: true, s: s}
		}
		b.rows = append(b.rows, row)
	}
	for s := 1; s <= nseg; s++ {
		e := s * b.rpf
		if e > n {
			e = n
		}
		b.segEnds = append(b.segEnds, e)
	}
	b.minRows = []int{0, 0, b.rpf * 2, 1}[r.Intn(4)]
	b.ranges = genRanges(r, nseg, 0)
	b.cond = genBCond(r, b, r.Intn(3))
	b.cond.walk(func(a *bcond) {
		if a.kind == 'A' && !txValidText(a.v) {
			a.v = "hello"
		}
	})
	var segs []string
	start := 0
	for _, e := range b.segEnds {
		var rows []string
		for _, row := range b.rows[start:e] {
			var cells []string
			for _, x := range row {
				if !x.ok {
					cells = append(cells, "N")
				} else {
					cells = append(cells, hexs(x.s))
				}
			}
			rows = append(rows, strings.Join(cells, ":"))
		}
		segs = append(segs, strings.Join(rows, ","))
		start = e
	}
	op := fmt.Sprintf("text %d %d %s %d %s %s", b.rpf, b.minRows, rangesOp(b.ranges), b.nIdx, strings.Join(segs, "|"), b.cond.text(b))
	rel := b.relation()
	ms := "t"
	dir := filepath.Join(work, ms)
	if err := os.MkdirAll(dir, 0o755); err != nil {
		return err
	}
	defer os.RemoveAll(dir)
	var schema record.Schemas
	for f := 0; f < b.numCols(); f++ {
		schema = append(schema, record.Field{Name: b.fieldName(f), Type: influx.Field_Type_String})
	}
	rec := record.NewRecord(schema, false)
	for _, row := range b.rows {
		for f, x := range row {
			if x.ok {
				rec.Column(f).AppendString(x.s)
			} else {
				rec.Column(f).AppendStringNull()
			}
		}
	}
	res := ""
	var out fragment.FragmentRanges
	nReaders := 0
	pe := hx.Safe(func() {
		wb := index.NewIndexWriterBuilder()
		wb.NewIndexWriters(work, ms, dataFileBase, "", schema, *rel)
		ws := wb.GetSkipIndexWriters()
		idx := wb.GetSchemaIdxes()
		for i := range ws {
			err := ws[i].CreateAttachIndex(rec, idx[i], b.segEnds)
			ws[i].Close() // frees the C++ builder
			if err != nil {
				res = "err write"
				return
			}
		}
		ents, _ := os.ReadDir(dir)
		for _, e := range ents {
			if strings.HasSuffix(e.Name(), ".init") {
				os.Rename(filepath.Join(dir, e.Name()), filepath.Join(dir, strings.TrimSuffix(e.Name(), ".init")))
			}
		}
		mst := &influxql.Measurement{Name: ms, IndexRelation: rel}
		option := &query.ProcessorOptions{Condition: b.cond.ast(b), Sources: []influxql.Source{mst}}
		rd := sparseindex.NewSKIndexReader(b.rpf, 2, b.minRows)
		readers, err := rd.CreateSKFileReaders(option, mst, true)
		if err != nil {
			res = "err create"
			return
		}
		nReaders = len(readers)
		out = toFR(b.ranges)
		for i := range readers {
			if err = readers[i].ReInit(&mockTssp{path: filepath.Join(dir, dataFileBase+".tssp")}); err != nil {
				res = "err reinit"
				return
			}
			out, err = rd.Scan(readers[i], out)
			readers[i].Close()
			if err != nil {
				res = "err scan"
				return
			}
		}
		res = rangesText(out)
	})
	if pe != "" {
		res = "err panic"
	}
	line := c.Emit(op, res)
	c.Count("skip:text")
	if nReaders == 0 {
		c.Count("text:no-reader")
	}
	if nseg > 16 {
		c.Count("text:more-than-one-part")
	}
	if strings.HasPrefix(res, "err") {
		c.Count("text:answer-" + strings.ReplaceAll(res, " ", "-"))
		c.Case(op, false)
		c.Violation(line, "", "text index: "+res+" "+op)
		return nil
	}
	pruned, kept := 0, 0
	byClass := map[string][]uint32{}
	for _, rg := range b.ranges {
		for j := rg.s; j < rg.e; j++ {
			if covered(out, j) {
				kept++
				continue
			}
			pruned++
			st := 0
			if j > 0 {
				st = b.segEnds[j-1]
			}
			for _, row := range b.rows[st:b.segEnds[j]] {
				if b.cond.holds(b, row) {
					cl := b.classifyText(row)
					byClass[cl] = append(byClass[cl], j)
					break
				}
			}
		}
	}
	c.Case(op, pruned > 0 && kept > 0)
	if pruned > 0 && kept > 0 {
		c.Sample(op + " => " + res)
	}
	var cls []string
	for k := range byClass {
		cls = append(cls, k)
	}
	sort.Strings(cls)
	for _, k := range cls {
		c.Violation(line, k, fmt.Sprintf("fragments %v hold a row satisfying the condition and were pruned by the text index (reader schema %v); %s => %s", byClass[k], b.schemaOf("tx"), op, res))
	}
	return nil
}
