// Package c20: correspondence harness for C20 (primary-key sparse index never prunes a
// fragment holding a matching row). It drives the real NewKeyCondition + PKIndexWriter.Build +
// PKIndexReaderImpl.Scan on generated sorted key records and condition trees, writes the
// observed fragment ranges (impl.out), the same case for the Lean model (ops.txt) and the
// brute-force spec verdict (viol.out).
package c20

import (
	"bytes"
	"fmt"
	"math"
	"sort"
	"strconv"
	"strings"

	"github.com/openGemini/openGemini/engine/immutable"
	"github.com/openGemini/openGemini/engine/immutable/colstore"
	"github.com/openGemini/openGemini/engine/index/sparseindex"
	"github.com/openGemini/openGemini/lib/fragment"
	"github.com/openGemini/openGemini/lib/record"
	"github.com/openGemini/openGemini/lib/util/lifted/influx/influxql"
	"github.com/openGemini/openGemini/lib/util/lifted/vm/protoparser/influx"

	"verif/harness/internal/hx"
)

func init() { hx.Register("C20", Run) }

type colType int

const (
	tInt colType = iota
	tFloat
	tString
	tBool
)

func (t colType) influx() int {
	switch t {
	case tInt:
		return influx.Field_Type_Int
	case tFloat:
		return influx.Field_Type_Float
	case tString:
		return influx.Field_Type_String
	}
	return influx.Field_Type_Boolean
}

// value of one cell; null when !ok.
type val struct {
	ok bool
	i  int64
	f  float64
	s  string
	b  bool
}

func cmpVal(t colType, a, b val) int { // null sorts last (+inf)
	if !a.ok || !b.ok {
		switch {
		case !a.ok && !b.ok:
			return 0
		case !a.ok:
			return 1
		default:
			return -1
		}
	}
	switch t {
	case tInt:
		switch {
		case a.i < b.i:
			return -1
		case a.i > b.i:
			return 1
		}
		return 0
	case tFloat:
		switch {
		case a.f < b.f:
			return -1
		case a.f > b.f:
			return 1
		}
		return 0
	case tString:
		return bytes.Compare([]byte(a.s), []byte(b.s))
	}
	switch {
	case !a.b && b.b:
		return -1
	case a.b && !b.b:
		return 1
	}
	return 0
}

type cond struct {
	kind  byte // 'A' atom on key col, 'O' other column atom, '&', '|'
	col   int
	op    string // eq neq lt lte gt gte
	c     val
	l, r  *cond
	paren bool
}

var opText = map[string]string{"eq": "=", "neq": "!=", "lt": "<", "lte": "<=", "gt": ">", "gte": ">="}
var ops = []string{"eq", "neq", "lt", "lte", "gt", "gte"}

type tcase struct {
	types    []colType
	otherT   colType
	rows     [][]val // key columns then one "other" column
	fragSize int
	bounds   []int // variable-size fragments: row offsets handed to the index writer (nil: fixed size)
	coarse   int
	minRows  int
	c        *cond
}

func genVal(r *hx.Rng, t colType, dom int, nullPct int) val {
	if r.Chance(nullPct) {
		return val{}
	}
	k := r.Intn(dom)
	switch t {
	case tInt:
		base := []int64{0, 0, 0, -3, 100, math.MaxInt64 - 2, math.MinInt64 + 1}[r.Intn(7)]
		_ = base
		return val{ok: true, i: int64(k) + []int64{0, 0, 0, -3, 100}[r.Intn(5)]}
	case tFloat:
		return val{ok: true, f: float64(k)*0.5 - 1}
	case tString:
		if k >= 10 { // quotes, backslashes, control characters, multi-byte, common prefixes
			return val{ok: true, s: strDomain2[k%len(strDomain2)]}
		}
		return val{ok: true, s: []string{"", "a", "ab", "b", "ba", "c", "d", "e", "zz", "é"}[k%10]}
	}
	return val{ok: true, b: k%2 == 1}
}

var strDomain2 = []string{"a'b", "a\\b", "a\\", "'", "a\nb", "a\tb", "a b", "a\x7f", "\"q\"", "ab\\'", "日本", "日", "a😀", "aaaaaaaaaaaaaaaaaaaaaaaaaaaaaaaaaaaaaaaaaaaaaaaaaaaaaaaaaaaaaaaaa", "aaaaaaaaaaaaaaaaaaaaaaaaaaaaaaaaaaaaaaaaaaaaaaaaaaaaaaaaaaaaaaaab", "A", "~"}

func genCase(r *hx.Rng) *tcase {
	w := 1 + r.Intn(3)
	tc := &tcase{}
	for i := 0; i < w; i++ {
		tc.types = append(tc.types, colType(r.Intn(4)))
	}
	tc.otherT = colType(r.Intn(3))
	n := 1 + r.Intn(40)
	if r.Chance(10) {
		n = 1 + r.Intn(4)
	}
	nullPct := 0
	if r.Chance(25) {
		nullPct = 15
	}
	dom := 2 + r.Intn(5)
	if r.Chance(15) {
		dom = 10 + r.Intn(len(strDomain2)) // reaches the second string domain
	}
	for i := 0; i < n; i++ {
		row := make([]val, w+1)
		for j := 0; j < w; j++ {
			row[j] = genVal(r, tc.types[j], dom, nullPct)
		}
		row[w] = genVal(r, tc.otherT, dom, 0)
		tc.rows = append(tc.rows, row)
	}
	sort.SliceStable(tc.rows, func(a, b int) bool {
		for j := 0; j < w; j++ {
			if c := cmpVal(tc.types[j], tc.rows[a][j], tc.rows[b][j]); c != 0 {
				return c < 0
			}
		}
		return false
	})
	tc.fragSize = 1 + r.Intn(6)
	if r.Chance(25) && n > 1 {
		// variable-size fragments (fixRowsPerSegment = 0): any increasing row offsets, the last one = last row
		for pos := 0; ; {
			pos += 1 + r.Intn(2*tc.fragSize)
			if pos >= n-1 {
				break
			}
			tc.bounds = append(tc.bounds, pos)
		}
		tc.bounds = append(tc.bounds, n-1)
	}
	tc.coarse = []int{2, 2, 3, 8}[r.Intn(4)]
	tc.minRows = []int{0, 0, tc.fragSize * 2, tc.fragSize*3 + 1}[r.Intn(4)]
	tc.c = genCond(r, tc, 1+r.Intn(3), dom)
	return tc
}

func genCond(r *hx.Rng, tc *tcase, depth, dom int) *cond {
	w := len(tc.types)
	if depth == 0 || r.Chance(30) {
		if r.Chance(12) {
			return &cond{kind: 'O', op: ops[r.Intn(6)], c: genVal(r, tc.otherT, dom, 0)}
		}
		col := r.Intn(w)
		if r.Chance(40) {
			col = 0
		}
		var c val
		if r.Chance(70) && len(tc.rows) > 0 {
			c = tc.rows[r.Intn(len(tc.rows))][col] // a value that occurs
			if !c.ok {
				c = genVal(r, tc.types[col], dom, 0)
			}
		} else {
			c = genVal(r, tc.types[col], dom+2, 0)
		}
		return &cond{kind: 'A', col: col, op: ops[r.Intn(6)], c: c}
	}
	k := byte('&')
	if r.Bool() {
		k = '|'
	}
	return &cond{kind: k, l: genCond(r, tc, depth-1, dom), r: genCond(r, tc, depth-1, dom), paren: r.Bool()}
}

func lit(t colType, v val) string {
	switch t {
	case tInt:
		return strconv.FormatInt(v.i, 10)
	case tFloat:
		s := strconv.FormatFloat(v.f, 'f', -1, 64)
		if !strings.Contains(s, ".") {
			s += ".0"
		}
		return s
	case tString:
		return "'" + strings.NewReplacer("\\", "\\\\", "'", "\\'", "\n", "\\n").Replace(v.s) + "'"
	}
	if v.b {
		return "true"
	}
	return "false"
}

func (c *cond) text(tc *tcase) string {
	switch c.kind {
	case 'A':
		return fmt.Sprintf("k%d %s %s", c.col, opText[c.op], lit(tc.types[c.col], c.c))
	case 'O':
		return fmt.Sprintf("x %s %s", opText[c.op], lit(tc.otherT, c.c))
	}
	o := " AND "
	if c.kind == '|' {
		o = " OR "
	}
	return "(" + c.l.text(tc) + o + c.r.text(tc) + ")"
}

func satAtom(t colType, op string, x, c val) bool {
	if !x.ok {
		return op == "neq"
	}
	k := cmpVal(t, x, c)
	switch op {
	case "eq":
		return k == 0
	case "neq":
		return k != 0
	case "lt":
		return k < 0
	case "lte":
		return k <= 0
	case "gt":
		return k > 0
	}
	return k >= 0
}

func (c *cond) sat(tc *tcase, row []val) bool {
	switch c.kind {
	case 'A':
		return satAtom(tc.types[c.col], c.op, row[c.col], c.c)
	case 'O':
		return satAtom(tc.otherT, c.op, row[len(tc.types)], c.c)
	case '&':
		return c.l.sat(tc, row) && c.r.sat(tc, row)
	}
	return c.l.sat(tc, row) || c.r.sat(tc, row)
}

func (c *cond) walk(f func(*cond)) {
	f(c)
	if c.l != nil {
		c.l.walk(f)
		c.r.walk(f)
	}
}

func appendVal(cv *record.ColVal, t colType, v val) {
	if !v.ok {
		switch t {
		case tInt:
			cv.AppendIntegerNull()
		case tFloat:
			cv.AppendFloatNull()
		case tString:
			cv.AppendStringNull()
		default:
			cv.AppendBooleanNull()
		}
		return
	}
	switch t {
	case tInt:
		cv.AppendInteger(v.i)
	case tFloat:
		cv.AppendFloat(v.f)
	case tString:
		cv.AppendString(v.s)
	default:
		cv.AppendBoolean(v.b)
	}
}

func readVal(cv *record.ColVal, t colType, row int) val {
	if cv.IsNil(row) {
		return val{}
	}
	switch t {
	case tInt:
		v, _ := cv.IntegerValue(row)
		return val{ok: true, i: v}
	case tFloat:
		v, _ := cv.FloatValue(row)
		return val{ok: true, f: v}
	case tString:
		v, _ := cv.StringValueSafe(row)
		return val{ok: true, s: v}
	}
	v, _ := cv.BooleanValue(row)
	return val{ok: true, b: v}
}

// encode maps the values of one column (marks + condition constants) to integers the Lean
// model can order: the integers themselves for an int column, ranks for the other types.
type encoder struct {
	t    colType
	vals []val
}

func (e *encoder) add(v val) {
	if v.ok {
		e.vals = append(e.vals, v)
	}
}
func (e *encoder) finish() {
	sort.SliceStable(e.vals, func(a, b int) bool { return cmpVal(e.t, e.vals[a], e.vals[b]) < 0 })
}
func (e *encoder) enc(v val) string {
	if !v.ok {
		return "N"
	}
	if e.t == tInt {
		return strconv.FormatInt(v.i, 10)
	}
	rank := 0
	for i := range e.vals {
		if i > 0 && cmpVal(e.t, e.vals[i-1], e.vals[i]) != 0 {
			rank++
		}
		if cmpVal(e.t, e.vals[i], v) == 0 {
			return strconv.Itoa(rank)
		}
	}
	panic("value not registered")
}

func (c *cond) modelText(encs []*encoder) string {
	switch c.kind {
	case 'A':
		return fmt.Sprintf("A %d %s %s", c.col, c.op, encs[c.col].enc(c.c))
	case 'O':
		return "O"
	case '&':
		return "& " + c.l.modelText(encs) + " " + c.r.modelText(encs)
	}
	return "| " + c.l.modelText(encs) + " " + c.r.modelText(encs)
}

func rangesText(fr fragment.FragmentRanges) string {
	var sb strings.Builder
	sb.WriteString("ranges")
	for _, r := range fr {
		fmt.Fprintf(&sb, " %d-%d", r.Start, r.End)
	}
	return sb.String()
}

// runCase executes one case on the real code; returns op line, impl answer and the
// fragments that hold a matching row but were not returned.
func runCase(tc *tcase) (op, ans string, missed []int, pruned, kept int, err error) {
	w := len(tc.types)
	var schema record.Schemas
	for j := 0; j < w; j++ {
		schema = append(schema, record.Field{Name: fmt.Sprintf("k%d", j), Type: tc.types[j].influx()})
	}
	data := record.NewRecord(schema, false)
	for _, row := range tc.rows {
		for j := 0; j < w; j++ {
			appendVal(data.Column(j), tc.types[j], row[j])
		}
	}
	fix := immutable.GenFixRowsPerSegment(data, tc.fragSize)
	fixRows := tc.fragSize
	if tc.bounds != nil {
		fix, fixRows = tc.bounds, 0
	}
	pkRec, pkMark, err := sparseindex.NewPKIndexWriter().Build(data, schema, fix, colstore.DefaultTCLocation, fixRows)
	if err != nil {
		return "", "", nil, 0, 0, fmt.Errorf("build: %w", err)
	}
	// marks as stored (read before Scan: Scan must not change them)
	nMarks := pkRec.RowNums()
	marks := make([][]val, nMarks)
	for i := 0; i < nMarks; i++ {
		marks[i] = make([]val, w)
		for j := 0; j < w; j++ {
			marks[i][j] = readVal(pkRec.Column(j), tc.types[j], i)
		}
	}
	text := tc.c.text(tc)
	p := influxql.NewParser(strings.NewReader(text))
	expr, perr := p.ParseExpr()
	p.Release()
	if perr != nil {
		return "", "", nil, 0, 0, fmt.Errorf("parse %q: %w", text, perr)
	}
	kc, kerr := sparseindex.NewKeyCondition(nil, expr, schema)
	if kerr != nil {
		return "", "", nil, 0, 0, fmt.Errorf("keycond %q: %w", text, kerr)
	}
	rd := sparseindex.NewPKIndexReader(tc.fragSize, tc.coarse, tc.minRows)
	var fr fragment.FragmentRanges
	var serr error
	if pe := hx.Safe(func() { fr, serr = rd.Scan("f.idx", pkRec, pkMark, kc) }); pe != "" {
		ans = "err " + pe
	} else if serr != nil {
		ans = "err scan"
	} else {
		ans = rangesText(fr)
	}
	// marks after the scan: a scan must not alter the index
	changed := false
	for i := 0; i < nMarks && !changed; i++ {
		for j := 0; j < w; j++ {
			if cmpVal(tc.types[j], marks[i][j], readVal(pkRec.Column(j), tc.types[j], i)) != 0 {
				changed = true
			}
		}
	}
	if changed {
		ans += " index-mutated"
	}

	// op line for the model
	encs := make([]*encoder, w)
	for j := range encs {
		encs[j] = &encoder{t: tc.types[j]}
		for i := range marks {
			encs[j].add(marks[i][j])
		}
	}
	tc.c.walk(func(c *cond) {
		if c.kind == 'A' {
			encs[c.col].add(c.c)
		}
	})
	var ts, ms []string
	for j := range encs {
		encs[j].finish()
		if tc.types[j] == tInt {
			ts = append(ts, "i")
		} else {
			ts = append(ts, "o")
		}
	}
	for i := range marks {
		var cells []string
		for j := 0; j < w; j++ {
			cells = append(cells, encs[j].enc(marks[i][j]))
		}
		ms = append(ms, strings.Join(cells, ","))
	}
	minMarks := (tc.minRows + tc.fragSize - 1) / tc.fragSize
	op = fmt.Sprintf("scan 1 %s %d %d 1 %s %s", strings.Join(ts, ""), tc.coarse, minMarks, strings.Join(ms, ";"), tc.c.modelText(encs))

	// spec: every fragment with a matching row is covered
	nFrag := int(pkMark.GetFragmentCount())
	inRes := make([]bool, nFrag+1)
	for _, r := range fr {
		for i := int(r.Start); i < int(r.End) && i < nFrag; i++ {
			inRes[i] = true
		}
	}
	for i := 0; i < nFrag; i++ {
		has := false
		lo, hi := i*tc.fragSize, (i+1)*tc.fragSize
		if tc.bounds != nil { // fragment i = rows [fix[i-1], fix[i]), the last one includes the last row
			lo, hi = 0, fix[i]
			if i > 0 {
				lo = fix[i-1]
			}
			if i == nFrag-1 {
				hi = len(tc.rows)
			}
		}
		for r := lo; r < hi && r < len(tc.rows); r++ {
			if tc.c.sat(tc, tc.rows[r]) {
				has = true
				break
			}
		}
		if inRes[i] {
			kept++
		} else {
			pruned++
			if has {
				missed = append(missed, i)
			}
		}
	}
	return op, ans, missed, pruned, kept, nil
}

func Run(c *hx.Ctx) error {
	c.Stats.Rule = "random sorted key records (1-3 key columns of int/float/string/bool, duplicates, nulls, string keys with quotes / backslashes / control and multi-byte characters / long common prefixes, fragment size 1-6 fixed with a short last fragment or variable-size fragments) x condition trees (=,!=,<,<=,>,>=, AND/OR, non-key column atoms); both search strategies; a case is non-trivial when at least one fragment was pruned and at least one kept; distinct by (op line)"
	n := c.Budget(6000, 400000)
	r := hx.NewRng(c.Seed)
	for i := 0; i < n; i++ {
		tc := genCase(r)
		op, ans, missed, pruned, kept, err := runCase(tc)
		if err != nil {
			c.Count("skipped:" + strings.SplitN(err.Error(), ":", 2)[0])
			continue
		}
		line := c.Emit(op, ans)
		c.Case(op, pruned > 0 && kept > 0)
		c.Count(fmt.Sprintf("width=%d", len(tc.types)))
		hasNeq, hasOr, hasNull := false, false, false
		tc.c.walk(func(x *cond) {
			if x.op == "neq" {
				hasNeq = true
			}
			if x.kind == '|' {
				hasOr = true
			}
		})
		for _, row := range tc.rows {
			for j := range tc.types {
				if !row[j].ok {
					hasNull = true
				}
			}
		}
		if hasNeq {
			c.Count("cond:has-neq")
		}
		if hasOr {
			c.Count("cond:has-or")
		}
		if hasNull {
			c.Count("data:has-null")
		}
		if tc.bounds != nil {
			c.Count("index:variable-size-fragments")
		}
		for _, row := range tc.rows {
			if row[0].ok && tc.types[0] == tString && strings.ContainsAny(row[0].s, "'\\\n\"") {
				c.Count("data:string-key-with-quote-or-escape")
				break
			}
		}
		if strings.HasPrefix(ans, "err") {
			c.Count("answer:err")
		} else if pruned == 0 {
			c.Count("answer:all-kept")
		} else if kept == 0 {
			c.Count("answer:all-pruned")
		} else {
			c.Count("answer:partial")
		}
		if strings.HasPrefix(ans, "err panic") {
			c.Violation(line, "panic", ans+" cond="+tc.c.text(tc))
		}
		if strings.Contains(ans, "index-mutated") {
			c.Violation(line, "scan_mutates_index", "cond="+tc.c.text(tc))
		}
		if len(missed) > 0 {
			class := ""
			c.Violation(line, class, fmt.Sprintf("fragments %v hold a matching row but were pruned; cond=%s fragSize=%d bounds=%v rows=%d", missed, tc.c.text(tc), tc.fragSize, tc.bounds, len(tc.rows)))
		}
		if pruned > 0 && kept > 0 {
			c.Sample(op + " => " + ans + "   [" + tc.c.text(tc) + "]")
		}
	}
	return runSkip(c) // skip indexes (skip.go): ops skip / skipset / minmax / mmx / isex / bloom
}
