// C20, skip indexes: the IP bloom-filter index (bloomfilter_ip).
//
//	bloomip <rpf> <minRows> <ranges> <nIdx> <segments> <cond…>      cond atoms: A <field> <eq|in|neq> <hex>
//
// Index written by the real writer (index.NewIndexWriters -> BloomFilterIpIndexWriter / IpTokenizer)
// over the columns 0..nIdx-1 of a record of address-like strings (+ an unindexed column x), read by
// the reader the real CreateSKFileReaders builds (BloomFilterIndexReader with index type
// BloomFilterIp -> LineFilterIpReader). Exact-output diff against OG/C20/SkipIp.lean; spec diff by a
// row oracle built on the standard library's net.ParseIP / net.ParseCIDR.
package c20

import (
	"fmt"
	"net"
	"os"
	"path/filepath"
	"strings"

	"github.com/openGemini/openGemini/engine/index"
	"github.com/openGemini/openGemini/engine/index/sparseindex"
	"github.com/openGemini/openGemini/lib/fragment"
	"github.com/openGemini/openGemini/lib/record"
	"github.com/openGemini/openGemini/lib/util/lifted/influx/influxql"
	"github.com/openGemini/openGemini/lib/util/lifted/influx/query"
	"github.com/openGemini/openGemini/lib/util/lifted/vm/protoparser/influx"

	"verif/harness/internal/hx"
)

var ipOctets = []int{0, 1, 2, 10, 128, 192, 255}
var ipJunk = []string{"", "host1", "1.2.3", "01.2.3.4", "256.1.1.1", "1.2.3.4.5", "a.b.c.d", "1.2.3.4 "}

func genIPText(r *hx.Rng) string {
	if r.Chance(12) {
		return ipJunk[r.Intn(len(ipJunk))]
	}
	o := func() int { return ipOctets[r.Intn(len(ipOctets))] }
	if r.Chance(60) { // a small neighbourhood, so that subnets and equalities hit
		return fmt.Sprintf("10.%d.%d.%d", r.Intn(2), r.Intn(3), r.Intn(4))
	}
	return fmt.Sprintf("%d.%d.%d.%d", o(), o(), o(), o())
}

func ipAtomHolds(op string, x sval, v string) bool {
	if !x.ok {
		return false
	}
	switch op {
	case "eq":
		return x.s == v
	case "neq":
		return x.s != v
	}
	_, sub, err := net.ParseCIDR(v)
	if err != nil {
		return false
	}
	ip := net.ParseIP(x.s)
	return ip != nil && sub.Contains(ip)
}

func (c *bcond) ipHolds(row []sval) bool {
	switch c.kind {
	case 'A':
		return ipAtomHolds(c.op, row[c.field], c.v)
	case '&':
		return c.l.ipHolds(row) && c.r.ipHolds(row)
	}
	return c.l.ipHolds(row) || c.r.ipHolds(row)
}

func genIPCond(r *hx.Rng, b *bcase, depth int) *bcond {
	if depth == 0 || r.Chance(35) {
		a := &bcond{kind: 'A', field: r.Intn(b.numCols())}
		switch x := r.Intn(10); {
		case x < 5:
			a.op = "eq"
			a.v = genIPText(r)
			if r.Chance(70) && len(b.rows) > 0 {
				if x := b.rows[r.Intn(len(b.rows))][a.field]; x.ok {
					a.v = x.s
				}
			}
		case x < 9:
			a.op = "in"
			base := genIPText(r)
			if r.Chance(60) && len(b.rows) > 0 {
				if x := b.rows[r.Intn(len(b.rows))][a.field]; x.ok && net.ParseIP(x.s) != nil {
					base = x.s
				}
			}
			if net.ParseIP(base) == nil {
				base = "10.0.0.0"
			}
			a.v = fmt.Sprintf("%s/%d", base, []int{0, 4, 7, 8, 12, 16, 20, 24, 31, 32}[r.Intn(10)])
		default:
			a.op = "neq"
			a.v = genIPText(r)
		}
		return a
	}
	k := byte('&')
	if r.Bool() {
		k = '|'
	}
	return &bcond{kind: k, l: genIPCond(r, b, depth-1), r: genIPCond(r, b, depth-1), paren: r.Chance(30)}
}

func runBloomIP(c *hx.Ctx, r *hx.Rng, work string) error {
	b := &bcase{kind: "ip", split: "c", nIdx: 1 + r.Intn(2)}
	b.rpf = 1 + r.Intn(4)
	nseg := 1 + r.Intn(5)
	n := nseg*b.rpf - r.Intn(b.rpf)
	nullPct := []int{0, 0, 10}[r.Intn(3)]
	for i := 0; i < n; i++ {
		row := make([]sval, b.numCols())
		for f := range row {
			if !r.Chance(nullPct) {
				row[f] = sval{ok: true, s: genIPText(r)}
			}
		}
		b.rows = append(b.rows, row)
	}
	for s := 1; s <= nseg; s++ {
		e := s * b.rpf
		if e > n {
			e = n
		}
		b.segEnds = append(b.segEnds, e)
	}
	b.minRows = []int{0, 0, b.rpf * 2, 1}[r.Intn(4)]
	b.ranges = genRanges(r, nseg, 0)
	b.cond = genIPCond(r, b, r.Intn(3))
	var segs []string
	start := 0
	for _, e := range b.segEnds {
		var rows []string
		for _, row := range b.rows[start:e] {
			var cells []string
			for _, x := range row {
				if !x.ok {
					cells = append(cells, "N")
				} else {
					cells = append(cells, hexs(x.s))
				}
			}
			rows = append(rows, strings.Join(cells, ":"))
		}
		segs = append(segs, strings.Join(rows, ","))
		start = e
	}
	op := fmt.Sprintf("bloomip %d %d %s %d %s %s", b.rpf, b.minRows, rangesOp(b.ranges), b.nIdx, strings.Join(segs, "|"), b.cond.text(b))
	rel := b.relation()
	ms := "p"
	dir := filepath.Join(work, ms)
	if err := os.MkdirAll(dir, 0o755); err != nil {
		return err
	}
	defer os.RemoveAll(dir)
	var schema record.Schemas
	for f := 0; f < b.numCols(); f++ {
		schema = append(schema, record.Field{Name: b.fieldName(f), Type: influx.Field_Type_String})
	}
	rec := record.NewRecord(schema, false)
	for _, row := range b.rows {
		for f, x := range row {
			if x.ok {
				rec.Column(f).AppendString(x.s)
			} else {
				rec.Column(f).AppendStringNull()
			}
		}
	}
	res := ""
	var out fragment.FragmentRanges
	nReaders := 0
	pe := hx.Safe(func() {
		wb := index.NewIndexWriterBuilder()
		wb.NewIndexWriters(work, ms, dataFileBase, "", schema, *rel)
		ws := wb.GetSkipIndexWriters()
		idx := wb.GetSchemaIdxes()
		for i := range ws {
			if err := ws[i].CreateAttachIndex(rec, idx[i], b.segEnds); err != nil {
				res = "err write"
				return
			}
		}
		ents, _ := os.ReadDir(dir)
		for _, e := range ents {
			if strings.HasSuffix(e.Name(), ".init") {
				os.Rename(filepath.Join(dir, e.Name()), filepath.Join(dir, strings.TrimSuffix(e.Name(), ".init")))
			}
		}
		mst := &influxql.Measurement{Name: ms, IndexRelation: rel}
		option := &query.ProcessorOptions{Condition: b.cond.ast(b), Sources: []influxql.Source{mst}}
		rd := sparseindex.NewSKIndexReader(b.rpf, 2, b.minRows)
		readers, err := rd.CreateSKFileReaders(option, mst, true)
		if err != nil {
			res = "err create"
			return
		}
		nReaders = len(readers)
		out = toFR(b.ranges)
		for i := range readers {
			if err = readers[i].ReInit(&mockTssp{path: filepath.Join(dir, dataFileBase+".tssp")}); err != nil {
				res = "err reinit"
				return
			}
			if out, err = rd.Scan(readers[i], out); err != nil {
				res = "err scan"
				return
			}
		}
		res = rangesText(out)
	})
	if pe != "" {
		res = "err panic"
	}
	line := c.Emit(op, res)
	c.Count("skip:bloom-ip")
	if nReaders == 0 {
		c.Count("bloomip:no-reader")
	}
	if strings.HasPrefix(res, "err") {
		c.Count("bloomip:answer-" + strings.ReplaceAll(res, " ", "-"))
		c.Case(op, false)
		c.Violation(line, "", "IP bloom-filter index: "+res+" "+op)
		return nil
	}
	pruned, kept := 0, 0
	var missed []uint32
	for _, rg := range b.ranges {
		for j := rg.s; j < rg.e; j++ {
			if covered(out, j) {
				kept++
				continue
			}
			pruned++
			st := 0
			if j > 0 {
				st = b.segEnds[j-1]
			}
			for _, row := range b.rows[st:b.segEnds[j]] {
				if b.cond.ipHolds(row) {
					missed = append(missed, j)
					break
				}
			}
		}
	}
	c.Case(op, pruned > 0 && kept > 0)
	if pruned > 0 && kept > 0 {
		c.Sample(op + " => " + res)
	}
	if len(missed) > 0 {
		c.Violation(line, "", fmt.Sprintf("fragments %v hold a row satisfying the condition and were pruned by the IP bloom-filter index (reader schema %v); %s => %s", missed, b.schemaOf("ip"), op, res))
	}
	return nil
}
