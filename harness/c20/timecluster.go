// C20, time cluster: the query side (QuerySchema.GetTimeRangeByTC -> executor.window,
// binaryfilterfunc.GetTimeCondition) against the write side (SortHelper.SortForColumnStore with a
// cluster duration -> time.Duration(t).Truncate(d)).
//
//	tcw <d> <tmin> <tmax> <t,t,…>   =>   tc <lo> <hi> <shape> <cluster,…> <0/1 per row: the real condition on the row's cluster value>
//
// Spec diff: a row whose time lies in [tmin,tmax] satisfies the time-cluster condition.
package c20

import (
	"fmt"
	"sort"
	"strings"
	"time"

	"github.com/openGemini/openGemini/engine/executor"
	"github.com/openGemini/openGemini/lib/binaryfilterfunc"
	indextype "github.com/openGemini/openGemini/lib/index"
	"github.com/openGemini/openGemini/lib/record"
	"github.com/openGemini/openGemini/lib/util/lifted/influx/influxql"
	"github.com/openGemini/openGemini/lib/util/lifted/influx/query"
	"github.com/openGemini/openGemini/lib/util/lifted/vm/protoparser/influx"

	"verif/harness/internal/hx"
)

// evalTC evaluates the expression GetTimeCondition built (EQ / GTE / LTE on the one column, AND).
func evalTC(e influxql.Expr, x int64) (bool, string) {
	switch n := e.(type) {
	case nil:
		return true, "none"
	case *influxql.BinaryExpr:
		if n.Op == influxql.AND {
			a, _ := evalTC(n.LHS, x)
			b, _ := evalTC(n.RHS, x)
			return a && b, "both"
		}
		lit, ok := n.RHS.(*influxql.IntegerLiteral)
		if !ok {
			return false, "bad"
		}
		switch n.Op {
		case influxql.EQ:
			return x == lit.Val, "eq"
		case influxql.GTE:
			return x >= lit.Val, "ge"
		case influxql.LTE:
			return x <= lit.Val, "le"
		}
	}
	return false, "bad"
}

func runTimeCluster(c *hx.Ctx, r *hx.Rng) {
	ds := []int64{1, 2, 7, 10, 60, 1000, int64(time.Second), int64(time.Minute), int64(time.Hour), 86400 * int64(time.Second)}
	d := ds[r.Intn(len(ds))]
	pick := func() int64 {
		switch r.Intn(10) {
		case 0:
			return int64(r.Intn(5)) - 2
		case 1:
			return -int64(r.U64() >> (1 + uint(r.Intn(40))))
		case 2:
			return int64(r.U64() >> (1 + uint(r.Intn(40))))
		case 3:
			return d * (int64(r.Intn(9)) - 4)
		}
		return d*(int64(r.Intn(21))-10) + int64(r.Intn(int(min64(d, 1000)))) - int64(r.Intn(3))
	}
	tmin, tmax := pick(), pick()
	if tmin > tmax {
		tmin, tmax = tmax, tmin
	}
	switch r.Intn(8) {
	case 0:
		tmin = influxql.MinTime
	case 1:
		tmax = influxql.MaxTime
	case 2:
		tmin, tmax = influxql.MinTime, influxql.MaxTime
	case 3:
		tmax = tmin
	}
	n := 1 + r.Intn(6)
	times := make([]int64, n)
	for i := range times {
		switch r.Intn(4) {
		case 0:
			times[i] = tmin
		case 1:
			times[i] = tmax
		default:
			times[i] = pick()
		}
		if times[i] <= influxql.MinTime || times[i] >= influxql.MaxTime {
			times[i] = int64(r.Intn(100)) - 50
		}
	}
	sort.Slice(times, func(i, j int) bool { return times[i] < times[j] })
	var ts []string
	for _, t := range times {
		ts = append(ts, fmt.Sprint(t))
	}
	op := fmt.Sprintf("tcw %d %d %d %s", d, tmin, tmax, strings.Join(ts, ","))
	res := ""
	var conds []bool
	var clusters []int64
	pe := hx.Safe(func() {
		rel := &influxql.IndexRelation{
			Oids:         []uint32{uint32(indextype.TimeCluster)},
			IndexNames:   []string{indextype.TimeClusterIndex},
			IndexList:    []*influxql.IndexList{{IList: []string{"time"}}},
			IndexOptions: []*influxql.IndexOptions{{Options: []*influxql.IndexOption{{TimeClusterDuration: time.Duration(d)}}}},
		}
		opt := &query.ProcessorOptions{StartTime: tmin, EndTime: tmax, Sources: []influxql.Source{&influxql.Measurement{Name: "m", IndexRelation: rel}}}
		qs := executor.NewQuerySchema(nil, nil, opt, nil)
		tr := qs.GetTimeRangeByTC()
		// write side: sort a record (key k, time) with the cluster duration; column 0 = clustered time
		rec := record.NewRecord(record.Schemas{{Name: "k", Type: influx.Field_Type_Int}, {Name: record.TimeField, Type: influx.Field_Type_Int}}, false)
		for i, t := range times {
			rec.ColVals[0].AppendInteger(int64(i))
			rec.ColVals[1].AppendInteger(t)
		}
		hlp := record.NewSortHelper()
		sorted := hlp.SortForColumnStore(rec, []record.PrimaryKey{{Key: "k", Type: influx.Field_Type_Int}}, false, time.Duration(d))
		if sorted.Schema[0].Name != record.TimeClusterCol || sorted.RowNums() != n {
			res = "err sort"
			return
		}
		// rows come back ordered by (cluster, k); k is the position in `times`
		clusters = make([]int64, n)
		for i := 0; i < n; i++ {
			k, _ := sorted.ColVals[1].IntegerValue(i)
			cl, _ := sorted.ColVals[0].IntegerValue(i)
			clusters[k] = cl
		}
		expr := binaryfilterfunc.GetTimeCondition(tr, sorted.Schema, 0)
		shape := ""
		var cs, bs []string
		for _, cl := range clusters {
			ok, sh := evalTC(expr, cl)
			shape = sh
			conds = append(conds, ok)
			cs = append(cs, fmt.Sprint(cl))
			if ok {
				bs = append(bs, "1")
			} else {
				bs = append(bs, "0")
			}
		}
		res = fmt.Sprintf("tc %d %d %s %s %s", tr.Min, tr.Max, shape, strings.Join(cs, ","), strings.Join(bs, ""))
	})
	if pe != "" {
		res = "err panic"
	}
	line := c.Emit(op, res)
	c.Count("tc:window")
	in, out := 0, 0
	for i, t := range times {
		if i >= len(conds) {
			break
		}
		if conds[i] {
			in++
		} else {
			out++
			if tmin <= t && t <= tmax {
				c.Violation(line, "", fmt.Sprintf("time cluster: the row at time %d (cluster %d) lies in the query range [%d,%d] but fails the time-cluster condition; %s => %s", t, clusters[i], tmin, tmax, op, res))
			}
		}
	}
	c.Case(op, in > 0 && out > 0)
	if strings.HasPrefix(res, "err") {
		c.Violation(line, "", "time cluster: "+res+" "+op)
	}
}

func min64(a, b int64) int64 {
	if a < b {
		return a
	}
	return b
}
