// C20, second part: the skip indexes (set, min-max, bloom filter, bloom filter full text).
//
// Ops (all distinguishable from the primary-key `scan` op of c20.go):
//
//	skip    <rpf> <minRows> <answers> <ranges>            real SKIndexReaderImpl.Scan over a scripted SKFileReader
//	skipset <rpf> <minRows> <nfrag> <ranges>              the same Scan over the real SetIndexReader obtained from CreateSKFileReaders
//	minmax  reinit                                        query-path sequence CreateSKFileReaders -> ReInit for a min-max index
//	mmx     <record> <cond…>                              MinMaxIndexReader.MayBeInFragment(0..n-2) with a test ReadFunc
//	isex    <schemaMask> <answers> <tree…>                rpn.ConvertToRPNExpr + NewSKCondition + SKConditionImpl.IsExist over a scripted SKBaseReader
//	bloom   <kind> <split> <rpf> <minRows> <ranges> <nIdx> <segments> <cond…>
//	                                                      real skip-index writer (index.NewIndexWriters + CreateAttachIndex) on generated
//	                                                      string columns, real CreateSKFileReaders + ReInit + Scan; one bloom-filter (1..3
//	                                                      index columns) or full-text index over the columns 0..nIdx-1, plus a column x
//	bloomx  <split> <rpf> <minRows> <ranges> <ncols> <relation> <segments> <cond…>
//	                                                      the same through an index relation with several indexes side by side
//	                                                      (bf:<cols>;ft:<cols>;set:<col>;tc:…), index lists in any order, atoms on any column
//
// The spec diff (a fragment holding a row that satisfies the condition must survive) is computed
// here by brute force with an independent row matcher; every miss gets a class.
package c20

import (
	"bytes"
	"encoding/hex"
	"errors"
	"fmt"
	"os"
	"path/filepath"
	"runtime"
	"sort"
	"strings"
	"time"

	"github.com/openGemini/openGemini/engine/index"
	"github.com/openGemini/openGemini/engine/index/sparseindex"
	"github.com/openGemini/openGemini/lib/fragment"
	indextype "github.com/openGemini/openGemini/lib/index"
	"github.com/openGemini/openGemini/lib/record"
	"github.com/openGemini/openGemini/lib/rpn"
	"github.com/openGemini/openGemini/lib/tokenizer"
	"github.com/openGemini/openGemini/lib/tracing"
	"github.com/openGemini/openGemini/lib/util/lifted/influx/influxql"
	"github.com/openGemini/openGemini/lib/util/lifted/influx/query"
	"github.com/openGemini/openGemini/lib/util/lifted/vm/protoparser/influx"

	"verif/harness/internal/hx"
)

// ---------------------------------------------------------------------------------------------
// shared helpers

type frange struct{ s, e uint32 }

func rangesOp(rs []frange) string {
	if len(rs) == 0 {
		return "-"
	}
	var p []string
	for _, r := range rs {
		p = append(p, fmt.Sprintf("%d-%d", r.s, r.e))
	}
	return strings.Join(p, ",")
}

func toFR(rs []frange) fragment.FragmentRanges {
	var out fragment.FragmentRanges
	for _, r := range rs {
		out = append(out, fragment.NewFragmentRange(r.s, r.e))
	}
	return out
}

// wellFormed: ascending, non-empty, pairwise disjoint (what PKIndexReaderImpl.Scan returns).
func wellFormed(rs []frange) bool {
	for i, r := range rs {
		if r.s >= r.e {
			return false
		}
		if i > 0 && rs[i-1].e > r.s {
			return false
		}
	}
	return true
}

func genRanges(r *hx.Rng, nfrag int, malformedPct int) []frange {
	var rs []frange
	if r.Chance(malformedPct) {
		k := 1 + r.Intn(4)
		for i := 0; i < k; i++ {
			rs = append(rs, frange{uint32(r.Intn(nfrag + 1)), uint32(r.Intn(nfrag + 1))})
		}
		return rs
	}
	if r.Chance(30) {
		return []frange{{0, uint32(nfrag)}}
	}
	pos := 0
	for pos < nfrag {
		if r.Chance(35) {
			pos += 1 + r.Intn(3)
			continue
		}
		l := 1 + r.Intn(4)
		if pos+l > nfrag {
			l = nfrag - pos
		}
		rs = append(rs, frange{uint32(pos), uint32(pos + l)})
		pos += l
		if r.Chance(60) {
			pos += r.Intn(3)
		}
	}
	return rs
}

func covered(fr fragment.FragmentRanges, j uint32) bool {
	for _, r := range fr {
		if r.Start <= j && j < r.End {
			return true
		}
	}
	return false
}

// scriptedSK answers MayBeInFragment from a string over {1,0,e}; beyond its end: error.
type scriptedSK struct{ ans string }

func (s *scriptedSK) MayBeInFragment(id uint32) (bool, error) {
	if int(id) >= len(s.ans) || s.ans[id] == 'e' {
		return false, errors.New("scripted error")
	}
	return s.ans[id] == '1', nil
}
func (s *scriptedSK) ReInit(file interface{}) error { return nil }
func (s *scriptedSK) StartSpan(span *tracing.Span)  {}
func (s *scriptedSK) Close() error                  { return nil }

type mockTssp struct{ path string }

func (m *mockTssp) Path() string { return m.path }
func (m *mockTssp) Name() string { return "" }

func seekParams(r *hx.Rng) (rpf, minRows int) {
	rpf = 1 + r.Intn(6)
	minRows = []int{0, 0, 0, rpf, rpf * 2, rpf*3 + 1, 1}[r.Intn(7)]
	return
}

// ---------------------------------------------------------------------------------------------
// skip: Scan over a scripted reader

func runSkipScan(c *hx.Ctx, r *hx.Rng) {
	nfrag := 1 + r.Intn(20)
	rpf, minRows := seekParams(r)
	if r.Chance(3) {
		minRows = rpf * 5000000000 // merge threshold beyond the uint32 difference
	}
	var ab []byte
	pTrue := []int{10, 30, 50, 80, 100}[r.Intn(5)]
	errPct := 0
	if r.Chance(12) {
		errPct = 8
	}
	for i := 0; i < nfrag; i++ {
		switch {
		case r.Chance(errPct):
			ab = append(ab, 'e')
		case r.Chance(pTrue):
			ab = append(ab, '1')
		default:
			ab = append(ab, '0')
		}
	}
	ans := string(ab)
	rs := genRanges(r, nfrag, 15)
	if r.Chance(4) && len(rs) > 0 {
		rs[len(rs)-1].e += uint32(1 + r.Intn(2)) // a range reaching past the scripted answers
	}
	op := fmt.Sprintf("skip %d %d %s %s", rpf, minRows, ans, rangesOp(rs))
	rd := sparseindex.NewSKIndexReader(rpf, 2, minRows)
	var out fragment.FragmentRanges
	var err error
	res := ""
	if pe := hx.Safe(func() { out, err = rd.Scan(&scriptedSK{ans}, toFR(rs)) }); pe != "" {
		res = "err panic"
	} else if err != nil {
		res = "err"
	} else {
		res = rangesText(out)
	}
	line := c.Emit(op, res)
	wf := wellFormed(rs)
	dropped, kept := 0, 0
	if wf && err == nil && res != "err panic" {
		for _, rg := range rs {
			for j := rg.s; j < rg.e; j++ {
				if int(j) < len(ans) && ans[j] == '1' {
					kept++
					if !covered(out, j) {
						c.Violation(line, "", fmt.Sprintf("SKIndexReaderImpl.Scan dropped fragment %d although the reader answered true; %s", j, op))
					}
				} else {
					dropped++
				}
			}
		}
	}
	c.Case(op, dropped > 0 && kept > 0)
	c.Count("skip:scripted")
	if !wf {
		c.Count("skip:ranges-malformed")
	}
	if strings.HasPrefix(res, "err") {
		c.Count("skip:answer-err")
	}
	if res == "err panic" {
		c.Violation(line, "panic", op)
	}
}

// ---------------------------------------------------------------------------------------------
// skipset: the real set-index reader behind CreateSKFileReaders

func runSkipSet(c *hx.Ctx, r *hx.Rng) {
	nfrag := 1 + r.Intn(12)
	rpf, minRows := seekParams(r)
	// an integer column `value`, rpf rows per fragment, and the condition value = k
	n := nfrag*rpf - r.Intn(rpf)
	vals := make([]int64, n)
	for i := range vals {
		vals[i] = int64(r.Intn(6))
	}
	k := int64(r.Intn(7))
	option := &query.ProcessorOptions{Condition: &influxql.BinaryExpr{
		Op:  influxql.EQ,
		LHS: &influxql.VarRef{Val: "value", Type: influxql.Integer},
		RHS: &influxql.IntegerLiteral{Val: k},
	}}
	mstInfo := &influxql.Measurement{IndexRelation: &influxql.IndexRelation{
		Oids:       []uint32{uint32(indextype.Set)},
		IndexNames: []string{indextype.SetIndex},
		IndexList:  []*influxql.IndexList{{IList: []string{"value"}}},
	}}
	rs := genRanges(r, nfrag, 0)
	op := fmt.Sprintf("skipset %d %d %d %s", rpf, minRows, nfrag, rangesOp(rs))
	rd := sparseindex.NewSKIndexReader(rpf, 2, minRows)
	res := ""
	var out fragment.FragmentRanges
	pe := hx.Safe(func() {
		readers, err := rd.CreateSKFileReaders(option, mstInfo, true)
		if err != nil {
			res = "err create"
			return
		}
		out = toFR(rs)
		for i := range readers {
			if err = readers[i].ReInit(&mockTssp{path: "/nonexistent/00000001-0001-00000001.tssp"}); err != nil {
				res = "err reinit"
				return
			}
			if out, err = rd.Scan(readers[i], out); err != nil {
				res = "err scan"
				return
			}
		}
		res = fmt.Sprintf("readers %d %s", len(readers), rangesText(out))
	})
	if pe != "" {
		res = "err panic"
	}
	line := c.Emit(op, res)
	missed := 0
	for _, rg := range rs {
		for j := rg.s; j < rg.e; j++ {
			has := false
			for row := int(j) * rpf; row < (int(j)+1)*rpf && row < n; row++ {
				if vals[row] == k {
					has = true
				}
			}
			if has && !covered(out, j) {
				missed++
			}
		}
	}
	c.Case(op, missed > 0)
	c.Count("skip:set-reader")
	if missed > 0 {
		c.Violation(line, "set_index_unimplemented_prunes_all",
			fmt.Sprintf("set index on `value`, condition value = %d: %d fragments hold a matching row and were dropped (%s => %s)", k, missed, op, res))
	}
}

// ---------------------------------------------------------------------------------------------
// minmax: what a query reaches, and MayBeInFragment with a test ReadFunc

func runMinMaxReinit(c *hx.Ctx) {
	option := &query.ProcessorOptions{Condition: &influxql.BinaryExpr{
		Op:  influxql.EQ,
		LHS: &influxql.VarRef{Val: "value", Type: influxql.Integer},
		RHS: &influxql.IntegerLiteral{Val: 2},
	}}
	mstInfo := &influxql.Measurement{IndexRelation: &influxql.IndexRelation{
		Oids:       []uint32{uint32(indextype.MinMax)},
		IndexNames: []string{indextype.MinMaxIndex},
		IndexList:  []*influxql.IndexList{{IList: []string{"value"}}},
	}}
	rd := sparseindex.NewSKIndexReader(2, 2, 0)
	res := ""
	pe := hx.Safe(func() {
		readers, err := rd.CreateSKFileReaders(option, mstInfo, true)
		if err != nil || len(readers) != 1 {
			res = "err create"
			return
		}
		if err = readers[0].ReInit(&mockTssp{path: "/nonexistent/00000001-0001-00000001.tssp"}); err != nil {
			res = "err reinit"
			return
		}
		res = "ok"
	})
	if pe != "" {
		res = "err panic"
	}
	c.Emit("minmax reinit", res)
	c.Case("minmax reinit", false)
	c.Count("skip:minmax-reinit:" + strings.ReplaceAll(res, " ", "-"))
}

func runMinMaxProbe(c *hx.Ctx, r *hx.Rng) {
	// one integer column; the index record is what a ReadFunc would hand over (no nulls: a null
	// bound makes the reader write into the package-level NEGATIVE_INFINITY sentinel).
	tc := &tcase{types: []colType{tInt}, otherT: tInt}
	n := 2 + r.Intn(8)
	rec := make([]int64, n)
	for i := range rec {
		rec[i] = int64(r.Intn(9)) - 1
		tc.rows = append(tc.rows, []val{{ok: true, i: rec[i]}, {ok: true, i: 0}})
	}
	cnd := genCond(r, tc, 1+r.Intn(2), 7)
	// key-column atoms only (the reader's schema has the one column)
	cnd.walk(func(x *cond) {
		if x.kind == 'O' {
			x.kind, x.col = 'A', 0
			x.c = val{ok: true, i: int64(r.Intn(9)) - 1}
		}
	})
	text := strings.ReplaceAll(cnd.text(tc), "k0", "value")
	var recS []string
	for _, v := range rec {
		recS = append(recS, fmt.Sprint(v))
	}
	enc := []*encoder{{t: tInt}}
	op := fmt.Sprintf("mmx %s %s", strings.Join(recS, ","), cnd.modelText(enc))
	res := ""
	pe := hx.Safe(func() {
		p := influxql.NewParser(strings.NewReader(text))
		expr, perr := p.ParseExpr()
		p.Release()
		if perr != nil {
			res = "err parse"
			return
		}
		schema := record.Schemas{{Name: "value", Type: influx.Field_Type_Int}}
		option := &query.ProcessorOptions{Condition: expr}
		rd, err := sparseindex.NewMinMaxIndexReader(rpn.ConvertToRPNExpr(option.GetCondition()), schema, option, true)
		if err != nil {
			res = "err new"
			return
		}
		rd.ReadFunc = func(file interface{}, rc *record.Record, isCache bool) (*record.Record, error) {
			rc = record.NewRecord(record.Schemas{{Name: "value", Type: influx.Field_Type_Int}}, false)
			rc.ColVals[0].AppendIntegers(rec...)
			return rc, nil
		}
		if err = rd.ReInit("f.tssp"); err != nil {
			res = "err reinit"
			return
		}
		var sb strings.Builder
		sb.WriteString("may ")
		for f := 0; f+1 < n; f++ {
			ok, e := rd.MayBeInFragment(uint32(f))
			switch {
			case e != nil:
				sb.WriteByte('e')
			case ok:
				sb.WriteByte('1')
			default:
				sb.WriteByte('0')
			}
		}
		res = sb.String()
	})
	if pe != "" {
		res = "err panic"
	}
	c.Emit(op, res)
	c.Case(op, strings.Contains(res, "0") && strings.Contains(res, "1"))
	c.Count("skip:minmax-probe")
}

// ---------------------------------------------------------------------------------------------
// isex: SKConditionImpl over a scripted SKBaseReader

type sexpr struct {
	kind byte // 'V' var, 'L' literal, 'B' binary, 'P' paren
	n    int  // var index / literal id
	op   string
	l, r *sexpr
}

var cmpOps = []influxql.Token{influxql.EQ, influxql.MATCHPHRASE, influxql.IPINRANGE}               // a filter lookup decides them
var cmpOOps = []influxql.Token{influxql.NEQ, influxql.LT, influxql.LTE, influxql.GT, influxql.GTE} // in switchMap, never looked up
var cmpNSOps = []influxql.Token{influxql.MATCH, influxql.LIKE}
var badOps = []influxql.Token{influxql.ADD, influxql.MUL, influxql.BITWISE_AND}

func (e *sexpr) text() string {
	switch e.kind {
	case 'V':
		return fmt.Sprintf("V %d", e.n)
	case 'L':
		return fmt.Sprintf("L %d", e.n)
	case 'P':
		return "P " + e.l.text()
	}
	return "B " + e.op + " " + e.l.text() + " " + e.r.text()
}

func (e *sexpr) ast(r *hx.Rng) influxql.Expr {
	switch e.kind {
	case 'V':
		return &influxql.VarRef{Val: fmt.Sprintf("f%d", e.n), Type: influxql.Integer}
	case 'L':
		return &influxql.IntegerLiteral{Val: int64(e.n)}
	case 'P':
		return &influxql.ParenExpr{Expr: e.l.ast(r)}
	}
	var tok influxql.Token
	switch e.op {
	case "and":
		tok = influxql.AND
	case "or":
		tok = influxql.OR
	case "cmp":
		tok = cmpOps[r.Intn(len(cmpOps))]
	case "cmpo":
		tok = cmpOOps[r.Intn(len(cmpOOps))]
	case "cmpns":
		tok = cmpNSOps[r.Intn(len(cmpNSOps))]
	default:
		tok = badOps[r.Intn(len(badOps))]
	}
	return &influxql.BinaryExpr{Op: tok, LHS: e.l.ast(r), RHS: e.r.ast(r)}
}

type isexGen struct {
	r      *hx.Rng
	nlit   int
	wf     bool
	nvars  int
	truths []bool // per literal id: does the row satisfy the atom
}

func (g *isexGen) atom() *sexpr {
	r := g.r
	v := &sexpr{kind: 'V', n: r.Intn(g.nvars)}
	lit := &sexpr{kind: 'L', n: g.nlit}
	g.nlit++
	g.truths = append(g.truths, r.Bool())
	x := r.Intn(100)
	cls := "cmp"
	if r.Chance(35) {
		cls = "cmpo"
	}
	switch {
	case x < 78:
		return &sexpr{kind: 'B', op: cls, l: v, r: lit}
	case x < 84: // literal on the left: ConvertToRPNExpr swaps
		return &sexpr{kind: 'B', op: cls, l: lit, r: v}
	case x < 88:
		g.wf = false
		return &sexpr{kind: 'B', op: "cmpns", l: v, r: lit}
	case x < 91:
		g.wf = false
		return &sexpr{kind: 'B', op: cls, l: v, r: &sexpr{kind: 'V', n: r.Intn(g.nvars)}}
	case x < 94:
		g.wf = false
		return v
	case x < 96:
		g.wf = false
		l2 := &sexpr{kind: 'L', n: g.nlit}
		g.nlit++
		g.truths = append(g.truths, r.Bool())
		return &sexpr{kind: 'B', op: cls, l: lit, r: l2}
	case x < 98:
		g.wf = false
		return &sexpr{kind: 'B', op: "bad", l: v, r: lit}
	default:
		g.wf = false
		return &sexpr{kind: 'B', op: "cmpns", l: lit, r: v}
	}
}

func (g *isexGen) tree(depth int) *sexpr {
	r := g.r
	if depth == 0 || r.Chance(25) {
		return g.atom()
	}
	op := "and"
	if r.Bool() {
		op = "or"
	}
	e := &sexpr{kind: 'B', op: op, l: g.tree(depth - 1), r: g.tree(depth - 1)}
	if r.Chance(25) {
		e = &sexpr{kind: 'P', l: e}
	}
	return e
}

// truth evaluates a well-formed tree on the row described by truths.
func (e *sexpr) truth(t []bool) bool {
	switch e.kind {
	case 'P':
		return e.l.truth(t)
	case 'B':
		switch e.op {
		case "and":
			return e.l.truth(t) && e.r.truth(t)
		case "or":
			return e.l.truth(t) || e.r.truth(t)
		}
		if e.l.kind == 'L' {
			return t[e.l.n]
		}
		return t[e.r.n]
	}
	return false
}

type scriptedBase struct {
	ans   string
	calls int
}

func (s *scriptedBase) IsExist(blockId int64, elem *rpn.SKRPNElement) (bool, error) {
	s.calls++
	id, ok := elem.Value.(int64)
	if !ok || int(id) >= len(s.ans) || s.ans[id] == 'e' {
		return false, errors.New("scripted error")
	}
	return s.ans[id] == '1', nil
}
func (s *scriptedBase) StartSpan(span *tracing.Span) {}

func runIsExist(c *hx.Ctx, r *hx.Rng) {
	g := &isexGen{r: r, wf: true, nvars: 4}
	e := g.tree(r.Intn(4))
	mask := r.Intn(16)
	if r.Chance(30) {
		mask = 15
	}
	var schema record.Schemas
	var mb []byte
	for i := 0; i < 4; i++ {
		if mask&(1<<i) != 0 {
			schema = append(schema, record.Field{Name: fmt.Sprintf("f%d", i), Type: influx.Field_Type_Int})
			mb = append(mb, '1')
		} else {
			mb = append(mb, '0')
		}
	}
	// answers: sound with respect to truths (true whenever the row satisfies the atom), else free
	errPct := 0
	if r.Chance(10) {
		errPct = 15
	}
	ab := make([]byte, g.nlit)
	for i := range ab {
		switch {
		case r.Chance(errPct):
			ab[i] = 'e'
		case g.truths[i] || r.Chance(40):
			ab[i] = '1'
		default:
			ab[i] = '0'
		}
	}
	hasErr := bytes.IndexByte(ab, 'e') >= 0
	op := fmt.Sprintf("isex %s %s %s", mb, string(ab), e.text())
	res := ""
	pe := hx.Safe(func() {
		rp := rpn.ConvertToRPNExpr(e.ast(r))
		sk, err := sparseindex.NewSKCondition(rp, schema)
		if err != nil {
			res = "err cond"
			return
		}
		ok, err := sk.IsExist(int64(r.Intn(5)), &scriptedBase{ans: string(ab)})
		if err != nil {
			res = "err exist"
			return
		}
		res = fmt.Sprint(ok)
	})
	if pe != "" {
		res = "err panic"
	}
	line := c.Emit(op, res)
	c.Case(op, g.wf && res == "false")
	c.Count("skip:isexist")
	if !g.wf {
		c.Count("isex:tree-malformed")
	}
	if strings.HasPrefix(res, "err") {
		c.Count("isex:answer-" + strings.ReplaceAll(res, " ", "-"))
	}
	if g.wf && !hasErr {
		if res != "true" && res != "false" {
			c.Violation(line, "", "IsExist fails on a well-formed AND/OR tree: "+res+" "+op)
		} else if e.truth(g.truths) && res != "true" {
			c.Violation(line, "", "IsExist = false although the row satisfies the tree and every indexed atom answered soundly: "+op)
		}
	}
	if res == "err panic" {
		c.Violation(line, "panic", op)
	}
}

// ---------------------------------------------------------------------------------------------
// bloom: real writer + real readers

type sval struct {
	ok bool
	s  string
}

type bcond struct {
	kind  byte // 'A' '&' '|'
	field int  // 0..nIdx-1 indexed, nIdx = the non-indexed column x, -1 = __log___
	op    string
	v     string
	l, r  *bcond
	paren bool
}

// idxDef is one index of the relation: its type (bf | ft | set | tc) and its index list.
type idxDef struct {
	kind string
	cols []int
}

type bcase struct {
	kind    string // bf | ft : one index over the columns 0..nIdx-1 plus the column x; x : relation rel over ncols columns
	split   string // c | e
	nIdx    int
	ncols   int      // kind x: number of (string) columns of the record
	rel     []idxDef // kind x
	rows    [][]sval
	segEnds []int
	rpf     int
	minRows int
	ranges  []frange
	cond    *bcond
}

func hexs(s string) string {
	if s == "" {
		return "-"
	}
	return hex.EncodeToString([]byte(s))
}

var bopTok = map[string]influxql.Token{"in": influxql.IPINRANGE, "mp": influxql.MATCHPHRASE, "eq": influxql.EQ, "neq": influxql.NEQ, "lt": influxql.LT, "gt": influxql.GT, "lte": influxql.LTE, "gte": influxql.GTE}

func (b *bcase) fieldName(f int) string {
	switch {
	case f < 0:
		return "__log___"
	case f == b.nIdx && b.kind != "x":
		return "x"
	}
	return fmt.Sprintf("f%d", f)
}

// relDefs: the index relation of the case.
func (b *bcase) relDefs() []idxDef {
	if b.kind == "x" {
		return b.rel
	}
	var cols []int
	for f := 0; f < b.nIdx; f++ {
		cols = append(cols, f)
	}
	return []idxDef{{kind: b.kind, cols: cols}}
}

// numCols: string columns of the record.
func (b *bcase) numCols() int {
	if b.kind == "x" {
		return b.ncols
	}
	return b.nIdx + 1
}

func (b *bcase) colsOf(kind string) []int {
	for _, d := range b.relDefs() {
		if d.kind == kind {
			return d.cols
		}
	}
	return nil
}

func hasInt(xs []int, x int) bool {
	for _, y := range xs {
		if y == x {
			return true
		}
	}
	return false
}

// atomsInOrder: the atoms left to right = the order of their VarRefs in the RPN.
func (b *bcase) atomsInOrder() []*bcond {
	var out []*bcond
	var rec func(c *bcond)
	rec = func(c *bcond) {
		if c.kind == 'A' {
			out = append(out, c)
			return
		}
		rec(c.l)
		rec(c.r)
	}
	rec(b.cond)
	return out
}

// schemaOf: the fields getSKInfoByExpr collects for the index of type kind (nil: no reader).
func (b *bcase) schemaOf(kind string) []int {
	cols := b.colsOf(kind)
	var fields []int
	for _, a := range b.atomsInOrder() {
		switch {
		case a.field < 0 && kind == "ft" && len(cols) > 0:
			fields = append([]int(nil), cols...)
		case a.field >= 0 && hasInt(cols, a.field):
			fields = append(fields, a.field)
		}
	}
	return fields
}

func (c *bcond) text(b *bcase) string {
	if c.kind == 'A' {
		f := fmt.Sprint(c.field)
		if c.field < 0 {
			f = "L"
		} else if c.field == b.nIdx && b.kind != "x" {
			f = "x"
		}
		return fmt.Sprintf("A %s %s %s", f, c.op, hexs(c.v))
	}
	p := ""
	if c.paren {
		p = "P "
	}
	return p + string(c.kind) + " " + c.l.text(b) + " " + c.r.text(b)
}

func (c *bcond) ast(b *bcase) influxql.Expr {
	if c.kind == 'A' {
		return &influxql.BinaryExpr{Op: bopTok[c.op], LHS: &influxql.VarRef{Val: b.fieldName(c.field), Type: influxql.String}, RHS: &influxql.StringLiteral{Val: c.v}}
	}
	op := influxql.AND
	if c.kind == '|' {
		op = influxql.OR
	}
	var e influxql.Expr = &influxql.BinaryExpr{Op: influxql.Token(op), LHS: c.l.ast(b), RHS: c.r.ast(b)}
	if c.paren {
		e = &influxql.ParenExpr{Expr: e}
	}
	return e
}

func (c *bcond) walk(f func(*bcond)) {
	f(c)
	if c.l != nil {
		c.l.walk(f)
		c.r.walk(f)
	}
}

// ---- independent row-level semantics (SimpleTokenFinder re-implemented from its contract) ----

var contentSplit = func() (t [256]bool) {
	for _, ch := range []byte(tokenizer.CONTENT_SPLITTER) {
		t[ch] = true
	}
	return
}()

func tfSplit(b byte) bool { return b >= 0x80 || contentSplit[b] }

// phraseMatch: the phrase occurs in the content with a token boundary on both sides
// (boundary: text end, a separator or non-ASCII byte next to it, or the phrase itself
// starting / ending with one). Empty phrase matches only empty content.
func phraseMatch(content, phrase string) bool {
	if len(phrase) == 0 {
		return len(content) == 0
	}
	for from := 0; from+len(phrase) <= len(content); {
		i := strings.Index(content[from:], phrase)
		if i < 0 {
			return false
		}
		first := from + i
		last := first + len(phrase) - 1
		pre := first == 0 || tfSplit(content[first-1]) || tfSplit(content[first])
		post := last+1 >= len(content) || tfSplit(content[last+1]) || tfSplit(content[last])
		if pre && post {
			return true
		}
		from = first + len(phrase) // the finder resumes after the occurrence
	}
	return false
}

func atomHolds(op string, x sval, v string) bool {
	if !x.ok {
		return false
	}
	switch op {
	case "mp":
		return phraseMatch(x.s, v)
	case "eq":
		return x.s == v
	case "neq":
		return x.s != v
	case "lt":
		return x.s < v
	case "gt":
		return x.s > v
	case "lte":
		return x.s <= v
	}
	return x.s >= v
}

func (c *bcond) holds(b *bcase, row []sval) bool {
	switch c.kind {
	case 'A':
		if c.field < 0 { // full text: OR over the full-text columns
			for _, f := range b.colsOf("ft") {
				if atomHolds("mp", row[f], c.v) {
					return true
				}
			}
			return false
		}
		return atomHolds(c.op, row[c.field], c.v)
	case '&':
		return c.l.holds(b, row) && c.r.holds(b, row)
	}
	return c.l.holds(b, row) || c.r.holds(b, row)
}

// ---- token-level classification helpers (independent of lib/tokenizer) ----

func hashBytes(bs []byte) uint64 {
	var h uint64
	for _, b := range bs {
		h ^= (h<<11 | h>>53) ^ (uint64(b) * 0x9E3779B185EBCA87)
	}
	return h
}

// writerHashes: one hash per maximal run of bytes outside the split set.
func writerHashes(s string, split string) map[uint64]bool {
	var tab [256]bool
	if split == "c" {
		tab = contentSplit
	}
	out := map[uint64]bool{}
	i := 0
	for i < len(s) {
		if tab[s[i]] {
			i++
			continue
		}
		j := i
		for j < len(s) && !tab[s[j]] {
			j++
		}
		out[hashBytes([]byte(s[i:j]))] = true
		i = j
	}
	return out
}

// readerLookups: the hashes the query side asks for (real query tokenizer, as the readers build it).
func readerLookups(phrase string) []uint64 {
	tk := tokenizer.NewSimpleGramTokenizer(tokenizer.CONTENT_SPLIT_TABLE, 4, 0)
	tk.InitInput([]byte(phrase))
	var out []uint64
	for tk.Next() {
		if tk.CurrentHash() != 0 {
			out = append(out, tk.CurrentHash())
		}
	}
	return out
}

// sameSepRun: longest run of ASCII tokens joined by the same last separator byte.
func sameSepRun(s string) int {
	best, run := 0, 0
	var cur, last byte
	i := 0
	first := true
	for i < len(s) {
		if contentSplit[s[i]] {
			last = s[i]
			i++
			continue
		}
		j := i
		for j < len(s) && !contentSplit[s[j]] {
			j++
		}
		if first || last != cur {
			if first {
				run = 1
			} else {
				run = 2 // the previous token and this one start a new run with separator `last`
			}
			cur = last
			first = false
		} else {
			run++
		}
		if run > best {
			best = run
		}
		i = j
	}
	return best
}

func hasHigh(s string) bool {
	for i := 0; i < len(s); i++ {
		if s[i] >= 0x80 {
			return true
		}
	}
	return false
}

// classify one missed fragment: look for an atom the matching row satisfies whose index
// lookups cannot all have been written for that row, in a filter a reader really consults:
// the plain bloom reader consults the filter of its served column (the first index column of
// the condition) for match-phrase atoms on that column only; the full-text reader consults its
// one filter (all string columns of the row) for every atom of its schema and for __log___.
// A pruned block none of this explains gets the empty class = a violation of the property.
func (b *bcase) classify(row []sval) string {
	classes := map[string]bool{}
	bfSchema, ftSchema := b.schemaOf("bf"), b.schemaOf("ft")
	if len(b.schemaOf("set")) > 0 {
		classes["set_index_unimplemented_prunes_all"] = true
	}
	ftCols := b.colsOf("ft")
	explain := func(a *bcond, reader string, rowVals []sval) {
		sat := false
		if a.field < 0 {
			for _, f := range ftCols {
				sat = sat || atomHolds("mp", row[f], a.v)
			}
		} else {
			sat = atomHolds(a.op, row[a.field], a.v)
		}
		if !sat {
			return
		}
		look := readerLookups(a.v)
		if len(look) == 0 {
			if reader == "bf" {
				classes["bloom_phrase_without_token_prunes_all"] = true
			}
			return
		}
		wh := map[uint64]bool{}
		high := hasHigh(a.v)
		for _, x := range rowVals {
			if x.ok {
				for h := range writerHashes(x.s, b.split) {
					wh[h] = true
				}
				high = high || hasHigh(x.s)
			}
		}
		missing := false
		for _, h := range look {
			if !wh[h] {
				missing = true
			}
		}
		if !missing {
			return
		}
		switch {
		case b.split == "e":
			classes["bloom_writer_without_split_tokens"] = true
		case high:
			classes["bloom_multibyte_tokenization_mismatch"] = true
		case sameSepRun(a.v) >= 3:
			classes["bloom_ngram_lookup_never_written"] = true
		default:
			classes["bloom_lookup_not_written_unexplained"] = true
		}
	}
	b.cond.walk(func(a *bcond) {
		if a.kind != 'A' {
			return
		}
		if len(bfSchema) > 0 && a.field == bfSchema[0] && a.op == "mp" {
			explain(a, "bf", []sval{row[a.field]})
		}
		if len(ftSchema) > 0 && (a.field < 0 || hasInt(ftSchema, a.field)) && (a.op == "mp" || a.op == "eq") {
			explain(a, "ft", row) // the full-text filter holds every string column of the row
		}
	})
	for _, k := range []string{"bloom_lookup_not_written_unexplained", "set_index_unimplemented_prunes_all", "bloom_writer_without_split_tokens",
		"bloom_phrase_without_token_prunes_all", "bloom_multibyte_tokenization_mismatch", "bloom_ngram_lookup_never_written"} {
		if classes[k] {
			if k == "bloom_lookup_not_written_unexplained" {
				return ""
			}
			return k
		}
	}
	return ""
}

// ---- generator ----

var words = []string{"a", "b", "c", "ab", "hello", "world", "GET", "200", "index", "html", "x1", "Hello", "error", "华", "为", "云", "é", "日本"}
var seps = []string{" ", " ", " ", ".", "/", "-", "_", ":", ", ", "  ", "=", "\t"}

func genText(r *hx.Rng) string {
	x := r.Intn(100)
	switch {
	case x < 6:
		return ""
	case x < 9: // arbitrary bytes (row values only)
		n := 1 + r.Intn(6)
		bs := make([]byte, n)
		for i := range bs {
			bs[i] = byte(r.Intn(256))
		}
		return string(bs)
	case x < 12: // long token
		return strings.Repeat(words[r.Intn(len(words))], 40+r.Intn(60))
	case x < 15: // separators only
		return seps[r.Intn(len(seps))] + seps[r.Intn(len(seps))]
	}
	n := 1 + r.Intn(5)
	sep := seps[r.Intn(len(seps))]
	var sb strings.Builder
	if r.Chance(8) {
		sb.WriteString(seps[r.Intn(len(seps))])
	}
	for i := 0; i < n; i++ {
		if i > 0 {
			if r.Chance(25) {
				sep = seps[r.Intn(len(seps))]
			}
			if !r.Chance(6) { // sometimes glue two words (non-ASCII next to ASCII)
				sb.WriteString(sep)
			}
		}
		sb.WriteString(words[r.Intn(len(words))])
	}
	if r.Chance(8) {
		sb.WriteString(seps[r.Intn(len(seps))])
	}
	return sb.String()
}

// a phrase cut out of a value at token boundaries (so that it matches), or a fresh text.
func genPhrase(r *hx.Rng, b *bcase) string {
	if r.Chance(70) && len(b.rows) > 0 {
		row := b.rows[r.Intn(len(b.rows))]
		x := row[r.Intn(len(row))]
		if x.ok && len(x.s) > 0 {
			s := x.s
			if !validUTF8Prefixes(s) {
				return "hello"
			}
			var cuts []int
			cuts = append(cuts, 0)
			for i := 1; i < len(s); i++ {
				if tfSplit(s[i]) != tfSplit(s[i-1]) || (s[i] >= 0x80 && s[i]&0xC0 != 0x80) {
					cuts = append(cuts, i)
				}
			}
			cuts = append(cuts, len(s))
			i := r.Intn(len(cuts) - 1)
			j := i + 1 + r.Intn(len(cuts)-1-i)
			if r.Chance(35) {
				i, j = 0, len(cuts)-1
			}
			return s[cuts[i]:cuts[j]]
		}
	}
	for {
		s := genText(r)
		if validUTF8Prefixes(s) {
			return s
		}
	}
}

// the query tokenizer reads 2/3/4 bytes after a lead byte without a bounds check; phrases are
// kept to texts where that stays inside the value (row values are unrestricted).
func validUTF8Prefixes(s string) bool {
	i := 0
	for i < len(s) {
		c := s[i]
		switch {
		case c < 0x80:
			i++
		case c <= 0xdf:
			i += 2
		case c <= 0xef:
			i += 3
		case c <= 0xf7:
			i += 4
		default:
			i++
		}
	}
	return i == len(s)
}

func genBCond(r *hx.Rng, b *bcase, depth int) *bcond {
	if depth == 0 || r.Chance(35) {
		a := &bcond{kind: 'A'}
		x := r.Intn(100)
		switch {
		case b.kind == "x":
			// any column of the record (indexed by one, several or no index), or __log___
			a.field = r.Intn(b.ncols)
			if x < 12 {
				a.field = -1 // with no full-text index: CreateSKFileReaders fails ("empty fields")
				if len(b.colsOf("ft")) == 0 && x >= 2 {
					a.field = r.Intn(b.ncols)
				}
			}
		case x < 70:
			a.field = r.Intn(b.nIdx)
		case x < 85:
			a.field = b.nIdx
		default:
			if b.kind == "ft" {
				a.field = -1
			} else {
				a.field = 0
			}
		}
		a.op = []string{"mp", "mp", "mp", "mp", "eq", "eq", "neq", "lt", "gt", "lte", "gte"}[r.Intn(11)]
		if b.kind != "ft" && r.Chance(45) { // the plain reader only ever looks match-phrase atoms up
			a.op = "mp"
		}
		if a.field < 0 {
			a.op = "mp"
		}
		a.v = genPhrase(r, b)
		if a.op == "eq" && r.Chance(60) && len(b.rows) > 0 && a.field >= 0 {
			x := b.rows[r.Intn(len(b.rows))][a.field]
			if x.ok && validUTF8Prefixes(x.s) {
				a.v = x.s
			}
		}
		if b.kind == "x" && !validUTF8Prefixes(a.v) {
			// several readers: a phrase that panics in the query tokenizer would make the answer
			// depend on the (random) order in which Go iterates skInfoMap
			a.v = "hello"
		}
		return a
	}
	k := byte('&')
	if r.Bool() {
		k = '|'
	}
	return &bcond{kind: k, l: genBCond(r, b, depth-1), r: genBCond(r, b, depth-1), paren: r.Chance(30)}
}

func genBCase(r *hx.Rng) *bcase {
	b := &bcase{kind: "bf", split: "c", nIdx: []int{1, 1, 2, 2, 3}[r.Intn(5)]}
	switch x := r.Intn(100); {
	case x < 30:
		b.kind = "ft"
		b.nIdx = 1 + r.Intn(2)
	case x < 55:
		// an index relation with several indexes side by side over a record of 2..4 string columns
		b.kind = "x"
		b.ncols = 2 + r.Intn(3)
		b.nIdx = b.ncols
		pick := func(max int) []int { // a non-empty index list, in any order
			perm := make([]int, b.ncols)
			for i := range perm {
				perm[i] = i
			}
			for i := len(perm) - 1; i > 0; i-- {
				j := r.Intn(i + 1)
				perm[i], perm[j] = perm[j], perm[i]
			}
			k := 1 + r.Intn(max)
			if k > b.ncols {
				k = b.ncols
			}
			return perm[:k]
		}
		if r.Chance(8) {
			b.rel = append(b.rel, idxDef{"tc", []int{0}})
		}
		if r.Chance(85) {
			b.rel = append(b.rel, idxDef{"bf", pick(3)})
		}
		if r.Chance(50) || len(b.rel) == 0 {
			d := idxDef{"ft", pick(2)}
			if r.Bool() { // either order in the relation
				b.rel = append([]idxDef{d}, b.rel...)
			} else {
				b.rel = append(b.rel, d)
			}
		}
		if r.Chance(4) {
			b.rel = append(b.rel, idxDef{"set", pick(1)})
		}
	}
	b.rpf = 1 + r.Intn(4)
	nseg := 1 + r.Intn(5)
	n := nseg*b.rpf - r.Intn(b.rpf) // short last block
	nullPct := []int{0, 0, 10, 30}[r.Intn(4)]
	for i := 0; i < n; i++ {
		row := make([]sval, b.numCols())
		for f := range row {
			if r.Chance(nullPct) {
				continue
			}
			row[f] = sval{ok: true, s: genText(r)}
		}
		b.rows = append(b.rows, row)
	}
	for s := 1; s <= nseg; s++ {
		e := s * b.rpf
		if e > n {
			e = n
		}
		b.segEnds = append(b.segEnds, e)
	}
	b.minRows = []int{0, 0, b.rpf * 2, 1}[r.Intn(4)]
	b.ranges = genRanges(r, nseg, 0)
	depth := r.Intn(3)
	if (b.kind == "bf" && b.nIdx > 1) || b.kind == "x" {
		depth = 1 + r.Intn(2) // several atoms: on the served column, on another index column, on both
	}
	b.cond = genBCond(r, b, depth)
	return b
}

func (b *bcase) opLine() string {
	var segs []string
	start := 0
	for _, e := range b.segEnds {
		var rows []string
		for _, row := range b.rows[start:e] {
			var cells []string
			for _, x := range row {
				if !x.ok {
					cells = append(cells, "N")
				} else {
					cells = append(cells, hexs(x.s))
				}
			}
			rows = append(rows, strings.Join(cells, ":"))
		}
		segs = append(segs, strings.Join(rows, ","))
		start = e
	}
	if b.kind == "x" {
		var defs []string
		for _, d := range b.rel {
			var cs []string
			for _, c := range d.cols {
				cs = append(cs, fmt.Sprint(c))
			}
			defs = append(defs, d.kind+":"+strings.Join(cs, ","))
		}
		return fmt.Sprintf("bloomx %s %d %d %s %d %s %s %s", b.split, b.rpf, b.minRows, rangesOp(b.ranges), b.ncols, strings.Join(defs, ";"), strings.Join(segs, "|"), b.cond.text(b))
	}
	return fmt.Sprintf("bloom %s %s %d %d %s %d %s %s", b.kind, b.split, b.rpf, b.minRows, rangesOp(b.ranges), b.nIdx, strings.Join(segs, "|"), b.cond.text(b))
}

var idxOid = map[string]indextype.IndexType{"bf": indextype.BloomFilter, "ft": indextype.BloomFilterFullText, "set": indextype.Set, "tc": indextype.TimeCluster, "tx": indextype.Text, "ip": indextype.BloomFilterIp}

func (b *bcase) relation() *influxql.IndexRelation {
	rel := &influxql.IndexRelation{}
	for _, d := range b.relDefs() {
		var ilist []string
		for _, f := range d.cols {
			ilist = append(ilist, fmt.Sprintf("f%d", f))
		}
		if d.kind == "tc" {
			ilist = []string{"time"}
		}
		rel.Oids = append(rel.Oids, uint32(idxOid[d.kind]))
		rel.IndexNames = append(rel.IndexNames, indextype.IndexTypeToName[idxOid[d.kind]])
		rel.IndexList = append(rel.IndexList, &influxql.IndexList{IList: ilist})
		if b.split == "c" {
			// as the log-store measurement creation fills it in
			rel.IndexOptions = append(rel.IndexOptions, &influxql.IndexOptions{Options: []*influxql.IndexOption{{Tokens: tokenizer.CONTENT_SPLITTER, TokensTable: tokenizer.CONTENT_SPLIT_TABLE, Tokenizers: "standard"}}})
		} else {
			// as StatementExecutor.getIndexRelation fills it in for CREATE MEASUREMENT … INDEXTYPE bloomfilter
			rel.IndexOptions = append(rel.IndexOptions, &influxql.IndexOptions{})
		}
	}
	return rel
}

const dataFileBase = "00000001-0001-00000001"

func runBloom(c *hx.Ctx, r *hx.Rng, work string) error {
	b := genBCase(r)
	op := b.opLine()
	rel := b.relation()
	ms := "m"
	dir := filepath.Join(work, ms)
	if err := os.MkdirAll(dir, 0o755); err != nil {
		return err
	}
	defer func() {
		if ents, err := os.ReadDir(dir); err == nil {
			for _, e := range ents {
				os.Remove(filepath.Join(dir, e.Name()))
			}
		}
	}()
	// record: string columns f0.. x
	var schema record.Schemas
	for f := 0; f < b.numCols(); f++ {
		schema = append(schema, record.Field{Name: b.fieldName(f), Type: influx.Field_Type_String})
	}
	rec := record.NewRecord(schema, false)
	for _, row := range b.rows {
		for f, x := range row {
			if x.ok {
				rec.Column(f).AppendString(x.s)
			} else {
				rec.Column(f).AppendStringNull()
			}
		}
	}
	res := ""
	var out fragment.FragmentRanges
	nReaders := 0
	pe := hx.Safe(func() {
		wb := index.NewIndexWriterBuilder()
		wb.NewIndexWriters(work, ms, dataFileBase, "", schema, *rel)
		ws := wb.GetSkipIndexWriters()
		idx := wb.GetSchemaIdxes()
		for i := range ws {
			if err := ws[i].CreateAttachIndex(rec, idx[i], b.segEnds); err != nil {
				res = "err write"
				return
			}
		}
		ents, _ := os.ReadDir(dir)
		for _, e := range ents { // the flush path renames *.init when the data file is complete
			if strings.HasSuffix(e.Name(), ".init") {
				os.Rename(filepath.Join(dir, e.Name()), filepath.Join(dir, strings.TrimSuffix(e.Name(), ".init")))
			}
		}
		if len(b.colsOf("ft")) > 0 { // attached full-text file name the TSSP-file reader asks for
			os.Rename(filepath.Join(dir, dataFileBase+".fullText.bf"), filepath.Join(dir, dataFileBase+".bloomfilter_fullText.bf"))
		}
		mst := &influxql.Measurement{Name: ms, IndexRelation: rel}
		option := &query.ProcessorOptions{Condition: b.cond.ast(b), Sources: []influxql.Source{mst}}
		rd := sparseindex.NewSKIndexReader(b.rpf, 2, b.minRows)
		readers, err := rd.CreateSKFileReaders(option, mst, true)
		if err != nil {
			res = "err create"
			return
		}
		nReaders = len(readers)
		out = toFR(b.ranges)
		for i := range readers {
			if err = readers[i].ReInit(&mockTssp{path: filepath.Join(dir, dataFileBase+".tssp")}); err != nil {
				res = "err reinit"
				return
			}
			if out, err = rd.Scan(readers[i], out); err != nil {
				res = "err scan"
				return
			}
		}
		res = rangesText(out)
	})
	if pe != "" {
		res = "err panic"
	}
	line := c.Emit(op, res)
	c.Count("skip:bloom-" + b.kind + "-split-" + b.split)
	if bs := b.schemaOf("bf"); len(bs) > 0 {
		distinct := map[int]bool{}
		for _, f := range bs {
			distinct[f] = true
		}
		c.Count(fmt.Sprintf("bloom:bf-index-cols-%d-in-condition-%d", len(b.colsOf("bf")), len(distinct)))
		if bs[0] != b.colsOf("bf")[0] {
			c.Count("bloom:bf-served-column-not-first-of-index-list")
		}
	}
	if nReaders > 1 {
		c.Count(fmt.Sprintf("bloom:readers-%d", nReaders))
	}
	if nReaders == 0 {
		c.Count("bloom:no-reader")
	}
	if strings.HasPrefix(res, "err") {
		c.Count("bloom:answer-" + strings.ReplaceAll(res, " ", "-"))
		c.Case(op, false)
		if res == "err panic" {
			// the query tokenizer (SimpleUtf8Tokenizer.updateHash) reads 2/3/4 bytes after a lead byte
			// without a bounds check: a phrase ending inside a multi-byte sequence panics. That is a
			// crash of the query, not a pruned block; the model predicts it (exact diff), no spec diff.
			truncated := false
			b.cond.walk(func(a *bcond) {
				if a.kind == 'A' && !validUTF8Prefixes(a.v) {
					truncated = true
				}
			})
			if truncated {
				c.Count("bloom:panic-truncated-utf8-phrase")
			} else {
				c.Violation(line, "panic", op)
			}
		}
		return nil
	}
	// spec: a fragment of the input ranges that holds a satisfying row survives
	pruned, kept := 0, 0
	byClass := map[string][]uint32{}
	for _, rg := range b.ranges {
		for j := rg.s; j < rg.e; j++ {
			if covered(out, j) {
				kept++
				continue
			}
			pruned++
			start := 0
			if j > 0 {
				start = b.segEnds[j-1]
			}
			for _, row := range b.rows[start:b.segEnds[j]] {
				if b.cond.holds(b, row) {
					cl := b.classify(row)
					byClass[cl] = append(byClass[cl], j)
					break
				}
			}
		}
	}
	c.Case(op, pruned > 0 && kept > 0)
	if pruned > 0 && kept > 0 {
		c.Sample(op + " => " + res)
	}
	var cls []string
	for k := range byClass {
		cls = append(cls, k)
	}
	sort.Strings(cls)
	for _, k := range cls {
		c.Violation(line, k, fmt.Sprintf("fragments %v hold a row satisfying the condition and were pruned by the skip index readers (%s; bloom reader schema %v, full-text reader schema %v); %s => %s", byClass[k], b.kind, b.schemaOf("bf"), b.schemaOf("ft"), op, res))
	}
	// cross-check the independent phrase matcher against lib/tokenizer's finder
	tf := tokenizer.NewSimpleTokenFinder(tokenizer.CONTENT_SPLIT_TABLE)
	var bad error
	b.cond.walk(func(a *bcond) {
		if a.kind != 'A' || a.op != "mp" {
			return
		}
		for _, row := range b.rows {
			for _, x := range row {
				if x.ok {
					tf.InitInput([]byte(x.s), []byte(a.v))
					if tf.Next() != phraseMatch(x.s, a.v) {
						bad = fmt.Errorf("phrase oracle disagrees with SimpleTokenFinder on content %q phrase %q", x.s, a.v)
					}
				}
			}
		}
	})
	return bad
}

// pmatch: the row-level match-phrase (lib/tokenizer.SimpleTokenFinder) the spec diff relies on
func runPMatch(c *hx.Ctx, r *hx.Rng) {
	content := genText(r)
	b := &bcase{rows: [][]sval{{{ok: true, s: content}}}}
	phrase := genPhrase(r, b)
	if r.Chance(10) && len(content) > 1 { // an arbitrary substring, not at token boundaries
		i := r.Intn(len(content))
		phrase = content[i : i+1+r.Intn(len(content)-i)]
	}
	op := fmt.Sprintf("pmatch %s %s", hexs(content), hexs(phrase))
	res := ""
	if pe := hx.Safe(func() {
		tf := tokenizer.NewSimpleTokenFinder(tokenizer.CONTENT_SPLIT_TABLE)
		tf.InitInput([]byte(content), []byte(phrase))
		res = fmt.Sprint(tf.Next())
	}); pe != "" {
		res = "err panic"
	}
	c.Emit(op, res)
	c.Case(op, res == "true" && phrase != content)
	c.Count("skip:pmatch")
}

// ---------------------------------------------------------------------------------------------

func runSkip(c *hx.Ctx) error {
	c.Stats.Rule += " || skip indexes: SKIndexReaderImpl.Scan over scripted readers (answers 1/0/error, ascending and malformed ranges, any seek threshold) and over the real set reader; SKConditionImpl (ConvertToRPNExpr + convertToRPNElem + IsExist) over scripted atom answers on AND/OR trees incl. malformed ones; MinMaxIndexReader with a test ReadFunc (arbitrary int records; sorted int/float/string/bool columns with the boundary layout and the row oracle); bloom filter (index list of 1..3 columns) / full-text bloom filter / relations with both side by side (index lists in any order, set and time-cluster entries) written by the real index writers from generated string columns (nulls, empty, separators, non-ASCII, arbitrary bytes, long tokens, short last block) and read back by the readers the real CreateSKFileReaders builds (ReInit + Scan per reader) under =,!=,<,>,match-phrase,AND,OR conditions with atoms on the served column, on other index columns, on unindexed columns and on __log___; IP bloom-filter index (= / IPINRANGE / != atoms on the served, another index and an unindexed column, prefixes 0..32, non-address text); text (inverted) index written by the real cgo builder and read through CreateSKFileReaders / TextIndexReader (one or two index columns, up to 36 segments = three parts, ASCII / multi-byte / mixed text); reader and condition objects reused as a query does: one PKIndexReader + one key condition over sequences of 2-5 files (different contents, fragment counts and sizes, fixed / variable fragments, any order, a file scanned again), the same through the production caller engine.attachedIndexReader.Next, sessions interleaving them with one skip-index reader set over several files (ReInit per file); fragment ranges -> segment ranges (getSegmentRanges over lib/fragment's variable-size marks, malformed ranges included) and the Location segment iteration over them (ascending / descending, limits); time cluster: QuerySchema.GetTimeRangeByTC + GetTimeCondition against the cluster values SortHelper.SortForColumnStore writes (durations 1ns..1d, times before 1970, open ranges); non-trivial = some fragment dropped and some kept"
	n := c.Budget(8000, 600000)
	r := hx.NewRng(c.Seed ^ 0x5c20511b)
	t0 := time.Now()
	phase := func(name string) { // wall time per group of ops, for the evidence notes (never compared)
		c.Stats.Notes = append(c.Stats.Notes, fmt.Sprintf("harness phase %s: %d ms", name, time.Since(t0).Milliseconds()))
		t0 = time.Now()
	}
	nScan, nSet, nIsx, nMmx, nBloom := n/4, n/40, n/5, n/40, n/8
	if nBloom > 16000 {
		nBloom = 16000
	}
	// the ops that write index files dominate the wall time: the quick tier runs half as many of them
	fileDiv := 1
	if c.Tier != "thorough" {
		fileDiv = 2
		nBloom /= 2
	}
	for i := 0; i < nScan; i++ {
		runSkipScan(c, r)
	}
	for i := 0; i < nSet; i++ {
		runSkipSet(c, r)
	}
	runMinMaxReinit(c)
	for i := 0; i < nMmx; i++ {
		runMinMaxProbe(c, r)
	}
	for i := 0; i < n/20; i++ {
		runMinMaxTyped(c, r)
	}
	for i := 0; i < n/80; i++ {
		runMinMaxNull(c, r)
	}
	for i := 0; i < nIsx; i++ {
		runIsExist(c, r)
	}
	for i := 0; i < n/10; i++ {
		runPMatch(c, r)
	}
	// index files: 256 KiB per block and index column - memory-backed scratch when the machine has one
	work, werr := os.MkdirTemp("/dev/shm", "verif-c20-work-")
	if werr != nil {
		work = filepath.Join(c.Out, "bfwork")
	}
	defer os.RemoveAll(work)
	phase("in-memory ops")
	for i := 0; i < nBloom; i++ {
		if err := runBloom(c, r, work); err != nil {
			return err
		}
		if i%100 == 99 {
			runtime.GC() // the bloom readers never close their index file; the finalizer does
		}
	}
	phase("bloom / bloomx")
	for i := 0; i < n/20; i++ {
		runTimeCluster(c, r)
	}
	for i := 0; i < n/10; i++ {
		runScanSeq(c, r)
	}
	for i := 0; i < n/20; i++ {
		runScanProd(c, r)
	}
	phase("tcw / scanseq")
	nSess := n / 40 / fileDiv
	if nSess > 3000 {
		nSess = 3000
	}
	for i := 0; i < nSess; i++ {
		if err := runSession(c, r, work); err != nil {
			return err
		}
		if i%50 == 49 {
			runtime.GC()
		}
	}
	phase("sessions")
	for i := 0; i < n/20; i++ {
		runSegRanges(c, r)
		runLocIter(c, r)
	}
	nIP := n / 16 / fileDiv
	if nIP > 8000 {
		nIP = 8000
	}
	for i := 0; i < nIP; i++ {
		if err := runBloomIP(c, r, work); err != nil {
			return err
		}
		if i%100 == 99 {
			runtime.GC()
		}
	}
	phase("segr / locit / bloomip")
	nText := n / 16 / fileDiv
	if nText > 8000 {
		nText = 8000
	}
	for i := 0; i < nText; i++ {
		if err := runText(c, r, work); err != nil {
			return err
		}
		if i%100 == 99 {
			runtime.GC()
		}
	}
	phase("text")
	// detached (OBS) layout: one vertical group = 128 filters of 256 KiB per index column and case
	nDet := 12
	if c.Tier == "thorough" {
		nDet = 300
	}
	for i := 0; i < nDet; i++ {
		if err := runBloomDetached(c, r, work); err != nil {
			return err
		}
		runtime.GC()
	}
	phase("bloomv")
	return nil
}
