// C20: from fragment ranges to the segments that are read.
//
//	segr  <all segment ranges> <fragment ranges>   =>  ranges a-b …  |  err  |  err panic
//	locit <a|d> <limit> <segment ranges>           =>  segs p,p,…    |  err panic
//
// segr = getSegmentRanges of the column-store reader (hook VerifC20GetSegmentRanges) over the
// segment ranges lib/fragment.NewIndexFragmentVariable produces for a file; locit = the segment
// iteration of immutable.Location over the ranges (hook VerifC20IterSegments). Spec diff: every
// segment of every kept fragment is inside a returned range / is visited.
package c20

import (
	"fmt"
	"strings"

	"github.com/openGemini/openGemini/engine"
	"github.com/openGemini/openGemini/engine/immutable"
	"github.com/openGemini/openGemini/lib/fragment"

	"verif/harness/internal/hx"
)

func runSegRanges(c *hx.Ctx, r *hx.Rng) {
	nfrag := 1 + r.Intn(10)
	// per fragment (first segment, segment count) as the index stores it: high | low 32 bits
	var acc []uint64
	pos := uint32(0)
	for i := 0; i < nfrag; i++ {
		if r.Chance(10) {
			pos += uint32(1 + r.Intn(2)) // segments that belong to no fragment
		}
		cnt := uint32(1 + r.Intn(3))
		acc = append(acc, uint64(pos)<<32|uint64(cnt))
		pos += cnt
	}
	all := fragment.NewIndexFragmentVariable(acc).GetSegmentsFromFragmentRange()
	var allRs []frange
	for _, a := range all {
		allRs = append(allRs, frange{a.Start, a.End})
	}
	frs := genRanges(r, nfrag, 12)
	if r.Chance(6) && len(frs) > 0 {
		frs[len(frs)-1].e += uint32(1 + r.Intn(2)) // a range reaching past the fragments of the file
	}
	op := fmt.Sprintf("segr %s %s", rangesOp(allRs), rangesOp(frs))
	res := ""
	var out fragment.FragmentRanges
	pe := hx.Safe(func() {
		o, err := engine.VerifC20GetSegmentRanges(toFR(frs), all)
		if err != nil {
			res = "err"
			return
		}
		out = o
		res = rangesText(o)
	})
	if pe != "" {
		res = "err panic"
	}
	line := c.Emit(op, res)
	c.Count("frag:segment-ranges")
	wf := wellFormed(frs)
	if strings.HasPrefix(res, "err") {
		c.Count("frag:segr-" + strings.ReplaceAll(res, " ", "-"))
		inside := true
		for _, f := range frs {
			if int(f.e) > nfrag {
				inside = false
			}
		}
		if wf && inside {
			c.Violation(line, "", "getSegmentRanges fails on well-formed fragment ranges inside the file: "+res+" "+op)
		}
		c.Case(op, false)
		return
	}
	if wf {
		for _, f := range frs {
			for i := f.s; i < f.e; i++ {
				for sg := all[i].Start; sg < all[i].End; sg++ {
					if !covered(out, sg) {
						c.Violation(line, "", fmt.Sprintf("getSegmentRanges: segment %d of kept fragment %d is in no returned segment range; %s => %s", sg, i, op, res))
					}
				}
			}
		}
	}
	c.Case(op, len(frs) > 1)
}

func runLocIter(c *hx.Ctx, r *hx.Rng) {
	nseg := 1 + r.Intn(24)
	var frs []frange
	for len(frs) == 0 {
		frs = genRanges(r, nseg, 0)
	}
	asc := r.Bool()
	limit := 200
	if r.Chance(10) {
		limit = r.Intn(6)
	}
	dir := "d"
	if asc {
		dir = "a"
	}
	op := fmt.Sprintf("locit %s %d %s", dir, limit, rangesOp(frs))
	res := ""
	var seen []int
	pe := hx.Safe(func() {
		seen = immutable.VerifC20IterSegments(toFR(frs), asc, limit)
		var p []string
		for _, x := range seen {
			p = append(p, fmt.Sprint(x))
		}
		res = "segs " + strings.Join(p, ",")
	})
	if pe != "" {
		res = "err panic"
	}
	line := c.Emit(op, res)
	c.Count("frag:location-iteration-" + dir)
	if res == "err panic" {
		c.Violation(line, "", "Location segment iteration panics: "+op)
		c.Case(op, false)
		return
	}
	if limit >= 200 {
		got := map[int]int{}
		for _, x := range seen {
			got[x]++
		}
		for _, f := range frs {
			for sg := f.s; sg < f.e; sg++ {
				if got[int(sg)] == 0 {
					c.Violation(line, "", fmt.Sprintf("Location iteration (%s): segment %d of a kept range is never visited; %s => %s", dir, sg, op, res))
				}
				if got[int(sg)] > 1 {
					c.Violation(line, "", fmt.Sprintf("Location iteration (%s): segment %d is visited %d times; %s => %s", dir, sg, got[int(sg)], op, res))
				}
			}
		}
	}
	c.Case(op, len(frs) > 1)
}
