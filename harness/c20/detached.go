// C20, skip indexes: the detached (OBS) layout of the bloom-filter index.
//
//	bloomv <split> <mode> <nvert> <minRows> <ranges> <nIdx> <blocks> <cond…>
//
// One row per block. The first <nvert> blocks (0 or 128 = one vertical group) are served by the
// VerticalFilterReader from the remote file `bloomfilter_<col>.idx` in the transposed layout
// logstore.FlushVerticalFilter writes, the others by the LineFilterReader from the local file of
// the same name; mode L = BloomFilterIndexReader.ReInit(OBSFilterPath{local, remote}) (both
// readers behind FilterReader), mode R = OBSFilterPath{"", remote} (the vertical reader alone).
// Filter data comes from the real writer (BloomFilterWriter.CreateDetachIndex), readers from the
// real CreateSKFileReaders; the model answers as for the attached layout (same blocks, same
// filters): the two layouts must prune alike.
package c20

import (
	"fmt"
	"os"
	"path/filepath"
	"strings"

	"github.com/openGemini/openGemini/engine/index/sparseindex"
	"github.com/openGemini/openGemini/lib/fragment"
	"github.com/openGemini/openGemini/lib/logstore"
	"github.com/openGemini/openGemini/lib/record"
	"github.com/openGemini/openGemini/lib/tokenizer"
	"github.com/openGemini/openGemini/lib/util/lifted/influx/influxql"
	"github.com/openGemini/openGemini/lib/util/lifted/influx/query"
	"github.com/openGemini/openGemini/lib/util/lifted/vm/protoparser/influx"

	"verif/harness/internal/hx"
)

var shortWords = []string{"a", "b", "c", "ab", "hello", "world", "GET", "200", "x1", "error"}

func genShortText(r *hx.Rng) string {
	n := 1 + r.Intn(2)
	var p []string
	for i := 0; i < n; i++ {
		p = append(p, shortWords[r.Intn(len(shortWords))])
	}
	return strings.Join(p, []string{" ", ".", "/", ":"}[r.Intn(4)])
}

func runBloomDetached(c *hx.Ctx, r *hx.Rng, work string) error {
	const group = 128
	b := &bcase{kind: "bf", split: "c", nIdx: 1 + r.Intn(2), rpf: 1}
	mode := "L"
	nvert := group
	nline := r.Intn(4)
	switch x := r.Intn(10); {
	case x < 2:
		mode, nline = "R", 0
	case x < 3:
		nvert, nline = 0, 1+r.Intn(5)
	}
	n := nvert + nline
	nullPct := []int{0, 0, 10}[r.Intn(3)]
	for i := 0; i < n; i++ {
		row := make([]sval, b.numCols())
		for f := range row {
			if !r.Chance(nullPct) {
				row[f] = sval{ok: true, s: genShortText(r)}
			}
		}
		b.rows = append(b.rows, row)
		b.segEnds = append(b.segEnds, i+1)
	}
	b.minRows = []int{0, 0, 2, 1}[r.Intn(4)]
	b.ranges = genRanges(r, n, 0)
	if r.Chance(50) {
		b.ranges = []frange{{0, uint32(n)}}
	}
	b.cond = genBCond(r, b, r.Intn(3))
	b.cond.walk(func(a *bcond) {
		if a.kind != 'A' {
			return
		}
		if r.Chance(50) { // atoms on every column of the record: served, other index column, unindexed
			a.field = r.Intn(b.numCols())
		}
		if r.Chance(50) {
			a.op = "mp"
		}
		// atoms are tokenised eagerly (getAllHashes): keep phrases the tokenizer accepts
		if !validUTF8Prefixes(a.v) || len(a.v) > 40 {
			a.v = "hello"
		}
	})
	var blocks []string
	for _, row := range b.rows {
		var cells []string
		for _, x := range row {
			if !x.ok {
				cells = append(cells, "N")
			} else {
				cells = append(cells, hexs(x.s))
			}
		}
		blocks = append(blocks, strings.Join(cells, ":"))
	}
	op := fmt.Sprintf("bloomv %s %s %d %d %s %d %s %s", b.split, mode, nvert, b.minRows, rangesOp(b.ranges), b.nIdx, strings.Join(blocks, "|"), b.cond.text(b))

	// 33 MB per index column and case: memory-backed scratch when the machine has one
	base, err := os.MkdirTemp("/dev/shm", "verif-c20-detached-")
	if err != nil {
		base = filepath.Join(work, "detached")
		os.RemoveAll(base)
	}
	defer os.RemoveAll(base)
	local, remote := filepath.Join(base, "local"), filepath.Join(base, "remote")
	for _, d := range []string{local, remote} {
		if err := os.MkdirAll(d, 0o755); err != nil {
			return err
		}
	}
	var schema record.Schemas
	for f := 0; f < b.numCols(); f++ {
		schema = append(schema, record.Field{Name: b.fieldName(f), Type: influx.Field_Type_String})
	}
	rec := record.NewRecord(schema, false)
	for _, row := range b.rows {
		for f, x := range row {
			if x.ok {
				rec.Column(f).AppendString(x.s)
			} else {
				rec.Column(f).AppendStringNull()
			}
		}
	}
	rel := b.relation()
	res := ""
	var out fragment.FragmentRanges
	pe := hx.Safe(func() {
		w := sparseindex.NewBloomFilterWriter(local, "", "", "", tokenizer.CONTENT_SPLITTER)
		ds := int(logstore.GetConstant(logstore.CurrentLogTokenizerVersion).FilterDataDiskSize)
		var idx []int
		for f := 0; f < b.nIdx; f++ {
			idx = append(idx, f)
		}
		bufs, paths := w.CreateDetachIndex(rec, idx, b.segEnds, make([][]byte, len(idx)))
		for k := range idx {
			name := filepath.Base(paths[k]) // bloomfilter_<col>.idx
			var vert []byte
			if nvert > 0 {
				vert = logstore.FlushVerticalFilter(make([]byte, 0, nvert*ds+1<<20), bufs[k][:nvert*ds])
			}
			if err := os.WriteFile(filepath.Join(remote, name), vert, 0o600); err != nil {
				res = "err write"
				return
			}
			if err := os.WriteFile(filepath.Join(local, name), bufs[k][nvert*ds:], 0o600); err != nil {
				res = "err write"
				return
			}
		}
		mst := &influxql.Measurement{Name: "m", IndexRelation: rel}
		option := &query.ProcessorOptions{Condition: b.cond.ast(b), Sources: []influxql.Source{mst}}
		rd := sparseindex.NewSKIndexReader(1, 2, b.minRows)
		readers, err := rd.CreateSKFileReaders(option, mst, true)
		if err != nil {
			res = "err create"
			return
		}
		out = toFR(b.ranges)
		lp := local
		if mode == "R" {
			lp = ""
		}
		for i := range readers {
			if err = readers[i].ReInit(sparseindex.NewOBSFilterPath(lp, remote, nil)); err != nil {
				res = "err reinit"
				return
			}
			if out, err = rd.Scan(readers[i], out); err != nil {
				res = "err scan"
				return
			}
		}
		res = rangesText(out)
	})
	if pe != "" {
		res = "err panic"
	}
	line := c.Emit(op, res)
	c.Count("skip:bloom-detached-" + mode)
	if strings.HasPrefix(res, "err") {
		c.Count("bloomv:answer-" + strings.ReplaceAll(res, " ", "-"))
		c.Case(op, false)
		c.Violation(line, "", "detached bloom-filter reader fails: "+res+" "+op)
		return nil
	}
	pruned, kept := 0, 0
	byClass := map[string][]uint32{}
	for _, rg := range b.ranges {
		for j := rg.s; j < rg.e; j++ {
			if covered(out, j) {
				kept++
				continue
			}
			pruned++
			if b.cond.holds(b, b.rows[j]) {
				cl := b.classify(b.rows[j])
				byClass[cl] = append(byClass[cl], j)
			}
		}
	}
	c.Case(op, pruned > 0 && kept > 0)
	for _, k := range hx.SortedKeys(byClass) {
		layout := "vertical"
		if int(byClass[k][0]) >= nvert {
			layout = "line"
		}
		c.Violation(line, k, fmt.Sprintf("detached bloom-filter index (mode %s): blocks %v hold a row satisfying the condition and were pruned (first one read through the %s reader; reader schema %v); %s => %s", mode, byClass[k], layout, b.schemaOf("bf"), op, res))
	}
	return nil
}
