//go:build verif

package main

import (
	"flag"
	"fmt"
	"math"
	"os"
	"path/filepath"
	"strings"

	"github.com/openGemini/openGemini/engine"
	"github.com/openGemini/openGemini/lib/fileops"

	"verif/harness/engx"
)

type obs struct {
	root string
	on   bool
}

func (o *obs) Before(op, p, p2 string, n int64) {}
func (o *obs) After(op, p, p2 string, n int64, err error) {
	if !o.on || !strings.HasPrefix(p, o.root) {
		return
	}
	rel := strings.TrimPrefix(p, o.root+"/")
	if !strings.HasPrefix(rel, "data/") {
		return
	}
	rel2 := strings.TrimPrefix(p2, o.root+"/")
	fmt.Printf("  %-9s %s %s n=%d err=%v\n", op, rel, rel2, n, err)
}

func ls(root string) {
	filepath.Walk(filepath.Join(root, "data"), func(p string, info os.FileInfo, err error) error {
		if err == nil && !info.IsDir() {
			rel, _ := filepath.Rel(root, p)
			fmt.Printf("    %s %d\n", rel, info.Size())
		}
		return nil
	})
}

func main() {
	flag.Parse()
	root := engx.ScratchDir("c03probe")
	defer os.RemoveAll(root)
	o := &obs{root: root}
	fileops.SetVerifObserver(o)
	sh, err := engine.VerifOpenShard(root, 1)
	if err != nil {
		panic(err)
	}
	// sh.DisableBackground()
	w := func(s, t int, v int) {
		rows := []engx.Row{{Mst: "m", Series: s, T: t, Fields: map[string]string{"fi": fmt.Sprint(v)}}}
		if err := sh.Write(engx.ToInflux(rows)); err != nil {
			panic(err)
		}
	}
	for g := 0; g < 9; g++ {
		w(0, g*2+2, g)
		w(1, g*2+2, g)
		if g > 0 {
			w(0, g, 100+g) // late
		}
		sh.Flush()
	}
	fmt.Println("files:", sh.Files("m"))
	ls(root)
	o.on = true
	fmt.Println("== LevelCompact(0)")
	fmt.Println(sh.LevelCompact(0))
	fmt.Println("files:", sh.Files("m"))
	fmt.Println("== MergeOutOfOrder(false,true)")
	fmt.Println(sh.MergeOutOfOrder(false, true))
	fmt.Println("files:", sh.Files("m"))
	for g := 9; g < 12; g++ {
		w(0, g*2+2, g)
		w(0, g, 100+g) // late
		sh.Flush()
	}
	fmt.Println("files:", sh.Files("m"))
	fmt.Println("== MergeOutOfOrder(true,false)")
	fmt.Println(sh.MergeOutOfOrder(true, false))
	fmt.Println("files:", sh.Files("m"))
	fmt.Println("== MergeOutOfOrder(false,false)")
	fmt.Println(sh.MergeOutOfOrder(false, false))
	fmt.Println("files:", sh.Files("m"))
	fmt.Println("== FullCompact")
	fmt.Println(sh.FullCompact())
	fmt.Println("files:", sh.Files("m"))
	o.on = false
	sh.FlushIndex()
	rows, err := sh.Dump("m", engx.AllFields(), math.MinInt64, math.MaxInt64, true)
	fmt.Println(engx.DumpText(rows), err)
	sh.Close()
	ls(root)
}
