// The hint path: the real ShardGroupInfo.TargetShardsHintQuery (/*+ full_series */,
// /*+ specific_series */) against OG.C11.Hint.targetShardsHint. Conditions are conjunctions of tag
// equalities built from a routed point of the scenario: all of its tags (the hint's promise), a
// subset, or with one more atom; spec: when the condition names the whole series, the shard the
// point was written to must be among the shards the hint query reads.
package c11

import (
	"fmt"
	"strconv"
	"strings"

	"github.com/openGemini/openGemini/engine/hybridqp"
	"github.com/openGemini/openGemini/lib/util/lifted/influx/influxql"
	"github.com/openGemini/openGemini/lib/util/lifted/influx/meta"
	"github.com/openGemini/openGemini/lib/util/lifted/influx/query"

	"verif/harness/internal/hx"
)

func (sc *scenario) runHint(c *hx.Ctx, r *hx.Rng) {
	var cand []*point
	for _, p := range sc.points {
		if p.routed && len(p.tags) > 0 {
			cand = append(cand, p)
		}
	}
	if len(cand) == 0 {
		return
	}
	p := cand[r.Intn(len(cand))]
	var g *meta.ShardGroupInfo
	for j := range sc.rpi.ShardGroups {
		if sc.rpi.ShardGroups[j].ID == p.gid {
			g = &sc.rpi.ShardGroups[j]
		}
	}
	if g == nil {
		return
	}
	full := true
	var atoms []string
	for _, t := range p.tags {
		if r.Chance(8) {
			full = false
			continue
		}
		atoms = append(atoms, t.Key+" = "+quote(t.Value))
	}
	if len(atoms) == 0 {
		return
	}
	for i := range atoms { // any order
		j := r.Intn(len(atoms))
		atoms[i], atoms[j] = atoms[j], atoms[i]
	}
	text := strings.Join(atoms, " AND ")
	switch r.Intn(12) {
	case 0:
		text += " AND usage >= 0"
	case 1:
		text = "(" + text + ") OR " + sc.tags[0] + " = 'zz'"
		full = false
	}
	expr, err := parseCond(text, r.Bool())
	if err != nil {
		c.Count("skipped:parse")
		return
	}
	specific := r.Bool()
	ht, hs := hybridqp.FullSeriesQuery, "f"
	if specific {
		ht, hs = hybridqp.SpecificSeriesQuery, "s"
	}
	var f feat
	mc := modelCond(expr, &f)
	ski := sc.mst.GetShardKey(g.ID)
	var ids []string
	found := false
	perr := hx.Safe(func() {
		shs, _ := g.TargetShardsHintQuery(sc.mst, ski, expr, &query.SelectOptions{HintType: ht}, sc.alive[g.ID])
		for _, s := range shs {
			ids = append(ids, strconv.FormatUint(s.ID, 10))
			if s.ID == p.sid {
				found = true
			}
		}
	})
	ans := "shards " + strings.Join(ids, ",")
	if perr != "" {
		ans = "err panic"
	}
	line := c.Emit(fmt.Sprintf("hint %d %s %s", g.ID, hs, mc), ans)
	c.Count("op:hint")
	if perr != "" {
		c.Violation(line, "panic", "TargetShardsHintQuery panicked: "+text)
		return
	}
	if len(ids) == 1 {
		c.Count("hint:one-shard")
	}
	// the point satisfies the condition by construction (its own tag values; usage >= 0 only when it has usage)
	if sat, ok := sc.eval(expr, p); ok && sat && (full || len(sc.key) > 0) && !found {
		c.Violation(line, "hint_query_misses_series", fmt.Sprintf(
			"point t=%d tags=%v is stored in shard %d of group %d; the %s hint query with [%s] reads only shards [%s]; shard key %v range=%v",
			p.t, p.tags, p.sid, g.ID, map[bool]string{true: "specific_series", false: "full_series"}[specific], text, strings.Join(ids, ","), sc.key, sc.isRange))
	}
	_ = influxql.EQ
}
