// Shard mapping of whole statements: the real ClusterShardMapper.MapShards (mapShards /
// mapMstShards, coordinator/shard_mapper.go) over the catalogue of a batch scenario, against
// OG.C11.ReadMap.mapMst / mapSub.
//
// Sources: one measurement, a regular expression matching several measurements (with different
// shard keys), a subquery over either (optionally renaming a tag: SELECT value, a AS b), with an
// inner condition and inner time bounds. Conditions come from the generators of c11.go or are
// built around a row a batch stored (so that matches are frequent).
//
// impl vs model: per source measurement the sorted set of consulted shard ids.
// impl vs spec: every row the scenario's batches stored (through the real routeAndMapOriginRows)
// whose measurement is behind the source, whose time lies in the range and which satisfies the
// condition (for a subquery: the inner condition on the row and the outer condition on the row as
// the subquery renames it) must have its shard among the consulted ones of its measurement.
package c11

import (
	"fmt"
	"sort"
	"strconv"
	"strings"
	"time"

	"github.com/openGemini/openGemini/coordinator"
	"github.com/openGemini/openGemini/lib/logger"
	"github.com/openGemini/openGemini/lib/metaclient"
	"github.com/openGemini/openGemini/lib/util/lifted/influx/influxql"
	"github.com/openGemini/openGemini/lib/util/lifted/influx/meta"
	"github.com/openGemini/openGemini/lib/util/lifted/influx/query"
	"github.com/openGemini/openGemini/lib/util/lifted/vm/protoparser/influx"

	"verif/harness/internal/hx"
)

type storedRow struct {
	mst  string
	t    int64
	tags influx.PointTags
	gid  uint64
	sid  uint64
}

// rmeta: the reader's view of the catalogue (what mapShards reaches).
type rmeta struct {
	metaclient.MetaClient
	sc *bscenario
}

func (m *rmeta) Database(name string) (*meta.DatabaseInfo, error) { return m.sc.data.GetDatabase(name) }
func (m *rmeta) ShardGroupsByTimeRange(db, rp string, a, b time.Time) ([]meta.ShardGroupInfo, error) {
	return m.sc.data.ShardGroupsByTimeRange(db, rp, a, b)
}
func (m *rmeta) GetAliveShards(db string, sgi *meta.ShardGroupInfo, isRead bool) []int {
	return append([]int{}, m.sc.alive[sgi.ID]...)
}

// GetMeasurements as metaclient.Client.GetMeasurements does for a named or regular-expression source.
func (m *rmeta) GetMeasurements(mm *influxql.Measurement) ([]*meta.MeasurementInfo, error) {
	var out []*meta.MeasurementInfo
	dbi, err := m.sc.data.GetDatabase(mm.Database)
	if err != nil {
		return nil, err
	}
	rpi, err := dbi.GetRetentionPolicy(mm.RetentionPolicy)
	if err != nil {
		return nil, err
	}
	if mm.Regex != nil {
		rpi.EachMeasurements(func(msti *meta.MeasurementInfo) {
			if mm.Regex.Val.Match([]byte(influx.GetOriginMstName(msti.Name))) {
				out = append(out, msti)
			}
		})
		sort.Slice(out, func(i, j int) bool {
			return influx.GetOriginMstName(out[i].Name) < influx.GetOriginMstName(out[j].Name)
		})
		return out, nil
	}
	msti, err := rpi.GetMeasurement(mm.Name)
	if err != nil {
		return nil, err
	}
	return []*meta.MeasurementInfo{msti}, nil
}

func setDBRP(src influxql.Sources) {
	for _, s := range src {
		switch x := s.(type) {
		case *influxql.Measurement:
			x.Database, x.RetentionPolicy = dbName, rpName
		case *influxql.SubQuery:
			setDBRP(x.Statement.Sources)
		}
	}
}

func parseSelect(text string) (*influxql.SelectStatement, error) {
	p := influxql.NewParser(strings.NewReader(text))
	defer p.Release()
	yy := influxql.NewYyParser(p.GetScanner(), p.GetPara())
	yy.ParseTokens()
	q, err := yy.GetQuery()
	if err != nil {
		return nil, err
	}
	if len(q.Statements) != 1 {
		return nil, fmt.Errorf("%d statements", len(q.Statements))
	}
	st, ok := q.Statements[0].(*influxql.SelectStatement)
	if !ok {
		return nil, fmt.Errorf("not a select")
	}
	return st, nil
}

// directed: a condition built around a stored row - equalities on some of its tags (its shard-key
// tags first), sometimes ORed with another row's or ANDed with a field atom.
func (sc *bscenario) directed(r *hx.Rng, row *storedRow) string {
	var atoms []string
	for _, t := range row.tags {
		if t.Key == "zone" || strings.ContainsAny(t.Value, "'\\") {
			continue
		}
		if r.Chance(60) {
			atoms = append(atoms, t.Key+" = "+quote(t.Value))
		}
	}
	if len(atoms) == 0 {
		return "value >= 0"
	}
	s := strings.Join(atoms, " AND ")
	switch r.Intn(6) {
	case 0:
		s = "(" + s + ") OR " + sc.tags[r.Intn(len(sc.tags))] + " = " + quote(valPool[r.Intn(5)])
	case 1:
		s = s + " AND value >= 0"
	}
	return s
}

// storedOf: a stored row of one of the measurements, or nil.
func (sc *bscenario) storedOf(r *hx.Rng, names []string) *storedRow {
	var cand []*storedRow
	for _, row := range sc.stored {
		for _, n := range names {
			if row.mst == n {
				cand = append(cand, row)
			}
		}
	}
	if len(cand) == 0 {
		return nil
	}
	return cand[r.Intn(len(cand))]
}

// renameFor: (from, to, value) such that `from AS to` turns the row's tag `from` into a shard-key
// tag `to` of its measurement (for the row's group) with a value other than the row's own `to`.
func (sc *bscenario) renameFor(r *hx.Rng, row *storedRow) (string, string, string) {
	mi, err := sc.data.Measurement(dbName, rpName, row.mst)
	if err != nil {
		return "", "", ""
	}
	var g *meta.ShardGroupInfo
	for j := range sc.rpi.ShardGroups {
		if sc.rpi.ShardGroups[j].ID == row.gid {
			g = &sc.rpi.ShardGroups[j]
		}
	}
	if g == nil {
		return "", "", ""
	}
	ski := sc.skiFor(mi, g)
	if ski == nil || len(ski.ShardKey) == 0 {
		return "", "", ""
	}
	to := ski.ShardKey[r.Intn(len(ski.ShardKey))]
	own := ""
	for _, t := range row.tags {
		if t.Key == to {
			own = t.Value
		}
	}
	for _, t := range row.tags {
		if t.Key != to && t.Key != "zone" && t.Value != own && !strings.ContainsAny(t.Value, "'\\") {
			return t.Key, to, t.Value
		}
	}
	return "", "", ""
}

func (sc *bscenario) runMapQuery(c *hx.Ctx, r *hx.Rng) {
	shim := &scenario{tags: sc.tags, key: sc.tags[:1], times: sc.times}
	genText := func() string {
		if len(sc.stored) > 0 && r.Chance(65) {
			return sc.directed(r, sc.stored[r.Intn(len(sc.stored))])
		}
		if r.Chance(15) {
			return genChain(r, shim).String()
		}
		return genCond(r, shim, 1+r.Intn(3)).String()
	}
	// source
	var names []string
	fromText := ""
	if r.Chance(45) && len(sc.names) > 1 {
		names = subset(r, sc.names, 2+r.Intn(len(sc.names)-1))
		fromText = "/^(" + strings.Join(names, "|") + ")$/"
		c.Count("mapq:source-regex")
	} else {
		names = []string{sc.names[r.Intn(len(sc.names))]}
		fromText = names[0]
		c.Count("mapq:source-name")
	}
	timeText := func() (string, int64, int64) {
		lo, hi := int64(influxql.MinTime), int64(influxql.MaxTime)
		var parts []string
		if r.Chance(50) {
			lo = sc.times[r.Intn(len(sc.times))]
			parts = append(parts, "time >= "+strconv.FormatInt(lo, 10))
		}
		if r.Chance(50) {
			hi = sc.times[r.Intn(len(sc.times))]
			parts = append(parts, "time <= "+strconv.FormatInt(hi, 10))
		}
		return strings.Join(parts, " AND "), lo, hi
	}
	where := func(cond, tm string) string {
		switch {
		case cond == "" && tm == "":
			return ""
		case cond == "":
			return " WHERE " + tm
		case tm == "":
			return " WHERE " + cond
		}
		return " WHERE (" + cond + ") AND " + tm
	}
	sub := r.Chance(40)
	var text, outerText, innerText string
	var aliasFrom, aliasTo string
	if r.Chance(85) {
		outerText = genText()
	}
	otm, _, _ := timeText()
	if sub {
		if r.Chance(60) {
			innerText = genText()
		}
		itm, _, _ := timeText()
		sel := "value"
		if r.Chance(50) && len(sc.tags) >= 2 {
			two := subset(r, sc.tags, 2)
			if r.Bool() {
				two[0], two[1] = two[1], two[0]
			}
			aliasFrom, aliasTo = two[0], two[1]
			// directed: rename another tag of a stored row INTO a shard-key tag of its measurement and
			// ask the outer query for the renamed value
			if row := sc.storedOf(r, names); row != nil && r.Chance(70) {
				if from, to, v := sc.renameFor(r, row); to != "" {
					aliasFrom, aliasTo = from, to
					outerText = to + " = " + quote(v)
					if r.Chance(30) {
						outerText += " AND value >= 0"
					}
					c.Count("mapq:subquery-rename-directed")
				}
			}
			sel = "value, " + aliasFrom + " AS " + aliasTo
			c.Count("mapq:subquery-renames-a-tag")
		}
		text = "SELECT * FROM (SELECT " + sel + " FROM " + fromText + where(innerText, itm) + ")" + where(outerText, otm)
		c.Count("mapq:subquery")
	} else {
		text = "SELECT value FROM " + fromText + where(outerText, otm)
	}
	stmt, err := parseSelect(text)
	if err != nil {
		c.Count("skipped:mapq-parse")
		return
	}
	setDBRP(stmt.Sources)
	cond, tr, err := influxql.ConditionExpr(stmt.Condition, nil)
	if err != nil {
		c.Count("skipped:mapq-condition")
		return
	}
	tmin, tmax := tr.MinTimeNano(), tr.MaxTimeNano()
	var f feat
	var op string
	var innerCond influxql.Expr
	imin, imax := int64(influxql.MinTime), int64(influxql.MaxTime)
	hexNames := strings.Join(hexs(names), ",")
	if sub {
		sq := stmt.Sources[0].(*influxql.SubQuery)
		ic, itr, ierr := influxql.ConditionExpr(influxql.CloneExpr(sq.Statement.Condition), nil)
		if ierr != nil {
			c.Count("skipped:mapq-condition")
			return
		}
		innerCond = ic
		imin, imax = itr.MinTimeNano(), itr.MaxTimeNano()
		lo, hi := "-", "-"
		if imin != influxql.MinTime {
			lo = strconv.FormatInt(imin, 10)
		}
		if imax != influxql.MaxTime {
			hi = strconv.FormatInt(imax, 10)
		}
		op = fmt.Sprintf("mapsub %d %d %s %s %s %s %s", tmin, tmax, hexNames, lo, hi, modelCond(innerCond, &f), modelCond(cond, &f))
	} else {
		op = fmt.Sprintf("mapq %d %d %s %s", tmin, tmax, hexNames, modelCond(cond, &f))
	}
	if f.eqAtoms > 12 {
		c.Count("skipped:more-than-12-equalities")
		return
	}
	csm := &coordinator.ClusterShardMapper{Logger: logger.NewLogger(1)}
	csm.MetaClient = &rmeta{sc: sc}
	consulted := map[string]map[uint64]bool{}
	var merr error
	perr := hx.Safe(func() {
		sg, e := csm.MapShards(stmt, tr, query.SelectOptions{}, cond)
		if e != nil {
			merr = e
			return
		}
		for src, byPt := range sg.(*coordinator.ClusterShardMapping).ShardMap {
			if consulted[src.Measurement] == nil {
				consulted[src.Measurement] = map[uint64]bool{}
			}
			for _, shs := range byPt {
				for _, sh := range shs {
					consulted[src.Measurement][sh.ID] = true
				}
			}
		}
	})
	ans := ""
	switch {
	case perr != "":
		ans = "err panic"
	case merr != nil:
		ans = "err " + merr.Error()
	default:
		var parts []string
		for _, n := range names {
			var ids []uint64
			for id := range consulted[n] {
				ids = append(ids, id)
			}
			sort.Slice(ids, func(i, j int) bool { return ids[i] < ids[j] })
			var s []string
			for _, id := range ids {
				s = append(s, strconv.FormatUint(id, 10))
			}
			parts = append(parts, hx2(n)+"="+strings.Join(s, ","))
		}
		ans = "map " + strings.Join(parts, " ")
	}
	line := c.Emit(op, ans)
	c.Count("op:mapq")
	if perr != "" {
		c.Violation(line, "panic", "MapShards panicked: "+perr+" "+text)
		return
	}
	if merr != nil {
		return
	}
	// spec diff over the stored rows
	inSrc := map[string]bool{}
	for _, n := range names {
		inSrc[n] = true
	}
	lo, hi := tmin, tmax
	if sub {
		// the range handed to the inner sources: the subquery's bounds where it has some
		if imin != influxql.MinTime {
			lo = imin
		}
		if imax != influxql.MaxTime {
			hi = imax
		}
	}
	matched, pruned := 0, false
	for _, n := range names {
		mi, e := sc.data.Measurement(dbName, rpName, n)
		if e != nil {
			continue
		}
		_ = mi
		for j := range sc.rpi.ShardGroups {
			g := &sc.rpi.ShardGroups[j]
			if g.Deleted() || !g.Overlaps(time.Unix(0, lo), time.Unix(0, hi)) {
				continue
			}
			for _, k := range sc.alive[g.ID] {
				if !consulted[n][g.Shards[k].ID] {
					pruned = true
				}
			}
		}
	}
	for _, row := range sc.stored {
		if !inSrc[row.mst] || row.t < lo || row.t > hi {
			continue
		}
		if sub && (row.t < tmin || row.t > tmax) {
			continue // the outer time range filters the subquery's output
		}
		p := &point{t: row.t, tags: row.tags}
		need := false
		if sub {
			in, ok1 := shim.eval(innerCond, p)
			if !ok1 {
				c.Count("spec:mapq-not-evaluable")
				break
			}
			view := p
			if aliasTo != "" {
				v := &point{t: row.t}
				val, hasFrom := "", false
				for _, t := range row.tags {
					if t.Key == aliasFrom {
						val, hasFrom = t.Value, true
					}
				}
				for _, t := range row.tags {
					if t.Key != aliasTo {
						v.tags = append(v.tags, t)
					}
				}
				if hasFrom {
					v.tags = append(v.tags, influx.Tag{Key: aliasTo, Value: val})
				}
				view = v
			}
			out, ok2 := shim.eval(cond, view)
			if !ok2 {
				c.Count("spec:mapq-not-evaluable")
				break
			}
			need = in && out
		} else {
			s, ok := shim.eval(cond, p)
			if !ok {
				c.Count("spec:mapq-not-evaluable")
				break
			}
			need = s
		}
		if !need {
			continue
		}
		matched++
		if !consulted[row.mst][row.sid] {
			class := "mapshards_row_not_consulted"
			c.Violation(line, class, fmt.Sprintf(
				"row (measurement %s, t=%d, tags=%v) stored in shard %d of group %d satisfies [%s] but MapShards consults for %s only %s; catalogue line ops above",
				row.mst, row.t, row.tags, row.sid, row.gid, text, row.mst, ans))
			break
		}
	}
	if matched > 0 {
		c.Count("spec:mapq-checked-with-matching-rows")
	} else {
		c.Count("spec:mapq-no-row-matched")
	}
	c.Case(caseKey(op), pruned && matched > 0)
	if pruned {
		c.Count("mapq:pruned")
	}
}

// mapOne maps one plain statement over the named measurements with the real MapShards, emits the
// `mapq` op and checks every stored row of those measurements that satisfies the condition
// (violations get class `class`).
func (sc *bscenario) mapOne(c *hx.Ctx, text string, names []string, class string) {
	shim := &scenario{tags: sc.tags, key: sc.tags[:1], times: sc.times}
	stmt, err := parseSelect(text)
	if err != nil {
		c.Count("skipped:mapq-parse")
		return
	}
	setDBRP(stmt.Sources)
	cond, tr, err := influxql.ConditionExpr(stmt.Condition, nil)
	if err != nil {
		c.Count("skipped:mapq-condition")
		return
	}
	tmin, tmax := tr.MinTimeNano(), tr.MaxTimeNano()
	var f feat
	op := fmt.Sprintf("mapq %d %d %s %s", tmin, tmax, strings.Join(hexs(names), ","), modelCond(cond, &f))
	csm := &coordinator.ClusterShardMapper{Logger: logger.NewLogger(1)}
	csm.MetaClient = &rmeta{sc: sc}
	consulted := map[string]map[uint64]bool{}
	var merr error
	perr := hx.Safe(func() {
		sg, e := csm.MapShards(stmt, tr, query.SelectOptions{}, cond)
		if e != nil {
			merr = e
			return
		}
		for src, byPt := range sg.(*coordinator.ClusterShardMapping).ShardMap {
			if consulted[src.Measurement] == nil {
				consulted[src.Measurement] = map[uint64]bool{}
			}
			for _, shs := range byPt {
				for _, sh := range shs {
					consulted[src.Measurement][sh.ID] = true
				}
			}
		}
	})
	ans := ""
	switch {
	case perr != "":
		ans = "err panic"
	case merr != nil:
		ans = "err " + merr.Error()
	default:
		var parts []string
		for _, n := range names {
			var ids []uint64
			for id := range consulted[n] {
				ids = append(ids, id)
			}
			sort.Slice(ids, func(i, j int) bool { return ids[i] < ids[j] })
			var s []string
			for _, id := range ids {
				s = append(s, strconv.FormatUint(id, 10))
			}
			parts = append(parts, hx2(n)+"="+strings.Join(s, ","))
		}
		ans = "map " + strings.Join(parts, " ")
	}
	line := c.Emit(op, ans)
	c.Count("op:mapq")
	if perr != "" {
		c.Violation(line, "panic", "MapShards panicked: "+perr+" "+text)
		return
	}
	if merr != nil {
		return
	}
	inSrc := map[string]bool{}
	for _, n := range names {
		inSrc[n] = true
	}
	for _, row := range sc.stored {
		if !inSrc[row.mst] || row.t < tmin || row.t > tmax {
			continue
		}
		sat, ok := shim.eval(cond, &point{t: row.t, tags: row.tags})
		if !ok || !sat {
			continue
		}
		if !consulted[row.mst][row.sid] {
			c.Violation(line, class, fmt.Sprintf(
				"row (measurement %s, t=%d, tags=%v) stored in shard %d of group %d satisfies [%s] but MapShards consults for %s only %s",
				row.mst, row.t, row.tags, row.sid, row.gid, text, row.mst, ans))
			break
		}
	}
}
