// Column-store rows: the real influx.Row.UnmarshalShardKeyByField (the shard-key builder
// updateShardGroupAndShardKey uses for COLUMNSTORE measurements) against
// OG.C11.Alive.shardKeyByField. Tags in any order (with repeats), string fields, shard keys naming
// tags, fields, or names the row lacks. Spec: when every shard-key name is a tag of the row and
// the tags are sorted without repeats, the key equals the one UnmarshalShardKeyByTag builds.
package c11

import (
	"fmt"

	"github.com/openGemini/openGemini/lib/util/lifted/vm/protoparser/influx"

	"verif/harness/internal/hx"
)

func runFieldKey(c *hx.Ctx, r *hx.Rng) {
	names := []string{"app", "az", "dc", "host", "msg", "note", "region"}
	key := subset(r, names, 1+r.Intn(3))
	if r.Chance(20) { // declared order need not be sorted here
		for i := range key {
			j := r.Intn(len(key))
			key[i], key[j] = key[j], key[i]
		}
	}
	var tags influx.PointTags
	sorted := true
	for _, n := range []string{"app", "az", "dc", "host", "region"} {
		if r.Chance(70) {
			tags = append(tags, influx.Tag{Key: n, Value: valPool[r.Intn(len(valPool))]})
			if r.Chance(5) {
				tags = append(tags, influx.Tag{Key: n, Value: valPool[r.Intn(5)]})
				sorted = false
			}
		}
	}
	if r.Chance(25) && len(tags) > 1 {
		i, j := r.Intn(len(tags)), r.Intn(len(tags))
		tags[i], tags[j] = tags[j], tags[i]
		if i != j {
			sorted = false
		}
	}
	var fields influx.Fields
	for _, n := range []string{"msg", "note", "host"} {
		if r.Chance(50) {
			fields = append(fields, influx.Field{Key: n, StrValue: valPool[r.Intn(len(valPool))], Type: influx.Field_Type_String})
		}
	}
	name := "cs_0000"
	cp := make(influx.PointTags, len(tags))
	copy(cp, tags)
	row := &influx.Row{Name: name, Tags: cp, Fields: fields}
	var err error
	perr := hx.Safe(func() { err = row.UnmarshalShardKeyByField(key) })
	ans := ""
	switch {
	case perr != "":
		ans = "err panic"
	case err == influx.ErrPointShouldHaveAllShardKey:
		ans = "err missing-shard-key"
	case err != nil:
		ans = "err other:" + err.Error()
	default:
		ans = "key " + hx2(string(row.ShardKey))
	}
	var ts, fs []string
	for _, t := range tags {
		ts = append(ts, hx2(t.Key)+"="+hx2(t.Value))
	}
	for _, f := range fields {
		fs = append(fs, hx2(f.Key)+"="+hx2(f.StrValue))
	}
	line := c.Emit(fmt.Sprintf("fieldkey %s %s %s %s", hx2(name), listOr(hexs(key), ","), listOr(ts, "+"), listOr(fs, "+")), ans)
	c.Count("op:fieldkey")
	if perr != "" {
		c.Violation(line, "panic", "UnmarshalShardKeyByField panicked")
		return
	}
	// spec: same key as the time-series builder when the key names tags only
	if sorted && err == nil {
		keySorted := true
		for i := 1; i < len(key); i++ {
			if key[i-1] >= key[i] {
				keySorted = false
			}
		}
		cp2 := make(influx.PointTags, len(tags))
		copy(cp2, tags)
		row2 := &influx.Row{Name: name, Tags: cp2}
		if keySorted && row2.UnmarshalShardKeyByTag(key) == nil && string(row2.ShardKey) != string(row.ShardKey) {
			c.Violation(line, "column_store_key_differs_from_tag_key", fmt.Sprintf("%q vs %q", row.ShardKey, row2.ShardKey))
		}
	}
}
