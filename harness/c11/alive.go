// Alive-shard lists: the real metaclient.Client.GetAliveShards (write-available-first policy) over
// the scenario's meta.Data (Client.SetCacheData) against OG.C11.Alive.aliveWAF, and the effect of
// a partition changing its status between a write and a read.
//
// In "partition mode" scenarios the alive list of every group is what the real client computes
// from the partition view (some partitions Offline); writer and reader use it. After the batches
// and queries of the scenario every partition is switched Online again, the catalogue is re-sent
// to the model, and queries on the shard key of rows stored while the partition was down are
// mapped by the real MapShards: a row whose shard is no longer consulted is reported with class
// alive_list_changed_between_write_and_read (a known finding: the modulus domain of hash sharding
// is the alive list at the time of the call).
package c11

import (
	"fmt"
	"strings"

	"github.com/openGemini/openGemini/lib/config"
	"github.com/openGemini/openGemini/lib/metaclient"
	"github.com/openGemini/openGemini/lib/util/lifted/influx/meta"

	"verif/harness/internal/hx"
)

func bools(xs []bool) string {
	var s []string
	for _, x := range xs {
		if x {
			s = append(s, "1")
		} else {
			s = append(s, "0")
		}
	}
	return listOr(s, ",")
}

// ptMode switches some partitions of the database Offline and derives every group's alive list
// from the real client.
func (sc *bscenario) ptMode(r *hx.Rng, c *hx.Ctx) {
	pv := sc.data.PtView[dbName]
	if len(pv) < 2 {
		return
	}
	sc.client = metaclient.NewClient("", false, 1)
	sc.client.SetCacheData(sc.data)
	for i := range pv {
		pv[i].Status = meta.Online // the view is created Offline until the store nodes report
	}
	down := 1 + r.Intn(2)
	for i := 0; i < down; i++ {
		pv[r.Intn(len(pv))].Status = []meta.PtStatus{meta.Offline, meta.Offline, meta.PrepareOffload, meta.Disabled}[r.Intn(4)]
	}
	sc.refreshAlive(c)
	c.Count("bmeta:partition-mode")
}

// refreshAlive recomputes the alive list of every group with the real client and ties it to the
// model (`alive` ops: reader, writer, writer under hard-write).
func (sc *bscenario) refreshAlive(c *hx.Ctx) {
	pv := sc.data.PtView[dbName]
	online := make([]bool, len(pv))
	for i := range pv {
		online[i] = pv[i].Status == meta.Online
	}
	for j := range sc.rpi.ShardGroups {
		g := &sc.rpi.ShardGroups[j]
		var owners []int
		for k := range g.Shards {
			owners = append(owners, int(g.Shards[k].Owners[0]))
		}
		for _, mode := range []struct {
			read, hard bool
		}{{true, false}, {false, false}, {false, true}, {true, true}} {
			config.SetHardWrite(mode.hard)
			var got []int
			perr := hx.Safe(func() { got = sc.client.GetAliveShards(dbName, g, mode.read) })
			config.SetHardWrite(false)
			ans := "alive " + ints(got)
			if perr != "" {
				ans = "err panic"
			}
			rw, hd := "w", "0"
			if mode.read {
				rw = "r"
			}
			if mode.hard {
				hd = "1"
			}
			line := c.Emit(fmt.Sprintf("alive %s %s %s %s", bools(online), ints(owners), rw, hd), ans)
			c.Count("op:alive")
			if perr == "" {
				for _, k := range got {
					if k < 0 || k >= len(g.Shards) {
						c.Violation(line, "alive_index_out_of_range", ans)
					}
				}
			}
			if mode.read && !mode.hard && perr == "" {
				sc.alive[g.ID] = got
			}
		}
	}
}

// recover: every partition Online again; then queries on the shard key of rows stored before.
func (sc *bscenario) recoverAndRead(r *hx.Rng, c *hx.Ctx) {
	pv := sc.data.PtView[dbName]
	for i := range pv {
		pv[i].Status = meta.Online
	}
	sc.refreshAlive(c)
	sc.emitCatalogue(c)
	n := 0
	for _, row := range sc.stored {
		if n >= 6 {
			break
		}
		mi, err := sc.data.Measurement(dbName, rpName, row.mst)
		if err != nil {
			continue
		}
		var g *meta.ShardGroupInfo
		for j := range sc.rpi.ShardGroups {
			if sc.rpi.ShardGroups[j].ID == row.gid {
				g = &sc.rpi.ShardGroups[j]
			}
		}
		if g == nil {
			continue
		}
		ski := sc.skiFor(mi, g)
		if ski == nil || len(ski.ShardKey) == 0 {
			continue
		}
		var atoms []string
		ok := true
		for _, k := range ski.ShardKey {
			v := ""
			for _, t := range row.tags {
				if t.Key == k {
					v = t.Value
				}
			}
			if strings.ContainsAny(v, "'\\") {
				ok = false
			}
			atoms = append(atoms, k+" = "+quote(v))
		}
		if !ok {
			continue
		}
		n++
		sc.mapOne(c, "SELECT value FROM "+row.mst+" WHERE "+strings.Join(atoms, " AND "), []string{row.mst}, "alive_list_changed_between_write_and_read")
	}
}
