// Batch routing: the real PointsWriter.routeAndMapOriginRows (through the verif hook
// coordinator.VerifRouteBatch) against OG.C11.Batch.routeBatch.
//
// A batch scenario is a catalogue built through meta.Data with 2-4 measurements of one retention
// policy that have different shard keys (none / one tag / two tags, optionally altered between
// shard groups; optionally a database-level shard key), hash or range sharding, 1-4 shard groups
// with different alive-shard lists, deleted and truncated groups. The writer gets it through a
// PWMetaClient implemented over that meta.Data (never creating groups or measurements itself: the
// catalogue is a snapshot). Batches mix the measurements, cross group boundaries, and contain rows
// that are dropped at every stage of the loop (time out of range, field type clash inside the
// row, invalid measurement name, repeated tag key, every field clashing with the schema, missing
// shard-key tag) or abort it (no group, measurement lookup failure).
//
// impl vs model: per row (group id, shard id, hashed / compared key), the number of dropped rows,
// the kind of the last partial error and of the abort.
// impl vs spec, per routed row:
//   - the shard is the one the row gets when written on its own (single-point composition of the
//     exported functions, as `point` ops do) - unless groups overlap or the group is truncated, where
//     only the shard inside the batch's group is compared;
//   - the real TargetShards of that group, for the conjunction of equalities on the row's
//     shard-key tags (the measurement's own ShardKeyInfo for that group, the reader's alive list),
//     returns the row's shard.
package c11

import (
	"errors"
	"fmt"
	"sort"
	"strconv"
	"strings"
	"time"

	"github.com/openGemini/openGemini/coordinator"
	"github.com/openGemini/openGemini/lib/config"
	"github.com/openGemini/openGemini/lib/errno"
	"github.com/openGemini/openGemini/lib/metaclient"
	"github.com/openGemini/openGemini/lib/util"
	"github.com/openGemini/openGemini/lib/util/lifted/influx/influxql"
	"github.com/openGemini/openGemini/lib/util/lifted/influx/meta"
	proto2 "github.com/openGemini/openGemini/lib/util/lifted/influx/meta/proto"
	"github.com/openGemini/openGemini/lib/util/lifted/protobuf/proto"
	"github.com/openGemini/openGemini/lib/util/lifted/vm/protoparser/influx"

	"verif/harness/internal/hx"
)

var mstPool = []string{"cpu", "disk", "mem", "net"}

const lookupFailName = "lookupfails" // the meta client answers this name with a plain error

type bscenario struct {
	data    *meta.Data
	dbi     *meta.DatabaseInfo
	rpi     *meta.RetentionPolicyInfo
	names   []string // measurement origin names, sorted
	isRange bool
	tags    []string
	dur     time.Duration
	nparts  int
	alive   map[uint64][]int
	special bool    // overlapping or truncated groups: the batch's group may differ from the single-point one
	times   []int64 // interesting timestamps
	liveT   []int64 // timestamps a live group covers
	stored  []*storedRow // rows the scenario's batches stored (not aborted), for the read-side spec
	client  *metaclient.Client // partition mode: the real client over `data` (GetAliveShards)
}

// bmeta: the writer's view of the catalogue. Only what routeAndMapOriginRows reaches is
// implemented; anything else hits the nil embedded interface and panics (reported).
type bmeta struct {
	coordinator.PWMetaClient
	sc *bscenario
}

func (m *bmeta) Database(name string) (*meta.DatabaseInfo, error) { return m.sc.data.GetDatabase(name) }
func (m *bmeta) RetentionPolicy(db, rp string) (*meta.RetentionPolicyInfo, error) {
	return m.sc.data.RetentionPolicy(db, rp)
}
func (m *bmeta) CreateShardGroup(db, rp string, ts time.Time, version uint32, et config.EngineType) (*meta.ShardGroupInfo, error) {
	sg, _, err := m.sc.data.GetTierOfShardGroup(db, rp, ts, util.Hot, et)
	if err != nil {
		return nil, err
	}
	if sg == nil {
		return nil, nil // the snapshot is not extended: the writer reports WriteNoShardGroup
	}
	cp := *sg // metaclient.Client.CreateShardGroup hands out a copy
	return &cp, nil
}
func (m *bmeta) DBPtView(db string) (meta.DBPtInfos, error) { return m.sc.data.DBPtView(db), nil }
func (m *bmeta) Measurement(db, rp, name string) (*meta.MeasurementInfo, error) {
	if name == lookupFailName {
		return nil, errors.New("measurement lookup failed")
	}
	return m.sc.data.Measurement(db, rp, name)
}
func (m *bmeta) UpdateSchema(db, rp, mst string, f []*proto2.FieldSchema) error {
	return m.sc.data.UpdateSchema(db, rp, mst, f)
}
func (m *bmeta) CreateMeasurement(db, rp, mst string, shardKey *meta.ShardKeyInfo, numOfShards int32, indexR *influxql.IndexRelation,
	engineType config.EngineType, colStoreInfo *meta.ColStoreInfo, schemaInfo []*proto2.FieldSchema, options *meta.Options) (*meta.MeasurementInfo, error) {
	// as metaclient.Client.CreateMeasurement starts
	if !meta.ValidMeasurementName(mst) {
		return nil, errno.NewError(errno.InvalidMeasurement, mst)
	}
	return nil, errors.New("the snapshot catalogue creates no measurement")
}
func (m *bmeta) GetAliveShards(db string, sgi *meta.ShardGroupInfo, isRead bool) []int {
	return append([]int{}, m.sc.alive[sgi.ID]...)
}
func (m *bmeta) GetStreamInfos() map[string]*meta.StreamInfo                      { return nil }
func (m *bmeta) GetDstStreamInfos(db, rp string, dst *[]*meta.StreamInfo) bool    { return false }
func (m *bmeta) DBRepGroups(db string) []meta.ReplicaGroup                         { return nil }
func (m *bmeta) GetReplicaN(db string) (int, error)                                { return 1, nil }
func (m *bmeta) UpdateSchemaByCmd(cmd *proto2.UpdateSchemaCommand) error           { return nil }
func (m *bmeta) GetSgEndTime(db, rp string, t time.Time, et config.EngineType) (int64, error) {
	return 0, errors.New("not used with SchemaCleanEn off")
}

func protoKey(key []string, isRange bool) *proto2.ShardKeyInfo {
	typ := influxql.HASH
	if isRange {
		typ = influxql.RANGE
	}
	return &proto2.ShardKeyInfo{ShardKey: key, Type: proto.String(typ)}
}

func genBatchScenario(r *hx.Rng, c *hx.Ctx) (*bscenario, error) {
	sc := &bscenario{alive: map[uint64][]int{}}
	sc.nparts = 1 + r.Intn(8)
	if r.Chance(60) {
		sc.nparts = 2 + r.Intn(7)
	}
	nodes := 1
	for _, d := range []int{4, 3, 2} {
		if sc.nparts%d == 0 && r.Bool() {
			nodes = d
			break
		}
	}
	data := &meta.Data{PtNumPerNode: uint32(sc.nparts / nodes)}
	for i := 0; i < nodes; i++ {
		if _, err := data.CreateDataNode(fmt.Sprintf("127.0.0.%d:8400", i+1), fmt.Sprintf("127.0.0.%d:8401", i+1), "", ""); err != nil {
			return nil, err
		}
	}
	sc.isRange = r.Chance(25)
	sc.tags = subset(r, tagPool, 2+r.Intn(4))
	var dbKey *proto2.ShardKeyInfo
	if r.Chance(15) {
		dbKey = protoKey(subset(r, sc.tags, 1+r.Intn(2)), sc.isRange)
		c.Count("bmeta:db-level-shard-key")
	}
	if err := data.CreateDatabase(dbName, nil, dbKey, false, 1, nil); err != nil {
		return nil, err
	}
	if _, err := data.CreateDBPtView(dbName); err != nil {
		return nil, err
	}
	rp := meta.NewRetentionPolicyInfo(rpName)
	rp.ShardGroupDuration = []time.Duration{time.Hour, 6 * time.Hour, 24 * time.Hour, 90 * time.Minute}[r.Intn(4)]
	rp.Duration = 0 // no wall-clock dependent lower bound (ctx.minTime stays 0)
	if err := data.CreateRetentionPolicy(dbName, rp, true); err != nil {
		return nil, err
	}
	sc.dur = rp.ShardGroupDuration
	sc.names = subset(r, mstPool, 2+r.Intn(3))
	genKey := func() []string {
		var k []string
		switch r.Intn(4) {
		case 0:
		case 1, 2:
			k = subset(r, sc.tags, 1)
		default:
			k = subset(r, sc.tags, 2)
		}
		if len(k) == 0 {
			return nil
		}
		return k
	}
	for _, name := range sc.names {
		numOfShards := int32(0)
		if !sc.isRange && sc.nparts > 1 && r.Chance(20) {
			numOfShards = int32(1 + r.Intn(sc.nparts-1))
		}
		if err := data.CreateMeasurement(dbName, rpName, name, protoKey(genKey(), sc.isRange), numOfShards, nil, config.TSSTORE, nil, nil, nil); err != nil {
			return nil, err
		}
		var fs []*proto2.FieldSchema
		for _, t := range sc.tags {
			fs = append(fs, &proto2.FieldSchema{FieldName: proto.String(t), FieldType: proto.Int32(influx.Field_Type_Tag)})
		}
		fs = append(fs, &proto2.FieldSchema{FieldName: proto.String("value"), FieldType: proto.Int32(influx.Field_Type_Float)})
		if err := data.UpdateSchema(dbName, rpName, name, fs); err != nil {
			return nil, err
		}
	}
	rpi, err := data.RetentionPolicy(dbName, rpName)
	if err != nil {
		return nil, err
	}
	sc.data, sc.rpi = data, rpi
	sc.dbi = data.Database(dbName)

	base := []int64{1600000000000000000, 1700000000123456789, 4102444800000000000, 86400000000000}[r.Intn(4)]
	ngroups := 1 + r.Intn(4)
	first := true
	for i := 0; i < ngroups; i++ {
		t := base + int64(i)*int64(sc.dur)
		if r.Chance(15) {
			t += int64(sc.dur) // gap
			base += int64(sc.dur)
		}
		t += int64(r.Intn(int(sc.dur / 2)))
		before := len(rpi.ShardGroups)
		if err := data.CreateShardGroup(dbName, rpName, time.Unix(0, t), util.Hot, config.TSSTORE, 0); err != nil {
			return nil, err
		}
		if len(rpi.ShardGroups) == before+1 && sc.isRange && first {
			var g *meta.ShardGroupInfo
			for j := range rpi.ShardGroups {
				if g == nil || rpi.ShardGroups[j].ID > g.ID {
					g = &rpi.ShardGroups[j]
				}
			}
			sc.setBounds(r, g)
		}
		first = false
		// ALTER MEASUREMENT … SHARDKEY between two groups: later groups use another key
		if i+1 < ngroups && r.Chance(30) {
			name := sc.names[r.Intn(len(sc.names))]
			if err := data.AlterShardKey(dbName, rpName, name, protoKey(genKey(), sc.isRange)); err == nil {
				c.Count("bmeta:alter-shard-key")
			}
		}
	}
	// ALTER RETENTION POLICY … SHARD DURATION: later groups are cut with another duration and may
	// overlap the older ones (the real CreateShardGroup decides)
	if r.Chance(25) && len(rpi.ShardGroups) > 0 {
		old := sc.dur
		rpi.ShardGroupDuration = []time.Duration{30 * time.Minute, 2 * time.Hour, 6 * time.Hour, 25 * time.Hour}[r.Intn(4)]
		last := rpi.ShardGroups[len(rpi.ShardGroups)-1]
		for k := 0; k < 1+r.Intn(2); k++ {
			t := ns(last.EndTime) + int64(k)*int64(rpi.ShardGroupDuration) + int64(r.Intn(int(old)))
			if r.Chance(30) {
				t = ns(last.StartTime) - 1 - int64(r.Intn(int(old)))
			}
			if t <= 0 {
				continue
			}
			_ = data.CreateShardGroup(dbName, rpName, time.Unix(0, t), util.Hot, config.TSSTORE, 0)
		}
		c.Count("bmeta:shard-duration-altered")
		for a := range rpi.ShardGroups {
			for b := a + 1; b < len(rpi.ShardGroups); b++ {
				ga, gb := &rpi.ShardGroups[a], &rpi.ShardGroups[b]
				if ga.StartTime.Before(gb.EndTime) && gb.StartTime.Before(ga.EndTime) {
					sc.special = true
					c.Count("bmeta:altered-duration-overlap")
				}
			}
		}
	}
	for j := range rpi.ShardGroups {
		g := &rpi.ShardGroups[j]
		if r.Chance(6) {
			g.DeletedAt = time.Unix(0, 1)
			c.Count("bmeta:deleted-group")
		} else if r.Chance(8) {
			g.TruncatedAt = g.StartTime.Add(time.Duration(1 + r.Intn(int(sc.dur)-1)))
			sc.special = true
			c.Count("bmeta:truncated-group")
		}
	}
	if r.Chance(6) && len(rpi.ShardGroups) > 0 {
		// an overlapping group, as left behind by a duration change
		g := rpi.ShardGroups[r.Intn(len(rpi.ShardGroups))]
		src := g.ID
		data.MaxShardGroupID++
		g.ID = data.MaxShardGroupID
		g.StartTime = g.StartTime.Add(sc.dur / 2)
		g.EndTime = g.EndTime.Add(sc.dur / 2)
		g.DeletedAt, g.TruncatedAt = time.Time{}, time.Time{}
		shards := make([]meta.ShardInfo, len(g.Shards))
		copy(shards, g.Shards)
		for k := range shards {
			data.MaxShardID++
			shards[k].ID = data.MaxShardID
		}
		g.Shards = shards
		for _, name := range sc.names {
			if mi, e := data.Measurement(dbName, rpName, name); e == nil && mi.InitNumOfShards != 0 {
				mi.ShardIdexes[g.ID] = mi.ShardIdexes[src]
			}
		}
		rpi.ShardGroups = append(rpi.ShardGroups, g)
		sort.Sort(meta.ShardGroupInfos(rpi.ShardGroups))
		sc.special = true
		c.Count("bmeta:overlapping-group")
	}
	anyInit := false
	for _, name := range sc.names {
		if mi, e := data.Measurement(dbName, rpName, name); e == nil && mi.InitNumOfShards != 0 {
			anyInit = true
		}
	}
	for j := range rpi.ShardGroups {
		g := &rpi.ShardGroups[j]
		al := make([]int, 0, len(g.Shards))
		for k := range g.Shards {
			al = append(al, k)
		}
		// write-available-first: only some shards alive, differently per group (writer and reader
		// see the same list)
		if !anyInit && !sc.isRange && len(al) > 1 && r.Chance(35) {
			keep := al[:0]
			for _, k := range al {
				if r.Chance(65) {
					keep = append(keep, k)
				}
			}
			if len(keep) == 0 {
				keep = append(keep, r.Intn(len(g.Shards)))
			}
			al = keep
			c.Count("bmeta:partial-alive")
		}
		sc.alive[g.ID] = al
		for _, b := range []int64{ns(g.StartTime), ns(g.EndTime)} {
			sc.times = append(sc.times, b-1, b, b+1)
		}
		sc.times = append(sc.times, ns(g.StartTime)+int64(sc.dur)/2, ns(g.StartTime)+int64(sc.dur)/3)
		if !g.TruncatedAt.IsZero() {
			sc.times = append(sc.times, ns(g.TruncatedAt)-1, ns(g.TruncatedAt))
		}
	}
	if !anyInit && !sc.isRange && r.Chance(30) {
		sc.ptMode(r, c)
	}
	for _, t := range sc.times {
		if rpi.ShardGroupByTimestampAndEngineType(time.Unix(0, t), config.TSSTORE) != nil {
			sc.liveT = append(sc.liveT, t)
		}
	}
	if len(sc.liveT) == 0 {
		return nil, fmt.Errorf("no live group")
	}
	return sc, nil
}

// setBounds gives the first group of a range-sharded policy `nparts` shards with contiguous
// bounds that look like shard keys of the scenario's measurements (later groups copy them).
func (sc *bscenario) setBounds(r *hx.Rng, g *meta.ShardGroupInfo) {
	n := sc.nparts
	var cands []string
	for _, name := range sc.names {
		mi, err := sc.data.Measurement(dbName, rpName, name)
		if err != nil {
			continue
		}
		cands = append(cands, mi.Name, mi.Name+",")
		for _, t := range sc.tags {
			for _, v := range []string{"a", "c", "e", "srv-01"} {
				cands = append(cands, mi.Name+","+t+"="+v)
			}
		}
	}
	cands = append(cands, "d", "m", "n")
	sort.Strings(cands)
	uniq := cands[:0]
	for i, s := range cands {
		if i == 0 || s != cands[i-1] {
			uniq = append(uniq, s)
		}
	}
	if n-1 > len(uniq) {
		n = len(uniq) + 1
	}
	bounds := subset(r, uniq, n-1)
	shards := make([]meta.ShardInfo, n)
	for i := range shards {
		if i < len(g.Shards) {
			shards[i] = g.Shards[i]
		} else {
			sc.data.MaxShardID++
			shards[i] = meta.ShardInfo{ID: sc.data.MaxShardID, Owners: []uint32{uint32(i % sc.nparts)}, Tier: util.Hot}
		}
		if i > 0 {
			shards[i].Min = bounds[i-1]
		}
		if i < n-1 {
			shards[i].Max = bounds[i]
		}
	}
	g.Shards = shards
}

func hexs(xs []string) []string {
	var o []string
	for _, x := range xs {
		o = append(o, hx2(x))
	}
	return o
}

func (sc *bscenario) emitCatalogue(c *hx.Ctx) {
	dbk := "-"
	if len(sc.dbi.ShardKey.ShardKey) > 0 {
		ty := "h"
		if sc.dbi.ShardKey.Type == influxql.RANGE {
			ty = "r"
		}
		dbk = strings.Join(hexs(sc.dbi.ShardKey.ShardKey), ",") + ":" + ty
	}
	c.Emit("cat "+dbk, "ok")
	for _, name := range sc.names {
		mi, err := sc.data.Measurement(dbName, rpName, name)
		if err != nil {
			continue
		}
		var skis []string
		for _, k := range mi.ShardKeys {
			ty := "h"
			if k.Type == influxql.RANGE {
				ty = "r"
			}
			skis = append(skis, fmt.Sprintf("%s/%s/%d", listOr(hexs(k.ShardKey), ","), ty, k.ShardGroup))
		}
		init, idx := "0", "-"
		if mi.InitNumOfShards != 0 {
			init = "1"
			var gids []uint64
			for gid := range mi.ShardIdexes {
				gids = append(gids, gid)
			}
			sort.Slice(gids, func(i, j int) bool { return gids[i] < gids[j] })
			var parts []string
			for _, gid := range gids {
				parts = append(parts, fmt.Sprintf("%d=%s", gid, ints(mi.ShardIdexes[gid])))
			}
			idx = listOr(parts, ";")
		}
		c.Emit(fmt.Sprintf("cmst %s %s %s %s %s %s", hx2(name), hx2(mi.Name), init, listOr(hexs(sc.tags), ","), listOr(skis, ";"), idx), "ok")
	}
	for j := range sc.rpi.ShardGroups {
		g := &sc.rpi.ShardGroups[j]
		del, tr := "0", "-"
		if g.Deleted() {
			del = "1"
		}
		if g.Truncated() {
			tr = strconv.FormatInt(ns(g.TruncatedAt), 10)
		}
		var sh []string
		for _, s := range g.Shards {
			sh = append(sh, fmt.Sprintf("%d:%s:%s", s.ID, hx2(s.Min), hx2(s.Max)))
		}
		c.Emit(fmt.Sprintf("cgroup %d %d %d %s %s %s none %s", g.ID, ns(g.StartTime), ns(g.EndTime), del, tr,
			ints(sc.alive[g.ID]), listOr(sh, ";")), "ok")
	}
}

type brow struct {
	mst  string
	pre  byte // o e b s
	t    int64
	tags influx.PointTags
	row  influx.Row
}

func (sc *bscenario) genRow(r *hx.Rng, mst string, t int64) *brow {
	b := &brow{mst: mst, pre: 'o', t: t}
	for _, tg := range sc.tags {
		if !r.Chance(90) {
			continue
		}
		v := valPool[r.Intn(5)]
		if r.Chance(20) {
			v = valPool[r.Intn(len(valPool))]
		}
		b.tags = append(b.tags, influx.Tag{Key: tg, Value: v})
		if r.Chance(2) { // repeated tag key: dropped by the schema check
			b.tags = append(b.tags, influx.Tag{Key: tg, Value: valPool[r.Intn(5)]})
		}
	}
	if r.Chance(3) { // a tag the schema does not know yet: UpdateSchema, sameSchema = false
		b.tags = append(b.tags, influx.Tag{Key: "zone", Value: "z1"})
	}
	fields := influx.Fields{{Key: "value", NumValue: 1.5, Type: influx.Field_Type_Float}}
	switch k := r.Intn(100); {
	case k < 4: // every field clashes with the schema: dropped by updateSchemaIfNeeded
		b.pre = 's'
		fields = influx.Fields{{Key: "value", NumValue: 1, Type: influx.Field_Type_Int}}
	case k < 6: // the same field twice with different types: dropped by fixFields
		b.pre = 'e'
		fields = influx.Fields{{Key: "value", NumValue: 1.5, Type: influx.Field_Type_Float}, {Key: "value", NumValue: 1, Type: influx.Field_Type_Int}}
	case k < 8: // beyond models.MaxNanoTime / before the retention window (minTime 0)
		b.pre = 'e'
		b.t = []int64{9223372036854775807, -5, -1}[r.Intn(3)]
	case k < 10:
		b.pre = 'b'
		b.mst = []string{"a,b", "x;y", ".."}[r.Intn(3)]
	}
	if b.t < 0 {
		b.pre = 'e'
	}
	tags := make(influx.PointTags, len(b.tags))
	copy(tags, b.tags)
	b.row = influx.Row{Name: b.mst, Tags: tags, Fields: fields, Timestamp: b.t}
	return b
}

func (b *brow) token() string {
	var s []string
	for _, t := range b.tags {
		s = append(s, hx2(t.Key)+"="+hx2(t.Value))
	}
	return fmt.Sprintf("%s:%c:%d:%s", hx2(b.mst), b.pre, b.t, listOr(s, "+"))
}

func dropKind(err error) string {
	switch {
	case err == nil:
		return "-"
	case errno.Equal(err, errno.WritePointOutOfRP), errno.Equal(err, errno.ParseFieldTypeConflict), strings.Contains(err.Error(), "time outside range"):
		return "early"
	case errno.Equal(err, errno.InvalidMeasurement):
		return "bad-measurement"
	case strings.Contains(err.Error(), "duplicate tag"), errno.Equal(err, errno.FieldTypeConflict), strings.Contains(err.Error(), "field type conflict"):
		return "schema"
	case err == influx.ErrPointShouldHaveAllShardKey:
		return "missing-shard-key"
	case errno.Equal(err, errno.WritePointShardKeyTooLarge):
		return "key-too-large"
	}
	return "other:" + err.Error()
}

func abortKind(err error) string {
	switch {
	case err == nil:
		return "-"
	case errno.Equal(err, errno.WriteNoShardGroup):
		return "no-group"
	case errno.Equal(err, errno.WriteNoShardKey):
		return "no-shard-key"
	case errno.Equal(err, errno.WritePointMap2Shard):
		return "map2shard"
	case err.Error() == "measurement lookup failed":
		return "no-measurement"
	case strings.HasPrefix(err.Error(), "duplicate tag"):
		return "duplicate-tag"
	}
	return "other:" + err.Error()
}

// groupOfShard: shard ids are unique over the groups of the policy.
func (sc *bscenario) groupOfShard(id uint64) (*meta.ShardGroupInfo, *meta.ShardInfo) {
	for j := range sc.rpi.ShardGroups {
		g := &sc.rpi.ShardGroups[j]
		for k := range g.Shards {
			if g.Shards[k].ID == id {
				return g, &g.Shards[k]
			}
		}
	}
	return nil, nil
}

func (sc *bscenario) skiFor(mi *meta.MeasurementInfo, g *meta.ShardGroupInfo) *meta.ShardKeyInfo {
	if len(sc.dbi.ShardKey.ShardKey) > 0 {
		return &sc.dbi.ShardKey
	}
	return mi.GetShardKey(g.ID)
}

// single routes one row inside group g by composing the exported functions (the single-point
// mapping): returns the shard id, 0 when the row is not mapped.
func (sc *bscenario) single(mi *meta.MeasurementInfo, g *meta.ShardGroupInfo, b *brow) (sid uint64) {
	hx.Safe(func() {
		ski := sc.skiFor(mi, g)
		if ski == nil {
			return
		}
		tags := make(influx.PointTags, len(b.tags))
		copy(tags, b.tags)
		row := &influx.Row{Name: mi.Name, Tags: tags, Timestamp: b.t}
		if err := row.UnmarshalShardKeyByTag(ski.ShardKey); err != nil {
			return
		}
		var sh *meta.ShardInfo
		if ski.Type == influxql.RANGE {
			sh = g.DestShard(string(row.ShardKey))
		} else {
			if len(ski.ShardKey) > 0 {
				row.ShardKey = row.ShardKey[len(row.Name)+1:]
			}
			idx := sc.alive[g.ID]
			if mi.InitNumOfShards != 0 {
				idx = mi.ShardIdexes[g.ID]
			}
			sh = g.ShardFor(meta.HashID(row.ShardKey), idx)
		}
		if sh != nil {
			sid = sh.ID
		}
	})
	return sid
}

func (sc *bscenario) runBatch(c *hx.Ctx, r *hx.Rng) {
	n := 2 + r.Intn(11)
	// measurement sequence: runs of one measurement, switches in between; timestamps stay in
	// one group for a while, then move (also back)
	names := append([]string{}, sc.names...)
	cur := names[r.Intn(len(names))]
	t := sc.liveT[r.Intn(len(sc.liveT))]
	var rows []*brow
	for i := 0; i < n; i++ {
		if r.Chance(45) {
			cur = names[r.Intn(len(names))]
		}
		switch k := r.Intn(100); {
		case k < 55: // stay near the same timestamp (same group: the cached-group fast path)
			t += int64(r.Intn(1000))
		case k < 95:
			t = sc.liveT[r.Intn(len(sc.liveT))]
		case k < 97:
			t = sc.times[r.Intn(len(sc.times))] // maybe not covered by a live group: the batch aborts
		default:
			t -= int64(r.Intn(1000))
		}
		name := cur
		if r.Intn(300) == 0 {
			name = lookupFailName
		}
		rows = append(rows, sc.genRow(r, name, t))
	}
	var toks []string
	in := make([]influx.Row, len(rows))
	for i, b := range rows {
		toks = append(toks, b.token())
		in[i] = b.row
	}
	op := "batch " + strings.Join(toks, " ")

	pw := coordinator.NewPointsWriter(time.Second)
	pw.MetaClient = &bmeta{sc: sc}
	var ids []uint64
	var partialErr, err, dbErr error
	var dropped int
	perr := hx.Safe(func() {
		ids, partialErr, dropped, err, dbErr = coordinator.VerifRouteBatch(pw, dbName, rpName, in)
	})
	var ans string
	switch {
	case perr != "":
		ans = "batch panic"
	case dbErr != nil:
		ans = "batch dberr " + dbErr.Error()
	default:
		var parts []string
		for i := range rows {
			if ids[i] == 0 {
				parts = append(parts, "-")
				continue
			}
			g, _ := sc.groupOfShard(ids[i])
			gid := uint64(0)
			if g != nil {
				gid = g.ID
			}
			parts = append(parts, fmt.Sprintf("%d/%d/%s", gid, ids[i], hx2(string(in[i].ShardKey))))
		}
		ans = fmt.Sprintf("batch %s | dropped=%d last=%s abort=%s", strings.Join(parts, " "), dropped, dropKind(partialErr), abortKind(err))
	}
	line := c.Emit(op, ans)
	c.Count("op:batch")
	if perr != "" {
		c.Violation(line, "panic", "routeAndMapOriginRows panicked: "+perr)
		return
	}
	if dbErr != nil {
		return
	}
	c.Count("batch:abort=" + strings.SplitN(abortKind(err), ":", 2)[0])
	if partialErr != nil {
		c.Count("batch:last-drop=" + strings.SplitN(dropKind(partialErr), ":", 2)[0])
	}
	// spec diff per routed row
	msts, groups, routed := map[string]bool{}, map[uint64]bool{}, 0
	switches := 0
	for i, b := range rows {
		if i > 0 && rows[i-1].mst != b.mst {
			switches++
		}
		if ids[i] == 0 || err != nil {
			continue // an aborted batch writes nothing
		}
		routed++
		g, _ := sc.groupOfShard(ids[i])
		mi, merr := sc.data.Measurement(dbName, rpName, b.mst)
		if g == nil || merr != nil {
			c.Violation(line, "batch_row_in_unknown_shard", fmt.Sprintf("row %d (%s) mapped to shard %d", i, b.mst, ids[i]))
			continue
		}
		msts[b.mst], groups[g.ID] = true, true
		if len(sc.stored) < 200 {
			sc.stored = append(sc.stored, &storedRow{mst: b.mst, t: b.t, tags: b.tags, gid: g.ID, sid: ids[i]})
		}
		tt := time.Unix(0, b.t)
		if tt.Before(g.StartTime) || !tt.Before(g.EndTime) || g.Deleted() {
			c.Violation(line, "group_does_not_cover", fmt.Sprintf("row %d t=%d in group %d [%d,%d) deleted=%v", i, b.t, g.ID, ns(g.StartTime), ns(g.EndTime), g.Deleted()))
		}
		// (a) the single-point mapping
		pg := sc.rpi.ShardGroupByTimestampAndEngineType(tt, config.TSSTORE)
		if !sc.special && (pg == nil || pg.ID != g.ID) {
			c.Violation(line, "batch_group_differs_from_single_point", fmt.Sprintf("row %d t=%d: batch group %d, single-point group %v", i, b.t, g.ID, pg))
		}
		if want := sc.single(mi, g, b); want != ids[i] {
			c.Violation(line, "batch_route_differs_from_single_point", fmt.Sprintf(
				"row %d of the batch (measurement %s, t=%d, tags=%v) is mapped to shard %d of group %d; written on its own it goes to shard %d (shard key %v, alive %v); batch: %s",
				i, b.mst, b.t, b.tags, ids[i], g.ID, want, sc.skiFor(mi, g).ShardKey, sc.alive[g.ID], op))
		}
		// (b) the reader: equalities on the row's shard-key tags
		ski := sc.skiFor(mi, g)
		var cond influxql.Expr
		for _, k := range ski.ShardKey {
			v := ""
			for _, tg := range b.tags {
				if tg.Key == k {
					v = tg.Value
				}
			}
			var eq influxql.Expr = &influxql.BinaryExpr{Op: influxql.EQ, LHS: &influxql.VarRef{Val: k}, RHS: &influxql.StringLiteral{Val: v}}
			if cond == nil {
				cond = eq
			} else {
				cond = &influxql.BinaryExpr{Op: influxql.AND, LHS: cond, RHS: eq}
			}
		}
		found := false
		var cids []string
		perr := hx.Safe(func() {
			for _, sh := range g.TargetShards(mi, ski, cond, sc.alive[g.ID]) {
				cids = append(cids, strconv.FormatUint(sh.ID, 10))
				if sh.ID == ids[i] {
					found = true
				}
			}
		})
		if perr != "" {
			c.Violation(line, "panic", "TargetShards panicked: "+perr)
		} else if !found {
			c.Violation(line, "batch_row_not_consulted", fmt.Sprintf(
				"row %d of the batch (measurement %s, t=%d, tags=%v) is stored in shard %d of group %d, but a query with [%s] on its shard key %v consults only shards [%s]; batch: %s",
				i, b.mst, b.t, b.tags, ids[i], g.ID, exprString(cond), ski.ShardKey, strings.Join(cids, ","), op))
		}
	}
	c.Case(caseKey(op), len(msts) >= 2 && routed >= 2)
	c.Count(fmt.Sprintf("batch:measurements-routed=%d", len(msts)))
	c.Count(fmt.Sprintf("batch:groups-routed=%d", len(groups)))
	if switches > 0 {
		c.Count("batch:switches-measurement")
	}
	if len(msts) >= 2 && routed >= 2 && dropped > 0 && err == nil {
		c.Count("batch:mixed-with-dropped-rows")
	}
}
