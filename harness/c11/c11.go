// Package c11: correspondence harness for C11 (each point lands in one covering shard;
// queries skip no shard with matches).
//
// A scenario is a catalogue built through the exported meta.Data API (data nodes, database,
// retention policy with a shard-group duration, measurement with a shard key, schema, shard
// groups created for timestamps), then edited in place for what the API does not reach
// directly (range bounds, deleted / truncated groups, alive shard lists). Against it:
//
//   - points are routed by the exported pieces of the write path, composed the way
//     coordinator/points_writer.go:updateShardGroupAndShardKey composes them (the text of
//     that composition is pinned by ogfacts):
//     ShardGroupByTimestampAndEngineType -> Row.UnmarshalShardKeyByTag -> DestShard | ShardFor(HashID)
//   - conditions (parsed by the real influxql parsers) are mapped the way
//     coordinator/shard_mapper.go:mapMstShards does: Data.ShardGroupsByTimeRange -> TargetShards.
//
// impl.out holds the exact answers (group id, shard id, hashed key; ordered shard-id list per
// consulted group), the Lean model answers the same op lines. The spec diff is brute force:
// every generated point that was accepted, lies in the time range and satisfies the condition
// must have its (group, shard) among the consulted ones.
package c11

import (
	"encoding/hex"
	"fmt"
	"regexp"
	"sort"
	"strconv"
	"strings"
	"time"

	"github.com/openGemini/openGemini/lib/config"
	"github.com/openGemini/openGemini/lib/logger"
	"github.com/openGemini/openGemini/lib/util"
	"github.com/openGemini/openGemini/lib/util/lifted/influx/influxql"
	"github.com/openGemini/openGemini/lib/util/lifted/influx/meta"
	proto2 "github.com/openGemini/openGemini/lib/util/lifted/influx/meta/proto"
	"github.com/openGemini/openGemini/lib/util/lifted/protobuf/proto"
	"github.com/openGemini/openGemini/lib/util/lifted/vm/protoparser/influx"
	"go.uber.org/zap"

	"verif/harness/internal/hx"
)

func init() { hx.Register("C11", Run) }

const (
	dbName = "db0"
	rpName = "rp0"
	mstRaw = "cpu"
)

var tagPool = []string{"app", "az", "dc", "host", "region"}
var valPool = []string{"a", "b", "c", "d", "e", "srv-01", "srv-02", "eu west", "k=v", "a,b"}

type point struct {
	t      int64
	tags   influx.PointTags // sorted by key, as the line-protocol parser leaves them
	usage  float64
	hasU   bool
	cnt    int64
	msg    string
	routed bool
	gid    uint64
	sid    uint64
}

type scenario struct {
	data    *meta.Data
	rpi     *meta.RetentionPolicyInfo
	mst     *meta.MeasurementInfo
	ski     *meta.ShardKeyInfo
	isRange bool
	key     []string
	tags    []string // schema tags, sorted
	dur     time.Duration
	nparts  int
	alive   map[uint64][]int
	overlap bool
	points  []*point
	times   []int64 // interesting timestamps (boundaries ±1)
}

// caseKey: 64-bit digest of a case description (keeps the distinctness set small).
func caseKey(s string) string { return strconv.FormatUint(meta.HashID([]byte(s)), 36) }

func hx2(s string) string { return "x" + hex.EncodeToString([]byte(s)) }

func listOr(xs []string, sep string) string {
	if len(xs) == 0 {
		return "-"
	}
	return strings.Join(xs, sep)
}

func ints(xs []int) string {
	if len(xs) == 0 {
		return "-"
	}
	var s []string
	for _, x := range xs {
		s = append(s, strconv.Itoa(x))
	}
	return strings.Join(s, ",")
}

func ns(t time.Time) int64 { return t.UnixNano() }

// ---------------------------------------------------------------------------------------
// scenario

func subset(r *hx.Rng, pool []string, k int) []string {
	idx := make([]int, len(pool))
	for i := range idx {
		idx[i] = i
	}
	for i := range idx { // Fisher-Yates
		j := i + r.Intn(len(idx)-i)
		idx[i], idx[j] = idx[j], idx[i]
	}
	if k > len(pool) {
		k = len(pool)
	}
	out := make([]string, 0, k)
	for _, i := range idx[:k] {
		out = append(out, pool[i])
	}
	sort.Strings(out)
	return out
}

func genScenario(r *hx.Rng, c *hx.Ctx) (*scenario, error) {
	sc := &scenario{alive: map[uint64][]int{}}
	sc.nparts = 1 + r.Intn(8)
	nodes := 1
	for _, d := range []int{4, 3, 2} {
		if sc.nparts%d == 0 && r.Bool() {
			nodes = d
			break
		}
	}
	data := &meta.Data{PtNumPerNode: uint32(sc.nparts / nodes)}
	for i := 0; i < nodes; i++ {
		if _, err := data.CreateDataNode(fmt.Sprintf("127.0.0.%d:8400", i+1), fmt.Sprintf("127.0.0.%d:8401", i+1), "", ""); err != nil {
			return nil, err
		}
	}
	if int(data.GetClusterPtNum()) != sc.nparts {
		return nil, fmt.Errorf("pt num %d, want %d", data.GetClusterPtNum(), sc.nparts)
	}
	if err := data.CreateDatabase(dbName, nil, nil, false, 1, nil); err != nil {
		return nil, err
	}
	rp := meta.NewRetentionPolicyInfo(rpName)
	rp.ShardGroupDuration = []time.Duration{time.Hour, 6 * time.Hour, 24 * time.Hour, 168 * time.Hour, 25 * time.Hour, 90 * time.Minute}[r.Intn(6)]
	if err := data.CreateRetentionPolicy(dbName, rp, true); err != nil {
		return nil, err
	}
	sc.isRange = r.Chance(25)
	sc.tags = subset(r, tagPool, 1+r.Intn(4))
	nkey := r.Intn(4)
	if r.Chance(40) {
		nkey = 1
	}
	sc.key = subset(r, sc.tags, nkey)
	if len(sc.key) == 0 {
		sc.key = nil
	}
	typ := influxql.HASH
	if sc.isRange {
		typ = influxql.RANGE
	}
	numOfShards := int32(0)
	if !sc.isRange && sc.nparts > 1 && r.Chance(25) {
		numOfShards = int32(1 + r.Intn(sc.nparts-1))
	}
	if err := data.CreateMeasurement(dbName, rpName, mstRaw, &proto2.ShardKeyInfo{ShardKey: sc.key, Type: proto.String(typ)},
		numOfShards, nil, config.TSSTORE, nil, nil, nil); err != nil {
		return nil, err
	}
	var fs []*proto2.FieldSchema
	for _, t := range sc.tags {
		fs = append(fs, &proto2.FieldSchema{FieldName: proto.String(t), FieldType: proto.Int32(influx.Field_Type_Tag)})
	}
	fs = append(fs, &proto2.FieldSchema{FieldName: proto.String("usage"), FieldType: proto.Int32(influx.Field_Type_Float)},
		&proto2.FieldSchema{FieldName: proto.String("cnt"), FieldType: proto.Int32(influx.Field_Type_Int)},
		&proto2.FieldSchema{FieldName: proto.String("msg"), FieldType: proto.Int32(influx.Field_Type_String)})
	if err := data.UpdateSchema(dbName, rpName, mstRaw, fs); err != nil {
		return nil, err
	}
	rpi, err := data.RetentionPolicy(dbName, rpName)
	if err != nil {
		return nil, err
	}
	mst, err := data.Measurement(dbName, rpName, mstRaw)
	if err != nil {
		return nil, err
	}
	sc.data, sc.rpi, sc.mst, sc.dur = data, rpi, mst, rpi.ShardGroupDuration

	// shard groups: created for timestamps (model op `span` checks the span arithmetic)
	base := []int64{1600000000000000000, 0, -86400000000000 * 3, 1700000000123456789, 4102444800000000000}[r.Intn(5)]
	if r.Chance(3) {
		base = 9223372036854775806 - int64(r.Intn(1000)) // models.MaxNanoTime: the end is clamped
	}
	ngroups := 1 + r.Intn(4)
	first := true
	for i := 0; i < ngroups; i++ {
		t := base + int64(i)*int64(sc.dur)
		if r.Chance(20) {
			t += int64(sc.dur) // leave a gap
			base += int64(sc.dur)
		}
		if t < base { // overflow near the end of time
			break
		}
		t += int64(r.Intn(int(sc.dur / 2)))
		if t < 0 && base > 0 {
			break
		}
		before := len(rpi.ShardGroups)
		if err := data.CreateShardGroup(dbName, rpName, time.Unix(0, t), util.Hot, config.TSSTORE, 0); err != nil {
			return nil, err
		}
		if len(rpi.ShardGroups) == before+1 {
			var g *meta.ShardGroupInfo
			for j := range rpi.ShardGroups {
				if g == nil || rpi.ShardGroups[j].ID > g.ID {
					g = &rpi.ShardGroups[j]
				}
			}
			c.Emit(fmt.Sprintf("span %d %d", int64(sc.dur), t), fmt.Sprintf("span %d %d", ns(g.StartTime), ns(g.EndTime)))
			c.Count("op:span")
			if sc.isRange && first {
				// the API starts a range-sharded policy with one shard; give it `nparts`
				// shards with contiguous bounds (later groups copy them)
				setRangeBounds(r, sc, g, data)
			}
			first = false
		}
	}
	// edits the API does not reach directly
	for j := range rpi.ShardGroups {
		g := &rpi.ShardGroups[j]
		if r.Chance(8) {
			g.DeletedAt = time.Unix(0, 1)
			c.Count("meta:deleted-group")
		} else if r.Chance(8) {
			g.TruncatedAt = g.StartTime.Add(time.Duration(r.Intn(int(sc.dur))))
			c.Count("meta:truncated-group")
		}
	}
	if r.Chance(6) && len(rpi.ShardGroups) > 0 {
		// an overlapping group, as left behind by a duration change: lookup order matters
		g := rpi.ShardGroups[r.Intn(len(rpi.ShardGroups))]
		data.MaxShardGroupID++
		g.ID = data.MaxShardGroupID
		g.StartTime = g.StartTime.Add(sc.dur / 2)
		g.EndTime = g.EndTime.Add(sc.dur / 2)
		g.DeletedAt, g.TruncatedAt = time.Time{}, time.Time{}
		shards := make([]meta.ShardInfo, len(g.Shards))
		copy(shards, g.Shards)
		for k := range shards {
			data.MaxShardID++
			shards[k].ID = data.MaxShardID
		}
		g.Shards = shards
		if mst.InitNumOfShards != 0 {
			mst.ShardIdexes[g.ID] = mst.ShardIdexes[rpi.ShardGroups[0].ID]
		}
		rpi.ShardGroups = append(rpi.ShardGroups, g)
		sort.Sort(meta.ShardGroupInfos(rpi.ShardGroups))
		sc.overlap = true
		c.Count("meta:overlapping-group")
	}
	for j := range rpi.ShardGroups {
		g := &rpi.ShardGroups[j]
		al := make([]int, 0, len(g.Shards))
		for k := range g.Shards {
			al = append(al, k)
		}
		// write-available-first: only some shards alive (same view for writer and reader)
		if mst.InitNumOfShards == 0 && !sc.isRange && len(al) > 1 && r.Chance(12) {
			keep := al[:0]
			for _, k := range al {
				if r.Chance(70) {
					keep = append(keep, k)
				}
			}
			al = keep
			c.Count("meta:partial-alive")
		}
		sc.alive[g.ID] = al
		for _, b := range []int64{ns(g.StartTime), ns(g.EndTime)} {
			sc.times = append(sc.times, b-1, b, b+1)
		}
		sc.times = append(sc.times, ns(g.StartTime)+int64(sc.dur)/2)
		if !g.TruncatedAt.IsZero() {
			sc.times = append(sc.times, ns(g.TruncatedAt)-1, ns(g.TruncatedAt))
		}
	}
	if len(sc.times) == 0 {
		sc.times = []int64{base}
	}
	sc.ski = mst.GetShardKey(0)
	if len(rpi.ShardGroups) > 0 {
		sc.ski = mst.GetShardKey(rpi.ShardGroups[0].ID)
	}
	if sc.ski == nil {
		return nil, fmt.Errorf("no shard key info")
	}
	return sc, nil
}

func setRangeBounds(r *hx.Rng, sc *scenario, g *meta.ShardGroupInfo, data *meta.Data) {
	n := sc.nparts
	// candidate bounds look like shard keys: name[,k=v[,k=v]]
	var cands []string
	for _, v := range []string{"a", "b", "c", "d", "e", "k", "srv-01", "srv-02"} {
		k := "host"
		if len(sc.key) > 0 {
			k = sc.key[0]
		}
		cands = append(cands, sc.mst.Name+","+k+"="+v)
		if len(sc.key) > 1 {
			cands = append(cands, sc.mst.Name+","+k+"="+v+","+sc.key[1]+"=c")
		}
	}
	cands = append(cands, sc.mst.Name, sc.mst.Name+",", "cpu", "d", sc.mst.Name+",host=srv", sc.mst.Name+",a")
	sort.Strings(cands)
	uniq := cands[:0]
	for i, s := range cands {
		if i == 0 || s != cands[i-1] {
			uniq = append(uniq, s)
		}
	}
	if n-1 > len(uniq) {
		n = len(uniq) + 1
	}
	bounds := subset(r, uniq, n-1)
	shards := make([]meta.ShardInfo, n)
	for i := range shards {
		if i < len(g.Shards) {
			shards[i] = g.Shards[i]
		} else {
			data.MaxShardID++
			shards[i] = meta.ShardInfo{ID: data.MaxShardID, Owners: []uint32{uint32(i % sc.nparts)}, Tier: util.Hot}
		}
		if i > 0 {
			shards[i].Min = bounds[i-1]
		}
		if i < n-1 {
			shards[i].Max = bounds[i]
		}
	}
	g.Shards = shards
}

func (sc *scenario) emitMeta(c *hx.Ctx) {
	ty := "h"
	if sc.isRange {
		ty = "r"
	}
	hexs := func(xs []string) []string {
		var o []string
		for _, x := range xs {
			o = append(o, hx2(x))
		}
		return o
	}
	c.Emit(fmt.Sprintf("meta %s %s %s %s", hx2(sc.mst.Name), ty, listOr(hexs(sc.key), ","), listOr(hexs(sc.tags), ",")), "ok")
	for j := range sc.rpi.ShardGroups {
		g := &sc.rpi.ShardGroups[j]
		del, tr := "0", "-"
		if g.Deleted() {
			del = "1"
		}
		if g.Truncated() {
			tr = strconv.FormatInt(ns(g.TruncatedAt), 10)
		}
		mi := "none"
		if sc.mst.InitNumOfShards != 0 {
			mi = ints(sc.mst.ShardIdexes[g.ID])
		}
		var sh []string
		for _, s := range g.Shards {
			sh = append(sh, fmt.Sprintf("%d:%s:%s", s.ID, hx2(s.Min), hx2(s.Max)))
		}
		c.Emit(fmt.Sprintf("group %d %d %d %s %s %s %s %s", g.ID, ns(g.StartTime), ns(g.EndTime), del, tr,
			ints(sc.alive[g.ID]), mi, listOr(sh, ";")), "ok")
	}
}

// ---------------------------------------------------------------------------------------
// write side

func genPoint(r *hx.Rng, sc *scenario) *point {
	p := &point{}
	p.t = sc.times[r.Intn(len(sc.times))]
	if r.Chance(15) {
		p.t += int64(r.Intn(2000)) - 1000
	}
	for _, t := range sc.tags {
		present := r.Chance(88)
		for _, k := range sc.key {
			if k == t {
				present = r.Chance(96)
			}
		}
		if !present {
			continue
		}
		v := valPool[r.Intn(5)]
		if r.Chance(25) {
			v = valPool[r.Intn(len(valPool))]
		}
		if r.Chance(4) {
			v = oddVals[r.Intn(len(oddVals))]
		}
		p.tags = append(p.tags, influx.Tag{Key: t, Value: v})
		if r.Chance(2) { // duplicate tag key: rejected by CheckDuplicateTag
			p.tags = append(p.tags, influx.Tag{Key: t, Value: valPool[r.Intn(5)]})
		}
	}
	p.hasU = r.Chance(85)
	p.usage = []float64{0, 1, 2.5, 7}[r.Intn(4)]
	p.cnt = int64(r.Intn(6))
	p.msg = []string{"hi", "lo", "a"}[r.Intn(3)]
	return p
}

func (p *point) tagText() string {
	var s []string
	for _, t := range p.tags {
		s = append(s, hx2(t.Key)+"="+hx2(t.Value))
	}
	return listOr(s, ";")
}

// route composes the exported pieces exactly as updateShardGroupAndShardKey does.
func (sc *scenario) route(p *point) (ans string, g *meta.ShardGroupInfo, sh *meta.ShardInfo, key string) {
	perr := hx.Safe(func() {
		g = sc.rpi.ShardGroupByTimestampAndEngineType(time.Unix(0, p.t), config.TSSTORE)
		if g == nil {
			ans = "err no-group"
			return
		}
		ski := sc.mst.GetShardKey(g.ID)
		if ski == nil {
			ans = "err no-shard-key"
			return
		}
		tags := make(influx.PointTags, len(p.tags))
		copy(tags, p.tags)
		row := &influx.Row{Name: sc.mst.Name, Tags: tags, Timestamp: p.t}
		if err := row.UnmarshalShardKeyByTag(ski.ShardKey); err != nil {
			if err == influx.ErrPointShouldHaveAllShardKey {
				ans = "err missing-shard-key"
			} else if strings.HasPrefix(err.Error(), "duplicate tag") {
				ans = "err duplicate-tag"
			} else {
				ans = "err other:" + err.Error()
			}
			return
		}
		asis := sc.alive[g.ID]
		if ski.Type == influxql.RANGE {
			key = string(row.ShardKey)
			sh = g.DestShard(key)
		} else {
			if len(ski.ShardKey) > 0 {
				row.ShardKey = row.ShardKey[len(row.Name)+1:]
			}
			var shardIdxes []int
			if sc.mst.InitNumOfShards == 0 {
				shardIdxes = asis
			} else {
				shardIdxes = sc.mst.ShardIdexes[g.ID]
			}
			key = string(row.ShardKey)
			sh = g.ShardFor(meta.HashID(row.ShardKey), shardIdxes)
		}
		if sh == nil {
			ans = "err map2shard"
			return
		}
		ans = fmt.Sprintf("shard %d %d %s", g.ID, sh.ID, hx2(key))
	})
	if perr != "" {
		return "err panic", nil, nil, ""
	}
	return ans, g, sh, key
}

func (sc *scenario) runPoint(c *hx.Ctx, p *point) {
	ans, g, sh, key := sc.route(p)
	line := c.Emit(fmt.Sprintf("point %d %s", p.t, p.tagText()), ans)
	c.Count("op:point")
	boundary := false
	for j := range sc.rpi.ShardGroups {
		gg := &sc.rpi.ShardGroups[j]
		for _, b := range []int64{ns(gg.StartTime), ns(gg.EndTime)} {
			if p.t >= b-1 && p.t <= b+1 {
				boundary = true
			}
		}
	}
	c.Case(caseKey(fmt.Sprintf("point %d %s %d %v", p.t, p.tagText(), sc.nparts, sc.key)), boundary)
	if boundary {
		c.Count("point:on-or-next-to-boundary")
	}
	if strings.HasPrefix(ans, "err") {
		c.Count("point:" + strings.SplitN(ans, ":", 2)[0])
		if ans == "err panic" {
			c.Violation(line, "panic", "routing a point panicked")
		}
		// accepted is what the property speaks about; but a point that carries every
		// shard-key tag once, inside a live group, must not be rejected
		if (ans == "err map2shard" || ans == "err missing-shard-key") && sc.wellFormedPoint(p) && len(sc.idxesFor(g)) > 0 {
			c.Violation(line, "accepted_point_not_routed", ans)
		}
		return
	}
	c.Count("point:routed")
	p.routed, p.gid, p.sid = true, g.ID, sh.ID
	// spec, write side: the group contains the timestamp and is live, it is the only such
	// group (unless the scenario made overlapping groups on purpose), the shard is one of the
	// group's, the decision is a function of the point
	t := time.Unix(0, p.t)
	if t.Before(g.StartTime) || !t.Before(g.EndTime) || g.Deleted() || (g.Truncated() && !t.Before(g.TruncatedAt)) {
		c.Violation(line, "group_does_not_cover", fmt.Sprintf("t=%d group [%d,%d)", p.t, ns(g.StartTime), ns(g.EndTime)))
	}
	cover := 0
	for j := range sc.rpi.ShardGroups {
		gg := &sc.rpi.ShardGroups[j]
		if !t.Before(gg.StartTime) && t.Before(gg.EndTime) && !gg.Deleted() && (!gg.Truncated() || t.Before(gg.TruncatedAt)) {
			cover++
		}
	}
	if cover != 1 && !sc.overlap {
		c.Violation(line, "covering_group_not_unique", fmt.Sprintf("t=%d covered by %d live groups", p.t, cover))
	}
	found := 0
	for k := range g.Shards {
		if g.Shards[k].ID == sh.ID {
			found++
		}
	}
	if found != 1 {
		c.Violation(line, "shard_not_in_group", fmt.Sprintf("shard %d occurs %d times in group %d", sh.ID, found, g.ID))
	}
	if sc.isRange && !(sh.Min <= key && (sh.Max == "" || key < sh.Max)) {
		c.Violation(line, "range_shard_does_not_contain_key", fmt.Sprintf("key %q shard [%q,%q)", key, sh.Min, sh.Max))
	}
	if ans2, _, _, _ := sc.route(p); ans2 != ans {
		c.Violation(line, "routing_not_deterministic", ans+" vs "+ans2)
	}
}

func (sc *scenario) idxesFor(g *meta.ShardGroupInfo) []int {
	if g == nil {
		return nil
	}
	if sc.isRange {
		return []int{0}
	}
	if sc.mst.InitNumOfShards == 0 {
		return sc.alive[g.ID]
	}
	return sc.mst.ShardIdexes[g.ID]
}

func (sc *scenario) wellFormedPoint(p *point) bool {
	for i := 1; i < len(p.tags); i++ {
		if p.tags[i-1].Key >= p.tags[i].Key {
			return false
		}
	}
	for _, k := range sc.key {
		ok := false
		for _, t := range p.tags {
			if t.Key == k {
				ok = true
			}
		}
		if !ok {
			return false
		}
	}
	return true
}

// ---------------------------------------------------------------------------------------
// conditions

type gcond struct {
	kind byte // 'a' atom text, '&', '|'
	text string
	l, r *gcond
	par  bool
}

func (g *gcond) String() string {
	var s string
	switch g.kind {
	case 'a':
		s = g.text
	case '&':
		s = g.l.String() + " AND " + g.r.String()
	default:
		s = g.l.String() + " OR " + g.r.String()
	}
	if g.par {
		return "(" + s + ")"
	}
	return s
}

// quote renders an InfluxQL string literal (single quote and backslash are escaped).
func quote(s string) string {
	return "'" + strings.NewReplacer(`\`, `\\`, `'`, `\'`).Replace(s) + "'"
}

// values that need escaping in a literal, or that look like key syntax in the hashed key
var oddVals = []string{"it's", `back\slash`, "a=b,c=d", " lead", "x,host=a"}

func genAtom(r *hx.Rng, sc *scenario) string {
	tag := func() string {
		if len(sc.key) > 0 && r.Chance(65) {
			return sc.key[r.Intn(len(sc.key))]
		}
		return sc.tags[r.Intn(len(sc.tags))]
	}
	val := func() string {
		if r.Chance(80) {
			return valPool[r.Intn(5)]
		}
		if r.Chance(25) {
			return oddVals[r.Intn(len(oddVals))]
		}
		return valPool[r.Intn(len(valPool))]
	}
	switch k := r.Intn(100); {
	case k < 48:
		return tag() + " = " + quote(val())
	case k < 50: // IN / NOT IN over a tag: must not prune
		return tag() + " IN (" + quote(val()) + ", " + quote(val()) + ")"
	case k < 52:
		return tag() + " NOT IN (" + quote(val()) + ")"
	case k < 58:
		return tag() + " != " + quote(val())
	case k < 62:
		return tag() + " =~ /" + []string{"a|b", "^srv", "c", "^$"}[r.Intn(4)] + "/"
	case k < 64:
		return tag() + " !~ /" + []string{"a|b", "d"}[r.Intn(2)] + "/"
	case k < 66:
		return tag() + " > " + quote(val())
	case k < 68:
		return quote(val()) + " = " + tag() // literal on the left: not a tag constraint for the pruner
	case k < 70:
		return tag() + " = " + tag()
	case k < 78:
		return "usage " + []string{">", ">=", "<", "=", "!="}[r.Intn(5)] + " " + []string{"1", "2.5", "0", "7"}[r.Intn(4)]
	case k < 82:
		return "cnt " + []string{">", "<=", "="}[r.Intn(3)] + " " + strconv.Itoa(r.Intn(6))
	case k < 85:
		return "msg = " + quote([]string{"hi", "lo", "a"}[r.Intn(3)]) // string *field*: the schema decides
	case k < 87:
		return []string{"nosuch", "Host", "TIME"}[r.Intn(3)] + " = " + quote(val())
	case k < 89:
		return []string{"time", "Time"}[r.Intn(2)] + " = " + quote(val()) // time with a string: isTimeCondition
	default:
		t := sc.times[r.Intn(len(sc.times))]
		return "time " + []string{">=", ">", "<", "<=", "="}[r.Intn(5)] + " " + strconv.FormatInt(t, 10)
	}
}

func genCond(r *hx.Rng, sc *scenario, depth int) *gcond {
	if depth == 0 || r.Chance(22) {
		return &gcond{kind: 'a', text: genAtom(r, sc), par: r.Chance(12)}
	}
	k := byte('&')
	if r.Chance(50) {
		k = '|'
	}
	return &gcond{kind: k, l: genCond(r, sc, depth-1), r: genCond(r, sc, depth-1), par: r.Chance(40)}
}

// wide conjunction of parenthesised disjunctions: exercises the cross product and its bound
func genWide(r *hx.Rng, sc *scenario) *gcond {
	n := 2 + r.Intn(4)
	if r.Chance(30) {
		n = 10 + r.Intn(3) // 2^11 > maxConditionTagGroups
	}
	var c *gcond
	for i := 0; i < n; i++ {
		t := sc.tags[r.Intn(len(sc.tags))]
		if len(sc.key) > 0 && r.Chance(70) {
			t = sc.key[r.Intn(len(sc.key))]
		}
		or := &gcond{kind: '|', par: true,
			l: &gcond{kind: 'a', text: t + " = " + quote(valPool[r.Intn(5)])},
			r: &gcond{kind: 'a', text: t + " = " + quote(valPool[r.Intn(5)])}}
		if c == nil {
			c = or
		} else {
			c = &gcond{kind: '&', l: c, r: or}
		}
	}
	return c
}

// chain: a conjunction of 1..7 atoms (mostly tag equalities, consistent with each other, other
// atoms in between) ANDed with a disjunction of 2..3 alternatives on a shard-key tag, the
// disjunction on either side and anywhere in the chain. The tag groups of such a condition are
// built by repeated appends onto the same left-hand group, which is where slice aliasing shows.
func genChain(r *hx.Rng, sc *scenario) *gcond {
	fixed := map[string]string{}
	eq := func(t string) *gcond {
		v, ok := fixed[t]
		if !ok {
			v = valPool[r.Intn(5)]
			fixed[t] = v
		}
		return &gcond{kind: 'a', text: t + " = " + quote(v)}
	}
	alt := sc.tags[r.Intn(len(sc.tags))]
	if len(sc.key) > 0 && r.Chance(85) {
		alt = sc.key[r.Intn(len(sc.key))]
	}
	var others []string
	for _, t := range sc.tags {
		if t != alt {
			others = append(others, t)
		}
	}
	n := 1 + r.Intn(7)
	var atoms []*gcond
	for i := 0; i < n; i++ {
		switch {
		case len(others) == 0 || r.Chance(12):
			atoms = append(atoms, &gcond{kind: 'a', text: []string{"usage >= 0", "cnt >= 0", "usage < 100"}[r.Intn(3)]})
		default:
			atoms = append(atoms, eq(others[r.Intn(len(others))]))
		}
	}
	nalt := 2 + r.Intn(2)
	vals := subset(r, valPool[:5], nalt)
	var or *gcond
	for _, v := range vals {
		a := &gcond{kind: 'a', text: alt + " = " + quote(v)}
		if or == nil {
			or = a
		} else {
			or = &gcond{kind: '|', l: or, r: a}
		}
	}
	or.par = true
	pos := n // where the disjunction goes: mostly last
	if r.Chance(30) {
		pos = r.Intn(n + 1)
	}
	var c *gcond
	add := func(x *gcond) {
		if c == nil {
			c = x
		} else {
			c = &gcond{kind: '&', l: c, r: x}
		}
	}
	for i := 0; i <= n; i++ {
		if i == pos {
			add(or)
		}
		if i < n {
			add(atoms[i])
		}
	}
	return c
}

// ---------------------------------------------------------------------------------------
// witness points: one satisfying tag assignment per disjunct of the condition's DNF

type datom struct {
	tagEq    bool
	key, val string
}

const maxDNF = 64

// dnf of the parsed condition; nil means "too large" (no witnesses are derived).
func (sc *scenario) dnf(e influxql.Expr) [][]datom {
	switch x := e.(type) {
	case *influxql.ParenExpr:
		return sc.dnf(x.Expr)
	case *influxql.BinaryExpr:
		switch x.Op {
		case influxql.AND, influxql.OR:
			l, r := sc.dnf(x.LHS), sc.dnf(x.RHS)
			if l == nil || r == nil {
				return nil
			}
			if x.Op == influxql.OR {
				if len(l)+len(r) > maxDNF {
					return nil
				}
				return append(append([][]datom{}, l...), r...)
			}
			if len(l)*len(r) > maxDNF {
				return nil
			}
			var out [][]datom
			for _, a := range l {
				for _, b := range r {
					out = append(out, append(append([]datom{}, a...), b...))
				}
			}
			return out
		case influxql.EQ:
			if k, ok := x.LHS.(*influxql.VarRef); ok {
				if v, ok := x.RHS.(*influxql.StringLiteral); ok && strings.ToLower(k.Val) != "time" {
					for _, t := range sc.tags {
						if t == k.Val {
							return [][]datom{{{tagEq: true, key: k.Val, val: v.Val}}}
						}
					}
				}
			}
		}
	}
	return [][]datom{{{}}}
}

// witnesses builds, for every disjunct, a point that carries the disjunct's tag equalities and
// every other schema tag (so all shard-key tags are present), at a timestamp of the range that
// a live group covers; field values and free tags are retried a few times until the real
// condition evaluates to true on the point.
func (sc *scenario) witnesses(r *hx.Rng, expr influxql.Expr, tmin, tmax int64) []*point {
	if expr == nil {
		return nil
	}
	ds := sc.dnf(expr)
	var ts []int64
	for _, t := range sc.times {
		if t >= tmin && t <= tmax && sc.rpi.ShardGroupByTimestampAndEngineType(time.Unix(0, t), config.TSSTORE) != nil {
			ts = append(ts, t)
		}
	}
	if len(ts) == 0 {
		return nil
	}
	var out []*point
	for _, d := range ds {
		want := map[string]string{}
		ok := true
		for _, a := range d {
			if a.tagEq {
				if v, dup := want[a.key]; dup && v != a.val {
					ok = false
				}
				want[a.key] = a.val
			}
		}
		if !ok || len(want) == 0 {
			continue
		}
		var first *point
		for try := 0; try < 6; try++ {
			p := &point{t: ts[r.Intn(len(ts))], hasU: true}
			for _, t := range sc.tags {
				v, fix := want[t]
				if !fix {
					v = valPool[r.Intn(5)]
				}
				p.tags = append(p.tags, influx.Tag{Key: t, Value: v})
			}
			p.usage = []float64{0, 1, 2.5, 7}[r.Intn(4)]
			p.cnt = int64(r.Intn(6))
			p.msg = []string{"hi", "lo", "a"}[r.Intn(3)]
			if first == nil {
				first = p
			}
			if sat, evok := sc.eval(expr, p); evok && sat {
				first = p
				break
			}
		}
		out = append(out, first)
	}
	return out
}

func parseCond(text string, yacc bool) (influxql.Expr, error) {
	if !yacc {
		p := influxql.NewParser(strings.NewReader(text))
		defer p.Release()
		return p.ParseExpr()
	}
	p := influxql.NewParser(strings.NewReader("SELECT usage FROM " + mstRaw + " WHERE " + text))
	defer p.Release()
	yy := influxql.NewYyParser(p.GetScanner(), p.GetPara())
	yy.ParseTokens()
	q, err := yy.GetQuery()
	if err != nil {
		return nil, err
	}
	if len(q.Statements) != 1 {
		return nil, fmt.Errorf("%d statements", len(q.Statements))
	}
	st, ok := q.Statements[0].(*influxql.SelectStatement)
	if !ok {
		return nil, fmt.Errorf("not a select")
	}
	return st.Condition, nil
}

// features of the tree as getConditionTags sees it
type feat struct {
	or, and, paren, eq, other bool
	eqAtoms                   int
}

// modelCond renders the parsed tree in the model's prefix language.
func modelCond(e influxql.Expr, f *feat) string {
	switch x := e.(type) {
	case nil:
		return "N"
	case *influxql.ParenExpr:
		f.paren = true
		return "P " + modelCond(x.Expr, f)
	case *influxql.BinaryExpr:
		switch x.Op {
		case influxql.AND:
			f.and = true
			return "& " + modelCond(x.LHS, f) + " " + modelCond(x.RHS, f)
		case influxql.OR:
			f.or = true
			return "| " + modelCond(x.LHS, f) + " " + modelCond(x.RHS, f)
		case influxql.EQ:
			if k, ok := x.LHS.(*influxql.VarRef); ok {
				if v, ok := x.RHS.(*influxql.StringLiteral); ok {
					f.eq = true
					f.eqAtoms++
					return "E " + hx2(k.Val) + " " + hx2(v.Val)
				}
			}
		}
	}
	f.other = true
	return "O"
}

type value struct {
	kind byte // 's' string, 'n' number, 'r' regex, 0 = null / unknown
	s    string
	n    float64
	re   *regexp.Regexp
}

func (sc *scenario) operand(e influxql.Expr, p *point) (value, bool) {
	switch x := e.(type) {
	case *influxql.ParenExpr:
		return sc.operand(x.Expr, p)
	case *influxql.VarRef:
		if strings.ToLower(x.Val) == "time" {
			return value{kind: 'n', n: float64(p.t)}, true // compared as int64 below
		}
		switch x.Val {
		case "usage":
			if !p.hasU {
				return value{}, true
			}
			return value{kind: 'n', n: p.usage}, true
		case "cnt":
			return value{kind: 'n', n: float64(p.cnt)}, true
		case "msg":
			return value{kind: 's', s: p.msg}, true
		}
		for _, t := range p.tags { // a missing tag compares as the empty string
			if t.Key == x.Val {
				return value{kind: 's', s: t.Value}, true
			}
		}
		return value{kind: 's', s: ""}, true
	case *influxql.StringLiteral:
		return value{kind: 's', s: x.Val}, true
	case *influxql.NumberLiteral:
		return value{kind: 'n', n: x.Val}, true
	case *influxql.IntegerLiteral:
		return value{kind: 'n', n: float64(x.Val)}, true
	case *influxql.RegexLiteral:
		return value{kind: 'r', re: x.Val}, true
	}
	return value{}, false
}

func isTimeRef(e influxql.Expr) bool {
	v, ok := e.(*influxql.VarRef)
	return ok && strings.ToLower(v.Val) == "time"
}

// eval: the meaning the spec diff gives a condition. Only `tag = 'v'` has to mean equality
// (that is what the pruner relies on); the other atoms get a fixed, self-consistent meaning.
// ok=false: an atom this evaluator does not interpret (the spec diff skips the condition).
func (sc *scenario) eval(e influxql.Expr, p *point) (bool, bool) {
	switch x := e.(type) {
	case nil:
		return true, true
	case *influxql.ParenExpr:
		return sc.eval(x.Expr, p)
	case *influxql.BooleanLiteral:
		return x.Val, true
	case *influxql.BinaryExpr:
		switch x.Op {
		case influxql.AND, influxql.OR:
			a, ok1 := sc.eval(x.LHS, p)
			b, ok2 := sc.eval(x.RHS, p)
			if !ok1 || !ok2 {
				return false, false
			}
			if x.Op == influxql.AND {
				return a && b, true
			}
			return a || b, true
		}
		if x.Op == influxql.IN || x.Op == influxql.NOTIN {
			set, ok := x.RHS.(*influxql.SetLiteral)
			if !ok {
				return false, false
			}
			a, ok1 := sc.operand(x.LHS, p)
			if !ok1 || a.kind != 's' {
				return false, false
			}
			in := set.Vals[a.s]
			return in == (x.Op == influxql.IN), true
		}
		// exact integer comparison for time
		if isTimeRef(x.LHS) {
			if lit, ok := x.RHS.(*influxql.IntegerLiteral); ok {
				return cmpInt(x.Op, p.t, lit.Val)
			}
			return false, false
		}
		a, ok1 := sc.operand(x.LHS, p)
		b, ok2 := sc.operand(x.RHS, p)
		if !ok1 || !ok2 {
			return false, false
		}
		switch {
		case a.kind == 's' && b.kind == 's':
			return cmpOrd(x.Op, strings.Compare(a.s, b.s))
		case a.kind == 'n' && b.kind == 'n':
			c := 0
			if a.n < b.n {
				c = -1
			} else if a.n > b.n {
				c = 1
			}
			return cmpOrd(x.Op, c)
		case a.kind == 's' && b.kind == 'r':
			switch x.Op {
			case influxql.EQREGEX:
				return b.re.MatchString(a.s), true
			case influxql.NEQREGEX:
				return !b.re.MatchString(a.s), true
			}
			return false, false
		}
		return false, true // null or mismatched types: no match
	}
	return false, false
}

func cmpInt(op influxql.Token, a, b int64) (bool, bool) {
	c := 0
	if a < b {
		c = -1
	} else if a > b {
		c = 1
	}
	return cmpOrd(op, c)
}

func cmpOrd(op influxql.Token, c int) (bool, bool) {
	switch op {
	case influxql.EQ:
		return c == 0, true
	case influxql.NEQ:
		return c != 0, true
	case influxql.LT:
		return c < 0, true
	case influxql.LTE:
		return c <= 0, true
	case influxql.GT:
		return c > 0, true
	case influxql.GTE:
		return c >= 0, true
	}
	return false, false
}

type gs struct {
	gid uint64
	sid uint64
}

func (sc *scenario) runCond(c *hx.Ctx, r *hx.Rng) {
	var gc *gcond
	if k := r.Intn(100); k < 6 {
		gc = genWide(r, sc)
	} else if k < 16 {
		gc = genChain(r, sc)
		c.Count("cond:shape-chain")
	} else {
		gc = genCond(r, sc, 1+r.Intn(4))
	}
	text := gc.String()
	yacc := r.Bool()
	expr, err := parseCond(text, yacc)
	if err != nil {
		c.Count("skipped:parse")
		return
	}
	if r.Chance(3) {
		expr = nil
	}
	// time range: from the boundaries, or everything
	tmin, tmax := int64(influxql.MinTime), int64(influxql.MaxTime)
	mode := "raw"
	if r.Chance(35) && expr != nil {
		// the real pipeline: ConditionExpr splits off the time bounds
		e2, tr, cerr := influxql.ConditionExpr(influxql.CloneExpr(expr), nil)
		if cerr == nil {
			expr, tmin, tmax, mode = e2, tr.MinTimeNano(), tr.MaxTimeNano(), "split"
		}
	} else if r.Chance(70) {
		a, b := sc.times[r.Intn(len(sc.times))], sc.times[r.Intn(len(sc.times))]
		if a > b {
			a, b = b, a
		}
		tmin, tmax = a, b
	}
	var f feat
	mc := modelCond(expr, &f)
	if f.eqAtoms > 12 {
		// sort.Sort switches from insertion sort (stable, modelled) to pdqsort above 12 elements
		c.Count("skipped:more-than-12-equalities")
		return
	}
	// witness points derived from the condition itself (one per DNF disjunct), routed by the
	// real write path like every other point
	wit := sc.witnesses(r, expr, tmin, tmax)
	for _, p := range wit {
		sc.runPoint(c, p)
		c.Count("point:witness")
	}
	sc.points = append(sc.points, wit...) // later conditions of the scenario see them too
	// implementation: mapMstShards
	var parts []string
	consulted := map[gs]bool{}
	allShards := true
	perr := hx.Safe(func() {
		groups, gerr := sc.data.ShardGroupsByTimeRange(dbName, rpName, time.Unix(0, tmin), time.Unix(0, tmax))
		if gerr != nil {
			parts = append(parts, "err:"+gerr.Error())
			return
		}
		for i := range groups {
			ski := sc.mst.GetShardKey(groups[i].ID)
			alive := sc.alive[groups[i].ID]
			shs := groups[i].TargetShards(sc.mst, ski, expr, alive)
			var ids []string
			for _, s := range shs {
				ids = append(ids, strconv.FormatUint(s.ID, 10))
				consulted[gs{groups[i].ID, s.ID}] = true
			}
			for _, k := range alive {
				if !consulted[gs{groups[i].ID, groups[i].Shards[k].ID}] {
					allShards = false
				}
			}
			parts = append(parts, fmt.Sprintf("%d=%s", groups[i].ID, strings.Join(ids, ",")))
		}
	})
	ans := "groups"
	if len(parts) > 0 {
		ans += " " + strings.Join(parts, " ")
	}
	if perr != "" {
		ans = "err panic"
	}
	op := fmt.Sprintf("cond %d %d %s", tmin, tmax, mc)
	line := c.Emit(op, ans)
	c.Count("op:cond")
	c.Count("cond:mode-" + mode)
	if yacc {
		c.Count("cond:parser-yacc")
	} else {
		c.Count("cond:parser-ParseExpr")
	}
	for k, v := range map[string]bool{"cond:has-or": f.or, "cond:has-and": f.and, "cond:has-paren": f.paren, "cond:has-tag-eq": f.eq, "cond:has-other-atom": f.other, "cond:nil": expr == nil} {
		if v {
			c.Count(k)
		}
	}
	if ans == "err panic" {
		c.Count("answer:panic")
		c.Violation(line, "panic", "TargetShards panicked: "+text)
		return
	}
	if allShards {
		c.Count("answer:all-alive-shards")
	} else {
		c.Count("answer:pruned")
	}
	c.Case(caseKey(fmt.Sprintf("%s|%v|%d|%v", op, sc.key, sc.nparts, sc.isRange)), !allShards && (f.or || f.other))
	if !allShards && (f.or || f.other) {
		c.Sample(fmt.Sprintf("key=%v parts=%d range=%v  %s  [%s] => %s", sc.key, sc.nparts, sc.isRange, text, mc, ans))
	}
	// spec diff: brute force over the scenario's points
	evaluable, matched := true, 0
	for i := len(sc.points) - 1; i >= 0; i-- { // the condition's own witnesses first
		p := sc.points[i]
		if !p.routed || p.t < tmin || p.t > tmax {
			continue
		}
		sat, ok := sc.eval(expr, p)
		if !ok {
			evaluable = false
			break
		}
		if !sat {
			continue
		}
		matched++
		if !consulted[gs{p.gid, p.sid}] {
			class := ""
			switch {
			case f.paren:
				class = "paren_operand"
			case f.or && f.other:
				class = "or_with_unconstrained_operand"
			case f.or:
				class = "or_of_tag_groups"
			}
			c.Violation(line, class, fmt.Sprintf("point t=%d tags=%v in group %d shard %d satisfies [%s] (as given to TargetShards: %s) within [%d,%d] but that shard is not consulted: %s; key=%v range=%v parts=%d",
				p.t, p.tags, p.gid, p.sid, text, exprString(expr), tmin, tmax, ans, sc.key, sc.isRange, sc.nparts))
			break
		}
	}
	if !evaluable {
		c.Count("spec:condition-not-evaluable")
	} else if matched > 0 {
		c.Count("spec:checked-with-matching-points")
	} else {
		c.Count("spec:no-point-matched")
	}
}

func exprString(e influxql.Expr) string {
	if e == nil {
		return "<nil>"
	}
	return e.String()
}

// ---------------------------------------------------------------------------------------

func Run(c *hx.Ctx) error {
	logger.SetLogger(zap.NewNop())
	if err := config.SetHaPolicy(config.WAFPolicy); err != nil {
		return err
	}
	meta.DataLogger = zap.NewNop()
	c.Stats.Rule = "catalogues built through meta.Data (1-8 partitions, hash and range sharding, shard keys of 0-3 tags, " +
		"1-5 shard groups of 1h..7d with gaps, deleted / truncated / overlapping groups, per-measurement shard lists) x points " +
		"(timestamps on and next to every group boundary, missing / duplicate tags) x condition trees to depth 4 parsed by both " +
		"influxql parsers (tag =, !=, regex, ordering, reversed and tag=tag equalities, float/int/string field comparisons, time " +
		"bounds, AND/OR/parentheses, wide AND-of-OR, chains of 1-7 conjuncts ANDed with a disjunction of shard-key alternatives), " +
		"raw or split by ConditionExpr. n counts conditions; each is checked against every point of its scenario plus witness " +
		"points derived from the condition itself: one per disjunct of its DNF, carrying that disjunct's tag equalities and every " +
		"other schema tag, routed by the real write path. A condition is non-trivial when it pruned at least one alive shard and has an OR or a " +
		"non-tag operand; a point when its timestamp is within 1ns of a group boundary."
	n := c.Budget(40000, 2000000)
	r := hx.NewRng(c.Seed)
	done := 0
	batches, maxBatches := 0, n
	if maxBatches > 300000 {
		maxBatches = 300000
	}
	for done < n {
		sc, err := genScenario(r, c)
		if err != nil {
			c.Count("skipped:scenario:" + strings.SplitN(err.Error(), ":", 2)[0])
			if c.Stats.Hist["skipped:scenario:"+strings.SplitN(err.Error(), ":", 2)[0]] > 50+n {
				return fmt.Errorf("scenario generation keeps failing: %w", err)
			}
			continue
		}
		sc.emitMeta(c)
		c.Count(fmt.Sprintf("meta:parts=%d", sc.nparts))
		c.Count(fmt.Sprintf("meta:keylen=%d", len(sc.key)))
		if sc.isRange {
			c.Count("meta:range")
		} else {
			c.Count("meta:hash")
		}
		if sc.mst.InitNumOfShards != 0 {
			c.Count("meta:per-measurement-shard-list")
		}
		np := 6 + r.Intn(14)
		for i := 0; i < np; i++ {
			p := genPoint(r, sc)
			sc.points = append(sc.points, p)
			sc.runPoint(c, p)
		}
		nc := 4 + r.Intn(10)
		for i := 0; i < nc && done < n; i++ {
			sc.runCond(c, r)
			done++
		}
		for i := 0; i < 3; i++ {
			sc.runHint(c, r)
		}
		// write batches through the real PointsWriter.routeAndMapOriginRows (batch.go), then whole
		// statements through the real ClusterShardMapper.MapShards (readmap.go); capped, the lines are long
		if batches >= maxBatches {
			continue
		}
		if bs, berr := genBatchScenario(r, c); berr != nil {
			c.Count("skipped:batch-scenario:" + strings.SplitN(berr.Error(), ":", 2)[0])
		} else {
			bs.emitCatalogue(c)
			if bs.isRange {
				c.Count("bmeta:range")
			} else {
				c.Count("bmeta:hash")
			}
			nb := 3 + r.Intn(8)
			for i := 0; i < nb; i++ {
				bs.runBatch(c, r)
				batches++
			}
			nq := 3 + r.Intn(6)
			for i := 0; i < nq; i++ {
				bs.runMapQuery(c, r)
			}
			if bs.client != nil {
				bs.recoverAndRead(r, c)
			}
			for i := 0; i < 4; i++ {
				runFieldKey(c, r)
			}
		}
	}
	return nil
}
