package c08

// Black-box route (thorough tier, or -D blackbox=<n>): a single-node ts-server built from
// /repo's working tree (so a VERIF_OVERLAY mutant reaches it), data sets written as line
// protocol over HTTP /write, flushed with /debug/ctrl?mod=flush between generations, statements
// sent to /query with and without chunked=true&chunk_size=n, with inner_chunk_size and after
// /debug/ctrl?mod=chunk_reader_parallel. The JSON answers are brought into the canonical form
// of the in-process route and compared with the same reference (and the same Lean driver).

import (
	"bytes"
	"encoding/json"
	"fmt"
	"io"
	"math"
	"net"
	"net/http"
	"net/url"
	"os"
	"os/exec"
	"os/signal"
	"path/filepath"
	"strconv"
	"strings"
	"syscall"
	"time"

	"github.com/openGemini/openGemini/engine"

	"verif/harness/engx"
	"verif/harness/internal/hx"
)

type ogServer struct {
	base string
	dir  string
	cmd  *exec.Cmd
	hc   *http.Client
	sigc chan os.Signal
}

func freePorts(n int) ([]int, error) {
	var ls []net.Listener
	var out []int
	for i := 0; i < n; i++ {
		l, err := net.Listen("tcp", "127.0.0.1:0")
		if err != nil {
			return nil, err
		}
		ls = append(ls, l)
		out = append(out, l.Addr().(*net.TCPAddr).Port)
	}
	for _, l := range ls {
		l.Close()
	}
	return out, nil
}

func tailStr(s string, n int) string {
	if len(s) > n {
		return s[len(s)-n:]
	}
	return s
}

func (s *ogServer) stop() {
	if s == nil {
		return
	}
	if s.sigc != nil {
		signal.Stop(s.sigc)
	}
	if s.cmd != nil && s.cmd.Process != nil {
		_ = syscall.Kill(-s.cmd.Process.Pid, syscall.SIGKILL)
		_, _ = s.cmd.Process.Wait()
	}
	_ = os.RemoveAll(s.dir)
}

func startServer(dir string) (*ogServer, error) {
	repo := "/repo"
	if r := os.Getenv("VERIF_REPO"); r != "" {
		repo = r
	}
	if err := os.MkdirAll(dir, 0o755); err != nil {
		return nil, err
	}
	bin := filepath.Join(dir, "ts-server")
	build := exec.Command("go", "build", "-o", bin, "./app/ts-server")
	build.Dir = repo
	build.Env = os.Environ()
	if out, err := build.CombinedOutput(); err != nil {
		return nil, fmt.Errorf("build ts-server: %v: %s", err, tailStr(string(out), 1500))
	}
	raw, err := os.ReadFile(filepath.Join(repo, "config", "openGemini.singlenode.conf"))
	if err != nil {
		return nil, err
	}
	conf := strings.ReplaceAll(string(raw), "\r\n", "\n")
	ports, err := freePorts(8)
	if err != nil {
		return nil, err
	}
	for i, p := range []string{"8092", "8088", "8091", "8086", "8087", "8400", "8401", "8305"} {
		if !strings.Contains(conf, "127.0.0.1:"+p) {
			return nil, fmt.Errorf("config rewrite: port %s not found in the single-node config", p)
		}
		conf = strings.ReplaceAll(conf, "127.0.0.1:"+p, fmt.Sprintf("127.0.0.1:%d", ports[i]))
	}
	if !strings.Contains(conf, "/tmp/openGemini") {
		return nil, fmt.Errorf("config rewrite: data path not found")
	}
	conf = strings.ReplaceAll(conf, "/tmp/openGemini", filepath.Join(dir, "og"))
	cf := filepath.Join(dir, "server.conf")
	if err := os.WriteFile(cf, []byte(conf), 0o644); err != nil {
		return nil, err
	}
	// watchdog: when the harness is gone the server is killed and the directory removed
	script := `"$1" -config "$2" > "$3/server.out" 2>&1 &
pid=$!
while kill -0 $PPID 2>/dev/null && kill -0 $pid 2>/dev/null; do sleep 1; done
kill -9 $pid 2>/dev/null
if ! kill -0 $PPID 2>/dev/null; then rm -rf "$3"; fi
`
	cmd := exec.Command("/bin/sh", "-c", script, "sh", bin, cf, dir)
	cmd.Dir = dir
	cmd.SysProcAttr = &syscall.SysProcAttr{Setpgid: true}
	cmd.Env = append(os.Environ(), "HOME="+dir)
	if err := cmd.Start(); err != nil {
		return nil, err
	}
	s := &ogServer{base: fmt.Sprintf("http://127.0.0.1:%d", ports[3]), dir: dir, cmd: cmd,
		hc: &http.Client{Timeout: 60 * time.Second}}
	s.sigc = make(chan os.Signal, 1)
	signal.Notify(s.sigc, syscall.SIGINT, syscall.SIGTERM)
	go func() {
		if _, ok := <-s.sigc; ok {
			s.stop()
			os.Exit(4)
		}
	}()
	deadline := time.Now().Add(120 * time.Second)
	for time.Now().Before(deadline) {
		resp, err := s.hc.Get(s.base + "/ping")
		if err == nil {
			resp.Body.Close()
			if resp.StatusCode == 204 {
				return s, nil
			}
		}
		time.Sleep(250 * time.Millisecond)
	}
	b, _ := os.ReadFile(filepath.Join(dir, "server.out"))
	s.stop()
	return nil, fmt.Errorf("ts-server did not come up: %s", tailStr(string(b), 800))
}

func (s *ogServer) post(path string, v url.Values, body string) (string, int, error) {
	resp, err := s.hc.Post(s.base+path+"?"+v.Encode(), "text/plain", strings.NewReader(body))
	if err != nil {
		return "", 0, err
	}
	defer resp.Body.Close()
	b, _ := io.ReadAll(resp.Body)
	return string(b), resp.StatusCode, nil
}

func lineProtocol(rows []engx.Row) string {
	var sb strings.Builder
	for _, r := range rows {
		fmt.Fprintf(&sb, "m,host=h%d,zone=z%d ", r.Series, r.Series%2)
		first := true
		for _, k := range cols {
			v, ok := r.Fields[k]
			if !ok {
				continue
			}
			if !first {
				sb.WriteByte(',')
			}
			first = false
			switch k {
			case "fi":
				sb.WriteString("fi=" + v + "i")
			case "ff":
				b, _ := strconv.ParseUint(v, 16, 64)
				sb.WriteString("ff=" + strconv.FormatFloat(math.Float64frombits(b), 'f', -1, 64))
			case "fb":
				if v == "1" {
					sb.WriteString("fb=true")
				} else {
					sb.WriteString("fb=false")
				}
			case "fs":
				sb.WriteString(`fs="` + v + `"`)
			}
		}
		fmt.Fprintf(&sb, " %d\n", engx.TimeOf(r.T))
	}
	return sb.String()
}

// bbConfig: how a statement is sent.
type bbConfig struct {
	chunked  int // chunk_size with chunked=true (0: not chunked)
	inner    int // inner_chunk_size (0: default)
	parallel int // chunk_reader_parallel set before the statement (0: left alone)
}

func (c bbConfig) text() string {
	return fmt.Sprintf("http,chunk=%d,inner=%d,par=%d", c.chunked, c.inner, c.parallel)
}

var bbConfigs = []bbConfig{{0, 0, 0}, {1, 0, 0}, {7, 2, 0}, {3, 1, 2}, {0, 7, 4}}

type jsonSeries struct {
	Name    string            `json:"name"`
	Tags    map[string]string `json:"tags"`
	Columns []string          `json:"columns"`
	Values  [][]interface{}   `json:"values"`
	Partial bool              `json:"partial"`
}

type nsTime int64

func (t nsTime) UnixNano() int64 { return int64(t) }

// httpQuery sends one statement and returns the parts as sent (every JSON document of a chunked
// response contributes its series).
func (s *ogServer) httpQuery(db string, q query, cf bbConfig) ([]engine.VerifPart, error) {
	if cf.parallel > 0 {
		v := url.Values{}
		v.Set("mod", "chunk_reader_parallel")
		v.Set("limit", strconv.Itoa(cf.parallel))
		if _, code, err := s.post("/debug/ctrl", v, ""); err != nil || code != 200 {
			return nil, fmt.Errorf("chunk_reader_parallel: %v (status %d)", err, code)
		}
	}
	v := url.Values{}
	v.Set("db", db)
	v.Set("q", q.sql())
	v.Set("epoch", "ns")
	if cf.chunked > 0 {
		v.Set("chunked", "true")
		v.Set("chunk_size", strconv.Itoa(cf.chunked))
	}
	if cf.inner > 0 {
		v.Set("inner_chunk_size", strconv.Itoa(cf.inner))
	}
	resp, err := s.hc.Get(s.base + "/query?" + v.Encode())
	if err != nil {
		return nil, err
	}
	defer resp.Body.Close()
	body, _ := io.ReadAll(resp.Body)
	if resp.StatusCode != 200 {
		return nil, fmt.Errorf("status %d: %s", resp.StatusCode, tailStr(string(body), 200))
	}
	dec := json.NewDecoder(bytes.NewReader(body))
	dec.UseNumber()
	var parts []engine.VerifPart
	ncol := len(q.cols)
	if q.agg {
		ncol = len(q.calls)
	}
	for {
		var doc struct {
			Results []struct {
				Series []jsonSeries `json:"series"`
				Error  string       `json:"error"`
			} `json:"results"`
			Error string `json:"error"`
		}
		if err := dec.Decode(&doc); err == io.EOF {
			break
		} else if err != nil {
			return nil, fmt.Errorf("json: %v in %s", err, tailStr(string(body), 200))
		}
		if doc.Error != "" {
			return nil, fmt.Errorf("%s", doc.Error)
		}
		for _, r := range doc.Results {
			if r.Error != "" {
				return nil, fmt.Errorf("%s", r.Error)
			}
			for _, sr := range r.Series {
				p := engine.VerifPart{Partial: sr.Partial}
				p.Name, p.Tags, p.Columns = sr.Name, sr.Tags, sr.Columns
				for _, row := range sr.Values {
					vals := make([]interface{}, len(row))
					for i, x := range row {
						if x == nil {
							continue
						}
						if i == 0 {
							n, _ := x.(json.Number)
							t, err := strconv.ParseInt(string(n), 10, 64)
							if err != nil {
								return nil, fmt.Errorf("time %v", x)
							}
							vals[0] = nsTime(t)
							continue
						}
						if i > ncol {
							vals[i] = x
							continue
						}
						var col, f string
						if q.agg {
							col, f = q.calls[i-1].col, q.calls[i-1].f
						} else {
							col = q.cols[i-1]
						}
						switch {
						case f == "count" || (col == "fi" && f != "mean"):
							n, ok := x.(json.Number)
							if !ok {
								vals[i] = x
								break
							}
							k, err := strconv.ParseInt(string(n), 10, 64)
							if err != nil {
								vals[i] = string(n)
								break
							}
							vals[i] = k
						case f == "mean" || col == "ff":
							n, ok := x.(json.Number)
							if !ok {
								vals[i] = x
								break
							}
							fl, err := strconv.ParseFloat(string(n), 64)
							if err != nil {
								vals[i] = string(n)
								break
							}
							vals[i] = fl
						default: // bool, string as decoded
							vals[i] = x
						}
					}
					p.Values = append(p.Values, vals)
				}
				parts = append(parts, p)
			}
		}
	}
	return parts, nil
}

// runBlackbox: nSets data sets through the server.
func runBlackbox(c *hx.Ctx, r *hx.Rng, nSets, nq int) error {
	dir := engx.ScratchDir("c08-server")
	srv, err := startServer(dir)
	if err != nil {
		return err
	}
	defer srv.stop()
	for i := 0; i < nSets; i++ {
		d := genDataset(r.Fork(), false)
		db := fmt.Sprintf("bb%d", i)
		if out, code, err := srv.post("/query", url.Values{"q": {"create database " + db}}, ""); err != nil || code != 200 {
			return fmt.Errorf("create database: %v %d %s", err, code, out)
		}
		for _, op := range d.script {
			f := strings.Fields(op)
			switch f[0] {
			case "W":
				id, _ := strconv.Atoi(f[1])
				out, code, err := srv.post("/write", url.Values{"db": {db}}, lineProtocol(d.batches[id]))
				if err != nil || code != 204 {
					line := c.Emit("note http-write-failed", "err")
					c.Violation(line, "", fmt.Sprintf("a valid write was rejected over HTTP: %v status %d %s", err, code, tailStr(out, 200)))
				}
			case "F":
				if _, code, err := srv.post("/debug/ctrl", url.Values{"mod": {"flush"}}, ""); err != nil || code != 200 {
					return fmt.Errorf("flush: %v %d", err, code)
				}
			}
		}
		// a new series becomes visible to queries a moment after the write: wait for the count
		want := 0
		seen := map[int]bool{}
		for k := range d.logical {
			seen[k.s] = true
		}
		want = len(seen)
		qAll := query{agg: true, calls: []call{{"count", "fi"}, {"count", "ff"}, {"count", "fb"}, {"count", "fs"}}, grp: "host", asc: true}
		for try := 0; try < 80; try++ {
			parts, err := srv.httpQuery(db, qAll, bbConfig{})
			if err == nil && len(parts) >= want {
				break
			}
			time.Sleep(100 * time.Millisecond)
		}
		c.Emit(d.text(), "ok")
		c.Count("blackbox:data sets")
		h := &runner{c: c, r: r, idx: 100000 + i, d: d}
		h.maxDen = int64(len(d.logical) + 8)
		for j := 0; j < nq; j++ {
			q := genQuery(r, d)
			if q.outside() != "" {
				continue // the recorded findings outside the subset are exercised in-process
			}
			want := oracle(q, d).text()
			var first string
			var raws []string
			agree := true
			lastLine := 0
			for k, cf := range bbConfigs {
				parts, err := srv.httpQuery(db, q, cf)
				raw := implAnswer(q, parts, err, h.maxDen)
				ca, _ := canonImpl(q, d, raw)
				got := ca.text()
				raws = append(raws, raw.text())
				line := c.Emit(fmt.Sprintf("q %s @ %s ds=bb%d", q.opText(), cf.text(), i), got)
				lastLine = line
				c.Count("blackbox:statements x configurations")
				if k == 0 {
					first = got
					if got != want {
						h.violation(line, "", fmt.Sprintf("http bb%d %s [%s] answers %s, the reference evaluation gives %s; data: %s; history: %s", i, q.sql(), cf.text(), clip(got), clip(want), clip(d.text()), d.history()))
					}
				} else if got != first {
					agree = false
					h.violation(line, "", fmt.Sprintf("http bb%d %s answers %s under [%s] and %s under [%s]; data: %s; history: %s", i, q.sql(), clip(first), bbConfigs[0].text(), clip(got), cf.text(), clip(d.text()), d.history()))
				}
			}
			if agree {
				for k := 1; k < len(raws); k++ {
					if raws[k] != raws[0] {
						cls := "equal-timestamps-order"
						if q.limit > 0 {
							cls = "equal-timestamps-limit"
						}
						if q.agg {
							cls = ""
							if q.hasBoolFirst() {
								cls = "first-bool-ties"
							} else if q.loneExtreme() {
								cls = "extreme-time-ties"
							}
						}
						h.violation(lastLine, cls, fmt.Sprintf("http bb%d %s answers %s under [%s] and %s under [%s]; data: %s", i, q.sql(), clip(raws[0]), bbConfigs[0].text(), clip(raws[k]), bbConfigs[k].text(), clip(d.text())))
						break
					}
				}
			}
			c.Case(fmt.Sprintf("bb%d/%s", i, q.opText()), first != "ans")
		}
	}
	return nil
}
