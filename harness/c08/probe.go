package c08

import (
	"fmt"
	"os"
	"strings"

)

// probe: ad-hoc statements against one generated data set under several configurations
// (debugging aid: ogh C08 -seed s -D only=<data set> -D q="select ...;;select ...").
func probe(dp *deployment, qs string, configs []config) {
	for _, q := range strings.Split(qs, ";;") {
		if strings.TrimSpace(q) == "" {
			continue
		}
		for _, cf := range configs {
			parts, err := dp.query(q, cf.opts())
			if err != nil {
				err = fmt.Errorf("%s", strings.SplitN(err.Error(), "\n", 2)[0])
			}
			fmt.Fprintf(os.Stderr, "Q %s  [%s] err=%v\n", q, cf.text(), err)
			for _, s := range parts {
				fmt.Fprintf(os.Stderr, "    %v partial=%v %v", s.Tags, s.Partial, s.Columns)
				for _, v := range s.Values {
					tm, _ := v[0].(interface{ UnixNano() int64 })
					if tm != nil {
						fmt.Fprintf(os.Stderr, " [%d", (tm.UnixNano()-baseSec*1e9)/1e9)
					} else {
						fmt.Fprintf(os.Stderr, " [%v", v[0])
					}
					for _, x := range v[1:] {
						fmt.Fprintf(os.Stderr, " %v", x)
					}
					fmt.Fprintf(os.Stderr, "]")
				}
				fmt.Fprintln(os.Stderr)
			}
		}
	}
}
