package c08

import (
	"fmt"
	"os"
	"strings"

	"github.com/openGemini/openGemini/engine"

	"verif/harness/internal/hx"
)

var quickConfigs = []config{{1024, 1, 0}, {1, 1, 0}, {2, 4, 0}, {7, 0, 3}}
var thoroughConfigs = []config{{1024, 1, 0}, {1, 1, 0}, {2, 4, 0}, {7, 0, 3}, {1, 0, 1}, {2, 2, 0}, {7, 1, 0}, {1024, 0, 0}}

type runner struct {
	c       *hx.Ctx
	r       *hx.Rng
	idx     int
	d       *dataset
	dp      *deployment
	configs []config
	maxDen  int64
	shown   map[string]int
}

func reverseAnswer(a answer) answer {
	out := answer{flags: a.flags, err: a.err}
	for i := len(a.groups) - 1; i >= 0; i-- {
		g := ansGroup{tag: a.groups[i].tag}
		for j := len(a.groups[i].rows) - 1; j >= 0; j-- {
			g.rows = append(g.rows, a.groups[i].rows[j])
		}
		out.groups = append(out.groups, g)
	}
	return out
}

func (h *runner) run(q query, cf config) answer {
	var parts []engine.VerifPart
	var err error
	perr := hx.Safe(func() { parts, err = h.dp.query(q.sql(), cf.opts()) })
	if perr != "" {
		return answer{err: perr}
	}
	return implAnswer(q, parts, err, h.maxDen)
}

func (h *runner) violation(line int, class, msg string) {
	if h.shown == nil {
		h.shown = map[string]int{}
	}
	h.shown[class]++
	if h.shown[class] <= 40 && h.c.Arg("v", "") != "" {
		m := msg
		if i := strings.Index(m, "; data:"); i > 0 {
			m = m[:i]
		}
		fmt.Fprintf(os.Stderr, "VIOLATION [%s] %s\n", class, m)
	}
	h.c.Violation(line, class, msg)
}

// check runs one query under every configuration.
// checkOutside: a statement outside the subset with a known configuration-dependent answer:
// both sides print a fixed marker; the answers as returned are compared with each other (and,
// for OFFSET without LIMIT, with "skip the first rows").
func (h *runner) checkOutside(q query, cls, phase string) {
	c := h.c
	marker := "ans ?" + cls
	c.Emit(fmt.Sprintf("q %s @ go-reference", q.opText()), marker)
	var raws []string
	var lines []int
	for _, cf := range h.configs {
		raw := h.run(q, cf)
		ca, _ := canonImpl(q, h.d, raw)
		raws = append(raws, ca.text())
		lines = append(lines, c.Emit(fmt.Sprintf("q %s @ %s %s ds=%d dep=%dx%d", q.opText(), cf.text(), phase, h.idx, h.dp.nPts, h.dp.nShards), marker))
	}
	want := ""
	if cls == "offset-without-limit" {
		want = oracle(q, h.d).text()
	}
	for i := range raws {
		if (want != "" && raws[i] != want) || raws[i] != raws[0] {
			ref := want
			if ref == "" {
				ref = "(no reference: interpolation not modelled)"
			}
			h.violation(lines[i], cls, fmt.Sprintf("ds=%d ["+h.dp.text()+"] %s answers %s under [%s] and %s under [%s] (%s); reference %s; data: %s; history: %s", h.idx, q.sql(), clip(raws[0]), h.configs[0].text(), clip(raws[i]), h.configs[i].text(), phase, clip(ref), clip(h.d.text()), h.d.history()))
			break
		}
	}
	c.Count("query:outside-the-subset:" + cls)
	c.Case(fmt.Sprintf("%d/%s/%s", h.idx, q.opText(), phase), true)
}

func (h *runner) check(q query, phase string) {
	c := h.c
	if cls := q.outside(); cls != "" {
		h.checkOutside(q, cls, phase)
		return
	}
	want := oracle(q, h.d).text()
	// the reference evaluation in Go is itself compared with the Lean evaluator
	c.Emit(fmt.Sprintf("q %s @ go-reference", q.opText()), want)
	var first string
	var firstLine int
	nonEmpty := false
	tiesMoved := false
	var rawTexts []string
	canonAgree := true
	for i, cf := range h.configs {
		raw := h.run(q, cf)
		ca, moved := canonImpl(q, h.d, raw)
		got := ca.text()
		if moved {
			tiesMoved = true
		}
		rawTexts = append(rawTexts, raw.text())
		line := c.Emit(fmt.Sprintf("q %s @ %s %s ds=%d dep=%dx%d", q.opText(), cf.text(), phase, h.idx, h.dp.nPts, h.dp.nShards), got)
		if got != "ans" {
			nonEmpty = true
		}
		if i == 0 {
			first, firstLine = got, line
			if got != want {
				h.violation(line, classify(q, "spec"), fmt.Sprintf("ds=%d ["+h.dp.text()+"] %s [%s %s] answers %s, the reference evaluation gives %s; data: %s; history: %s", h.idx, q.sql(), cf.text(), phase, clip(got), clip(want), clip(h.d.text()), h.d.history()))
			}
			continue
		}
		if got != first {
			canonAgree = false
			h.violation(line, classify(q, "config"), fmt.Sprintf("ds=%d ["+h.dp.text()+"] %s answers %s under [%s] and %s under [%s] (%s); data: %s; history: %s", h.idx, q.sql(), clip(first), h.configs[0].text(), clip(got), cf.text(), phase, clip(h.d.text()), h.d.history()))
		}
	}
	// the canonical answers agree, the answers as returned do not: only the rows of one
	// timestamp are ordered (or, under LIMIT / OFFSET, chosen) differently
	if canonAgree {
		for i := 1; i < len(rawTexts); i++ {
			if rawTexts[i] != rawTexts[0] {
				cls := "equal-timestamps-order"
				if q.limit > 0 {
					cls = "equal-timestamps-limit"
				}
				if q.agg {
					cls = "" // an aggregate has no rows of one timestamp to reorder
					if q.hasBoolFirst() {
						cls = "first-bool-ties"
					} else if q.loneExtreme() {
						cls = "extreme-time-ties"
					}
				}
				h.violation(firstLine+i, cls, fmt.Sprintf("ds=%d ["+h.dp.text()+"] %s answers %s under [%s] and %s under [%s] (%s); data: %s; history: %s", h.idx, q.sql(), clip(rawTexts[0]), h.configs[0].text(), clip(rawTexts[i]), h.configs[i].text(), phase, clip(h.d.text()), h.d.history()))
				break
			}
		}
	}
	if tiesMoved {
		c.Count("canon:order-inside-a-timestamp-normalised")
	}
	kind := "sel"
	if q.agg {
		kind = "agg"
		if q.interval > 0 {
			kind = "agg-time:" + fillKind(q.fill)
		}
	}
	dir := "asc"
	if !q.asc {
		dir = "desc"
	}
	c.Count("query:" + kind + ":" + dir)
	if q.grp != "-" {
		c.Count("query:group-by-tag")
	}
	if q.limit > 0 || q.offset > 0 {
		c.Count("query:limit/offset")
	}
	if nonEmpty && (q.interval > 0 || q.limit > 0) {
		c.Sample(fmt.Sprintf("%s  ->  %s  (same under %d configurations)", q.sql(), clip(first), len(h.configs)))
	}
	c.Case(fmt.Sprintf("%d/%s/%s", h.idx, q.opText(), phase), nonEmpty)
}

func fillKind(f string) string {
	switch f {
	case "none", "null", "previous":
		return f
	}
	return "number"
}

func clip(s string) string {
	if len(s) > 1500 {
		return s[:1500] + "…"
	}
	return s
}

func (d *dataset) history() string {
	var out []string
	for _, op := range d.script {
		f := strings.Fields(op)
		if f[0] == "W" {
			var id int
			fmt.Sscanf(f[1], "%d", &id)
			var rs []string
			for _, er := range d.batches[id] {
				rs = append(rs, er.Text())
			}
			out = append(out, "W "+strings.Join(rs, ";"))
		} else {
			out = append(out, op)
		}
	}
	return clip(strings.Join(out, " | "))
}

// classify names the finding class of a violation (known_findings.jsonl); "" = unclassified.
// (The classes of this property are given where they are detected: equal-timestamps-order and
// equal-timestamps-limit in check.)
func classify(q query, kind string) string {
	return ""
}

func (h *runner) checkDescPair(q query) {
	// a descending query returns the ascending answer reversed (same limit-free query both ways)
	if q.limit > 0 || q.offset > 0 || q.outside() != "" {
		return
	}
	if q.agg && q.interval > 0 && q.fill == "previous" {
		return // "previous" is the previous bucket in output order: not a reversal by design
	}
	qa, qd := q, q
	qa.asc, qd.asc = true, false
	cf := h.configs[h.r.Intn(len(h.configs))]
	a, _ := canonImpl(qa, h.d, h.run(qa, cf))
	dd, _ := canonImpl(qd, h.d, h.run(qd, cf))
	la := h.c.Emit(fmt.Sprintf("q %s @ %s pair", qa.opText(), cf.text()), a.text())
	ld := h.c.Emit(fmt.Sprintf("q %s @ %s pair", qd.opText(), cf.text()), dd.text())
	_ = la
	if a.err == "" && dd.err == "" && reverseAnswer(a).text() != dd.text() {
		h.violation(ld, classify(qd, "desc"), fmt.Sprintf("ds=%d ["+h.dp.text()+"] %s [%s] answers %s, which is not the reverse of the ascending answer %s; data: %s; history: %s", h.idx, qd.sql(), cf.text(), clip(dd.text()), clip(a.text()), clip(h.d.text()), h.d.history()))
	}
	h.c.Count("pair:asc/desc")
}

func runDataset(c *hx.Ctx, r *hx.Rng, idx int, nq int) error {
	big := (c.Tier == "thorough" && r.Chance(4)) || c.Arg("big", "") != ""
	d := genDataset(r.Fork(), big)
	// a third of the data sets live in several partitions and / or several shards (time ranges)
	nPts, nShards := 0, 0
	if v := c.Arg("deploy", ""); v != "" {
		fmt.Sscanf(v, "%dx%d", &nPts, &nShards)
	} else if r.Chance(35) && !big {
		nPts, nShards = 1+r.Intn(3), 1+r.Intn(3)
	}
	dp, err := loadDataset(d, nPts, nShards)
	if err != nil {
		return err
	}
	c.Count("deployment:" + dp.text())
	h := &runner{c: c, r: r, idx: idx, d: d, dp: dp, configs: quickConfigs}
	if c.Tier == "thorough" {
		h.configs = thoroughConfigs
	}
	h.maxDen = int64(len(d.logical) + 8)
	c.Emit(d.text(), "ok")
	c.Count(fmt.Sprintf("dataset:series=%d", d.nSeries))
	c.Count(fmt.Sprintf("dataset:times=%d", d.nTimes))
	if qs := c.Arg("q", ""); qs != "" { // ad-hoc statements against this data set (debugging)
		fmt.Fprintf(os.Stderr, "dataset %d: %s\nhistory: %s\n", idx, d.text(), d.history())
		cfgs := h.configs
		if cs := c.Arg("cfgs", ""); cs != "" {
			cfgs = nil
			for _, t := range strings.Split(cs, ";") {
				var cf config
				fmt.Sscanf(t, "%d,%d,%d", &cf.chunk, &cf.parallel, &cf.chunked)
				cfgs = append(cfgs, cf)
			}
		}
		fmt.Fprintf(os.Stderr, "deployment: %s\n", dp.text())
		probe(dp, qs, cfgs)
		return dp.close()
	}
	var qs []query
	for i := 0; i < nq; i++ {
		q := genQuery(r, d)
		qs = append(qs, q)
		h.check(q, "p1")
		if r.Chance(40) {
			h.checkDescPair(q)
		}
	}
	// flushes / compactions do not change an answer
	if err := applyScript(dp, d, d.post); err != nil {
		line := c.Emit("note maintenance-failed", "err")
		c.Violation(line, "", fmt.Sprintf("maintenance failed: %v (%v)", err, d.post))
	}
	d.script = append(d.script, d.post...)
	for _, q := range qs {
		if r.Chance(50) {
			h.check(q, "p2")
		}
	}
	if s := c.Arg("v", ""); s != "" {
		for k, n := range h.shown {
			fmt.Fprintf(os.Stderr, "  ds=%d class[%s]=%d\n", idx, k, n)
		}
	}
	return dp.close()
}

func runAll(c *hx.Ctx) error {
	c.Stats.Rule = "seeded data sets (2-5 series in 2 zones, 12-120 timestamps - 2400 for a few in the thorough tier -, int/float/bool/string fields with nulls, gaps, sparse series, equal timestamps across series; 1-4 flush generations with late writes + memtable, optional compaction / out-of-order merge) x seeded queries of the subset (selection of 1-3 fields or 1-3 calls of count/sum/mean/min/max/first/last; time bounds, tag =/!=, field filter; group by host/zone; time buckets of 1-60 s with fill none/null/previous/number; asc/desc; limit/offset on ungrouped statements), each run under every configuration (chunk size 1/2/7/1024 x parallelism 1/2/4/cpus x response chunk 0/1/3) and again after flush/compaction; a case is non-trivial when the answer is not empty; distinct by data set, query text and phase"
	n := c.Budget(40, 700)
	r := hx.NewRng(hx.NewRng(c.Seed).U64() ^ 0xC08C08C08)
	only := -1
	if v := c.Arg("only", ""); v != "" {
		fmt.Sscanf(v, "%d", &only)
	}
	nq := 12
	for i := 0; i < n; i++ {
		hr := r.Fork()
		if only >= 0 && i != only {
			continue
		}
		if err := runDataset(c, hr, i, nq); err != nil {
			return err
		}
	}
	// black-box route: the thorough tier, or -D blackbox=<number of data sets>
	nbb := 0
	if c.Tier == "thorough" && only < 0 {
		nbb = 8
	}
	if v := c.Arg("blackbox", ""); v != "" {
		fmt.Sscanf(v, "%d", &nbb)
	}
	if nbb > 0 {
		if err := runBlackbox(c, hx.NewRng(hx.NewRng(c.Seed).U64()^0xBB08), nbb, nq); err != nil {
			return fmt.Errorf("black-box route: %v", err)
		}
	}
	return nil
}
