// Package c08: correspondence harness for C08 (query answers follow the language and ignore
// chunking and parallelism). Seeded data sets (several series, int/float/string/bool fields,
// gaps, nulls, equal timestamps across series, several flush generations + out-of-order files +
// memtable) are loaded into a real shard (engine verif facade); seeded queries of the supported
// subset are run through the single-node query path (executor.Select -> planner -> local store
// -> cursors -> transforms -> sender) under several configurations (executor chunk size,
// parallelism, response chunk size), ascending and descending, before and after flushes /
// compactions.
//
//	ops.txt  : db <logical rows> ; q <query> <config>
//	impl.out : the canonical answer of the real executor for that query under that config
//	viol.out : answers that differ between configurations / layouts, descending answers that
//	           are not the ascending ones reversed, answers that differ from the reference
//	           evaluation in Go (the property itself)
package c08

import (
	"fmt"
	"math"
	"os"
	"sort"
	"strconv"
	"strings"

	"github.com/openGemini/openGemini/engine"
	"github.com/openGemini/openGemini/lib/util/lifted/influx/influxql"

	"verif/harness/engx"
	"verif/harness/internal/hx"
)

func init() { hx.Register("C08", Run) }

const baseSec = int64(1700000000)

var cols = []string{"fb", "ff", "fi", "fs"} // = engx.FieldNames, the cell order of every row
var qlFields = map[string]influxql.DataType{"fb": influxql.Boolean, "ff": influxql.Float, "fi": influxql.Integer, "fs": influxql.String}
var tagKeys = []string{"host", "zone"}

// ---------------------------------------------------------------------------------------------
// values: every cell is an int64 "code" plus its column:
//   fi: the integer; ff: numerator of value*8 (all generated floats are multiples of 1/8, so
//   every float sum is exact and independent of the order of addition); fb: 0/1; fs: k of "s%03d".

type cell struct {
	ok bool
	v  int64
}

func (c cell) String() string {
	if !c.ok {
		return "_"
	}
	return strconv.FormatInt(c.v, 10)
}

func colIdx(col string) int {
	for i, c := range cols {
		if c == col {
			return i
		}
	}
	return -1
}

func codeToText(col string, v int64) string { // engx.Row cell text
	switch col {
	case "fi":
		return strconv.FormatInt(v, 10)
	case "ff":
		return fmt.Sprintf("%016x", math.Float64bits(float64(v)/8))
	case "fb":
		return strconv.FormatInt(v, 10)
	}
	return fmt.Sprintf("s%03d", v)
}

// valueToCode converts a value returned by the engine; ok=false if it is not representable.
func valueToCode(col string, x interface{}) (int64, bool) {
	switch col {
	case "fi":
		switch n := x.(type) {
		case int64:
			return n, true
		}
	case "ff":
		switch f := x.(type) {
		case float64:
			k := f * 8
			if k == math.Trunc(k) && math.Abs(k) < 1<<53 {
				return int64(k), true
			}
		}
	case "fb":
		if b, ok := x.(bool); ok {
			if b {
				return 1, true
			}
			return 0, true
		}
	case "fs":
		if s, ok := x.(string); ok && len(s) == 4 && s[0] == 's' {
			if k, err := strconv.Atoi(s[1:]); err == nil {
				return int64(k), true
			}
		}
	}
	return 0, false
}

// ---------------------------------------------------------------------------------------------
// data sets

type key struct{ s, t int }

type drow struct {
	s, t int
	cs   [4]cell
}

type dataset struct {
	nSeries, nTimes int
	script          []string // W rows / F / c lv / C / m full : the physical history
	batches         map[int][]engx.Row
	logical         map[key]*drow
	post            []string // maintenance ops applied between the two check points
}

func (d *dataset) rows() []*drow {
	out := make([]*drow, 0, len(d.logical))
	for _, r := range d.logical {
		out = append(out, r)
	}
	sort.Slice(out, func(a, b int) bool {
		if out[a].s != out[b].s {
			return out[a].s < out[b].s
		}
		return out[a].t < out[b].t
	})
	return out
}

// text is the op-line form of the logical contents: s:t:fb,ff,fi,fs;…
func (d *dataset) text() string {
	var sb strings.Builder
	fmt.Fprintf(&sb, "db %d", d.nSeries)
	for _, r := range d.rows() {
		fmt.Fprintf(&sb, " %d:%d:%s,%s,%s,%s", r.s, r.t, r.cs[0], r.cs[1], r.cs[2], r.cs[3])
	}
	return sb.String()
}

func genVal(r *hx.Rng, col string) int64 {
	switch col {
	case "fi":
		if r.Chance(70) {
			return int64(r.Intn(7)) - 3 // many ties
		}
		return int64(r.Intn(2001)) - 1000
	case "ff":
		if r.Chance(60) {
			return int64(r.Intn(9)) - 4
		}
		return int64(r.Intn(801)) - 400
	case "fb":
		return int64(r.Intn(2))
	}
	return int64(r.Intn(40))
}

// genDataset: 2-5 series over nTimes timestamps; 1-4 flush generations (advancing writes, late
// writes that end up in out-of-order files) and a memtable; no (series, time) is written in two
// flush generations (the documented exception of the statistics shortcut, C09); inside one
// generation a key may be written twice (field-wise last write wins in the memtable).
func genDataset(r *hx.Rng, big bool) *dataset {
	d := &dataset{logical: map[key]*drow{}, batches: map[int][]engx.Row{}}
	d.nSeries = 2 + r.Intn(4)
	d.nTimes = []int{12, 30, 60, 120}[r.Intn(4)]
	rowsPerSeries := 0
	if big {
		d.nSeries = 2 + r.Intn(2)
		d.nTimes = 2400
		rowsPerSeries = 1100 + r.Intn(900)
	}
	density := 30 + r.Intn(65) // percent of (series, time) present
	nullPct := []int{0, 10, 40}[r.Intn(3)]
	gens := 1 + r.Intn(4)
	memtable := r.Chance(70)
	// which generation owns a key
	type owned struct {
		k   key
		gen int
	}
	var keys []owned
	for s := 0; s < d.nSeries; s++ {
		sparse := r.Chance(20) // a series with few points
		for t := 0; t < d.nTimes; t++ {
			p := density
			if sparse {
				p = 8
			}
			if big {
				p = rowsPerSeries * 100 / d.nTimes
			}
			if !r.Chance(p) {
				continue
			}
			g := t * gens / d.nTimes // advancing
			if r.Chance(12) {
				g = r.Intn(gens) // late or early: out-of-order data
			}
			keys = append(keys, owned{key{s, t}, g})
		}
	}
	if len(keys) == 0 {
		keys = append(keys, owned{key{0, 0}, 0})
	}
	for g := 0; g < gens; g++ {
		var mine []key
		for _, o := range keys {
			if o.gen == g {
				mine = append(mine, o.k)
			}
		}
		// 1-3 batches, rows in a random interleaving of series
		nb := 1 + r.Intn(3)
		bs := make([][]engx.Row, nb)
		for _, k := range mine {
			n := 1
			if r.Chance(8) {
				n = 2 // rewritten inside the generation
			}
			for i := 0; i < n; i++ {
				er := engx.Row{Mst: "m", Series: k.s, T: k.t, Fields: map[string]string{}}
				for _, col := range cols {
					p := 100 - nullPct
					if col == "fb" || col == "fs" {
						p = p * 2 / 3
					}
					if r.Chance(p) {
						er.Fields[col] = codeToText(col, genVal(r, col))
					}
				}
				if len(er.Fields) == 0 {
					ci := 1 + r.Intn(2)
					er.Fields[cols[ci]] = codeToText(cols[ci], genVal(r, cols[ci]))
				}
				b := r.Intn(nb)
				bs[b] = append(bs[b], er)
			}
		}
		for _, b := range bs {
			if len(b) == 0 {
				continue
			}
			d.addBatch(b)
		}
		if g < gens-1 || !memtable {
			d.script = append(d.script, "F")
		}
		if r.Chance(15) {
			d.script = append(d.script, []string{"c 0", "C", "m true", "m false"}[r.Intn(4)])
		}
	}
	// maintenance between the two check points
	for i, n := 0, 1+r.Intn(3); i < n; i++ {
		d.post = append(d.post, []string{"F", "c 0", "c 1", "C", "m true", "m false"}[r.Intn(6)])
	}
	if d.post[0] != "F" && memtable && r.Bool() {
		d.post = append([]string{"F"}, d.post...)
	}
	return d
}

func (d *dataset) addBatch(rows []engx.Row) {
	id := len(d.batches)
	d.batches[id] = rows
	d.script = append(d.script, fmt.Sprintf("W %d", id))
	for _, er := range rows {
		k := key{er.Series, er.T}
		m := d.logical[k]
		if m == nil {
			m = &drow{s: er.Series, t: er.T}
			d.logical[k] = m
		}
		for ci, col := range cols {
			txt, ok := er.Fields[col]
			if !ok {
				continue
			}
			var v int64
			switch col {
			case "ff":
				b, _ := strconv.ParseUint(txt, 16, 64)
				v = int64(math.Float64frombits(b) * 8)
			case "fs":
				k, _ := strconv.Atoi(txt[1:])
				v = int64(k)
			default:
				v, _ = strconv.ParseInt(txt, 10, 64)
			}
			m.cs[ci] = cell{true, v}
		}
	}
}

// deployment: one shard, or nPts partitions x nShards time ranges (every series lives in the
// partition `series mod nPts`, every row in the shard of its time), all behind one query path.
type deployment struct {
	nPts, nShards int
	nTimes        int
	single        *engine.VerifShard
	placed        []engine.VerifPlacedShard
	dirs          []string
}

func (dp *deployment) multi() bool { return dp.single == nil }

func (dp *deployment) text() string {
	if !dp.multi() {
		return "1 shard"
	}
	return fmt.Sprintf("%d partitions x %d shards", dp.nPts, dp.nShards)
}

// shardOf: index into placed of the shard that owns (series, time index).
func (dp *deployment) shardOf(series, t int) int {
	k := t * dp.nShards / dp.nTimes
	if k >= dp.nShards {
		k = dp.nShards - 1
	}
	return (series%dp.nPts)*dp.nShards + k
}

func (dp *deployment) each(f func(sh *engine.VerifShard)) {
	if !dp.multi() {
		f(dp.single)
		return
	}
	for _, p := range dp.placed {
		f(p.Shard)
	}
}

func (dp *deployment) write(rows []engx.Row) error {
	if !dp.multi() {
		return dp.single.Write(engx.ToInflux(rows))
	}
	parts := map[int][]engx.Row{}
	for _, r := range rows {
		i := dp.shardOf(r.Series, r.T)
		parts[i] = append(parts[i], r)
	}
	for i := range dp.placed {
		if len(parts[i]) == 0 {
			continue
		}
		if err := dp.placed[i].Shard.Write(engx.ToInflux(parts[i])); err != nil {
			return err
		}
	}
	return nil
}

func (dp *deployment) query(sql string, o engine.VerifQueryOptions) ([]engine.VerifPart, error) {
	if !dp.multi() {
		return dp.single.QueryWith(sql, qlFields, tagKeys, o)
	}
	return engine.VerifQueryMulti(dp.placed, sql, qlFields, tagKeys, o)
}

func (dp *deployment) close() error {
	var first error
	dp.each(func(sh *engine.VerifShard) {
		if err := sh.Close(); err != nil && first == nil {
			first = err
		}
	})
	for _, d := range dp.dirs {
		os.RemoveAll(d)
	}
	return first
}

func applyScript(dp *deployment, d *dataset, script []string) error {
	for _, op := range script {
		f := strings.Fields(op)
		var err error
		perr := hx.Safe(func() {
			switch f[0] {
			case "W":
				id, _ := strconv.Atoi(f[1])
				err = dp.write(d.batches[id])
			case "F":
				dp.each(func(sh *engine.VerifShard) { sh.Flush() })
			case "c":
				lv, _ := strconv.Atoi(f[1])
				dp.each(func(sh *engine.VerifShard) { _ = sh.LevelCompact(uint16(lv)) })
			case "C":
				dp.each(func(sh *engine.VerifShard) { _ = sh.FullCompact() })
			case "m":
				dp.each(func(sh *engine.VerifShard) { _ = sh.MergeOutOfOrder(f[1] == "true", true) })
			}
		})
		if perr != "" {
			return fmt.Errorf("%s: %s", op, perr)
		}
		if err != nil {
			return fmt.Errorf("%s: %v", op, err)
		}
	}
	dp.each(func(sh *engine.VerifShard) { sh.Quiesce() })
	return nil
}

// loadDataset opens the deployment (nPts = 0: one stand-alone shard) and replays the history.
func loadDataset(d *dataset, nPts, nShards int) (*deployment, error) {
	dp := &deployment{nPts: nPts, nShards: nShards, nTimes: d.nTimes}
	if nPts == 0 {
		dir := engx.ScratchDir("c08")
		dp.dirs = append(dp.dirs, dir)
		sh, err := engine.VerifOpenShard(dir, 1)
		if err != nil {
			os.RemoveAll(dir)
			return nil, err
		}
		sh.DisableBackground()
		dp.single = sh
	} else {
		per := (d.nTimes + nShards - 1) / nShards
		_ = per
		for pt := 0; pt < nPts; pt++ {
			for k := 0; k < nShards; k++ {
				dir := engx.ScratchDir("c08")
				dp.dirs = append(dp.dirs, dir)
				// the shard of time indexes t with t*nShards/nTimes == k
				lo := (k*d.nTimes + nShards - 1) / nShards
				hi := ((k+1)*d.nTimes + nShards - 1) / nShards
				start, end := engx.TimeOf(lo), engx.TimeOf(hi)
				if k == 0 {
					start = 0
				}
				if k == nShards-1 {
					end = engx.TimeOf(1 << 20)
				}
				sh, err := engine.VerifOpenShardAt(dir, 1, uint32(pt+1), uint64(pt*nShards+k+1), start, end)
				if err != nil {
					dp.close()
					return nil, err
				}
				sh.DisableBackground()
				dp.placed = append(dp.placed, engine.VerifPlacedShard{Shard: sh, PtID: uint32(pt + 1), ShardID: uint64(pt*nShards + k + 1)})
			}
		}
	}
	if err := applyScript(dp, d, d.script); err != nil {
		dp.close()
		return nil, err
	}
	dp.each(func(sh *engine.VerifShard) { sh.FlushIndex() })
	return dp, nil
}

// ---------------------------------------------------------------------------------------------
// configurations

type config struct {
	chunk    int // executor chunk size
	parallel int // max parallelism (0 = number of CPUs)
	chunked  int // response chunk size (0 = not chunked)
}

func (c config) opts() engine.VerifQueryOptions {
	return engine.VerifQueryOptions{ChunkSize: c.chunk, MaxParallel: c.parallel, ChunkedSize: c.chunked}
}
func (c config) text() string { return fmt.Sprintf("cs=%d,par=%d,resp=%d", c.chunk, c.parallel, c.chunked) }

func Run(c *hx.Ctx) error {
	return runAll(c)
}
