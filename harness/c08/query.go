package c08

import (
	"fmt"
	"strconv"
	"strings"

	"verif/harness/engx"
	"verif/harness/internal/hx"
)

// ---------------------------------------------------------------------------------------------
// queries of the supported subset

type call struct{ f, col string }

type query struct {
	agg      bool
	cols     []string // selection: selected fields
	calls    []call   // aggregate: calls
	hasLo    bool
	hasHi    bool
	lo, hi   int    // inclusive bounds (relative seconds)
	tagKey   string // "" | "host" | "zone"
	tagOp    string // "=" | "!="
	tagVal   string
	fcol     string // field filter column or ""
	fop      string // ">" | "<=" | "="
	fconst   int64
	grp      string // "-" | "host" | "zone"
	interval int    // 0 = none (aggregates only)
	fill     string // "none" | "null" | "previous" | "<number>" (only with interval)
	asc      bool
	limit    int // 0 = none
	offset   int
}

func (q query) filterText() string {
	if q.fcol == "" {
		return "-"
	}
	return fmt.Sprintf("%s:%s:%d", q.fcol, q.fop, q.fconst)
}

func (q query) tagText() string {
	if q.tagKey == "" {
		return "-"
	}
	return q.tagKey + ":" + q.tagOp + ":" + q.tagVal
}

func bound(has bool, v int) string {
	if !has {
		return "-"
	}
	return strconv.Itoa(v)
}

// opText is the op-line form:
//   sel <cols> <lo> <hi> <tagfilter> <fieldfilter> <grp> <dir> <limit> <offset>
//   agg <calls> <lo> <hi> <tagfilter> <fieldfilter> <grp> <interval> <fill> <dir> <limit> <offset>
func (q query) opText() string {
	dir := "asc"
	if !q.asc {
		dir = "desc"
	}
	if !q.agg {
		return fmt.Sprintf("sel %s %s %s %s %s %s %s %d %d", strings.Join(q.cols, "+"), bound(q.hasLo, q.lo), bound(q.hasHi, q.hi),
			q.tagText(), q.filterText(), q.grp, dir, q.limit, q.offset)
	}
	var cs []string
	for _, c := range q.calls {
		cs = append(cs, c.f+":"+c.col)
	}
	fill := q.fill
	if q.interval == 0 {
		fill = "-"
	}
	return fmt.Sprintf("agg %s %s %s %s %s %s %d %s %s %d %d", strings.Join(cs, "+"), bound(q.hasLo, q.lo), bound(q.hasHi, q.hi),
		q.tagText(), q.filterText(), q.grp, q.interval, fill, dir, q.limit, q.offset)
}

func filterSQL(col, op string, k int64) string {
	switch col {
	case "ff":
		return fmt.Sprintf("%s %s %s", col, op, strconv.FormatFloat(float64(k)/8, 'f', -1, 64))
	case "fb":
		if k != 0 {
			return fmt.Sprintf("%s %s true", col, op)
		}
		return fmt.Sprintf("%s %s false", col, op)
	case "fs":
		return fmt.Sprintf("%s %s 's%03d'", col, op, k)
	}
	return fmt.Sprintf("%s %s %d", col, op, k)
}

func (q query) sql() string {
	var sel []string
	if q.agg {
		for _, c := range q.calls {
			sel = append(sel, fmt.Sprintf("%s(%s)", c.f, c.col))
		}
	} else {
		sel = append(sel, q.cols...)
	}
	s := "select " + strings.Join(sel, ", ") + " from m"
	var conds []string
	if q.hasLo {
		conds = append(conds, fmt.Sprintf("time >= %d", engx.TimeOf(q.lo)))
	}
	if q.hasHi {
		conds = append(conds, fmt.Sprintf("time <= %d", engx.TimeOf(q.hi)))
	}
	if q.tagKey != "" {
		conds = append(conds, fmt.Sprintf("%s %s '%s'", q.tagKey, q.tagOp, q.tagVal))
	}
	if q.fcol != "" {
		conds = append(conds, filterSQL(q.fcol, q.fop, q.fconst))
	}
	if len(conds) > 0 {
		s += " where " + strings.Join(conds, " and ")
	}
	var gb []string
	if q.grp != "-" {
		gb = append(gb, q.grp)
	}
	if q.interval > 0 {
		gb = append(gb, fmt.Sprintf("time(%ds)", q.interval))
	}
	if len(gb) > 0 {
		s += " group by " + strings.Join(gb, ", ")
	}
	if q.interval > 0 {
		s += " fill(" + q.fill + ")"
	}
	if !q.asc {
		s += " order by time desc"
	}
	if q.limit > 0 {
		s += fmt.Sprintf(" limit %d", q.limit)
	}
	if q.offset > 0 {
		s += fmt.Sprintf(" offset %d", q.offset)
	}
	return s
}

func isSelector(f string) bool { return f == "min" || f == "max" || f == "first" || f == "last" }

// callOK: which function applies to which column type.
func callOK(f, col string) bool {
	switch f {
	case "count", "first", "last":
		return true
	case "sum", "mean":
		return col == "fi" || col == "ff"
	case "min", "max":
		return col != "fs"
	}
	return false
}

var funcs = []string{"count", "sum", "mean", "min", "max", "first", "last"}

func genQuery(r *hx.Rng, d *dataset) query {
	q := query{asc: r.Chance(60), grp: "-"}
	// time range
	nT := d.nTimes
	switch r.Intn(5) {
	case 0: // none
	case 1:
		q.hasLo, q.lo = true, r.Intn(nT)
	case 2:
		q.hasHi, q.hi = true, r.Intn(nT)
	default:
		q.hasLo, q.hasHi = true, true
		q.lo = r.Intn(nT)
		q.hi = q.lo + r.Intn(nT-q.lo)
		if r.Chance(30) {
			q.lo, q.hi = r.Intn(nT/4+1), nT-1-r.Intn(nT/4+1)
		}
	}
	if r.Chance(30) {
		q.tagOp = "="
		if r.Chance(30) {
			q.tagOp = "!="
		}
		if r.Bool() {
			q.tagKey, q.tagVal = "host", fmt.Sprintf("h%d", r.Intn(d.nSeries+1))
		} else {
			q.tagKey, q.tagVal = "zone", fmt.Sprintf("z%d", r.Intn(2))
		}
	}
	if r.Chance(30) {
		switch r.Intn(6) {
		case 0, 1, 2:
			q.fcol, q.fop, q.fconst = "fi", []string{">", "<=", "="}[r.Intn(3)], int64(r.Intn(7))-3
		case 3, 4:
			q.fcol, q.fop, q.fconst = "ff", []string{">", "<="}[r.Intn(2)], int64(r.Intn(9))-4
		default:
			q.fcol, q.fop, q.fconst = "fb", "=", int64(r.Intn(2))
		}
	}
	switch r.Intn(4) {
	case 0:
		q.grp = "host"
	case 1:
		q.grp = "zone"
	}
	q.agg = r.Chance(60)
	if !q.agg {
		n := 1 + r.Intn(3)
		perm := []string{"fb", "ff", "fi", "fs"}
		for i := 0; i < n; i++ {
			j := i + r.Intn(len(perm)-i)
			perm[i], perm[j] = perm[j], perm[i]
		}
		q.cols = append(q.cols, perm[:n]...)
		if q.grp == "-" && r.Chance(50) {
			q.limit = 1 + r.Intn(12)
			if r.Chance(50) {
				q.offset = r.Intn(10)
			}
		} else if q.grp == "-" && r.Chance(6) {
			// OFFSET without LIMIT: outside the subset (InfluxQL: "the OFFSET clause requires a
			// LIMIT clause"); generated to keep the finding offset-without-limit on record
			q.offset = 1 + r.Intn(6)
		}
		return q
	}
	n := 1
	if r.Chance(45) {
		n = 2 + r.Intn(2)
	}
	for len(q.calls) < n {
		f := funcs[r.Intn(len(funcs))]
		col := cols[r.Intn(len(cols))]
		if r.Chance(50) {
			col = []string{"fi", "ff"}[r.Intn(2)]
		}
		if !callOK(f, col) {
			continue
		}
		dup := false
		for _, c := range q.calls {
			if c.f == f && c.col == col {
				dup = true
			}
		}
		if !dup {
			q.calls = append(q.calls, call{f, col})
		}
	}
	if r.Chance(55) {
		q.interval = []int{1, 2, 3, 5, 7, 10, 20, 30, 60}[r.Intn(9)]
		if !q.hasLo {
			q.hasLo, q.lo = true, r.Intn(nT/3+1)
		}
		if !q.hasHi {
			q.hasHi, q.hi = true, q.lo+r.Intn(nT-q.lo)
		}
		if (q.hi-q.lo)/q.interval > 400 {
			q.interval = 60
		}
		switch r.Intn(5) {
		case 0:
			q.fill = "none"
		case 1, 2:
			q.fill = "null"
		case 3:
			q.fill = "previous"
		default:
			q.fill = strconv.Itoa(r.Intn(9) - 2)
			for _, cl := range q.calls {
				if cl.f != "count" && (cl.col == "fb" || cl.col == "fs") {
					q.fill = "null" // fill(<number>) is not defined for a boolean / string column
				}
			}
		}
		if r.Chance(5) {
			numeric := true
			for _, cl := range q.calls {
				if cl.f != "count" && (cl.col == "fb" || cl.col == "fs") {
					numeric = false
				}
			}
			if numeric {
				q.fill = "linear" // outside the subset: keeps the finding fill-linear on record
			}
		}
		if q.grp == "-" && r.Chance(25) {
			q.limit = 1 + r.Intn(6)
			if r.Bool() {
				q.offset = r.Intn(5)
			}
		}
	}
	return q
}

// outside: the class of a statement that is outside the subset and known to be answered
// differently under different configurations ("" for a statement of the subset).
func (q query) outside() string {
	if !q.agg && q.limit == 0 && q.offset > 0 {
		return "offset-without-limit"
	}
	if q.agg && q.interval > 0 && q.fill == "linear" {
		return "fill-linear"
	}
	return ""
}
