package c08

import (
	"fmt"
	"math"
	"math/big"
	"sort"
	"strconv"
	"strings"

	"github.com/openGemini/openGemini/engine"
)

// ---------------------------------------------------------------------------------------------
// canonical answers
//
//	ans <group>{<t>:<v>,<v>;<t>:<v>,<v>} <group>{…}     groups and rows in the order returned
//	t: relative second | E (the epoch, time of an aggregate without a time column)
//	v: code | _ (null) | n/d (mean, in code units, reduced)

type ansRow struct {
	t    string
	vals []string
}
type ansGroup struct {
	tag  string
	rows []ansRow
}
type answer struct {
	groups []ansGroup
	flags  string
	err    string
}

func (a answer) text() string {
	if a.err != "" {
		return "err " + a.err
	}
	var gs []string
	for _, g := range a.groups {
		var rs []string
		for _, r := range g.rows {
			rs = append(rs, r.t+":"+strings.Join(r.vals, ","))
		}
		gs = append(gs, g.tag+"{"+strings.Join(rs, ";")+"}")
	}
	s := "ans"
	if len(gs) > 0 {
		s += " " + strings.Join(gs, " ")
	}
	return s + a.flags
}

func relTime(ns int64) string {
	if ns == 0 {
		return "E"
	}
	d := ns - baseSec*1e9
	if d%1e9 != 0 {
		return fmt.Sprintf("!ns%d", ns)
	}
	return strconv.FormatInt(d/1e9, 10)
}

func ratText(num, den int64) string {
	r := big.NewRat(num, den)
	return r.Num().String() + "/" + r.Denom().String()
}

// meanCode recovers the exact fraction (in units of the column's code) behind a float64 mean:
// the best rational approximation with a denominator <= maxDen, accepted only if dividing it
// out in float64 gives the same bits.
func meanCode(col string, x interface{}, maxDen int64) string {
	f, ok := x.(float64)
	if !ok {
		return fmt.Sprintf("!type %T", x)
	}
	scale := int64(1)
	if col == "ff" {
		scale = 8
	}
	r := new(big.Rat)
	if r.SetFloat64(f) == nil {
		return "!nonfinite"
	}
	best := limitDen(r, maxDen*scale)
	num, den := best.Num().Int64(), best.Denom().Int64()
	if float64(num)/float64(den) != f {
		return fmt.Sprintf("!bits %016x", math.Float64bits(f))
	}
	return ratText(num*scale, den)
}

// limitDen is Python's Fraction.limit_denominator.
func limitDen(r *big.Rat, maxDen int64) *big.Rat {
	if r.Denom().Cmp(big.NewInt(maxDen)) <= 0 {
		return r
	}
	p0, q0, p1, q1 := big.NewInt(0), big.NewInt(1), big.NewInt(1), big.NewInt(0)
	n, d := new(big.Int).Set(r.Num()), new(big.Int).Set(r.Denom())
	md := big.NewInt(maxDen)
	for {
		a := new(big.Int)
		m := new(big.Int)
		a.DivMod(n, d, m)
		q2 := new(big.Int).Add(q0, new(big.Int).Mul(a, q1))
		if q2.Cmp(md) > 0 {
			break
		}
		p2 := new(big.Int).Add(p0, new(big.Int).Mul(a, p1))
		p0, q0, p1, q1 = p1, q1, p2, q2
		n, d = d, m
		if d.Sign() == 0 {
			break
		}
	}
	k := new(big.Int).Div(new(big.Int).Sub(md, q0), q1)
	b1 := new(big.Rat).SetFrac(new(big.Int).Add(p0, new(big.Int).Mul(k, p1)), new(big.Int).Add(q0, new(big.Int).Mul(k, q1)))
	b2 := new(big.Rat).SetFrac(p1, q1)
	d1 := new(big.Rat).Sub(b1, r)
	d2 := new(big.Rat).Sub(b2, r)
	if d2.Abs(d2).Cmp(d1.Abs(d1)) <= 0 {
		return b2
	}
	return b1
}

// implAnswer canonicalises what the sender emitted: consecutive parts of one series are joined
// (a chunked response delivers a series in several parts).
func implAnswer(q query, parts []engine.VerifPart, err error, maxDen int64) answer {
	if err != nil {
		return answer{err: strings.SplitN(err.Error(), "\n", 2)[0]}
	}
	var a answer
	ncol := len(q.cols)
	if q.agg {
		ncol = len(q.calls)
	}
	for _, p := range parts {
		tag := "-"
		if q.grp != "-" {
			tag = p.Tags[q.grp]
		}
		if len(p.Columns) != ncol+1 {
			a.flags += " !columns"
			continue
		}
		var g *ansGroup
		if n := len(a.groups); n > 0 && a.groups[n-1].tag == tag {
			g = &a.groups[n-1]
		} else {
			for _, og := range a.groups {
				if og.tag == tag {
					a.flags += " !group-twice"
				}
			}
			a.groups = append(a.groups, ansGroup{tag: tag})
			g = &a.groups[len(a.groups)-1]
		}
		for _, vals := range p.Values {
			tm, _ := vals[0].(interface{ UnixNano() int64 })
			var ns int64
			if tm != nil {
				ns = tm.UnixNano()
			}
			row := ansRow{t: relTime(ns)}
			for i := 0; i < ncol; i++ {
				x := vals[i+1]
				var col, f string
				if q.agg {
					col, f = q.calls[i].col, q.calls[i].f
				} else {
					col = q.cols[i]
				}
				switch {
				case x == nil:
					row.vals = append(row.vals, "_")
				case f == "count":
					if n, ok := x.(int64); ok {
						row.vals = append(row.vals, strconv.FormatInt(n, 10))
					} else {
						row.vals = append(row.vals, fmt.Sprintf("!type %T", x))
					}
				case f == "mean":
					row.vals = append(row.vals, meanCode(col, x, maxDen))
				default:
					if v, ok := valueToCode(col, x); ok {
						row.vals = append(row.vals, strconv.FormatInt(v, 10))
					} else {
						row.vals = append(row.vals, fmt.Sprintf("!value %v", x))
					}
				}
			}
			g.rows = append(g.rows, row)
		}
	}
	return a
}

// ---------------------------------------------------------------------------------------------
// reference evaluation in Go (the same function as OG.C08.eval; the Lean side is the model,
// this copy lets the harness report a failing input by itself)

func groupOf(grp string, s int) string {
	switch grp {
	case "host":
		return fmt.Sprintf("h%d", s)
	case "zone":
		return fmt.Sprintf("z%d", s%2)
	}
	return "-"
}

func window(t int, w int) int { // bucket start (relative seconds) of relative second t
	abs := baseSec + int64(t)
	st := abs - ((abs%int64(w))+int64(w))%int64(w)
	return int(st - baseSec)
}

func (q query) keepRow(r *drow) bool {
	if q.hasLo && r.t < q.lo {
		return false
	}
	if q.hasHi && r.t > q.hi {
		return false
	}
	if q.tagKey != "" {
		eq := groupOf(q.tagKey, r.s) == q.tagVal
		if (q.tagOp == "=") != eq {
			return false
		}
	}
	if q.fcol != "" {
		c := r.cs[colIdx(q.fcol)]
		if !c.ok {
			return false
		}
		switch q.fop {
		case ">":
			return c.v > q.fconst
		case "<=":
			return c.v <= q.fconst
		case "=":
			return c.v == q.fconst
		}
	}
	return true
}

// cmpCells orders two cells of one column the way the sorted merge does: null first, then by value.
func cmpCells(a, b cell) int {
	switch {
	case !a.ok && !b.ok:
		return 0
	case !a.ok:
		return -1
	case !b.ok:
		return 1
	case a.v < b.v:
		return -1
	case a.v > b.v:
		return 1
	}
	return 0
}

type point struct {
	t int
	v int64
}

// applyCall evaluates one call over the non-null points of a bucket (in any order).
// returns (text, null, time of the selected point).
func applyCall(f, col string, pts []point) (string, bool, int) {
	if len(pts) == 0 {
		return "_", true, 0
	}
	switch f {
	case "count":
		return strconv.Itoa(len(pts)), false, 0
	case "sum", "mean":
		var s int64
		for _, p := range pts {
			s += p.v
		}
		if f == "sum" {
			return strconv.FormatInt(s, 10), false, 0
		}
		return ratText(s, int64(len(pts))), false, 0
	}
	best := pts[0]
	for _, p := range pts[1:] {
		var better bool
		switch f {
		case "min":
			better = p.v < best.v || (p.v == best.v && p.t < best.t)
		case "max":
			better = p.v > best.v || (p.v == best.v && p.t < best.t)
		case "first":
			if col == "fb" {
				better = p.t < best.t || (p.t == best.t && p.v < best.v)
			} else {
				better = p.t < best.t || (p.t == best.t && p.v > best.v)
			}
		case "last":
			better = p.t > best.t || (p.t == best.t && p.v > best.v)
		}
		if better {
			best = p
		}
	}
	if f == "first" && col == "fb" {
		// the executor keeps false among the values of the first timestamp, the tag-set cursor
		// and the statistics shortcut keep true (finding first-bool-ties): where both occur the
		// answer depends on the path, the cell is printed as ~
		for _, p := range pts {
			if p.t == best.t && p.v != best.v {
				return "~", false, best.t
			}
		}
	}
	return strconv.FormatInt(best.v, 10), false, best.t
}

// fullGroups evaluates the statement without limit / offset: groups in output order, rows in
// output order.
func fullGroups(q query, d *dataset) []ansGroup {
	byGroup := map[string][]*drow{}
	for _, r := range d.rows() {
		if !q.keepRow(r) {
			continue
		}
		g := groupOf(q.grp, r.s)
		byGroup[g] = append(byGroup[g], r)
	}
	var tags []string
	for g := range byGroup {
		tags = append(tags, g)
	}
	sort.Slice(tags, func(a, b int) bool { // h2 < h10
		if len(tags[a]) != len(tags[b]) {
			return len(tags[a]) < len(tags[b])
		}
		return tags[a] < tags[b]
	})
	if !q.asc {
		for i, j := 0, len(tags)-1; i < j; i, j = i+1, j-1 {
			tags[i], tags[j] = tags[j], tags[i]
		}
	}
	var out []ansGroup
	for _, g := range tags {
		var rows []ansRow
		if !q.agg {
			rows = q.evalSel(byGroup[g])
		} else {
			rows = q.evalAgg(byGroup[g])
		}
		out = append(out, ansGroup{tag: g, rows: rows})
	}
	return out
}

// cutTimes: timestamps whose rows straddle a boundary of the limit / offset window.
func (q query) cutTimes(rows []ansRow) map[string]bool {
	cut := map[string]bool{}
	if q.agg {
		return cut
	}
	at := func(p int) {
		if p > 0 && p < len(rows) && rows[p-1].t == rows[p].t {
			cut[rows[p].t] = true
		}
	}
	at(q.offset)
	if q.limit > 0 {
		at(q.offset + q.limit)
	}
	return cut
}

func (q query) window(rows []ansRow) []ansRow {
	if q.offset > 0 {
		if q.offset >= len(rows) {
			return nil
		}
		rows = rows[q.offset:]
	}
	if q.limit > 0 && len(rows) > q.limit {
		rows = rows[:q.limit]
	}
	return rows
}

// oracle: the canonical reference answer (rows of a cut timestamp printed as t:~).
func oracle(q query, d *dataset) answer {
	var a answer
	for _, g := range fullGroups(q, d) {
		cut := q.cutTimes(g.rows)
		out := q.window(g.rows)
		if len(out) == 0 {
			continue
		}
		var rs []ansRow
		for _, r := range out {
			if cut[r.t] {
				rs = append(rs, ansRow{t: r.t, vals: []string{"~"}})
			} else {
				rs = append(rs, r)
			}
		}
		a.groups = append(a.groups, ansGroup{tag: g.tag, rows: rs})
	}
	return a
}

// canonImpl brings an implementation answer into the canonical form: rows of a selection that
// share a timestamp are put into the model's order, rows of a cut timestamp are printed as t:~.
// tiesMoved reports whether the order inside a timestamp had to be changed.
func canonImpl(q query, d *dataset, a answer) (out answer, tiesMoved bool) {
	if a.err != "" {
		return a, false
	}
	if q.agg && q.hasBoolFirst() {
		ref := map[string]map[string][]string{}
		for _, g := range fullGroups(q, d) {
			m := map[string][]string{}
			for _, r := range g.rows {
				m[r.t] = r.vals
			}
			ref[g.tag] = m
		}
		out = answer{flags: a.flags}
		for _, g := range a.groups {
			ng := ansGroup{tag: g.tag}
			for _, r := range g.rows {
				nr := ansRow{t: r.t, vals: append([]string(nil), r.vals...)}
				if rv, ok := ref[g.tag][r.t]; ok && len(rv) == len(nr.vals) {
					for j := range nr.vals {
						if rv[j] == "~" {
							nr.vals[j] = "~"
						}
					}
				}
				ng.rows = append(ng.rows, nr)
			}
			out.groups = append(out.groups, ng)
		}
		return out, false
	}
	if q.agg {
		if q.interval != 0 || len(q.calls) != 1 || (q.calls[0].f != "min" && q.calls[0].f != "max") {
			return a, false
		}
		byGroup := map[string][]*drow{}
		for _, r := range d.rows() {
			if q.keepRow(r) {
				g := groupOf(q.grp, r.s)
				byGroup[g] = append(byGroup[g], r)
			}
		}
		out = answer{flags: a.flags}
		for _, g := range a.groups {
			rows := append([]ansRow(nil), g.rows...)
			if q.loneExtremeTie(byGroup[g.tag]) {
				for i := range rows {
					rows[i].t = "~"
				}
			}
			out.groups = append(out.groups, ansGroup{tag: g.tag, rows: rows})
		}
		return out, false
	}
	full := map[string][]ansRow{}
	for _, g := range fullGroups(q, d) {
		full[g.tag] = g.rows
	}
	out = answer{flags: a.flags}
	for _, g := range a.groups {
		cut := q.cutTimes(full[g.tag])
		rows := append([]ansRow(nil), g.rows...)
		for i := 0; i < len(rows); {
			j := i
			for j < len(rows) && rows[j].t == rows[i].t {
				j++
			}
			if j-i > 1 {
				seg := rows[i:j]
				before := fmt.Sprint(seg)
				sort.SliceStable(seg, func(x, y int) bool { return q.rowLess(seg[x], seg[y]) })
				if fmt.Sprint(seg) != before {
					tiesMoved = true
				}
			}
			i = j
		}
		for i := range rows {
			if cut[rows[i].t] {
				rows[i] = ansRow{t: rows[i].t, vals: []string{"~"}}
			}
		}
		out.groups = append(out.groups, ansGroup{tag: g.tag, rows: rows})
	}
	return out, tiesMoved
}

// rowLess orders two answer rows of one timestamp like the model: selected columns in name
// order, null first, by value; reversed for a descending statement.
func (q query) rowLess(a, b ansRow) bool {
	type kv struct {
		name string
		i    int
	}
	var ks []kv
	for i, c := range q.cols {
		ks = append(ks, kv{c, i})
	}
	sort.Slice(ks, func(x, y int) bool { return ks[x].name < ks[y].name })
	cmp := 0
	for _, k := range ks {
		x, y := a.vals[k.i], b.vals[k.i]
		if x == y {
			continue
		}
		switch {
		case x == "_":
			cmp = -1
		case y == "_":
			cmp = 1
		default:
			xi, _ := strconv.ParseInt(x, 10, 64)
			yi, _ := strconv.ParseInt(y, 10, 64)
			if xi < yi {
				cmp = -1
			} else {
				cmp = 1
			}
		}
		break
	}
	if q.asc {
		return cmp < 0
	}
	return cmp > 0
}

// evalSel: rows of one group in the statement's order.
func (q query) evalSel(rows []*drow) []ansRow {
	idx := make([]int, len(q.cols))
	for i, c := range q.cols {
		idx[i] = colIdx(c)
	}
	var kept []*drow
	for _, r := range rows {
		any := false
		for _, ci := range idx {
			if r.cs[ci].ok {
				any = true
			}
		}
		if any || q.fcol != "" {
			kept = append(kept, r)
		}
	}
	// order: time, then the selected columns by name (null first, then value)
	sorted := append([]int(nil), idx...)
	sort.Ints(sorted) // cols are in name order
	sort.SliceStable(kept, func(a, b int) bool {
		x, y := kept[a], kept[b]
		if !q.asc {
			x, y = y, x
		}
		if x.t != y.t {
			return x.t < y.t
		}
		for _, ci := range sorted {
			if c := cmpCells(x.cs[ci], y.cs[ci]); c != 0 {
				return c < 0
			}
		}
		return false
	})
	var out []ansRow
	for _, r := range kept {
		row := ansRow{t: strconv.Itoa(r.t)}
		for _, ci := range idx {
			row.vals = append(row.vals, r.cs[ci].String())
		}
		out = append(out, row)
	}
	return out
}

// evalAgg: buckets of one group in the statement's order.
func (q query) evalAgg(rows []*drow) []ansRow {
	if len(rows) == 0 {
		return nil
	}
	lone := len(q.calls) == 1 && isSelector(q.calls[0].f)
	eval := func(rs []*drow) ([]string, []bool, int) {
		vals := make([]string, len(q.calls))
		nulls := make([]bool, len(q.calls))
		at := 0
		for i, cl := range q.calls {
			ci := colIdx(cl.col)
			var pts []point
			for _, r := range rs {
				if r.cs[ci].ok {
					pts = append(pts, point{r.t, r.cs[ci].v})
				}
			}
			vals[i], nulls[i], at = applyCall(cl.f, cl.col, pts)
		}
		return vals, nulls, at
	}
	if q.interval == 0 {
		vals, nulls, at := eval(rows)
		all := true
		for _, n := range nulls {
			if !n {
				all = false
			}
		}
		if all {
			return nil
		}
		t := "E"
		if lone {
			t = strconv.Itoa(at)
			if q.loneExtremeTie(rows) {
				t = "~"
			}
		} else if q.hasLo {
			t = strconv.Itoa(q.lo)
		}
		return []ansRow{{t: t, vals: vals}}
	}
	// a group none of whose calls has a value anywhere in range is not returned
	if _, nulls, _ := eval(rows); allTrue(nulls) {
		return nil
	}
	w := q.interval
	var out []ansRow
	prev := make([]string, len(q.calls))
	for i := range prev {
		prev[i] = "_"
	}
	var starts []int
	for b := window(q.lo, w); b <= q.hi; b += w {
		starts = append(starts, b)
	}
	if !q.asc {
		for i, j := 0, len(starts)-1; i < j; i, j = i+1, j-1 {
			starts[i], starts[j] = starts[j], starts[i]
		}
	}
	for _, b := range starts {
		var rs []*drow
		for _, r := range rows {
			if r.t >= b && r.t < b+w {
				rs = append(rs, r)
			}
		}
		vals, nulls, _ := eval(rs)
		all := true
		for _, n := range nulls {
			if !n {
				all = false
			}
		}
		switch q.fill {
		case "none":
			if all {
				continue
			}
		case "null":
			for i, cl := range q.calls {
				if nulls[i] && cl.f == "count" {
					vals[i] = "0"
				}
			}
		case "linear":
		case "previous":
			for i := range vals {
				if nulls[i] {
					vals[i] = prev[i]
				}
			}
		default:
			k, _ := strconv.Atoi(q.fill)
			for i, cl := range q.calls {
				if nulls[i] {
					vals[i] = fillNumber(cl, int64(k))
				}
			}
		}
		copy(prev, vals)
		out = append(out, ansRow{t: strconv.Itoa(b), vals: vals})
	}
	return out
}

// fillNumber: the text of fill(k) in a column of call cl.
func fillNumber(cl call, k int64) string {
	switch {
	case cl.f == "count":
		return strconv.FormatInt(k, 10)
	case cl.f == "mean":
		scale := int64(1)
		if cl.col == "ff" {
			scale = 8
		}
		return ratText(k*scale, 1)
	case cl.col == "ff":
		return strconv.FormatInt(k*8, 10)
	case cl.col == "fi":
		return strconv.FormatInt(k, 10)
	}
	return "_"
}

func allTrue(bs []bool) bool {
	for _, b := range bs {
		if !b {
			return false
		}
	}
	return true
}

// loneExtremeTie: a statement with a single min / max call and no buckets reports the time of
// the selected point; when the extreme value occurs at several times the language does not say
// which one.
func (q query) loneExtremeTie(rows []*drow) bool {
	if !q.agg || q.interval != 0 || len(q.calls) != 1 || (q.calls[0].f != "min" && q.calls[0].f != "max") {
		return false
	}
	ci := colIdx(q.calls[0].col)
	var pts []point
	for _, r := range rows {
		if r.cs[ci].ok {
			pts = append(pts, point{r.t, r.cs[ci].v})
		}
	}
	if len(pts) == 0 {
		return false
	}
	v, _, _ := applyCall(q.calls[0].f, q.calls[0].col, pts)
	n := 0
	for _, p := range pts {
		if strconv.FormatInt(p.v, 10) == v {
			n++
		}
	}
	return n > 1
}


func (q query) hasBoolFirst() bool {
	if !q.agg {
		return false
	}
	for _, c := range q.calls {
		if c.f == "first" && c.col == "fb" {
			return true
		}
	}
	return false
}

// loneExtreme: a single min / max call without buckets (the answer carries the time of the point).
func (q query) loneExtreme() bool {
	return q.agg && q.interval == 0 && len(q.calls) == 1 && (q.calls[0].f == "min" || q.calls[0].f == "max")
}
