// Package c02: correspondence harness for C02 (reads equal a last-write-wins replay of the
// acknowledged writes, in any layout). Random histories of write batches over a small universe
// of series x timestamps x typed fields (partial-field rows, late data, repeated timestamps in
// one batch) interleaved with flush, level/full compaction, out-of-order merge and clean
// reopen run on a real shard (engine verif facade). After every step the shard is read through
// the series-cursor path, ascending and descending, on a random time range and field subset.
//
//	ops.txt   : the history, for the Lean model of the layout
//	impl.out  : what the shard answered
//	viol.out  : answers that differ from the Go-side last-write-wins map (the property itself)
package c02

import (
	"fmt"
	"math"
	"os"
	"sort"
	"strings"
	"time"

	"github.com/openGemini/openGemini/engine"

	"verif/harness/engx"
	"verif/harness/internal/hx"
)

func init() { hx.Register("C02", Run) }

const nSeries, nTimes = 3, 8

// spec: last-write-wins map
type key struct{ s, t int }
type lww map[key]map[string]string

func (m lww) apply(rows []engx.Row) {
	for _, r := range rows {
		k := key{r.Series, r.T}
		if m[k] == nil {
			m[k] = map[string]string{}
		}
		for f, v := range r.Fields {
			m[k][f] = v
		}
	}
}

// read renders the expected answer in the harness' canonical row format.
func (m lww) read(fields []string, lo, hi int, asc bool) string {
	return m.readK(fields, lo, hi, asc, 0)
}

// readK: at most k rows per series (k <= 0: all), the first ones in the direction of the read.
func (m lww) readK(fields []string, lo, hi int, asc bool, kmax int) string {
	var ks []key
	for k, fm := range m {
		if k.t < lo || k.t > hi {
			continue
		}
		any := false
		for _, f := range fields {
			if _, ok := fm[f]; ok {
				any = true
			}
		}
		if any {
			ks = append(ks, k)
		}
	}
	sort.Slice(ks, func(a, b int) bool {
		if ks[a].s != ks[b].s {
			return ks[a].s < ks[b].s
		}
		if asc {
			return ks[a].t < ks[b].t
		}
		return ks[a].t > ks[b].t
	})
	var cells []string
	perSeries := map[int]int{}
	for _, k := range ks {
		perSeries[k.s]++
		if kmax > 0 && perSeries[k.s] > kmax {
			continue
		}
		var vs []string
		for _, f := range fields {
			if v, ok := m[k][f]; ok {
				vs = append(vs, v)
			} else {
				vs = append(vs, "_")
			}
		}
		cells = append(cells, fmt.Sprintf("%d:%d:%s", k.s, k.t, strings.Join(vs, ",")))
	}
	return "rows " + strings.Join(cells, "|")
}

func genVal(r *hx.Rng, f string) string {
	switch f {
	case "fi":
		return fmt.Sprint(int64(r.Intn(200)) - 100)
	case "ff":
		return fmt.Sprintf("%016x", math.Float64bits(float64(r.Intn(40))/4-3))
	case "fb":
		return fmt.Sprint(r.Intn(2))
	}
	return fmt.Sprintf("s%d", r.Intn(30))
}

// sparsePct: in a third of the histories two of the four columns are very sparse (a value in ~6 %
// of the rows): most segments of such a column hold nothing but nulls.
func genBatch(r *hx.Rng, maxRows int, late bool, hiWater int, sparse bool) []engx.Row {
	n := 1 + r.Intn(maxRows)
	var rows []engx.Row
	for i := 0; i < n; i++ {
		row := engx.Row{Mst: "m", Series: r.Intn(nSeries), Fields: map[string]string{}}
		if late || r.Chance(35) {
			row.T = r.Intn(nTimes)
		} else {
			// mostly advancing time
			row.T = hiWater + r.Intn(2)
			if row.T >= nTimes {
				row.T = nTimes - 1
			}
		}
		if i > 0 && r.Chance(20) { // repeated timestamp inside one batch
			row.Series, row.T = rows[i-1].Series, rows[i-1].T
		}
		for _, f := range engx.FieldNames {
			pct := 45
			if sparse && (f == "ff" || f == "fs") {
				pct = 6
			}
			if r.Chance(pct) {
				row.Fields[f] = genVal(r, f)
			}
		}
		if len(row.Fields) == 0 {
			f := engx.FieldNames[r.Intn(len(engx.FieldNames))]
			if sparse {
				f = []string{"fb", "fi"}[r.Intn(2)]
			}
			row.Fields[f] = genVal(r, f)
		}
		rows = append(rows, row)
	}
	return rows
}

// unmergedDuplicates: the answer is the expected one except that some (series,time) comes back as
// two or more rows which, laid over each other, give the expected row (every expected value occurs
// in one of them, none of them holds anything else): rows of one timestamp that the read did not
// merge because they sit in two *ordered* files (the read concatenates ordered files).
func unmergedDuplicates(ans, want string) bool {
	if !strings.HasPrefix(ans, "rows ") || !strings.HasPrefix(want, "rows ") || strings.Contains(ans, "!split") {
		return false
	}
	type rk struct{ s, t string }
	parse := func(x string) (map[rk][][]string, bool) {
		m := map[rk][][]string{}
		body := strings.TrimPrefix(x, "rows ")
		if body == "" {
			return m, true
		}
		for _, c := range strings.Split(body, "|") {
			f := strings.SplitN(c, ":", 3)
			if len(f) != 3 {
				return nil, false
			}
			k := rk{f[0], f[1]}
			m[k] = append(m[k], strings.Split(f[2], ","))
		}
		return m, true
	}
	a, ok1 := parse(ans)
	w, ok2 := parse(want)
	if !ok1 || !ok2 || len(a) != len(w) {
		return false
	}
	dup := false
	for k, wr := range w {
		ar, ok := a[k]
		if !ok || len(wr) != 1 {
			return false
		}
		if len(ar) > 1 {
			dup = true
		}
		for i, v := range wr[0] {
			found := false
			for _, r := range ar {
				if i >= len(r) {
					return false
				}
				if r[i] == v {
					found = true
				} else if r[i] != "_" && len(ar) == 1 {
					return false
				}
			}
			if !found {
				return false
			}
		}
	}
	return dup
}

type walRec struct {
	part int
	rows []engx.Row
}

// roundRobin is the order in which a reopen replays the records that were written since the
// last flush: one record from each non-empty partition in turn, starting at partition 0
// (engine/wal.go consumeRecordSerial). With more than one partition this is the write order
// only if the first surviving record sits in partition 0.
func roundRobin(n int, recs []walRec) []walRec {
	q := make([][]walRec, n)
	for _, r := range recs {
		q[r.part] = append(q[r.part], r)
	}
	var out []walRec
	for len(out) < len(recs) {
		for p := 0; p < n; p++ {
			if len(q[p]) > 0 {
				out = append(out, q[p][0])
				q[p] = q[p][1:]
			}
		}
	}
	return out
}

func (m lww) clone() lww {
	c := lww{}
	for k, fm := range m {
		c[k] = map[string]string{}
		for f, v := range fm {
			c[k][f] = v
		}
	}
	return c
}

type history struct {
	base     lww // what the files hold, in the order the engine applied it
	wal      []walRec
	ctr      int
	nParts   int
	c        *hx.Ctx
	sh       *engine.VerifShard
	dir      string
	spec     lww
	steps    int
	overlap  bool // some key lives in two containers / partial overwrite happened
	flushed  map[key]bool
	inMem    map[key]bool
	opsKinds map[string]int
	reopened bool // the history had a clean restart
}

func (h *history) readCheck(r *hx.Rng, tag string) error {
	// full read both directions, then one random range / field subset
	type q struct {
		fields        []string
		lo, hi        int
		asc           bool
		limit, offset int
	}
	qs := []q{{engx.FieldNames, 0, nTimes - 1, true, 0, 0}, {engx.FieldNames, 0, nTimes - 1, false, 0, 0}}
	var fs []string
	for _, f := range engx.FieldNames {
		if r.Bool() {
			fs = append(fs, f)
		}
	}
	if len(fs) == 0 {
		fs = []string{"fi"}
	}
	lo := r.Intn(nTimes)
	hi := lo + r.Intn(nTimes-lo)
	qs = append(qs, q{fs, lo, hi, r.Bool(), 0, 0})
	// LIMIT / OFFSET pushed into the series cursors (engine/limit_cursor.go): every series stops after
	// limit+offset rows, the first ones in the direction of the read
	lfs := fs
	if r.Bool() {
		lfs = engx.FieldNames
	}
	llo := r.Intn(nTimes)
	lhi := llo + r.Intn(nTimes-llo)
	if r.Chance(40) {
		llo, lhi = 0, nTimes-1
	}
	lq := q{lfs, llo, lhi, r.Bool(), 1 + r.Intn(3), r.Intn(2)}
	if h.c.Arg("limit", "on") != "off" { // -D limit=off: diagnosis only
		qs = append(qs, lq)
	}
	h.sh.FlushIndex()
	for _, x := range qs {
		var vf []engine.VerifField
		for _, f := range x.fields {
			vf = append(vf, engine.VerifField{Name: f, Type: engx.QLTypes[f]})
		}
		var rows []engine.VerifRow
		var err error
		perr := hx.Safe(func() {
			if x.limit+x.offset > 0 {
				rows, err = h.sh.DumpLimit("m", vf, engx.TimeOf(x.lo), engx.TimeOf(x.hi), x.asc, x.limit, x.offset)
			} else {
				rows, err = h.sh.Dump("m", vf, engx.TimeOf(x.lo), engx.TimeOf(x.hi), x.asc)
			}
		})
		ans := ""
		switch {
		case perr != "":
			ans = "err " + perr
		case err != nil:
			ans = "err " + strings.SplitN(err.Error(), "\n", 2)[0]
		default:
			ans = engx.DumpText(rows)
		}
		dir := "asc"
		if !x.asc {
			dir = "desc"
		}
		op := fmt.Sprintf("read %s %d %d %s", dir, x.lo, x.hi, strings.Join(x.fields, ","))
		if x.limit+x.offset > 0 {
			op = fmt.Sprintf("readlim %s %d %d %s %d", dir, x.lo, x.hi, strings.Join(x.fields, ","), x.limit+x.offset)
			h.c.Count("read:with-limit")
		}
		line := h.c.Emit(op, ans)
		want := h.spec.readK(x.fields, x.lo, x.hi, x.asc, x.limit+x.offset)
		if ans != want {
			class := ""
			pred := h.base.clone()
			for _, w := range h.wal {
				pred.apply(w.rows)
			}
			if ans == pred.readK(x.fields, x.lo, x.hi, x.asc, x.limit+x.offset) {
				class = "wal_replay_order_mod_n"
			}
			if unmergedDuplicates(ans, want) {
				// the signature of overlapping ordered files (fixed in /repo: sequencer reload vs. compaction)
				h.c.Count("violation:one-(series,time)-answered-as-two-rows")
			}
			h.c.Violation(line, class, fmt.Sprintf("after %s: shard answered %q, last-write-wins replay says %q", tag, ans, want))
		}
	}
	return nil
}

// trace prints the history as it runs (C02_TRACE=1): a panic in one of the shard's own goroutines
// (compaction, merge) ends the process before ops.txt is written out.
func trace(format string, a ...any) {
	if os.Getenv("C02_TRACE") != "" {
		fmt.Fprintf(os.Stderr, "TRACE "+format+"\n", a...)
	}
}

func runHistory(c *hx.Ctx, r *hx.Rng, idx int, maxOps int, script []int) error {
	dir := engx.FastScratchDir("c02")
	defer os.RemoveAll(dir)
	walParts := []int{1, 2, 4}[r.Intn(3)]
	// rows per segment of the data files written by this history: the default (1000: one segment per
	// chunk) or 2 / 3 (a chunk of a series is cut into up to four segments, so time ranges and
	// field subsets of the reads cut through segments as well as through chunks and files)
	seg := []int{0, 0, 2, 3}[r.Intn(4)]
	engine.VerifSetMaxRowsPerSegment(seg)
	defer engine.VerifSetMaxRowsPerSegment(0)
	c.Count(fmt.Sprintf("rows-per-segment=%d", seg))
	sparse := r.Chance(33)
	if sparse {
		c.Count("history:sparse-columns")
	}
	trace("history %d parts=%d rows-per-segment=%d", idx, walParts, seg)
	sh, err := engine.VerifOpenShard(dir, walParts)
	if err != nil {
		return err
	}
	sh.DetachFromCompactor()
	h := &history{c: c, sh: sh, dir: dir, spec: lww{}, base: lww{}, nParts: walParts, flushed: map[key]bool{}, inMem: map[key]bool{}, opsKinds: map[string]int{}}
	c.Emit(fmt.Sprintf("open %d", idx), "ok")
	c.Emit(fmt.Sprintf("parts %d", walParts), "ok")
	c.Count(fmt.Sprintf("wal-partitions=%d", walParts))
	nOps := 3 + r.Intn(maxOps)
	if len(script) > 0 {
		// a scripted history ends with its script: were the flush to leave overlapping ordered files, a
		// later compaction would panic ("the time column is not ordered") and take the harness, and the
		// failing reads with it
		nOps = len(script)
		c.Count("history:scripted-start(restart,write,compaction,late-write,flush)")
	}
	hiWater := 0
	kinds := ""
	for i := 0; i < nOps; i++ {
		p := r.Intn(100)
		if i < len(script) {
			p = script[i] // the op kind is given, its content is random
			if i == len(script)-1 {
				// -D pause=<ms>: used with a build overlay that delays the sequencer's file loads, to let the
				// delayed reload finish before the flush (the forced schedule of the sequencer finding)
				ms := 0
				if os.Getenv("VERIF_OVERLAY") != "" {
					ms = 400 // sensitivity runs: a mutant that slows the reload down gets the time to finish it
				}
				fmt.Sscan(c.Arg("pause", fmt.Sprint(ms)), &ms)
				time.Sleep(time.Duration(ms) * time.Millisecond)
			}
		}
		switch {
		case p < 55:
			maxRows := 6
			burst := r.Chance(12)
			if burst {
				// a burst: 14..30 rows, mostly of one series, all over the time range: more than 12 unsorted rows
				// with repeated timestamps in one memtable chunk / one flush
				maxRows = 30
			}
			rows := genBatch(r, maxRows, r.Chance(25) || burst, hiWater, sparse)
			if burst {
				for len(rows) < 14 {
					rows = append(rows, genBatch(r, 6, true, hiWater, sparse)...)
				}
				one := r.Intn(nSeries)
				for i := range rows {
					if r.Chance(80) {
						rows[i].Series = one
					}
				}
				c.Count("op:write-burst>12rows-of-a-series")
			}
			var ts []string
			for _, x := range rows {
				ts = append(ts, x.Text())
				if x.T > hiWater {
					hiWater = x.T
				}
				k := key{x.Series, x.T}
				if h.flushed[k] || h.inMem[k] {
					h.overlap = true
				}
				h.inMem[k] = true
			}
			var werr error
			trace("write %s", strings.Join(ts, ";"))
			perr := hx.Safe(func() { werr = h.sh.Write(engx.ToInflux(rows)) })
			ans := "ack"
			if perr != "" {
				ans = "err " + perr
			} else if werr != nil {
				ans = "err " + werr.Error()
			} else {
				h.spec.apply(rows)
				h.wal = append(h.wal, walRec{h.ctr % h.nParts, rows})
				h.ctr++
			}
			line := c.Emit("write "+strings.Join(ts, ";"), ans)
			if ans != "ack" {
				c.Violation(line, "", "a valid write batch was rejected: "+ans)
			}
			kinds += "w"
			c.Count("op:write")
		case p < 72:
			trace("flush")
			perr := hx.Safe(func() { h.sh.Flush() })
			for _, w := range h.wal {
				h.base.apply(w.rows)
			}
			h.wal, h.ctr = nil, 0 // the WAL counter restarts at a switch (repaired code)
			for k := range h.inMem {
				h.flushed[k] = true
			}
			h.inMem = map[key]bool{}
			c.Emit("flush", ansOf(perr, nil))
			kinds += "f"
			c.Count("op:flush")
		case p < 80:
			lv := uint16(r.Intn(2))
			trace("compact %d", lv)
			var e error
			perr := hx.Safe(func() { e = h.sh.LevelCompact(lv) })
			c.Emit(fmt.Sprintf("compact %d", lv), ansOf(perr, e))
			c.Count(fmt.Sprintf("files-after-level-compact=%d", min(len(h.sh.Files("m")), 6)))
			kinds += "c"
			c.Count("op:level-compact")
		case p < 85:
			trace("fullcompact")
			var e error
			perr := hx.Safe(func() { e = h.sh.FullCompact() })
			c.Emit("fullcompact", ansOf(perr, e))
			kinds += "C"
			c.Count("op:full-compact")
		case p < 93:
			var e error
			full, force := r.Bool(), r.Chance(60)
			trace("merge full=%v force=%v", full, force)
			perr := hx.Safe(func() { e = h.sh.MergeOutOfOrder(full, force) })
			c.Emit("merge", ansOf(perr, e))
			kinds += "m"
			c.Count("op:merge-ooo")
		default:
			// clean restart
			trace("reopen")
			var e error
			perr := hx.Safe(func() {
				e = h.sh.Close()
				if e == nil {
					var nsh *engine.VerifShard
					nsh, e = engine.VerifOpenShard(dir, walParts)
					if e == nil {
						nsh.DetachFromCompactor()
						h.sh = nsh
					}
				}
			})
			if len(h.wal) > 0 {
				c.Count("reopen-with-unflushed-data")
			}
			for _, w := range roundRobin(h.nParts, h.wal) {
				h.base.apply(w.rows)
			}
			h.wal, h.ctr = nil, 0
			h.reopened = true
			c.Emit("reopen", ansOf(perr, e))
			if perr != "" || e != nil {
				return fmt.Errorf("reopen failed: %s %v", perr, e)
			}
			kinds += "r"
			c.Count("op:reopen")
		}
		if err := h.readCheck(r, fmt.Sprintf("history %d op %d (%s)", idx, i, kinds)); err != nil {
			return err
		}
	}
	nOrd, nOoo := 0, 0
	for _, f := range h.sh.Files("m") {
		if f.Order {
			nOrd++
		} else {
			nOoo++
		}
	}
	c.Count(fmt.Sprintf("final-layout:ordered=%d", min(nOrd, 4)))
	c.Count(fmt.Sprintf("final-layout:ooo=%d", min(nOoo, 4)))
	c.Case(fmt.Sprintf("%d:%s", idx, kinds), h.overlap)
	if h.overlap {
		c.Sample(fmt.Sprintf("history %d ops=%s walParts=%d final files ordered=%d ooo=%d", idx, kinds, walParts, nOrd, nOoo))
	}
	return h.sh.Close()
}

func ansOf(perr string, e error) string {
	if perr != "" {
		return "err " + perr
	}
	if e != nil {
		return "err " + e.Error()
	}
	return "ok"
}

func Run(c *hx.Ctx) error {
	c.Stats.Rule = "random histories over 3 series x 8 timestamps x 4 typed fields (partial-field rows, late data, repeated timestamps in a batch; a third with two very sparse columns) interleaved with flush / level compaction / full compaction / out-of-order merge / clean reopen, 1000, 2 or 3 rows per segment; after every op four reads (asc, desc, random range+field subset, random range/fields with LIMIT/OFFSET pushed into the series cursors) are compared with the Lean layout model and with a Go last-write-wins map; plus record-level cases (Sort, MergeRecord asc/desc, the same merges against the model built from the translated decision functions) and memtable cases (rows of one series appended in a chosen order, never flushed, range reads in both directions); a history is non-trivial when some (series,time) was written again while an earlier version sat in memory or in a file; distinct by op-kind string"
	n := c.Budget(60, 1500)
	r := hx.NewRng(c.Seed)
	// -D from=<i> -D to=<j>: only the histories i..j of this seed and budget (replay of a failing history;
	// with C02_TRACE=1 the operations and their parameters are printed as they run)
	from, to := -1, -1
	fmt.Sscan(c.Arg("from", "-1"), &from)
	fmt.Sscan(c.Arg("to", "-1"), &to)
	rAlg, rMem := r.Fork(), r.Fork()
	if from < 0 {
		runRecAlg(c, rAlg, n*40)
		if err := runMemRead(c, rMem, n*6); err != nil {
			return err
		}
	}
	for i := 0; i < n; i++ {
		rh := r.Fork()
		if from >= 0 && (i < from || i > to) {
			continue
		}
		// every 8th history starts with the schedule behind the sequencer finding (fix in /repo: the
		// reload of the per-series last flushed times that the first write after a restart starts must
		// not lose the files a compaction replaces meanwhile): two flushed files, restart, write,
		// compaction right away, writes of late rows, flush
		var script []int
		if i%8 == 3 {
			comp := []int{75, 82, 90}[rh.Intn(3)] // level compaction / full compaction / out-of-order merge
			script = []int{0, 60, 0, 60, 95, 0, comp, 0, 0, 60}
		}
		if err := runHistory(c, rh, i, 22, script); err != nil {
			return err
		}
	}
	return nil
}
