package c02

// The memtable's own read path (engine/mutable: appendFields' firstAppendTime / lastAppendTime /
// timeAsd bookkeeping, getSortedRecSafe's skip test, sort only when needed, Copy with the time
// range). One real shard; every case uses a measurement of its own, appends the rows of one
// series in a random order (late rows, repeated timestamps, partial rows; several rows per batch
// or one by one), never flushes, and reads random time ranges in both directions through the
// normal cursor path. The Lean side answers `memread` lines with the model built from the
// decision functions translated from the source (OG/C02/MemRead.lean); the property itself is
// checked against a Go last-write-wins map restricted to the range.

import (
	"fmt"
	"os"
	"sort"
	"strings"

	"github.com/openGemini/openGemini/engine"

	"verif/harness/engx"
	"verif/harness/internal/hx"
)

func arowText(r engx.Row) string {
	var vs []string
	for _, f := range engx.FieldNames {
		if v, ok := r.Fields[f]; ok {
			vs = append(vs, v)
		} else {
			vs = append(vs, "_")
		}
	}
	return fmt.Sprintf("%d:%s", r.T, strings.Join(vs, ","))
}

// recOfDump turns "rows s:t:v,v|s:t:v,v" of a single series into "rec t:v,v;t:v,v".
func recOfDump(d string) string {
	if !strings.HasPrefix(d, "rows ") {
		return d
	}
	body := strings.TrimPrefix(d, "rows ")
	if body == "" {
		return "rec "
	}
	var out []string
	for _, c := range strings.Split(body, "|") {
		if i := strings.IndexByte(c, ':'); i >= 0 {
			out = append(out, c[i+1:])
		} else {
			out = append(out, c)
		}
	}
	return "rec " + strings.Join(out, ";")
}

// runMemRead: at most 6000 cases, a fresh shard every 1500 (the series index of one shard would
// otherwise hold tens of thousands of measurements in the thorough tier).
func runMemRead(c *hx.Ctx, r *hx.Rng, n int) error {
	if n > 6000 {
		n = 6000
	}
	for done := 0; done < n; done += 1500 {
		k := n - done
		if k > 1500 {
			k = 1500
		}
		if err := runMemReadShard(c, r, done, k); err != nil {
			return err
		}
	}
	return nil
}

func runMemReadShard(c *hx.Ctx, r *hx.Rng, first, n int) error {
	dir := engx.FastScratchDir("c02mem")
	defer os.RemoveAll(dir)
	sh, err := engine.VerifOpenShard(dir, 2)
	if err != nil {
		return err
	}
	defer sh.Close()
	sh.DetachFromCompactor()
	const span = 10
	for k := first; k < first+n; k++ {
		mst := fmt.Sprintf("q%05d", k)
		nRows := 1 + r.Intn(9)
		var rows []engx.Row
		shape := r.Intn(4) // 0: random order, 1: ascending with one late row, 2: strictly ascending, 3: descending
		if r.Chance(20) {
			// one chunk with more than 12 unsorted rows and repeated timestamps (the sort of the chunk must be stable)
			nRows, shape = 13+r.Intn(24), 0
			c.Count("memread:chunk>12rows")
		}
		for i := 0; i < nRows; i++ {
			row := engx.Row{Mst: mst, Series: 0, Fields: map[string]string{}}
			switch shape {
			case 0:
				row.T = r.Intn(span)
			case 1, 2:
				row.T = 2 + i
				if row.T >= span {
					row.T = span - 1
				}
			default:
				row.T = span - 1 - i
				if row.T < 0 {
					row.T = 0
				}
			}
			for _, f := range engx.FieldNames {
				if r.Chance(45) {
					row.Fields[f] = genVal(r, f)
				}
			}
			if len(row.Fields) == 0 {
				row.Fields["fi"] = genVal(r, "fi")
			}
			rows = append(rows, row)
		}
		if shape == 1 && nRows > 1 {
			rows[nRows-1].T = r.Intn(3) // the late row: older than the first appended time
		}
		// append: one by one or a few per batch
		spec := lww{}
		for i := 0; i < len(rows); {
			j := i + 1 + r.Intn(3)
			if j > len(rows) {
				j = len(rows)
			}
			var werr error
			perr := hx.Safe(func() { werr = sh.Write(engx.ToInflux(rows[i:j])) })
			if perr != "" || werr != nil {
				return fmt.Errorf("memread: write failed: %s %v", perr, werr)
			}
			spec.apply(rows[i:j])
			i = j
		}
		sh.FlushIndex()
		var ts []string
		for _, x := range rows {
			ts = append(ts, arowText(x))
		}
		late := false
		for i := 1; i < len(rows); i++ {
			if rows[i].T <= rows[i-1].T {
				late = true
			}
		}
		for q := 0; q < 3; q++ {
			lo := r.Intn(span+2) - 1
			hi := lo + r.Intn(span+1-lo)
			if q == 0 {
				// a range that ends right before / starts right after one of the appended times
				t := rows[r.Intn(len(rows))].T
				if r.Bool() {
					lo, hi = -1, t-r.Intn(2)
				} else {
					lo, hi = t+r.Intn(2), span
				}
			}
			asc := r.Bool()
			var out []engine.VerifRow
			var derr error
			perr := hx.Safe(func() { out, derr = sh.Dump(mst, engx.AllFields(), engx.TimeOf(lo), engx.TimeOf(hi), asc) })
			ans := ""
			switch {
			case perr != "":
				ans = "err " + strings.SplitN(perr, "\n", 2)[0]
			case derr != nil:
				ans = "err " + strings.SplitN(derr.Error(), "\n", 2)[0]
			default:
				ans = recOfDump(engx.DumpText(out))
			}
			d := "asc"
			if !asc {
				d = "desc"
			}
			line := c.Emit(fmt.Sprintf("memread %s %d %d %s", d, lo, hi, strings.Join(ts, ";")), ans)
			want := recOfDump(spec.read(engx.FieldNames, lo, hi, asc))
			if ans != want {
				c.Violation(line, "", fmt.Sprintf("memtable read of [%d,%d] %s after appending %s: shard answered %q, last-write-wins replay says %q", lo, hi, d, strings.Join(ts, ";"), ans, want))
			}
			c.Count("memread:" + map[bool]string{true: "late-or-repeated-times", false: "in-order"}[late])
			if ans == "rec " {
				c.Count("memread:empty-answer")
			}
		}
		c.Case(fmt.Sprintf("mem:%d:%s", shape, strings.Join(sortedTimes(rows), ".")), late)
	}
	return nil
}

func sortedTimes(rows []engx.Row) []string {
	var t []int
	for _, r := range rows {
		t = append(t, r.T)
	}
	sort.Ints(t)
	var out []string
	for _, x := range t {
		out = append(out, fmt.Sprint(x))
	}
	return out
}
