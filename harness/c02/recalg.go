package c02

// Record-level algebra behind the layout model: lib/record's stable sort + de-duplication of a
// memtable chunk (ColumnSortHelper.Sort) and the two-way merge of sorted records
// (Record.MergeRecord / MergeRecordDescend). The Lean model transcribes both at row level
// (OG/C02/RecAlg.lean) and proves that they represent the same lookup function as the raw
// precedence-ordered cell lists the layout theorems talk about.

import (
	"fmt"
	"math"
	"sort"
	"strconv"
	"strings"

	"github.com/openGemini/openGemini/lib/record"
	"github.com/openGemini/openGemini/lib/util/lifted/vm/protoparser/influx"

	"verif/harness/internal/hx"
)

type arow struct {
	t    int64
	vals [4]string // fb ff fi fs ; "_" = null
}

func recSchema() record.Schemas {
	return record.Schemas{
		{Name: "fb", Type: influx.Field_Type_Boolean},
		{Name: "ff", Type: influx.Field_Type_Float},
		{Name: "fi", Type: influx.Field_Type_Int},
		{Name: "fs", Type: influx.Field_Type_String},
		{Name: "time", Type: influx.Field_Type_Int},
	}
}

func buildRec(rows []arow) *record.Record {
	rec := record.NewRecord(recSchema(), false)
	for _, r := range rows {
		if r.vals[0] == "_" {
			rec.ColVals[0].AppendBooleanNull()
		} else {
			rec.ColVals[0].AppendBoolean(r.vals[0] == "1")
		}
		if r.vals[1] == "_" {
			rec.ColVals[1].AppendFloatNull()
		} else {
			b, _ := strconv.ParseUint(r.vals[1], 16, 64)
			rec.ColVals[1].AppendFloat(math.Float64frombits(b))
		}
		if r.vals[2] == "_" {
			rec.ColVals[2].AppendIntegerNull()
		} else {
			n, _ := strconv.ParseInt(r.vals[2], 10, 64)
			rec.ColVals[2].AppendInteger(n)
		}
		if r.vals[3] == "_" {
			rec.ColVals[3].AppendStringNull()
		} else {
			rec.ColVals[3].AppendString(r.vals[3])
		}
		rec.ColVals[4].AppendInteger(r.t)
	}
	return rec
}

func recText(rec *record.Record) string {
	var out []string
	times := rec.Times()
	for i := 0; i < rec.RowNums(); i++ {
		var vs []string
		for c := 0; c < 4; c++ {
			cv := &rec.ColVals[c]
			if cv.Len <= i || cv.IsNil(i) {
				vs = append(vs, "_")
				continue
			}
			switch c {
			case 0:
				v, _ := cv.BooleanValue(i)
				if v {
					vs = append(vs, "1")
				} else {
					vs = append(vs, "0")
				}
			case 1:
				v, _ := cv.FloatValue(i)
				vs = append(vs, fmt.Sprintf("%016x", math.Float64bits(v)))
			case 2:
				v, _ := cv.IntegerValue(i)
				vs = append(vs, strconv.FormatInt(v, 10))
			default:
				v, _ := cv.StringValueSafe(i)
				vs = append(vs, v)
			}
		}
		out = append(out, fmt.Sprintf("%d:%s", times[i], strings.Join(vs, ",")))
	}
	return "rec " + strings.Join(out, ";")
}

func rowsText(rows []arow) string {
	var out []string
	for _, r := range rows {
		out = append(out, fmt.Sprintf("%d:%s", r.t, strings.Join(r.vals[:], ",")))
	}
	return strings.Join(out, ";")
}

func genARow(r *hx.Rng, t int64) arow {
	row := arow{t: t}
	any := false
	for c := 0; c < 4; c++ {
		if r.Chance(55) {
			any = true
			switch c {
			case 0:
				row.vals[c] = fmt.Sprint(r.Intn(2))
			case 1:
				row.vals[c] = fmt.Sprintf("%016x", math.Float64bits(float64(r.Intn(32))/4))
			case 2:
				row.vals[c] = fmt.Sprint(r.Intn(500) - 250)
			default:
				row.vals[c] = fmt.Sprintf("s%d", r.Intn(40))
			}
		} else {
			row.vals[c] = "_"
		}
	}
	if !any {
		row.vals[2] = fmt.Sprint(r.Intn(500))
	}
	return row
}

// sorted strictly increasing (or decreasing) rows
func genSorted(r *hx.Rng, n int, lo int64, desc bool) []arow {
	seen := map[int64]bool{}
	var ts []int64
	for len(ts) < n {
		t := lo + int64(r.Intn(14))
		if !seen[t] {
			seen[t] = true
			ts = append(ts, t)
		}
	}
	sort.Slice(ts, func(a, b int) bool {
		if desc {
			return ts[a] > ts[b]
		}
		return ts[a] < ts[b]
	})
	var rows []arow
	for _, t := range ts {
		rows = append(rows, genARow(r, t))
	}
	return rows
}

// lookup-level spec of a precedence-ordered row list: (time, column) -> first non-null
func specCells(rowsInPrecedence []arow) map[int64][4]string {
	m := map[int64][4]string{}
	for _, row := range rowsInPrecedence {
		cur, ok := m[row.t]
		if !ok {
			cur = [4]string{"_", "_", "_", "_"}
		}
		for c := 0; c < 4; c++ {
			if cur[c] == "_" {
				cur[c] = row.vals[c]
			}
		}
		m[row.t] = cur
	}
	return m
}

func specText(m map[int64][4]string, desc bool) string {
	var ts []int64
	for t := range m {
		ts = append(ts, t)
	}
	sort.Slice(ts, func(a, b int) bool {
		if desc {
			return ts[a] > ts[b]
		}
		return ts[a] < ts[b]
	})
	var out []string
	for _, t := range ts {
		v := m[t]
		out = append(out, fmt.Sprintf("%d:%s", t, strings.Join(v[:], ",")))
	}
	return "rec " + strings.Join(out, ";")
}

func runRecAlg(c *hx.Ctx, r *hx.Rng, n int) {
	for i := 0; i < n; i++ {
		switch r.Intn(3) {
		case 0:
			// sort + dedup of rows in arrival order
			// up to 12 rows, or (a third of the cases) 13..48 rows with many repeated timestamps: Go's
			// sort switches from insertion sort to an unstable algorithm above 12 elements, so only these
			// cases tell sort.Stable from sort.Sort
			k := 1 + r.Intn(12)
			span := 7
			if r.Chance(33) {
				k = 13 + r.Intn(36)
				span = 3 + r.Intn(8)
				c.Count("recalg:sort>12rows")
			}
			var rows []arow
			for j := 0; j < k; j++ {
				rows = append(rows, genARow(r, int64(r.Intn(span))))
			}
			var ans string
			perr := hx.Safe(func() {
				h := record.NewColumnSortHelper()
				ans = recText(h.Sort(buildRec(rows)))
			})
			if perr != "" {
				ans = "err " + strings.SplitN(perr, "\n", 2)[0]
			}
			line := c.Emit("sortrec "+rowsText(rows), ans)
			// spec: later arrival wins field-wise = precedence order is the reversed arrival order
			rev := make([]arow, len(rows))
			for j := range rows {
				rev[len(rows)-1-j] = rows[j]
			}
			if want := specText(specCells(rev), false); ans != want {
				c.Violation(line, "", fmt.Sprintf("Sort(%s) = %q, last-write-wins says %q", rowsText(rows), ans, want))
			}
			c.Count("recalg:sort")
		default:
			desc := r.Chance(35)
			nw := genSorted(r, 1+r.Intn(7), int64(r.Intn(10)), desc)
			old := genSorted(r, 1+r.Intn(7), int64(r.Intn(10)), desc)
			var ans string
			perr := hx.Safe(func() {
				out := &record.Record{}
				if desc {
					out.MergeRecordDescend(buildRec(nw), buildRec(old))
				} else {
					out.MergeRecord(buildRec(nw), buildRec(old))
				}
				ans = recText(out)
			})
			if perr != "" {
				ans = "err " + strings.SplitN(perr, "\n", 2)[0]
			}
			op := "mergerec"
			if desc {
				op = "mergerecdesc"
			}
			line := c.Emit(op+" "+rowsText(nw)+" | "+rowsText(old), ans)
			// the same case for the merge written with the decision functions translated from the source
			c.Emit("mergesrc "+map[bool]string{true: "desc", false: "asc"}[desc]+" "+rowsText(nw)+" | "+rowsText(old), ans)
			if want := specText(specCells(append(append([]arow{}, nw...), old...)), desc); ans != want {
				c.Violation(line, "", fmt.Sprintf("%s(new=%s, old=%s) = %q, new-over-old says %q", op, rowsText(nw), rowsText(old), ans, want))
			}
			c.Count("recalg:" + op)
		}
	}
}
