// Package c15: correspondence harness for C15 (meta replicas converge; snapshot + restore
// loses nothing).
package c15

import (
	"fmt"
	"strings"

	"verif/harness/internal/hx"
	"verif/harness/metax"
)

func init() { hx.Register("C15", Run) }

func Run(c *hx.Ctx) error {
	r := hx.NewRng(c.Seed)
	nLogs := c.Budget(300, 20000)
	logLen := 40
	if c.Tier == "thorough" {
		logLen = 120
	}
	c.Stats.Rule = "log contains a snapshot/restore and a later command that succeeded"
	for li := 0; li < nLogs; li++ {
		runLog(c, r.Fork(), logLen)
	}
	return nil
}

func runLog(c *hx.Ctx, r *hx.Rng, logLen int) {
	u := metax.NewUniverse(r.Fork())
	ra, rb := r.Fork(), r.Fork()
	a, b := metax.NewInst(), metax.NewInst()
	n := 1 + r.Intn(logLen)
	snapAt := r.Intn(n + 1)
	var hist []string
	okAfter := 0
	var pro []metax.Cmd
	if r.Chance(85) {
		pro = metax.Bootstrap(u)
	}
	n += len(pro)
	snapAt = r.Intn(n + 1)
	for i := 0; i < n; i++ {
		if i == snapAt {
			s, err := b.Snapshot()
			var bytes []byte
			if err == nil {
				bytes, err = metax.Persist(s)
			}
			if err == nil {
				err = b.Restore(bytes)
			}
			hist = append(hist, "SNAP")
			if err != nil {
				ln := c.Emit("note snapshot-failed", "note snapshot-failed")
				c.Violation(ln, "snapshot_error", err.Error())
				return
			}
		}
		var cmd metax.Cmd
		if i < len(pro) {
			cmd = pro[i]
		} else {
			cmd = u.Gen(nil)
		}
		a.ShuffleMaps(ra)
		b.ShuffleMaps(rb)
		resA := a.Apply(cmd)
		resB := b.Apply(cmd)
		hist = append(hist, cmd.Desc+" => "+resA.String())
		c.Count("cmd:" + cmd.Kind)
		if resA.OK {
			c.Count("ok:" + cmd.Kind)
			if i >= snapAt {
				okAfter++
			}
		} else if resA.Panic {
			c.Count("panic:" + cmd.Kind)
		} else {
			c.Count("err:" + cmd.Kind)
		}
		da, db := a.DumpData(), b.DumpData()
		sa, sb := da.String(), db.String()
		ln := c.Emit("note step", "note step")
		if resA != resB {
			c.Violation(ln, classify(cmd, hist, nil), fmt.Sprintf("results differ: %s vs %s after %s", resA, resB, strings.Join(tail(hist, 12), " | ")))
			return
		}
		if sa != sb {
			d := metax.Diff(da, db, 4)
			c.Violation(ln, classify(cmd, hist, d), fmt.Sprintf("catalogues differ at %s after %s", strings.Join(d, "; "), strings.Join(tail(hist, 12), " | ")))
			return
		}
	}
	c.Case(strings.Join(hist, "|"), okAfter > 0 && snapAt < n)
}

func tail(xs []string, n int) []string {
	if len(xs) > n {
		return xs[len(xs)-n:]
	}
	return xs
}

func classify(cmd metax.Cmd, hist []string, diff []string) string {
	return ""
}
