// Package c15: correspondence harness for C15 (meta replicas converge on the same log,
// through snapshot and restore too).
//
// Part A — every registered command type (valid and invalid arguments), real state machine:
// the same random log is applied to two replicas. Replica B is snapshotted at a random
// position (the snapshot object is persisted only after a few more commands were applied, as
// raft does), restored from the bytes, and replays the rest; before every step the entries of
// every Go map of both replicas are re-inserted in a different shuffled order. Per-command
// results and canonical dumps must agree at every step (spec diff). At the snapshot position
// the dump of replica A and the dump of a third replica restored from A's snapshot are sent to
// the Lean driver (`snap`), which predicts the restored value from the regenerated coverage
// table (impl-vs-model).
//
// Part B — the modelled command subset: log + `snaprestore` against the Lean catalogue model,
// state compared after every step (`chk`).
//
// Part C — structured life cycles (measurement create / mark delete / purge / create again,
// with the policy's and the database's own life cycle around it): every template is run once
// per cut point, with the snapshot + restore of replica B placed at that position (immediately
// persisted, and persisted one command later), answers and full dumps compared after every
// following command; the same log goes to the Lean model with `snaprestore` at the cut. Random
// logs of parts A and B get such a script spliced in with some probability.
package c15

import (
	"fmt"
	"os"
	"strings"

	"verif/harness/internal/hx"
	"verif/harness/metax"
)

func init() { hx.Register("C15", Run) }

func Run(c *hx.Ctx) error {
	// hx.NewRng(s+1) is hx.NewRng(s) advanced by one step; scramble the seed so that consecutive
	// seeds give unrelated streams
	r := hx.NewRng(hx.NewRng(c.Seed).U64() ^ 0xC15)
	nLogs := c.Budget(300, 20000)
	logLen := 40
	if c.Tier == "thorough" {
		logLen = 120
	}
	c.Stats.Rule = "log with a snapshot/restore strictly inside it and at least one command that succeeded after the restore"
	c.Emit("transients", "transients "+strings.Join(metax.TransientList(), ","))
	kinds := map[string]bool{}
	for li := 0; li < nLogs; li++ {
		fullLog(c, r.Fork(), logLen, kinds)
	}
	nModel := nLogs / 2
	for li := 0; li < nModel; li++ {
		modelLog(c, r.Fork(), logLen)
	}
	// Part C: structured life cycles, snapshot + restore at every position
	lifeCycleCuts(c, r.Fork(), kinds)
	// every registered command type must have been exercised (and must be known to the generator)
	c.Count(fmt.Sprintf("kinds-exercised:%d-of-%d", len(kinds), len(metax.Kinds())))
	if missing := metax.UngeneratedTypes(); len(missing) > 0 {
		ln := c.Emit("note registered-types", "note registered-types")
		c.Violation(ln, "", fmt.Sprintf("registered command types without a generator: %v", missing))
	}
	return nil
}

func fullLog(c *hx.Ctx, r *hx.Rng, logLen int, kinds map[string]bool) {
	u := metax.NewUniverse(r.Fork())
	ra, rb := r.Fork(), r.Fork()
	a, b := metax.NewInst(), metax.NewInst()
	u.State = a.Data
	var pro []metax.Cmd
	if r.Chance(85) {
		pro = metax.Bootstrap(u)
	}
	n := len(pro) + 1 + r.Intn(logLen)
	// a measurement life cycle spliced into the random commands (35 % of the logs)
	var script []metax.ScriptStep
	scriptAt := -1
	if r.Chance(35) {
		script = metax.RandomLifeCycle(u, r).Steps
		scriptAt = len(pro) + r.Intn(n-len(pro))
		n += len(script)
		c.Count("lifecycle:scripted-log")
	}
	snapAt := r.Intn(n + 1)
	if scriptAt >= 0 && r.Chance(70) {
		snapAt = scriptAt + r.Intn(len(script)+2) // inside the life cycle (or right after it)
	}
	deferBy := 0
	if r.Chance(50) {
		deferBy = 1 + r.Intn(3)
	}
	var hist []string
	var pending []metax.Cmd // commands already drawn (applied to B while its snapshot was outstanding)
	okAfter := 0
	header := fmt.Sprintf("note log n=%d snap=%d defer=%d", n, snapAt, deferBy)
	ln := c.Emit(header, header)
	noSki := false
	next := func(i int) metax.Cmd {
		if len(pending) > 0 {
			cmd := pending[0]
			pending = pending[1:]
			return cmd
		}
		if i < len(pro) {
			return pro[i]
		}
		if scriptAt >= 0 && i >= scriptAt && len(script) > 0 && r.Chance(80) {
			cmd := script[0](a.Data())
			script = script[1:]
			return cmd
		}
		return u.Gen(nil)
	}
	for i := 0; i < n; i++ {
		if i == snapAt {
			// pure function check on replica A's state: snapshot -> bytes -> fresh replica
			if !snapLine(c, a) {
				return
			}
			// replica B: Snapshot now, Persist after `deferBy` further commands were applied
			// to it, restore from the bytes, then replay those commands with everybody else
			s, err := b.Snapshot()
			if err != nil {
				c.Violation(ln, "", "Snapshot failed: "+err.Error())
				return
			}
			for j := 0; j < deferBy && i+j < n; j++ {
				cx := next(i + j)
				pending = append(pending, cx)
			}
			for _, cx := range pending {
				// no map shuffling while the snapshot object is outstanding: re-inserting the
				// entries into fresh maps would undo any aliasing between the snapshot and the live
				// catalogue (a shallow clone), which is exactly what a deferred persist exposes
				if res := b.Apply(cx); res.Panic {
					break
				}
			}
			bytes, err := metax.Persist(s)
			if err == nil {
				err = b.Restore(bytes)
			}
			if err != nil {
				c.Violation(ln, "", "Persist/Restore failed: "+err.Error())
				return
			}
			hist = append(hist, fmt.Sprintf("SNAPSHOT(persisted %d commands later)+RESTORE", len(pending)))
		}
		cmd := next(i)
		if (cmd.Kind == "CreateMeasurement" || cmd.Kind == "AlterShardKey") && skiAbsent(cmd) {
			noSki = true
		}
		if !stepBoth(c, ln, a, b, ra, rb, cmd, &hist, kinds, &okAfter, i >= snapAt, noSki) {
			return
		}
	}
	c.Case(strings.Join(hist, "|"), okAfter > 0 && snapAt > 0 && snapAt < n)
	if len(c.Stats.Samples) < 2 {
		c.Sample(strings.Join(tail(hist, 8), " | "))
	}
}

func skiAbsent(cmd metax.Cmd) bool {
	w := strings.Fields(cmd.Text)
	return len(w) >= 5 && w[4] == "_"
}

// snapLine: the model's prediction of snapshot+restore on the current value of replica `a`.
func snapLine(c *hx.Ctx, a *metax.Inst) bool {
	before := a.DumpData()
	s, err := a.Snapshot()
	var bytes []byte
	if err == nil {
		bytes, err = metax.Persist(s)
	}
	fresh := metax.NewInst()
	if err == nil {
		err = fresh.Restore(bytes)
	}
	if err != nil {
		ln := c.Emit("note snapshot-error", "note snapshot-error")
		c.Violation(ln, "", "Snapshot/Persist/Restore failed: "+err.Error())
		return false
	}
	after := fresh.DumpData()
	c.Emit("snap "+before.String(), after.String())
	c.Count("snap-lines")
	return true
}

func stepBoth(c *hx.Ctx, ln int, a, b *metax.Inst, ra, rb *hx.Rng, cmd metax.Cmd, hist *[]string, kinds map[string]bool, okAfter *int, afterSnap bool, noSki bool) bool {
	a.ShuffleMaps(ra)
	b.ShuffleMaps(rb)
	// the target policy holds measurements of different sharding types (or with and without a
	// shard key): "the first measurement of the map" decides the outcome
	mixed := a.PickMatters(cmd)
	resA := a.Apply(cmd)
	resB := b.Apply(cmd)
	*hist = append(*hist, cmd.Desc+" => "+resA.String())
	kinds[cmd.Kind] = true
	c.Count("cmd:" + cmd.Kind)
	switch {
	case resA.OK:
		c.Count("ok:" + cmd.Kind)
		if afterSnap {
			*okAfter++
		}
	case resA.Panic:
		c.Count("panic:" + cmd.Kind)
	default:
		c.Count("err:" + cmd.Kind)
	}
	if resA != resB {
		c.Violation(ln, classify(a, cmd, resA, resB, nil, noSki, mixed), fmt.Sprintf("results differ: %s vs %s after %s", resA, resB, strings.Join(tail(*hist, 14), " | ")))
		return false
	}
	if resA.Panic {
		// both replicas crashed in the same command: the log ends here (C16 records the panic)
		return false
	}
	da, db := a.DumpData(), b.DumpData()
	if da.String() != db.String() {
		d := metax.Diff(da, db, 4)
		c.Violation(ln, classify(a, cmd, resA, resB, d, noSki, mixed), fmt.Sprintf("catalogues differ at %s after %s", strings.Join(d, "; "), strings.Join(tail(*hist, 14), " | ")))
		return false
	}
	return true
}

func tail(xs []string, n int) []string {
	if os.Getenv("VERIF_FULLHIST") != "" {
		return xs // debugging aid: the whole command log in violation descriptions
	}
	if len(xs) > n {
		return xs[len(xs)-n:]
	}
	return xs
}

// classify maps a divergence to the finding class it belongs to ("" = none: a violation).
func classify(a *metax.Inst, cmd metax.Cmd, ra, rb metax.Result, diff []string, noSki bool, mixed bool) string {
	all := strings.Join(diff, ";")
	switch {
	case a.StartBeforeInt64Range():
		// the un-restored replica holds a group whose start cannot be written to a snapshot
		return "group_start_before_int64_range"
	case cmd.Kind == "UpdateNodeTmpIndex" && diff == nil:
		return "node_tmp_index_not_in_snapshot"
	case diff != nil && onlyPaths(diff, ".DataNodes[", ".SqlNodes[") && strings.Contains(all, "].Index:"):
		return "node_tmp_index_not_in_snapshot"
	case diff != nil && onlyPaths(diff, ".ReplicaGroups"):
		// Data.Clone shares the replica-group map with the live catalogue (table: aliasKnown)
		return "replication_state_shared_with_snapshot"
	case cmd.Kind == "RecoverMetaData" && diff == nil && (strings.Contains(ra.Err, "nil_map") || strings.Contains(rb.Err, "nil_map")):
		return "recover_metadata_on_fresh_store"
	// (the map-order classes maporder_measurement_without_shardkey / maporder_mixed_sharding_types
	// were repaired by cc9049f + 01de664: a divergence of that shape is an unknown violation again)
	}
	return ""
}

func onlyPaths(diff []string, prefixes ...string) bool {
	for _, d := range diff {
		ok := false
		for _, p := range prefixes {
			if strings.HasPrefix(d, p) {
				ok = true
			}
		}
		if !ok {
			return false
		}
	}
	return true
}

// ---- Part B: modelled subset against the Lean model ---------------------------------------

var kindsModelled = func() []string {
	var ks []string
	u := metax.NewUniverse(hx.NewRng(1))
	u.Modelled = true
	for _, k := range metax.Kinds() {
		if u.GenKind(k).Text != "" {
			ks = append(ks, k)
		}
	}
	return ks
}()

func modelLog(c *hx.Ctx, r *hx.Rng, logLen int) {
	u := metax.NewUniverse(r.Fork())
	u.Modelled = true
	in := metax.NewInst()
	u.State = in.Data
	c.Emit("reset", "ok")
	var pro []metax.Cmd
	if r.Chance(90) {
		pro = metax.Bootstrap(u)
	}
	n := len(pro) + 1 + r.Intn(logLen)
	var script []metax.ScriptStep
	scriptAt := -1
	if r.Chance(35) {
		script = metax.RandomLifeCycle(u, r).Steps
		scriptAt = len(pro) + r.Intn(n-len(pro))
		n += len(script)
	}
	snapAt := r.Intn(n + 1)
	if scriptAt >= 0 && r.Chance(70) {
		snapAt = scriptAt + r.Intn(len(script)+2)
	}
	var hist []string
	for i := 0; i < n; i++ {
		if i == snapAt {
			s, err := in.Snapshot()
			var bytes []byte
			if err == nil {
				bytes, err = metax.Persist(s)
			}
			if err == nil {
				err = in.Restore(bytes)
			}
			ln := c.Emit("snaprestore", "ok")
			if err != nil {
				c.Violation(ln, "", "snapshot/restore failed: "+err.Error())
				return
			}
			c.Emit("chk "+metax.ModelDump(in.Data()), "wf "+verdict(in)+" same")
			hist = append(hist, "SNAPSHOT+RESTORE")
		}
		var cmd metax.Cmd
		switch {
		case i < len(pro):
			cmd = pro[i]
		case scriptAt >= 0 && i >= scriptAt && len(script) > 0 && r.Chance(80):
			cmd = script[0](in.Data())
			script = script[1:]
		default:
			cmd = u.Gen(kindsModelled)
		}
		if streamsAndPrune(in, cmd) {
			c.Count("stop:schema-clean-with-streams")
			break
		}
		res := in.Apply(cmd)
		hist = append(hist, cmd.Text+" => "+res.String())
		c.Emit("cmd "+cmd.Text, res.String())
		c.Count("model-cmd:" + cmd.Kind)
		if res.Panic {
			break
		}
		c.Emit("chk "+metax.ModelDump(in.Data()), "wf "+verdict(in)+" same")
		if tooManyGroups(in) {
			break
		}
	}
	c.Case("model|"+strings.Join(hist, "|"), snapAt > 0 && snapAt < n)
}

func verdict(in *metax.Inst) string {
	v := metax.WFViolations(in.Data())
	if len(v) == 0 {
		return "ok"
	}
	return strings.Join(v, ",")
}

func tooManyGroups(in *metax.Inst) bool {
	for _, db := range in.Data().Databases {
		for _, rp := range db.RetentionPolicies {
			if len(rp.ShardGroups) >= 12 || len(rp.IndexGroups) >= 12 {
				return true
			}
		}
	}
	return false
}

// ---- Part C: life cycles, every cut point ---------------------------------------------------

func lifeCycleCuts(c *hx.Ctx, r *hx.Rng, kinds map[string]bool) {
	type target struct{ db, rp, mst, other string }
	targets := []target{{"db0", "autogen", "m0", "m1"}}
	if c.Tier == "thorough" {
		targets = append(targets, target{"db1", "rp1", "cpu", "mem"}, target{"db0", "rp2", "m2", "m0"})
	}
	for _, tg := range targets {
		pro := metax.LifeCyclePrologue(tg.db, tg.rp)
		for _, sc := range metax.LifeCycles(tg.db, tg.rp, tg.mst, tg.other) {
			total := len(pro) + len(sc.Steps)
			for cut := 0; cut <= total; cut++ {
				for _, deferBy := range []int{0, 1} {
					if deferBy > 0 && cut >= total {
						continue
					}
					scriptedLog(c, r.Fork(), sc, pro, cut, deferBy, kinds)
				}
				modelScriptedLog(c, sc, pro, cut)
			}
		}
	}
}

// scriptedLog: prologue + script on two replicas; B is snapshotted before command number `cut`
// (0-based), the snapshot is persisted `deferBy` commands later, B restores it and replays them.
func scriptedLog(c *hx.Ctx, r *hx.Rng, sc metax.Script, pro []metax.Cmd, cut, deferBy int, kinds map[string]bool) {
	ra, rb := r.Fork(), r.Fork()
	a, b := metax.NewInst(), metax.NewInst()
	total := len(pro) + len(sc.Steps)
	header := fmt.Sprintf("note lifecycle %s cut=%d defer=%d", sc.Name, cut, deferBy)
	ln := c.Emit(header, header)
	c.Count("lifecycle:cut-run")
	var hist []string
	okAfter := 0
	hb := metax.NewHistory() // what replica B hands out, across its restore
	var pending []metax.Cmd
	next := func(i int) metax.Cmd {
		if len(pending) > 0 {
			cmd := pending[0]
			pending = pending[1:]
			return cmd
		}
		if i < len(pro) {
			return pro[i]
		}
		return sc.Steps[i-len(pro)](a.Data())
	}
	restore := func(i int) bool {
		if !snapLine(c, a) {
			return false
		}
		s, err := b.Snapshot()
		if err != nil {
			c.Violation(ln, "", "Snapshot failed: "+err.Error())
			return false
		}
		for j := 0; j < deferBy && i+j < total; j++ {
			// the command is built from A's catalogue before A applied it; B is in the same state
			cx := next(i + j)
			pending = append(pending, cx)
			// (no map shuffling while the snapshot object is outstanding, see fullLog)
			if res := b.Apply(cx); res.Panic {
				break
			}
		}
		bytes, err := metax.Persist(s)
		if err == nil {
			err = b.Restore(bytes)
		}
		if err != nil {
			c.Violation(ln, "", "Persist/Restore failed: "+err.Error())
			return false
		}
		hist = append(hist, fmt.Sprintf("SNAPSHOT(persisted %d commands later)+RESTORE", len(pending)))
		return true
	}
	for i := 0; i < total; i++ {
		if i == cut && !restore(i) {
			return
		}
		cmd := next(i)
		if !stepBoth(c, ln, a, b, ra, rb, cmd, &hist, kinds, &okAfter, i >= cut, false) {
			return
		}
		for _, f := range hb.Observe(b.Data(), cmd.Kind) {
			c.Violation(ln, f.Class, fmt.Sprintf("restored replica: %s after %s", f.Desc, strings.Join(tail(hist, 16), " | ")))
			return
		}
	}
	if cut == total {
		if !restore(total) {
			return
		}
		da, db := a.DumpData(), b.DumpData()
		if da.String() != db.String() {
			d := metax.Diff(da, db, 4)
			c.Violation(ln, "", fmt.Sprintf("catalogues differ at %s after %s", strings.Join(d, "; "), strings.Join(tail(hist, 16), " | ")))
			return
		}
	}
	c.Case(fmt.Sprintf("lifecycle|%s|%d|%d", sc.Name, cut, deferBy), okAfter > 0 && cut > 0 && cut < total)
}

// modelScriptedLog: the same log against the Lean model, `snaprestore` at the cut.
func modelScriptedLog(c *hx.Ctx, sc metax.Script, pro []metax.Cmd, cut int) {
	in := metax.NewInst()
	c.Emit("reset", "ok")
	total := len(pro) + len(sc.Steps)
	snap := func() bool {
		s, err := in.Snapshot()
		var bytes []byte
		if err == nil {
			bytes, err = metax.Persist(s)
		}
		if err == nil {
			err = in.Restore(bytes)
		}
		ln := c.Emit("snaprestore", "ok")
		if err != nil {
			c.Violation(ln, "", "snapshot/restore failed: "+err.Error())
			return false
		}
		c.Emit("chk "+metax.ModelDump(in.Data()), "wf "+verdict(in)+" same")
		return true
	}
	for i := 0; i < total; i++ {
		if i == cut && !snap() {
			return
		}
		var cmd metax.Cmd
		if i < len(pro) {
			cmd = pro[i]
		} else {
			cmd = sc.Steps[i-len(pro)](in.Data())
		}
		res := in.Apply(cmd)
		c.Emit("cmd "+cmd.Text, res.String())
		c.Count("model-cmd:" + cmd.Kind)
		if res.Panic {
			return
		}
		c.Emit("chk "+metax.ModelDump(in.Data()), "wf "+verdict(in)+" same")
	}
	if cut == total {
		snap()
	}
}

// streamsAndPrune: PruneGroups(shard) may run the schema clean, whose MarkMeasurementDelete is
// refused for a measurement a stream reads or writes; the model's clean pass does not look at
// the streams - modelled logs end here (the two-replica and all-kinds runs go on).
func streamsAndPrune(in *metax.Inst, cmd metax.Cmd) bool {
	return cmd.Kind == "PruneGroups" && strings.HasPrefix(cmd.Text, "PruneGroups 1 ") && len(in.Data().Streams) > 0
}
