// Package c06: correspondence harness for C06 ("what is written through the line protocol is
// exactly what queries return"). It drives the real request-block path of /write in-process —
// influx.GetUnmarshalWork().Unmarshal() (PointRows.Unmarshal → unmarshalRows → Row.unmarshal,
// CheckValid, timestamp × precision) followed by record.AppendFieldToCol on every field — on
// generated lines and batches, and writes
//
//	ops.txt   batch <precision hex> <body hex>         (same input for the Lean model)
//	impl.out  canonical dump of what the block stores  (exact-behaviour diff against the model)
//	viol.out  spec violations: round trip against what the generator intended, and the
//	          independent reference reading of oracle.go for the malformed stream
package c06

import (
	"bytes"
	"encoding/hex"
	"fmt"
	"math"
	"sort"
	"strconv"
	"strings"
	"time"

	"github.com/openGemini/openGemini/lib/errno"
	"github.com/openGemini/openGemini/lib/record"
	"github.com/openGemini/openGemini/lib/util/lifted/vm/protoparser/influx"

	"verif/harness/internal/hx"
)

func init() { hx.Register("C06", Run) }

// ---- precision (the documented meaning; the model uses the table regenerated from handler.go)

var precisions = []string{"", "ns", "u", "us", "µ", "ms", "s", "m", "h", "n", "S", "xyz"}

func specMultiplier(p string) int64 {
	switch p {
	case "u", "us", "µ":
		return 1e3
	case "ms":
		return 1e6
	case "s":
		return 1e9
	case "m":
		return 60e9
	case "h":
		return 3600e9
	}
	return 1 // "ns", absent, unknown
}

// ---- canonical dump ------------------------------------------------------------------------

func hexOr(b []byte) string {
	if len(b) == 0 {
		return "-"
	}
	return hex.EncodeToString(b)
}

type storedField struct {
	k []byte
	v fval
}
type storedRow struct {
	name   []byte
	tags   []tagKV
	fields []storedField
	now    bool
	ts     int64
}

func (r *storedRow) text() string {
	var sb strings.Builder
	sb.WriteString(hexOr(r.name))
	sb.WriteByte(' ')
	if len(r.tags) == 0 {
		sb.WriteByte('-')
	}
	for i, t := range r.tags {
		if i > 0 {
			sb.WriteByte(',')
		}
		sb.WriteString(hexOr(t.k) + "=" + hexOr(t.v))
	}
	sb.WriteByte(' ')
	if len(r.fields) == 0 {
		sb.WriteByte('-')
	}
	for i, f := range r.fields {
		if i > 0 {
			sb.WriteByte(',')
		}
		sb.WriteString(hexOr(f.k) + "=")
		switch f.v.kind {
		case 'i':
			sb.WriteString("i" + strconv.FormatInt(f.v.i, 10))
		case 'f':
			sb.WriteString(fmt.Sprintf("f%016x", f.v.bits))
		case 'b':
			if f.v.b {
				sb.WriteString("b1")
			} else {
				sb.WriteString("b0")
			}
		case 's':
			sb.WriteString("s" + hexOr(f.v.s))
		default:
			sb.WriteString("?" + string(f.v.kind))
		}
	}
	sb.WriteByte(' ')
	if r.now {
		sb.WriteString("now")
	} else {
		sb.WriteString(strconv.FormatInt(r.ts, 10))
	}
	return sb.String()
}

func sortTags(ts []tagKV) {
	sort.SliceStable(ts, func(i, j int) bool {
		if c := bytes.Compare(ts[i].k, ts[j].k); c != 0 {
			return c < 0
		}
		return bytes.Compare(ts[i].v, ts[j].v) < 0
	})
}

func errClass(err error) string {
	m := err.Error()
	switch {
	case strings.HasPrefix(m, "please switch from tcp"):
		return "http"
	case strings.HasPrefix(m, "cannot parse timestamp"):
		return "ts"
	case strings.HasPrefix(m, "timestamp ") && strings.Contains(m, "out of range"):
		return "tsrange"
	case strings.HasPrefix(m, "cannot parse field value"):
		return "value"
	case strings.HasPrefix(m, "field key cannot be empty"):
		return "emptykey"
	case strings.HasPrefix(m, "missing tag value"):
		return "tagvalue"
	case errno.Equal(err, errno.MeasurementNameTooLong), errno.Equal(err, errno.TagNameTooLong),
		errno.Equal(err, errno.TagValueTooLong), errno.Equal(err, errno.FieldNameTooLong):
		return "toolong"
	case err == influx.ErrPointMustHaveAField || strings.Contains(m, "point without fields"):
		return "nofield"
	case err == influx.ErrPointMustHaveAMeasurement || strings.Contains(m, "point without measurement"):
		return "nomeasurement"
	}
	return "other:" + m
}

// runImpl feeds one request block to the real code. The answer is the canonical dump.
func runImpl(prec string, body []byte) (ans string, rows []storedRow, errKind string) {
	var cbErr error
	called := false
	pe := hx.Safe(func() {
		uw := influx.GetUnmarshalWork()
		uw.Db = "db"
		uw.TsMultiplier = specMultiplier(prec)
		uw.ReqBuf = append(uw.ReqBuf[:0], body...)
		uw.EnableTagArray = false
		t0 := time.Now().UnixNano()
		uw.Callback = func(db string, rs []influx.Row, err error) {
			called = true
			cbErr = err
			if err != nil {
				return
			}
			t1 := time.Now().UnixNano()
			for i := range rs {
				r := &rs[i]
				sr := storedRow{name: []byte(strings.Clone(r.Name))}
				for _, t := range r.Tags {
					sr.tags = append(sr.tags, tagKV{[]byte(strings.Clone(t.Key)), []byte(strings.Clone(t.Value))})
				}
				sortTags(sr.tags)
				for j := range r.Fields {
					f := &r.Fields[j]
					var col record.ColVal
					var size int64
					sf := storedField{k: []byte(strings.Clone(f.Key))}
					if err := record.AppendFieldToCol(&col, f, &size); err != nil {
						sf.v = fval{kind: '!'}
					} else {
						switch f.Type {
						case influx.Field_Type_Int:
							sf.v = fval{kind: 'i', i: col.IntegerValues()[0]}
						case influx.Field_Type_Float:
							sf.v = fval{kind: 'f', bits: math.Float64bits(col.FloatValues()[0])}
						case influx.Field_Type_Boolean:
							sf.v = fval{kind: 'b', b: col.BooleanValues()[0]}
						case influx.Field_Type_String:
							s, _ := col.StringValue(0)
							sf.v = fval{kind: 's', s: append([]byte(nil), s...)}
						default:
							sf.v = fval{kind: '?'}
						}
					}
					sr.fields = append(sr.fields, sf)
				}
				// a row without a timestamp gets the server's clock
				if r.Timestamp >= t0 && r.Timestamp <= t1 {
					sr.now = true
				} else {
					sr.ts = r.Timestamp
				}
				rows = append(rows, sr)
			}
		}
		uw.Unmarshal()
	})
	if pe != "" {
		return "err " + pe, nil, "panic"
	}
	if !called {
		return "err no-callback", nil, "no-callback"
	}
	if cbErr != nil {
		k := errClass(cbErr)
		return "err " + k, nil, k
	}
	if len(rows) == 0 {
		return "ok", nil, ""
	}
	parts := make([]string, len(rows))
	for i := range rows {
		parts[i] = rows[i].text()
	}
	return "ok " + strings.Join(parts, " | "), rows, ""
}

// ---- generator --------------------------------------------------------------------------------

type genLine struct {
	text     []byte
	intended *point // nil for the malformed stream
	kind     string // generator bucket
	nt       bool   // non-trivial by the stated rule
}

var plainAlphabet = []byte("abcdefghijklmnopqrstuvwxyzABCDEFGHIJKLMNOPQRSTUVWXYZ0123456789_-.")
var specialBytes = []byte{',', ' ', '=', '\\', '"', '\'', '#', '[', ']', '\t', ':', ';', '/', '+', '!', 0}
var unicodeChunks = []string{"é", "日本", "ß", "µ", "😀", " ", " ", "д", "\u0085"}

func genBytes(r *hx.Rng, minLen, maxLen int, specialPct int) []byte {
	n := minLen + r.Intn(maxLen-minLen+1)
	var b []byte
	for len(b) < n {
		switch {
		case r.Chance(specialPct):
			b = append(b, specialBytes[r.Intn(len(specialBytes))])
		case r.Chance(specialPct / 2):
			b = append(b, unicodeChunks[r.Intn(len(unicodeChunks))]...)
		case r.Chance(specialPct / 8):
			b = append(b, byte(0x80+r.Intn(0x80))) // not UTF-8
		default:
			b = append(b, plainAlphabet[r.Intn(len(plainAlphabet))])
		}
	}
	return b
}

// spellEscaped prints a measurement / key / tag value: every byte of `must` is escaped; a
// byte of the escape set outside `must` is escaped or not at random; a backslash that cannot
// be mistaken for an escape may stay bare.
func spellEscaped(r *hx.Rng, b []byte, must string, hasEscape *bool) []byte {
	var out []byte
	for i, c := range b {
		switch {
		case c == '\\':
			// bare only when the next emitted byte is neither escapable nor a backslash
			bare := i+1 < len(b) && !isEscapable(b[i+1]) && r.Chance(40)
			if bare {
				out = append(out, '\\')
			} else {
				out = append(out, '\\', '\\')
			}
			*hasEscape = true
		case strings.IndexByte(must, c) >= 0:
			out = append(out, '\\', c)
			*hasEscape = true
		case isEscapable(c):
			if r.Chance(50) {
				out = append(out, '\\', c)
				*hasEscape = true
			} else {
				out = append(out, c)
			}
		default:
			out = append(out, c)
		}
	}
	return out
}

func spellString(r *hx.Rng, s []byte, hasEscape *bool) []byte {
	out := []byte{'"'}
	for i, c := range s {
		switch c {
		case '"':
			out = append(out, '\\', '"')
			*hasEscape = true
		case '\\':
			bare := i+1 < len(s) && s[i+1] != '"' && s[i+1] != '\\' && r.Chance(40)
			if bare {
				out = append(out, '\\')
			} else {
				out = append(out, '\\', '\\')
			}
			*hasEscape = true
		default:
			out = append(out, c)
		}
	}
	return append(out, '"')
}

var interestingInts = []int64{0, 1, -1, 7, 255, 1 << 31, -(1 << 31), 1<<53 - 1, 1 << 53, 1<<53 + 1, 1<<53 + 2, 1<<53 + 3, -(1 << 53), -(1<<53 + 1),
	1<<54 + 2, 1<<54 + 6, 1<<62 + 1, math.MaxInt64, math.MaxInt64 - 1, math.MaxInt64 - 511, math.MaxInt64 - 512, math.MaxInt64 - 513, math.MinInt64, math.MinInt64 + 1,
	999999999999999, 1000000000000000, 9999999999999999, 99999999999999999, 999999999999999999, 1000000000000000000, 123456789012345678}

func genInt(r *hx.Rng) int64 {
	switch r.Intn(6) {
	case 0:
		return interestingInts[r.Intn(len(interestingInts))]
	case 1:
		return int64(r.U64()) // full range
	case 2:
		return int64(r.U64()>>uint(r.Intn(64))) * int64(1-2*r.Intn(2))
	case 3:
		return int64(1)<<uint(r.Intn(63)) + int64(r.Intn(5)) - 2
	default:
		return int64(r.Intn(2000)) - 1000
	}
}

func digits(r *hx.Rng, n int) string {
	b := make([]byte, n)
	for i := range b {
		b[i] = byte('0' + r.Intn(10))
	}
	return string(b)
}

var interestingFloats = []string{"0", "-0", "0.0", "1", "-1", "1.5", ".5", "5.", "-.5", "+5", "+.5", "+5.e3", "1e5", "1E5", "1e+5", "1e-5", "1.e1",
	"1.7976931348623157e308", "1.7976931348623158e308", "4.9e-324", "5e-324", "2.4703282292062327e-324", "2.4703282292062328e-324", "2.5e-324", "1e-400", "0e999999",
	"2.2250738585072014e-308", "2.2250738585072011e-308", "9007199254740993", "9007199254740992.5", "9007199254740993.0", "0.1", "0.2", "0.3", "1e22", "1e23", "8.5e22",
	"123456789012345678901234567890", "0.000000000000000000000000000001", "3.141592653589793238462643383279", "00001.5", "1e0005", "179769313486231570000000000000000000000000000000000000000000000000000000000000000000000000000000000000000000000000000000000000000000000000000000000000000000000000000000000000000000000000000000000000000000000000000000000000000000000000000000000000000000000000000000000000000000000000000000000000000000000",
	"77780518719671.5e34", "104906.82454743e20", "69404974734e-31", "5842323238768.31e11"}

// genFloatText: a number of the grammar (finite or not), without suffix.
func genFloatText(r *hx.Rng) string {
	if r.Chance(20) {
		return interestingFloats[r.Intn(len(interestingFloats))]
	}
	s := ""
	switch r.Intn(4) {
	case 0:
		s = "-"
	case 1:
		if r.Chance(30) {
			s = "+"
		}
	}
	nd := 1 + r.Intn(6)
	if r.Chance(25) {
		nd = 12 + r.Intn(12)
	}
	switch r.Intn(5) {
	case 0:
		s += digits(r, nd)
	case 1:
		s += digits(r, nd) + "."
	case 2:
		s += "." + digits(r, nd)
	default:
		k := 1 + r.Intn(nd)
		s += digits(r, k) + "." + digits(r, 1+r.Intn(nd))
	}
	if r.Chance(40) {
		e := "e"
		if r.Bool() {
			e = "E"
		}
		switch r.Intn(3) {
		case 0:
			e += "-"
		case 1:
			e += "+"
		}
		switch r.Intn(10) {
		case 0:
			e += strconv.Itoa(280 + r.Intn(60))
		case 1:
			e += "0" + strconv.Itoa(r.Intn(30))
		default:
			e += strconv.Itoa(r.Intn(40))
		}
		s += e
	}
	return s
}

var boolTexts = []string{"t", "T", "true", "True", "TRUE", "f", "F", "false", "False", "FALSE"}

func genTimestamp(r *hx.Rng) int64 {
	switch r.Intn(8) {
	case 0:
		return 0
	case 1:
		return int64(r.Intn(100000))
	case 2:
		return 1600000000 + int64(r.Intn(100000000)) // seconds
	case 3:
		return 1600000000000 + int64(r.Intn(1000000)) // ms
	case 4:
		return math.MaxInt64 - int64(r.Intn(3))
	case 5:
		return int64(r.U64() >> uint(1+r.Intn(40)))
	default:
		return 1600000000000000000 + int64(r.Intn(1000000000)) // ns
	}
}

// genValid: a structured point and one spelling of it.
func genValid(r *hx.Rng) genLine {
	g := genLine{kind: "valid"}
	p := &point{}
	hasEscape := false
	sp := 0
	if r.Chance(45) {
		sp = 12 + r.Intn(25)
	}
	for {
		p.name = genBytes(r, 1, 8, sp)
		c := p.name[0]
		if c != '#' && c != '\t' && c != 0 { // comment marker / leading white space of the line
			break
		}
	}
	var line []byte
	if r.Chance(5) {
		line = append(line, []byte(" \t\x00  ")[:1+r.Intn(5)]...)
	}
	line = append(line, spellEscaped(r, p.name, ", ", &hasEscape)...)
	nt := r.Intn(4)
	for i := 0; i < nt; i++ {
		k := genBytes(r, 1, 5, sp)
		v := genBytes(r, 1, 6, sp)
		p.tags = append(p.tags, tagKV{k, v})
		line = append(line, ',')
		line = append(line, spellEscaped(r, k, ", =", &hasEscape)...)
		line = append(line, '=')
		line = append(line, spellEscaped(r, v, ", ", &hasEscape)...)
	}
	line = append(line, ' ')
	if r.Chance(5) {
		line = append(line, ' ', ' ')
	}
	nf := 1 + r.Intn(4)
	bigInt, expo := false, false
	for i := 0; i < nf; i++ {
		var k []byte
		for {
			k = genBytes(r, 1, 5, sp)
			if bytes.IndexByte(k, '"') < 0 || r.Chance(10) {
				break
			}
		}
		if i > 0 {
			line = append(line, ',')
		}
		line = append(line, spellEscaped(r, k, ", =", &hasEscape)...)
		line = append(line, '=')
		var v fval
		switch r.Intn(10) {
		case 0, 1, 2:
			n := genInt(r)
			v = fval{kind: 'i', i: n}
			txt := strconv.FormatInt(n, 10)
			if r.Chance(5) {
				if n >= 0 {
					txt = "00" + txt
				} else {
					txt = "-00" + txt[1:]
				}
			}
			if len(strings.TrimLeft(txt, "-0")) > 15 {
				bigInt = true
			}
			line = append(line, txt...)
			line = append(line, 'i')
		case 3, 4, 5:
			var txt string
			var f float64
			for {
				txt = genFloatText(r)
				var err error
				f, err = strconv.ParseFloat(txt, 64)
				if err == nil && !math.IsInf(f, 0) {
					break
				}
			}
			if strings.ContainsAny(txt, "eE") {
				expo = true
			}
			v = fval{kind: 'f', bits: math.Float64bits(f)}
			line = append(line, txt...)
			if r.Chance(15) {
				line = append(line, 'f')
			}
		case 6:
			t := boolTexts[r.Intn(len(boolTexts))]
			v = fval{kind: 'b', b: boolSpellings[t]}
			line = append(line, t...)
		default:
			s := genBytes(r, 0, 10, sp+10)
			s = bytes.ReplaceAll(s, []byte{'\n'}, []byte{'n'})
			v = fval{kind: 's', s: s}
			line = append(line, spellString(r, s, &hasEscape)...)
		}
		p.fields = append(p.fields, fieldKV{k, v})
	}
	if r.Chance(70) {
		p.hasTS = true
		p.ts = genTimestamp(r)
		line = append(line, ' ')
		if r.Chance(5) {
			line = append(line, ' ')
		}
		line = append(line, strconv.FormatInt(p.ts, 10)...)
		if r.Chance(3) {
			line = append(line, []string{" ", "  ", "\t", " ", "  "}[r.Intn(5)]...)
		}
	} else if r.Chance(5) {
		line = append(line, ' ')
	}
	if r.Chance(3) {
		line = append(line, '\r')
	}
	g.text = line
	g.intended = p
	g.nt = hasEscape || bigInt || expo
	if hasEscape {
		g.kind = "valid:escapes"
	}
	return g
}

var nastyValues = []string{"abcf", "inf", "Inf", "nan", "NaN", "inff", "nanf", "-inff", "+5", "+.5", "+5f", "1.2.3f", "1.2.3", "1u", "0x10", "0x10f", "1_0", "1_0f", "1e", "1e+", "e5", ".e5", "--1", "-", "+", ".", ".f", "-f", "ff", "tf",
	"1i5", "i", "-i", "+5i", "1.5i", "1e3i", "9223372036854775808i", "-9223372036854775809i", "99999999999999999999i", "0x1fi", "1_0i", "tRUE", "yes", "TrUe", "\"abc", "abc\"", "a\"b\"", "\"\"", "\"\\\"", "\"a\"b\"", "\"a\\\"", "\"a\"x",
	"1e999", "1e400f", "-1e999", "1.8e308", "", "1,", "1 2", "１", "1e5e5", "1..", "..1", "1e1.5", "5.f", "5.5ff", "1if", "1fi", "t1", "0b1", "1e-", "∞", "12\"x\""}

var structuralLines = []string{"m", "m ", "m v", "m v=", "m =1", ",a=b v=1", "m, v=1", "m,a v=1", "m,a= v=1", "m,=b v=1", "m v=1,", "m v=1,,w=2", "m,a=b,,c=d v=1", "m,a=b", " ", "\t", "#", "# m v=1", "m v=1 1 1", "=", ",", "m\\ v=1", "m\\", "m v=1\\", "\\", "m,a=b\\ v=1", "m v=\"a b\" x",
	"m v=\"a\",w=1 5", "m v=\"a, b=c\",w=1", "m v=\"a\\\" 5", "m a\"b=5 1", "m a\"b=5,c=\"x\" 1", "m v=1,w=\"x", "m v=t,w=\"\"\"", "m,t=\"x y\" v=1", "m v=1 ", "m  v=1  5  "}

var nastyTimestamps = []string{"-5", "-0", "+5", "1.5", "12a", "a12", "9223372036854775808", "99999999999999999999", "1e9", "0x10", " 12", "12 13", " 12 ", " 12", "12\u0085", "12\xc2", "HTTP/1.1", "12 HTTP/1.1", "1_0", "１２"}

// genMalformed: a valid line damaged in one place, or a nasty token planted in it.
func genMalformed(r *hx.Rng) genLine {
	base := genValid(r)
	b := append([]byte(nil), base.text...)
	g := genLine{nt: true}
	switch r.Intn(12) {
	case 0: // delete a byte
		if len(b) > 1 {
			i := r.Intn(len(b))
			b = append(b[:i], b[i+1:]...)
		}
		g.kind = "malformed:delete"
	case 1: // insert a special byte
		i := r.Intn(len(b) + 1)
		c := specialBytes[r.Intn(len(specialBytes))]
		b = append(b[:i], append([]byte{c}, b[i:]...)...)
		g.kind = "malformed:insert"
	case 2: // truncate
		b = b[:r.Intn(len(b))]
		g.kind = "malformed:truncate"
	case 3: // duplicate a byte
		i := r.Intn(len(b))
		b = append(b[:i], append([]byte{b[i]}, b[i:]...)...)
		g.kind = "malformed:duplicate"
	case 4: // replace a byte
		b[r.Intn(len(b))] = specialBytes[r.Intn(len(specialBytes))]
		g.kind = "malformed:replace"
	case 5, 6, 7, 8: // plant a nasty value
		nv := nastyValues[r.Intn(len(nastyValues))]
		name := genBytes(r, 1, 4, 0)
		b = append(name, " "...)
		if r.Bool() {
			b = append(b, "a=1,"...)
		}
		b = append(b, "v="...)
		b = append(b, nv...)
		if r.Bool() {
			b = append(b, ",z=2i"...)
		}
		if r.Bool() {
			b = append(b, " 1600000000"...)
		}
		g.kind = "malformed:value"
	case 9, 10: // nasty timestamp
		nt := nastyTimestamps[r.Intn(len(nastyTimestamps))]
		b = append(genBytes(r, 1, 4, 0), " v=1"...)
		if r.Chance(20) {
			b = append(b, 'x')
		}
		b = append(b, ' ')
		b = append(b, nt...)
		g.kind = "malformed:timestamp"
	default: // structural
		b = []byte(structuralLines[r.Intn(len(structuralLines))])
		g.kind = "malformed:structural"
	}
	b = bytes.ReplaceAll(b, []byte{'\n'}, []byte{' '})
	g.text = b
	return g
}

// ---- spec -----------------------------------------------------------------------------------

func fvalEq(a, b fval) bool {
	if a.kind != b.kind {
		return false
	}
	switch a.kind {
	case 'i':
		return a.i == b.i
	case 'f':
		return a.bits == b.bits
	case 'b':
		return a.b == b.b
	case 's':
		return bytes.Equal(a.s, b.s)
	}
	return false
}

// expected: what a valid point must be stored as. ok=false when the timestamp does not fit
// (then the line is outside the supported range and must be rejected).
func expected(p *point, prec string) (storedRow, bool) {
	sr := storedRow{name: p.name}
	for _, t := range p.tags {
		if len(t.k) > 0 && len(t.v) > 0 {
			sr.tags = append(sr.tags, t)
		}
	}
	sortTags(sr.tags)
	for _, f := range p.fields {
		sr.fields = append(sr.fields, storedField{f.k, f.v})
	}
	if !p.hasTS {
		sr.now = true
		return sr, true
	}
	m := specMultiplier(prec)
	if p.ts > math.MaxInt64/m {
		return sr, false
	}
	sr.ts = p.ts * m
	return sr, true
}

func abs53(n int64) bool { return n > 1<<53 || n < -(1<<53) }

// compareRow: "" when equal, else (class, description).
func compareRow(want, got *storedRow) (string, string) {
	if !bytes.Equal(want.name, got.name) {
		return "measurement_differs", fmt.Sprintf("measurement %q stored as %q", want.name, got.name)
	}
	if len(want.tags) != len(got.tags) {
		return "tags_differ", fmt.Sprintf("%d tags stored as %d", len(want.tags), len(got.tags))
	}
	for i := range want.tags {
		if !bytes.Equal(want.tags[i].k, got.tags[i].k) || !bytes.Equal(want.tags[i].v, got.tags[i].v) {
			return "tags_differ", fmt.Sprintf("tag %q=%q stored as %q=%q", want.tags[i].k, want.tags[i].v, got.tags[i].k, got.tags[i].v)
		}
	}
	if len(want.fields) != len(got.fields) {
		return "fields_differ", fmt.Sprintf("%d fields stored as %d", len(want.fields), len(got.fields))
	}
	for i := range want.fields {
		w, g := want.fields[i], got.fields[i]
		if !bytes.Equal(w.k, g.k) {
			return "fields_differ", fmt.Sprintf("field key %q stored as %q", w.k, g.k)
		}
		if !fvalEq(w.v, g.v) {
			switch {
			case w.v.kind == 'i' && g.v.kind == 'i' && abs53(w.v.i):
				return "int_abs_gt_2p53", fmt.Sprintf("integer field %di stored as %d", w.v.i, g.v.i)
			case w.v.kind == 'f' && g.v.kind == 'f':
				return "float_value_differs", fmt.Sprintf("float field %016x stored as %016x", w.v.bits, g.v.bits)
			case w.v.kind != g.v.kind:
				return "field_type_differs", fmt.Sprintf("field %q of type %c stored as type %c", w.k, w.v.kind, g.v.kind)
			}
			return "field_value_differs", fmt.Sprintf("field %q: %+v stored as %+v", w.k, w.v, g.v)
		}
	}
	if want.now != got.now || want.ts != got.ts {
		return "timestamp_differs", fmt.Sprintf("timestamp %d (now=%v) stored as %d (now=%v)", want.ts, want.now, got.ts, got.now)
	}
	return "", ""
}

func pointEq(a, b *point) bool {
	ea, _ := expected(a, "")
	eb, _ := expected(b, "")
	c, _ := compareRow(&ea, &eb)
	return c == "" && a.hasTS == b.hasTS && a.ts == b.ts
}

func opLine(prec string, body []byte) string {
	return "batch " + hexOr([]byte(prec)) + " " + hexOr(body)
}

func short(b []byte) string {
	s := strconv.Quote(string(b))
	if len(s) > 300 {
		s = s[:300] + "…"
	}
	return s
}

// ---- the spec diff -------------------------------------------------------------------------
//
// For every block two expectations are computed, line by line, from the reference reader:
//
//   exact     what the property demands: a block with a line that is invalid (or outside the
//             supported range) is answered with an error; otherwise every line is stored as the
//             point it denotes.
//   adjusted  the exact expectation with the three known defects applied, and nothing else:
//             an integer beyond 2^53 may come back as int64(float64(n)); a line that fails to
//             parse and is not the last line processed is dropped without error; a line with a
//             stray double quote (class predicate of refLineQ) behaves as the same line does
//             when it is sent alone.
//
// The implementation's answer is compared row by row. Equal to exact: no violation. Equal to
// adjusted: a violation of exactly the known classes that were needed. Anything else: a
// violation outside every known class, whatever else the block contains.

const (
	loSkip     = iota
	loRow      // stored as a row
	loParseErr // Row.unmarshal fails
	loPostErr  // parsed, then refused by CheckValid / the timestamp range check
)

type lineOutcome struct {
	kind int
	row  storedRow
}

func (o lineOutcome) String() string {
	switch o.kind {
	case loSkip:
		return "skip"
	case loRow:
		return "row " + o.row.text()
	case loParseErr:
		return "parse-error"
	}
	return "refused-row"
}

// exactOutcome: the reference reading of one line.
func exactOutcome(line []byte, prec string) (lineOutcome, *point, string, bool) {
	p, reason, stray := refLineQ(line)
	switch {
	case reason == "skip":
		return lineOutcome{kind: loSkip}, nil, reason, stray
	case p == nil:
		return lineOutcome{kind: loParseErr}, nil, reason, stray
	}
	want, fits := expected(p, prec)
	if len(p.name) == 0 || !fits {
		return lineOutcome{kind: loPostErr}, p, "out_of_range", stray
	}
	return lineOutcome{kind: loRow, row: want}, p, "", stray
}

// aloneOutcome: what the implementation does with the line as a block of its own.
func aloneOutcome(line []byte, prec string) lineOutcome {
	_, rows, ek := runImpl(prec, line)
	switch {
	case ek == "nomeasurement" || ek == "tsrange":
		return lineOutcome{kind: loPostErr}
	case ek != "":
		return lineOutcome{kind: loParseErr}
	case len(rows) == 1:
		return lineOutcome{kind: loRow, row: rows[0]}
	}
	return lineOutcome{kind: loSkip}
}

func sameOutcome(a, b lineOutcome) bool {
	if a.kind != b.kind {
		// both are errors of the block when the line stands alone
		return false
	}
	if a.kind != loRow {
		return true
	}
	k, _ := compareRow(&a.row, &b.row)
	return k == ""
}

// rowMatches: equal, or equal up to the float64 trip of integers beyond 2^53.
func rowMatches(want, got *storedRow) (ok bool, usedInt bool, class, desc string) {
	w := *want
	w.fields = append([]storedField(nil), want.fields...)
	if len(w.fields) == len(got.fields) {
		for i := range w.fields {
			f, g := w.fields[i].v, got.fields[i].v
			if f.kind == 'i' && g.kind == 'i' && f.i != g.i && abs53(f.i) && int64(float64(f.i)) == g.i {
				w.fields[i].v.i = g.i
				usedInt = true
			}
		}
	}
	class, desc = compareRow(&w, got)
	return class == "", usedInt, class, desc
}

func splitBlock(body []byte) [][]byte {
	lines := bytes.Split(body, []byte{'\n'})
	if n := len(lines); n > 0 && len(lines[n-1]) == 0 {
		lines = lines[:n-1] // the piece after the last newline is processed only when not empty
	}
	return lines
}

// judge computes the spec diff of one block. intended (optional) is the generator's own
// reading of a one-line block; it must agree with the reference reader.
func judge(c *hx.Ctx, ln int, prec string, body []byte, rows []storedRow, errKind string, intended *point) {
	lines := splitBlock(body)
	exact := make([]lineOutcome, len(lines))
	adj := make([]lineOutcome, len(lines))
	strayDefect := false
	for i, l := range lines {
		eo, p, _, stray := exactOutcome(l, prec)
		exact[i], adj[i] = eo, eo
		if intended != nil && len(lines) == 1 {
			if p == nil || !pointEq(p, intended) {
				c.Violation(ln, "harness:oracle_disagrees_with_generator", "reference reader and generator read "+short(l)+" differently")
				return
			}
		}
		if stray {
			adj[i] = aloneOutcome(l, prec)
			if !sameOutcome(adj[i], eo) && !(adj[i].kind >= loParseErr && eo.kind >= loParseErr) {
				strayDefect = true
			}
			c.Count("line:stray_quote")
		}
	}
	// exact expectation of the block
	exactErr := false
	var exactRows []*storedRow
	for i := range exact {
		switch exact[i].kind {
		case loParseErr, loPostErr:
			exactErr = true
		case loRow:
			exactRows = append(exactRows, &exact[i].row)
		}
	}
	// adjusted expectation of the block
	adjErr, dropped := false, false
	var adjRows []*storedRow
	for i := range adj {
		switch adj[i].kind {
		case loParseErr:
			if i == len(adj)-1 {
				adjErr = true
			} else {
				dropped = true
			}
		case loPostErr:
			adjErr = true
		case loRow:
			adjRows = append(adjRows, &adj[i].row)
		}
	}
	gotErr := errKind != ""

	// ---- equal to the exact expectation? ---------------------------------------------------
	if gotErr && exactErr {
		c.Count("verdict:rejected_as_demanded")
		return
	}
	if !gotErr && !exactErr && len(rows) == len(exactRows) {
		all := true
		for i := range rows {
			if k, _ := compareRow(exactRows[i], &rows[i]); k != "" {
				all = false
				break
			}
		}
		if all {
			if len(lines) == 0 || len(rows) == 0 {
				c.Count("verdict:nothing_to_store")
			} else {
				c.Count("verdict:roundtrip_ok")
			}
			return
		}
	}
	if gotErr && !exactErr {
		// every line is valid by the reference grammar and the block is refused with an error:
		// nothing is stored and the client is told - not a violation of this property
		c.Count("verdict:valid_block_rejected:" + errKind)
		if !strayDefect && len(c.Stats.Notes) < 6 {
			c.Stats.Notes = append(c.Stats.Notes, "valid by the reference grammar, rejected ("+errKind+"): "+short(body))
		}
		return
	}

	// ---- the answer is 'ok' and differs from the exact expectation -----------------------
	unexplained := func(class, desc string) {
		c.Violation(ln, "unexplained:"+class, desc+"; block "+short(body)+" precision="+prec+" stored "+rowsText(rows))
	}
	if adjErr {
		unexplained("accepted_block_that_known_defects_do_not_accept", "the block holds a line that must fail it (also with the known defects applied) and was acknowledged")
		return
	}
	if len(rows) != len(adjRows) {
		unexplained("row_count", fmt.Sprintf("%d rows stored, %d expected with the known defects applied", len(rows), len(adjRows)))
		return
	}
	usedInt := false
	for i := range rows {
		ok, ui, class, desc := rowMatches(adjRows[i], &rows[i])
		if !ok {
			unexplained(class, fmt.Sprintf("row %d of %d: %s", i+1, len(rows), desc))
			return
		}
		usedInt = usedInt || ui
	}
	// fully explained by known defects: name exactly the ones that were needed
	n := 0
	if usedInt {
		n++
		c.Violation(ln, "int_abs_gt_2p53", "an integer field beyond 2^53 came back as int64(float64(n)); block "+short(body)+" stored "+rowsText(rows))
	}
	if strayDefect {
		n++
		c.Violation(ln, "stray_quote", "a line with a stray double quote is not read as the reference grammar reads it; block "+short(body)+" stored "+rowsText(rows))
	}
	if dropped {
		n++
		c.Violation(ln, "invalid_line_not_last", fmt.Sprintf("a line that does not parse and is not the last one was dropped without error; %d rows stored; block %s", len(rows), short(body)))
	}
	if n == 0 {
		unexplained("differs_from_exact_only", "the answer differs from the exact expectation although no known defect applies")
	}
}

func Run(c *hx.Ctx) error {
	c.Stats.Rule = "batch ops: 70% structured valid points (measurement/tags/field keys/strings over plain, special, unicode and non-UTF-8 bytes with random escape spellings; ints incl. 2^53 and int64 extremes; floats in every spelling; all boolean spellings; timestamps x 12 precision labels), 30% malformed; one-line blocks plus batches (20%), every row compared with the reference reading. req ops (n/10): the real HTTP handler with a recording points writer - db/rp/bucket/precision parameters in any order, duplicates, v1 and v2 entrance, gzip, 1% bodies of several 64 KiB blocks. split ops (n/10): ReadLinesBlockExt with small blocks, line limits, pooled-buffer capacities, chunked readers. e2e scenarios (n/50, three dumps each: memtable, file, every 25th after a reopen): 1-3 requests through handler -> points writer -> shard -> SELECT * / SELECT field -> JSON and CSV rendering, with shared series and timestamps (last write wins), duplicate keys, type conflicts, time keys, refused names, a malformed last line. Non-trivial: a batch line with an escape, an integer with > 15 digits, an exponent, or malformed; every req / e2e op; a split op of more than one block; distinct by op line."
	if c.Arg("mode", "") == "probe" {
		return runProbe(c)
	}
	if c.Arg("mode", "") == "replay" {
		return runReplay(c)
	}
	if c.Arg("mode", "") == "handler" {
		rr := hx.NewRng(c.Seed ^ 0x4a)
		var valid []genLine
		for len(valid) < 200 {
			g := genValid(rr)
			if p, _, stray := refLineQ(g.text); p != nil && !stray && p.hasTS && p.ts < 1e9 && len(p.name) > 0 && bytes.IndexByte(g.text, '\r') < 0 {
				valid = append(valid, g)
			}
		}
		return runHandlerOps(c, rr, c.Budget(500, 20000), func() []byte {
			if rr.Chance(80) {
				return genValid(rr).text
			}
			return genMalformed(rr).text
		}, func() []byte { return valid[rr.Intn(len(valid))].text })
	}
	if c.Arg("mode", "") == "e2e-child" {
		return runE2EChild(c)
	}
	if c.Arg("mode", "") == "e2e" {
		return runE2E(c, hx.NewRng(c.Seed^0xe2e), c.Budget(300, 6000))
	}
	n := c.Budget(20000, 1500000)
	r := hx.NewRng(c.Seed)
	nBatch := n / 5
	nSingle := n - nBatch
	var pool, poolBs, poolNoBs []genLine // everything; valid lines with / without a backslash
	keep := func(ps *[]genLine, g genLine) {
		if len(*ps) < 4096 {
			*ps = append(*ps, g)
		} else {
			(*ps)[r.Intn(len(*ps))] = g
		}
	}

	emit := func(prec string, body []byte) (int, []storedRow, string) {
		ans, rows, ek := runImpl(prec, body)
		ln := c.Emit(opLine(prec, body), ans)
		if ek == "panic" || strings.HasPrefix(ek, "other:") || ek == "no-callback" {
			c.Violation(ln, "panic_or_unknown_error", ans+" on "+short(body))
		}
		return ln, rows, ek
	}

	// fixed regression cases first: the defects this property found, and boundary inputs
	for _, s := range regressionLines {
		g := genLine{text: []byte(s), kind: "regression", nt: true}
		ln, rows, ek := emit("", g.text)
		judge(c, ln, "", g.text, rows, ek, g.intended)
		c.Case(opLine("", g.text), true)
		c.Count("kind:regression")
		pool = append(pool, g)
	}
	for _, s := range regressionBatches {
		body := []byte(s)
		ln, rows, ek := emit("", body)
		judge(c, ln, "", body, rows, ek, nil)
		c.Case(opLine("", body), true)
		c.Count("kind:regression-batch")
	}

	for i := 0; i < nSingle; i++ {
		var g genLine
		if r.Chance(70) {
			g = genValid(r)
		} else {
			g = genMalformed(r)
		}
		prec := precisions[r.Intn(len(precisions))]
		if r.Chance(50) {
			prec = ""
		}
		ln, rows, ek := emit(prec, g.text)
		judge(c, ln, prec, g.text, rows, ek, g.intended)
		c.Case(opLine(prec, g.text), g.nt)
		c.Count("kind:" + g.kind)
		c.Count("precision:" + prec)
		if ek != "" {
			c.Count("answer:err:" + ek)
		} else {
			c.Count("answer:ok")
		}
		if g.nt && g.intended != nil && ek == "" {
			c.Sample(short(g.text) + " => " + rowsText(rows))
		}
		keep(&pool, g)
		if g.intended != nil {
			if bytes.IndexByte(g.text, '\\') >= 0 {
				keep(&poolBs, g)
			} else {
				keep(&poolNoBs, g)
			}
		}
	}

	// a few long tokens around the length limits (250 / 255 / 65536)
	for _, g := range longTokenLines() {
		g := g
		ln, rows, ek := emit("", g.text)
		judge(c, ln, "", g.text, rows, ek, g.intended)
		c.Case(opLine("", g.text), true)
		c.Count("kind:long-token")
	}

	// batches. Two kinds: (a) 2-6 lines drawn from everything generated so far (valid,
	// malformed, empty, comment, CRLF); (b) 2-4 valid lines where the presence of a backslash
	// in each of the last two lines and the final newline are chosen explicitly, so that every
	// combination (escape in the last line only, in the line before only, in both, in neither)
	// x (newline-terminated or not) is hit with the same probability.
	pick := func(ps []genLine) []byte { return ps[r.Intn(len(ps))].text }
	for i := 0; i < nBatch; i++ {
		var body []byte
		kind := "batch:mixed"
		finalNL := r.Bool()
		if r.Chance(50) && len(poolBs) > 0 && len(poolNoBs) > 0 {
			k := 2 + r.Intn(3)
			bsPrev, bsLast := r.Bool(), r.Bool()
			for j := 0; j < k; j++ {
				withBs := r.Bool()
				if j == k-2 {
					withBs = bsPrev
				}
				if j == k-1 {
					withBs = bsLast
				}
				var l []byte
				if withBs {
					l = pick(poolBs)
				} else {
					l = pick(poolNoBs)
				}
				l = bytes.TrimSuffix(l, []byte{'\r'})
				body = append(body, l...)
				if j < k-1 || finalNL {
					body = append(body, '\n')
				}
			}
			kind = fmt.Sprintf("batch:valid:escPrev=%v,escLast=%v,finalNL=%v", bsPrev, bsLast, finalNL)
		} else {
			k := 2 + r.Intn(5)
			for j := 0; j < k; j++ {
				switch r.Intn(12) {
				case 0:
					// empty line
				case 1:
					body = append(body, "# comment"...)
				default:
					body = append(body, pick(pool)...)
				}
				if j < k-1 || finalNL {
					if r.Chance(10) {
						body = append(body, '\r')
					}
					body = append(body, '\n')
				}
			}
		}
		prec := precisions[r.Intn(len(precisions))]
		if r.Chance(50) {
			prec = ""
		}
		ln, rows, ek := emit(prec, body)
		judge(c, ln, prec, body, rows, ek, nil)
		c.Case(opLine(prec, body), true)
		c.Count("kind:" + kind)
		if ek != "" {
			c.Count("answer:batch-err")
		} else {
			c.Count("answer:batch-ok")
		}
	}

	// ---- the handler itself and the body splitter (handler.go) --------------------------------
	if c.Arg("skip-handler", "") == "" {
		valid := func() []byte {
			for {
				g := pick(poolNoBs)
				if bytes.IndexByte(g, '\r') >= 0 {
					continue
				}
				if p, _, stray := refLineQ(g); p != nil && !stray && p.hasTS && p.ts < 1e9 && len(p.name) > 0 {
					big := false
					for _, f := range p.fields {
						big = big || (f.v.kind == 'i' && abs53(f.v.i))
					}
					if !big {
						return g
					}
				}
			}
		}
		anyLine := func() []byte {
			if r.Chance(80) {
				return genValid(r).text
			}
			return genMalformed(r).text
		}
		if err := runHandlerOps(c, r, min(n/10, 30000), anyLine, valid); err != nil {
			return err
		}
	}
	// ---- end to end: write -> store -> query -> rendering (e2e.go) ---------------------------
	if c.Arg("skip-e2e", "") == "" {
		if err := runE2E(c, r, min(n/50, 10000)); err != nil {
			return err
		}
	}
	return nil
}

func rowsText(rows []storedRow) string {
	var parts []string
	for i := range rows {
		parts = append(parts, rows[i].text())
	}
	return strings.Join(parts, " | ")
}

var regressionLines = []string{
	"m v=abcf", "m v=inf", "m v=1.2.3f", "m v=nanf", "m v=1e400f", "m v=-inff", "m v=0x10f",
	"m v=+5", "m v=+.5", "m v=+5e2f",
	"m v=abc\"def\"", "m v=12\"x\" 5", "m v=\"a\",w=b\"c\"",
	"m v=9007199254740993i", "m v=9223372036854775807i", "m v=-9223372036854775808i", "m v=9007199254740992i", "m v=-9007199254740993i",
	"m v=77780518719671.5e34", "m v=104906.82454743e20", "m v=69404974734e-31", "m v=9007199254740993", "m v=0.1,w=1e23,x=8.5e22",
	"m v=1 9223372036854775807", "m v=1 -5", "m v=1u", "m v=\"abc\\\"", "m a\"b=5 123", " \t\x00m v=1", "m,a=,b=2 v=1", ",a=b v=1", "m v=1\r", "#x", "",
}

var regressionBatches = []string{
	"m v=1\nbad\nm v=2", "m v=1\nbad\n", "bad\n\n", "bad\n#c\n", "m v=1\nbad", "bad\r\n", "m v=1\n\nm v=2\n", "m v=\"a\nb w=1\n#\"",
	"cpu,host=a value=1 1000\ncpu,host=b\\=c value=2 2000", "cpu,host=a value=1 1000\ncpu,host=b\\,c value=2 2000", "m\\ x v=1\nm v=2", "m v=1\nm\\ x v=2\n",
}

func longTokenLines() []genLine {
	var out []genLine
	mk := func(s string) {
		out = append(out, genLine{text: []byte(s), kind: "long-token", nt: true})
	}
	for _, n := range []int{249, 250, 251} {
		mk(strings.Repeat("m", n) + " v=1")
	}
	for _, n := range []int{255, 256} {
		mk("m," + strings.Repeat("k", n) + "=v v=1")
		mk("m " + strings.Repeat("f", n) + "=1")
		mk("m," + strings.Repeat("\\,", n) + "=v v=1")
	}
	for _, n := range []int{65536, 65537} {
		mk("m,k=" + strings.Repeat("v", n) + " v=1")
	}
	return out
}
