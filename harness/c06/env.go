package c06

// In-process server for the end-to-end route of C06:
//
//	HTTP request (httptest) -> real httpd.Handler (/write: serveWrite, gzip, precision, db/rp,
//	ReadLinesBlockExt, unmarshal workers) -> real coordinator.PointsWriter (fixFields, schema
//	check against the catalogue, shard mapping) -> catalogue double over a real meta.Data
//	(Data.CreateMeasurement / UpdateSchema / CreateShardGroup) -> store double -> the real write
//	path of one stand-alone shard (engine.VerifShard.Write: memtable + WAL)
//
//	SELECT through the single-node query path (engine.VerifShard.Query: executor.Select, plan,
//	cursors) -> models.Row -> the real response formatter of the HTTP layer
//	(httpd.NewResponseWriter: JSON / CSV, epoch conversion) -> bytes a client reads.

import (
	"bytes"
	"compress/gzip"
	"fmt"
	"io"
	"net/http"
	"net/http/httptest"
	"net/url"
	"os"
	"sort"
	"strings"
	"sync"
	"time"

	"github.com/influxdata/influxdb/models"
	"github.com/influxdata/influxdb/toml"
	"github.com/openGemini/openGemini/coordinator"
	"github.com/openGemini/openGemini/engine"
	"github.com/openGemini/openGemini/lib/config"
	"github.com/openGemini/openGemini/lib/errno"
	"github.com/openGemini/openGemini/lib/metaclient"
	"github.com/openGemini/openGemini/lib/netstorage"
	"github.com/openGemini/openGemini/lib/util"
	"github.com/openGemini/openGemini/lib/util/lifted/influx/httpd"
	hconfig "github.com/openGemini/openGemini/lib/util/lifted/influx/httpd/config"
	"github.com/openGemini/openGemini/lib/util/lifted/influx/influxql"
	"github.com/openGemini/openGemini/lib/util/lifted/influx/meta"
	proto2 "github.com/openGemini/openGemini/lib/util/lifted/influx/meta/proto"
	"github.com/openGemini/openGemini/lib/util/lifted/influx/query"
	"github.com/openGemini/openGemini/lib/util/lifted/protobuf/proto"
	"github.com/openGemini/openGemini/lib/util/lifted/vm/protoparser/influx"

	"verif/harness/internal/hx"
)

const (
	e2eDB = "db0"
	e2eRP = "rp0"
)

var startWorkers sync.Once

// ---- catalogue double --------------------------------------------------------------------

// pwMeta is the points writer's view of the catalogue: reads are answered from a real
// meta.Data, the three commands a write can issue (create measurement, update schema, create
// shard group) are applied to it with the functions the meta state machine applies them with.
type pwMeta struct {
	coordinator.PWMetaClient // anything else: nil interface, panics (reported)
	mu                       sync.Mutex
	data                     *meta.Data
}

func (m *pwMeta) Database(name string) (*meta.DatabaseInfo, error) {
	m.mu.Lock()
	defer m.mu.Unlock()
	return m.data.GetDatabase(name)
}
func (m *pwMeta) RetentionPolicy(db, rp string) (*meta.RetentionPolicyInfo, error) {
	m.mu.Lock()
	defer m.mu.Unlock()
	return m.data.RetentionPolicy(db, rp)
}
func (m *pwMeta) CreateShardGroup(db, rp string, ts time.Time, version uint32, et config.EngineType) (*meta.ShardGroupInfo, error) {
	m.mu.Lock()
	defer m.mu.Unlock()
	sg, _, err := m.data.GetTierOfShardGroup(db, rp, ts, util.Hot, et)
	if err != nil {
		return nil, err
	}
	if sg == nil {
		if err = m.data.CreateShardGroup(db, rp, ts, util.Hot, et, version); err != nil {
			return nil, err
		}
		if sg, _, err = m.data.GetTierOfShardGroup(db, rp, ts, util.Hot, et); err != nil || sg == nil {
			return nil, err
		}
	}
	cp := *sg
	return &cp, nil
}
func (m *pwMeta) DBPtView(db string) (meta.DBPtInfos, error) {
	m.mu.Lock()
	defer m.mu.Unlock()
	return m.data.DBPtView(db), nil
}
func (m *pwMeta) Measurement(db, rp, name string) (*meta.MeasurementInfo, error) {
	m.mu.Lock()
	defer m.mu.Unlock()
	return m.data.Measurement(db, rp, name)
}
func (m *pwMeta) UpdateSchema(db, rp, mst string, f []*proto2.FieldSchema) error {
	m.mu.Lock()
	defer m.mu.Unlock()
	// the real client marshals the command for the meta server: nothing the catalogue keeps may
	// alias the request buffer the parser's strings point into
	cp := make([]*proto2.FieldSchema, len(f))
	for i := range f {
		cp[i] = &proto2.FieldSchema{FieldName: proto.String(strings.Clone(f[i].GetFieldName())), FieldType: proto.Int32(f[i].GetFieldType())}
		if f[i].EndTime != nil {
			cp[i].EndTime = proto.Int32(f[i].GetEndTime())
		}
	}
	return m.data.UpdateSchema(db, rp, strings.Clone(mst), cp)
}
func (m *pwMeta) CreateMeasurement(db, rp, mst string, shardKey *meta.ShardKeyInfo, numOfShards int32, indexR *influxql.IndexRelation,
	engineType config.EngineType, colStoreInfo *meta.ColStoreInfo, schemaInfo []*proto2.FieldSchema, options *meta.Options) (*meta.MeasurementInfo, error) {
	m.mu.Lock()
	defer m.mu.Unlock()
	db, rp, mst = strings.Clone(db), strings.Clone(rp), strings.Clone(mst)
	// as metaclient.Client.CreateMeasurement
	if msti, err := m.data.Measurement(db, rp, mst); msti != nil {
		return msti, nil
	} else if err != meta.ErrMeasurementNotFound {
		return nil, err
	}
	if !meta.ValidMeasurementName(mst) {
		return nil, errno.NewError(errno.InvalidMeasurement, mst)
	}
	var ski *proto2.ShardKeyInfo
	if shardKey != nil {
		ski = shardKey.Marshal()
	}
	if err := m.data.CreateMeasurement(db, rp, mst, ski, numOfShards, nil, engineType, nil, schemaInfo, nil); err != nil {
		return nil, err
	}
	return m.data.Measurement(db, rp, mst)
}
func (m *pwMeta) GetAliveShards(db string, sgi *meta.ShardGroupInfo, isRead bool) []int {
	out := make([]int, len(sgi.Shards))
	for i := range out {
		out[i] = i
	}
	return out
}
func (m *pwMeta) GetStreamInfos() map[string]*meta.StreamInfo                   { return nil }
func (m *pwMeta) GetDstStreamInfos(db, rp string, dst *[]*meta.StreamInfo) bool { return false }
func (m *pwMeta) DBRepGroups(db string) []meta.ReplicaGroup                     { return nil }
func (m *pwMeta) GetReplicaN(db string) (int, error)                            { return 1, nil }
func (m *pwMeta) UpdateSchemaByCmd(cmd *proto2.UpdateSchemaCommand) error {
	return m.UpdateSchema(cmd.GetDatabase(), cmd.GetRpName(), cmd.GetMeasurement(), cmd.GetFieldToCreate())
}
func (m *pwMeta) GetSgEndTime(db, rp string, t time.Time, et config.EngineType) (int64, error) {
	return 0, fmt.Errorf("not used with SchemaCleanEn off")
}

// ---- store double ------------------------------------------------------------------------

// shardStore hands every batch the points writer mapped to a shard to the one stand-alone
// shard (what LocalStore.WriteRows -> Storage.WriteRows -> shard.WriteRows does on a single
// node; VerifShard.Write marshals the rows for the WAL the same way).
type shardStore struct {
	mu sync.Mutex
	e  *e2eEnv
}

func (s *shardStore) WriteRows(ctx *netstorage.WriteContext, nodeID uint64, pt uint32, database, rp string, timeout time.Duration) error {
	if len(ctx.Rows) == 0 {
		return nil
	}
	s.mu.Lock()
	defer s.mu.Unlock()
	// (this runs in a goroutine of the points writer: a panic of the shard's write path must come
	// back as a failed write with the scenario as replay, not end the run)
	var err error
	if perr := hx.Safe(func() { err = s.e.sh.Write(ctx.Rows) }); perr != "" {
		s.e.panics = append(s.e.panics, perr)
		return fmt.Errorf("shard write: %s", perr)
	}
	return err
}

// recStore records what the points writer would send (handler ops).
type recWriter struct {
	mu    sync.Mutex
	calls []recCall
	fail  error
	t0    int64
}
type recCall struct {
	db, rp string
	rows   []storedRow
	nowN   int
}

// ---- environment -------------------------------------------------------------------------

type e2eEnv struct {
	dir    string
	sh     *engine.VerifShard
	data   *meta.Data
	pm     *pwMeta
	client *metaclient.Client
	h      *httpd.Handler
	pw     *coordinator.PointsWriter
	panics []string // panics of the shard's write path (reported by the runner)
}

func newCatalogue() (*meta.Data, error) {
	data := &meta.Data{PtNumPerNode: 1}
	if _, err := data.CreateDataNode("127.0.0.1:8400", "127.0.0.1:8401", "", ""); err != nil {
		return nil, err
	}
	if err := data.CreateDatabase(e2eDB, nil, nil, false, 1, nil); err != nil {
		return nil, err
	}
	if _, err := data.CreateDBPtView(e2eDB); err != nil {
		return nil, err
	}
	rpi := meta.NewRetentionPolicyInfo(e2eRP)
	rpi.Duration = 0
	if err := data.CreateRetentionPolicy(e2eDB, rpi, true); err != nil {
		return nil, err
	}
	// a second policy and a second database: the handler must hand db / rp on unswapped
	rp1 := meta.NewRetentionPolicyInfo("rp1")
	rp1.Duration = 0
	if err := data.CreateRetentionPolicy(e2eDB, rp1, false); err != nil {
		return nil, err
	}
	if err := data.CreateDatabase("rp0", nil, nil, false, 1, nil); err != nil { // a database named like the policy
		return nil, err
	}
	if _, err := data.CreateDBPtView("rp0"); err != nil {
		return nil, err
	}
	return data, nil
}

func newHandler(data *meta.Data, blockSize int) (*httpd.Handler, *metaclient.Client) {
	return newHandlerMax(data, blockSize, 0)
}

// newHandlerMax: maxBody > 0 sets max-body-size.
func newHandlerMax(data *meta.Data, blockSize, maxBody int) (*httpd.Handler, *metaclient.Client) {
	startWorkers.Do(influx.StartUnmarshalWorkers)
	c := hconfig.NewConfig()
	c.AuthEnabled = false
	if maxBody > 0 {
		c.MaxBodySize = maxBody
	}
	if blockSize > 0 {
		c.ReadBlockSize = toml.Size(blockSize)
	}
	h := httpd.NewHandler(c)
	cl := metaclient.NewClient("", false, 16)
	cl.SetCacheData(data)
	h.MetaClient = cl
	h.SQLConfig = config.NewTSSql(false)
	return h, cl
}

func newE2E(dir string) (*e2eEnv, error) {
	e := &e2eEnv{dir: dir}
	var err error
	if e.data, err = newCatalogue(); err != nil {
		return nil, err
	}
	if e.sh, err = engine.VerifOpenShard(dir, 1); err != nil {
		return nil, err
	}
	e.sh.DetachFromCompactor()
	e.sh.Quiesce()
	e.pm = &pwMeta{data: e.data}
	e.pw = coordinator.NewPointsWriter(2 * time.Second)
	e.pw.MetaClient = e.pm
	e.pw.TSDBStore = &shardStore{e: e}
	e.h, e.client = newHandler(e.data, 0)
	e.h.PointsWriter = e.pw
	return e, nil
}

func (e *e2eEnv) reopen() error {
	if err := e.sh.Close(); err != nil {
		return err
	}
	sh, err := engine.VerifOpenShard(e.dir, 1)
	if err != nil {
		return err
	}
	sh.DetachFromCompactor()
	sh.Quiesce()
	e.sh = sh
	return nil
}

func (e *e2eEnv) close() {
	if e.sh != nil {
		_ = e.sh.Close()
	}
	_ = os.RemoveAll(e.dir)
}

// ---- requests ----------------------------------------------------------------------------

type writeReq struct {
	params [][2]string // in order, as sent
	body   []byte
	gzip   bool
	v2     bool // /api/v2/write?bucket=db/rp
	// the body source: nil = the whole body with its length announced; else a reader of unknown
	// length (chunked upload) that may fail after some bytes
	src io.Reader
	// gzipHeader: src already is a gzip stream
	gzipHeader bool
}

// failingReader delivers data in chunks and ends with err (nil: io.EOF).
type failingReader struct {
	data  []byte
	chunk int
	err   error
}

func (r *failingReader) Read(p []byte) (int, error) {
	if len(r.data) == 0 {
		if r.err != nil {
			return 0, r.err
		}
		return 0, io.EOF
	}
	n := len(r.data)
	if r.chunk > 0 && n > r.chunk {
		n = r.chunk
	}
	if n > len(p) {
		n = len(p)
	}
	copy(p, r.data[:n])
	r.data = r.data[n:]
	return n, nil
}

func (w *writeReq) target() string {
	q := url.Values{}
	var raw []string
	for _, kv := range w.params {
		q.Set(kv[0], kv[1])
		raw = append(raw, url.QueryEscape(kv[0])+"="+url.QueryEscape(kv[1]))
	}
	path := "/write"
	if w.v2 {
		path = "/api/v2/write"
	}
	s := path
	for i, r := range raw {
		if i == 0 {
			s += "?"
		} else {
			s += "&"
		}
		s += r
	}
	return s
}

type writeResp struct {
	status int
	body   string
	panicS string
	hung   bool
}

func serveWriteReq(h *httpd.Handler, w *writeReq) writeResp {
	body := w.body
	if w.gzip {
		var zb bytes.Buffer
		zw := gzip.NewWriter(&zb)
		_, _ = zw.Write(body)
		_ = zw.Close()
		body = zb.Bytes()
	}
	var rd io.Reader = bytes.NewReader(body)
	if w.src != nil {
		rd = w.src
	}
	req := httptest.NewRequest("POST", w.target(), rd)
	if w.gzip || w.gzipHeader {
		req.Header.Set("Content-Encoding", "gzip")
	}
	rr := httptest.NewRecorder()
	done := make(chan string, 1)
	go func() {
		defer func() {
			if p := recover(); p != nil {
				done <- fmt.Sprint("panic: ", p)
			}
		}()
		h.ServeHTTP(rr, req)
		done <- ""
	}()
	select {
	case p := <-done:
		return writeResp{status: rr.Code, body: rr.Body.String(), panicS: p}
	case <-time.After(30 * time.Second):
		return writeResp{hung: true}
	}
}

// ---- query + rendering ------------------------------------------------------------------

// schemaOf: field types and tag keys of a measurement as the catalogue knows them (what the
// shard mapper of a real server hands to the planner).
func (e *e2eEnv) schemaOf(mst string) (string, map[string]influxql.DataType, []string, bool) {
	return e.schemaOfDB(e2eDB, mst)
}

func (e *e2eEnv) schemaOfDB(db, mst string) (string, map[string]influxql.DataType, []string, bool) {
	mi, err := e.pm.Measurement(db, e2eRP, mst)
	if err != nil || mi == nil {
		return "", nil, nil, false
	}
	fields := map[string]influxql.DataType{}
	var tags []string
	mi.SchemaLock.RLock()
	if mi.Schema != nil {
		for k, v := range *mi.Schema {
			switch int32(v.Typ) {
			case influx.Field_Type_Tag:
				tags = append(tags, k)
			case influx.Field_Type_Int:
				fields[k] = influxql.Integer
			case influx.Field_Type_Float:
				fields[k] = influxql.Float
			case influx.Field_Type_Boolean:
				fields[k] = influxql.Boolean
			case influx.Field_Type_String:
				fields[k] = influxql.String
			}
		}
	}
	mi.SchemaLock.RUnlock()
	sort.Strings(tags)
	return mi.Name, fields, tags, true
}

// render: what the HTTP layer writes for these series (Accept header chooses the formatter,
// epoch as in serveQuery).
func render(series []engine.VerifSeries, accept, epoch string) ([]byte, error) {
	res := &query.Result{}
	for i := range series {
		s := &series[i]
		row := &models.Row{Name: s.Name, Tags: s.Tags, Columns: s.Columns}
		for _, v := range s.Values {
			row.Values = append(row.Values, append([]interface{}(nil), v...))
		}
		res.Series = append(res.Series, row)
	}
	if epoch != "" && epoch != "rfc3339" {
		httpd.VerifConvertToEpoch(res, epoch)
	}
	req := httptest.NewRequest("GET", "/query", nil)
	if accept != "" {
		req.Header.Set("Accept", accept)
	}
	rr := httptest.NewRecorder()
	rw := httpd.NewResponseWriter(rr, req)
	if _, err := rw.WriteResponse(httpd.Response{Results: []*query.Result{res}}); err != nil {
		return rr.Body.Bytes(), err
	}
	return rr.Body.Bytes(), nil
}

var _ = http.StatusOK
