package c06

// End-to-end scenarios: a few /write requests against an empty set of measurements, then
// SELECT * (and SELECT <field>) through the real executor, rendered by the HTTP layer's
// formatter, decoded the way a client decodes it, and compared
//
//	impl vs model   op `e2e <req>;<req>…` -> canonical dump of every measurement (OG.C06.Store)
//	                op `again file|reopen` -> the same dump after a flush / after a reopen
//	impl vs spec    every cell a client reads back = the value the line's text denotes (reference
//	                reader of oracle.go + a last-write-wins map kept here by brute force)

import (
	"bytes"
	"encoding/csv"
	"encoding/hex"
	"encoding/json"
	"fmt"
	"math"
	"os"
	"os/exec"
	"sort"
	"strconv"
	"strings"
	"time"
	"unicode/utf8"

	"github.com/openGemini/openGemini/engine"
	"github.com/openGemini/openGemini/lib/util/lifted/influx/influxql"

	"verif/harness/internal/hx"
)

// ---- decoded query results ------------------------------------------------------------------

type cell struct {
	null bool
	v    fval
}

func (c cell) text() string {
	if c.null {
		return "-"
	}
	switch c.v.kind {
	case 'i':
		return "i" + strconv.FormatInt(c.v.i, 10)
	case 'f':
		return fmt.Sprintf("f%016x", c.v.bits)
	case 'b':
		if c.v.b {
			return "b1"
		}
		return "b0"
	case 's':
		return "s" + hexOr(c.v.s)
	}
	return "?" + string(c.v.kind)
}

type qcol struct {
	name []byte
	typ  byte // i f b s t(ag)
}
type qrow struct {
	ts    int64
	cells []cell
}
type qtable struct {
	name []byte
	cols []qcol // without time
	rows []qrow
}

func (t *qtable) text() string {
	var sb strings.Builder
	sb.WriteString(hexOr(t.name))
	sb.WriteByte(' ')
	if len(t.cols) == 0 {
		sb.WriteByte('-')
	}
	for i, c := range t.cols {
		if i > 0 {
			sb.WriteByte(',')
		}
		sb.WriteString(hexOr(c.name) + ":" + string(c.typ))
	}
	sb.WriteByte(' ')
	if len(t.rows) == 0 {
		sb.WriteByte('-')
	}
	rs := make([]string, len(t.rows))
	for i, r := range t.rows {
		cs := make([]string, len(r.cells))
		for j, c := range r.cells {
			cs[j] = c.text()
		}
		rs[i] = strconv.FormatInt(r.ts, 10) + ":" + strings.Join(cs, ",")
	}
	sortRowTexts(t.rows, rs)
	sb.WriteString(strings.Join(rs, ";"))
	return sb.String()
}

// rows of different series with the same timestamp come in the executor's merge order; the
// dump orders them by (time, text)
func sortRowTexts(rows []qrow, texts []string) {
	idx := make([]int, len(rows))
	for i := range idx {
		idx[i] = i
	}
	sort.SliceStable(idx, func(a, b int) bool {
		if rows[idx[a]].ts != rows[idx[b]].ts {
			return rows[idx[a]].ts < rows[idx[b]].ts
		}
		return texts[idx[a]] < texts[idx[b]]
	})
	out := make([]string, len(texts))
	for i, j := range idx {
		out[i] = texts[j]
	}
	copy(texts, out)
}

type jsonResp struct {
	Results []struct {
		Series []struct {
			Name    string            `json:"name"`
			Tags    map[string]string `json:"tags"`
			Columns []string          `json:"columns"`
			Values  [][]interface{}   `json:"values"`
		} `json:"series"`
		Err string `json:"error"`
	} `json:"results"`
	Err string `json:"error"`
}

// decodeJSON: the client's side. types: column name -> i f b s t.
func decodeJSON(b []byte, types map[string]byte, timeFmt string) (*qtable, error) {
	var r jsonResp
	d := json.NewDecoder(bytes.NewReader(b))
	d.UseNumber()
	if err := d.Decode(&r); err != nil {
		return nil, fmt.Errorf("json: %v", err)
	}
	if r.Err != "" {
		return nil, fmt.Errorf("response error: %s", r.Err)
	}
	t := &qtable{}
	if len(r.Results) != 1 {
		return nil, fmt.Errorf("%d results", len(r.Results))
	}
	if r.Results[0].Err != "" {
		return nil, fmt.Errorf("result error: %s", r.Results[0].Err)
	}
	for si, s := range r.Results[0].Series {
		if len(s.Columns) == 0 || s.Columns[0] != "time" {
			return nil, fmt.Errorf("first column is not time: %v", s.Columns)
		}
		var cols []qcol
		for _, cn := range s.Columns[1:] {
			ty, ok := types[cn]
			if !ok {
				return nil, fmt.Errorf("column %q is not in the schema", cn)
			}
			cols = append(cols, qcol{[]byte(cn), ty})
		}
		if si == 0 {
			t.name = []byte(s.Name)
			t.cols = cols
		} else if len(cols) != len(t.cols) {
			return nil, fmt.Errorf("series with different columns")
		}
		for _, vals := range s.Values {
			if len(vals) != len(cols)+1 {
				return nil, fmt.Errorf("row of %d values for %d columns", len(vals), len(cols)+1)
			}
			row := qrow{}
			switch tv := vals[0].(type) {
			case json.Number:
				n, err := strconv.ParseInt(string(tv), 10, 64)
				if err != nil {
					return nil, fmt.Errorf("time %q", tv)
				}
				row.ts = n
			case string:
				tm, err := time.Parse(time.RFC3339Nano, tv)
				if err != nil {
					return nil, fmt.Errorf("time %q", tv)
				}
				row.ts = tm.UnixNano()
			default:
				return nil, fmt.Errorf("time of type %T", tv)
			}
			for j, v := range vals[1:] {
				c, err := decodeCell(v, cols[j].typ)
				if err != nil {
					return nil, fmt.Errorf("column %q: %v", cols[j].name, err)
				}
				row.cells = append(row.cells, c)
			}
			t.rows = append(t.rows, row)
		}
	}
	return t, nil
}

func decodeCell(v interface{}, typ byte) (cell, error) {
	switch x := v.(type) {
	case nil:
		return cell{null: true}, nil
	case bool:
		if typ != 'b' {
			return cell{}, fmt.Errorf("boolean in a column of type %c", typ)
		}
		return cell{v: fval{kind: 'b', b: x}}, nil
	case string:
		if typ != 's' && typ != 't' {
			return cell{}, fmt.Errorf("string in a column of type %c", typ)
		}
		return cell{v: fval{kind: 's', s: []byte(x)}}, nil
	case json.Number:
		switch typ {
		case 'i':
			n, err := strconv.ParseInt(string(x), 10, 64)
			if err != nil {
				return cell{}, fmt.Errorf("integer rendered as %q", x)
			}
			return cell{v: fval{kind: 'i', i: n}}, nil
		case 'f':
			f, err := strconv.ParseFloat(string(x), 64)
			if err != nil {
				return cell{}, fmt.Errorf("float rendered as %q", x)
			}
			return cell{v: fval{kind: 'f', bits: math.Float64bits(f)}}, nil
		}
		return cell{}, fmt.Errorf("number in a column of type %c", typ)
	}
	return cell{}, fmt.Errorf("value of type %T", v)
}

// decodeCSV: name,tags,time,<columns>; cells are text.
func decodeCSV(b []byte, types map[string]byte) (*qtable, error) {
	rd := csv.NewReader(bytes.NewReader(b))
	rd.FieldsPerRecord = -1
	recs, err := rd.ReadAll()
	if err != nil {
		return nil, fmt.Errorf("csv: %v", err)
	}
	t := &qtable{}
	if len(recs) == 0 {
		return t, nil
	}
	hd := recs[0]
	if len(hd) < 3 || hd[0] != "name" || hd[1] != "tags" || hd[2] != "time" {
		return nil, fmt.Errorf("csv header %v", hd)
	}
	for _, cn := range hd[3:] {
		ty, ok := types[cn]
		if !ok {
			return nil, fmt.Errorf("column %q is not in the schema", cn)
		}
		t.cols = append(t.cols, qcol{[]byte(cn), ty})
	}
	for _, rec := range recs[1:] {
		if len(rec) != len(hd) {
			return nil, fmt.Errorf("csv row of %d cells under a header of %d", len(rec), len(hd))
		}
		t.name = []byte(rec[0])
		n, err := strconv.ParseInt(rec[2], 10, 64)
		if err != nil {
			return nil, fmt.Errorf("csv time %q", rec[2])
		}
		row := qrow{ts: n}
		for j, txt := range rec[3:] {
			ty := t.cols[j].typ
			var c cell
			switch {
			case txt == "" && ty != 's' && ty != 't':
				c = cell{null: true}
			case ty == 'i':
				v, err := strconv.ParseInt(txt, 10, 64)
				if err != nil {
					return nil, fmt.Errorf("csv integer %q", txt)
				}
				c = cell{v: fval{kind: 'i', i: v}}
			case ty == 'f':
				v, err := strconv.ParseFloat(txt, 64)
				if err != nil {
					return nil, fmt.Errorf("csv float %q", txt)
				}
				c = cell{v: fval{kind: 'f', bits: math.Float64bits(v)}}
			case ty == 'b':
				if txt != "true" && txt != "false" {
					return nil, fmt.Errorf("csv boolean %q", txt)
				}
				c = cell{v: fval{kind: 'b', b: txt == "true"}}
			case txt == "":
				c = cell{null: true} // null or the empty string: not distinguishable in CSV
			default:
				c = cell{v: fval{kind: 's', s: []byte(txt)}}
			}
			row.cells = append(row.cells, c)
		}
		t.rows = append(t.rows, row)
	}
	return t, nil
}

// ---- scenario ---------------------------------------------------------------------------------

type e2eLine struct {
	text []byte
	p    *point // the generator's intention (nil: malformed on purpose)
}
type e2eReq struct {
	prec  string
	lines []e2eLine
	gzip  bool
	noNL  bool // no newline after the last line
}

func (q *e2eReq) body() []byte {
	var b []byte
	for i, l := range q.lines {
		b = append(b, l.text...)
		if i < len(q.lines)-1 || !q.noNL {
			b = append(b, '\n')
		}
	}
	return b
}

type scenario struct {
	reqs []e2eReq
	kind string
}

func (s *scenario) op() string {
	parts := make([]string, len(s.reqs))
	for i := range s.reqs {
		parts[i] = hexOr([]byte(s.reqs[i].prec)) + ":" + hexOr(s.reqs[i].body())
	}
	return "e2e " + strings.Join(parts, ";")
}

func (s *scenario) short() string {
	var sb strings.Builder
	for i := range s.reqs {
		fmt.Fprintf(&sb, "[precision=%q %s] ", s.reqs[i].prec, short(s.reqs[i].body()))
	}
	return sb.String()
}

const asciiName = "abcdefghijklmnopqrstuvwxyzABCDEFGHIJKLMNOPQRSTUVWXYZ0123456789_-.:!#$%&'()*+<>?@[]^`{|}~ =\""

type pools struct {
	names    [][]byte
	tagKeys  [][]byte
	tagVals  map[string][][]byte
	fldKeys  [][]byte
	fldType  map[string]byte
	times    []int64
	hourBase int64
}

func genE2EName(r *hx.Rng, uniq int) []byte {
	n := 1 + r.Intn(6)
	var b []byte
	for len(b) < n {
		c := asciiName[r.Intn(len(asciiName))]
		if r.Chance(70) {
			c = plainAlphabet[r.Intn(len(plainAlphabet))]
		}
		if len(b) == 0 && (c == '#' || c == ' ') {
			continue
		}
		b = append(b, c)
	}
	if r.Chance(4) {
		b = append(b, ",;/\\"[r.Intn(4)]) // a name the catalogue refuses
	}
	return append(b, []byte("~"+strconv.FormatInt(int64(uniq), 36))...)
}

func genKey(r *hx.Rng, sp int) []byte {
	for {
		k := genBytes(r, 1, 5, sp)
		if bytes.IndexByte(k, '"') >= 0 || bytes.IndexByte(k, '\n') >= 0 {
			continue // a double quote in a key: finding stray_quote (covered by the block ops)
		}
		return k
	}
}

func genPools(r *hx.Rng, uniq int) *pools {
	p := &pools{tagVals: map[string][][]byte{}, fldType: map[string]byte{}}
	sp := 0
	if r.Chance(50) {
		sp = 15 + r.Intn(25)
	}
	p.names = append(p.names, genE2EName(r, uniq))
	if r.Chance(25) {
		p.names = append(p.names, genE2EName(r, uniq))
	}
	for i := r.Intn(4); i > 0; i-- {
		k := genKey(r, sp)
		if r.Chance(3) {
			k = []byte("time")
		}
		p.tagKeys = append(p.tagKeys, k)
		for j := 1 + r.Intn(2); j > 0; j-- {
			v := genBytes(r, 1, 6, sp)
			v = bytes.ReplaceAll(v, []byte{'\n'}, []byte{'n'})
			p.tagVals[string(k)] = append(p.tagVals[string(k)], v)
		}
	}
	for i := 1 + r.Intn(4); i > 0; i-- {
		k := genKey(r, sp)
		if r.Chance(2) {
			k = []byte("time")
		}
		if r.Chance(3) && len(p.tagKeys) > 0 {
			k = p.tagKeys[r.Intn(len(p.tagKeys))] // a field named like a tag
		}
		p.fldKeys = append(p.fldKeys, k)
		p.fldType[string(k)] = "ifbs"[r.Intn(4)]
	}
	// timestamps: an hour base (the same instant whatever the precision of the request) plus a
	// few units of the request's precision; now and then a value at the end of the int64 range
	p.hourBase = []int64{0, 0, 444444, 444445, 1139568, 2562047}[r.Intn(6)]
	for i := 1 + r.Intn(3); i > 0; i-- {
		p.times = append(p.times, int64(r.Intn(3)))
	}
	if r.Chance(5) {
		p.times = append(p.times, -1) // math.MaxInt64 - k, as written
	}
	return p
}

func genValue(r *hx.Rng, typ byte, hasEscape *bool) (fval, []byte) {
	switch typ {
	case 'i':
		n := genInt(r)
		return fval{kind: 'i', i: n}, []byte(strconv.FormatInt(n, 10) + "i")
	case 'f':
		for {
			txt := genFloatText(r)
			f, err := strconv.ParseFloat(txt, 64)
			if err == nil && !math.IsInf(f, 0) && txt[0] != '+' {
				if r.Chance(10) {
					txt += "f"
				}
				return fval{kind: 'f', bits: math.Float64bits(f)}, []byte(txt)
			}
		}
	case 'b':
		t := boolTexts[r.Intn(len(boolTexts))]
		return fval{kind: 'b', b: boolSpellings[t]}, []byte(t)
	}
	sp := 10
	if r.Chance(50) {
		sp = 40
	}
	s := genBytes(r, 0, 10, sp)
	s = bytes.ReplaceAll(s, []byte{'\n'}, []byte{'n'})
	return fval{kind: 's', s: s}, spellString(r, s, hasEscape)
}

func genE2ELine(r *hx.Rng, p *pools, conflictPct int, prec string) e2eLine {
	pt := &point{hasTS: true}
	esc := false
	pt.name = p.names[r.Intn(len(p.names))]
	line := spellEscaped(r, pt.name, ", ", &esc)
	for _, k := range p.tagKeys {
		if !r.Chance(70) {
			continue
		}
		vs := p.tagVals[string(k)]
		v := vs[r.Intn(len(vs))]
		pt.tags = append(pt.tags, tagKV{k, v})
		line = append(line, ',')
		line = append(line, spellEscaped(r, k, ", =", &esc)...)
		line = append(line, '=')
		line = append(line, spellEscaped(r, v, ", ", &esc)...)
		if r.Chance(2) { // the same tag key twice
			pt.tags = append(pt.tags, tagKV{k, v})
			line = append(line, ',')
			line = append(line, spellEscaped(r, k, ", =", &esc)...)
			line = append(line, '=')
			line = append(line, spellEscaped(r, v, ", ", &esc)...)
		}
	}
	// tags in random order on the wire (the parser sorts them)
	line = append(line, ' ')
	first := true
	order := r.Intn(len(p.fldKeys))
	for i := range p.fldKeys {
		k := p.fldKeys[(i+order)%len(p.fldKeys)]
		if !first && !r.Chance(60) {
			continue
		}
		reps := 1
		if r.Chance(3) {
			reps = 2 // the same field key twice in one line
		}
		for ; reps > 0; reps-- {
			typ := p.fldType[string(k)]
			if r.Chance(conflictPct) {
				typ = "ifbs"[r.Intn(4)]
			}
			v, txt := genValue(r, typ, &esc)
			if !first {
				line = append(line, ',')
			}
			first = false
			line = append(line, spellEscaped(r, k, ", =", &esc)...)
			line = append(line, '=')
			line = append(line, txt...)
			pt.fields = append(pt.fields, fieldKV{k, v})
		}
	}
	if k := p.times[r.Intn(len(p.times))]; k < 0 {
		pt.ts = math.MaxInt64 - int64(r.Intn(3))
	} else {
		pt.ts = p.hourBase*(3600e9/specMultiplier(prec)) + k
	}
	line = append(line, ' ')
	line = append(line, strconv.FormatInt(pt.ts, 10)...)
	return e2eLine{text: line, p: pt}
}

var e2ePrecisions = []string{"", "", "", "ns", "n", "u", "us", "µ", "ms", "s", "m", "h", "xyz"}

func genScenario(r *hx.Rng, uniq int) *scenario {
	p := genPools(r, uniq)
	s := &scenario{kind: "clean"}
	conflictPct := 0
	if r.Chance(15) {
		conflictPct = 20
	}
	nreq := 1 + r.Intn(3)
	for i := 0; i < nreq; i++ {
		q := e2eReq{prec: e2ePrecisions[r.Intn(len(e2ePrecisions))], gzip: r.Chance(15), noNL: r.Bool()}
		nl := 1 + r.Intn(4)
		if r.Chance(10) {
			nl = 5 + r.Intn(8)
		}
		for j := 0; j < nl; j++ {
			q.lines = append(q.lines, genE2ELine(r, p, conflictPct, q.prec))
		}
		if r.Chance(6) {
			// a line outside the grammar as the last line of the body: the whole request is refused
			// (anywhere else: finding invalid_line_not_last, covered by the block ops)
			for {
				m := genMalformed(r)
				if p, _, stray := refLineQ(m.text); p == nil && !stray && len(m.text) > 0 && m.text[0] != '#' {
					q.lines = append(q.lines, e2eLine{text: m.text})
					q.noNL = r.Bool()
					break
				}
			}
		}
		s.reqs = append(s.reqs, q)
	}
	return s
}

// ---- the spec side: what the scenario's text denotes ------------------------------------------
//
// Every line is read by the reference reader of oracle.go. What the points writer does with the
// points is the property plus the rules documented in props/C06.json (assumptions):
//   * a request whose block holds a line outside the grammar (the last processed line; for the
//     others see finding invalid_line_not_last), a point without measurement or a timestamp
//     that does not fit is refused as a whole (400), nothing of it is stored
//   * per point, in the order of the request - refused with an error (the rest of the request
//     is stored, the answer is 400 "partial write"): a time outside [MinNanoTime, MaxNanoTime];
//     a field key twice with two types; a measurement name the catalogue refuses; a tag key
//     twice; a tag key that is a field of the measurement (or a field of the same point while
//     both are new); a field whose type differs from the measurement's schema loses that field
//     (the point, when no field is left); a tag named `time` is dropped (the point is kept)
//   * silently: a field named `time` is ignored; of a field key written twice with one type the
//     last value counts; a point whose fields are all named `time` fails the request (500) and
//     nothing of the request is stored
//   * the same (series, time) written again: last write wins per field

const (
	minNanoTime = math.MinInt64 + 2
	maxNanoTime = math.MaxInt64 - 1
)

// shardGroupOf: shard groups of the default policy last one week and start on Mondays 00:00 UTC
// (time.Truncate counts from the year 1); 1970-01-01 was a Thursday.
func shardGroupOf(ts int64) int64 {
	const week = int64(7 * 24 * 3600 * 1e9)
	const off = int64(3 * 24 * 3600 * 1e9)
	q := (ts/1 + off)
	if ts > math.MaxInt64-off {
		// no overflow: compare in weeks
		return (ts-(week-off))/week + 1
	}
	if q >= 0 {
		return q / week
	}
	return -((-q + week - 1) / week)
}

func validMstName(b []byte) bool {
	if len(b) == 0 || string(b) == "." || string(b) == ".." {
		return false
	}
	for _, c := range b {
		if c < 0x20 || c > 0x7e || strings.IndexByte(",;/\\", c) >= 0 {
			return false // the generator of this file uses ASCII names only
		}
	}
	return true
}

func tagsKey(ts []tagKV) string {
	var sb strings.Builder
	for _, t := range ts {
		sb.WriteString(hex.EncodeToString(t.k) + "=" + hex.EncodeToString(t.v) + ",")
	}
	return sb.String()
}

type expPoint struct {
	tags   []tagKV
	ts     int64
	fields map[string]fval
}
type expMst struct {
	schema map[string]byte // i f b s t
	points map[string]*expPoint
}
type expectation struct {
	msts     map[string]*expMst
	statuses []string // 204 | 400 | 400partial | 500
	unknown  string   // set when the scenario leaves the rules above (replayed ops only)
	notes    map[string]bool
}

func kindOf(v fval) byte { return v.kind }

func expect(s *scenario) *expectation {
	x := &expectation{msts: map[string]*expMst{}, notes: map[string]bool{}}
	for qi := range s.reqs {
		q := &s.reqs[qi]
		mult := specMultiplier(q.prec)
		// ---- the block ------------------------------------------------------------------
		var pts []*point
		blockErr := false
		lines := splitBlock(q.body())
		for li, l := range lines {
			p, reason, stray := refLineQ(l)
			if reason == "skip" {
				continue
			}
			if p == nil || stray {
				if li != len(lines)-1 || stray {
					x.unknown = "a line outside the grammar that is not the last one, or a stray quote (findings invalid_line_not_last / stray_quote)"
				}
				blockErr = true
				x.notes["line outside the grammar"] = true
				continue
			}
			if len(p.name) == 0 {
				blockErr = true
				continue
			}
			if !p.hasTS {
				x.unknown = "a line without timestamp (server clock)"
				continue
			}
			if p.ts > math.MaxInt64/mult {
				blockErr = true
				x.notes["timestamp x precision out of range"] = true
				continue
			}
			cp := *p
			cp.ts = p.ts * mult
			pts = append(pts, &cp)
		}
		if blockErr {
			x.statuses = append(x.statuses, "400")
			continue
		}
		// ---- the points writer ----------------------------------------------------------
		partial := false
		type pend struct {
			mst string
			pt  *expPoint
		}
		var pending []pend
		for _, p := range pts {
			if p.ts < minNanoTime || p.ts > maxNanoTime {
				partial = true
				x.notes["time outside the supported range"] = true
				continue
			}
			// fields: `time` ignored, duplicates
			type fv struct {
				k string
				v fval
			}
			var fs []fv
			conflict := false
			for _, f := range p.fields {
				if string(f.k) == "time" {
					x.notes["field named time"] = true
					continue
				}
				dup := false
				for i := range fs {
					if fs[i].k == string(f.k) {
						if fs[i].v.kind != f.v.kind {
							conflict = true
						}
						fs[i].v = f.v
						dup = true
						x.notes["field key twice in a line"] = true
					}
				}
				if !dup {
					fs = append(fs, fv{string(f.k), f.v})
				}
			}
			if conflict {
				partial = true
				x.notes["field key twice with two types"] = true
				continue
			}
			if !validMstName(p.name) {
				partial = true
				x.notes["measurement name refused"] = true
				continue
			}
			mst := string(p.name)
			m := x.msts[mst]
			if m == nil {
				m = &expMst{schema: map[string]byte{}, points: map[string]*expPoint{}}
				x.msts[mst] = m
			}
			var tags []tagKV
			for _, t := range p.tags {
				if len(t.k) > 0 && len(t.v) > 0 {
					tags = append(tags, t)
				}
			}
			sortTags(tags)
			// tags against the schema
			drop := false
			newKeys := map[string]byte{}
			kept := tags[:0:0]
			for i, t := range tags {
				if string(t.k) == "time" {
					partial = true
					x.notes["tag named time"] = true
					continue
				}
				if i < len(tags)-1 && bytes.Equal(tags[i+1].k, t.k) {
					drop = true
					x.notes["tag key twice"] = true
					break
				}
				if ty, ok := m.schema[string(t.k)]; ok && ty != 't' {
					drop = true
					x.notes["tag key is a field"] = true
					break
				} else if !ok {
					newKeys[string(t.k)] = 't'
				}
				kept = append(kept, t)
			}
			if drop {
				partial = true
				continue
			}
			tags = kept
			// fields against the schema
			var okFields []fv
			for _, f := range fs {
				if ty, ok := m.schema[f.k]; ok {
					if ty != f.v.kind {
						partial = true
						x.notes["field type conflict"] = true
						continue
					}
				} else {
					if _, isNewTag := newKeys[f.k]; isNewTag {
						drop = true // the catalogue refuses the update: one new key with two types
						x.notes["new key is a tag and a field"] = true
						break
					}
					newKeys[f.k] = f.v.kind
				}
				okFields = append(okFields, f)
			}
			if drop {
				partial = true
				continue
			}
			if len(okFields) == 0 && len(fs) > 0 {
				partial = true // every field conflicted: the point is dropped, nothing is registered
				continue
			}
			for k, ty := range newKeys {
				m.schema[k] = ty
			}
			if len(okFields) == 0 {
				x.notes["point without fields"] = true
			}
			ep := &expPoint{tags: tags, ts: p.ts, fields: map[string]fval{}}
			for _, f := range okFields {
				ep.fields[f.k] = f.v
			}
			pending = append(pending, pend{mst, ep})
		}
		// the points go to the store shard group by shard group (one week each); a group that
		// holds a point without fields (all its fields were named time) fails as a whole (500)
		failed := map[int64]bool{}
		for _, pe := range pending {
			if len(pe.pt.fields) == 0 {
				failed[shardGroupOf(pe.pt.ts)] = true
			}
		}
		switch {
		case len(failed) > 0:
			x.statuses = append(x.statuses, "500")
		case partial:
			x.statuses = append(x.statuses, "400partial")
		default:
			x.statuses = append(x.statuses, "204")
		}
		for _, pe := range pending {
			if failed[shardGroupOf(pe.pt.ts)] {
				continue
			}
			m := x.msts[pe.mst]
			key := tagsKey(pe.pt.tags) + "@" + strconv.FormatInt(pe.pt.ts, 10)
			old := m.points[key]
			if old == nil {
				m.points[key] = pe.pt
				continue
			}
			for k, v := range pe.pt.fields {
				old.fields[k] = v
			}
		}
	}
	return x
}

// jsonText: what a JSON string can carry of a byte string (each invalid byte -> U+FFFD).
func jsonText(b []byte) []byte {
	var out []byte
	for len(b) > 0 {
		r, n := utf8.DecodeRune(b)
		if r == utf8.RuneError && n == 1 {
			out = append(out, "\uFFFD"...)
		} else {
			out = append(out, b[:n]...)
		}
		b = b[n:]
	}
	return out
}

// tables renders the expectation as the tables a client must read. mode: "json" (text through
// jsonText), "csv" (empty string = empty cell). intTrip: integers beyond 2^53 as the known
// defect returns them.
func (x *expectation) tables(mode string, intTrip bool) (map[string]*qtable, bool) {
	out := map[string]*qtable{}
	used := false
	txt := func(b []byte) []byte {
		if mode == "json" {
			return jsonText(b)
		}
		return b
	}
	for name, m := range x.msts {
		t := &qtable{name: []byte(name)}
		keys := hx.SortedKeys(m.schema)
		if mode == "json" { // columns are ordered by the stored key; what is shown is its rendering
			for _, k := range keys {
				t.cols = append(t.cols, qcol{txt([]byte(k)), m.schema[k]})
			}
		} else {
			for _, k := range keys {
				t.cols = append(t.cols, qcol{[]byte(k), m.schema[k]})
			}
		}
		for _, pk := range hx.SortedKeys(m.points) {
			p := m.points[pk]
			row := qrow{ts: p.ts}
			for _, k := range keys {
				c := cell{null: true}
				if m.schema[k] == 't' {
					for _, tg := range p.tags {
						if string(tg.k) == k {
							c = cell{v: fval{kind: 's', s: txt(tg.v)}}
						}
					}
				} else if v, ok := p.fields[k]; ok {
					if v.kind == 's' {
						v.s = txt(v.s)
						if mode == "csv" && len(v.s) == 0 {
							c = cell{null: true}
						} else {
							c = cell{v: v}
						}
					} else {
						if intTrip && v.kind == 'i' && abs53(v.i) {
							v.i = int64(float64(v.i))
							used = true
						}
						c = cell{v: v}
					}
				}
				row.cells = append(row.cells, c)
			}
			t.rows = append(t.rows, row)
		}
		if len(t.rows) == 0 {
			t.cols = nil
		}
		out[name] = t
	}
	return out, used
}

func tablesText(ts map[string]*qtable) string {
	var parts []string
	for _, k := range hx.SortedKeys(ts) {
		parts = append(parts, ts[k].text())
	}
	return strings.Join(parts, " | ")
}

func ieee(b uint64) string { return strconv.FormatFloat(math.Float64frombits(b), 'g', -1, 64) }

func showCell(c cell) string {
	if c.null {
		return "null"
	}
	v := c.v
	switch v.kind {
	case 'i':
		return strconv.FormatInt(v.i, 10) + "i"
	case 'f':
		return fmt.Sprintf("%s (0x%016x)", ieee(v.bits), v.bits)
	case 'b':
		return strconv.FormatBool(v.b)
	case 's':
		return strconv.Quote(string(v.s))
	}
	return "?"
}

// firstDifference describes where got departs from want.
func firstDifference(want, got map[string]*qtable) string {
	for _, name := range hx.SortedKeys(want) {
		w, g := want[name], got[name]
		if g == nil {
			return fmt.Sprintf("measurement %q is not returned", name)
		}
		if len(w.cols) != len(g.cols) {
			return fmt.Sprintf("measurement %q: %d columns returned, %d expected", name, len(g.cols), len(w.cols))
		}
		for j := range w.cols {
			if !bytes.Equal(w.cols[j].name, g.cols[j].name) || w.cols[j].typ != g.cols[j].typ {
				return fmt.Sprintf("measurement %q: column %q of type %c returned where %q of type %c is expected", name, g.cols[j].name, g.cols[j].typ, w.cols[j].name, w.cols[j].typ)
			}
		}
		wr, gr := rowTexts(w), rowTexts(g)
		for i := 0; i < len(wr) || i < len(gr); i++ {
			switch {
			case i >= len(gr):
				return fmt.Sprintf("measurement %q: the point %s was acknowledged and is not returned", name, describeRow(w, wr[i].idx))
			case i >= len(wr):
				return fmt.Sprintf("measurement %q: the point %s is returned and was not written", name, describeRow(g, gr[i].idx))
			case wr[i].text != gr[i].text:
				a, b := w.rows[wr[i].idx], g.rows[gr[i].idx]
				if a.ts == b.ts {
					for j := range a.cells {
						if a.cells[j].text() != b.cells[j].text() {
							return fmt.Sprintf("measurement %q time %d column %q reads %s, written %s (point %s)", name, a.ts, w.cols[j].name, showCell(b.cells[j]), showCell(a.cells[j]), describeRow(w, wr[i].idx))
						}
					}
				}
				return fmt.Sprintf("measurement %q: expected the point %s, returned %s", name, describeRow(w, wr[i].idx), describeRow(g, gr[i].idx))
			}
		}
	}
	for _, name := range hx.SortedKeys(got) {
		if want[name] == nil && len(got[name].rows) > 0 {
			return fmt.Sprintf("measurement %q is returned and was never written", name)
		}
	}
	return ""
}

type rowText struct {
	text string
	idx  int
}

func rowTexts(t *qtable) []rowText {
	out := make([]rowText, len(t.rows))
	for i, r := range t.rows {
		cs := make([]string, len(r.cells))
		for j, c := range r.cells {
			cs[j] = c.text()
		}
		out[i] = rowText{strconv.FormatInt(r.ts, 10) + ":" + strings.Join(cs, ","), i}
	}
	sort.SliceStable(out, func(a, b int) bool {
		if t.rows[out[a].idx].ts != t.rows[out[b].idx].ts {
			return t.rows[out[a].idx].ts < t.rows[out[b].idx].ts
		}
		return out[a].text < out[b].text
	})
	return out
}

func describeRow(t *qtable, i int) string {
	r := t.rows[i]
	var parts []string
	for j, c := range r.cells {
		if !c.null {
			parts = append(parts, strconv.Quote(string(t.cols[j].name))+"="+showCell(c))
		}
	}
	return fmt.Sprintf("{time %d: %s}", r.ts, strings.Join(parts, " "))
}

// specDiff compares what a client read with what the text denotes.
func (x *e2eRunner) specDiff(ln int, s *scenario, want *expectation, statuses []string, got map[string]*qtable, stage, mode string) {
	c := x.c
	viol := func(class, desc string) {
		c.Violation(ln, class, desc+" ("+stage+"); requests "+s.short())
	}
	for _, st := range statuses {
		if st == "hung" || st == "panic" {
			viol("unexplained:panic_or_hang", "a write request ended with "+st)
			return
		}
	}
	if want.unknown != "" {
		c.Count("e2e:verdict:not_judged")
		return
	}
	for i := range statuses {
		if (statuses[i] == "204") != (want.statuses[i] == "204") {
			viol("unexplained:status", fmt.Sprintf("request %d was answered %s, the text demands %s", i+1, statuses[i], want.statuses[i]))
			return
		}
	}
	exact, _ := want.tables(mode, false)
	for name := range got { // a measurement that exists without rows is not part of the answer
		if exact[name] == nil {
			exact[name] = &qtable{name: []byte(name)}
		}
	}
	for name := range exact {
		if got[name] == nil {
			got[name] = &qtable{name: []byte(name)}
		}
	}
	if tablesText(exact) == tablesText(got) {
		c.Count("e2e:verdict:roundtrip_ok:" + stage)
		return
	}
	adj, used := want.tables(mode, true)
	for name := range got {
		if adj[name] == nil {
			adj[name] = &qtable{name: []byte(name)}
		}
	}
	if used && tablesText(adj) == tablesText(got) {
		viol("int_abs_gt_2p53", "an integer field beyond 2^53 came back as int64(float64(n)): "+firstDifference(exact, got))
		return
	}
	viol("unexplained:"+strings.SplitN(strings.ReplaceAll(firstDifferenceClass(adj, got), " ", "_"), ":", 2)[0], firstDifference(adj, got))
}

func firstDifferenceClass(want, got map[string]*qtable) string {
	d := firstDifference(want, got)
	switch {
	case strings.Contains(d, "reads"):
		return "value_differs"
	case strings.Contains(d, "is not returned"):
		return "point_lost"
	case strings.Contains(d, "was not written"), strings.Contains(d, "never written"):
		return "point_invented"
	case strings.Contains(d, "column"):
		return "columns_differ"
	}
	return "rows_differ"
}

// ---- running one scenario -----------------------------------------------------------------------

type e2eRunner struct {
	c    sink
	e    *e2eEnv
	uniq int
}

func statusClass(r writeResp) string {
	switch {
	case r.hung:
		return "hung"
	case r.panicS != "":
		return "panic"
	case r.status == 204:
		return "204"
	case r.status == 400 && strings.Contains(r.body, "partial write"):
		return "400partial"
	case r.status == 400:
		return "400"
	}
	return strconv.Itoa(r.status)
}

// dump queries every measurement of the scenario and renders the canonical answer; tables are
// returned for the spec diff.
func (x *e2eRunner) dump(names []string, accept, epoch string) (string, map[string]*qtable, error) {
	x.e.sh.FlushIndex()
	var parts []string
	tables := map[string]*qtable{}
	for _, name := range names {
		vname, fields, tags, ok := x.e.schemaOf(name)
		if !ok {
			continue
		}
		types := map[string]byte{}
		asRendered := func(k string) string {
			if strings.Contains(accept, "csv") {
				return k
			}
			return string(jsonText([]byte(k)))
		}
		for k, t := range fields {
			switch t {
			case influxql.Integer:
				types[asRendered(k)] = 'i'
			case influxql.Float:
				types[asRendered(k)] = 'f'
			case influxql.Boolean:
				types[asRendered(k)] = 'b'
			case influxql.String:
				types[asRendered(k)] = 's'
			}
		}
		for _, k := range tags {
			types[asRendered(k)] = 't'
		}
		if len(types) != len(fields)+len(tags) {
			return "", nil, errKeysCollide
		}
		var res []engine.VerifSeries
		var err error
		if perr := hx.Safe(func() { res, err = x.e.sh.Query("SELECT * FROM "+influxql.QuoteIdent(vname), fields, tags, 0) }); perr != "" {
			return "", nil, fmt.Errorf("query of %q: %s", name, perr)
		}
		if err != nil {
			return "", nil, fmt.Errorf("query of %q: %v", name, strings.SplitN(err.Error(), "\n", 2)[0])
		}
		out, err := render(res, accept, epoch)
		if err != nil {
			return "", nil, fmt.Errorf("render of %q: %v", name, err)
		}
		var t *qtable
		if strings.Contains(accept, "csv") {
			t, err = decodeCSV(out, types)
		} else {
			t, err = decodeJSON(out, types, epoch)
		}
		if err != nil {
			return "", nil, fmt.Errorf("decoding the answer for %q: %v; answer %s", name, err, short(out))
		}
		if len(t.rows) == 0 {
			// no series: the columns come from the schema
			t.cols = nil
		}
		if len(t.rows) > 0 && string(t.name) != name {
			return "", nil, fmt.Errorf("measurement %q answered as %q", name, t.name)
		}
		t.name = []byte(name)
		tables[name] = t
		parts = append(parts, t.text())
		// SELECT <field>: the same values as the column of SELECT * (first and last field column)
		if !strings.Contains(accept, "csv") && epoch == "ns" {
			if msg := x.selectField(vname, name, fields, tags, t); msg != "" {
				return "", nil, fmt.Errorf("%s", msg)
			}
		}
	}
	return strings.Join(parts, " | "), tables, nil
}

// selectField runs SELECT "<f>" FROM m for up to two field columns of t and compares the
// values with the column of SELECT *. "" = equal (or the key cannot be written in InfluxQL).
func (x *e2eRunner) selectField(vname, name string, fields map[string]influxql.DataType, tags []string, t *qtable) string {
	var keys []string
	for k := range fields {
		if utf8.ValidString(k) && !strings.ContainsAny(k, "\x00\n\r") {
			keys = append(keys, k)
		}
	}
	sort.Strings(keys)
	if len(keys) > 2 {
		keys = []string{keys[0], keys[len(keys)-1]}
	}
	for _, k := range keys {
		col := -1
		for j, c := range t.cols {
			if string(c.name) == k && c.typ != 't' {
				col = j
			}
		}
		if col < 0 {
			continue
		}
		var want []string
		for _, r := range t.rows {
			if !r.cells[col].null {
				want = append(want, strconv.FormatInt(r.ts, 10)+":"+r.cells[col].text())
			}
		}
		sort.Strings(want)
		q := "SELECT " + influxql.QuoteIdent(k) + " FROM " + influxql.QuoteIdent(vname)
		var res []engine.VerifSeries
		var err error
		if perr := hx.Safe(func() { res, err = x.e.sh.Query(q, fields, tags, 0) }); perr != "" {
			return fmt.Sprintf("%s: %s", q, perr)
		}
		if err != nil {
			x.c.Count("e2e:select-field:query-refused")
			continue
		}
		out, err := render(res, "application/json", "ns")
		if err != nil {
			return fmt.Sprintf("%s: render: %v", q, err)
		}
		ty := t.cols[col].typ
		ft, err := decodeJSON(out, map[string]byte{k: ty}, "ns")
		if err != nil {
			return fmt.Sprintf("%s: %v; answer %s", q, err, short(out))
		}
		var got []string
		for _, r := range ft.rows {
			if len(r.cells) == 1 && !r.cells[0].null {
				got = append(got, strconv.FormatInt(r.ts, 10)+":"+r.cells[0].text())
			}
		}
		sort.Strings(got)
		if strings.Join(got, ";") != strings.Join(want, ";") {
			return fmt.Sprintf("%s answers %v, the column of SELECT * holds %v (measurement %q)", q, got, want, name)
		}
		x.c.Count("e2e:select-field:same")
	}
	return ""
}

var errKeysCollide = fmt.Errorf("two keys of the measurement are the same text once rendered")

func tagsText(ts []tagKV) string {
	var parts []string
	for _, t := range ts {
		parts = append(parts, strconv.Quote(string(t.k))+"="+strconv.Quote(string(t.v)))
	}
	return "{" + strings.Join(parts, ",") + "}"
}

func (s *scenario) names() []string {
	set := map[string]bool{}
	for qi := range s.reqs {
		for _, l := range s.reqs[qi].lines {
			if p, _ := refLine(l.text); p != nil {
				set[string(p.name)] = true
			}
		}
	}
	return hx.SortedKeys(set)
}

// run executes one scenario: requests, then mem / file (/ reopen) dumps.
func (x *e2eRunner) run(s *scenario, reopen, reopenFirst bool) error {
	c := x.c
	want := expect(s)
	var statuses []string
	for qi := range s.reqs {
		q := &s.reqs[qi]
		params := [][2]string{{"db", e2eDB}}
		if q.prec != "" {
			params = append(params, [2]string{"precision", q.prec})
		}
		resp := serveWriteReq(x.e.h, &writeReq{params: params, body: q.body(), gzip: q.gzip})
		statuses = append(statuses, statusClass(resp))
		c.Count("e2e:status:" + statusClass(resp))
	}
	names := s.names()
	head := "st=" + strings.Join(statuses, ",")
	if len(x.e.panics) > 0 {
		ln := c.Emit(s.op(), "err "+x.e.panics[0])
		c.Violation(ln, "unexplained:panic_in_write_path", x.e.panics[0]+"; requests "+s.short())
		x.e.panics = nil
		return nil
	}
	stage := func(op, label string) {
		txt, tables, err := x.dump(names, "application/json", "ns")
		if err == errKeysCollide {
			c.Count("e2e:skipped:keys_collide_once_rendered")
			c.Emit(op, "skip")
			return
		}
		if err != nil {
			ln := c.Emit(op, "err "+err.Error())
			c.Violation(ln, "unexplained:query_failed", err.Error()+" ("+label+"); requests "+s.short())
			return
		}
		ln := c.Emit(op, head+" | "+txt)
		x.specDiff(ln, s, want, statuses, tables, label+",json,epoch=ns", "json")
		// the other renderings of the same answer: RFC3339 times, and CSV (byte-exact text)
		txt2, _, err2 := x.dump(names, "application/json", "")
		if err2 != nil || txt2 != txt {
			c.Violation(ln, "unexplained:rfc3339_differs", fmt.Sprintf("the answer with RFC3339 times differs from the one with epoch=ns (%s): %v %s vs %s; requests %s", label, err2, txt2, txt, s.short()))
		}
		_, tcsv, err3 := x.dump(names, "application/csv", "ns")
		if err3 != nil {
			c.Violation(ln, "unexplained:csv_failed", err3.Error()+" ("+label+"); requests "+s.short())
		} else if !s.hasCR() {
			x.specDiff(ln, s, want, statuses, tcsv, label+",csv", "csv")
		}
	}
	stage(s.op(), "memtable")
	if reopenFirst {
		// close and open again before anything was flushed by the harness (shutdown flush / WAL)
		if err := x.e.reopen(); err != nil {
			return err
		}
		stage("again restart", "after restart")
	}
	x.e.sh.Flush()
	stage("again file", "after flush")
	if reopen {
		if err := x.e.reopen(); err != nil {
			return err
		}
		stage("again reopen", "after reopen")
	}
	c.Case(s.op(), true)
	for k := range want.notes {
		c.Count("e2e:rule:" + k)
	}
	if want.unknown != "" {
		c.Count("e2e:scenario:not_judged")
	} else if len(want.notes) == 0 {
		c.Count("e2e:scenario:plain")
	}
	return nil
}

// hasCR: encoding/csv cannot carry a lone carriage return unchanged; such scenarios are not
// compared through the CSV rendering
func (s *scenario) hasCR() bool {
	for qi := range s.reqs {
		if bytes.IndexByte(s.reqs[qi].body(), '\r') >= 0 {
			return true
		}
	}
	return false
}

var _ = utf8.RuneError

// runE2E: n scenarios on one shard; every 25th scenario is followed by a reopen.
// sink: where the runner reports (the harness context, or the child's record file).
type sink interface {
	Emit(op, implAnswer string) int
	Violation(line int, class, desc string)
	Count(bucket string)
	Case(key string, nontrivial bool)
}

// runE2E runs the end-to-end scenarios in a child process (the same binary, mode e2e-child):
// the storage engine works in goroutines of its own, a panic there cannot be recovered and would
// end the run without a failing input. The child appends one record per report to a file; the
// parent replays the records into the harness context and, when the child died, reports the
// scenario that was running with the panic's first lines.
func runE2E(c *hx.Ctx, r *hx.Rng, n int) error {
	if n <= 0 {
		return nil
	}
	seed := r.U64()
	if c.Arg("e2e-inprocess", "") != "" {
		return runE2EScenarios(c, c.Out+"/c06-e2e-shard", hx.NewRng(seed), n, c.Arg("e2eonly", "0"), nil)
	}
	childOut := c.Out + "/c06-e2e-child"
	if err := os.MkdirAll(childOut, 0o755); err != nil {
		return err
	}
	recFile := childOut + "/records.txt"
	logFile, err := os.Create(childOut + "/log.txt")
	if err != nil {
		return err
	}
	cmd := exec.Command(os.Args[0], "C06", "-seed", strconv.FormatUint(c.Seed, 10), "-tier", c.Tier, "-n", strconv.Itoa(n), "-out", childOut,
		"-D", "mode=e2e-child", "-D", "e2eseed="+strconv.FormatUint(seed, 10), "-D", "records="+recFile, "-D", "e2eonly="+c.Arg("e2eonly", "0"))
	cmd.Stdout, cmd.Stderr = logFile, logFile
	runErr := cmd.Run()
	logFile.Close()
	// replay the child's records
	data, _ := os.ReadFile(recFile)
	base := 0
	lastChildLine, lastParentLine := 0, 0
	running := ""
	for _, rec := range strings.Split(string(data), "\n") {
		f := strings.Split(rec, "\t")
		switch f[0] {
		case "B": // a scenario begins
			if len(f) == 2 {
				running = f[1]
			}
		case "D":
			running = ""
		case "E":
			if len(f) == 4 {
				ln := c.Emit(f[2], f[3])
				lastChildLine, _ = strconv.Atoi(f[1])
				lastParentLine = ln
				base = lastParentLine - lastChildLine
			}
		case "V":
			if len(f) == 4 {
				ln, _ := strconv.Atoi(f[1])
				c.Violation(ln+base, f[2], f[3])
			}
		case "C":
			if len(f) == 2 {
				c.Count(f[1])
			}
		case "K":
			if len(f) == 3 {
				c.Case(f[1], f[2] == "1")
			}
		}
	}
	if runErr != nil {
		logTail := ""
		if b, err := os.ReadFile(childOut + "/log.txt"); err == nil {
			txt := string(b)
			if i := strings.LastIndex(txt, "panic:"); i >= 0 {
				txt = txt[i:]
			} else if len(txt) > 1500 {
				txt = txt[len(txt)-1500:]
			}
			if len(txt) > 1500 {
				txt = txt[:1500]
			}
			logTail = strings.ReplaceAll(strings.ReplaceAll(txt, "\n", " | "), "\t", " ")
		}
		if running == "" {
			return fmt.Errorf("the end-to-end child process failed outside a scenario: %v: %s", runErr, logTail)
		}
		s, perr := parseE2EOp(running)
		desc := "the process died while this scenario was written, flushed or queried: " + logTail
		if perr == nil {
			desc += "; requests " + s.short()
		}
		ln := c.Emit(running, "err crash")
		c.Violation(ln, "unexplained:crash_in_storage", desc)
	}
	return nil
}

// fileSink: the child's side of the record file (unbuffered: a record is on disk when the call returns).
type fileSink struct {
	f     *os.File
	lines int
}

func clean(s string) string {
	return strings.ReplaceAll(strings.ReplaceAll(s, "\n", " "), "\t", " ")
}
func (k *fileSink) Emit(op, ans string) int {
	k.lines++
	fmt.Fprintf(k.f, "E\t%d\t%s\t%s\n", k.lines, clean(op), clean(ans))
	return k.lines
}
func (k *fileSink) Violation(line int, class, desc string) {
	fmt.Fprintf(k.f, "V\t%d\t%s\t%s\n", line, clean(class), clean(desc))
}
func (k *fileSink) Count(b string) { fmt.Fprintf(k.f, "C\t%s\n", clean(b)) }
func (k *fileSink) Case(key string, nt bool) {
	fmt.Fprintf(k.f, "K\t%s\t%d\n", clean(key), b2i(nt))
}

func runE2EChild(c *hx.Ctx) error {
	f, err := os.Create(c.Arg("records", c.Out+"/records.txt"))
	if err != nil {
		return err
	}
	defer f.Close()
	seed, _ := strconv.ParseUint(c.Arg("e2eseed", "1"), 10, 64)
	k := &fileSink{f: f}
	return runE2EScenarios(k, c.Out+"/c06-e2e-shard", hx.NewRng(seed), c.Budget(400, 10000), c.Arg("e2eonly", "0"), f)
}

// runE2EScenarios: n scenarios on one shard; every 25th is followed by a reopen, another one is
// restarted before the harness flushed anything.
func runE2EScenarios(c sink, dir string, r *hx.Rng, n int, onlyArg string, marks *os.File) error {
	e, err := newE2E(dir)
	if err != nil {
		return err
	}
	defer e.close()
	x := &e2eRunner{c: c, e: e}
	only, _ := strconv.Atoi(onlyArg)
	for i := 0; i < n; i++ {
		x.uniq++
		s := genScenario(r.Fork(), x.uniq)
		if only > 0 && x.uniq != only {
			continue
		}
		if marks != nil {
			fmt.Fprintf(marks, "B\t%s\n", s.op())
		}
		if err := x.run(s, i%25 == 24 || only > 0, i%25 == 12); err != nil {
			return err
		}
		if marks != nil {
			fmt.Fprintf(marks, "D\n")
		}
	}
	return nil
}

func unhexOr(s string) ([]byte, error) {
	if s == "-" {
		return nil, nil
	}
	return hex.DecodeString(s)
}

// parseE2EOp: the inverse of scenario.op (one line per request body, kept as one "line").
func parseE2EOp(op string) (*scenario, error) {
	f := strings.Fields(op)
	if len(f) != 2 || f[0] != "e2e" {
		return nil, fmt.Errorf("not an e2e op")
	}
	s := &scenario{}
	for _, part := range strings.Split(f[1], ";") {
		pb := strings.SplitN(part, ":", 2)
		if len(pb) != 2 {
			return nil, fmt.Errorf("bad request %q", part)
		}
		prec, err := unhexOr(pb[0])
		if err != nil {
			return nil, err
		}
		body, err := unhexOr(pb[1])
		if err != nil {
			return nil, err
		}
		q := e2eReq{prec: string(prec), noNL: true}
		for _, l := range bytes.Split(body, []byte{'\n'}) {
			q.lines = append(q.lines, e2eLine{text: l})
		}
		s.reqs = append(s.reqs, q)
	}
	return s, nil
}
