package c06

// Reference reading of one line of line protocol, written independently of parser.go: one
// pass from left to right over the four sections. It is the oracle of the spec diff for the
// malformed stream (for generated lines the generator's own intention is the oracle, and the
// two are cross-checked).
//
// Grammar (InfluxDB 1.x line protocol with the deviations the code documents or its tests
// encode, all listed in props/C06.json):
//   line      = ws* measurement ("," tag)* " "+ field ("," field)* (" "+ timestamp?)? "\r"?
//   ws        = " " | "\t" | NUL                       (leading only)
//   measurement, tag key, tag value, field key: bytes; "\" before one of `, =\` escapes it,
//               any other "\" is literal; an unescaped "," / " " / "=" delimits
//   tag       = key "=" value; a tag whose key or value is empty is ignored
//   field     = key "=" value, key not empty
//   value     = integer "i" | number | number "f" | boolean | string
//   integer   = "-"? digit+                  within the int64 range
//   number    = [+-]? (digit+ ("." digit*)? | "." digit+) ([eE] [+-]? digit+)?   finite as float64
//   boolean   = t T true True TRUE f F false False FALSE
//   string    = '"' body '"'; in the body `\\` is a backslash, `\"` a quote, any other "\"
//               literal; the body ends at the first unescaped quote
//   timestamp = digit+ within the int64 range, surrounded by optional white space
// A line that is empty or starts with "#" is skipped. A newline always ends a line.

import (
	"bytes"
	"math"
	"regexp"
	"strconv"
	"strings"
)

type fval struct {
	kind byte // 'i' 'f' 'b' 's'
	i    int64
	bits uint64
	b    bool
	s    []byte
}

type tagKV struct{ k, v []byte }
type fieldKV struct {
	k []byte
	v fval
}

type point struct {
	name   []byte
	tags   []tagKV
	fields []fieldKV
	hasTS  bool
	ts     int64 // as written (before the precision multiplier)
}

var numberRe = regexp.MustCompile(`^[+-]?([0-9]+([.][0-9]*)?([eE][+-]?[0-9]+)?|[.][0-9]+([eE][+-]?[0-9]+)?)$`)
var integerRe = regexp.MustCompile(`^-?[0-9]+$`)

var boolSpellings = map[string]bool{"t": true, "T": true, "true": true, "True": true, "TRUE": true,
	"f": false, "F": false, "false": false, "False": false, "FALSE": false}

func isEscapable(c byte) bool { return c == ',' || c == ' ' || c == '=' || c == '\\' }

// refValue classifies an unquoted field value token.
func refValue(tok []byte) (fval, string) {
	s := string(tok)
	if len(s) == 0 {
		return fval{}, "empty_value"
	}
	if b, ok := boolSpellings[s]; ok {
		return fval{kind: 'b', b: b}, ""
	}
	last := s[len(s)-1]
	switch last {
	case 'i':
		body := s[:len(s)-1]
		if !integerRe.MatchString(body) {
			return fval{}, "bad_integer"
		}
		n, err := strconv.ParseInt(body, 10, 64)
		if err != nil {
			return fval{}, "integer_out_of_range"
		}
		return fval{kind: 'i', i: n}, ""
	case 'u':
		return fval{}, "unsigned_unsupported"
	}
	body := s
	reason := "bad_number"
	if last == 'f' {
		body = s[:len(s)-1]
		reason = "f_suffix_non_number"
	}
	if !numberRe.MatchString(body) {
		if strings.HasPrefix(body, "+") && numberRe.MatchString(body[1:]) {
			reason = "leading_plus"
		}
		return fval{}, reason
	}
	f, err := strconv.ParseFloat(body, 64)
	if err != nil || math.IsInf(f, 0) || math.IsNaN(f) {
		return fval{}, "number_out_of_range"
	}
	return fval{kind: 'f', bits: math.Float64bits(f)}, ""
}

// refLine: (point, "") valid (an empty measurement is left to the caller: the parser accepts it and
// CheckValid rejects the row afterwards); (nil, "skip"); (nil, reason) invalid.
func refLine(line []byte) (*point, string) {
	p, reason, _ := refLineQ(line)
	return p, reason
}

// refLineQ also reports whether the field section holds a double quote that is not a string
// delimiter of the grammar (in a field key, in or after a value, or an unterminated string):
// the class predicate of the finding "stray_quote".
func refLineQ(line []byte) (pt *point, reason string, stray bool) {
	defer func() {
		if reason == "garbage_after_string" || reason == "unterminated_string" || reason == "quote_in_unquoted_value" {
			stray = true
		}
	}()
	if n := len(line); n > 0 && line[n-1] == '\r' {
		line = line[:n-1]
	}
	if len(line) == 0 || line[0] == '#' {
		return nil, "skip", stray
	}
	i := 0
	for i < len(line) && (line[i] == ' ' || line[i] == '\t' || line[i] == 0) {
		i++
	}
	p := &point{}
	// ---- measurement and tags --------------------------------------------------------------
	// token reader for escaped sections: reads until an unescaped byte of stop
	readTok := func(stop string) (tok []byte, delim byte, ok bool) {
		for i < len(line) {
			c := line[i]
			if c == '\\' {
				if i+1 < len(line) && isEscapable(line[i+1]) {
					tok = append(tok, line[i+1])
					i += 2
					continue
				}
				tok = append(tok, '\\')
				i++
				continue
			}
			if strings.IndexByte(stop, c) >= 0 {
				i++
				return tok, c, true
			}
			tok = append(tok, c)
			i++
		}
		return tok, 0, false
	}
	name, d, ok := readTok(", ")
	if !ok {
		return nil, "no_fields", stray
	}
	p.name = name
	for d == ',' {
		k, d2, ok := readTok("=, ")
		if !ok {
			return nil, "no_fields", stray
		}
		if d2 != '=' {
			return nil, "tag_without_value", stray
		}
		v, d3, ok := readTok(", ")
		if !ok {
			return nil, "no_fields", stray
		}
		if len(k) > 0 && len(v) > 0 {
			p.tags = append(p.tags, tagKV{k, v})
		}
		d = d3
	}
	if len(p.name) > 250 {
		return nil, "too_long", stray
	}
	for _, t := range p.tags {
		if len(t.k) > 255 || len(t.v) > 65536 {
			return nil, "too_long", stray
		}
	}
	for i < len(line) && line[i] == ' ' {
		i++
	}
	// ---- fields ------------------------------------------------------------------------------
	endOfFields := false
	for !endOfFields {
		k, d, ok := readTok("=, ")
		if bytes.IndexByte(k, '"') >= 0 {
			stray = true
		}
		if !ok || d != '=' {
			return nil, "field_without_value", stray
		}
		if len(k) == 0 {
			return nil, "empty_field_key", stray
		}
		if len(k) > 255 {
			return nil, "too_long", stray
		}
		var v fval
		if i < len(line) && line[i] == '"' {
			i++
			var body []byte
			closed := false
			for i < len(line) {
				c := line[i]
				if c == '\\' && i+1 < len(line) && (line[i+1] == '\\' || line[i+1] == '"') {
					body = append(body, line[i+1])
					i += 2
					continue
				}
				if c == '"' {
					i++
					closed = true
					break
				}
				body = append(body, c)
				i++
			}
			if !closed {
				return nil, "unterminated_string", stray
			}
			v = fval{kind: 's', s: body}
			if i < len(line) {
				switch line[i] {
				case ',':
					i++
				case ' ':
					i++
					endOfFields = true
				default:
					return nil, "garbage_after_string", stray
				}
			} else {
				endOfFields = true
			}
		} else {
			start := i
			for i < len(line) && line[i] != ',' && line[i] != ' ' {
				i++
			}
			tok := line[start:i]
			if bytes.IndexByte(tok, '"') >= 0 {
				return nil, "quote_in_unquoted_value", stray
			}
			var why string
			v, why = refValue(tok)
			if why != "" {
				return nil, why, stray
			}
			if i < len(line) {
				if line[i] == ' ' {
					endOfFields = true
				}
				i++
			} else {
				endOfFields = true
			}
		}
		p.fields = append(p.fields, fieldKV{k, v})
		if !endOfFields && i >= len(line) {
			return nil, "field_without_value", stray // trailing comma
		}
	}
	// ---- timestamp ---------------------------------------------------------------------------
	rest := strings.TrimSpace(string(line[i:]))
	if rest != "" {
		for j := 0; j < len(rest); j++ {
			if rest[j] < '0' || rest[j] > '9' {
				return nil, "bad_timestamp", stray
			}
		}
		t, err := strconv.ParseInt(rest, 10, 64)
		if err != nil {
			return nil, "timestamp_out_of_range", stray
		}
		p.hasTS = true
		p.ts = t
	}
	return p, "", stray
}
