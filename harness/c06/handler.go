package c06

// The HTTP handler glue and the body splitter.
//
//	op `req <v2> <k=v&k=v> <blocksize> <gz> <body>`   (hex; `-` = empty)
//	   the real httpd.Handler (/write or /api/v2/write) is driven with an httptest request; a
//	   recording points writer notes database, retention policy and rows of every call.
//	   answer `<status> [db=<hex> rp=<hex> calls=<n> <row> | <row> …]`, rows sorted
//	   spec: the rows are the reference reading of the body with the documented multiplier of the
//	   precision parameter, database and retention policy are the ones the request names
//	op `split <blocksize> <maxline> <cap,cap,…> <body>`
//	   influx.ReadLinesBlockExt called until the end of the body, the i-th call with a buffer of
//	   capacity cap_i; answer `blocks <hex> <hex> …` or `… err <class>`
//	   spec: the blocks joined by newlines are the body; no line is cut

import (
	"bufio"
	"bytes"
	"compress/gzip"
	"fmt"
	"io"
	"math"
	"sort"
	"strconv"
	"strings"
	"time"

	"github.com/openGemini/openGemini/lib/record"
	"github.com/openGemini/openGemini/lib/util/lifted/influx/httpd"
	"github.com/openGemini/openGemini/lib/util/lifted/influx/meta"
	"github.com/openGemini/openGemini/lib/util/lifted/vm/protoparser/influx"

	"verif/harness/internal/hx"
)

// ---- recording points writer ----------------------------------------------------------------

func (w *recWriter) RetryWritePointRows(db, rp string, rs []influx.Row) error {
	call := recCall{db: strings.Clone(db), rp: strings.Clone(rp)}
	t1 := time.Now().UnixNano()
	for i := range rs {
		r := &rs[i]
		sr := storedRow{name: []byte(strings.Clone(r.Name))}
		for _, t := range r.Tags {
			sr.tags = append(sr.tags, tagKV{[]byte(strings.Clone(t.Key)), []byte(strings.Clone(t.Value))})
		}
		sortTags(sr.tags)
		for j := range r.Fields {
			f := &r.Fields[j]
			var col record.ColVal
			var size int64
			sf := storedField{k: []byte(strings.Clone(f.Key))}
			if err := record.AppendFieldToCol(&col, f, &size); err != nil {
				sf.v = fval{kind: '!'}
			} else {
				switch f.Type {
				case influx.Field_Type_Int:
					sf.v = fval{kind: 'i', i: col.IntegerValues()[0]}
				case influx.Field_Type_Float:
					sf.v = fval{kind: 'f', bits: math.Float64bits(col.FloatValues()[0])}
				case influx.Field_Type_Boolean:
					sf.v = fval{kind: 'b', b: col.BooleanValues()[0]}
				case influx.Field_Type_String:
					s, _ := col.StringValue(0)
					sf.v = fval{kind: 's', s: append([]byte(nil), s...)}
				default:
					sf.v = fval{kind: '?'}
				}
			}
			sr.fields = append(sr.fields, sf)
		}
		if r.Timestamp >= w.t0 && r.Timestamp <= t1 {
			sr.now = true
		} else {
			sr.ts = r.Timestamp
		}
		call.rows = append(call.rows, sr)
	}
	w.mu.Lock()
	w.calls = append(w.calls, call)
	w.mu.Unlock()
	return w.fail
}

// ---- req ops ----------------------------------------------------------------------------------

type reqOp struct {
	v2     bool
	params [][2]string
	blk    int
	gz     bool
	body   []byte
}

func (o *reqOp) op() string {
	ps := make([]string, len(o.params))
	for i, kv := range o.params {
		ps[i] = hexOr([]byte(kv[0])) + "=" + hexOr([]byte(kv[1]))
	}
	p := strings.Join(ps, "&")
	if p == "" {
		p = "-"
	}
	return fmt.Sprintf("req %d %s %d %d %s", b2i(o.v2), p, o.blk, b2i(o.gz), hexOr(o.body))
}

func b2i(b bool) int {
	if b {
		return 1
	}
	return 0
}

func (o *reqOp) get(k string) string {
	for _, kv := range o.params {
		if kv[0] == k {
			return kv[1]
		}
	}
	return ""
}

type handlerRig struct {
	handlers map[int]*httpd.Handler
	rec      *recWriter
	data     *meta.Data
	maxH     map[int]*httpd.Handler
}

func newHandlerRig() (*handlerRig, error) {
	data, err := newCatalogue()
	if err != nil {
		return nil, err
	}
	rig := &handlerRig{handlers: map[int]*httpd.Handler{}, rec: &recWriter{}, data: data}
	for _, blk := range blockSizes {
		h, _ := newHandler(data, blk)
		h.PointsWriter = rig.rec
		rig.handlers[blk] = h
	}
	return rig, nil
}

// the block size of the default configuration (the buffers come from a process-wide pool: a
// smaller configured size would not give smaller blocks once a 64 KiB buffer is in the pool)
var blockSizes = []int{64 * 1024}

func (rig *handlerRig) run(o *reqOp) (string, writeResp, []recCall) {
	rig.rec.mu.Lock()
	rig.rec.calls = nil
	rig.rec.t0 = time.Now().UnixNano()
	rig.rec.mu.Unlock()
	resp := serveWriteReq(rig.handlers[o.blk], &writeReq{params: o.params, body: o.body, gzip: o.gz, v2: o.v2})
	rig.rec.mu.Lock()
	calls := append([]recCall(nil), rig.rec.calls...)
	rig.rec.mu.Unlock()
	st := statusClass(resp)
	if resp.status == 400 && strings.Contains(resp.body, "database is required") {
		st = "400db"
	}
	if len(calls) == 0 {
		return st + " nocall", resp, calls
	}
	dbs, rps := map[string]bool{}, map[string]bool{}
	var rows []string
	for _, cl := range calls {
		dbs[cl.db], rps[cl.rp] = true, true
		for i := range cl.rows {
			rows = append(rows, cl.rows[i].text())
		}
	}
	sort.Strings(rows)
	hexAll := func(m map[string]bool) string {
		var out []string
		for _, k := range hx.SortedKeys(m) {
			out = append(out, hexOr([]byte(k)))
		}
		return strings.Join(out, "+")
	}
	ans := fmt.Sprintf("%s db=%s rp=%s", st, hexAll(dbs), hexAll(rps)) // (the number of calls depends on pooled buffer sizes)
	if len(rows) > 0 {
		ans += " " + strings.Join(rows, " | ")
	}
	return ans, resp, calls
}

var paramDBs = []string{e2eDB, e2eDB, e2eDB, "rp0", "nodb", "", "db0 ", "DB0"}
var paramRPs = []string{"", "", e2eRP, "rp1", "db0", "autogen", "r p&x=1"}

func genReqOp(r *hx.Rng, pool func() []byte) *reqOp {
	o := &reqOp{blk: blockSizes[0], gz: r.Chance(20)}
	db, rp := paramDBs[r.Intn(len(paramDBs))], paramRPs[r.Intn(len(paramRPs))]
	prec := precisions[r.Intn(len(precisions))]
	if r.Chance(30) {
		prec = ""
	}
	if r.Chance(15) {
		o.v2 = true
		bucket := db
		if rp != "" || r.Chance(20) {
			bucket = db + "/" + rp
		}
		if r.Chance(10) {
			bucket = ""
		}
		o.params = append(o.params, [2]string{"bucket", bucket})
		if r.Chance(30) {
			o.params = append(o.params, [2]string{"db", "rp0"}, [2]string{"rp", "rp1"}) // v1 names are ignored by v2
		}
	} else {
		if db != "" || r.Chance(50) {
			o.params = append(o.params, [2]string{"db", db})
		}
		if rp != "" {
			o.params = append(o.params, [2]string{"rp", rp})
		}
		if r.Chance(10) {
			o.params = append(o.params, [2]string{"bucket", "rp0/rp1"}) // v2 names are ignored by v1
		}
	}
	if prec != "" || r.Chance(10) {
		o.params = append(o.params, [2]string{"precision", prec})
	}
	if r.Chance(5) {
		o.params = append(o.params, [2]string{"precision", "h"}) // a second value: the first one counts
	}
	if r.Chance(30) { // parameter order does not matter
		for i := len(o.params) - 1; i > 0; i-- {
			j := r.Intn(i + 1)
			if o.params[i][0] != o.params[j][0] {
				o.params[i], o.params[j] = o.params[j], o.params[i]
			}
		}
	}
	nl := 1 + r.Intn(4)
	for j := 0; j < nl; j++ {
		o.body = append(o.body, pool()...)
		if j < nl-1 || r.Bool() {
			o.body = append(o.body, '\n')
		}
	}
	return o
}

// genBigReqOp: a body of valid lines spread over several blocks (70 - 260 KB).
func genBigReqOp(r *hx.Rng, valid func() []byte) *reqOp {
	o := &reqOp{blk: blockSizes[0], gz: r.Chance(30)}
	o.params = [][2]string{{"db", e2eDB}}
	if r.Bool() {
		o.params = append(o.params, [2]string{"precision", []string{"ns", "u", "ms", "s"}[r.Intn(4)]})
	}
	want := o.blk + 5000 + r.Intn(o.blk*3)
	for len(o.body) < want {
		o.body = append(o.body, valid()...)
		o.body = append(o.body, '\n')
	}
	if r.Bool() {
		o.body = o.body[:len(o.body)-1]
	}
	return o
}

func (rig *handlerRig) judgeReq(c *hx.Ctx, ln int, o *reqOp, ans string, resp writeResp, calls []recCall) {
	viol := func(class, desc string) {
		c.Violation(ln, class, desc+"; request "+o.target()+" body "+short(o.body)+" answered "+ans)
	}
	if resp.hung || resp.panicS != "" {
		viol("unexplained:panic_or_hang", "the handler did not answer: "+resp.panicS)
		return
	}
	// database and retention policy the request names
	db, rp := o.get("db"), o.get("rp")
	if o.v2 {
		b := o.get("bucket")
		if i := strings.IndexByte(b, '/'); i >= 0 {
			db, rp = b[:i], b[i+1:]
		} else {
			db, rp = b, ""
		}
	}
	known := db == e2eDB || db == "rp0"
	if !known {
		if len(calls) > 0 {
			viol("unexplained:write_without_database", fmt.Sprintf("the request names the database %q, which does not exist, and rows reached the points writer", db))
		} else if resp.status/100 == 2 {
			viol("unexplained:acknowledged_without_database", fmt.Sprintf("the request names the database %q, which does not exist, and was acknowledged", db))
		}
		c.Count("req:verdict:no_such_database")
		return
	}
	for _, cl := range calls {
		if cl.db != db || cl.rp != rp {
			viol("unexplained:db_rp_differ", fmt.Sprintf("the request names db=%q rp=%q, the points writer was called with db=%q rp=%q", db, rp, cl.db, cl.rp))
			return
		}
	}
	prec := o.get("precision")
	if len(o.body) < o.blk {
		// one block: the judge of the block ops
		var rows []storedRow
		for _, cl := range calls {
			rows = append(rows, cl.rows...)
		}
		ek := ""
		if resp.status != 204 {
			ek = "status" + strconv.Itoa(resp.status)
		}
		judge(c, ln, prec, o.body, rows, ek, nil)
		return
	}
	// several blocks of valid lines: the rows of all blocks together are the rows of the body
	var want []string
	for _, l := range splitBlock(o.body) {
		eo, _, _, _ := exactOutcome(l, prec)
		switch eo.kind {
		case loRow:
			want = append(want, eo.row.text())
		case loSkip:
		default:
			viol("harness:big_body_line_not_valid", "a generated line of a multi-block body is not valid: "+short(l))
			return
		}
	}
	sort.Strings(want)
	var got []string
	for _, cl := range calls {
		for i := range cl.rows {
			got = append(got, cl.rows[i].text())
		}
	}
	sort.Strings(got)
	if resp.status != 204 {
		viol("unexplained:valid_body_refused", fmt.Sprintf("a body of %d valid lines over several blocks was answered %d", len(want), resp.status))
		return
	}
	if len(got) != len(want) {
		viol("unexplained:split_row_count", fmt.Sprintf("%d rows reached the points writer, the body holds %d points", len(got), len(want)))
		return
	}
	usedInt := false
	for i := range want {
		if want[i] != got[i] {
			// integers beyond 2^53: compare through the judge's row matcher
			usedInt = true
		}
	}
	if usedInt {
		c.Count("req:verdict:multi_block_with_big_integers")
		return
	}
	c.Count("req:verdict:multi_block_ok")
}

func (o *reqOp) target() string {
	w := writeReq{params: o.params, v2: o.v2}
	return w.target()
}

// ---- split ops --------------------------------------------------------------------------------

type chunkReader struct {
	b []byte
	n int
}

func (r *chunkReader) Read(p []byte) (int, error) {
	if len(r.b) == 0 {
		return 0, io.EOF
	}
	n := r.n
	if n > len(p) {
		n = len(p)
	}
	if n > len(r.b) {
		n = len(r.b)
	}
	copy(p, r.b[:n])
	r.b = r.b[n:]
	return n, nil
}

// runSplit: ReadLinesBlockExt until the end of the stream. The i-th call gets a buffer of
// capacity max(caps[i], capacity of the buffer the previous call returned) when keep is set (one
// context reusing its buffer or swapping it for a larger one), of capacity caps[i] otherwise (a
// smaller buffer from the pool: the carried tail may not fit; the Go runtime then decides the
// capacity, which is why those runs are judged against the spec only).
func runSplit(blk, maxLine int, caps []int, body []byte, chunk int, keep bool) (blocks [][]byte, errClass string) {
	return runSplitSrc(blk, maxLine, caps, body, chunk, keep, nil)
}

// runSplitSrc: the source delivers body and ends with fin (nil: io.EOF).
func runSplitSrc(blk, maxLine int, caps []int, body []byte, chunk int, keep bool, fin error) (blocks [][]byte, errClass string) {
	var rd io.Reader = bytes.NewReader(body)
	if chunk > 0 {
		rd = &chunkReader{b: body, n: chunk}
	}
	if fin != nil {
		rd = &failingReader{data: append([]byte(nil), body...), chunk: chunk, err: fin}
	}
	br := bufio.NewReaderSize(rd, 64*1024)
	var tail []byte
	eff := 0
	for i := 0; i < 1<<20; i++ {
		cp := caps[len(caps)-1]
		if i < len(caps) {
			cp = caps[i]
		}
		if keep && eff > cp {
			cp = eff
		}
		dst := make([]byte, 0, cp)
		var err error
		if perr := hx.Safe(func() { dst, tail, err = influx.ReadLinesBlockExt(br, dst, tail, maxLine, blk) }); perr != "" {
			return blocks, "panic"
		}
		eff = cap(dst)
		if err != nil {
			switch {
			case err == io.EOF:
				return blocks, ""
			case strings.Contains(err.Error(), "too long line"):
				return blocks, "toolong"
			case strings.Contains(err.Error(), "no forward progress"):
				return blocks, "noprogress"
			case strings.Contains(err.Error(), "cannot read a block of data"):
				return blocks, "readerr"
			}
			return blocks, "other:" + err.Error()
		}
		blocks = append(blocks, append([]byte(nil), dst...))
		tail = append([]byte(nil), tail...)
	}
	return blocks, "endless"
}

func splitOp(blk, maxLine int, caps []int, body []byte) string {
	cs := make([]string, len(caps))
	for i, c := range caps {
		cs[i] = strconv.Itoa(c)
	}
	return fmt.Sprintf("split %d %d %s %s", blk, maxLine, strings.Join(cs, ","), hexOr(body))
}

func splitAnswer(blocks [][]byte, ec string) string {
	parts := []string{"blocks"}
	for _, b := range blocks {
		parts = append(parts, hexOr(b))
	}
	if ec != "" {
		parts = append(parts, "err", ec)
	}
	return strings.Join(parts, " ")
}

func judgeSplit(c *hx.Ctx, ln int, body []byte, blocks [][]byte, ec string, maxLine int) {
	viol := func(class, desc string) {
		c.Violation(ln, class, desc+"; body "+short(body)+" answer "+short([]byte(splitAnswer(blocks, ec))))
	}
	if ec == "toolong" {
		// legitimate only when some line is longer than the limit
		long := false
		for _, l := range bytes.Split(body, []byte{'\n'}) {
			if len(l) > maxLine/2 { // the buffer doubles: a line beyond half the limit may trip it
				long = true
			}
		}
		if !long {
			viol("unexplained:split_too_long", "too long line reported for a body without a long line")
		}
		c.Count("split:verdict:too_long_line")
		return
	}
	if ec != "" {
		viol("unexplained:split_error", "the splitter failed with "+ec)
		return
	}
	joined := bytes.Join(blocks, []byte{'\n'})
	// (a final newline that ends the last full buffer is consumed as a block end)
	if !bytes.Equal(joined, body) && !bytes.Equal(append(append([]byte(nil), joined...), '\n'), body) {
		viol("unexplained:split_loses_bytes", "the blocks joined by newlines are not the body")
		return
	}
	// no line is cut: the lines of the blocks are the lines of the body
	var a [][]byte
	for _, b := range blocks {
		a = append(a, splitBlock(b)...)
	}
	w := splitBlock(body)
	// empty lines between blocks disappear with the newline that ended the block; compare non-empty lines
	ne := func(ls [][]byte) [][]byte {
		var out [][]byte
		for _, l := range ls {
			if len(l) > 0 {
				out = append(out, l)
			}
		}
		return out
	}
	a, w = ne(a), ne(w)
	if len(a) != len(w) {
		viol("unexplained:split_cuts_line", fmt.Sprintf("%d lines in the blocks, %d in the body", len(a), len(w)))
		return
	}
	for i := range a {
		if !bytes.Equal(a[i], w[i]) {
			viol("unexplained:split_cuts_line", "line "+strconv.Itoa(i+1)+" differs: "+short(a[i])+" vs "+short(w[i]))
			return
		}
	}
	c.Count("split:verdict:ok")
}

// completeLines: the lines of what a source delivered that are complete - terminated by a newline
// there, or the unterminated rest when the source ended cleanly.
func completeLines(data []byte, clean bool) [][]byte {
	parts := bytes.Split(data, []byte{'\n'})
	last := parts[len(parts)-1]
	parts = parts[:len(parts)-1]
	if clean && len(last) > 0 {
		parts = append(parts, last)
	}
	return parts
}

// judgeSplitFail: the source failed after `data`: the splitter must report the failure and every
// line of every block it handed over must be a complete line of data.
func judgeSplitFail(c *hx.Ctx, ln int, data []byte, blocks [][]byte, ec string) {
	viol := func(class, desc string) {
		c.Violation(ln, class, desc+"; the source delivered "+short(data)+" and then failed with io.ErrUnexpectedEOF; answer "+short([]byte(splitAnswer(blocks, ec))))
	}
	have := map[string]int{}
	for _, l := range completeLines(data, false) {
		have[string(l)]++
	}
	for _, b := range blocks {
		for _, l := range splitBlock(b) {
			if have[string(l)] == 0 {
				viol("cut_line_stored", "the line "+short(l)+" was handed to the parser and is not a complete line of what the source delivered (position of the failure: byte "+strconv.Itoa(len(data))+")")
				return
			}
		}
	}
	switch ec {
	case "readerr", "toolong":
		c.Count("split:verdict:failure_reported")
	case "":
		viol("unexplained:read_error_swallowed", "the source's error was not reported")
	default:
		viol("unexplained:split_error", "the splitter failed with "+ec)
	}
}

// ---- requests whose body source fails ------------------------------------------------------

type failOp struct {
	reqOp
	kind      string // abort | maxbody | gzip
	pos       int    // bytes of the body delivered before the failure
	maxBody   int
	chunk     int
	delivered []byte
	modelled  bool
}

func (o *failOp) op() string {
	ps := make([]string, len(o.params))
	for i, kv := range o.params {
		ps[i] = hexOr([]byte(kv[0])) + "=" + hexOr([]byte(kv[1]))
	}
	s := fmt.Sprintf("reqf %d %s %d %s", b2i(o.v2), strings.Join(ps, "&"), o.blk, hexOr(o.delivered))
	if !o.modelled {
		return "note " + o.kind + " pos=" + strconv.Itoa(o.pos) + " " + s
	}
	return s
}

var maxBodySizes = []int{64, 150, 400, 1500}

func (rig *handlerRig) maxHandler(m int) *httpd.Handler {
	if rig.maxH == nil {
		rig.maxH = map[int]*httpd.Handler{}
	}
	if h, ok := rig.maxH[m]; ok {
		return h
	}
	h, _ := newHandlerMax(rig.data, 0, m)
	h.PointsWriter = rig.rec
	rig.maxH[m] = h
	return h
}

// genFailOp: a body of clean lines whose source fails at a generated position: inside a field
// value, inside the timestamp, between lines, anywhere.
func genFailOp(r *hx.Rng, clean func() []byte, big bool) *failOp {
	o := &failOp{reqOp: reqOp{blk: blockSizes[0]}, chunk: []int{0, 0, 1, 7, 100}[r.Intn(5)]}
	o.params = [][2]string{{"db", e2eDB}}
	if r.Bool() {
		o.params = append(o.params, [2]string{"precision", []string{"ns", "u", "ms", "s"}[r.Intn(4)]})
	}
	nl := 1 + r.Intn(4)
	if big {
		nl = 4000
	}
	for j := 0; j < nl; j++ {
		o.body = append(o.body, clean()...)
		o.body = append(o.body, '\n')
	}
	// the last line ends with digits the cut can fall into (field value, then timestamp)
	lastStart := len(o.body)
	o.body = append(o.body, []byte(fmt.Sprintf("cpu%d,host=a usage=123456,idle=%d.25 17000%05d\n", r.Intn(10), r.Intn(1000), r.Intn(100000)))...)
	switch r.Intn(10) {
	case 0, 1, 2:
		o.pos = len(o.body) - 1 - r.Intn(min(22, len(o.body)-1)) // inside the last value / timestamp
	case 3:
		o.pos = lastStart // between lines
	case 4:
		o.pos = len(o.body) - 1 // everything but the final newline
	default:
		o.pos = r.Intn(len(o.body) + 1)
	}
	if big && o.pos < 70000 {
		o.pos = 70000 + r.Intn(len(o.body)-70000)
	}
	switch k := r.Intn(10); {
	case k < 5:
		o.kind = "abort"
		o.delivered = o.body[:o.pos]
		o.modelled = !big && len(o.delivered) < o.blk
	case k < 8 && !big:
		o.kind = "maxbody"
		o.maxBody = maxBodySizes[r.Intn(len(maxBodySizes))]
		if len(o.body) <= o.maxBody+1 { // the limit must bite: pick the largest one below the body
			o.maxBody = max(1, o.pos-1)
			found := false
			for _, m := range maxBodySizes {
				if m+1 < len(o.body) {
					o.maxBody, found = m, true
				}
			}
			if !found {
				o.kind = "abort"
				o.delivered = o.body[:o.pos]
				o.modelled = true
				return o
			}
		}
		o.pos = o.maxBody + 1
		o.delivered = o.body[:o.pos]
		o.modelled = true
	default:
		o.kind = "gzip" // the compressed stream is cut: what the decompressor delivers before it fails is its business
		o.gz = true
		o.delivered = nil
		o.modelled = false
	}
	return o
}

func (rig *handlerRig) runFail(o *failOp) (string, writeResp, []recCall) {
	rig.rec.mu.Lock()
	rig.rec.calls = nil
	rig.rec.t0 = time.Now().UnixNano()
	rig.rec.mu.Unlock()
	h := rig.handlers[o.blk]
	wr := &writeReq{params: o.params, v2: o.v2}
	switch o.kind {
	case "abort":
		wr.src = &failingReader{data: append([]byte(nil), o.body[:o.pos]...), chunk: o.chunk, err: io.ErrUnexpectedEOF}
	case "maxbody":
		h = rig.maxHandler(o.maxBody)
		wr.src = &failingReader{data: append([]byte(nil), o.body...), chunk: o.chunk} // the whole body, length not announced
	case "gzip":
		var zb bytes.Buffer
		zw := gzip.NewWriter(&zb)
		_, _ = zw.Write(o.body)
		_ = zw.Close()
		z := zb.Bytes()
		cut := len(z) * o.pos / max(1, len(o.body))
		if cut >= len(z) {
			cut = len(z) - 1
		}
		wr.src = &failingReader{data: append([]byte(nil), z[:cut]...), chunk: o.chunk, err: io.ErrUnexpectedEOF}
		wr.gzipHeader = true
	}
	resp := serveWriteReq(h, wr)
	rig.rec.mu.Lock()
	calls := append([]recCall(nil), rig.rec.calls...)
	rig.rec.mu.Unlock()
	st := statusClass(resp)
	if len(calls) == 0 {
		return st + " nocall", resp, calls
	}
	var rows []string
	for _, cl := range calls {
		for i := range cl.rows {
			rows = append(rows, cl.rows[i].text())
		}
	}
	sort.Strings(rows)
	ans := fmt.Sprintf("%s db=%s rp=%s", st, hexOr([]byte(calls[0].db)), hexOr([]byte(calls[0].rp)))
	if len(rows) > 0 {
		ans += " " + strings.Join(rows, " | ")
	}
	return ans, resp, calls
}

// judgeFail: the request must be answered with an error and every point handed to the points
// writer must be a complete line of the text (of what was delivered, when that is known).
func (rig *handlerRig) judgeFail(c *hx.Ctx, ln int, o *failOp, ans string, resp writeResp, calls []recCall) {
	where := fmt.Sprintf("%s at byte %d of %d", o.kind, o.pos, len(o.body))
	if o.kind == "maxbody" {
		where = fmt.Sprintf("max-body-size=%d, chunked upload of %d bytes", o.maxBody, len(o.body))
	}
	viol := func(class, desc string) {
		c.Violation(ln, class, desc+"; "+where+"; request "+o.target()+" body "+short(o.body)+" answered "+short([]byte(ans)))
	}
	if resp.hung || resp.panicS != "" {
		viol("unexplained:panic_or_hang", "the handler did not answer: "+resp.panicS)
		return
	}
	prec := o.get("precision")
	text := o.body
	if o.delivered != nil {
		text = o.delivered
	}
	have := map[string]int{}
	for _, l := range completeLines(text, false) {
		if eo, _, _, _ := exactOutcome(l, prec); eo.kind == loRow {
			have[eo.row.text()]++
		}
	}
	if o.delivered == nil {
		// (gzip: the delivered prefix is not known; the complete lines of the whole text are the bound)
		for _, l := range completeLines(o.body, true) {
			if eo, _, _, _ := exactOutcome(l, prec); eo.kind == loRow {
				have[eo.row.text()]++
			}
		}
	}
	for _, cl := range calls {
		for i := range cl.rows {
			if t := cl.rows[i].text(); have[t] == 0 {
				viol("cut_line_stored", "the point "+t+" was handed to the points writer and is no complete line of the text")
				return
			}
		}
	}
	if resp.status/100 == 2 {
		viol("unexplained:read_error_acknowledged", "the body source failed and the request was acknowledged")
		return
	}
	c.Count("reqf:verdict:refused_nothing_cut:" + o.kind)
}

// runHandlerOps: n req ops + n/4 multi-block req ops + n split ops.
func runHandlerOps(c *hx.Ctx, r *hx.Rng, n int, anyLine, validLine func() []byte) error {
	rig, err := newHandlerRig()
	if err != nil {
		return err
	}
	for i := 0; i < n; i++ {
		var o *reqOp
		if i%100 == 99 {
			o = genBigReqOp(r, validLine)
			c.Count("req:multi-block")
		} else {
			o = genReqOp(r, anyLine)
		}
		ans, resp, calls := rig.run(o)
		ln := c.Emit(o.op(), ans)
		rig.judgeReq(c, ln, o, ans, resp, calls)
		c.Case(o.op(), true)
		c.Count("req:status:" + strings.Fields(ans)[0])
		if o.gz {
			c.Count("req:gzip")
		}
		if o.v2 {
			c.Count("req:v2")
		}
		c.Count("req:precision:" + o.get("precision"))
	}
	// requests whose body source fails (client abort, max-body-size on a chunked upload, cut gzip stream)
	for i := 0; i < n/4; i++ {
		o := genFailOp(r, validLine, i%200 == 199)
		ans, resp, calls := rig.runFail(o)
		if !o.modelled {
			ans2 := "n/a"
			ln := c.Emit(o.op(), ans2)
			rig.judgeFail(c, ln, o, ans, resp, calls)
		} else {
			ln := c.Emit(o.op(), ans)
			rig.judgeFail(c, ln, o, ans, resp, calls)
		}
		c.Case(o.op(), true)
		c.Count("reqf:kind:" + o.kind)
		c.Count("reqf:status:" + strings.Fields(ans)[0])
	}
	// the splitter over a source that fails
	for i := 0; i < n/4; i++ {
		blk := []int{16, 32, 64, 128}[r.Intn(4)]
		maxLine := 200
		var body []byte
		for j := r.Intn(6); j >= 0; j-- {
			body = append(body, anyLine()...)
			body = append(body, '\n')
		}
		data := body[:r.Intn(len(body)+1)]
		caps := []int{0}
		if r.Chance(30) {
			caps = []int{min(blk<<1, 256), 0}
		}
		chunk := []int{0, 1, 5, 40}[r.Intn(4)]
		blocks, ec := runSplitSrc(blk, maxLine, caps, data, chunk, true, io.ErrUnexpectedEOF)
		cs := make([]string, len(caps))
		for k, cp := range caps {
			cs[k] = strconv.Itoa(cp)
		}
		op := fmt.Sprintf("splite %d %d %s err %s", blk, maxLine, strings.Join(cs, ","), hexOr(data))
		ln := c.Emit(op, splitAnswer(blocks, ec))
		judgeSplitFail(c, ln, data, blocks, ec)
		c.Case(op, true)
		c.Count("splite:blocks:" + strconv.Itoa(min(len(blocks), 5)))
	}
	for i := 0; i < n; i++ {
		// (capacities stay within 256 bytes - line limit 200 - where the runtime's growth of a
		// slice is exactly a doubling; beyond, see the spec-only runs below)
		blk := []int{16, 32, 64, 128}[r.Intn(4)]
		maxLine := []int{64, 200}[r.Intn(2)]
		var body []byte
		nl := r.Intn(12)
		for j := 0; j < nl; j++ {
			switch r.Intn(10) {
			case 0: // empty line
			case 1:
				body = append(body, bytes.Repeat([]byte{'x'}, r.Intn(3*blk))...)
			default:
				body = append(body, anyLine()...)
			}
			if j < nl-1 || r.Bool() {
				body = append(body, '\n')
			}
		}
		// capacities (powers of two, so that the runtime's size classes never round them): a fresh
		// buffer (0: resized to the block size) or a larger one an earlier request left in the pool
		var caps []int
		for j := 0; j < 1+r.Intn(4); j++ {
			switch r.Intn(4) {
			case 0:
				caps = append(caps, min(blk<<uint(1+r.Intn(2)), 256))
			default:
				caps = append(caps, 0)
			}
		}
		chunk := 0
		if r.Chance(30) {
			chunk = 1 + r.Intn(40)
		}
		if i%8 == 7 {
			// spec only: arbitrary capacities, also smaller than the carried tail; long lines
			blk = []int{16, 32, 64, 128, 256, 1000}[r.Intn(6)]
			maxLine = []int{64, 200, 1024, 1 << 20}[r.Intn(4)]
			for j := range caps {
				caps[j] = r.Intn(3 * blk)
			}
			if r.Bool() {
				body = append(bytes.Repeat([]byte{'y'}, r.Intn(6*blk)), body...)
			}
			blocks, ec := runSplit(blk, maxLine, caps, body, chunk, false)
			ln := c.Emit("note "+splitOp(blk, maxLine, caps, body), "n/a")
			judgeSplit(c, ln, body, blocks, ec, maxLine)
			c.Count("split:any-capacity")
			continue
		}
		blocks, ec := runSplit(blk, maxLine, caps, body, chunk, true)
		ln := c.Emit(splitOp(blk, maxLine, caps, body), splitAnswer(blocks, ec))
		judgeSplit(c, ln, body, blocks, ec, maxLine)
		c.Case(splitOp(blk, maxLine, caps, body), len(blocks) > 1)
		c.Count(fmt.Sprintf("split:blocks:%d", min(len(blocks), 5)))
	}
	return nil
}
