package c06

import (
	"fmt"
	"os"

	"verif/harness/internal/hx"
)

// probe: -D mode=probe -D body=<text> prints what the end-to-end route does with one body.
func runProbe(c *hx.Ctx) error {
	dir := c.Out + "/probe-shard"
	_ = os.RemoveAll(dir)
	e, err := newE2E(dir)
	if err != nil {
		return err
	}
	defer e.close()
	bodies := []string{c.Arg("body", "cpu,host=a\\ b v=1i,s=\"x\\\"y\",b=t,f=1.5 1000\ncpu,host=a\\ b v=2i 2000\n")}
	if b2 := c.Arg("body2", ""); b2 != "" {
		bodies = append(bodies, b2)
	}
	for _, b := range bodies {
		resp := serveWriteReq(e.h, &writeReq{params: [][2]string{{"db", c.Arg("db", e2eDB)}, {"precision", c.Arg("precision", "")}}, body: []byte(b)})
		fmt.Fprintf(os.Stderr, "write %q -> %d %q %s\n", b, resp.status, resp.body, resp.panicS)
	}
	show := func(tag string) {
		name, fields, tags, ok := e.schemaOfDB(c.Arg("db", e2eDB), c.Arg("mst", "cpu"))
		fmt.Fprintln(os.Stderr, tag, "schema:", name, fields, tags, ok)
		if !ok {
			return
		}
		e.sh.FlushIndex()
		res, err := e.sh.Query(fmt.Sprintf(`SELECT * FROM "%s"`, name), fields, tags, 0)
		fmt.Fprintln(os.Stderr, tag, "query err:", err)
		for _, s := range res {
			fmt.Fprintf(os.Stderr, "%s series %q tags=%v cols=%v\n", tag, s.Name, s.Tags, s.Columns)
			for _, v := range s.Values {
				fmt.Fprintf(os.Stderr, "   %#v\n", v)
			}
		}
		for _, acc := range []string{"application/json", "application/csv"} {
			for _, ep := range []string{"", "ns"} {
				b, err := render(res, acc, ep)
				fmt.Fprintf(os.Stderr, "%s %s epoch=%q err=%v: %s\n", tag, acc, ep, err, b)
			}
		}
	}
	show("mem")
	e.sh.Flush()
	show("file")
	if err := e.reopen(); err != nil {
		return err
	}
	show("reopen")
	return nil
}

// replay: -D mode=replay -D op="e2e <prec>:<body>;…" runs the requests one by one and prints
// the dump after each.
func runReplay(c *hx.Ctx) error {
	dir := c.Out + "/replay-shard"
	_ = os.RemoveAll(dir)
	e, err := newE2E(dir)
	if err != nil {
		return err
	}
	defer e.close()
	x := &e2eRunner{c: c, e: e}
	s, err := parseE2EOp(c.Arg("op", ""))
	if err != nil {
		return err
	}
	for qi := range s.reqs {
		q := &s.reqs[qi]
		params := [][2]string{{"db", e2eDB}}
		if q.prec != "" {
			params = append(params, [2]string{"precision", q.prec})
		}
		resp := serveWriteReq(e.h, &writeReq{params: params, body: q.body()})
		fmt.Fprintf(os.Stderr, "REQ precision=%q %q\n -> %d %q %s\n", q.prec, q.body(), resp.status, resp.body, resp.panicS)
		txt, _, err := x.dump(s.names(), "application/json", "ns")
		fmt.Fprintf(os.Stderr, " dump: %s %v\n", txt, err)
	}
	e.sh.Flush()
	txt, _, err := x.dump(s.names(), "application/json", "ns")
	fmt.Fprintf(os.Stderr, " dump after flush: %s %v\n", txt, err)
	return nil
}
