package c19

import (
	"fmt"
	"strings"

	originql "github.com/influxdata/influxql"
	meta2 "github.com/openGemini/openGemini/lib/util/lifted/influx/meta"

	"verif/harness/internal/hx"
)

// authOp drives the real `authenticate` wrapper (through a probe route registered with the
// meta.User signature) and reports what it handed to the wrapped handler.
func (e *env) authOp(c *hx.Ctx, cr cred, class string) {
	e.probeCalls = nil
	resp := e.fire("GET", "/verif-probe", nil, nil, cr)
	e.unlock()
	var ans string
	switch {
	case resp.hung || resp.panicS != "":
		ans = resp.outcome()
	case len(e.probeCalls) == 0 && resp.status != 204:
		ans = fmt.Sprintf("deny %d", resp.status)
	case len(e.probeCalls) == 1 && resp.status == 204:
		ans = "inner " + e.probeCalls[0]
	case len(e.probeCalls) == 1:
		ans = fmt.Sprintf("deny+inner %d", resp.status)
	default:
		ans = fmt.Sprintf("other status=%d calls=%d", resp.status, len(e.probeCalls))
	}
	op := "auth " + cr.op()
	line := c.Emit(op, ans)
	c.Case(op, class != "admin")
	c.Count("auth:class=" + class)
	c.Count("auth:answer=" + strings.SplitN(ans, " ", 2)[0])
	if strings.HasPrefix(ans, "err") || ans == "hung" {
		c.Violation(line, "panic", "authenticate: "+ans)
		return
	}
	// the property: with auth on and an administrator, the handler is reached only for a request
	// that identifies an existing user by (name, password) or by a valid signed token.
	if !e.w.auth || !e.w.adminExists() {
		return
	}
	if strings.HasPrefix(ans, "deny+inner") || ans == "inner nil" {
		c.Violation(line, "authenticate_fallthrough", "handler reached without a user: "+op+" -> "+ans)
		return
	}
	if strings.HasPrefix(ans, "inner ") {
		who := validFor(e.w, cr)
		if who == "" || hexs(who) != strings.TrimPrefix(ans, "inner ") {
			c.Violation(line, "authenticate_accepts_invalid", fmt.Sprintf("%s -> %s (valid for %q)", op, ans, who))
		}
	}
}

// validFor: the user (if any) a request's credentials are valid for, by the property's reading:
// the name/password pair the server looks at (URL pair when both present, else the header) must be
// an existing user's; a bearer token must be accepted by jwt and name an existing user.
func validFor(w *world, c cred) string {
	check := func(u, p string) string {
		if us := w.user(u); us != nil && u != "" && us.pw == p {
			return u
		}
		return ""
	}
	if c.urlU != "" && c.urlP != "" {
		return check(c.urlU, c.urlP)
	}
	switch c.hdr {
	case "basic":
		return check(c.hu, c.hp)
	case "token":
		if i := strings.IndexByte(c.tokenStr, ':'); i >= 0 {
			return check(c.tokenStr[:i], c.tokenStr[i+1:])
		}
	case "jwt":
		t := c.jt
		if w.secret != "" && (t.alg == 'a' || t.alg == 'b' || t.alg == 'c') && t.key == 's' && t.exp == 'f' && t.nbf != 'f' &&
			t.user.kind == "n" && t.user.name != "" && w.user(t.user.name) != nil {
			return t.user.name
		}
	case "bearer":
		if w.secret != "" && c.tok.parses && c.tok.expOk && c.tok.user.kind == "n" && c.tok.user.name != "" && w.user(c.tok.user.name) != nil {
			return c.tok.user.name
		}
	}
	return ""
}

func fuzzCred(r *hx.Rng, w *world) cred {
	names := []string{"", "root", "ro", "wo", "ghost", "rwu", "a:b", "Root", "root "}
	pws := []string{"", "Root#Pw1", "Ro#Pw1", "Wo#Pw1", "bad", "Rwu#Pw1", "Root#Pw1 ", ":"}
	pick := func(xs []string) string { return xs[r.Intn(len(xs))] }
	var c cred
	if r.Chance(35) {
		c.urlU = pick(names)
	}
	if r.Chance(35) {
		c.urlP = pick(pws)
	}
	switch r.Intn(6) {
	case 0:
		c.hdr = "-"
	case 1, 2:
		c.hdr = "basic"
		c.hu, c.hp = pick(names), pick(pws)
		if strings.Contains(c.hu, ":") {
			c.hu = "ro" // a colon in a basic-auth user name shifts the split; keep the header well-formed
		}
	case 3:
		c.hdr = "token"
		c.tokenStr = pick(names) + ":" + pick(pws)
		if r.Chance(20) {
			c.tokenStr = pick(names)
		}
		if strings.ContainsAny(c.tokenStr, " ") || c.tokenStr == "" {
			c.tokenStr = "ro:x"
		}
	case 4:
		c.hdr = "bearer"
		kinds := []string{"m", "x", "n", "n", "n"}
		c.tok = jwtSpec{parses: r.Chance(70), expOk: r.Chance(80), user: jwtUser{kind: pick(kinds)}, how: pick([]string{"garbage", "badsig", "algnone", "expired"})}
		if c.tok.user.kind == "n" {
			c.tok.user.name = pick([]string{"", "root", "ro", "ghost", "rwu"})
		}
	default:
		c.hdr = "other"
		c.otherRaw = pick([]string{"Basic", "Basic  x", "Bearer", "Digest abc", "Token", "basic cm9vdA==", "Bearer x y"})
	}
	return c
}

// authzOps: the privilege check and the statement authorizer, function level, on the real
// UserInfo of the live catalogue.
func (e *env) authzOps(c *hx.Ctx, stmts []*stmtDesc) {
	dbs := []string{"db0", "db1", "nodb"}
	for _, u := range e.w.users {
		ui, err := e.client.User(u.name)
		if err != nil {
			continue
		}
		for _, db := range dbs {
			for p := 0; p <= 3; p++ {
				got := ui.AuthorizeDatabase(originql.Privilege(p), db)
				op := fmt.Sprintf("authz %s %s %d", hexs(u.name), hexs(db), p)
				line := c.Emit(op, fmt.Sprint(got))
				c.Case(op, !u.admin)
				c.Count("authz-op")
				if !u.admin && !u.rw {
					want := p == 0 || hasPriv(u, db, p)
					if got != want {
						c.Violation(line, "authorize_database", fmt.Sprintf("user %s db %s priv %d: got %v want %v", u.name, db, p, got, want))
					}
				}
			}
		}
		for _, st := range stmts {
			for _, db := range []string{"db0", "db1", ""} {
				q, err := parseQuery(st.text) // fresh AST: the rwuser path edits statements
				if err != nil {
					continue
				}
				got := ui.AuthorizeQuery(db, q) == nil
				ans := "denied"
				if got {
					ans = "ok"
				}
				op := fmt.Sprintf("aquery %s %s %s", hexs(u.name), hexs(db), st.op)
				line := c.Emit(op, ans)
				c.Case(op, !u.admin)
				c.Count("aquery-op")
				if !u.rw {
					if want := sufficient("query", u, db, st); got != want {
						c.Violation(line, "authorize_query", fmt.Sprintf("user %s db %q %s: got %v want %v", u.name, db, st.text, got, want))
					}
				}
			}
		}
	}
}

type decisionKey struct {
	user, db string
	priv     int
}

func (e *env) decisions() map[decisionKey]bool {
	m := map[decisionKey]bool{}
	for _, u := range e.w.users {
		ui, err := e.client.User(u.name)
		if err != nil {
			continue
		}
		for _, db := range []string{"db0", "db1"} {
			for p := 0; p <= 3; p++ {
				m[decisionKey{u.name, db, p}] = ui.AuthorizeDatabase(originql.Privilege(p), db)
			}
		}
	}
	return m
}

// grantRevoke applies a seeded sequence of GRANT / REVOKE through the real Data.SetPrivilege and
// checks after each step that only the named user's decisions on the named database moved.
func (e *env) grantRevoke(c *hx.Ctx, r *hx.Rng, steps int, stmts []*stmtDesc) {
	sel, _ := describe("SELECT * FROM m")
	cases := map[string]cred{}
	for _, u := range e.w.users {
		cases[u.name] = pwCred("basic", u.name, u.pw)
	}
	for i := 0; i < steps; i++ {
		u := e.w.users[r.Intn(len(e.w.users))]
		db := []string{"db0", "db1"}[r.Intn(2)]
		p := r.Intn(4)
		before := e.decisions()
		if err := e.data.SetPrivilege(u.name, db, originql.Privilege(p)); err != nil {
			c.Count("grant-error")
			continue
		}
		if u.privs == nil {
			u.privs = map[string]int{}
		}
		u.privs[db] = p
		line := c.Emit(fmt.Sprintf("grant %s %s %d", hexs(u.name), hexs(db), p), "ok")
		c.Count(fmt.Sprintf("grant:priv=%d", p))
		after := e.decisions()
		for k, v := range after {
			if before[k] != v && !(k.user == u.name && k.db == db) {
				c.Violation(line, "grant_not_local", fmt.Sprintf("granting %d on %s to %s changed the decision for %+v", p, db, u.name, k))
			}
		}
		// the new decisions, function level and through /write and /query
		ui, _ := e.client.User(u.name)
		for _, d := range []string{"db0", "db1"} {
			for q := 0; q <= 3; q++ {
				got := ui.AuthorizeDatabase(originql.Privilege(q), d)
				op := fmt.Sprintf("authz %s %s %d", hexs(u.name), hexs(d), q)
				l := c.Emit(op, fmt.Sprint(got))
				c.Case(fmt.Sprintf("%s@%d", op, i), true)
				if !u.admin && !u.rw {
					if want := q == 0 || hasPriv(u, d, q); got != want {
						c.Violation(l, "authorize_database", fmt.Sprintf("after grant: user %s db %s priv %d: got %v want %v", u.name, d, q, got, want))
					}
				}
			}
			cc := credCase{class: "granted", transport: "basic", c: cases[u.name], user: u.name}
			e.routeOp(c, "POST", "/write", "/write", d, cc, nil)
			e.routeOp(c, "GET", "/query", "/query", d, cc, sel)
		}
	}
}

var _ = meta2.ErrUserNotFound
