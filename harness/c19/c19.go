// Package c19: correspondence harness for C19 (with authentication on, no endpoint acts
// without sufficient credentials). It instantiates the real httpd.Handler in-process over the
// real metaclient.Client / auth.QueryAuthorizer / auth.WriteAuthorizer and recording doubles
// for everything behind them, fires every live route x method x credential class x transport
// and writes the observed decisions (impl.out), the same cases for the Lean model (ops.txt)
// and the property verdict (viol.out).
package c19

import (
	"fmt"
	"os"
	"sort"
	"strings"

	"github.com/openGemini/openGemini/lib/logger"
	"go.uber.org/zap"

	"verif/harness/internal/hx"
)

func init() { hx.Register("C19", Run) }

func baseWorld(secret string) *world {
	return &world{auth: true, secret: secret, dbs: []string{"db0", "db1"}, users: []*userSpec{
		{name: "root", pw: "Root#Pw1", admin: true},
		{name: "ro", pw: "Ro#Pw1", privs: map[string]int{"db0": 1}},
		{name: "wo", pw: "Wo#Pw1", privs: map[string]int{"db0": 2}},
		{name: "other", pw: "Other#Pw1", privs: map[string]int{"db1": 3}},
		{name: "allu", pw: "All#Pw1", privs: map[string]int{"db0": 3}},
		{name: "nop", pw: "Nop#Pw1"},
		{name: "rwu", pw: "Rwu#Pw1", rw: true},
	}}
}

func (e *env) liveRoutes() []liveRoute {
	var out []liveRoute
	for _, r := range e.h.VerifRoutes() {
		for _, m := range r.Methods {
			out = append(out, liveRoute{m, r.Pattern})
		}
		if len(r.Methods) == 0 {
			out = append(out, liveRoute{"*", r.Pattern})
		}
	}
	return out
}

func explore(c *hx.Ctx) error {
	w := baseWorld("s3cret")
	e := newEnv(w, cfgSpec{logKeeper: true, flux: true, pprof: true}, false)
	routes := e.liveRoutes()
	routes = append(routes, liveRoute{"GET", "/debug/pprof/"}, liveRoute{"GET", "/debug/vars"}, liveRoute{"GET", "/debug/query"})
	cases := credCases(w)
	pick := map[string]cred{}
	for _, cc := range cases {
		if cc.transport == "basic" || cc.class == "none" {
			if _, ok := pick[cc.class]; !ok {
				pick[cc.class] = cc.c
			}
		}
	}
	classes := []string{"none", "nop", "other", "ro", "wo", "allu", "admin"}
	for _, r := range routes {
		if o := c.Arg("only", ""); o != "" && !strings.Contains(r.pattern, o) {
			continue
		}
		path := concretePath(r.pattern)
		var cells []string
		for _, cl := range classes {
			q, body, hdrs := shape(r.method, path, "")
			e.rec.reset()
			e.unlock()
			resp := e.fire(r.method, path+"?"+q.Encode(), body, hdrs, pick[cl])
			eff, look := e.rec.snapshot()
			cell := fmt.Sprintf("%s:%d", cl, resp.status)
			if len(eff) > 0 {
				cell += "!" + strings.Join(uniq(eff), ",")
			}
			if len(look) > 0 {
				cell += "?" + strings.Join(uniq(look), ",")
			}
			if resp.hung || resp.panicS != "" {
				cell += " " + resp.outcome()
			}
			if cl == "admin" && (resp.status >= 400 || c.Arg("body", "") != "") {
				b := resp.body
				if len(b) > 120 {
					b = b[:120]
				}
				cell += " [" + strings.TrimSpace(b) + "]"
			}
			cells = append(cells, cell)
		}
		fmt.Fprintf(os.Stderr, "%-7s %-62s need=%-6s %s\n", r.method, r.pattern, need(r.method, r.pattern), strings.Join(cells, " | "))
	}
	return nil
}

func uniq(xs []string) []string {
	m := map[string]bool{}
	for _, x := range xs {
		m[x] = true
	}
	var out []string
	for x := range m {
		out = append(out, x)
	}
	sort.Strings(out)
	return out
}

// ---- specification side ---------------------------------------------------------------------

func hasPriv(u *userSpec, db string, want int) bool {
	if u.admin {
		return true
	}
	p, ok := u.privs[db]
	return ok && (p == want || p == 3)
}

// sufficient: does the property allow `u` (nil = no valid credentials) to use the route?
func sufficient(nd string, u *userSpec, db string, st *stmtDesc) bool {
	if nd == "public" {
		return true
	}
	if u == nil {
		return false
	}
	if u.admin {
		return true
	}
	switch nd {
	case "user":
		return true
	case "read":
		return hasPriv(u, db, 1)
	case "write":
		return hasPriv(u, db, 2)
	case "admin":
		return false
	case "query":
		if st == nil {
			return false
		}
		for _, k := range st.kinds {
			if adminOnlyKinds[k] {
				return false // changes the catalogue (databases, users, grants): administrators only
			}
		}
		for _, privs := range st.privs {
			for _, p := range privs {
				if p.Admin {
					return false
				}
				if p.Privilege == 0 {
					continue
				}
				d := p.Name
				if d == "" {
					d = db
				}
				if !hasPriv(u, d, int(p.Privilege)) {
					return false
				}
			}
		}
		return true
	}
	return false
}

// statement kinds that change the catalogue of databases and users: the property demands an
// administrator for them whatever RequiredPrivileges says.
var adminOnlyKinds = map[string]bool{
	"CreateDatabaseStatement": true, "DropDatabaseStatement": true, "CreateUserStatement": true, "DropUserStatement": true,
	"GrantStatement": true, "GrantAdminStatement": true, "RevokeStatement": true, "RevokeAdminStatement": true,
	"SetPasswordUserStatement": true,
}

var preMuxClass = []string{"/debug/pprof", "/debug/vars", "/debug/query"}

func routeClass(pattern string) string {
	for _, p := range preMuxClass {
		if strings.HasPrefix(pattern, p) {
			return p
		}
	}
	return pattern
}

func noauthzClass(pattern string) string {
	if strings.HasPrefix(pattern, "/api/v1/repository") || strings.HasPrefix(pattern, "/api/v1/logstream") || strings.HasPrefix(pattern, "/repo/") {
		return "noauthz:logkeeper-api"
	}
	return "noauthz:" + pattern
}

// ---- one route request -------------------------------------------------------------------------

const readStmtOp = "SelectStatement,-,011.-" // what the non-/query read handlers build: READ on the request's database

var defaultSelect = func() *stmtDesc {
	d, err := describe("SELECT * FROM m")
	if err != nil {
		panic(err)
	}
	return d
}()

func (e *env) routeOp(c *hx.Ctx, method, pattern, path, db string, cc credCase, st *stmtDesc) {
	if pattern == "/query" && st == nil {
		st = defaultSelect
	}
	text := ""
	qop := readStmtOp
	if st != nil {
		text = st.text
		qop = st.op
	}
	q, body, hdrs := shape(method, path, text)
	if db != targetDB {
		q.Set("db", db)
		if path == "/api/v2/write" {
			q.Set("bucket", db+"/autogen")
		}
	}
	e.rec.reset()
	failpointClear()
	resp := e.fire(method, path+"?"+q.Encode(), body, hdrs, cc.c)
	eff, _ := e.rec.snapshot()
	if failpointArmed() {
		eff = append(eff, "failpoint.Enable")
		failpointClear()
	}
	e.unlock()
	out := resp.outcome()
	ans := out
	if out != "pass" && !strings.HasPrefix(out, "err") && out != "hung" {
		ans += " fx=" + b01(len(eff) > 0)
	}
	dbx := false
	for _, d := range e.w.dbs {
		dbx = dbx || d == db
	}
	op := fmt.Sprintf("route %s %s %s db=%s dbx=%s %s q=%s", e.cfg.op(), method, hexs(path), hexs(db), b01(dbx), cc.c.op(), qop)
	line := c.Emit(op, ans)
	nd := need(method, pattern)
	c.Case(op, cc.class != "admin")
	c.Count("route:class=" + cc.class)
	c.Count("route:transport=" + cc.transport)
	c.Count("route:outcome=" + out)
	c.Count("route:need=" + nd)
	if len(eff) > 0 {
		c.Count("route:acted")
	}
	if strings.HasPrefix(out, "err") || out == "hung" {
		c.Violation(line, "panic", fmt.Sprintf("%s %s: %s", method, path, out))
		return
	}
	// the property
	var u *userSpec
	if cc.user != "" {
		u = e.w.user(cc.user)
	}
	if !e.w.auth || !e.w.adminExists() || (u != nil && u.rw) {
		return // outside the property's hypothesis (auth on, an administrator exists); rwuser is not a class of the property
	}
	if sufficient(nd, u, db, st) {
		return
	}
	desc := fmt.Sprintf("%s %s cred=%s/%s need=%s -> status %d effects=%v", method, path, cc.class, cc.transport, nd, resp.status, uniq(eff))
	if st != nil {
		desc += fmt.Sprintf(" db=%s q=%q", db, st.text)
	}
	akey := method + " " + path
	if cc.class == "none" && out == "pass" {
		e.anonPass[akey] = true
	}
	if u == nil {
		if out == "pass" {
			c.Violation(line, "route:"+routeClass(pattern), "answers without valid credentials: "+desc)
		} else if len(eff) > 0 {
			c.Violation(line, "route:"+routeClass(pattern), "acts while denying: "+desc)
		}
		return
	}
	cls := noauthzClass(routeClass(pattern))
	if e.anonPass[akey] {
		cls = "route:" + routeClass(pattern) // no authentication at all on this route: the same defect
	}
	if out == "pass" && (len(eff) > 0 || resp.status/100 == 2) {
		c.Violation(line, cls, "acts for an authenticated user lacking the needed privilege: "+desc)
	} else if out != "pass" && len(eff) > 0 {
		c.Violation(line, cls, "acts while denying: "+desc)
	}
}

func emitWorld(c *hx.Ctx, w *world) {
	for _, l := range w.opLines() {
		c.Emit(l, "ok")
	}
}

// routesOp ties the extracted table to the live mux: same (method, pattern) set.
func (e *env) routesOp(c *hx.Ctx) {
	var xs []string
	for _, r := range e.liveRoutes() {
		xs = append(xs, r.method+":"+r.pattern)
	}
	sort.Strings(xs)
	c.Emit("routes "+e.cfg.op(), strings.Join(xs, ","))
	c.Count("routes-op")
}

var extraPaths = []liveRoute{
	{"GET", "/debug/pprof/"}, {"GET", "/debug/pprof/cmdline"}, {"POST", "/debug/pprof/symbol"}, {"GET", "/debug/pprofX"},
	{"GET", "/debug/vars"}, {"POST", "/debug/vars"}, {"GET", "/debug/varsity"}, {"GET", "/debug/query"}, {"GET", "/debug/query/x"},
	{"GET", "/debug/ctrl"}, {"GET", "/debug"}, {"GET", "/"}, {"GET", "/nope"}, {"GET", "/query/"}, {"PUT", "/query"}, {"DELETE", "/write"},
	{"GET", "/write"}, {"POST", "/ping"}, {"GET", "/failpoint"}, {"GET", "/api/v1/tsdb/db0"}, {"POST", "/api/v1/repository"},
	{"GET", "/api/v1/logstream"}, {"GET", "/repo/db0/logstreams/ls0"}, {"GET", "/runtime_config"}, {"OPTIONS", "/ping"}, {"OPTIONS", "/debug/vars"},
}

func (e *env) allTargets(allPatterns []liveRoute) []liveRoute {
	seen := map[string]bool{}
	var out []liveRoute
	add := func(r liveRoute) {
		k := r.method + " " + r.pattern
		if !seen[k] {
			seen[k] = true
			out = append(out, r)
		}
	}
	for _, r := range e.liveRoutes() {
		add(r)
	}
	for _, r := range allPatterns {
		add(r) // registrations of other configurations: must be 404/405 here
	}
	for _, r := range extraPaths {
		add(r)
	}
	return out
}

func Run(c *hx.Ctx) error {
	if c.Arg("explore", "") != "" {
		return explore(c)
	}
	logger.SetLogger(zap.NewNop())
	c.Stats.Rule = "exhaustive product: every live (method, pattern) of the real mux (hook VerifRoutes) in 5 server configurations, plus pre-mux paths, unregistered methods and near-miss paths, x every credential case (none / malformed / unknown user / wrong password / read-only / write-only / other-database / all-privileges / no-privilege / rwuser / administrator over basic, URL, Token and bearer transports, ~80 cases) x target database; /query x 75 statement texts (every statement kind) + ~190 mixed multi-statement / multi-source queries (explicit `db..m` / `ON db` parts next to unqualified ones, both orders) x request database; the real authenticate through a probe route (all cases + seeded fuzz); UserInfo.AuthorizeDatabase / AuthorizeQuery for every user x database x privilege x statement; seeded grant/revoke sequences through Data.SetPrivilege; seeded random privilege worlds; thorough: a real ts-server with auth-enabled (black box). A case is non-trivial when the credential class is not the administrator; distinct by op line"
	thorough := c.Tier == "thorough"
	rng := hx.NewRng(c.Seed)

	// every (method, pattern) any configuration registers
	full := newEnv(baseWorld("s3cret"), cfgSpec{logKeeper: true, flux: true, pprof: true, ext: true}, false)
	allPatterns := full.liveRoutes()

	var stmts []*stmtDesc
	nPlain := len(statementTexts)
	for i, t := range append(append([]string{}, statementTexts...), mixedStatementTexts()...) {
		d, err := describe(t)
		if err == nil && i >= nPlain {
			d.mixed = true
			c.Count("stmt-mixed")
		}
		if err != nil {
			c.Count("stmt-skipped:" + t)
			continue
		}
		stmts = append(stmts, d)
		for _, k := range d.kinds {
			c.Count("stmt-kind:" + k)
		}
	}

	type run struct {
		w       *world
		cfg     cfgSpec
		classes map[string]bool // nil = all
	}
	noAdmin := baseWorld("s3cret")
	noAdmin.users = noAdmin.users[1:]
	authOff := baseWorld("s3cret")
	authOff.auth = false
	runs := []run{
		{baseWorld("s3cret"), cfgSpec{logKeeper: true, flux: true, pprof: true, ext: true}, nil},
		{baseWorld("s3cret"), cfgSpec{}, nil},
		{baseWorld(""), cfgSpec{logKeeper: true, pprof: true}, map[string]bool{"bearer": true}},
		{authOff, cfgSpec{logKeeper: true, flux: true, pprof: true}, map[string]bool{"none": true, "admin": true, "ro": true}},
		{noAdmin, cfgSpec{logKeeper: true, pprof: true}, map[string]bool{"none": true, "ro": true, "wo": true, "unknown": true}},
	}
	for _, rn := range runs {
		e := newEnv(rn.w, rn.cfg, false)
		emitWorld(c, rn.w)
		e.routesOp(c)
		cases := credCases(rn.w)
		for _, r := range e.allTargets(allPatterns) {
			path := concretePath(r.pattern)
			for _, cc := range cases {
				if rn.classes != nil && !rn.classes[cc.class] && !rn.classes[cc.transport] {
					continue
				}
				e.routeOp(c, r.method, r.pattern, path, targetDB, cc, nil)
			}
		}
		// other target databases on the routes that take one
		for _, db := range []string{"db1", "nodb"} {
			for _, r := range e.liveRoutes() {
				if nd := need(r.method, r.pattern); nd != "read" && nd != "write" && nd != "query" || strings.Contains(r.pattern, "{repository}") {
					continue
				}
				for _, cc := range cases {
					if cc.transport != "basic" && cc.class != "none" {
						continue
					}
					e.routeOp(c, r.method, r.pattern, concretePath(r.pattern), db, cc, nil)
				}
			}
		}
	}

	// /query: every statement kind x every credential case
	{
		w := baseWorld("s3cret")
		e := newEnv(w, cfgSpec{pprof: true}, false)
		emitWorld(c, w)
		cases := credCases(w)
		dbs := []string{targetDB}
		if thorough {
			dbs = []string{targetDB, "db1", "nodb"}
		}
		for _, st := range stmts {
			for _, m := range []string{"GET", "POST"} {
				for _, db := range dbs {
					for _, cc := range cases {
						if !thorough && cc.transport != "basic" && cc.transport != "bearer" && cc.class != "none" {
							continue
						}
						if st.mixed && cc.transport != "basic" && cc.class != "none" {
							continue // the mixed queries vary the user class, not the transport
						}
						e.routeOp(c, m, "/query", "/query", db, cc, st)
					}
				}
			}
		}
		// function level: UserInfo.AuthorizeDatabase / AuthorizeQuery
		e.authzOps(c, stmts)
	}

	// every combination of the registration switches: the live mux equals the extracted table filtered by routeLive
	for i := 0; i < 16; i++ {
		cfg := cfgSpec{logKeeper: i&8 != 0, flux: i&4 != 0, pprof: i&2 != 0, ext: i&1 != 0}
		newEnv(baseWorld("s3cret"), cfg, false).routesOp(c)
	}

	// parameter placement: URL vs body, duplicated and conflicting; the database acted on
	paramOps(c, thorough)

	// seeded worlds: random privilege tables, every live route x every user of the world
	nWorlds := 2
	if thorough {
		nWorlds = 40
	}
	for i := 0; i < nWorlds; i++ {
		w := randomWorld(rng)
		e := newEnv(w, cfgSpec{logKeeper: true, pprof: true}, false)
		emitWorld(c, w)
		cases := worldCases(w)
		for _, r := range e.liveRoutes() {
			path := concretePath(r.pattern)
			for _, db := range []string{"db0", "db1"} {
				if db == "db1" && (need(r.method, r.pattern) == "public" || strings.Contains(r.pattern, "{repository}")) {
					continue
				}
				for _, cc := range cases {
					e.routeOp(c, r.method, r.pattern, path, db, cc, nil)
				}
			}
		}
		c.Count("random-world")
	}

	// the real authenticate through a probe route
	for _, w := range []*world{baseWorld("s3cret"), baseWorld(""), authOff, noAdmin} {
		e := newEnv(w, cfgSpec{}, true)
		emitWorld(c, w)
		for _, cc := range credCases(w) {
			e.authOp(c, cc.c, cc.class)
			e.mauthOp(c, cc.c, cc.class)
		}
		for _, cr := range jwtCases(w) {
			e.authOp(c, cr, "jwt")
			e.mauthOp(c, cr, "jwt")
		}
		n := 300
		if thorough {
			n = 20000
		}
		for i := 0; i < n; i++ {
			e.authOp(c, fuzzCred(rng, w), "fuzz")
		}
	}

	// grant / revoke: a privilege change moves exactly the decisions of that user on that database
	{
		w := baseWorld("s3cret")
		e := newEnv(w, cfgSpec{}, false)
		emitWorld(c, w)
		steps := 40
		if thorough {
			steps = 1500
		}
		e.grantRevoke(c, rng, steps, stmts)
	}
	// the password cache across password changes; the zero-user bootstrap
	cacheOps(c, rng, thorough)
	bootOps(c, stmts)
	flightOps(c)
	metaHTTPOps(c)
	if thorough && c.Arg("blackbox", "1") != "0" {
		bbEnv := newEnv(baseWorld(""), cfgSpec{pprof: true, ext: true}, false)
		if err := blackbox(c, bbEnv.liveRoutes()); err != nil {
			return err
		}
	}
	c.Stats.Notes = append(c.Stats.Notes,
		"exhaustive: the route x method x credential-case x transport product is enumerated completely in every tier (hx.Stats has no `exhaustive` field); seeds only vary the fuzzed credentials of the auth ops and the grant/revoke sequence",
		"user lock-out after 5 failed logins (30 s wall clock) is outside the model and is cleared between requests",
		"world without any user (bootstrap: first statement may create the admin) is not enumerated; the property assumes an administrator exists")
	return nil
}
