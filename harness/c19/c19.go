// Package c19: correspondence harness for C19 (with authentication on, no endpoint acts
// without sufficient credentials). It instantiates the real httpd.Handler in-process over the
// real metaclient.Client / auth.QueryAuthorizer / auth.WriteAuthorizer and recording doubles
// for everything behind them, fires every live route x method x credential class x transport
// and writes the observed decisions (impl.out), the same cases for the Lean model (ops.txt)
// and the property verdict (viol.out).
package c19

import (
	"fmt"
	"os"
	"sort"
	"strings"

	"verif/harness/internal/hx"
)

func init() { hx.Register("C19", Run) }

func baseWorld(secret string) *world {
	return &world{auth: true, secret: secret, dbs: []string{"db0", "db1"}, users: []*userSpec{
		{name: "root", pw: "Root#Pw1", admin: true},
		{name: "ro", pw: "Ro#Pw1", privs: map[string]int{"db0": 1}},
		{name: "wo", pw: "Wo#Pw1", privs: map[string]int{"db0": 2}},
		{name: "other", pw: "Other#Pw1", privs: map[string]int{"db1": 3}},
		{name: "allu", pw: "All#Pw1", privs: map[string]int{"db0": 3}},
		{name: "nop", pw: "Nop#Pw1"},
		{name: "rwu", pw: "Rwu#Pw1", rw: true},
	}}
}

func (e *env) liveRoutes() []liveRoute {
	var out []liveRoute
	for _, r := range e.h.VerifRoutes() {
		for _, m := range r.Methods {
			out = append(out, liveRoute{m, r.Pattern})
		}
		if len(r.Methods) == 0 {
			out = append(out, liveRoute{"*", r.Pattern})
		}
	}
	return out
}

func explore(c *hx.Ctx) error {
	w := baseWorld("s3cret")
	e := newEnv(w, cfgSpec{logKeeper: true, flux: true, pprof: true}, false)
	routes := e.liveRoutes()
	routes = append(routes, liveRoute{"GET", "/debug/pprof/"}, liveRoute{"GET", "/debug/vars"}, liveRoute{"GET", "/debug/query"})
	cases := credCases(w)
	pick := map[string]cred{}
	for _, cc := range cases {
		if cc.transport == "basic" || cc.class == "none" {
			if _, ok := pick[cc.class]; !ok {
				pick[cc.class] = cc.c
			}
		}
	}
	classes := []string{"none", "nop", "other", "ro", "wo", "allu", "admin"}
	for _, r := range routes {
		if o := c.Arg("only", ""); o != "" && !strings.Contains(r.pattern, o) {
			continue
		}
		path := concretePath(r.pattern)
		var cells []string
		for _, cl := range classes {
			q, body, hdrs := shape(r.method, path, "")
			e.rec.reset()
			e.unlock()
			resp := e.fire(r.method, path+"?"+q.Encode(), body, hdrs, pick[cl])
			eff, look := e.rec.snapshot()
			cell := fmt.Sprintf("%s:%d", cl, resp.status)
			if len(eff) > 0 {
				cell += "!" + strings.Join(uniq(eff), ",")
			}
			if len(look) > 0 {
				cell += "?" + strings.Join(uniq(look), ",")
			}
			if resp.hung || resp.panicS != "" {
				cell += " " + resp.outcome()
			}
			if cl == "admin" && (resp.status >= 400 || c.Arg("body", "") != "") {
				b := resp.body
				if len(b) > 120 {
					b = b[:120]
				}
				cell += " [" + strings.TrimSpace(b) + "]"
			}
			cells = append(cells, cell)
		}
		fmt.Fprintf(os.Stderr, "%-7s %-62s need=%-6s %s\n", r.method, r.pattern, need(r.method, r.pattern), strings.Join(cells, " | "))
	}
	return nil
}

func uniq(xs []string) []string {
	m := map[string]bool{}
	for _, x := range xs {
		m[x] = true
	}
	var out []string
	for x := range m {
		out = append(out, x)
	}
	sort.Strings(out)
	return out
}

func Run(c *hx.Ctx) error {
	if c.Arg("explore", "") != "" {
		return explore(c)
	}
	return nil
}
