package c19

import (
	"errors"
	"sync"
	"time"

	"github.com/influxdata/influxdb/models"
	config2 "github.com/openGemini/openGemini/lib/config"
	"github.com/openGemini/openGemini/lib/metaclient"
	"github.com/openGemini/openGemini/lib/obs"
	"github.com/openGemini/openGemini/lib/record"
	"github.com/openGemini/openGemini/lib/util/lifted/influx/influxql"
	meta2 "github.com/openGemini/openGemini/lib/util/lifted/influx/meta"
	proto2 "github.com/openGemini/openGemini/lib/util/lifted/influx/meta/proto"
	"github.com/openGemini/openGemini/lib/util/lifted/influx/query"
	"github.com/openGemini/openGemini/lib/util/lifted/vm/protoparser/influx"
)

// recorder notes every call that reached a double. "effect" = the request made the server do
// (part of) what it asked for: data written, statement handed to the executor, catalogue
// changed, control command broadcast. "lookup" = a catalogue read made on the way.
type recorder struct {
	mu      sync.Mutex
	effects []string
	lookups []string
	// what acted, and on which database: every statement that reached the statement executor
	// (with the default database of its execution options), every batch handed to the points writer
	execs  []execRec
	writes []string
	// runAll: the statement executor double reports success, so that every statement of a
	// multi-statement query reaches it (otherwise the executor stops after the first)
	runAll bool
}

type execRec struct {
	db   string // ExecutionOptions.Database the statement is executed with
	stmt influxql.Statement
}

func (r *recorder) effect(what string) {
	r.mu.Lock()
	r.effects = append(r.effects, what)
	r.mu.Unlock()
}
func (r *recorder) lookup(what string) {
	r.mu.Lock()
	r.lookups = append(r.lookups, what)
	r.mu.Unlock()
}
func (r *recorder) reset() {
	r.mu.Lock()
	r.effects, r.lookups, r.execs, r.writes = nil, nil, nil, nil
	r.mu.Unlock()
}
func (r *recorder) acted() (execs []execRec, writes []string) {
	r.mu.Lock()
	defer r.mu.Unlock()
	return append([]execRec(nil), r.execs...), append([]string(nil), r.writes...)
}
func (r *recorder) snapshot() (eff, look []string) {
	r.mu.Lock()
	defer r.mu.Unlock()
	return append([]string(nil), r.effects...), append([]string(nil), r.lookups...)
}

var errNotExecuted = errors.New("verif: recorded, not executed")

// fakeMeta is the handler's MetaClient: authentication is answered by the real
// metaclient.Client over an in-memory catalogue; everything else is recorded.
type fakeMeta struct {
	*metaclient.Client
	rec *recorder
}

func (m *fakeMeta) Database(name string) (*meta2.DatabaseInfo, error) {
	m.rec.lookup("Database")
	return m.Client.Database(name)
}
func (m *fakeMeta) Measurement(database string, rpName string, mstName string) (*meta2.MeasurementInfo, error) {
	m.rec.lookup("Measurement")
	return nil, errors.New("measurement not found")
}
func (m *fakeMeta) ShowShards(db string, rp string, mst string) models.Rows {
	m.rec.effect("meta.ShowShards")
	return nil
}
func (m *fakeMeta) TagArrayEnabled(db string) bool { m.rec.lookup("TagArrayEnabled"); return false }
func (m *fakeMeta) DataNode(id uint64) (*meta2.DataNode, error) {
	m.rec.lookup("DataNode")
	return &meta2.DataNode{NodeInfo: meta2.NodeInfo{ID: id, Role: meta2.NodeDefault}}, nil
}
func (m *fakeMeta) DataNodes() ([]meta2.DataNode, error) { m.rec.lookup("DataNodes"); return nil, nil }
func (m *fakeMeta) SqlNodes() ([]meta2.DataNode, error)  { m.rec.lookup("SqlNodes"); return nil, nil }
func (m *fakeMeta) CreateDatabase(name string, enableTagArray bool, replicaN uint32, options *obs.ObsOptions) (*meta2.DatabaseInfo, error) {
	m.rec.effect("meta.CreateDatabase")
	return nil, errNotExecuted
}
func (m *fakeMeta) Databases() map[string]*meta2.DatabaseInfo {
	m.rec.effect("meta.Databases")
	return m.Client.Databases()
}
func (m *fakeMeta) MarkDatabaseDelete(name string) error {
	m.rec.effect("meta.MarkDatabaseDelete")
	return errNotExecuted
}
func (m *fakeMeta) Measurements(database string, ms influxql.Measurements) ([]string, error) {
	m.rec.effect("meta.Measurements")
	return nil, errNotExecuted
}
func (m *fakeMeta) CreateStreamPolicy(info *meta2.StreamInfo) error {
	m.rec.effect("meta.CreateStreamPolicy")
	return errNotExecuted
}
func (m *fakeMeta) CreateStreamMeasurement(info *meta2.StreamInfo, src, dest *influxql.Measurement, stmt *influxql.SelectStatement) error {
	m.rec.effect("meta.CreateStreamMeasurement")
	return errNotExecuted
}
func (m *fakeMeta) DropStream(name string) error {
	m.rec.effect("meta.DropStream")
	return errNotExecuted
}
func (m *fakeMeta) CreateRetentionPolicy(database string, spec *meta2.RetentionPolicySpec, makeDefault bool) (*meta2.RetentionPolicyInfo, error) {
	m.rec.effect("meta.CreateRetentionPolicy")
	return nil, errNotExecuted
}
func (m *fakeMeta) RetentionPolicy(database, name string) (rpi *meta2.RetentionPolicyInfo, err error) {
	m.rec.lookup("RetentionPolicy")
	return m.Client.RetentionPolicy(database, name)
}
func (m *fakeMeta) DBPtView(database string) (meta2.DBPtInfos, error) {
	m.rec.lookup("DBPtView")
	return nil, errNotExecuted
}
func (m *fakeMeta) MarkRetentionPolicyDelete(database, name string) error {
	m.rec.effect("meta.MarkRetentionPolicyDelete")
	return errNotExecuted
}
func (m *fakeMeta) CreateMeasurement(database, retentionPolicy, mst string, shardKey *meta2.ShardKeyInfo, numOfShards int32, indexR *influxql.IndexRelation, engineType config2.EngineType,
	colStoreInfo *meta2.ColStoreInfo, schemaInfo []*proto2.FieldSchema, options *meta2.Options) (*meta2.MeasurementInfo, error) {
	m.rec.effect("meta.CreateMeasurement")
	return nil, errNotExecuted
}
func (m *fakeMeta) UpdateMeasurement(db, rp, mst string, options *meta2.Options) error {
	m.rec.effect("meta.UpdateMeasurement")
	return errNotExecuted
}
func (m *fakeMeta) GetShardGroupByTimeRange(repoName, streamName string, min, max time.Time) ([]*meta2.ShardGroupInfo, error) {
	m.rec.lookup("GetShardGroupByTimeRange")
	return []*meta2.ShardGroupInfo{{ID: 1, StartTime: time.Unix(0, 0), EndTime: time.Unix(4000000000, 0)}}, nil
}
func (m *fakeMeta) RevertRetentionPolicyDelete(database, name string) error {
	m.rec.effect("meta.RevertRetentionPolicyDelete")
	return errNotExecuted
}

// sysMeta is syscontrol.SysCtrl.MetaClient: every control command starts by asking for the
// data nodes, which is where it is recorded and stopped.
type sysMeta struct {
	metaclient.MetaClient
	rec *recorder
}

func (m *sysMeta) DataNodes() ([]meta2.DataNode, error) {
	m.rec.effect("sysctrl.DataNodes")
	return nil, errNotExecuted
}
func (m *sysMeta) SendSysCtrlToMeta(mod string, param map[string]string) (map[string]string, error) {
	m.rec.effect("sysctrl.SendSysCtrlToMeta")
	return nil, errNotExecuted
}
func (m *sysMeta) SendBackupToMeta(mod string, param map[string]string) (map[string]string, error) {
	m.rec.effect("sysctrl.SendBackupToMeta")
	return nil, errNotExecuted
}
func (m *sysMeta) Database(name string) (*meta2.DatabaseInfo, error) {
	m.rec.lookup("sysctrl.Database")
	return nil, errNotExecuted
}

type recPoints struct{ rec *recorder }

func (p *recPoints) RetryWritePointRows(db, rp string, points []influx.Row) error {
	p.rec.effect("PointsWriter.RetryWritePointRows")
	p.rec.mu.Lock()
	p.rec.writes = append(p.rec.writes, db)
	p.rec.mu.Unlock()
	return nil
}

type recRecords struct{ rec *recorder }

func (p *recRecords) RetryWriteLogRecord(r *record.BulkRecords) error {
	p.rec.effect("RecordWriter.RetryWriteLogRecord")
	return nil
}

type recSubscriber struct{ rec *recorder }

func (p *recSubscriber) Send(db, rp, precision string, lineProtocol []byte) {
	p.rec.effect("SubscriberManager.Send")
}

// recExecutor stands in for the statement executor: a statement that gets here was going to run.
type recExecutor struct{ rec *recorder }

func (e *recExecutor) ExecuteStatement(stmt influxql.Statement, ctx *query.ExecutionContext, seq int) error {
	e.rec.effect("StatementExecutor.ExecuteStatement")
	e.rec.mu.Lock()
	e.rec.execs = append(e.rec.execs, execRec{db: ctx.ExecutionOptions.Database, stmt: stmt})
	all := e.rec.runAll
	e.rec.mu.Unlock()
	if all {
		return ctx.Send(&query.Result{}, seq, nil)
	}
	return errNotExecuted
}
func (e *recExecutor) Statistics(buffer []byte) ([]byte, error) { return buffer, nil }

// recRegister answers the task manager's one-time query-id registration.
type recRegister struct{ rec *recorder }

func (r *recRegister) RetryRegisterQueryIDOffset(host string) (uint64, error) {
	r.rec.lookup("RegisterQueryIDOffset")
	return 0, nil
}
