package c19

// The ts-meta HTTP handler in-process (hook VerifHTTPHandler: the real httpHandler over the
// harness' meta client and a recording store), with its own auth-enabled switch on.

import (
	"fmt"
	"net/http/httptest"
	"strings"

	tsmeta "github.com/openGemini/openGemini/app/ts-meta/meta"
	config2 "github.com/openGemini/openGemini/lib/config"

	"verif/harness/internal/hx"
)

var metaPaths = []liveRoute{
	{"GET", "/debug"}, {"GET", "/getdata"}, {"GET", "/analysisCache"},
	{"POST", "/userSnapshot"}, {"POST", "/metaRecover"}, {"POST", "/analysisCache"}, {"POST", "/takeover"}, {"POST", "/balance"},
	{"POST", "/movePt"}, {"POST", "/expandGroups"}, {"POST", "/leadershiptransfer"}, {"POST", "/specialCtlData"},
	{"POST", "/modifyRepDBMasterPt"}, {"POST", "/recoverMeta"},
	// no arm for these
	{"GET", "/takeover"}, {"POST", "/getdata"}, {"GET", "/"}, {"POST", "/nope"}, {"PUT", "/takeover"}, {"DELETE", "/getdata"},
}

func metaQuery(path string) string {
	switch path {
	case "/debug":
		return "?witch=raft-stat"
	case "/takeover", "/balance":
		return "?open=true"
	case "/movePt":
		return "?db=db0&ptId=0&to=1"
	case "/userSnapshot":
		return "?version=1"
	case "/specialCtlData":
		return "?cmd=x"
	case "/modifyRepDBMasterPt":
		return "?db=db0&rgId=0&newMasterPtId=1"
	}
	return ""
}

func metaHTTPOps(c *hx.Ctx) {
	w := baseWorld("s3cret")
	e := newEnv(w, cfgSpec{}, false)
	emitWorld(c, w)
	conf := config2.NewMeta()
	conf.AuthEnabled = w.auth
	h, store := tsmeta.VerifHTTPHandler(conf, e.client)
	cases := credCases(w)
	for _, r := range metaPaths {
		for _, cc := range cases {
			if cc.transport == "token" && cc.class != "admin" {
				continue
			}
			store.Reset()
			req := httptest.NewRequest(r.method, r.pattern+metaQuery(r.pattern), strings.NewReader("{}"))
			cc.c.apply(req, w.secret)
			rr := httptest.NewRecorder()
			perr := hx.Safe(func() { h.ServeHTTP(rr, req) })
			e.unlock()
			calls := store.Calls()
			body := rr.Body.String()
			var ans string
			switch {
			case perr != "":
				ans = "err " + perr
			case rr.Code == 401 && len(calls) == 0:
				ans = "401"
			case rr.Code == 401:
				ans = "deny+reached"
			case len(calls) == 0 && (rr.Code == 200 && body == "" || rr.Code == 400 && strings.TrimSpace(body) == ""):
				ans = "none"
			default:
				ans = "reached"
			}
			op := fmt.Sprintf("mroute %s %s %s", r.method, hexs(r.pattern), cc.c.op())
			line := c.Emit(op, ans)
			c.Case(op, cc.class != "admin")
			c.Count("mroute:" + strings.SplitN(ans, " ", 2)[0])
			if strings.HasPrefix(ans, "err") {
				c.Violation(line, "panic", fmt.Sprintf("ts-meta %s %s: %s", r.method, r.pattern, ans))
				continue
			}
			// the property on the ts-meta listener: no endpoint acts for a request without valid password credentials
			valid := ""
			if cc.c.hdr != "bearer" && cc.c.hdr != "jwt" || (cc.c.urlU != "" && cc.c.urlP != "") {
				valid = validFor(w, cc.c)
			}
			if valid == "" && (ans == "reached" || ans == "deny+reached") {
				c.Violation(line, "route:ts-meta"+r.pattern, fmt.Sprintf("ts-meta HTTP API (auth-enabled) %s %s with credentials %s/%s -> status %d, store calls %v: the endpoint ran without valid credentials",
					r.method, r.pattern, cc.class, cc.transport, rr.Code, calls))
			}
		}
	}
}
