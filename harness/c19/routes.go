package c19

import (
	"encoding/base64"
	"net/url"
	"strings"

	"github.com/golang/snappy"
	"github.com/prometheus/prometheus/prompb"
)

// liveRoute is one registration taken from the running handler's mux (hook VerifRoutes).
type liveRoute struct {
	method, pattern string
}

var pathVars = map[string]string{
	"{repository}": "db0", "{logStream}": "ls0", "{metric_store}": "ms0", "{name}": "job",
	"{tsdb}": "db0", "{cursor}": "c0", "{taskId}": "t0",
}

func concretePath(pattern string) string {
	p := pattern
	for k, v := range pathVars {
		p = strings.ReplaceAll(p, k, v)
	}
	return p
}

const targetDB = "db0"

var promReadBody = func() []byte {
	req := prompb.ReadRequest{Queries: []*prompb.Query{{StartTimestampMs: 1, EndTimestampMs: 2,
		Matchers: []*prompb.LabelMatcher{{Type: prompb.LabelMatcher_EQ, Name: "__name__", Value: "up"}}}}}
	b, err := req.Marshal()
	if err != nil {
		panic(err)
	}
	return snappy.Encode(nil, b)
}()

var promWriteBody = func() []byte {
	req := prompb.WriteRequest{Timeseries: []prompb.TimeSeries{{
		Labels:  []prompb.Label{{Name: "__name__", Value: "up"}, {Name: "job", Value: "j"}},
		Samples: []prompb.Sample{{Value: 1, Timestamp: 1700000000000}}}}}
	b, err := req.Marshal()
	if err != nil {
		panic(err)
	}
	return snappy.Encode(nil, b)
}()

// shape gives every route a request that is valid enough to reach the point where the
// handler decides about authorization and, with sufficient credentials, to act.
func shape(method, path string, stmt string) (q url.Values, body []byte, hdrs map[string]string) {
	q = url.Values{}
	q.Set("db", targetDB)
	hdrs = map[string]string{}
	has := func(s string) bool { return strings.HasSuffix(path, s) }
	switch {
	case path == "/query":
		if stmt == "" {
			stmt = "SELECT * FROM m"
		}
		q.Set("q", stmt)
	case path == "/write":
		body = []byte("m,t=a v=1 1700000000000000000\n")
	case path == "/api/v2/write":
		q.Set("bucket", targetDB+"/autogen")
		body = []byte("m,t=a v=1 1700000000000000000\n")
	case has("/api/v1/write"):
		body = promWriteBody
	case has("/api/v1/read"):
		body = promReadBody
	case has("/api/v1/query"):
		q.Set("query", "up")
		q.Set("time", "1700000000")
	case has("/api/v1/query_range"):
		q.Set("query", "up")
		q.Set("start", "1700000000")
		q.Set("end", "1700000060")
		q.Set("step", "15")
	case has("/api/v1/labels"), has("/values"), has("/api/v1/metadata"):
		q.Set("start", "1700000000")
		q.Set("end", "1700000060")
	case has("/api/v1/series"):
		q.Set("match[]", "up")
		q.Set("start", "1700000000")
		q.Set("end", "1700000060")
	case path == "/debug/ctrl":
		q.Set("mod", "flush")
	case path == "/failpoint":
		q.Set("flag", "enable")
		q.Set("point", failpointName)
		q.Set("term", "return(1)")
	case strings.HasPrefix(path, "/debug/query"):
		q.Set("mod", "shards")
	case strings.HasPrefix(path, "/api/v1/otlp/"):
		hdrs["Content-Type"] = "application/x-protobuf"
		body = []byte{}
	case strings.HasPrefix(path, "/fence/"):
		q.Set("points", "1,1,1")
		q.Set("fenceId", "f0")
	case strings.HasPrefix(path, "/repo/") && (has("/records") || has("/upload")):
		hdrs["Content-Type"] = "application/json"
		body = []byte(`{"content":"hello","time":1700000000000}` + "\n")
	case strings.HasPrefix(path, "/repo/"):
		q.Set("query", "hello")
		if has("/analytics") {
			q.Set("query", "hello | select count(*) from ls0")
		}
		if has("/context") {
			q.Set("cursor", base64.StdEncoding.EncodeToString([]byte("^1700000030000000000^0")))
		}
		q.Set("from", "1700000000000")
		q.Set("to", "1700000060000")
		q.Set("reverse", "false")
		q.Set("limit", "10")
	case strings.HasPrefix(path, "/api/v1/logstream/") && (method == "POST" || method == "PUT"):
		body = []byte(`{"ttl":7}`)
	}
	return
}

// need is the specification's side: what the property demands of a caller before a route may
// act. It is written from the property text, not from the code:
//
//	"public"  liveness/status endpoints and CORS pre-flight: answer anonymously
//	"user"    any authenticated user (server-wide monitoring data, inert endpoints)
//	"read"    reads data of the target database
//	"write"   writes data into the target database
//	"admin"   changes the catalogue or controls the server
//	"query"   /query: decided per statement by its required privileges
func need(method, pattern string) string {
	if method == "OPTIONS" {
		return "public"
	}
	pattern = routeClass(pattern)
	switch pattern {
	case "/ping", "/status":
		return "public"
	case "/query":
		return "query"
	case "/write", "/api/v2/write", "/api/v1/write", "/prometheus/{metric_store}/api/v1/write",
		"/api/v1/otlp/traces", "/api/v1/otlp/metrics", "/api/v1/otlp/logs",
		"/repo/{repository}/logstreams/{logStream}/records", "/repo/{repository}/logstreams/{logStream}/upload",
		"/fence/delete_fence", "/fence/match_batch":
		return "write"
	case "/metrics", "/api/v2/query":
		return "user"
	case "/debug/ctrl", "/backup/run", "/backup/abort", "/backup/status", "/failpoint",
		"/debug/pprof", "/debug/vars", "/debug/query", "/runtime_config",
		"/api/v1/tsdb/{tsdb}":
		return "admin"
	}
	switch {
	case strings.HasPrefix(pattern, "/api/v1/repository"), strings.HasPrefix(pattern, "/api/v1/logstream"):
		if method == "GET" {
			return "read"
		}
		return "admin"
	case strings.HasSuffix(pattern, "/recalldata"), strings.Contains(pattern, "/stream-task"):
		return "admin"
	case strings.HasPrefix(pattern, "/repo/"), strings.HasPrefix(pattern, "/api/v1/"), strings.HasPrefix(pattern, "/prometheus/"):
		return "read"
	}
	return "user" // an endpoint the specification does not know: at least a valid user
}
