package c19

import (
	"bytes"
	"fmt"
	"io"
	"net"
	"net/http"
	"net/url"
	"os"
	"os/exec"
	"path/filepath"
	"regexp"
	"strings"
	"syscall"
	"time"

	"verif/harness/internal/hx"
)

// blackbox (thorough tier): the same decisions on a real single-node ts-server built from the
// working tree and started with `auth-enabled = true` and `[runtime-config] enabled = true`.
// Only what a client can see is compared (status class, no side-effect recording).

func freePorts(n int) ([]int, error) {
	var ls []net.Listener
	var out []int
	for i := 0; i < n; i++ {
		l, err := net.Listen("tcp", "127.0.0.1:0")
		if err != nil {
			return nil, err
		}
		ls = append(ls, l)
		out = append(out, l.Addr().(*net.TCPAddr).Port)
	}
	for _, l := range ls {
		l.Close()
	}
	return out, nil
}

type bbServer struct {
	base string
	cmd  *exec.Cmd
}

func (s *bbServer) stop() {
	if s.cmd != nil && s.cmd.Process != nil {
		_ = syscall.Kill(-s.cmd.Process.Pid, syscall.SIGKILL)
		_, _ = s.cmd.Process.Wait()
	}
}

func startServer(c *hx.Ctx, dir string) (*bbServer, error) {
	repo := os.Getenv("VERIF_REPO")
	if repo == "" {
		repo = "/repo"
	}
	bin := filepath.Join(dir, "ts-server")
	build := exec.Command("go", "build", "-o", bin, "./app/ts-server")
	build.Dir = repo
	build.Env = os.Environ()
	if out, err := build.CombinedOutput(); err != nil {
		return nil, fmt.Errorf("build ts-server: %v: %s", err, tail(string(out), 800))
	}
	raw, err := os.ReadFile(filepath.Join(repo, "config", "openGemini.singlenode.conf"))
	if err != nil {
		return nil, err
	}
	conf := strings.ReplaceAll(string(raw), "\r\n", "\n")
	ports, err := freePorts(9)
	if err != nil {
		return nil, err
	}
	for i, p := range []string{"8092", "8088", "8091", "8086", "8087", "8400", "8401", "8305"} {
		conf = strings.ReplaceAll(conf, "127.0.0.1:"+p, fmt.Sprintf("127.0.0.1:%d", ports[i]))
	}
	conf = strings.ReplaceAll(conf, "/tmp/openGemini", filepath.Join(dir, "og"))
	conf = strings.Replace(conf, "[http]\n", "[http]\n  auth-enabled = true\n", 1)
	yml := filepath.Join(dir, "overrides.yml")
	if err := os.WriteFile(yml, []byte("overrides:\n  tenant1:\n    max-label-name-length: 7\n"), 0o644); err != nil {
		return nil, err
	}
	re := regexp.MustCompile(`(?s)\[runtime-config\].*?reload-period = "10s"`)
	conf = re.ReplaceAllString(conf, "[runtime-config]\n  enabled = true\n  load-path = \""+yml+"\"\n  reload-period = \"1s\"")
	if !strings.Contains(conf, "auth-enabled = true") || !strings.Contains(conf, yml) {
		return nil, fmt.Errorf("config rewrite failed")
	}
	cf := filepath.Join(dir, "server.conf")
	if err := os.WriteFile(cf, []byte(conf), 0o644); err != nil {
		return nil, err
	}
	logf, err := os.Create(filepath.Join(dir, "server.out"))
	if err != nil {
		return nil, err
	}
	cmd := exec.Command(bin, "-config", cf)
	cmd.Dir = dir
	cmd.Stdout, cmd.Stderr = logf, logf
	cmd.SysProcAttr = &syscall.SysProcAttr{Setpgid: true}
	cmd.Env = append(os.Environ(), "HOME="+dir)
	if err := cmd.Start(); err != nil {
		return nil, err
	}
	s := &bbServer{base: fmt.Sprintf("http://127.0.0.1:%d", ports[3]), cmd: cmd}
	deadline := time.Now().Add(90 * time.Second)
	for time.Now().Before(deadline) {
		resp, err := http.Get(s.base + "/ping")
		if err == nil {
			resp.Body.Close()
			if resp.StatusCode == 204 {
				return s, nil
			}
		}
		time.Sleep(300 * time.Millisecond)
	}
	s.stop()
	b, _ := os.ReadFile(filepath.Join(dir, "server.out"))
	return nil, fmt.Errorf("ts-server did not come up: %s", tail(string(b), 600))
}

func tail(s string, n int) string {
	if len(s) > n {
		return s[len(s)-n:]
	}
	return s
}

func (s *bbServer) do(method, target string, body []byte, hdrs map[string]string, cr cred, secret string) response {
	var rd io.Reader
	if body != nil {
		rd = bytes.NewReader(body)
	}
	req, err := http.NewRequest(method, s.base+target, rd)
	if err != nil {
		return response{panicS: err.Error()}
	}
	for k, v := range hdrs {
		req.Header.Set(k, v)
	}
	cr.apply(req, secret)
	cl := &http.Client{Timeout: 30 * time.Second, CheckRedirect: func(*http.Request, []*http.Request) error { return http.ErrUseLastResponse }}
	resp, err := cl.Do(req)
	if err != nil {
		return response{panicS: "transport: " + err.Error()}
	}
	defer resp.Body.Close()
	b, _ := io.ReadAll(io.LimitReader(resp.Body, 1<<16))
	return response{status: resp.StatusCode, body: string(b), hdr: resp.Header}
}

func (s *bbServer) query(q string, cr cred) response {
	v := url.Values{}
	v.Set("q", q)
	return s.do("POST", "/query?"+v.Encode(), nil, nil, cr, "")
}

func blackbox(c *hx.Ctx, patterns []liveRoute) error {
	dir, err := filepath.Abs(filepath.Join(c.Out, "bb"))
	if err != nil {
		return err
	}
	if err := os.MkdirAll(dir, 0o755); err != nil {
		return err
	}
	srv, err := startServer(c, dir)
	if err != nil {
		c.Stats.Notes = append(c.Stats.Notes, "black-box server not run: "+err.Error())
		c.Count("blackbox:skipped")
		return nil
	}
	defer srv.stop()
	w := &world{auth: true, secret: "", dbs: []string{"db0"}, users: []*userSpec{
		{name: "root", pw: "Root#Pw12345", admin: true},
		{name: "rouser", pw: "Ro#Pw1234567", privs: map[string]int{"db0": 1}},
		{name: "nopuser", pw: "Nop#Pw123456"},
	}}
	root := pwCred("basic", "root", w.users[0].pw)
	// bootstrap: no administrator yet, the first statement may create one
	steps := []struct {
		q  string
		cr cred
	}{
		{"CREATE USER root WITH PASSWORD 'Root#Pw12345' WITH ALL PRIVILEGES", cred{hdr: "-"}},
		{"CREATE DATABASE db0", root},
		{"CREATE USER rouser WITH PASSWORD 'Ro#Pw1234567'", root},
		{"CREATE USER nopuser WITH PASSWORD 'Nop#Pw123456'", root},
		{"GRANT READ ON db0 TO rouser", root},
	}
	for _, st := range steps {
		r := srv.query(st.q, st.cr)
		if r.status != 200 || strings.Contains(r.body, `"error"`) {
			c.Stats.Notes = append(c.Stats.Notes, fmt.Sprintf("black-box bootstrap failed at %q: %d %s", st.q, r.status, tail(r.body, 200)))
			c.Count("blackbox:bootstrap-failed")
			return nil
		}
	}
	time.Sleep(1500 * time.Millisecond) // runtime config reload period
	emitWorld(c, w)
	cfg := cfgSpec{pprof: true, ext: true}
	cases := []credCase{
		{class: "none", transport: "-", c: cred{hdr: "-"}},
		{class: "wrongpw", transport: "basic", c: pwCred("basic", "root", "Root#Pw12345x")},
		{class: "unknown", transport: "url", c: pwCred("url", "ghost", "Ghost#Pw1234")},
		{class: "malformed", transport: "basic", c: cred{hdr: "other", otherRaw: "Basic !!!"}},
		{class: "bearer", transport: "bearer", c: cred{hdr: "bearer", tok: jwtSpec{parses: true, expOk: true, user: jwtUser{"n", "root"}}}},
		{class: "nop", transport: "basic", c: pwCred("basic", "nopuser", "Nop#Pw123456"), user: "nopuser"},
		{class: "ro", transport: "token", c: pwCred("token", "rouser", "Ro#Pw1234567"), user: "rouser"},
	}
	targets := append([]liveRoute{}, patterns...)
	targets = append(targets, extraPaths...)
	seen := map[string]bool{}
	for _, r := range targets {
		k := r.method + " " + r.pattern
		if seen[k] {
			continue
		}
		seen[k] = true
		path := concretePath(r.pattern)
		if strings.HasPrefix(path, "/debug/pprof/") && path != "/debug/pprof/" && path != "/debug/pprof/cmdline" {
			continue // profile, trace: long running
		}
		for _, cc := range cases {
			st := (*stmtDesc)(nil)
			if r.pattern == "/query" {
				st = defaultSelect
			}
			text, qop := "", readStmtOp
			if st != nil {
				text, qop = st.text, st.op
			}
			q, body, hdrs := shape(r.method, path, text)
			resp := srv.do(r.method, path+"?"+q.Encode(), body, hdrs, cc.c, "")
			out := resp.outcome()
			op := fmt.Sprintf("bb %s %s %s db=%s dbx=1 %s q=%s", cfg.op(), r.method, hexs(path), hexs(targetDB), cc.c.op(), qop)
			line := c.Emit(op, out)
			c.Case(op, true)
			c.Count("blackbox:outcome=" + out)
			if strings.HasPrefix(out, "err") {
				c.Violation(line, "blackbox-transport", fmt.Sprintf("%s %s: %s", r.method, path, out))
				continue
			}
			nd := need(r.method, r.pattern)
			var u *userSpec
			if cc.user != "" {
				u = w.user(cc.user)
			}
			if sufficient(nd, u, targetDB, st) {
				continue
			}
			desc := fmt.Sprintf("live server: %s %s cred=%s/%s need=%s -> status %d", r.method, path, cc.class, cc.transport, nd, resp.status)
			if u == nil && out == "pass" {
				c.Violation(line, "route:"+routeClass(r.pattern), "answers without valid credentials: "+desc)
			} else if u != nil && out == "pass" && resp.status/100 == 2 {
				cls := noauthzClass(routeClass(r.pattern))
				if anon := srv.do(r.method, path+"?"+q.Encode(), body, hdrs, cred{hdr: "-"}, ""); anon.outcome() == "pass" {
					cls = "route:" + routeClass(r.pattern)
				}
				c.Violation(line, cls, "answers 2xx for an authenticated user lacking the needed privilege: "+desc)
			}
		}
	}
	c.Count("blackbox:ran")
	return nil
}
