package c19

// Requests whose parameters are placed, duplicated and made to conflict between the URL query
// string and the body (urlencoded form, multipart form, no / other content type; GET with a
// body), with credentials in every transport. The recording doubles note the database every
// statement is executed with / every batch of points is written to; the property is checked on
// that: whatever acted must be covered by the grants of the user the credentials are valid for.

import (
	"bytes"
	"fmt"
	"io"
	"mime/multipart"
	"net/http/httptest"
	"net/url"
	"sort"
	"strings"

	"verif/harness/internal/hx"
)

type pv struct{ k, v string }

type preq struct {
	method, pattern, path string
	ctype                 string // n (no Content-Type) u (urlencoded) m (multipart) o (application/json)
	url                   []pv
	body                  []pv   // form fields carried by the body
	payload               []byte // raw body instead of form fields (line protocol, snappy protobuf)
	ctHeader              string // Content-Type to send instead of the one `ctype` stands for (ctype must then be "o")
	cc                    credCase
	user                  string // the user the request's credentials are valid for ("" = nobody), by the property's reading
	q0                    string // statements of the handlers that do not read `q`
	qs                    []*stmtDesc
}

func encPairs(ps []pv) string {
	var xs []string
	for _, p := range ps {
		xs = append(xs, url.QueryEscape(p.k)+"="+url.QueryEscape(p.v))
	}
	return strings.Join(xs, "&")
}

func pairsOp(ps []pv) string {
	if len(ps) == 0 {
		return "-"
	}
	var xs []string
	for _, p := range ps {
		xs = append(xs, hexs(p.k)+":"+hexs(p.v))
	}
	return strings.Join(xs, ",")
}

func mk(k string, vs []string) []pv {
	var out []pv
	for _, v := range vs {
		out = append(out, pv{k, v})
	}
	return out
}

func cat(xs ...[]pv) []pv {
	var out []pv
	for _, x := range xs {
		out = append(out, x...)
	}
	return out
}

var ctypeHeader = map[string]string{"u": "application/x-www-form-urlencoded", "o": "application/json"}

func (p *preq) target() string {
	if len(p.url) == 0 {
		return p.path
	}
	return p.path + "?" + encPairs(p.url)
}

func (e *env) firePreq(p *preq) response {
	var rd io.Reader
	ct := ctypeHeader[p.ctype]
	switch {
	case p.payload != nil:
		rd = bytes.NewReader(p.payload)
	case p.ctype == "m":
		var buf bytes.Buffer
		mw := multipart.NewWriter(&buf)
		for _, f := range p.body {
			_ = mw.WriteField(f.k, f.v)
		}
		_ = mw.Close()
		rd = &buf
		ct = mw.FormDataContentType()
	case len(p.body) > 0:
		rd = strings.NewReader(encPairs(p.body))
	}
	req := httptest.NewRequest(p.method, p.target(), rd)
	if p.ctHeader != "" {
		ct = p.ctHeader
	}
	if ct != "" {
		req.Header.Set("Content-Type", ct)
	}
	p.cc.c.applyHeader(req, e.w.secret)
	return e.serve(req)
}

func (p *preq) describe() string {
	ct := ctypeHeader[p.ctype]
	if p.ctype == "m" {
		ct = "multipart/form-data"
	}
	body := encPairs(p.body)
	if p.payload != nil {
		body = fmt.Sprintf("<%d bytes payload>", len(p.payload))
	}
	return fmt.Sprintf("%s %s content-type=%q body=%q authorization=%s/%s", p.method, p.target(), ct, body, p.cc.class, p.cc.transport)
}

func privName(p int) string { return [...]string{"NO", "READ", "WRITE", "ALL"}[p&3] }

func (e *env) preqOp(c *hx.Ctx, p *preq) {
	e.rec.reset()
	e.rec.mu.Lock()
	e.rec.runAll = true
	e.rec.mu.Unlock()
	resp := e.firePreq(p)
	eff, _ := e.rec.snapshot()
	execs, writes := e.rec.acted()
	e.rec.mu.Lock()
	e.rec.runAll = false
	e.rec.mu.Unlock()
	e.unlock()
	out := resp.outcome()
	dbset := map[string]bool{}
	for _, x := range execs {
		dbset[x.db] = true
	}
	for _, d := range writes {
		dbset[d] = true
	}
	var dbl []string
	for d := range dbset {
		dbl = append(dbl, hexs(d))
	}
	sort.Strings(dbl)
	ans := out
	switch {
	case out == "pass" && len(dbl) > 0:
		ans = "pass x=" + strings.Join(dbl, ",")
	case out != "pass" && !strings.HasPrefix(out, "err") && out != "hung":
		ans += " fx=" + b01(len(eff) > 0)
	}
	bodyOp := pairsOp(p.body)
	if p.payload != nil {
		bodyOp = "-"
	}
	var dbsOp []string
	for _, d := range e.w.dbs {
		dbsOp = append(dbsOp, hexs(d))
	}
	qsOp := "-"
	if len(p.qs) > 0 {
		var xs []string
		for _, d := range p.qs {
			xs = append(xs, hexs(d.text)+"="+d.op)
		}
		qsOp = strings.Join(xs, "/")
	}
	q0 := p.q0
	if q0 == "" {
		q0 = "-"
	}
	op := fmt.Sprintf("preq %s %s %s ct=%s url=%s body=%s %s dbs=%s q0=%s qs=%s", e.cfg.op(), p.method, hexs(p.path), p.ctype,
		pairsOp(p.url), bodyOp, p.cc.c.hdrOp(), strings.Join(dbsOp, ","), q0, qsOp)
	line := c.Emit(op, ans)
	c.Case(op, p.user != "root")
	c.Count("preq:handler=" + p.pattern)
	c.Count("preq:ctype=" + p.ctype + "/" + p.method)
	c.Count("preq:outcome=" + strings.SplitN(ans, " ", 2)[0])
	if len(dbl) > 0 {
		c.Count("preq:acted")
	}
	if strings.HasPrefix(out, "err") || out == "hung" {
		c.Violation(line, "panic", p.describe()+": "+out)
		return
	}
	// ---- the property -------------------------------------------------------------------
	var u *userSpec
	if p.user != "" {
		u = e.w.user(p.user)
	}
	if !e.w.auth || !e.w.adminExists() || (u != nil && u.rw) {
		return
	}
	cls := noauthzClass(routeClass(p.pattern))
	if u == nil {
		cls = "route:" + routeClass(p.pattern)
	}
	who := "nobody (no valid credentials)"
	if u != nil {
		who = fmt.Sprintf("user %s (admin=%v grants=%v)", u.name, u.admin, u.privs)
	}
	if out != "pass" && (len(execs) > 0 || len(writes) > 0) {
		c.Violation(line, cls, fmt.Sprintf("acts while denying: %s as %s -> status %d, effects %v", p.describe(), who, resp.status, uniq(eff)))
		return
	}
	for _, x := range execs {
		kind := strings.TrimPrefix(fmt.Sprintf("%T", x.stmt), "*influxql.")
		privs, err := x.stmt.RequiredPrivileges()
		if err != nil {
			continue
		}
		for _, rp := range privs {
			db := rp.Name
			if db == "" {
				db = x.db
			}
			ok := u != nil && (u.admin || (!rp.Admin && !adminOnlyKinds[kind] && (rp.Privilege == 0 || hasPriv(u, db, int(rp.Privilege)))))
			if !ok {
				need := privName(int(rp.Privilege)) + " on " + fmt.Sprintf("%q", db)
				if rp.Admin || adminOnlyKinds[kind] {
					need = "an administrator"
				}
				c.Violation(line, cls, fmt.Sprintf("executed without the privilege: %s as %s -> status %d; statement %q (%s) was executed with default database %q and needs %s",
					p.describe(), who, resp.status, x.stmt.String(), kind, x.db, need))
				return
			}
		}
	}
	for _, d := range writes {
		if u == nil || !hasPriv(u, d, 2) {
			c.Violation(line, cls, fmt.Sprintf("written without the privilege: %s as %s -> status %d; points were written to database %q (needs WRITE)",
				p.describe(), who, resp.status, d))
			return
		}
	}
}

// hdrCases: one valid credential per user class, in the Authorization header.
func hdrCases(w *world) []credCase {
	out := []credCase{{class: "none", transport: "-", c: cred{hdr: "-"}}}
	for _, cl := range []string{"ro", "wo", "other", "allu", "nop", "rw", "admin"} {
		u := w.user(classUsers[cl])
		if u == nil {
			continue
		}
		out = append(out, credCase{class: cl, transport: "basic", c: pwCred("basic", u.name, u.pw), user: u.name})
	}
	return out
}

var dbLists = [][]string{nil, {"db0"}, {"db1"}, {"db0", "db1"}, {"db1", "db0"}, {""}}

type methodCT struct{ method, ctype string }

var allMethodCT = []methodCT{{"GET", "n"}, {"GET", "u"}, {"GET", "m"}, {"GET", "o"}, {"POST", "n"}, {"POST", "u"}, {"POST", "m"}, {"POST", "o"}}

func mustDescribe(t string) *stmtDesc {
	d, err := describe(t)
	if err != nil {
		panic(err)
	}
	return d
}

// paramOps enumerates the parameter placements. The product is exhaustive over its axes in both tiers.
func paramOps(c *hx.Ctx, thorough bool) {
	w := baseWorld("s3cret")
	e := newEnv(w, cfgSpec{pprof: true}, false)
	emitWorld(c, w)
	users := hdrCases(w)
	t1 := mustDescribe("SELECT * FROM m")
	t2 := mustDescribe("SHOW MEASUREMENTS ON db1")
	t3 := mustDescribe("SELECT * FROM m; SELECT * FROM db1..m")
	t4 := mustDescribe("DROP SERIES FROM m")
	t5 := mustDescribe("SHOW TAG KEYS; SELECT * FROM m")
	all := []*stmtDesc{t1, t2, t3, t4, t5}
	noise := [][]pv{nil, {{"epoch", "ms"}, {"chunked", "true"}}, {{"epoch", "ns"}}, {{"chunked", "false"}, {"rp", "autogen"}}}

	// A. /query: db in URL x db in body x method x content type x user; q in the URL
	i := 0
	for _, mc := range allMethodCT {
		for _, ul := range dbLists {
			for _, bl := range dbLists {
				for _, cc := range users {
					i++
					nz := noise[i%len(noise)]
					nb := noise[(i/3)%len(noise)]
					e.preqOp(c, &preq{method: mc.method, pattern: "/query", path: "/query", ctype: mc.ctype,
						url: cat(mk("db", ul), []pv{{"q", t1.text}}, nz), body: cat(mk("db", bl), nb), cc: cc, user: cc.user, qs: all})
				}
			}
		}
	}
	// A2. the query text itself in the body, in both places (conflicting), duplicated; rp in both places
	type place struct{ u, b []string }
	places := []place{{[]string{"db0"}, []string{"db1"}}, {[]string{"db1"}, []string{"db0"}}, {[]string{"db0"}, nil}, {nil, []string{"db1"}}, {nil, nil}}
	type qvar struct {
		name string
		u, b []string
	}
	qvars := []qvar{
		{"body", nil, []string{t1.text}}, {"both", []string{t1.text}, []string{t2.text}}, {"both-rev", []string{t2.text}, []string{t1.text}},
		{"multi", []string{t3.text}, nil}, {"write", []string{t4.text}, nil}, {"dup-url", []string{t1.text, t2.text}, nil},
		{"multi-body", []string{t1.text}, []string{t5.text}}, {"none", nil, nil},
	}
	for _, mc := range allMethodCT {
		for _, pl := range places {
			for _, qv := range qvars {
				for _, cc := range users {
					e.preqOp(c, &preq{method: mc.method, pattern: "/query", path: "/query", ctype: mc.ctype,
						url:  cat(mk("q", qv.u), mk("db", pl.u), []pv{{"rp", "autogen"}}),
						body: cat(mk("db", pl.b), mk("q", qv.b), []pv{{"rp", "ls0"}}), cc: cc, user: cc.user, qs: all})
					c.Count("preq:q=" + qv.name)
				}
			}
		}
	}
	// A3. credentials in every transport, duplicated and conflicting between URL, body and header
	ro, other, root := w.user("ro"), w.user("other"), w.user("root")
	up := func(u *userSpec) []pv { return []pv{{"u", u.name}, {"p", u.pw}} }
	hdr := func(u *userSpec) cred { return pwCred("basic", u.name, u.pw) }
	bearer := func(u *userSpec) cred {
		return cred{hdr: "bearer", tok: jwtSpec{parses: true, expOk: true, user: jwtUser{"n", u.name}}}
	}
	type cvar struct {
		name      string
		url, body []pv
		c         cred
		user      string
	}
	cvars := []cvar{
		{"url", up(ro), nil, cred{hdr: "-"}, "ro"},
		{"body-only", nil, up(root), cred{hdr: "-"}, ""}, // credentials in the body are not credentials
		{"url+body", up(ro), up(root), cred{hdr: "-"}, "ro"},
		{"url-wrong+body-right", []pv{{"u", "root"}, {"p", "nope"}}, up(root), cred{hdr: "-"}, ""},
		{"url+header", up(ro), nil, hdr(root), "ro"}, // the URL pair wins over the header
		{"url-half+header", []pv{{"u", "root"}}, nil, hdr(other), "other"},
		{"url-dup", []pv{{"u", "ro"}, {"u", "root"}, {"p", ro.pw}, {"p", root.pw}}, nil, cred{hdr: "-"}, "ro"},
		{"url-dup-rev", []pv{{"u", "root"}, {"u", "ro"}, {"p", ro.pw}}, nil, cred{hdr: "-"}, ""},
		{"bearer", nil, nil, bearer(other), "other"},
		{"bearer+body", nil, up(root), bearer(ro), "ro"},
		{"token", nil, nil, pwCred("token", other.name, other.pw), "other"},
	}
	for _, mc := range allMethodCT {
		for _, pl := range places {
			for _, cv := range cvars {
				cc := credCase{class: "placed:" + cv.name, transport: cv.name, c: cv.c, user: cv.user}
				e.preqOp(c, &preq{method: mc.method, pattern: "/query", path: "/query", ctype: mc.ctype,
					url: cat(cv.url, mk("db", pl.u), []pv{{"q", t1.text}}), body: cat(mk("db", pl.b), cv.body), cc: cc, user: cv.user, qs: all})
				c.Count("preq:cred=" + cv.name)
			}
		}
	}

	// B. the Prometheus query API: FormValue everywhere, db defaults to "prom"
	type promRoute struct {
		pattern string
		methods []string
		params  []pv
	}
	instant := []pv{{"query", "up"}, {"time", "1700000000"}}
	rng := []pv{{"query", "up"}, {"start", "1700000000"}, {"end", "1700000060"}, {"step", "15"}}
	meta := []pv{{"start", "1700000000"}, {"end", "1700000060"}}
	series := []pv{{"match[]", "up"}, {"start", "1700000000"}, {"end", "1700000060"}}
	proms := []promRoute{
		{"/api/v1/query", []string{"GET", "POST"}, instant},
		{"/api/v1/query_range", []string{"POST"}, rng},
		{"/api/v1/labels", []string{"GET", "POST"}, meta},
		{"/api/v1/label/{name}/values", []string{"GET"}, meta},
		{"/api/v1/series", []string{"POST"}, series},
		{"/api/v1/metadata", []string{"GET"}, meta},
		{"/prometheus/{metric_store}/api/v1/query", []string{"GET", "POST"}, instant},
		{"/prometheus/{metric_store}/api/v1/labels", []string{"POST"}, meta},
	}
	for pi, pr := range proms {
		lists := dbLists
		if pi > 0 && !thorough {
			lists = dbLists[:4]
		}
		for _, m := range pr.methods {
			for _, ct := range []string{"n", "u", "m", "o"} {
				if m == "GET" && (ct == "m" || ct == "o") && pi > 0 {
					continue
				}
				for _, ul := range lists {
					for _, bl := range lists {
						for _, cc := range users {
							// the query parameters go where FormValue finds them: the URL (a body placement
							// of `query` is exercised for POST forms)
							u, b := cat(mk("db", ul), pr.params), mk("db", bl)
							if m == "POST" && ct == "u" && len(bl) > 0 {
								u, b = mk("db", ul), cat(mk("db", bl), pr.params)
							}
							e.preqOp(c, &preq{method: m, pattern: pr.pattern, path: concretePath(pr.pattern), ctype: ct, url: u, body: b,
								cc: cc, user: cc.user, q0: readStmtOp})
						}
					}
				}
			}
		}
	}

	// C. the write paths: the database comes from the URL only; the body is the payload
	lp := []byte("m,t=a v=1 1700000000000000000\n")
	wlists := append(append([][]string{}, dbLists...), []string{"nodb"}, []string{"nodb", "db0"})
	for _, ct := range []string{"n", "o"} {
		for _, l := range wlists {
			for _, cc := range users {
				e.preqOp(c, &preq{method: "POST", pattern: "/write", path: "/write", ctype: ct, url: cat(mk("db", l), []pv{{"rp", "autogen"}}), payload: lp, cc: cc, user: cc.user})
				e.preqOp(c, &preq{method: "POST", pattern: "/api/v1/write", path: "/api/v1/write", ctype: ct, url: mk("db", l), payload: promWriteBody, cc: cc, user: cc.user})
				e.preqOp(c, &preq{method: "POST", pattern: "/prometheus/{metric_store}/api/v1/write", path: "/prometheus/ms0/api/v1/write", ctype: ct, url: mk("db", l), payload: promWriteBody, cc: cc, user: cc.user})
				e.preqOp(c, &preq{method: "POST", pattern: "/api/v1/read", path: "/api/v1/read", ctype: ct, url: mk("db", l), payload: promReadBody, cc: cc, user: cc.user, q0: readStmtOp})
			}
		}
	}
	// OTLP: protobuf content type, the database from the URL
	for _, path := range []string{"/api/v1/otlp/metrics", "/api/v1/otlp/traces", "/api/v1/otlp/logs"} {
		for _, l := range wlists {
			for _, cc := range users {
				e.preqOp(c, &preq{method: "POST", pattern: path, path: path, ctype: "o", ctHeader: "application/x-protobuf", url: cat(mk("db", l), []pv{{"rp", "autogen"}}),
					payload: []byte{}, cc: cc, user: cc.user})
			}
		}
	}
	// /api/v2/write: bucket = db/rp, with a `db` parameter next to it
	defer logQueryOps(c, w, users)
	buckets := [][]string{nil, {"db0/autogen"}, {"db1/autogen"}, {"db0/autogen", "db1/autogen"}, {"db1/autogen", "db0/autogen"}, {"db0"}, {"/autogen"}, {""}, {"nodb/x"}}
	for _, bl := range buckets {
		for _, dl := range [][]string{nil, {"db0"}, {"db1"}} {
			for _, cc := range users {
				e.preqOp(c, &preq{method: "POST", pattern: "/api/v2/write", path: "/api/v2/write", ctype: "n", url: cat(mk("db", dl), mk("bucket", bl)), payload: lp, cc: cc, user: cc.user})
			}
		}
	}
}

// logQueryOps: the four log query routes of product type logkeeper take the database from the path
// ({repository}); a `db` / `repository` parameter in the URL or the body must not matter.
func logQueryOps(c *hx.Ctx, w *world, users []credCase) {
	e := newEnv(w, cfgSpec{logKeeper: true, pprof: true}, false)
	for _, leaf := range []string{"logs", "histogram", "analytics", "context"} {
		pattern := "/repo/{repository}/logstreams/{logStream}/" + leaf
		for _, repo := range []string{"db0", "db1"} {
			path := "/repo/" + repo + "/logstreams/ls0/" + leaf
			q, _, _ := shape("GET", path, "")
			q.Del("db")
			var base []pv
			for _, k := range hx.SortedKeys(q) {
				base = append(base, pv{k, q.Get(k)})
			}
			for _, noise := range [][]pv{nil, {{"db", "db0"}}, {{"db", "db1"}}, {{"repository", "db1"}, {"db", "db1"}}} {
				for _, cc := range users {
					e.preqOp(c, &preq{method: "GET", pattern: pattern, path: path, ctype: "n", url: cat(noise, base), cc: cc, user: cc.user, q0: readStmtOp})
				}
			}
		}
	}
}
