package c19

import (
	"bytes"
	"fmt"
	"io"
	"net/http"
	"net/http/httptest"
	"strings"
	"sync"
	"time"

	config2 "github.com/openGemini/openGemini/lib/config"
	"github.com/openGemini/openGemini/lib/errno"
	"github.com/openGemini/openGemini/lib/logger"
	"github.com/openGemini/openGemini/lib/metaclient"
	"github.com/openGemini/openGemini/lib/statisticsPusher"
	"github.com/openGemini/openGemini/lib/statisticsPusher/statistics/opsStat"
	"github.com/openGemini/openGemini/lib/syscontrol"
	"github.com/openGemini/openGemini/lib/util/lifted/influx/auth"
	"github.com/openGemini/openGemini/lib/util/lifted/influx/httpd"
	"github.com/openGemini/openGemini/lib/util/lifted/influx/httpd/config"
	meta2 "github.com/openGemini/openGemini/lib/util/lifted/influx/meta"
	"github.com/openGemini/openGemini/lib/util/lifted/vm/protoparser/influx"
	"github.com/openGemini/openGemini/services/runtimecfg"
	"github.com/pingcap/failpoint"
)

var startWorkers sync.Once

// cfgSpec: which registrations are live.
type cfgSpec struct {
	logKeeper bool // product type logkeeper: AddLogstreamAPIRoutes
	flux      bool // flux-enabled
	pprof     bool // pprof-enabled
	ext       bool // runtime-config enabled: app/ts-sql registers GET /runtime_config on the handler
}

func (c cfgSpec) op() string {
	return "cfg=" + b01(c.logKeeper) + b01(c.flux) + b01(c.pprof) + b01(c.ext)
}

// env is one in-process server front end: the real httpd.Handler over the real
// metaclient.Client (authentication, privileges) with recording doubles behind it.
type env struct {
	w      *world
	cfg    cfgSpec
	h      *httpd.Handler
	client *metaclient.Client
	data   *meta2.Data
	rec    *recorder
	// probe route (auth ops): what the real `authenticate` handed to the wrapped handler
	probeCalls []string
	anonPass   map[string]bool // "METHOD path" answered a request without credentials
}

const failpointName = "verif-c19-anonymous-probe"

func newEnv(w *world, cfg cfgSpec, withProbe bool) *env {
	e := &env{w: w, cfg: cfg, rec: &recorder{}, anonPass: map[string]bool{}}
	c := config.NewConfig()
	c.AuthEnabled = w.auth
	c.SharedSecret = w.secret
	c.FluxEnabled = cfg.flux
	c.PprofEnabled = cfg.pprof
	if cfg.logKeeper {
		config2.SetProductType("logkeeper")
	} else {
		config2.SetProductType("")
	}
	startWorkers.Do(influx.StartUnmarshalWorkers)
	e.h = httpd.NewHandler(c)
	config2.SetProductType("")
	e.client = metaclient.NewClient("", false, 16)
	e.data = w.data()
	e.client.SetCacheData(e.data)
	e.h.MetaClient = &fakeMeta{Client: e.client, rec: e.rec}
	e.h.QueryAuthorizer = auth.NewQueryAuthorizer(e.client)
	e.h.WriteAuthorizer = auth.NewWriteAuthorizer(e.client)
	e.h.PointsWriter = &recPoints{e.rec}
	e.h.RecordWriter = &recRecords{e.rec}
	e.h.SubscriberManager = &recSubscriber{e.rec}
	e.h.QueryExecutor.StatementExecutor = &recExecutor{e.rec}
	e.h.QueryExecutor.TaskManager.Register = &recRegister{e.rec}
	e.h.SQLConfig = config2.NewTSSql(false)
	e.h.StatisticsPusher = statsPusher(e)
	syscontrol.SysCtrl.MetaClient = &sysMeta{rec: e.rec}
	if cfg.ext {
		// what app/ts-sql/sql/server.go:NewServer does when [runtime-config] is enabled
		rc := config2.NewRuntimeConfig()
		rc.Enabled = true
		svc := runtimecfg.NewService(rc, logger.NewLogger(errno.ModuleHTTP))
		e.h.AddRoutes(httpd.Route{
			Name: "query-runtime-config", Method: "GET", Pattern: "/runtime_config", LoggingEnabled: true,
			HandlerFunc: runtimecfg.RuntimeConfigHandler(svc, config2.NewLimits()),
		})
	}
	if withProbe {
		e.h.AddRoutes(httpd.Route{Name: "verif-probe", Method: "GET", Pattern: "/verif-probe", LoggingEnabled: false,
			HandlerFunc: func(rw http.ResponseWriter, r *http.Request, user meta2.User) {
				if user == nil {
					e.probeCalls = append(e.probeCalls, "nil")
				} else {
					e.probeCalls = append(e.probeCalls, hexs(user.ID()))
				}
				rw.WriteHeader(http.StatusNoContent)
			}})
	}
	return e
}

// refresh installs the world's current users/privileges (after grant / revoke).
func (e *env) refresh() { e.data = e.w.data(); e.client.SetCacheData(e.data) }

// unlock clears the failed-login log of every user (5 failures lock a user for 30 s of wall
// clock; the lock is outside the model, so it is neutralised between requests).
func (e *env) unlock() {
	for _, u := range e.w.users {
		_, _ = e.client.Authenticate(u.name, u.pw)
	}
}

// statsPusher: the process-wide StatisticsPusher with one ops collector that reports to the
// recorder of whichever env is being driven (what /debug/vars serves).
var (
	pusherOnce sync.Once
	pusher     *statisticsPusher.StatisticsPusher
	pusherEnv  *env
)

func statsPusher(e *env) *statisticsPusher.StatisticsPusher {
	pusherOnce.Do(func() {
		mc := config2.NewMonitor(config2.AppSql)
		mc.StoreEnabled = true
		pusher = statisticsPusher.NewStatisticsPusher(&mc, logger.NewLogger(errno.ModuleHTTP))
		if pusher != nil {
			pusher.RegisterOps(func() []opsStat.OpsStatistic {
				if pusherEnv != nil {
					pusherEnv.rec.effect("StatisticsPusher.CollectOpsStatistics")
				}
				return []opsStat.OpsStatistic{{Name: "verif", Tags: map[string]string{"k": "v"}, Values: map[string]interface{}{"n": 1}}}
			})
		}
	})
	pusherEnv = e
	return pusher
}

type response struct {
	status int
	body   string
	hdr    http.Header
	hung   bool
	panicS string
}

func (e *env) fire(method, target string, body []byte, hdrs map[string]string, c cred) response {
	var rd io.Reader
	if body != nil {
		rd = bytes.NewReader(body)
	}
	req := httptest.NewRequest(method, target, rd)
	for k, v := range hdrs {
		req.Header.Set(k, v)
	}
	c.apply(req, e.w.secret)
	return e.serve(req)
}

// serve runs one request through the real handler.
func (e *env) serve(req *http.Request) response {
	rr := httptest.NewRecorder()
	done := make(chan string, 1)
	go func() {
		defer func() {
			if p := recover(); p != nil {
				done <- fmt.Sprint("panic: ", p)
			}
		}()
		e.h.ServeHTTP(rr, req)
		done <- ""
	}()
	select {
	case p := <-done:
		return response{status: rr.Code, body: rr.Body.String(), hdr: rr.Header(), panicS: p}
	case <-time.After(20 * time.Second):
		return response{hung: true}
	}
}

// outcome maps a response to the alphabet the model speaks.
func (r response) outcome() string {
	switch {
	case r.hung:
		return "hung"
	case r.panicS != "":
		return "err " + r.panicS
	case r.status == 401:
		return "401"
	case r.status == 403:
		return "403"
	case strings.Contains(r.body, "error authorizing query"):
		return "az" // authorization denial reported through a generic error path (log queries: 400/500)
	case r.status == 404 && strings.HasPrefix(r.body, "404 page not found"):
		return "404"
	case r.status == 405 && r.body == "":
		return "405"
	}
	return "pass"
}

func failpointArmed() bool {
	_, err := failpoint.Status(failpointName)
	return err == nil
}

func failpointClear() { _ = failpoint.Disable(failpointName) }
