package c19

import (
	"encoding/base64"
	"encoding/hex"
	"fmt"
	"net/http"
	"net/url"
	"sort"
	"strings"
	"time"

	"github.com/golang-jwt/jwt/v5"
	originql "github.com/influxdata/influxql"
	"github.com/openGemini/openGemini/lib/metaclient"
	meta2 "github.com/openGemini/openGemini/lib/util/lifted/influx/meta"
)

// ---- the user world ---------------------------------------------------------------------

type userSpec struct {
	name, pw  string
	admin, rw bool
	privs     map[string]int // database -> privilege (0 none, 1 read, 2 write, 3 all)
}

type world struct {
	auth   bool   // http auth-enabled
	secret string // shared secret ("" = bearer disabled)
	users  []*userSpec
	dbs    []string
}

func (w *world) user(name string) *userSpec {
	for _, u := range w.users {
		if u.name == name {
			return u
		}
	}
	return nil
}

func (w *world) adminExists() bool {
	for _, u := range w.users {
		if u.admin {
			return true
		}
	}
	return false
}

func hexs(s string) string {
	if s == "" {
		return "-"
	}
	return hex.EncodeToString([]byte(s))
}

func b01(b bool) string {
	if b {
		return "1"
	}
	return "0"
}

// hashes are expensive (pbkdf2): computed once per (password) and reused across worlds.
var hashCache = map[string]string{}

func hashOf(pw string) string {
	if h, ok := hashCache[pw]; ok {
		return h
	}
	a := metaclient.NewAuth(nil)
	h, err := a.GenPbkdf2PwdVal(pw)
	if err != nil {
		panic(err)
	}
	hashCache[pw] = h
	return h
}

// data builds the catalogue snapshot the real metaclient.Client serves from.
func (w *world) data() *meta2.Data {
	d := &meta2.Data{Databases: map[string]*meta2.DatabaseInfo{}}
	for _, db := range w.dbs {
		di := meta2.NewDatabase(db)
		di.DefaultRetentionPolicy = "autogen"
		ls := meta2.NewRetentionPolicyInfo("ls0")
		ls.Measurements = map[string]*meta2.MeasurementInfo{"ls0_0000": {Name: "ls0_0000", Schema: &meta2.CleanSchema{}}}
		di.RetentionPolicies = map[string]*meta2.RetentionPolicyInfo{"autogen": meta2.NewRetentionPolicyInfo("autogen"), "ls0": ls}
		d.Databases[db] = di
	}
	for _, u := range w.users {
		ui := meta2.UserInfo{Name: u.name, Hash: hashOf(u.pw), Admin: u.admin, Rwuser: u.rw}
		if len(u.privs) > 0 {
			ui.Privileges = map[string]originql.Privilege{}
			for db, p := range u.privs {
				ui.Privileges[db] = originql.Privilege(p)
			}
		}
		d.Users = append(d.Users, ui)
		if u.admin {
			d.AdminUserExists = true
		}
	}
	return d
}

// opLines describes the world to the Lean driver.
func (w *world) opLines() []string {
	out := []string{fmt.Sprintf("world auth=%s secret=%s", b01(w.auth), b01(w.secret != ""))}
	for _, u := range w.users {
		var ps []string
		for db, p := range u.privs {
			ps = append(ps, fmt.Sprintf("%s:%d", hexs(db), p))
		}
		sort.Strings(ps)
		l := fmt.Sprintf("user %s %s %s %s", hexs(u.name), hexs(u.pw), b01(u.admin), b01(u.rw))
		if len(ps) > 0 {
			l += " " + strings.Join(ps, " ")
		}
		out = append(out, l)
	}
	return out
}

// ---- credentials as carried by a request ---------------------------------------------------

type jwtUser struct {
	kind string // "m" missing, "x" not a string, "n" name
	name string
}

type jwtSpec struct {
	parses bool // jwt.Parse accepts it (well-formed, HMAC, signed with the shared secret, not expired)
	expOk  bool // has a positive exp claim
	user   jwtUser
	how    string // realisation of parses=false: garbage | badsig | algnone | expired
}

type cred struct {
	urlU, urlP string
	hdr        string // "-", "basic", "bearer", "token", "other", "jwt" (a bearer token described in detail: jt)
	jt         jwtTok
	hu, hp     string // basic
	tok        jwtSpec
	tokenStr   string // token: text after "Token "
	otherRaw   string // other: the raw header value
}

func (c cred) op() string {
	h := "-"
	switch c.hdr {
	case "basic":
		h = "basic:" + hexs(c.hu) + ":" + hexs(c.hp)
	case "bearer":
		u := c.tok.user.kind
		if u == "n" {
			u += hexs(c.tok.user.name)
		}
		h = "bearer:" + b01(c.tok.parses) + b01(c.tok.expOk) + ":" + u
	case "jwt":
		u := c.jt.user.kind
		if u == "n" {
			u += hexs(c.jt.user.name)
		}
		h = "jwt:" + string([]byte{c.jt.alg, c.jt.key, c.jt.exp, c.jt.nbf}) + ":" + u
	case "token":
		h = "token:" + hexs(c.tokenStr)
	case "other":
		h = "other"
	}
	return fmt.Sprintf("u=%s p=%s h=%s", hexs(c.urlU), hexs(c.urlP), h)
}

const wrongSecret = "not-the-shared-secret"

func (c cred) token(secret string) string {
	t := c.tok
	claims := jwt.MapClaims{}
	switch t.user.kind {
	case "n":
		claims["username"] = t.user.name
	case "x":
		claims["username"] = 42
	}
	if t.expOk {
		claims["exp"] = float64(time.Now().Add(time.Hour).Unix())
	}
	key := []byte(secret)
	if secret == "" {
		key = []byte("some-secret-the-server-does-not-have")
	}
	if !t.parses {
		switch t.how {
		case "garbage":
			return "abc.def"
		case "algnone":
			s, err := jwt.NewWithClaims(jwt.SigningMethodNone, claims).SignedString(jwt.UnsafeAllowNoneSignatureType)
			if err != nil {
				panic(err)
			}
			return s
		case "expired":
			claims["exp"] = float64(time.Now().Add(-time.Hour).Unix())
		default: // badsig
			key = []byte(wrongSecret)
		}
	}
	s, err := jwt.NewWithClaims(jwt.SigningMethodHS256, claims).SignedString(key)
	if err != nil {
		panic(err)
	}
	return s
}

// apply puts the credentials on a request.
func (c cred) apply(r *http.Request, secret string) {
	q := r.URL.Query()
	if c.urlU != "" {
		q.Set("u", c.urlU)
	}
	if c.urlP != "" {
		q.Set("p", c.urlP)
	}
	r.URL.RawQuery = q.Encode()
	c.applyHeader(r, secret)
}

// hdrOp: the Authorization header in the model's encoding.
func (c cred) hdrOp() string {
	o := c.op()
	return o[strings.Index(o, " h=")+1:]
}

// applyHeader puts the header part of the credentials on a request.
func (c cred) applyHeader(r *http.Request, secret string) {
	switch c.hdr {
	case "basic":
		r.Header.Set("Authorization", "Basic "+base64.StdEncoding.EncodeToString([]byte(c.hu+":"+c.hp)))
	case "bearer":
		r.Header.Set("Authorization", "Bearer "+c.token(secret))
	case "jwt":
		r.Header.Set("Authorization", "Bearer "+c.jt.sign(secret))
	case "token":
		r.Header.Set("Authorization", "Token "+c.tokenStr)
	case "other":
		r.Header.Set("Authorization", c.otherRaw)
	}
}

// ---- credential classes of the property ----------------------------------------------------

type credCase struct {
	class     string // none malformed unknown wrongpw ro wo other allu nop rw admin
	transport string // basic url bearer token
	c         cred
	user      string // the world user the credentials are valid for ("" = none)
}

var classUsers = map[string]string{"ro": "ro", "wo": "wo", "other": "other", "allu": "allu", "nop": "nop", "rw": "rwu", "admin": "root"}

func pwCred(transport, u, p string) cred {
	switch transport {
	case "basic":
		return cred{hdr: "basic", hu: u, hp: p}
	case "url":
		return cred{hdr: "-", urlU: u, urlP: p}
	case "token":
		return cred{hdr: "token", tokenStr: u + ":" + p}
	}
	panic("transport")
}

// credCases enumerates class x transport (+ the malformed variants of each transport).
func credCases(w *world) []credCase {
	var out []credCase
	add := func(class, tr string, c cred, user string) {
		out = append(out, credCase{class: class, transport: tr, c: c, user: user})
	}
	add("none", "-", cred{hdr: "-"}, "")
	root := w.user("root")
	rootName, rootPw := "root", "Root#Pw1"
	if root != nil {
		rootPw = root.pw
	}
	for _, tr := range []string{"basic", "url", "token"} {
		add("unknown", tr, pwCred(tr, "ghost", "Ghost#Pw1"), "")
		add("wrongpw", tr, pwCred(tr, rootName, rootPw+"x"), "")
		add("wrongpw", tr, pwCred(tr, "ro", rootPw), "") // another user's password
		for _, cl := range []string{"ro", "wo", "other", "allu", "nop", "rw", "admin"} {
			u := w.user(classUsers[cl])
			if u == nil {
				continue
			}
			add(cl, tr, pwCred(tr, u.name, u.pw), u.name)
		}
	}
	// malformed, per transport
	add("malformed", "basic", cred{hdr: "basic", hu: "", hp: rootPw}, "")                                                             // empty user name
	add("malformed", "basic", cred{hdr: "basic", hu: rootName, hp: ""}, "")                                                           // empty password
	add("malformed", "basic", cred{hdr: "other", otherRaw: "Basic !!!notb64"}, "")                                                    // undecodable
	add("malformed", "basic", cred{hdr: "other", otherRaw: "Basic " + base64.StdEncoding.EncodeToString([]byte("rootRoot#Pw1"))}, "") // no colon
	add("malformed", "basic", cred{hdr: "other", otherRaw: "Negotiate abcdef"}, "")
	add("malformed", "basic", cred{hdr: "other", otherRaw: "Bearer a b"}, "")   // three parts
	add("malformed", "url", cred{hdr: "-", urlU: rootName}, "")                 // u without p
	add("malformed", "url", cred{hdr: "-", urlP: rootPw}, "")                   // p without u
	add("malformed", "token", cred{hdr: "token", tokenStr: "rootRoot#Pw1"}, "") // no colon
	add("malformed", "token", cred{hdr: "token", tokenStr: ":" + rootPw}, "")   // empty user
	add("malformed", "token", cred{hdr: "token", tokenStr: rootName + ":"}, "") // empty password
	// url params take precedence over a header: valid header + wrong url pair, and the reverse
	add("wrongpw", "url", cred{hdr: "basic", hu: rootName, hp: rootPw, urlU: rootName, urlP: "nope"}, "")
	add("admin", "basic", cred{hdr: "basic", hu: rootName, hp: rootPw, urlU: rootName}, rootName) // u without p falls through to the header
	// bearer
	tk := func(parses, exp bool, kind, name, how string) cred {
		return cred{hdr: "bearer", tok: jwtSpec{parses: parses, expOk: exp, user: jwtUser{kind, name}, how: how}}
	}
	for _, how := range []string{"garbage", "badsig", "algnone", "expired"} {
		cl := "malformed"
		if how == "badsig" {
			cl = "wrongpw"
		}
		add(cl, "bearer", tk(false, true, "n", rootName, how), "")
	}
	add("malformed", "bearer", tk(true, false, "n", rootName, ""), "") // no exp
	add("malformed", "bearer", tk(true, true, "m", "", ""), "")        // no username
	add("malformed", "bearer", tk(true, true, "x", "", ""), "")        // username not a string
	add("malformed", "bearer", tk(true, true, "n", "", ""), "")        // empty username
	add("unknown", "bearer", tk(true, true, "n", "ghost", ""), "")
	for _, cl := range []string{"ro", "wo", "other", "allu", "nop", "rw", "admin"} {
		u := w.user(classUsers[cl])
		if u == nil {
			continue
		}
		valid := ""
		if w.secret != "" {
			valid = u.name
		}
		add(cl, "bearer", tk(true, true, "n", u.name, ""), valid)
	}
	return out
}

func mustURL(s string) *url.URL {
	u, err := url.Parse(s)
	if err != nil {
		panic(err)
	}
	return u
}

// randomWorld: one administrator and 3-6 other users with random privilege entries.
func randomWorld(r interface {
	Intn(int) int
	Chance(int) bool
}) *world {
	w := &world{auth: true, secret: "s3cret", dbs: []string{"db0", "db1"}}
	n := 4 + r.Intn(4)
	adminAt := r.Intn(n)
	for i := 0; i < n; i++ {
		u := &userSpec{name: fmt.Sprintf("u%d", i), pw: fmt.Sprintf("Pw#%d", i%3)} // passwords repeat across users on purpose
		if i == adminAt {
			u.admin = true
		} else {
			if r.Chance(10) {
				u.rw = true
			}
			for _, db := range []string{"db0", "db1"} {
				if r.Chance(60) {
					if u.privs == nil {
						u.privs = map[string]int{}
					}
					u.privs[db] = r.Intn(4)
				}
			}
		}
		w.users = append(w.users, u)
	}
	return w
}

// worldCases: for every user of the world valid credentials over each transport and a wrong
// password; plus no credentials.
func worldCases(w *world) []credCase {
	out := []credCase{{class: "none", transport: "-", c: cred{hdr: "-"}}}
	for i, u := range w.users {
		class := "user"
		if u.admin {
			class = "admin"
		}
		tr := []string{"basic", "url", "token"}[i%3]
		out = append(out, credCase{class: class, transport: tr, c: pwCred(tr, u.name, u.pw), user: u.name})
		out = append(out, credCase{class: class, transport: "bearer", c: cred{hdr: "bearer", tok: jwtSpec{parses: true, expOk: true, user: jwtUser{"n", u.name}}}, user: u.name})
		other := w.users[(i+1)%len(w.users)]
		if other.pw != u.pw {
			out = append(out, credCase{class: "wrongpw", transport: tr, c: pwCred(tr, u.name, other.pw)})
		}
	}
	return out
}
