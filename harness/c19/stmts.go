package c19

import (
	"fmt"
	"strings"

	"github.com/openGemini/openGemini/lib/util/lifted/influx/influxql"
)

// one statement per kind the grammar accepts (plus variants that change the required
// privileges: INTO, explicit database, subquery, multi-statement).
var statementTexts = []string{
	"SELECT * FROM m",
	"SELECT v FROM db1.autogen.m",
	"SELECT v FROM db0.autogen.m, db1.autogen.m",
	"SELECT mean(v) INTO db1.autogen.t FROM m",
	"SELECT mean(v) INTO t FROM m GROUP BY time(1m)",
	"SELECT max(v) FROM (SELECT v FROM db1.autogen.m)",
	"EXPLAIN SELECT * FROM m",
	"EXPLAIN ANALYZE SELECT * FROM m",
	"SHOW DATABASES",
	"SHOW MEASUREMENTS",
	"SHOW MEASUREMENTS ON db1",
	"SHOW SERIES",
	"SHOW SERIES ON db1",
	"SHOW TAG KEYS",
	"SHOW TAG KEYS ON db1",
	"SHOW TAG VALUES WITH KEY = host",
	"SHOW FIELD KEYS",
	"SHOW FIELD KEYS ON db1",
	"SHOW RETENTION POLICIES",
	"SHOW RETENTION POLICIES ON db1",
	"SHOW SERIES CARDINALITY",
	"SHOW SERIES EXACT CARDINALITY",
	"SHOW MEASUREMENT CARDINALITY",
	"SHOW MEASUREMENT EXACT CARDINALITY",
	"SHOW TAG KEY CARDINALITY",
	"SHOW TAG VALUES CARDINALITY WITH KEY = host",
	"SHOW FIELD KEY CARDINALITY",
	"SHOW CONTINUOUS QUERIES",
	"SHOW QUERIES",
	"SHOW USERS",
	"SHOW GRANTS FOR ro",
	"SHOW SHARDS",
	"SHOW SHARD GROUPS",
	"SHOW STATS",
	"SHOW DIAGNOSTICS",
	"SHOW SUBSCRIPTIONS",
	"SHOW STREAMS",
	"SHOW DOWNSAMPLES",
	"SHOW CLUSTER",
	"SHOW CONFIGS",
	"SHOW MEASUREMENTS DETAIL WITH MEASUREMENT = m",
	"SHOW MEASUREMENT KEYS FROM m",
	"CREATE DATABASE newdb",
	"DROP DATABASE db0",
	"DROP DATABASE _internal",
	"CREATE RETENTION POLICY rp1 ON db0 DURATION 1d REPLICATION 1",
	"ALTER RETENTION POLICY autogen ON db0 DURATION 2d",
	"DROP RETENTION POLICY autogen ON db0",
	"DROP RETENTION POLICY autogen ON db1",
	"CREATE MEASUREMENT cm",
	"DROP MEASUREMENT m",
	"DROP SERIES FROM m",
	"DELETE FROM m",
	"DROP SHARD 1",
	"CREATE USER u1 WITH PASSWORD 'Abcdefg#123456'",
	"CREATE USER u2 WITH PASSWORD 'Abcdefg#123456' WITH ALL PRIVILEGES",
	"DROP USER ro",
	"DROP USER rwuser",
	"SET PASSWORD FOR ro = 'Abcdefg#123456'",
	"SET PASSWORD FOR rwuser = 'Abcdefg#123456'",
	"GRANT READ ON db0 TO nop",
	"GRANT ALL PRIVILEGES TO nop",
	"REVOKE READ ON db0 FROM ro",
	"REVOKE ALL PRIVILEGES FROM root",
	"KILL QUERY 1",
	"CREATE CONTINUOUS QUERY cq1 ON db0 BEGIN SELECT mean(v) INTO db0.autogen.t FROM m GROUP BY time(1m) END",
	"CREATE CONTINUOUS QUERY cq2 ON db0 BEGIN SELECT mean(v) INTO db1.autogen.t FROM m GROUP BY time(1m) END",
	"DROP CONTINUOUS QUERY cq1 ON db0",
	"CREATE SUBSCRIPTION s1 ON db0.autogen DESTINATIONS ALL 'http://127.0.0.1:1'",
	"DROP SUBSCRIPTION s1 ON db0.autogen",
	"DROP STREAM st1",
	"SET CONFIG store \"data.x\" = 1",
	"SELECT * FROM m; DROP DATABASE db0",
	"SELECT * FROM m; SELECT * FROM db1.autogen.m",
	"SHOW DATABASES; SHOW MEASUREMENTS",
}

// mixedStatementTexts: multi-statement queries and multi-source SELECTs that mix parts naming a
// database explicitly (`db..m`, `ON db`) with unqualified parts (which touch the request's db),
// in both orders — the authorization of one part must not depend on its neighbours.
func mixedStatementTexts() []string {
	var atoms []string
	for _, db := range []string{"db0", "db1"} {
		atoms = append(atoms, "SELECT * FROM "+db+"..m", "SHOW MEASUREMENTS ON "+db, "SHOW TAG KEYS ON "+db, "DROP RETENTION POLICY rpx ON "+db)
	}
	atoms = append(atoms, "SELECT * FROM m", "SHOW MEASUREMENTS", "DROP SERIES FROM m", "DELETE FROM m", "SELECT mean(v) INTO t FROM m")
	var out []string
	for _, a := range atoms {
		for _, b := range atoms {
			if a != b {
				out = append(out, a+"; "+b)
			}
		}
	}
	srcs := []string{"db0..m", "db1..m", "m", "db0.autogen.m2", "(SELECT v FROM db1..m)", "(SELECT v FROM m)"}
	for _, a := range srcs {
		for _, b := range srcs {
			if a != b {
				out = append(out, "SELECT v FROM "+a+", "+b)
			}
		}
	}
	out = append(out,
		"SELECT mean(v) INTO t FROM db1..m",
		"SELECT mean(v) INTO db1..t FROM m",
		"SELECT mean(v) INTO t FROM db0..m, m",
		"SHOW MEASUREMENTS ON db1; SELECT * FROM m; SHOW TAG KEYS ON db0",
		"SELECT * FROM m; SHOW MEASUREMENTS ON db1; SELECT * FROM m",
		"SHOW TAG KEYS ON db1; DROP SERIES FROM m; SELECT * FROM db0..m",
		"SELECT * FROM db1..m; SELECT * FROM db0..m; DELETE FROM m",
	)
	return out
}

func parseQuery(text string) (*influxql.Query, error) {
	p := influxql.NewParser(strings.NewReader(text))
	defer p.Release()
	yy := influxql.NewYyParser(p.GetScanner(), p.GetPara())
	yy.ParseTokens()
	return yy.GetQuery()
}

type stmtDesc struct {
	text string
	op   string // model encoding of the statement list
	// what the statements require, for the specification's verdict
	privs [][]influxql.ExecutionPrivilege
	kinds []string
	mixed bool // from mixedStatementTexts
}

func describe(text string) (*stmtDesc, error) {
	q, err := parseQuery(text)
	if err != nil {
		return nil, err
	}
	if len(q.Statements) == 0 {
		return nil, fmt.Errorf("no statement")
	}
	d := &stmtDesc{text: text}
	var parts []string
	for _, st := range q.Statements {
		kind := strings.TrimPrefix(fmt.Sprintf("%T", st), "*influxql.")
		target := ""
		switch s := st.(type) {
		case *influxql.CreateUserStatement:
			if s.Admin {
				target = "admin" // CREATE USER … WITH ALL PRIVILEGES: what the zero-user bootstrap rule looks for
			}
		case *influxql.DropUserStatement:
			target = s.Name
		case *influxql.SetPasswordUserStatement:
			target = s.Name
		case *influxql.DropDatabaseStatement:
			target = s.Name
		}
		privs, err := st.RequiredPrivileges()
		if err != nil {
			return nil, err
		}
		var ps []string
		for _, p := range privs {
			ps = append(ps, fmt.Sprintf("%s%s%d.%s", b01(p.Admin), b01(p.Rwuser), int(p.Privilege), hexs(p.Name)))
		}
		parts = append(parts, kind+","+hexs(target)+","+strings.Join(ps, "|"))
		d.privs = append(d.privs, privs)
		d.kinds = append(d.kinds, kind)
	}
	d.op = strings.Join(parts, ";")
	return d, nil
}
