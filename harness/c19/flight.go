package c19

// The arrow flight handshake (services/arrowflight authServer): a token is issued for a
// name/password pair the meta client accepts; IsValid maps a token back to its user.

import (
	"encoding/json"
	"fmt"
	"io"

	"github.com/openGemini/openGemini/services/arrowflight"

	"verif/harness/internal/hx"
)

type fakeAuthConn struct {
	in   []byte
	eof  bool
	sent [][]byte
}

func (f *fakeAuthConn) Read() ([]byte, error) {
	if f.eof {
		return nil, io.EOF
	}
	return f.in, nil
}
func (f *fakeAuthConn) Send(b []byte) error { f.sent = append(f.sent, b); return nil }

func flightOps(c *hx.Ctx) {
	w := baseWorld("s3cret")
	for _, enabled := range []bool{true, false} {
		e := newEnv(w, cfgSpec{}, false)
		emitWorld(c, w)
		as := arrowflight.NewAuthServer(enabled)
		as.SetMetaClient(e.client)
		c.Emit("fworld enabled="+b01(enabled), "ok")
		var tokens []string    // token text by index
		var tokenUser []string // the user each was issued to
		shake := func(op string, conn *fakeAuthConn, name string) {
			var err error
			perr := hx.Safe(func() { err = as.Authenticate(conn) })
			ans := "denied"
			switch {
			case perr != "":
				ans = "err " + perr
			case err == nil && len(conn.sent) == 1:
				ans = fmt.Sprintf("token %d", len(tokens))
				tokens = append(tokens, string(conn.sent[0]))
				tokenUser = append(tokenUser, name)
			case err == nil && len(conn.sent) == 0:
				ans = "open"
			}
			line := c.Emit(op, ans)
			c.Case(fmt.Sprintf("%s@%d", op, line), true)
			c.Count("flight:auth=" + ans[:4])
			if perr != "" {
				c.Violation(line, "panic", "arrowflight authServer.Authenticate: "+perr)
			}
		}
		type np struct{ n, p string }
		var pairs []np
		for _, u := range w.users {
			pairs = append(pairs, np{u.name, u.pw}, np{u.name, u.pw + "x"})
		}
		pairs = append(pairs, np{"ghost", "Ghost#Pw1"}, np{"", "Root#Pw1"}, np{"root", ""}, np{"ro", "Root#Pw1"}, np{"root", "Root#Pw1"})
		for _, x := range pairs {
			b, _ := json.Marshal(arrowflight.AuthInfo{UserName: x.n, Password: x.p, DataBase: "db0"})
			shake(fmt.Sprintf("fauth %s %s", hexs(x.n), hexs(x.p)), &fakeAuthConn{in: b}, x.n)
			e.unlock2(c, x.n)
		}
		shake("fauthbad eof", &fakeAuthConn{eof: true}, "")
		shake("fauthbad json", &fakeAuthConn{in: []byte("not json")}, "")
		valid := func(op, tok string, issuedTo string, issued bool) {
			v, err := as.IsValid(tok)
			ans := "denied"
			if err == nil {
				ans = "user " + hexs(fmt.Sprint(v))
			}
			line := c.Emit(op, ans)
			c.Case(fmt.Sprintf("%s@%d", op, line), true)
			c.Count("flight:valid=" + ans[:4])
			if enabled && err == nil && (!issued || fmt.Sprint(v) != issuedTo) {
				c.Violation(line, "flight_token", fmt.Sprintf("arrow flight IsValid(%q) = %v although no such token was issued to that user", tok, v))
			}
		}
		for i, t := range tokens {
			valid(fmt.Sprintf("fvalid t%d", i), t, tokenUser[i], true)
		}
		for _, t := range []string{"", "garbage", arrowflight.WriteAuthSuccess, "root"} {
			valid("fvalid x", t, "", false)
		}
	}
}

// unlock2 clears the failed-login log of one user through a modelled authentication (the password
// cache is part of the model's state, so the clearing login is an op of its own).
func (e *env) unlock2(c *hx.Ctx, name string) {
	u := e.w.user(name)
	if u == nil {
		return
	}
	e.cauthOp(c, name, u.pw, map[string]int{})
}
