package c19

// The rest of the front door: lib/httpserver.Authenticate (the wrapper of the ts-meta and
// ts-store HTTP handlers), the password cache of metaclient.Client.Authenticate across password
// changes, the zero-user bootstrap rule, bearer tokens built field by field.

import (
	"crypto/rand"
	"crypto/rsa"
	"fmt"
	"net/http"
	"net/http/httptest"
	"strings"
	"sync"
	"time"

	"github.com/golang-jwt/jwt/v5"
	"github.com/openGemini/openGemini/lib/httpserver"

	"verif/harness/internal/hx"
)

// ---- bearer tokens in detail -------------------------------------------------------------------

// jwtTok: alg a=HS256 b=HS384 c=HS512 n=none r=RS256; key s=shared secret w=another key e=empty key;
// exp f=future p=past m=missing z=0 n=negative t=a string; nbf a=absent p=past f=future.
type jwtTok struct {
	alg, key, exp, nbf byte
	user               jwtUser
}

var (
	rsaOnce sync.Once
	rsaKey  *rsa.PrivateKey
)

func (t jwtTok) sign(secret string) string {
	claims := jwt.MapClaims{}
	switch t.user.kind {
	case "n":
		claims["username"] = t.user.name
	case "x":
		claims["username"] = 42
	}
	now := time.Now()
	switch t.exp {
	case 'f':
		claims["exp"] = float64(now.Add(time.Hour).Unix())
	case 'p':
		claims["exp"] = float64(now.Add(-time.Hour).Unix())
	case 'z':
		claims["exp"] = float64(0)
	case 'n':
		claims["exp"] = float64(-5)
	case 't':
		claims["exp"] = "soon"
	}
	switch t.nbf {
	case 'p':
		claims["nbf"] = float64(now.Add(-time.Hour).Unix())
	case 'f':
		claims["nbf"] = float64(now.Add(time.Hour).Unix())
	}
	var key interface{}
	switch t.key {
	case 's':
		key = []byte(secret)
	case 'w':
		key = []byte(wrongSecret)
	default:
		key = []byte{}
	}
	var m jwt.SigningMethod
	switch t.alg {
	case 'a':
		m = jwt.SigningMethodHS256
	case 'b':
		m = jwt.SigningMethodHS384
	case 'c':
		m = jwt.SigningMethodHS512
	case 'n':
		m, key = jwt.SigningMethodNone, jwt.UnsafeAllowNoneSignatureType
	default:
		rsaOnce.Do(func() {
			k, err := rsa.GenerateKey(rand.Reader, 2048)
			if err != nil {
				panic(err)
			}
			rsaKey = k
		})
		m, key = jwt.SigningMethodRS256, rsaKey
	}
	s, err := jwt.NewWithClaims(m, claims).SignedString(key)
	if err != nil {
		panic(err)
	}
	return s
}

// jwtCases: every algorithm x key x exp x nbf for the administrator, plus user variants of the good token.
func jwtCases(w *world) []cred {
	var out []cred
	for _, alg := range []byte("abcnr") {
		for _, key := range []byte("swe") {
			if key == 's' && w.secret == "" {
				continue // the server has no secret: "signed with the server's secret" is the empty key
			}
			if (alg == 'n' || alg == 'r') && key != 's' && key != 'e' {
				continue
			}
			for _, exp := range []byte("fpmznt") {
				for _, nbf := range []byte("apf") {
					out = append(out, cred{hdr: "jwt", jt: jwtTok{alg, key, exp, nbf, jwtUser{"n", "root"}}})
				}
			}
		}
	}
	key := byte('s')
	if w.secret == "" {
		key = 'e'
	}
	for _, u := range []jwtUser{{"n", "ro"}, {"n", "ghost"}, {"n", ""}, {"m", ""}, {"x", ""}, {"n", "rwu"}} {
		for _, alg := range []byte("abc") {
			out = append(out, cred{hdr: "jwt", jt: jwtTok{alg, key, 'f', 'a', u}})
		}
	}
	return out
}

// ---- lib/httpserver.Authenticate ----------------------------------------------------------------

func (e *env) mauthOp(c *hx.Ctx, cr cred, class string) {
	calls := 0
	h := httpserver.Authenticate(func(rw http.ResponseWriter, r *http.Request) {
		calls++
		rw.WriteHeader(http.StatusNoContent)
	}, e.client, e.w.auth)
	req := httptest.NewRequest("POST", "/takeover", nil)
	cr.apply(req, e.w.secret)
	rr := httptest.NewRecorder()
	perr := hx.Safe(func() { h.ServeHTTP(rr, req) })
	e.unlock()
	var ans string
	switch {
	case perr != "":
		ans = "err " + perr
	case calls == 0 && rr.Code != 204:
		ans = fmt.Sprintf("deny %d", rr.Code)
	case calls == 1 && rr.Code == 204:
		ans = "inner"
	case calls == 1:
		ans = fmt.Sprintf("deny+inner %d", rr.Code)
	default:
		ans = fmt.Sprintf("other status=%d calls=%d", rr.Code, calls)
	}
	op := "mauth " + cr.op()
	line := c.Emit(op, ans)
	c.Case(op, class != "admin")
	c.Count("mauth:class=" + class)
	c.Count("mauth:answer=" + strings.SplitN(ans, " ", 2)[0])
	if strings.HasPrefix(ans, "err") {
		c.Violation(line, "panic", "httpserver.Authenticate: "+ans)
		return
	}
	if !e.w.auth || !e.w.adminExists() {
		return
	}
	// the property, for the ts-meta / ts-store listeners: the handler runs only for a request whose
	// name/password pair is an existing user's (this wrapper knows no bearer tokens)
	if ans == "inner" || strings.HasPrefix(ans, "deny+inner") {
		who := ""
		if cr.hdr != "bearer" && cr.hdr != "jwt" || (cr.urlU != "" && cr.urlP != "") {
			who = validFor(e.w, cr)
		}
		if who == "" || strings.HasPrefix(ans, "deny+inner") {
			c.Violation(line, "authenticate_fallthrough", fmt.Sprintf("lib/httpserver.Authenticate (ts-meta / ts-store HTTP API) ran the handler for a request without valid credentials: %s -> %s", op, ans))
		}
	}
}

// ---- the password cache across password changes ------------------------------------------------------

func (e *env) cauthOp(c *hx.Ctx, name, pw string, fails map[string]int) {
	_, err := e.client.Authenticate(name, pw)
	ans := "fail"
	if err == nil {
		ans = "ok"
		fails[name] = 0
	} else {
		fails[name]++
	}
	op := fmt.Sprintf("cauth %s %s", hexs(name), hexs(pw))
	line := c.Emit(op, ans)
	c.Case(fmt.Sprintf("%s@%d", op, line), true)
	c.Count("cauth:" + ans)
	u := e.w.user(name)
	if ans == "ok" && (u == nil || u.pw != pw) {
		cur := "<no such user>"
		if u != nil {
			cur = u.pw
		}
		c.Violation(line, "auth_cache_stale", fmt.Sprintf("Client.Authenticate(%q, %q) succeeds although the user's current password is %q (an entry of the password cache made before the password changed still counts)", name, pw, cur))
	}
}

func (e *env) setpwOp(c *hx.Ctx, name, pw string) {
	u := e.w.user(name)
	u.pw = pw
	e.refresh() // the catalogue snapshot changes; the cache is not cleaned (what the sql node sees between applying the change and UpdateAuthCache)
	c.Emit(fmt.Sprintf("setpw %s %s", hexs(name), hexs(pw)), "ok")
	c.Count("setpw")
}

func cacheOps(c *hx.Ctx, rng *hx.Rng, thorough bool) {
	w := baseWorld("s3cret")
	e := newEnv(w, cfgSpec{}, false)
	emitWorld(c, w)
	fails := map[string]int{}
	// scripted: authenticate (fills the cache), change the password, try the old one, the new one, the old one again
	for _, name := range []string{"ro", "root", "wo"} {
		old := w.user(name).pw
		e.cauthOp(c, name, old, fails)
		e.cauthOp(c, name, old, fails) // through the cache
		e.setpwOp(c, name, "New#Pw1-"+name)
		e.cauthOp(c, name, old, fails)
		e.cauthOp(c, name, "New#Pw1-"+name, fails)
		e.cauthOp(c, name, old, fails)
		e.setpwOp(c, name, old) // and back
		e.cauthOp(c, name, "New#Pw1-"+name, fails)
		e.cauthOp(c, name, old, fails)
	}
	// seeded: interleavings of authentications (current, former, foreign passwords) and password changes
	pool := []string{"Pw#A1", "Pw#B2", "Pw#C3", "Root#Pw1", "Ro#Pw1"}
	names := []string{"ro", "wo", "other", "root"}
	former := map[string][]string{}
	steps := 60
	if thorough {
		steps = 1500
	}
	for i := 0; i < steps; i++ {
		name := names[rng.Intn(len(names))]
		u := w.user(name)
		if fails[name] >= 3 {
			e.cauthOp(c, name, u.pw, fails) // a success clears the failed-login log (5 failures lock the user for 30 s)
			continue
		}
		switch rng.Intn(5) {
		case 0:
			former[name] = append(former[name], u.pw)
			e.setpwOp(c, name, pool[rng.Intn(len(pool))])
		case 1, 2:
			e.cauthOp(c, name, u.pw, fails)
		case 3:
			if f := former[name]; len(f) > 0 {
				e.cauthOp(c, name, f[rng.Intn(len(f))], fails)
			} else {
				e.cauthOp(c, name, "never-was", fails)
			}
		default:
			e.cauthOp(c, name, w.user(names[rng.Intn(len(names))]).pw, fails)
		}
	}
}

// ---- the zero-user bootstrap -----------------------------------------------------------------------------

var bootTexts = []string{
	"CREATE USER adm WITH PASSWORD 'Abcdefg#123456' WITH ALL PRIVILEGES",
	"CREATE USER adm WITH PASSWORD 'Abcdefg#123456' WITH ALL PRIVILEGES; DROP DATABASE db0",
	"CREATE USER adm WITH PASSWORD 'Abcdefg#123456' WITH ALL PRIVILEGES; SELECT * FROM m; CREATE DATABASE x",
	"CREATE USER plain WITH PASSWORD 'Abcdefg#123456'",
	"SELECT * FROM m; CREATE USER adm WITH PASSWORD 'Abcdefg#123456' WITH ALL PRIVILEGES",
	"SHOW DATABASES",
	"SHOW USERS",
}

func (e *env) bootOp(c *hx.Ctx, method, pattern, path string, cc credCase, st *stmtDesc) {
	text, qop := "", readStmtOp
	if st != nil {
		text, qop = st.text, st.op
	}
	q, body, hdrs := shape(method, path, text)
	e.rec.reset()
	e.rec.mu.Lock()
	e.rec.runAll = true
	e.rec.mu.Unlock()
	failpointClear()
	resp := e.fire(method, path+"?"+q.Encode(), body, hdrs, cc.c)
	eff, _ := e.rec.snapshot()
	execs, _ := e.rec.acted()
	e.rec.mu.Lock()
	e.rec.runAll = false
	e.rec.mu.Unlock()
	if failpointArmed() {
		eff = append(eff, "failpoint.Enable")
		failpointClear()
	}
	out := resp.outcome()
	ans := out
	if out != "pass" && !strings.HasPrefix(out, "err") && out != "hung" {
		ans += " fx=" + b01(len(eff) > 0)
	}
	op := fmt.Sprintf("boot %s %s %s db=%s dbx=1 %s q=%s", e.cfg.op(), method, hexs(path), hexs(targetDB), cc.c.op(), qop)
	line := c.Emit(op, ans)
	c.Case(op, true)
	c.Count("boot:outcome=" + out)
	if strings.HasPrefix(out, "err") || out == "hung" {
		c.Violation(line, "panic", fmt.Sprintf("%s %s: %s", method, path, out))
	}
	// outside the property's hypothesis (no administrator exists yet): recorded, not judged
	for i, x := range execs {
		kind := strings.TrimPrefix(fmt.Sprintf("%T", x.stmt), "*influxql.")
		if i > 0 || kind != "CreateUserStatement" {
			c.Count("boot:executed-without-any-user:" + kind)
		}
	}
}

func bootOps(c *hx.Ctx, stmts []*stmtDesc) {
	w := &world{auth: true, secret: "s3cret", dbs: []string{"db0", "db1"}} // no user at all
	e := newEnv(w, cfgSpec{logKeeper: true, pprof: true}, false)
	emitWorld(c, w)
	cases := []credCase{
		{class: "none", transport: "-", c: cred{hdr: "-"}},
		{class: "unknown", transport: "basic", c: pwCred("basic", "ghost", "Ghost#Pw1")},
		{class: "unknown", transport: "url", c: pwCred("url", "root", "Root#Pw1")},
	}
	for _, r := range e.liveRoutes() {
		for _, cc := range cases {
			e.bootOp(c, r.method, r.pattern, concretePath(r.pattern), cc, nil)
		}
	}
	var texts []*stmtDesc
	for _, t := range bootTexts {
		texts = append(texts, mustDescribe(t))
	}
	for _, st := range append(texts, stmts...) {
		if st.mixed {
			continue
		}
		for _, m := range []string{"GET", "POST"} {
			e.bootOp(c, m, "/query", "/query", cases[0], st)
		}
	}
}
