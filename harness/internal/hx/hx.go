// Package hx holds what every property harness shares: the seeded PRNG, the three output
// streams (ops for the Lean driver, the implementation's canonical answers, spec
// violations), the run statistics that end up in the evidence file.
package hx

import (
	"bufio"
	"encoding/json"
	"fmt"
	"os"
	"path/filepath"
	"sort"
	"sync"
)

// Rng is splitmix64; every random choice of a run derives from one state.
type Rng struct{ s uint64 }

// NewRng scrambles the seed first: the state advances by a fixed increment, so seeding with the
// raw seed would make seed+1 the same stream shifted by one draw.
func NewRng(seed uint64) *Rng {
	z := seed + 0x632BE59BD9B4E019
	z = (z ^ (z >> 30)) * 0xBF58476D1CE4E5B9
	z = (z ^ (z >> 27)) * 0x94D049BB133111EB
	z ^= z >> 31
	return &Rng{s: z*0x9E3779B97F4A7C15 + 0x1234567}
}

func (r *Rng) U64() uint64 {
	r.s += 0x9E3779B97F4A7C15
	z := r.s
	z = (z ^ (z >> 30)) * 0xBF58476D1CE4E5B9
	z = (z ^ (z >> 27)) * 0x94D049BB133111EB
	return z ^ (z >> 31)
}
func (r *Rng) Intn(n int) int {
	if n <= 0 {
		return 0
	}
	return int(r.U64() % uint64(n))
}
func (r *Rng) Bool() bool       { return r.U64()&1 == 1 }
func (r *Rng) Chance(p int) bool { return r.Intn(100) < p } // p percent
func (r *Rng) Fork() *Rng       { return NewRng(r.U64()) }

// Ctx is what a property harness gets.
type Ctx struct {
	Prop   string
	Tier   string
	Seed   uint64
	N      int    // number of cases wanted (0 = harness default for the tier)
	Out    string // output directory
	Replay string // replay file (ops) or ""
	Args   map[string]string

	mu        sync.Mutex
	ops, impl *bufio.Writer
	viol      *bufio.Writer
	files     []*os.File
	lines     int
	Stats     Stats
	seen      map[string]struct{}
}

// Stats is written to stats.json and copied into the evidence file by ./check.
type Stats struct {
	Evaluations        int            `json:"evaluations"`
	DistinctNontrivial int            `json:"distinct_nontrivial"`
	Rule               string         `json:"rule"`
	Hist               map[string]int `json:"histogram"`
	Samples            []string       `json:"samples"`
	SpecViolations     int            `json:"spec_violations"`
	KnownClasses       map[string]int `json:"violation_classes"`
	Notes              []string       `json:"notes,omitempty"`
}

func (c *Ctx) Open() error {
	if err := os.MkdirAll(c.Out, 0o755); err != nil {
		return err
	}
	mk := func(name string) (*bufio.Writer, error) {
		f, err := os.Create(filepath.Join(c.Out, name))
		if err != nil {
			return nil, err
		}
		c.files = append(c.files, f)
		return bufio.NewWriterSize(f, 1<<20), nil
	}
	var err error
	if c.ops, err = mk("ops.txt"); err != nil {
		return err
	}
	if c.impl, err = mk("impl.out"); err != nil {
		return err
	}
	if c.viol, err = mk("viol.out"); err != nil {
		return err
	}
	c.Stats.Hist = map[string]int{}
	c.Stats.KnownClasses = map[string]int{}
	c.seen = map[string]struct{}{}
	return nil
}

// Emit writes one op line for the model and the implementation's canonical answer.
// Returns the 1-based line number.
func (c *Ctx) Emit(op, implAnswer string) int {
	c.mu.Lock()
	defer c.mu.Unlock()
	c.lines++
	fmt.Fprintln(c.ops, op)
	fmt.Fprintln(c.impl, implAnswer)
	return c.lines
}

// Violation records that the implementation broke the property itself (spec diff) on op
// line `line`. class is the finding class used by known_findings.jsonl ("" = unclassified).
func (c *Ctx) Violation(line int, class, desc string) {
	c.mu.Lock()
	defer c.mu.Unlock()
	c.Stats.SpecViolations++
	c.Stats.KnownClasses[class]++
	fmt.Fprintf(c.viol, "%d\t%s\t%s\n", line, class, desc)
}

// Count bumps a histogram bucket (input distribution / branch coverage).
func (c *Ctx) Count(bucket string) {
	c.mu.Lock()
	c.Stats.Hist[bucket]++
	c.mu.Unlock()
}

// Case registers one evaluated case; key identifies it for distinctness, nontrivial by the
// property's stated rule.
func (c *Ctx) Case(key string, nontrivial bool) {
	c.mu.Lock()
	defer c.mu.Unlock()
	c.Stats.Evaluations++
	if nontrivial {
		if _, ok := c.seen[key]; !ok {
			c.seen[key] = struct{}{}
			c.Stats.DistinctNontrivial++
		}
	}
}

func (c *Ctx) Sample(s string) {
	c.mu.Lock()
	if len(c.Stats.Samples) < 5 {
		if len(s) > 600 {
			s = s[:600] + "…"
		}
		c.Stats.Samples = append(c.Stats.Samples, s)
	}
	c.mu.Unlock()
}

func (c *Ctx) Close() error {
	for _, w := range []*bufio.Writer{c.ops, c.impl, c.viol} {
		if w != nil {
			w.Flush()
		}
	}
	for _, f := range c.files {
		f.Close()
	}
	b, _ := json.MarshalIndent(&c.Stats, "", " ")
	return os.WriteFile(filepath.Join(c.Out, "stats.json"), b, 0o644)
}

// Arg returns a -D key=value argument or the default.
func (c *Ctx) Arg(k, def string) string {
	if v, ok := c.Args[k]; ok {
		return v
	}
	return def
}

// Budget picks the case count: explicit N, else quick/thorough default.
func (c *Ctx) Budget(quick, thorough int) int {
	if c.N > 0 {
		return c.N
	}
	if c.Tier == "thorough" {
		return thorough
	}
	return quick
}

// SortedKeys is a small helper for canonical output of Go maps.
func SortedKeys[V any](m map[string]V) []string {
	ks := make([]string, 0, len(m))
	for k := range m {
		ks = append(ks, k)
	}
	sort.Strings(ks)
	return ks
}

// Safe runs f and converts a panic into an error string ("panic: …").
func Safe(f func()) (perr string) {
	defer func() {
		if r := recover(); r != nil {
			perr = fmt.Sprintf("panic: %v", r)
		}
	}()
	f()
	return ""
}

type RunFunc func(c *Ctx) error

var registry = map[string]RunFunc{}

func Register(prop string, f RunFunc) { registry[prop] = f }
func Lookup(prop string) RunFunc      { return registry[prop] }
func Props() []string {
	ks := make([]string, 0, len(registry))
	for k := range registry {
		ks = append(ks, k)
	}
	sort.Strings(ks)
	return ks
}
