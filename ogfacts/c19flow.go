package main

// C19 — data flow of the *database* (and user name) through the HTTP handlers: for every route
// handler that carries the meta.User parameter, which request expression feeds the privilege
// check (QueryAuthorizer.AuthorizeQuery / WriteAuthorizer.AuthorizeWrite) and which request
// expression feeds the thing that acts (query.ExecutionOptions.Database, the points writer,
// the unmarshal work, the OTLP context). The values are followed symbolically through local
// assignments, struct literals, multi-value returns and calls inside the package, with the
// callee's parameters bound to the caller's symbolic arguments.
//
// Emitted as `dbFlows : List DbFlow`; the Lean side proves `authz_db_is_exec_db` by `decide`
// over this table (the two ends of every flow are the *same* request expression), so an edit
// that makes the authorized database and the executed database come from different places
// breaks a proof obligation whatever the handler.

import (
	"fmt"
	"go/ast"
	"go/token"
	"sort"
	"strconv"
	"strings"
)

type c19Val struct {
	kind   string // form url post path const app opaque struct phi cparam urlvalues formvalues postvalues pathvars req
	s      string
	idx    int
	args   []c19Val
	fields map[string]c19Val
}

func (v c19Val) text() string {
	switch v.kind {
	case "form":
		return "r.FormValue(" + strconv.Quote(v.s) + ")"
	case "url":
		return "r.URL.Query().Get(" + strconv.Quote(v.s) + ")"
	case "post":
		return "r.PostFormValue(" + strconv.Quote(v.s) + ")"
	case "path":
		return "mux.Vars(r)[" + strconv.Quote(v.s) + "]"
	case "const":
		return strconv.Quote(v.s)
	case "app":
		var as []string
		for _, a := range v.args {
			as = append(as, a.text())
		}
		return fmt.Sprintf("%s(%s)#%d", v.s, strings.Join(as, ", "), v.idx)
	case "struct":
		var ks []string
		for k := range v.fields {
			ks = append(ks, k)
		}
		sort.Strings(ks)
		var fs []string
		for _, k := range ks {
			fs = append(fs, k+": "+v.fields[k].text())
		}
		return "{" + strings.Join(fs, ", ") + "}"
	case "phi":
		var as []string
		for _, a := range v.args {
			as = append(as, a.text())
		}
		return "phi(" + strings.Join(as, " | ") + ")"
	case "cparam":
		return "callback-param:" + v.s
	}
	return v.kind + ":" + v.s
}

// lean renders the value as a term of the generated inductive `Src`.
func (v c19Val) lean() string {
	switch v.kind {
	case "form":
		return ".formValue " + leanStr(v.s)
	case "url":
		return ".urlGet " + leanStr(v.s)
	case "post":
		return ".postFormValue " + leanStr(v.s)
	case "path":
		return ".pathVar " + leanStr(v.s)
	case "const":
		return ".const " + leanStr(v.s)
	case "cparam":
		return ".callbackParam " + leanStr(v.s)
	case "app":
		switch len(v.args) {
		case 0:
			return fmt.Sprintf(".app0 %s %d", leanStr(v.s), v.idx)
		case 1:
			return fmt.Sprintf(".app1 %s %d (%s)", leanStr(v.s), v.idx, v.args[0].lean())
		case 2:
			return fmt.Sprintf(".app2 %s %d (%s) (%s)", leanStr(v.s), v.idx, v.args[0].lean(), v.args[1].lean())
		}
	}
	return ".opaque " + leanStr(v.text())
}

func c19Opaque(s string) c19Val { return c19Val{kind: "opaque", s: s} }

func (v c19Val) trivial() bool {
	if v.kind == "const" && v.s == "" {
		return true
	}
	if v.kind == "opaque" {
		switch v.s {
		case "nil", "0", "false", "true":
			return true
		}
	}
	return false
}

type c19Frame struct {
	p     *c19Pkg
	fd    *ast.FuncDecl
	bind  map[string]c19Val
	depth int
	busy  map[string]bool // identifiers being resolved (cycle guard)
}

const c19MaxDepth = 7

func (p *c19Pkg) constString(name string) (string, bool) {
	for _, fn := range p.names {
		for _, d := range p.files[fn].Decls {
			gd, ok := d.(*ast.GenDecl)
			if !ok || (gd.Tok != token.CONST && gd.Tok != token.VAR) {
				continue
			}
			for _, sp := range gd.Specs {
				vs, ok := sp.(*ast.ValueSpec)
				if !ok {
					continue
				}
				for i, n := range vs.Names {
					if n.Name == name && i < len(vs.Values) && gd.Tok == token.CONST {
						if b, ok := vs.Values[i].(*ast.BasicLit); ok && b.Kind == token.STRING {
							if s, err := strconv.Unquote(b.Value); err == nil {
								return s, true
							}
						}
					}
				}
			}
		}
	}
	return "", false
}

func (fr *c19Frame) paramNames() map[string]bool {
	out := map[string]bool{}
	if fr.fd.Recv != nil {
		for _, fl := range fr.fd.Recv.List {
			for _, n := range fl.Names {
				out[n.Name] = true
			}
		}
	}
	for _, fl := range fr.fd.Type.Params.List {
		for _, n := range fl.Names {
			out[n.Name] = true
		}
	}
	return out
}

// closureParam: is `name` at position pos a parameter of a function literal inside fd?
func (fr *c19Frame) closureParam(name string, pos token.Pos) bool {
	found := false
	ast.Inspect(fr.fd.Body, func(n ast.Node) bool {
		fl, ok := n.(*ast.FuncLit)
		if !ok {
			return true
		}
		if fl.Pos() <= pos && pos <= fl.End() {
			for _, f := range fl.Type.Params.List {
				for _, pn := range f.Names {
					if pn.Name == name {
						found = true
					}
				}
			}
		}
		return true
	})
	return found
}

func (fr *c19Frame) isReq(e ast.Expr) bool {
	id, ok := e.(*ast.Ident)
	if !ok {
		return false
	}
	if v, ok := fr.bind[id.Name]; ok {
		return v.kind == "req"
	}
	return id.Name == "r" || id.Name == "req" || id.Name == "request"
}

func (fr *c19Frame) key(e ast.Expr) string {
	v := fr.eval(e)
	if v.kind == "const" {
		return v.s
	}
	return "?" + fr.p.g.Src(e)
}

func dedupVals(vs []c19Val) []c19Val {
	seen := map[string]bool{}
	var out []c19Val
	for _, v := range vs {
		t := v.text()
		if !seen[t] {
			seen[t] = true
			out = append(out, v)
		}
	}
	sort.Slice(out, func(i, j int) bool { return out[i].text() < out[j].text() })
	return out
}

func joinVals(vs []c19Val) c19Val {
	vs = dedupVals(vs)
	if len(vs) == 1 {
		return vs[0]
	}
	return c19Val{kind: "phi", args: vs}
}

// assignments to identifier `name` inside the function (flow-insensitive).
func (fr *c19Frame) identVals(name string) []c19Val {
	var out []c19Val
	add := func(lhs []ast.Expr, rhs []ast.Expr) {
		for i, l := range lhs {
			id, ok := l.(*ast.Ident)
			if !ok || id.Name != name {
				continue
			}
			if fr.closureParam(name, id.Pos()) {
				continue
			}
			switch {
			case len(rhs) == len(lhs):
				out = append(out, fr.eval(rhs[i]))
			case len(rhs) == 1:
				out = append(out, fr.evalIdx(rhs[0], i))
			}
		}
	}
	ast.Inspect(fr.fd.Body, func(n ast.Node) bool {
		switch s := n.(type) {
		case *ast.AssignStmt:
			add(s.Lhs, s.Rhs)
		case *ast.ValueSpec:
			var lhs []ast.Expr
			for _, nm := range s.Names {
				lhs = append(lhs, nm)
			}
			if len(s.Values) > 0 {
				add(lhs, s.Values)
			}
		case *ast.RangeStmt:
			for _, l := range []ast.Expr{s.Key, s.Value} {
				if id, ok := l.(*ast.Ident); ok && id.Name == name {
					out = append(out, c19Opaque("range "+fr.p.g.Src(s.X)))
				}
			}
		}
		return true
	})
	return out
}

func (fr *c19Frame) eval(e ast.Expr) c19Val { return fr.evalIdx(e, 0) }

func (fr *c19Frame) evalIdx(e ast.Expr, idx int) c19Val {
	g := fr.p.g
	switch x := e.(type) {
	case *ast.ParenExpr:
		return fr.evalIdx(x.X, idx)
	case *ast.BasicLit:
		if x.Kind == token.STRING {
			if s, err := strconv.Unquote(x.Value); err == nil {
				return c19Val{kind: "const", s: s}
			}
		}
		return c19Opaque(x.Value)
	case *ast.Ident:
		if x.Name == "nil" || x.Name == "true" || x.Name == "false" {
			return c19Opaque(x.Name)
		}
		if fr.closureParam(x.Name, x.Pos()) {
			return c19Val{kind: "cparam", s: x.Name}
		}
		if v, ok := fr.bind[x.Name]; ok {
			return v
		}
		if fr.paramNames()[x.Name] {
			if fr.isReq(x) {
				return c19Val{kind: "req"}
			}
			return c19Opaque("param:" + x.Name)
		}
		if fr.busy[x.Name] {
			return c19Opaque("self:" + x.Name)
		}
		fr.busy[x.Name] = true
		vals := fr.identVals(x.Name)
		delete(fr.busy, x.Name)
		if len(vals) == 0 {
			if s, ok := fr.p.constString(x.Name); ok {
				return c19Val{kind: "const", s: s}
			}
			return c19Opaque(x.Name)
		}
		return joinVals(vals)
	case *ast.UnaryExpr:
		if x.Op == token.AND {
			return fr.evalIdx(x.X, idx)
		}
	case *ast.StarExpr:
		return fr.evalIdx(x.X, idx)
	case *ast.CompositeLit:
		v := c19Val{kind: "struct", fields: map[string]c19Val{}, s: g.Src(x.Type)}
		for _, el := range x.Elts {
			if kv, ok := el.(*ast.KeyValueExpr); ok {
				if k, ok := kv.Key.(*ast.Ident); ok {
					v.fields[k.Name] = fr.eval(kv.Value)
				}
			}
		}
		return v
	case *ast.SelectorExpr:
		// r.URL.Path etc. stay opaque; X.f on a struct literal resolves to the field
		if !fr.isReq(x.X) {
			base := fr.eval(x.X)
			if base.kind == "struct" {
				if f, ok := base.fields[x.Sel.Name]; ok {
					return f
				}
				return c19Opaque(g.Src(x)) // not set in the literal: filled in later (json.Unmarshal, assignments)
			}
			if base.kind == "phi" {
				var alts []c19Val
				for _, b := range base.args {
					if b.kind == "struct" {
						if f, ok := b.fields[x.Sel.Name]; ok {
							alts = append(alts, f)
						}
					}
				}
				if len(alts) > 0 {
					return joinVals(alts)
				}
			}
		}
		return c19Opaque(g.Src(x))
	case *ast.IndexExpr:
		base := fr.eval(x.X)
		if base.kind == "pathvars" {
			return c19Val{kind: "path", s: fr.key(x.Index)}
		}
		return c19Opaque(g.Src(x))
	case *ast.CallExpr:
		return fr.evalCall(x, idx)
	}
	return c19Opaque(g.Src(e))
}

func (fr *c19Frame) evalCall(c *ast.CallExpr, idx int) c19Val {
	g := fr.p.g
	fun := g.Src(c.Fun)
	if sel, ok := c.Fun.(*ast.SelectorExpr); ok {
		// request parameter reads
		if fr.isReq(sel.X) && len(c.Args) == 1 {
			switch sel.Sel.Name {
			case "FormValue":
				return c19Val{kind: "form", s: fr.key(c.Args[0])}
			case "PostFormValue":
				return c19Val{kind: "post", s: fr.key(c.Args[0])}
			}
		}
		if sel.Sel.Name == "Query" && len(c.Args) == 0 {
			if s2, ok := sel.X.(*ast.SelectorExpr); ok && s2.Sel.Name == "URL" && fr.isReq(s2.X) {
				return c19Val{kind: "urlvalues"}
			}
		}
		if sel.Sel.Name == "Get" && len(c.Args) == 1 {
			base := fr.eval(sel.X)
			switch base.kind {
			case "urlvalues":
				return c19Val{kind: "url", s: fr.key(c.Args[0])}
			case "formvalues":
				return c19Val{kind: "form", s: fr.key(c.Args[0])}
			case "postvalues":
				return c19Val{kind: "post", s: fr.key(c.Args[0])}
			}
			if s2, ok := sel.X.(*ast.SelectorExpr); ok && fr.isReq(s2.X) {
				switch s2.Sel.Name {
				case "Form":
					return c19Val{kind: "form", s: fr.key(c.Args[0])}
				case "PostForm":
					return c19Val{kind: "post", s: fr.key(c.Args[0])}
				}
			}
		}
		if fun == "mux.Vars" && len(c.Args) == 1 && fr.isReq(c.Args[0]) {
			return c19Val{kind: "pathvars"}
		}
	}
	// a function of this package: follow its return value
	var callee *ast.FuncDecl
	name := ""
	switch f := c.Fun.(type) {
	case *ast.SelectorExpr:
		if id, ok := f.X.(*ast.Ident); ok && fr.isRecv(id.Name) {
			callee = fr.p.funcs[fr.recvType()+"."+f.Sel.Name]
			name = f.Sel.Name
		}
	case *ast.Ident:
		callee = fr.p.funcs[f.Name]
		name = f.Name
	}
	var args []c19Val
	for _, a := range c.Args {
		args = append(args, fr.eval(a))
	}
	if callee != nil && callee.Body != nil && fr.depth < c19MaxDepth {
		sub := fr.p.frame(callee, args, fr.depth+1)
		if v, ok := sub.returned(idx); ok && v.kind != "phi" {
			return v
		}
	}
	if name == "" {
		name = fun
	}
	var keep []c19Val
	for _, a := range args {
		if a.kind == "req" || (a.kind == "opaque" && strings.HasPrefix(a.s, "param:")) {
			continue // the request / the handler / the response writer: implicit
		}
		keep = append(keep, a)
	}
	return c19Val{kind: "app", s: name, idx: idx, args: keep}
}

// recvType: the receiver type name of the function ("Handler" for the httpd methods).
func (fr *c19Frame) recvType() string {
	if fr.fd.Recv != nil && len(fr.fd.Recv.List) == 1 {
		return typeName(fr.fd.Recv.List[0].Type)
	}
	return "Handler"
}

func (fr *c19Frame) isRecv(name string) bool {
	if fr.fd.Recv != nil {
		for _, fl := range fr.fd.Recv.List {
			for _, n := range fl.Names {
				if n.Name == name {
					return true
				}
			}
		}
	}
	if v, ok := fr.bind[name]; ok && v.kind == "opaque" && v.s == "handler" {
		return true
	}
	return false
}

func (p *c19Pkg) frame(fd *ast.FuncDecl, args []c19Val, depth int) *c19Frame {
	fr := &c19Frame{p: p, fd: fd, bind: map[string]c19Val{}, depth: depth, busy: map[string]bool{}}
	i := 0
	for _, fl := range fd.Type.Params.List {
		n := len(fl.Names)
		if n == 0 {
			n = 1
		}
		for k := 0; k < n; k++ {
			if k < len(fl.Names) && i < len(args) {
				a := args[i]
				t := p.g.Src(fl.Type)
				switch {
				case strings.HasSuffix(t, "http.Request"):
					a = c19Val{kind: "req"}
				case t == "*Handler":
					a = c19Val{kind: "opaque", s: "handler"}
				}
				if !(a.kind == "opaque" && strings.HasPrefix(a.s, "param:")) {
					fr.bind[fl.Names[k].Name] = a
				}
			}
			i++
		}
	}
	return fr
}

// returned: the symbolic value of result #idx, if all non-trivial return statements agree.
func (fr *c19Frame) returned(idx int) (c19Val, bool) {
	var vals []c19Val
	var named []string
	if fr.fd.Type.Results != nil {
		for _, fl := range fr.fd.Type.Results.List {
			for _, n := range fl.Names {
				named = append(named, n.Name)
			}
		}
	}
	var walk func(n ast.Node) bool
	walk = func(n ast.Node) bool {
		switch s := n.(type) {
		case *ast.FuncLit:
			return false
		case *ast.ReturnStmt:
			switch {
			case len(s.Results) == 0 && idx < len(named):
				vals = append(vals, fr.eval(&ast.Ident{Name: named[idx], NamePos: s.Pos()}))
			case len(s.Results) == 1 && idx > 0:
				vals = append(vals, fr.evalIdx(s.Results[0], idx))
			case idx < len(s.Results):
				vals = append(vals, fr.eval(s.Results[idx]))
			}
		}
		return true
	}
	ast.Inspect(fr.fd.Body, walk)
	var nt []c19Val
	for _, v := range vals {
		if !v.trivial() {
			nt = append(nt, v)
		}
	}
	if len(nt) == 0 {
		return c19Val{}, false
	}
	return joinVals(nt), true
}

type c19End struct {
	what     string // "db": default database of the action / of the privilege check; "q": the parsed query; "stmtdb": database written into a statement
	kind, fn string
	v        c19Val
}

type c19Flow struct {
	parseForm bool // the handler calls r.ParseForm() itself: multipart fields are never merged into r.Form
	handler   string
	authz     []c19End
	exec      []c19End
	seen      map[string]bool
}

func (fl *c19Flow) add(list *[]c19End, e c19End) {
	k := e.what + "|" + e.kind + "|" + e.fn + "|" + e.v.text()
	if fl.seen[k] {
		return
	}
	fl.seen[k] = true
	*list = append(*list, e)
}

// walk collects the authorizer calls and the acting sinks reachable from fr.fd.
func (fr *c19Frame) walk(fl *c19Flow, visited map[string]bool) {
	g := fr.p.g
	fname := fr.fd.Name.Name
	ast.Inspect(fr.fd.Body, func(n ast.Node) bool {
		switch x := n.(type) {
		case *ast.CompositeLit:
			if x.Type != nil && strings.HasSuffix(g.Src(x.Type), "ExecutionOptions") {
				for _, el := range x.Elts {
					if kv, ok := el.(*ast.KeyValueExpr); ok && g.Src(kv.Key) == "Database" {
						fl.add(&fl.exec, c19End{"db", "ExecutionOptions.Database", fname, fr.eval(kv.Value)})
					}
				}
			}
		case *ast.AssignStmt:
			for i, l := range x.Lhs {
				sel, ok := l.(*ast.SelectorExpr)
				if !ok || len(x.Rhs) != len(x.Lhs) {
					continue
				}
				if sel.Sel.Name == "Db" || sel.Sel.Name == "Database" {
					if _, isLit := x.Rhs[i].(*ast.BasicLit); isLit {
						continue
					}
					what := "stmtdb"
					if id, ok := sel.X.(*ast.Ident); ok && (id.Name == "uw" || id.Name == "octx") {
						what = "db" // the unmarshal work / the OTLP context carry the database the points are written to
					}
					fl.add(&fl.exec, c19End{what, g.Src(sel), fname, fr.eval(x.Rhs[i])})
				}
			}
		case *ast.CallExpr:
			fun := g.Src(x.Fun)
			if sel, ok := x.Fun.(*ast.SelectorExpr); ok && sel.Sel.Name == "ParseForm" && fr.isReq(sel.X) {
				fl.parseForm = true
			}
			switch {
			case strings.HasSuffix(fun, ".QueryAuthorizer.AuthorizeQuery") && len(x.Args) == 3:
				fl.add(&fl.authz, c19End{"db", "query", fname, fr.eval(x.Args[2])})
				fl.add(&fl.authz, c19End{"q", "query", fname, fr.eval(x.Args[1])})
			case strings.HasSuffix(fun, ".AuthorizeDatabase") && len(x.Args) == 2:
				fl.add(&fl.authz, c19End{"db", "database:" + g.Src(x.Args[0]), fname, fr.eval(x.Args[1])})
			case strings.HasSuffix(fun, ".RecordWriter.RetryWriteRecord") && len(x.Args) > 0:
				fl.add(&fl.exec, c19End{"db", "RetryWriteRecord#0", fname, fr.eval(x.Args[0])})
			case strings.HasSuffix(fun, ".WriteAuthorizer.AuthorizeWrite") && len(x.Args) == 2:
				fl.add(&fl.authz, c19End{"db", "write", fname, fr.eval(x.Args[1])})
			case strings.HasSuffix(fun, "NewExecutionOptions") && len(x.Args) > 0:
				fl.add(&fl.exec, c19End{"db", "NewExecutionOptions#0", fname, fr.eval(x.Args[0])})
			case strings.HasSuffix(fun, ".writeAuthorizer.Authenticate") && len(x.Args) == 3:
				fl.add(&fl.authz, c19End{"db", "write", fname, fr.eval(x.Args[2])}) // services/writer: Authenticate + AuthorizeWrite(username, database)
			case strings.HasSuffix(fun, ".RetryWriteRecords") && len(x.Args) > 0:
				fl.add(&fl.exec, c19End{"db", "RetryWriteRecords#0", fname, fr.eval(x.Args[0])})
			case strings.HasSuffix(fun, ".RetryWritePointRows") && len(x.Args) > 0:
				fl.add(&fl.exec, c19End{"db", "RetryWritePointRows#0", fname, fr.eval(x.Args[0])})
			case strings.HasSuffix(fun, ".QueryExecutor.ExecuteQuery") && len(x.Args) > 0:
				fl.add(&fl.exec, c19End{"q", "ExecuteQuery#0", fname, fr.eval(x.Args[0])})
			}
			// follow calls inside the package, binding the callee's parameters
			var callee *ast.FuncDecl
			switch f := x.Fun.(type) {
			case *ast.SelectorExpr:
				if id, ok := f.X.(*ast.Ident); ok && fr.isRecv(id.Name) {
					callee = fr.p.funcs[fr.recvType()+"."+f.Sel.Name]
				}
			case *ast.Ident:
				callee = fr.p.funcs[f.Name]
			}
			if callee != nil && callee.Body != nil && fr.depth < c19MaxDepth {
				var args []c19Val
				var ks []string
				for _, a := range x.Args {
					v := fr.eval(a)
					args = append(args, v)
					ks = append(ks, v.text())
				}
				key := callee.Name.Name + "(" + strings.Join(ks, ",") + ")"
				if !visited[key] {
					visited[key] = true
					fr.p.frame(callee, args, fr.depth+1).walk(fl, visited)
				}
			}
		}
		return true
	})
}

func leanEnds(es []c19End) string {
	var xs []string
	for _, e := range es {
		xs = append(xs, fmt.Sprintf("⟨%s, %s, %s, %s⟩", leanStr(e.what), leanStr(e.kind), leanStr(e.fn), e.v.lean()))
	}
	return "[" + strings.Join(xs, ", ") + "]"
}

// genC19Flows emits the Src type and the dbFlows table for every distinct wrapped handler.
func genC19Flows(g *Gen, p *c19Pkg, routes []c19Route) error {
	g.P("")
	g.P("/-- where a value a handler uses comes from, as an expression over the request. -/")
	g.P("inductive Src where")
	g.P("  | formValue (k : String)       -- r.FormValue(k): body parameters first, then the URL's")
	g.P("  | urlGet (k : String)          -- r.URL.Query().Get(k)")
	g.P("  | postFormValue (k : String)   -- r.PostFormValue(k): body parameters only")
	g.P("  | pathVar (k : String)         -- mux.Vars(r)[k]")
	g.P("  | const (s : String)")
	g.P("  | callbackParam (name : String) -- parameter of a callback the handler hands to another package")
	g.P("  | app0 (fn : String) (idx : Nat)                 -- result #idx of fn(request)")
	g.P("  | app1 (fn : String) (idx : Nat) (a : Src)")
	g.P("  | app2 (fn : String) (idx : Nat) (a b : Src)")
	g.P("  | opaque (text : String)")
	g.P("deriving DecidableEq, Repr\n")
	g.P("structure FlowEnd where")
	g.P("  what : String   -- \"db\" default database of the check / of the action, \"q\" the parsed query, \"stmtdb\" database written into a statement")
	g.P("  kind : String   -- authorizer (query / write) or the acting sink")
	g.P("  fn : String     -- function holding the call")
	g.P("  src : Src")
	g.P("deriving DecidableEq, Repr\n")
	g.P("structure DbFlow where")
	g.P("  handler : String")
	g.P("  authz : List FlowEnd   -- the database argument of every authorizer call the handler reaches")
	g.P("  exec : List FlowEnd    -- the database handed to what acts")
	g.P("deriving DecidableEq, Repr\n")
	done := map[string]bool{}
	var rows, parseForm []string
	for _, r := range routes {
		if r.sig != "user" || done[r.handler] || strings.HasPrefix(r.handler, "<") {
			continue
		}
		done[r.handler] = true
		fd := p.funcs["Handler."+r.handler]
		if fd == nil || fd.Body == nil {
			continue
		}
		fl := &c19Flow{handler: r.handler, seen: map[string]bool{}}
		p.frame(fd, nil, 0).walk(fl, map[string]bool{})
		if fl.parseForm {
			parseForm = append(parseForm, fl.handler)
		}
		if len(fl.authz) == 0 && len(fl.exec) == 0 {
			continue
		}
		rows = append(rows, fmt.Sprintf("  ⟨%s, %s, %s⟩", leanStr(fl.handler), leanEnds(fl.authz), leanEnds(fl.exec)))
	}
	// entry points that are not routes: exported Handler methods that take the user (the arrow
	// flight service hands its authenticated user to Handler.HandleQuery), and the flight service's own DoPut
	var extra []string
	var keys []string
	for k := range p.funcs {
		keys = append(keys, k)
	}
	sort.Strings(keys)
	for _, k := range keys {
		fd := p.funcs[k]
		name := strings.TrimPrefix(k, "Handler.")
		if !strings.HasPrefix(k, "Handler.") || !ast.IsExported(name) || done[name] || fd.Body == nil {
			continue
		}
		if len(userParamIndex(g, p.fileOf[fd], fd)) == 0 {
			continue
		}
		fl := &c19Flow{handler: name, seen: map[string]bool{}}
		p.frame(fd, nil, 0).walk(fl, map[string]bool{})
		if len(fl.authz) > 0 || len(fl.exec) > 0 {
			extra = append(extra, fmt.Sprintf("  ⟨%s, %s, %s⟩", leanStr(fl.handler), leanEnds(fl.authz), leanEnds(fl.exec)))
		}
	}
	{
		q, err := c19Load(g, "services/arrowflight/")
		if err != nil {
			return fmt.Errorf("C19: services/arrowflight: %v", err) // never skip silently: a missing flow must surface as failed generation
		}
		for _, k := range []string{"flightServer.DoPut", "flightServer.DoGet"} {
			if fd := q.funcs[k]; fd != nil && fd.Body != nil {
				fl := &c19Flow{handler: "arrowflight." + k, seen: map[string]bool{}}
				q.frame(fd, nil, 0).walk(fl, map[string]bool{})
				extra = append(extra, fmt.Sprintf("  ⟨%s, %s, %s⟩", leanStr(fl.handler), leanEnds(fl.authz), leanEnds(fl.exec)))
			}
		}
	}
	{
		q, err := c19Load(g, "services/writer/")
		if err != nil {
			return fmt.Errorf("C19: services/writer: %v", err)
		}
		if fd := q.funcs["Service.Write"]; fd != nil && fd.Body != nil {
			fl := &c19Flow{handler: "writer.Service.Write", seen: map[string]bool{}}
			q.frame(fd, nil, 0).walk(fl, map[string]bool{})
			extra = append(extra, fmt.Sprintf("  ⟨%s, %s, %s⟩", leanStr(fl.handler), leanEnds(fl.authz), leanEnds(fl.exec)))
		}
	}
	g.P("def dbFlows : List DbFlow := [\n%s\n]\n", strings.Join(rows, ",\n"))
	g.P("/-- the same for the entry points that are not routes of the mux. -/")
	g.P("def extraFlows : List DbFlow := [\n%s\n]\n", strings.Join(extra, ",\n"))
	g.P("/-- handlers that call r.ParseForm() themselves before any FormValue: the fields of a multipart body are then never merged into r.Form. -/")
	g.StrList("parseFormHandlers", parseForm)
	// helper functions the flows go through without being resolved: their bodies are pinned
	for _, fn := range []string{"getDbRpByProm", "bucket2dbrp"} {
		if fd := p.funcs[fn]; fd != nil && fd.Body != nil {
			g.P("def src_%s : String := %s", fn, leanStr(g.Src(fd.Body)))
		} else {
			g.P("def src_%s : String := \"<missing>\"", fn)
		}
	}
	return nil
}
