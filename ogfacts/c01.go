package main

import (
	"fmt"
	"go/ast"
	"strings"
)

func init() { register("C01", genC01) }

// genC01 emits the bodies of the functions the C01 / C02 models transcribe (WAL append, switch,
// file order at start-up, serial replay, the flush protocol) so that Facts.lean can compare them
// with the text the model was written against, and the *sync discipline* of the write path as
// facts: which calls follow which (append -> Sync before the acknowledgement when
// wal-sync-interval is 0; data file: buffered writes -> Sync -> rename; the old WAL files are
// synced and closed at the switch and removed only after the commit), with the one decision it
// hangs on (LogWriter.trySync) translated into a Lean definition.
func genC01(g *Gen) error {
	g.Header("engine/wal.go", "engine/log_writer.go", "engine/ts_storage.go", "engine/shard.go", "engine/wal_manager.go", "engine/immutable/writer.go", "engine/immutable/mms_tables.go")
	g.GenNS()
	for _, f := range [][3]string{
		{"engine/wal.go", "WAL.writeBinary", "writeBinary"},
		{"engine/wal.go", "WAL.Switch", "Switch"},
		{"engine/wal.go", "WAL.restoreLog", "restoreLog"},
		{"engine/wal.go", "consumeRecordSerial", "consumeRecordSerial"},
		{"engine/wal.go", "WAL.replayOnePartition", "replayOnePartition"},
		{"engine/ts_storage.go", "tsstoreImpl.writeSnapshot", "writeSnapshot"},
		{"engine/log_writer.go", "LogWriter.trySync", "trySync"},
		{"engine/log_writer.go", "LogWriter.sync", "sync"},
		{"engine/log_writer.go", "LogWriter.closeCurrentFile", "closeCurrentFile"},
		{"engine/log_writer.go", "LogWriter.Switch", "LogWriterSwitch"},
		{"engine/log_writer.go", "LogWriter.trySwitchFile", "trySwitchFile"},
		{"engine/wal_manager.go", "removeWalFiles", "removeWalFiles"},
		{"engine/immutable/mms_tables.go", "RenameTmpFiles", "RenameTmpFiles"},
	} {
		fd, err := g.Func(f[0], f[1])
		if err != nil {
			return err
		}
		g.P("def src_%s : String := %s", f[2], leanStr(g.Src(fd.Body)))
	}
	g.P("")
	// call orders
	for _, f := range []struct {
		rel, fn, name string
		keep      []string
	}{
		{"engine/log_writer.go", "LogWriter.Write", "calls_LogWriterWrite", []string{"w.trySwitchFile", "w.currentFd.Write", "w.trySync", "w.currentFd.Sync"}},
		{"engine/log_writer.go", "LogWriter.closeCurrentFile", "calls_closeCurrentFile", []string{"w.currentFd.Sync", "w.currentFd.Close"}},
		{"engine/log_writer.go", "LogWriter.Switch", "calls_LogWriterSwitch", []string{"w.closeCurrentFile"}},
		{"engine/shard.go", "shard.writeRows", "calls_writeRows", []string{"s.activeTbl.MTable.WriteRows", "s.wal.Write"}},
		{"engine/wal.go", "WAL.Write", "calls_WALWrite", []string{"l.writeBinary"}},
		{"engine/ts_storage.go", "tsstoreImpl.writeSnapshot", "calls_writeSnapshot", []string{"s.wal.Switch", "s.indexBuilder.Flush", "s.commitSnapshot", "RemoveWalFiles"}},
		{"engine/immutable/writer.go", "tsspFileWriter.Close", "calls_tsspWriterClose", []string{"w.fileWriter.Close", "w.cmw.Close", "w.fd.Sync"}},
		{"engine/immutable/mms_tables.go", "RenameTmpFiles", "calls_RenameTmpFiles", []string{"f.FreeFileHandle", "f.Rename"}},
		{"engine/shard.go", "shard.syncReplayWal", "calls_syncReplayWal", []string{"s.wal.Replay", "s.ForceFlush", "s.wal.Remove"}},
	} {
		fd, err := g.Func(f.rel, f.fn)
		if err != nil {
			return err
		}
		keep := map[string]bool{}
		for _, k := range f.keep {
			keep[k] = true
		}
		var calls []string
		ast.Inspect(fd.Body, func(n ast.Node) bool {
			if ce, ok := n.(*ast.CallExpr); ok {
				if s := g.Src(ce.Fun); keep[s] {
					calls = append(calls, s)
				}
			}
			return true
		})
		g.StrList(f.name, calls)
	}
	g.P("")
	// LogWriter.trySync: synchronous exactly when SyncInterval == 0
	fd, err := g.Func("engine/log_writer.go", "LogWriter.trySync")
	if err != nil {
		return err
	}
	if len(fd.Body.List) < 2 {
		return fmt.Errorf("C01: LogWriter.trySync changed shape")
	}
	is, ok := fd.Body.List[0].(*ast.IfStmt)
	if !ok || len(is.Body.List) != 1 || g.Src(is.Body.List[0]) != "return w.sync()" || is.Else != nil {
		return fmt.Errorf("C01: LogWriter.trySync no longer starts with the synchronous case: %s", g.Src(fd.Body.List[0]))
	}
	c := &c02{g: g}
	cond, err := c.sub(is.Cond, map[string]string{"w.SyncInterval": "syncInterval"})
	if err != nil {
		return err
	}
	rest := ""
	for _, s := range fd.Body.List[1:] {
		rest += g.Src(s) + " ; "
	}
	if !strings.Contains(rest, "go func() { _ = w.sync() }()") {
		return fmt.Errorf("C01: LogWriter.trySync: the asynchronous case changed: %s", rest)
	}
	g.P("/-- `LogWriter.trySync`: 0 = the append is followed by `Sync` before `Write` returns, 1 = a")
	g.P("background task syncs later. -/")
	g.P("def trySyncMode (syncInterval : Int) : Nat := if %s then 0 else 1", cond)
	// LogWriter.sync, the synchronous case
	fd, err = g.Func("engine/log_writer.go", "LogWriter.sync")
	if err != nil {
		return err
	}
	for _, s := range fd.Body.List {
		if is, ok := s.(*ast.IfStmt); ok && g.Src(is.Cond) == "w.SyncInterval == 0" {
			b := g.Src(is.Body)
			if !strings.Contains(b, "w.currentFd.Sync()") || !strings.HasSuffix(strings.TrimSuffix(b, " }"), "return err") {
				return fmt.Errorf("C01: LogWriter.sync: the synchronous case does not sync and return: %s", b)
			}
			g.P("def syncNow_body : String := %s", leanStr(b))
		}
	}
	g.Footer()
	return nil
}
