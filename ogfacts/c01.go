package main

func init() { register("C01", genC01) }

// genC01 emits the bodies of the functions the C01 / C02 models transcribe (WAL append, switch,
// file order at start-up, serial replay, the flush protocol) so that Facts.lean can compare them
// with the text the model was written against.
func genC01(g *Gen) error {
	g.Header("engine/wal.go", "engine/ts_storage.go")
	g.GenNS()
	for _, f := range [][3]string{
		{"engine/wal.go", "WAL.writeBinary", "writeBinary"},
		{"engine/wal.go", "WAL.Switch", "Switch"},
		{"engine/wal.go", "WAL.restoreLog", "restoreLog"},
		{"engine/wal.go", "consumeRecordSerial", "consumeRecordSerial"},
		{"engine/wal.go", "WAL.replayOnePartition", "replayOnePartition"},
		{"engine/ts_storage.go", "tsstoreImpl.writeSnapshot", "writeSnapshot"},
	} {
		fd, err := g.Func(f[0], f[1])
		if err != nil {
			return err
		}
		g.P("def src_%s : String := %s", f[2], leanStr(g.Src(fd.Body)))
	}
	g.Footer()
	return nil
}
