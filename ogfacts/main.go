// ogfacts — regenerates Lean definitions and fact tables from /repo's *current* source
// (go/ast; no type checking, no build of the repository needed). Every property has one
// generator that writes OG/Generated/<Prop>.lean. The Lean theorems are stated over these
// generated definitions (tiny pure functions are translated; tables and shapes are emitted as
// data and compared with hand-written expectations by `decide`), so a source edit that changes
// a fact makes `lake build` fail.
package main

import (
	"flag"
	"fmt"
	"os"
	"path/filepath"
	"sort"
	"strings"
)

type generator func(g *Gen) error

var generators = map[string]generator{}

func register(prop string, f generator) { generators[prop] = f }

func main() {
	repo := flag.String("repo", "/repo", "repository root")
	out := flag.String("out", "/verif/lean/OG/Generated", "output directory")
	flag.Parse()
	props := flag.Args()
	if len(props) == 0 {
		for p := range generators {
			props = append(props, p)
		}
		sort.Strings(props)
	}
	if err := os.MkdirAll(*out, 0o755); err != nil {
		fatal(err)
	}
	rc := 0
	for _, p := range props {
		f := generators[p]
		if f == nil {
			continue // property without regenerated facts
		}
		g := &Gen{Repo: *repo, Prop: p}
		path := filepath.Join(*out, p+".lean")
		os.Remove(path)
		err := f(g)
		if err != nil {
			// still write a file: the failure must surface as a broken proof obligation,
			// not as a silently stale file.
			g.buf.Reset()
			g.P("-- GENERATION FAILED: %s", strings.ReplaceAll(err.Error(), "\n", " "))
			g.P("namespace OG.Gen.%s", p)
			g.P("def generationFailed : Bool := true")
			g.P("end OG.Gen.%s", p)
			fmt.Fprintf(os.Stderr, "ogfacts %s: %v\n", p, err)
			rc = 1
		}
		if werr := os.WriteFile(path, []byte(g.buf.String()), 0o644); werr != nil {
			fatal(werr)
		}
	}
	os.Exit(rc)
}

func fatal(err error) {
	fmt.Fprintln(os.Stderr, "ogfacts:", err)
	os.Exit(2)
}
