package main

import (
	"fmt"
	"strconv"
)

// C20, skip indexes — facts the hand-written model OG/C20/Skip.lean was written against
// (called from genC20; everything lands in namespace OG.Gen.C20).
func genC20Skip(g *Gen) error {
	const (
		sk   = "engine/index/sparseindex/"
		bf   = "engine/index/bloomfilter/"
		tok  = "lib/tokenizer/tokenizer.go"
		tokU = "lib/tokenizer/util.go"
		tokF = "lib/tokenizer/token_finder.go"
		lbf  = "lib/bloomfilter/bloomfilter.go"
		rpnF = "lib/rpn/rpn.go"
	)
	// constants the model computes with
	p, err := g.Const(tokU, "Prime_64")
	if err != nil {
		return err
	}
	pv, err := strconv.ParseUint(p, 0, 64)
	if err != nil {
		return fmt.Errorf("Prime_64 = %s: %w", p, err)
	}
	g.P("def skPrime64 : Nat := %d", pv)
	cs, err := g.Const(tok, "CONTENT_SPLITTER")
	if err != nil {
		return err
	}
	csv, err := strconv.Unquote(cs)
	if err != nil {
		return fmt.Errorf("CONTENT_SPLITTER = %s: %w", cs, err)
	}
	g.P("def skContentSplitter : String := %s", leanStr(csv))
	for _, c := range [][3]string{
		{"lib/logstore/bloomfilter.go", "GramTokenizerVersion", "skGramTokenizerVersion"},
		{"lib/logstore/bloomfilter.go", "CurrentLogTokenizerVersion", "skCurrentLogTokenizerVersion"},
	} {
		v, err := g.Const(c[0], c[1])
		if err != nil {
			return err
		}
		g.P("def %s : String := %s", c[2], leanStr(v))
	}
	// the switch of SKConditionImpl.IsExist
	rows, err := g.SwitchTable(sk+"condition.go", "SKConditionImpl.IsExist")
	if err != nil {
		return err
	}
	g.PairList("skIsExistTable", rows)
	sm, err := g.Const(rpnF, "switchMap")
	if err != nil {
		return err
	}
	g.P("def src_rpnSwitchMap : String := %s", leanStr(sm))
	// bodies transcribed by the model
	for _, f := range [][3]string{
		{sk + "skip_index.go", "SKIndexReaderImpl.Scan", "skScan"},
		{sk + "skip_index.go", "SKIndexReaderImpl.getSKInfoByExpr", "skGetSKInfoByExpr"},
		{sk + "set_index.go", "SetIndexReader.MayBeInFragment", "setMayBeInFragment"},
		{sk + "set_index.go", "SetWriter.CreateAttachIndex", "setCreateAttachIndex"},
		{sk + "min_max_index.go", "MinMaxIndexReader.MayBeInFragment", "minMaxMayBeInFragment"},
		{sk + "min_max_index.go", "MinMaxIndexReader.init", "minMaxInit"},
		{sk + "min_max_index.go", "MinMaxWriter.CreateAttachIndex", "minMaxCreateAttachIndex"},
		{sk + "condition.go", "SKConditionImpl.IsExist", "skIsExist"},
		{sk + "condition.go", "SKConditionImpl.convertToRPNElem", "skConvertToRPNElem"},
		{sk + "condition.go", "SKConditionImpl.genRPNElementByVal", "skGenRPNElementByVal"},
		{rpnF, "ConvertToRPNExpr", "rpnConvertToRPNExpr"},
		{sk + "bloom_filter_index.go", "BloomFilterIndexReader.MayBeInFragment", "bfMayBeInFragment"},
		{sk + "bloom_filter_index.go", "BloomFilterWriter.GenBloomFilterData", "bfGenBloomFilterData"},
		{sk + "bloom_filter_fulltext_index.go", "BloomFilterFullTextIndexReader.MayBeInFragment", "ftMayBeInFragment"},
		{sk + "bloom_filter_fulltext_index.go", "FullTextIdxWriter.genFullTextIndexData", "ftGenFullTextIndexData"},
		{bf + "filter_reader.go", "LineFilterReader.IsExist", "lineIsExist"},
		{bf + "filter_reader.go", "LineFilterReader.hitExpr", "lineHitExpr"},
		{bf + "multi_field_filter_reader.go", "MultiFieldFilterReader.getAllHashes", "multiGetAllHashes"},
		{bf + "multi_field_filter_reader.go", "MultiFiledLineFilterReader.hitExpr", "multiLineHitExpr"},
		{tok, "SimpleTokenizer.ProcessTokenizerBatch", "tkProcessTokenizerBatch"},
		{tok, "SimpleTokenizer.Next", "tkSimpleNext"},
		{tok, "SimpleUtf8Tokenizer.Next", "tkUtf8Next"},
		{tok, "SimpleUtf8Tokenizer.updateHash", "tkUtf8UpdateHash"},
		{tok, "SimpleGramTokenizerV1.InitInput", "tkV1InitInput"},
		{tok, "SimpleGramTokenizerV1.addHashes", "tkV1AddHashes"},
		{tok, "NewSimpleGramTokenizerWithSeed", "tkNewSimpleGramTokenizerWithSeed"},
		{tok, "init", "tkInit"},
		{tokF, "SimpleTokenFinder.Next", "tfNext"},
		{tokF, "SimpleTokenFinder.isSplit", "tfIsSplit"},
		{tokF, "indexOf", "tfIndexOf"},
		{lbf, "OneHitBloomFilterV3.Add", "bfV3Add"},
		{lbf, "OneHitBloomFilterV3.Hit", "bfV3Hit"},
		{lbf, "NewOneHitBloomFilter", "bfNewOneHit"},
		{lbf, "init", "bfInit"},
	} {
		fd, err := g.Func(f[0], f[1])
		if err != nil {
			return err
		}
		g.P("def src_%s : String := %s", f[2], leanStr(g.Src(fd.Body)))
	}
	if err := genC20Idx(g); err != nil { // reader-construction layer (c20idx.go)
		return err
	}
	if err := genC20TC(g); err != nil { // time cluster (c20tc.go)
		return err
	}
	return genC20State(g) // struct fields and receiver writes of readers / conditions (c20state.go)
}
