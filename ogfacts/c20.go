package main

func init() { register("C20", genC20) }

func genC20(g *Gen) error {
	const dir = "engine/index/sparseindex/"
	g.Imports = []string{"OG.C20.Base"}
	g.Header(dir+"mark.go", dir+"range.go", dir+"util.go", dir+"condition.go")
	t := &Tr{g: g}
	t.Ident = func(name string) string {
		switch name {
		case "r.leftIncluded":
			return "r.li"
		case "r.rightIncluded":
			return "r.ri"
		case "nr.leftIncluded":
			return "nr.li"
		case "nr.rightIncluded":
			return "nr.ri"
		}
		return ""
	}
	t.Call = func(fun, method, recv string, args []string) string {
		if len(args) != 1 {
			return ""
		}
		switch method {
		case "Less":
			return "(Ext.less " + recv + " " + args[0] + ")"
		case "Equals":
			return "(Ext.eqv " + recv + " " + args[0] + ")"
		case "leftLEQ", "rightGEQ", "rightLQ":
			return "(Range." + method + " " + recv + " " + args[0] + ")"
		}
		return ""
	}
	g.P("namespace OG.C20")
	g.P("variable {α : Type} [LT α] [DecidableLT α] [DecidableEq α]\n")
	for _, m := range []struct{ name, lean, params string }{
		{"leftLEQ", "leftLEQ", "(r : Range α) (x : Ext α)"},
		{"rightGEQ", "rightGEQ", "(r : Range α) (x : Ext α)"},
		{"rightLQ", "rightLQ", "(r nr : Range α)"},
		{"intersectsRange", "intersects", "(r nr : Range α)"},
		{"containsRange", "contains", "(r nr : Range α)"},
	} {
		if err := t.Method(dir+"range.go", "Range."+m.name, "Range."+m.lean, m.params, "Bool"); err != nil {
			return err
		}
	}
	g.P("end OG.C20\n")
	g.GenNS()
	g.P("structure Mark where\n  canBeTrue : Bool\n  canBeFalse : Bool\nderiving DecidableEq, Repr\n")
	for _, m := range []struct{ name, params, ret string }{
		{"And", "(m mask : Mark)", "Mark"},
		{"Or", "(m mask : Mark)", "Mark"},
		{"Not", "(m : Mark)", "Mark"},
		{"isComplete", "(m : Mark)", "Bool"},
	} {
		if err := t.Method(dir+"mark.go", "Mark."+m.name, "Mark."+m.name, m.params, m.ret); err != nil {
			return err
		}
	}
	// ConsiderOnlyBeTrue = NewMark(false, true)
	c, err := g.Const(dir+"mark.go", "ConsiderOnlyBeTrue")
	if err != nil {
		return err
	}
	g.P("def considerOnlyBeTrueSrc : String := %s", leanStr(c))
	// operator -> atom shape
	rows, err := g.SwitchTable(dir+"util.go", "genRPNElementByOp")
	if err != nil {
		return err
	}
	g.PairList("atomTable", rows)
	// which variable each exit of the three range helpers returns
	for _, f := range []string{"checkRangeLeftRightBound", "checkRangeLeftBound", "checkRangeRightBound", "checkInAnyRange"} {
		r, err := g.Returns(dir+"condition.go", "KeyConditionImpl."+f)
		if err != nil {
			return err
		}
		g.StrList("returns_"+f, r)
	}
	// shape of the range helpers the model transcribes
	for _, f := range [][2]string{
		{"range.go", "createRightBounded"}, {"range.go", "createLeftBounded"},
		{"range.go", "Range.turnOpenRangeIntoClosed"},
		{"condition.go", "KeyConditionImpl.checkInRangeForRange"},
	} {
		fd, err := g.Func(dir+f[0], f[1])
		if err != nil {
			return err
		}
		name := f[1]
		if i := len("Range."); len(name) > i && name[:i] == "Range." {
			name = name[i:]
		}
		if i := len("KeyConditionImpl."); len(name) > i && name[:i] == "KeyConditionImpl." {
			name = name[i:]
		}
		g.P("def src_%s : String := %s", name, leanStr(g.Src(fd.Body)))
	}
	if err := genC20Skip(g); err != nil { // skip indexes (c20skip.go)
		return err
	}
	g.Footer()
	return nil
}
