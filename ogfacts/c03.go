package main

import (
	"fmt"
	"go/ast"
	"strconv"
	"strings"
)

func init() { register("C03", genC03) }

// genC03 regenerates what the replace-protocol model (OG.C03.Model) is written against:
//
//   - the name constants (`.init` suffix, `.tssp` suffix, log trailer, directory names);
//   - the *order of the protocol steps* as call sequences (main path only: the bodies of
//     `if err != nil {…}` / `if … == nil {…}` error branches are skipped) of
//     MmsTables.ReplaceFiles, the three merge drivers, compactToLevel, procCompactLog,
//     processFiles, MmsTables.Open, deleteFiles / removeFile; the model's step lists are built
//     from `calls_ReplaceFiles`, so a reordered protocol changes the model the theorems are
//     about;
//   - whether processLog selects the directory by the log's IsOrder flag
//     (`processLogHonoursIsOrder`, used by the model as its `fixed` parameter), plus the
//     source text of processLog, getProcessLogFuncs, readCompactLogFile's return shapes, the
//     loader's switch on the file extension, removeTmpFile, IsTempleFile, TSSPFiles.Less and
//     the sort of the merge context.
func genC03(g *Gen) error {
	const dir = "engine/immutable/"
	g.Header(dir+"mms_tables.go", dir+"compaction_file_info.go", dir+"merge_tool.go", dir+"merge_out_of_order.go",
		dir+"ts_mms_tables.go", dir+"mms_loader.go", dir+"compact.go", dir+"tssp_reader.go", dir+"tssp_file_name.go", dir+"merge_util.go")
	g.GenNS()

	// ---- constants
	for _, c := range [][2]string{
		{dir + "tssp_reader.go", "tmpFileSuffix"},
		{dir + "tssp_reader.go", "tsspFileSuffix"},
		{dir + "tssp_reader.go", "unorderedDir"},
		{dir + "tssp_reader.go", "compactLogDir"},
	} {
		v, err := g.Const(c[0], c[1])
		if err != nil {
			return err
		}
		s, err := strconv.Unquote(v)
		if err != nil {
			return fmt.Errorf("constant %s is not a string literal: %s", c[1], v)
		}
		g.P("def %s : String := %s", c[1], leanStr(s))
	}
	magic, err := g.Const(dir+"compaction_file_info.go", "compLogMagic")
	if err != nil {
		return err
	}
	// []byte("2021A5A5")
	if i, j := strings.IndexByte(magic, '"'), strings.LastIndexByte(magic, '"'); i >= 0 && j > i {
		s, err := strconv.Unquote(magic[i : j+1])
		if err != nil {
			return err
		}
		g.P("def compLogMagic : String := %s", leanStr(s))
	} else {
		return fmt.Errorf("compLogMagic: unexpected initialiser %s", magic)
	}
	g.P("")

	// ---- call sequences
	seqs := []struct {
		rel, fn, lean string
		vocab        []string
	}{
		{dir + "mms_tables.go", "MmsTables.ReplaceFiles", "calls_ReplaceFiles", []string{"writeCompactedFileInfo", "RenameTmpFiles", "deleteFiles", "Remove"}},
		{dir + "mms_tables.go", "RenameTmpFiles", "calls_RenameTmpFiles", []string{"Rename", "Remove"}},
		{dir + "compact.go", "MmsTables.deleteFiles", "calls_deleteFiles", []string{"Inuse", "Rename", "Remove"}},
		{dir + "merge_out_of_order.go", "MmsTables.removeFile", "calls_removeFile", []string{"Inuse", "Rename", "Remove"}},
		{dir + "merge_out_of_order.go", "MmsTables.deleteUnorderedFiles", "calls_deleteUnorderedFiles", []string{"deleteFile", "removeFile"}},
		{dir + "merge_out_of_order.go", "MmsTables.replaceMergedFiles", "calls_replaceMergedFiles", []string{"ReplaceFiles", "deleteUnorderedFiles"}},
		{dir + "merge_tool.go", "mergeTool.merge", "calls_merge", []string{"execute", "ReplaceFiles", "replaceMergedFiles", "deleteUnorderedFiles"}},
		{dir + "merge_tool.go", "mergeTool.mergeSelfStreamMode", "calls_mergeSelfStreamMode", []string{"execute", "ReplaceFiles", "replaceMergedFiles", "deleteUnorderedFiles"}},
		{dir + "merge_tool.go", "mergeTool.mergeSelfFastMode", "calls_mergeSelfFastMode", []string{"Merge", "ReplaceFiles", "deleteUnorderedFiles"}},
		{dir + "merge_tool.go", "mergeTool.getTSSPFiles", "calls_getTSSPFiles", []string{"Sort", "getFilesByPath"}},
		{dir + "ts_mms_tables.go", "tsImmTableImpl.compactToLevel", "calls_compactToLevel", []string{"compact", "ReplaceFiles", "RemoveTmpFiles"}},
		{dir + "compaction_file_info.go", "procCompactLog", "calls_procCompactLog", []string{"readCompactLogFile", "processLog", "Remove"}},
		{dir + "compaction_file_info.go", "processFiles", "calls_processFiles", []string{"renameFile", "oldFileExist", "Stat", "Remove"}},
		{dir + "compaction_file_info.go", "MmsTables.writeCompactedFileInfo", "calls_writeCompactedFileInfo", []string{"OpenFile", "Write", "Sync", "Close"}},
		{dir + "mms_tables.go", "MmsTables.Open", "calls_Open", []string{"recoverFile", "doLoad"}},
		{dir + "mms_tables.go", "recoverFile", "calls_recoverFile", []string{"procCompactLog"}},
	}
	for _, s := range seqs {
		fd, err := g.Func(s.rel, s.fn)
		if err != nil {
			return err
		}
		g.StrList(s.lean, c03Calls(g, fd.Body, s.vocab))
	}
	g.P("")

	// ---- processLog: directory selection
	fd, err := g.Func(dir+"compaction_file_info.go", "processLog")
	if err != nil {
		return err
	}
	honours := false
	ast.Inspect(fd.Body, func(n ast.Node) bool {
		ifs, ok := n.(*ast.IfStmt)
		if !ok {
			return true
		}
		if g.Src(ifs.Cond) == "!info.IsOrder" && len(ifs.Body.List) == 1 &&
			g.Src(ifs.Body.List[0]) == "mmDir = filepath.Join(mmDir, unorderedDir)" && ifs.Else == nil {
			honours = true
		}
		return true
	})
	g.P("/-- processLog reads the out-of-order sub-directory for a log written with IsOrder = false. -/")
	g.P("def processLogHonoursIsOrder : Bool := %v", honours)
	g.P("def src_processLog : String := %s", leanStr(c03NoLog(g, fd.Body)))
	for _, f := range []struct{ rel, fn, lean string }{
		{dir + "compaction_file_info.go", "getProcessLogFuncs", "src_getProcessLogFuncs"},
		{dir + "compaction_file_info.go", "processFiles", "src_processFiles"},
		{dir + "compaction_file_info.go", "procCompactLog", "src_procCompactLog"},
		{dir + "mms_loader.go", "fileLoader.removeTmpFile", "src_removeTmpFile"},
		{dir + "tssp_file_name.go", "IsTempleFile", "src_IsTempleFile"},
		{dir + "tssp_reader.go", "TSSPFiles.Less", "src_TSSPFilesLess"},
		{dir + "merge_util.go", "mergeFileInfo.Less", "src_mergeFileInfoLess"},
		{dir + "compact.go", "MmsTables.deleteFiles", "src_deleteFiles"},
		{dir + "merge_out_of_order.go", "MmsTables.removeFile", "src_removeFile"},
	} {
		fd, err := g.Func(f.rel, f.fn)
		if err != nil {
			return err
		}
		g.P("def %s : String := %s", f.lean, leanStr(c03NoLog(g, fd.Body)))
	}
	rets, err := g.Returns(dir+"compaction_file_info.go", "readCompactLogFile")
	if err != nil {
		return err
	}
	g.StrList("returns_readCompactLogFile", rets)
	rows, err := g.SwitchTable(dir+"mms_loader.go", "fileLoader.Load")
	if err != nil {
		return err
	}
	g.PairList("loaderSwitch", rows)
	if err := c03LoopShape(g); err != nil {
		return err
	}
	// ---- the level-compaction planner (model: OG.C03.Plan)
	g.P("")
	for _, f := range []struct{ rel, fn, lean string }{
		{dir + "mms_tables.go", "MmsTables.mmsPlan", "src_mmsPlan"},
		{dir + "mms_tables.go", "MmsTables.genCompactPlan", "src_genCompactPlan"},
		{dir + "mms_tables.go", "MmsTables.getMmsPlan", "src_getMmsPlan"},
		{dir + "mms_tables.go", "levelSequenceEqual", "src_levelSequenceEqual"},
	} {
		fd, err := g.Func(f.rel, f.fn)
		if err != nil {
			return err
		}
		g.P("def %s : String := %s", f.lean, leanStr(c03NoLog(g, fd.Body)))
	}
	// the name of a compaction's output: the first two statements of MmsTables.compact
	fd, err = g.Func(dir+"compact.go", "MmsTables.compact")
	if err != nil {
		return err
	}
	if len(fd.Body.List) < 2 {
		return fmt.Errorf("MmsTables.compact: body too short")
	}
	g.P("def src_compactOutputName : String := %s", leanStr(g.Src(fd.Body.List[0])+" ; "+g.Src(fd.Body.List[1])))
	v, err := g.Const(dir+"compact.go", "LeveLMinGroupFiles")
	if err != nil {
		return err
	}
	g.P("def levelMinGroupFiles : String := %s", leanStr(v))

	// ---- the full-compaction group builder (model: OG.C03.FullPlan)
	for _, f := range []struct{ rel, fn, lean string }{
		{dir + "tssp_reader.go", "TSSPFiles.fullCompacted", "src_fullCompacted"},
		{dir + "task.go", "CompactGroupBuilder.add", "src_groupBuilderAdd"},
		{dir + "task.go", "CompactGroupBuilder.addLowLevelMode", "src_groupBuilderAddLowLevelMode"},
		{dir + "task.go", "CompactGroupBuilder.SwitchGroup", "src_groupBuilderSwitchGroup"},
		{dir + "compact.go", "MmsTables.buildFullCompactPlan", "src_buildFullCompactPlan"},
		{dir + "compact.go", "MmsTables.FullCompact", "src_FullCompact"},
	} {
		fd, err := g.Func(f.rel, f.fn)
		if err != nil {
			return err
		}
		g.P("def %s : String := %s", f.lean, leanStr(c03NoLog(g, fd.Body)))
	}

	// ---- the writers of the metadata the read path prunes with (model: OG.C03.Meta)
	g.P("")
	for _, w := range []struct{ rel, fn, lean string }{
		{dir + "stream_compact.go", "StreamIterators.writeMetaToDisk", "stream"},
		{dir + "msbuilder.go", "MsBuilder.writeToDisk", "builder"},
		{dir + "msbuilder.go", "MsBuilder.WriteData", "builderTrailer"},
		{dir + "stream_downsample.go", "StreamWriteFile.WriteMeta", "merge"},
	} {
		fd, err := g.Func(w.rel, w.fn)
		if err != nil {
			return err
		}
		ups := c03RangeUpdates(g, fd.Body)
		g.PairList("metaUpd_"+w.lean, ups)
		if w.lean != "builderTrailer" {
			g.P("/-- how %s widens the time range of the chunk-meta block it is filling. -/", w.fn)
			g.P("def blockUpd_%s : String := %s", w.lean, leanStr(c03BlockUpd(ups)))
		}
	}
	for _, f := range []struct{ rel, fn, lean string }{
		{dir + "tssp_file.go", "tsspFileReader.MetaIndex", "src_MetaIndex"},
		{dir + "reader.go", "searchMetaIndexItem", "src_searchMetaIndexItem"},
		{dir + "msbuilder.go", "needSwitchChunkMeta", "src_needSwitchChunkMeta"},
		{dir + "tssp_file.go", "tsspFileReader.Contains", "src_readerContains"},
	} {
		fd, err := g.Func(f.rel, f.fn)
		if err != nil {
			return err
		}
		g.P("def %s : String := %s", f.lean, leanStr(c03NoLog(g, fd.Body)))
	}

	// ---- streaming compaction: recompute the column statistics from the rows, or merge the
	// records of the inputs? The decision is taken twice (model: OG.C03.PreAgg).
	g.P("")
	{
		const rel = dir + "stream_compact.go"
		fd, err := g.Func(rel, "StreamIterators.compact")
		if err != nil {
			return err
		}
		caller := "not-found"
		ast.Inspect(fd.Body, func(n ast.Node) bool {
			if call, ok := n.(*ast.CallExpr); ok && c03Callee(call) == "compactColumn" && len(call.Args) >= 3 {
				caller = g.Src(call.Args[2])
			}
			return true
		})
		g.P("/-- StreamIterators.compact: the `needCalPreAgg` argument it passes to compactColumn. -/")
		g.P("def preaggCond_caller : String := %s", leanStr(caller))
		for _, v := range []string{"Integer", "Float", "String", "Boolean"} {
			fd, err := g.Func(rel, "StreamIterators.merge"+v+"PreAgg")
			if err != nil {
				return err
			}
			cond := "not-found"
			for _, st := range fd.Body.List {
				ifs, ok := st.(*ast.IfStmt)
				if !ok {
					continue
				}
				body := g.Src(ifs.Body)
				if strings.Contains(body, ".marshal(cm.preAgg[:0])") && strings.Contains(body, "return nil") {
					cond = g.Src(ifs.Cond)
				}
			}
			g.P("/-- merge%sPreAgg: when it stores the builder the caller (re)computed instead of merging the inputs' records. -/", v)
			g.P("def preaggCond_%s : String := %s", strings.ToLower(v), leanStr(cond))
		}
	}

	// ---- column-store compaction: who publishes the new files, and when (model: OG.C03.ColStore)
	g.P("")
	renames := []string{"RenameTmpFiles", "RenameTmpFilesWithPKIndex"}
	csSeqs := []struct {
		rel, fn, lean string
		vocab        []string
	}{
		{dir + "cs_mms_tables.go", "csImmTableImpl.ReplaceFiles", "calls_csReplaceFiles", append([]string{"writeCompactedFileInfo", "RenameIndexFiles", "deleteFiles", "Remove"}, renames...)},
		{dir + "table.go", "WriteIntoFile", "calls_WriteIntoFile", append([]string{"NewTSSPFile", "RenameTmpFullTextIdxFile"}, renames...)},
		{dir + "colstore_compact.go", "IteratorByRow.Flush", "calls_csFlushByRow", []string{"WriteIntoFile", "AddTSSPFiles", "ReplaceFiles"}},
		{dir + "colstore_compact.go", "IteratorByBlock.Flush", "calls_csFlushByBlock", []string{"WriteIntoFile", "AddTSSPFiles", "ReplaceFiles"}},
		{dir + "cs_mms_tables.go", "csImmTableImpl.compactToLevel", "calls_csCompactToLevel", []string{"compact", "ReplaceFiles"}},
	}
	got := map[string][]string{}
	for _, sq := range csSeqs {
		fd, err := g.Func(sq.rel, sq.fn)
		if err != nil {
			return err
		}
		got[sq.lean] = c03Calls(g, fd.Body, sq.vocab)
		g.StrList(sq.lean, got[sq.lean])
	}
	has := func(xs []string, ys ...string) bool {
		for _, x := range xs {
			for _, y := range ys {
				if x == y {
					return true
				}
			}
		}
		return false
	}
	publishes := has(got["calls_WriteIntoFile"], renames...) && has(got["calls_csFlushByRow"], "WriteIntoFile") &&
		has(got["calls_csFlushByBlock"], "WriteIntoFile") && !has(got["calls_csReplaceFiles"], renames...)
	g.P("/-- column-store compaction renames its new files to their final names while it writes them")
	g.P("(WriteIntoFile), i.e. before csImmTableImpl.ReplaceFiles writes the compact log. -/")
	g.P("def csCompactPublishesBeforeLog : Bool := %v", publishes)
	g.Footer()
	return nil
}

// c03LoopShape emits the control shape of the start-up loop over the compact-log directory
// as data (not only as source text): what procCompactLog does with a log the reader calls
// dirty (ErrDirtyLog), with any other reader error, with an error of processLog, whether the
// log is removed at the end of the loop body, and what recoverFile does with the error
// procCompactLog returns. The multi-log recovery model (OG.C03.Multi) takes `dirtyLogSkipped`
// as its parameter, so a loop that stops at a dirty log changes the model the theorems are
// about.
func c03LoopShape(g *Gen) error {
	const rel = "engine/immutable/compaction_file_info.go"
	fd, err := g.Func(rel, "procCompactLog")
	if err != nil {
		return err
	}
	var loop *ast.RangeStmt
	for _, st := range fd.Body.List {
		if r, ok := st.(*ast.RangeStmt); ok {
			loop = r
		}
	}
	if loop == nil {
		return fmt.Errorf("procCompactLog: no range loop at the top level of the body")
	}
	g.P("")
	g.P("/-- procCompactLog: `for … := range <this>` over the listing of the compact-log directory. -/")
	g.P("def procCompactLog_loopOver : String := %s", leanStr(g.Src(loop.X)))
	// the statement after `err = readCompactLogFile(…)` / `err = processLog(…)` that tests err
	errBranchAfter := func(callee string) *ast.IfStmt {
		list := loop.Body.List
		for i, st := range list {
			// `err = f(…)` followed by `if err != nil {…}`
			if as, ok := st.(*ast.AssignStmt); ok && len(as.Rhs) == 1 && c03Callee(as.Rhs[0]) == callee {
				if i+1 < len(list) {
					if ifs, ok := list[i+1].(*ast.IfStmt); ok && strings.Contains(g.Src(ifs.Cond), "err != nil") {
						return ifs
					}
				}
				return nil
			}
			// `if err = f(…); err != nil {…}`
			if ifs, ok := st.(*ast.IfStmt); ok && ifs.Init != nil {
				if as, ok := ifs.Init.(*ast.AssignStmt); ok && len(as.Rhs) == 1 && c03Callee(as.Rhs[0]) == callee &&
					strings.Contains(g.Src(ifs.Cond), "err != nil") {
					return ifs
				}
			}
		}
		return nil
	}
	act := func(ifs *ast.IfStmt, dirty bool) string {
		if ifs == nil {
			return "no-error-branch"
		}
		return c03Action(g, ifs.Body.List, dirty)
	}
	rd := errBranchAfter("readCompactLogFile")
	g.P("/-- what the loop does when the reader reports an incomplete (dirty) log. -/")
	g.P("def procCompactLog_onDirty : String := %s", leanStr(act(rd, true)))
	g.P("/-- … and when the reader fails in any other way. -/")
	g.P("def procCompactLog_onOtherErr : String := %s", leanStr(act(rd, false)))
	pl := errBranchAfter("processLog")
	g.P("/-- … and when processLog fails (invalid log): falls through to the removal of the log. -/")
	g.P("def procCompactLog_onProcessErr : String := %s", leanStr(act(pl, false)))
	// is the log removed at the top level of the loop body, after processLog?
	removes := false
	seenProcess := false
	for _, st := range loop.Body.List {
		src := g.Src(st)
		if strings.Contains(src, "processLog(") {
			seenProcess = true
			continue
		}
		if seenProcess && strings.Contains(src, "fileops.Remove(logFile") {
			removes = true
		}
	}
	g.P("def procCompactLog_removesLogAfterProcess : Bool := %v", removes)
	last := "none"
	if n := len(fd.Body.List); n > 0 {
		last = g.Src(fd.Body.List[n-1])
	}
	g.P("def procCompactLog_lastStmt : String := %s", leanStr(last))
	g.P("/-- the loop goes on to the next log after a dirty one (used by OG.C03.Multi). -/")
	g.P("def dirtyLogSkipped : Bool := %v", act(rd, true) == "continue")

	// recoverFile: the error of procCompactLog
	const rel2 = "engine/immutable/mms_tables.go"
	fd, err = g.Func(rel2, "recoverFile")
	if err != nil {
		return err
	}
	var rf *ast.IfStmt
	ast.Inspect(fd.Body, func(n ast.Node) bool {
		cc, ok := n.(*ast.CaseClause)
		if !ok {
			return true
		}
		for i, st := range cc.Body {
			if as, ok := st.(*ast.AssignStmt); ok && len(as.Rhs) == 1 && c03Callee(as.Rhs[0]) == "procCompactLog" && i+1 < len(cc.Body) {
				if ifs, ok := cc.Body[i+1].(*ast.IfStmt); ok && strings.Contains(g.Src(ifs.Cond), "err != nil") {
					rf = ifs
				}
			}
		}
		return true
	})
	g.P("/-- recoverFile: what happens with a dirty-log error / another error returned by procCompactLog. -/")
	g.P("def recoverFile_onDirty : String := %s", leanStr(act(rf, true)))
	g.P("def recoverFile_onOtherErr : String := %s", leanStr(act(rf, false)))
	return nil
}

func c03Callee(e ast.Expr) string {
	call, ok := e.(*ast.CallExpr)
	if !ok {
		return ""
	}
	switch f := call.Fun.(type) {
	case *ast.Ident:
		return f.Name
	case *ast.SelectorExpr:
		return f.Sel.Name
	}
	return ""
}

// c03Action runs a statement list abstractly for an error value that is (dirty) or is not
// ErrDirtyLog and returns the first control transfer: "continue", "break", "return <expr>",
// "fallthrough" (the list ends), "unknown:<cond>" (a condition it cannot decide). Statements
// that are not `if` / control transfers (logging, assignments) are skipped.
func c03Action(g *Gen, list []ast.Stmt, dirty bool) string {
	for _, st := range list {
		switch s := st.(type) {
		case *ast.BranchStmt:
			return s.Tok.String()
		case *ast.ReturnStmt:
			var rs []string
			for _, r := range s.Results {
				rs = append(rs, g.Src(r))
			}
			return strings.TrimSpace("return " + strings.Join(rs, ", "))
		case *ast.IfStmt:
			cond := strings.ReplaceAll(g.Src(s.Cond), " ", "")
			var v, known bool
			switch cond {
			case "err!=ErrDirtyLog", "!errors.Is(err,ErrDirtyLog)":
				v, known = !dirty, true
			case "err==ErrDirtyLog", "errors.Is(err,ErrDirtyLog)":
				v, known = dirty, true
			}
			if !known {
				return "unknown:" + cond
			}
			var r string
			if v {
				r = c03Action(g, s.Body.List, dirty)
			} else if s.Else != nil {
				if b, ok := s.Else.(*ast.BlockStmt); ok {
					r = c03Action(g, b.List, dirty)
				} else {
					r = c03Action(g, []ast.Stmt{s.Else}, dirty)
				}
			} else {
				r = "fallthrough"
			}
			if r != "fallthrough" {
				return r
			}
		}
	}
	return "fallthrough"
}

// c03Calls lists, in source order, the calls of a function body whose callee name is in vocab,
// skipping the bodies of error branches (`if err != nil`, `if e != nil`, `if !ok …`), deferred
// calls and function literals passed to `defer`.
func c03Calls(g *Gen, body *ast.BlockStmt, vocab []string) []string {
	in := map[string]bool{}
	for _, v := range vocab {
		in[v] = true
	}
	var out []string
	var walk func(n ast.Node)
	walk = func(n ast.Node) {
		ast.Inspect(n, func(x ast.Node) bool {
			switch s := x.(type) {
			case *ast.DeferStmt:
				return false
			case *ast.IfStmt:
				cond := g.Src(s.Cond)
				if s.Init != nil {
					walk(s.Init)
				}
				walk(s.Cond)
				errBranch := strings.Contains(cond, "err != nil") || strings.Contains(cond, "e != nil") || strings.HasPrefix(cond, "!ok")
				if !errBranch {
					walk(s.Body)
				}
				if s.Else != nil {
					walk(s.Else)
				}
				return false
			case *ast.CallExpr:
				name := ""
				switch f := s.Fun.(type) {
				case *ast.Ident:
					name = f.Name
				case *ast.SelectorExpr:
					name = f.Sel.Name
				}
				if in[name] {
					// arguments first (evaluation order), then the call itself
					for _, a := range s.Args {
						walk(a)
					}
					if sel, ok := s.Fun.(*ast.SelectorExpr); ok {
						walk(sel.X)
					}
					out = append(out, name)
					return false
				}
			}
			return true
		})
	}
	walk(body)
	return out
}

// c03NoLog prints a body without its logging statements (log.X(…), m.logger.X(…), lg.X(…)),
// so that a changed message does not count as a changed shape.
func c03NoLog(g *Gen, body *ast.BlockStmt) string {
	isLog := func(s ast.Stmt) bool {
		es, ok := s.(*ast.ExprStmt)
		if !ok {
			return false
		}
		call, ok := es.X.(*ast.CallExpr)
		if !ok {
			return false
		}
		sel, ok := call.Fun.(*ast.SelectorExpr)
		if !ok {
			return false
		}
		recv := g.Src(sel.X)
		return recv == "log" || strings.HasSuffix(recv, ".logger") || recv == "lg" || strings.HasSuffix(recv, ".lg")
	}
	var strip func(b *ast.BlockStmt) *ast.BlockStmt
	stripStmt := func(s ast.Stmt) ast.Stmt { return s }
	strip = func(b *ast.BlockStmt) *ast.BlockStmt {
		if b == nil {
			return nil
		}
		nb := &ast.BlockStmt{Lbrace: b.Lbrace, Rbrace: b.Rbrace}
		for _, s := range b.List {
			if isLog(s) {
				continue
			}
			nb.List = append(nb.List, stripStmt(s))
		}
		return nb
	}
	stripStmt = func(s ast.Stmt) ast.Stmt {
		switch x := s.(type) {
		case *ast.IfStmt:
			c := *x
			c.Body = strip(x.Body)
			if x.Else != nil {
				c.Else = stripStmt(x.Else)
			}
			return &c
		case *ast.BlockStmt:
			return strip(x)
		case *ast.ForStmt:
			c := *x
			c.Body = strip(x.Body)
			return &c
		case *ast.RangeStmt:
			c := *x
			c.Body = strip(x.Body)
			return &c
		}
		return s
	}
	return g.Src(strip(body))
}

// c03RangeUpdates lists, in source order, every assignment to a `….minTime` / `….maxTime` field
// of the meta-index entry being filled (`mIndex`) or of the trailer, with the condition of the
// innermost enclosing `if` ("" = unconditional): (condition, assignment).
func c03RangeUpdates(g *Gen, body *ast.BlockStmt) [][2]string {
	var out [][2]string
	var walk func(n ast.Node, cond string)
	walk = func(n ast.Node, cond string) {
		switch s := n.(type) {
		case *ast.BlockStmt:
			for _, st := range s.List {
				walk(st, cond)
			}
		case *ast.IfStmt:
			walk(s.Body, g.Src(s.Cond))
			if s.Else != nil {
				walk(s.Else, "!("+g.Src(s.Cond)+")")
			}
		case *ast.ForStmt:
			walk(s.Body, cond)
		case *ast.RangeStmt:
			walk(s.Body, cond)
		case *ast.AssignStmt:
			for _, l := range s.Lhs {
				lhs := g.Src(l)
				if (strings.HasSuffix(lhs, ".minTime") || strings.HasSuffix(lhs, ".maxTime")) &&
					(strings.Contains(lhs, "mIndex") || strings.Contains(lhs, "trailer")) {
					out = append(out, [2]string{cond, g.Src(s)})
				}
			}
		}
	}
	walk(body, "")
	return out
}

// c03BlockUpd classifies how the block range is widened after its initialisation: "own" (by
// comparisons with the block's own range), "withTrailer" (inside the trailer's comparisons),
// "other".
func c03BlockUpd(ups [][2]string) string {
	kind := func(field string) string {
		k := ""
		for _, u := range ups {
			lhs := strings.TrimSpace(strings.SplitN(u[1], "=", 2)[0])
			if !strings.Contains(lhs, "mIndex") || !strings.HasSuffix(lhs, field) {
				continue
			}
			cond := strings.ReplaceAll(u[0], " ", "")
			var this string
			switch {
			case strings.HasSuffix(cond, "mIndex.count==0"):
				continue // initialisation by the first chunk of the block
			case strings.Contains(cond, "mIndex."+field) && !strings.Contains(cond, "trailer"):
				this = "own"
			case strings.Contains(cond, "trailer."+field):
				this = "withTrailer"
			default:
				this = "other"
			}
			if k == "" {
				k = this
			} else if k != this {
				k = "other"
			}
		}
		if k == "" {
			k = "other"
		}
		return k
	}
	a, b := kind("minTime"), kind("maxTime")
	if a == b {
		return a
	}
	return "other"
}
