package main

import (
	"fmt"
	"go/ast"
	"strconv"
	"strings"
)

func init() { register("C03", genC03) }

// genC03 regenerates what the replace-protocol model (OG.C03.Model) is written against:
//
//   - the name constants (`.init` suffix, `.tssp` suffix, log trailer, directory names);
//   - the *order of the protocol steps* as call sequences (main path only: the bodies of
//     `if err != nil {…}` / `if … == nil {…}` error branches are skipped) of
//     MmsTables.ReplaceFiles, the three merge drivers, compactToLevel, procCompactLog,
//     processFiles, MmsTables.Open, deleteFiles / removeFile; the model's step lists are built
//     from `calls_ReplaceFiles`, so a reordered protocol changes the model the theorems are
//     about;
//   - whether processLog selects the directory by the log's IsOrder flag
//     (`processLogHonoursIsOrder`, used by the model as its `fixed` parameter), plus the
//     source text of processLog, getProcessLogFuncs, readCompactLogFile's return shapes, the
//     loader's switch on the file extension, removeTmpFile, IsTempleFile, TSSPFiles.Less and
//     the sort of the merge context.
func genC03(g *Gen) error {
	const dir = "engine/immutable/"
	g.Header(dir+"mms_tables.go", dir+"compaction_file_info.go", dir+"merge_tool.go", dir+"merge_out_of_order.go",
		dir+"ts_mms_tables.go", dir+"mms_loader.go", dir+"compact.go", dir+"tssp_reader.go", dir+"tssp_file_name.go", dir+"merge_util.go")
	g.GenNS()

	// ---- constants
	for _, c := range [][2]string{
		{dir + "tssp_reader.go", "tmpFileSuffix"},
		{dir + "tssp_reader.go", "tsspFileSuffix"},
		{dir + "tssp_reader.go", "unorderedDir"},
		{dir + "tssp_reader.go", "compactLogDir"},
	} {
		v, err := g.Const(c[0], c[1])
		if err != nil {
			return err
		}
		s, err := strconv.Unquote(v)
		if err != nil {
			return fmt.Errorf("constant %s is not a string literal: %s", c[1], v)
		}
		g.P("def %s : String := %s", c[1], leanStr(s))
	}
	magic, err := g.Const(dir+"compaction_file_info.go", "compLogMagic")
	if err != nil {
		return err
	}
	// []byte("2021A5A5")
	if i, j := strings.IndexByte(magic, '"'), strings.LastIndexByte(magic, '"'); i >= 0 && j > i {
		s, err := strconv.Unquote(magic[i : j+1])
		if err != nil {
			return err
		}
		g.P("def compLogMagic : String := %s", leanStr(s))
	} else {
		return fmt.Errorf("compLogMagic: unexpected initialiser %s", magic)
	}
	g.P("")

	// ---- call sequences
	seqs := []struct {
		rel, fn, lean string
		vocab        []string
	}{
		{dir + "mms_tables.go", "MmsTables.ReplaceFiles", "calls_ReplaceFiles", []string{"writeCompactedFileInfo", "RenameTmpFiles", "deleteFiles", "Remove"}},
		{dir + "mms_tables.go", "RenameTmpFiles", "calls_RenameTmpFiles", []string{"Rename", "Remove"}},
		{dir + "compact.go", "MmsTables.deleteFiles", "calls_deleteFiles", []string{"Inuse", "Rename", "Remove"}},
		{dir + "merge_out_of_order.go", "MmsTables.removeFile", "calls_removeFile", []string{"Inuse", "Rename", "Remove"}},
		{dir + "merge_out_of_order.go", "MmsTables.deleteUnorderedFiles", "calls_deleteUnorderedFiles", []string{"deleteFile", "removeFile"}},
		{dir + "merge_out_of_order.go", "MmsTables.replaceMergedFiles", "calls_replaceMergedFiles", []string{"ReplaceFiles", "deleteUnorderedFiles"}},
		{dir + "merge_tool.go", "mergeTool.merge", "calls_merge", []string{"execute", "ReplaceFiles", "replaceMergedFiles", "deleteUnorderedFiles"}},
		{dir + "merge_tool.go", "mergeTool.mergeSelfStreamMode", "calls_mergeSelfStreamMode", []string{"execute", "ReplaceFiles", "replaceMergedFiles", "deleteUnorderedFiles"}},
		{dir + "merge_tool.go", "mergeTool.mergeSelfFastMode", "calls_mergeSelfFastMode", []string{"Merge", "ReplaceFiles", "deleteUnorderedFiles"}},
		{dir + "merge_tool.go", "mergeTool.getTSSPFiles", "calls_getTSSPFiles", []string{"Sort", "getFilesByPath"}},
		{dir + "ts_mms_tables.go", "tsImmTableImpl.compactToLevel", "calls_compactToLevel", []string{"compact", "ReplaceFiles", "RemoveTmpFiles"}},
		{dir + "compaction_file_info.go", "procCompactLog", "calls_procCompactLog", []string{"readCompactLogFile", "processLog", "Remove"}},
		{dir + "compaction_file_info.go", "processFiles", "calls_processFiles", []string{"renameFile", "oldFileExist", "Stat", "Remove"}},
		{dir + "compaction_file_info.go", "MmsTables.writeCompactedFileInfo", "calls_writeCompactedFileInfo", []string{"OpenFile", "Write", "Sync", "Close"}},
		{dir + "mms_tables.go", "MmsTables.Open", "calls_Open", []string{"recoverFile", "doLoad"}},
		{dir + "mms_tables.go", "recoverFile", "calls_recoverFile", []string{"procCompactLog"}},
	}
	for _, s := range seqs {
		fd, err := g.Func(s.rel, s.fn)
		if err != nil {
			return err
		}
		g.StrList(s.lean, c03Calls(g, fd.Body, s.vocab))
	}
	g.P("")

	// ---- processLog: directory selection
	fd, err := g.Func(dir+"compaction_file_info.go", "processLog")
	if err != nil {
		return err
	}
	honours := false
	ast.Inspect(fd.Body, func(n ast.Node) bool {
		ifs, ok := n.(*ast.IfStmt)
		if !ok {
			return true
		}
		if g.Src(ifs.Cond) == "!info.IsOrder" && len(ifs.Body.List) == 1 &&
			g.Src(ifs.Body.List[0]) == "mmDir = filepath.Join(mmDir, unorderedDir)" && ifs.Else == nil {
			honours = true
		}
		return true
	})
	g.P("/-- processLog reads the out-of-order sub-directory for a log written with IsOrder = false. -/")
	g.P("def processLogHonoursIsOrder : Bool := %v", honours)
	g.P("def src_processLog : String := %s", leanStr(c03NoLog(g, fd.Body)))
	for _, f := range []struct{ rel, fn, lean string }{
		{dir + "compaction_file_info.go", "getProcessLogFuncs", "src_getProcessLogFuncs"},
		{dir + "compaction_file_info.go", "processFiles", "src_processFiles"},
		{dir + "compaction_file_info.go", "procCompactLog", "src_procCompactLog"},
		{dir + "mms_loader.go", "fileLoader.removeTmpFile", "src_removeTmpFile"},
		{dir + "tssp_file_name.go", "IsTempleFile", "src_IsTempleFile"},
		{dir + "tssp_reader.go", "TSSPFiles.Less", "src_TSSPFilesLess"},
		{dir + "merge_util.go", "mergeFileInfo.Less", "src_mergeFileInfoLess"},
		{dir + "compact.go", "MmsTables.deleteFiles", "src_deleteFiles"},
		{dir + "merge_out_of_order.go", "MmsTables.removeFile", "src_removeFile"},
	} {
		fd, err := g.Func(f.rel, f.fn)
		if err != nil {
			return err
		}
		g.P("def %s : String := %s", f.lean, leanStr(c03NoLog(g, fd.Body)))
	}
	rets, err := g.Returns(dir+"compaction_file_info.go", "readCompactLogFile")
	if err != nil {
		return err
	}
	g.StrList("returns_readCompactLogFile", rets)
	rows, err := g.SwitchTable(dir+"mms_loader.go", "fileLoader.Load")
	if err != nil {
		return err
	}
	g.PairList("loaderSwitch", rows)
	g.Footer()
	return nil
}

// c03Calls lists, in source order, the calls of a function body whose callee name is in vocab,
// skipping the bodies of error branches (`if err != nil`, `if e != nil`, `if !ok …`), deferred
// calls and function literals passed to `defer`.
func c03Calls(g *Gen, body *ast.BlockStmt, vocab []string) []string {
	in := map[string]bool{}
	for _, v := range vocab {
		in[v] = true
	}
	var out []string
	var walk func(n ast.Node)
	walk = func(n ast.Node) {
		ast.Inspect(n, func(x ast.Node) bool {
			switch s := x.(type) {
			case *ast.DeferStmt:
				return false
			case *ast.IfStmt:
				cond := g.Src(s.Cond)
				if s.Init != nil {
					walk(s.Init)
				}
				walk(s.Cond)
				errBranch := strings.Contains(cond, "err != nil") || strings.Contains(cond, "e != nil") || strings.HasPrefix(cond, "!ok")
				if !errBranch {
					walk(s.Body)
				}
				if s.Else != nil {
					walk(s.Else)
				}
				return false
			case *ast.CallExpr:
				name := ""
				switch f := s.Fun.(type) {
				case *ast.Ident:
					name = f.Name
				case *ast.SelectorExpr:
					name = f.Sel.Name
				}
				if in[name] {
					// arguments first (evaluation order), then the call itself
					for _, a := range s.Args {
						walk(a)
					}
					if sel, ok := s.Fun.(*ast.SelectorExpr); ok {
						walk(sel.X)
					}
					out = append(out, name)
					return false
				}
			}
			return true
		})
	}
	walk(body)
	return out
}

// c03NoLog prints a body without its logging statements (log.X(…), m.logger.X(…), lg.X(…)),
// so that a changed message does not count as a changed shape.
func c03NoLog(g *Gen, body *ast.BlockStmt) string {
	isLog := func(s ast.Stmt) bool {
		es, ok := s.(*ast.ExprStmt)
		if !ok {
			return false
		}
		call, ok := es.X.(*ast.CallExpr)
		if !ok {
			return false
		}
		sel, ok := call.Fun.(*ast.SelectorExpr)
		if !ok {
			return false
		}
		recv := g.Src(sel.X)
		return recv == "log" || strings.HasSuffix(recv, ".logger") || recv == "lg" || strings.HasSuffix(recv, ".lg")
	}
	var strip func(b *ast.BlockStmt) *ast.BlockStmt
	stripStmt := func(s ast.Stmt) ast.Stmt { return s }
	strip = func(b *ast.BlockStmt) *ast.BlockStmt {
		if b == nil {
			return nil
		}
		nb := &ast.BlockStmt{Lbrace: b.Lbrace, Rbrace: b.Rbrace}
		for _, s := range b.List {
			if isLog(s) {
				continue
			}
			nb.List = append(nb.List, stripStmt(s))
		}
		return nb
	}
	stripStmt = func(s ast.Stmt) ast.Stmt {
		switch x := s.(type) {
		case *ast.IfStmt:
			c := *x
			c.Body = strip(x.Body)
			if x.Else != nil {
				c.Else = stripStmt(x.Else)
			}
			return &c
		case *ast.BlockStmt:
			return strip(x)
		case *ast.ForStmt:
			c := *x
			c.Body = strip(x.Body)
			return &c
		case *ast.RangeStmt:
			c := *x
			c.Body = strip(x.Body)
			return &c
		}
		return s
	}
	return g.Src(strip(body))
}
