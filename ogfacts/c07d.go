package main

import (
	"fmt"
	"go/ast"
	"go/constant"
	"strings"
)

// C07 — facts for the metadata codecs (lib/codec scaled int64 lists, chunk meta in both
// layouts, meta index, trailer) and the record / wire codecs: the scale table, canonical text
// of the small arithmetic functions, the field lists of the marshalled structures (a field added
// to a structure but not to its codec shows up here) and fingerprints of the transcribed bodies.
func genC07Meta(g *Gen) error {
	const (
		cdc    = "lib/codec/codec.go"
		benc   = "lib/codec/binary_encoder.go"
		bdec   = "lib/codec/binary_decoder.go"
		fmeta  = "engine/immutable/tssp_file_meta.go"
		cmc    = "engine/immutable/chunk_meta_codec.go"
		trl    = "engine/immutable/trailer.go"
		tstat  = "engine/immutable/table_stat.go"
		recCol = "lib/record/column.go"
	)
	g.P("")
	g.P("/-! ## metadata codecs -/")
	// scales = [4]int64{1, 1e3, 1e6, 1e9}
	{
		f, err := g.Parse(cdc)
		if err != nil {
			return err
		}
		var vals []string
		ast.Inspect(f, func(n ast.Node) bool {
			vs, ok := n.(*ast.ValueSpec)
			if !ok || len(vs.Names) != 1 || vs.Names[0].Name != "scales" || len(vs.Values) != 1 {
				return true
			}
			cl, ok := vs.Values[0].(*ast.CompositeLit)
			if !ok {
				return true
			}
			for _, e := range cl.Elts {
				v, err := constEval(e, nil)
				if err != nil {
					vals = nil
					return false
				}
				iv := constant.ToInt(v)
				if iv.Kind() != constant.Int || constant.Sign(iv) <= 0 {
					vals = nil
					return false
				}
				vals = append(vals, iv.ExactString())
			}
			return false
		})
		if len(vals) == 0 {
			return fmt.Errorf("%s: scales table not found or not positive integers", cdc)
		}
		g.P("def codecScales : List Nat := %s", natList(vals))
	}
	for _, f := range [][3]string{
		{cdc, "scale", "src_codecScale"},
		{cdc, "findScaleIdx", "src_findScaleIdx"},
		{cdc, "EncodeInt64sWithScale", "src_encodeInt64sWithScale"},
		{cdc, "DecodeInt64sWithScale", "src_decodeInt64sWithScale"},
		{benc, "AppendInt64WithScale", "src_appendInt64WithScale"},
		{bdec, "DecodeInt64WithScale", "src_decodeInt64WithScale"},
		{fmeta, "ChunkMeta.marshal", "src_chunkMetaMarshal"},
		{fmeta, "ColumnMeta.marshal", "src_columnMetaMarshal"},
		{fmeta, "Segment.marshal", "src_segmentMarshal"},
		{fmeta, "SegmentRange.marshal", "src_segmentRangeMarshal"},
		{fmeta, "MetaIndex.marshal", "src_metaIndexMarshal"},
		{fmeta, "MetaIndex.marshalDetached", "src_metaIndexMarshalDetached"},
		{cmc, "MarshalChunkMeta", "src_marshalChunkMeta"},
		{cmc, "MarshalColumnMeta", "src_marshalColumnMeta"},
		{cmc, "MarshalTimeRange", "src_marshalTimeRange"},
		{trl, "Trailer.Marshal", "src_trailerMarshal"},
		{tstat, "TableStat.marshalStat", "src_marshalStat"},
	} {
		if err := g.srcDef(f[0], f[1], f[2]); err != nil {
			return err
		}
	}
	for _, s := range [][3]string{
		{fmeta, "ChunkMeta", "fields_ChunkMeta"},
		{fmeta, "ColumnMeta", "fields_ColumnMeta"},
		{fmeta, "Segment", "fields_Segment"},
		{fmeta, "MetaIndex", "fields_MetaIndex"},
		{trl, "Trailer", "fields_Trailer"},
		{tstat, "TableStat", "fields_TableStat"},
		{tstat, "ExtraData", "fields_ExtraData"},
		{recCol, "ColVal", "fields_ColVal"},
	} {
		fs, err := g.structFields(s[0], s[1])
		if err != nil {
			return err
		}
		g.StrList(s[2], fs)
	}
	for _, f := range [][3]string{
		{fmeta, "ChunkMeta.unmarshal", "fp_chunkMetaUnmarshal"},
		{fmeta, "ChunkMeta.unmarshalBaseAttr", "fp_chunkMetaUnmarshalBaseAttr"},
		{fmeta, "ChunkMeta.resize", "fp_chunkMetaResize"},
		{fmeta, "ChunkMeta.minBytes", "fp_chunkMetaMinBytes"},
		{fmeta, "ColumnMeta.unmarshal", "fp_columnMetaUnmarshal"},
		{fmeta, "ColumnMeta.unmarshalEntries", "fp_columnMetaUnmarshalEntries"},
		{fmeta, "ColumnMeta.unmarshalPreagg", "fp_columnMetaUnmarshalPreagg"},
		{fmeta, "ColumnMeta.unmarshalName", "fp_columnMetaUnmarshalName"},
		{fmeta, "ColumnMeta.bytes", "fp_columnMetaBytes"},
		{fmeta, "Segment.unmarshal", "fp_segmentUnmarshal"},
		{fmeta, "SegmentRange.unmarshal", "fp_segmentRangeUnmarshal"},
		{fmeta, "MetaIndex.unmarshal", "fp_metaIndexUnmarshal"},
		{fmeta, "MetaIndex.unmarshalDetached", "fp_metaIndexUnmarshalDetached"},
		{cmc, "UnmarshalChunkMeta", "fp_unmarshalChunkMeta"},
		{cmc, "UnmarshalChunkMetaBaseAttr", "fp_unmarshalChunkMetaBaseAttr"},
		{cmc, "UnmarshalTimeRange", "fp_unmarshalTimeRange"},
		{cmc, "UnmarshalColumnMeta", "fp_unmarshalColumnMeta"},
		{cmc, "UnmarshalColumnMetaWithoutName", "fp_unmarshalColumnMetaWithoutName"},
		{cmc, "UnmarshalColumnName", "fp_unmarshalColumnName"},
		{cmc, "columnMetaMinSize", "fp_columnMetaMinSize"},
		{cmc, "ChunkMetaCodecCtx.GetIndex", "fp_codecCtxGetIndex"},
		{cmc, "ChunkMetaCodecCtx.GetValue", "fp_codecCtxGetValue"},
		{cmc, "ChunkMetaHeader.Marshal", "fp_chunkMetaHeaderMarshal"},
		{cmc, "ChunkMetaHeader.Unmarshal", "fp_chunkMetaHeaderUnmarshal"},
		{cmc, "ChunkMetaHeader.GetValue", "fp_chunkMetaHeaderGetValue"},
		{trl, "Trailer.Unmarshal", "fp_trailerUnmarshal"},
		{tstat, "TableStat.unmarshalStat", "fp_unmarshalStat"},
		{tstat, "ExtraData.MarshalExtraData", "fp_marshalExtraData"},
		{tstat, "ExtraData.UnmarshalExtraData", "fp_unmarshalExtraData"},
		{tstat, "ExtraData.unmarshalFlag", "fp_unmarshalFlag"},
		{tstat, "ExtraData.unmarshalHeader", "fp_unmarshalHeader"},
		{benc, "AppendString", "fp_codecAppendString"},
		{bdec, "BinaryDecoder.String", "fp_codecDecString"},
		{bdec, "BinaryDecoder.Uvarint", "fp_codecDecUvarint"},
	} {
		if err := g.fpDef(f[0], f[1], f[2]); err != nil {
			return err
		}
	}
	return nil
}

// structFields lists `name type` of every field of a struct declaration, embedded ones as
// their type name.
func (g *Gen) structFields(rel, name string) ([]string, error) {
	f, err := g.Parse(rel)
	if err != nil {
		return nil, err
	}
	var out []string
	found := false
	ast.Inspect(f, func(n ast.Node) bool {
		ts, ok := n.(*ast.TypeSpec)
		if !ok || ts.Name.Name != name {
			return true
		}
		st, ok := ts.Type.(*ast.StructType)
		if !ok {
			return true
		}
		found = true
		for _, fl := range st.Fields.List {
			t := g.Src(fl.Type)
			if len(fl.Names) == 0 {
				out = append(out, t)
			}
			for _, nm := range fl.Names {
				out = append(out, nm.Name+" "+t)
			}
		}
		return false
	})
	if !found {
		return nil, fmt.Errorf("%s: struct %s not found", rel, name)
	}
	_ = strings.Join
	return out, nil
}

// genC07Wire: wire codecs built on lib/codec (records, msgservice messages, raft log payload).
func genC07Wire(g *Gen) error {
	const (
		benc  = "lib/codec/binary_encoder.go"
		bdec  = "lib/codec/binary_decoder.go"
		rcod  = "lib/record/record_codec.go"
		ccod  = "lib/record/column_codec.go"
		scod  = "lib/record/schema_codec.go"
		msg   = "lib/msgservice/message.go"
		dw    = "lib/raftlog/datawrapper.go"
		vmenc = "lib/util/lifted/VictoriaMetrics/lib/encoding/int.go"
	)
	g.P("")
	g.P("/-! ## wire codecs -/")
	for _, f := range [][3]string{
		{rcod, "Record.Marshal", "src_recordMarshal"},
		{rcod, "Record.CodecSize", "src_recordCodecSize"},
		{ccod, "ColVal.Marshal", "src_colValMarshal"},
		{ccod, "ColVal.Size", "src_colValSize"},
		{scod, "Field.Marshal", "src_fieldMarshal"},
		{scod, "Field.Size", "src_fieldSize"},
		{msg, "WritePointsResponse.Marshal", "src_writePointsResponseMarshal"},
		{msg, "WriteBlobsResponse.Marshal", "src_writeBlobsResponseMarshal"},
		{msg, "WriteStreamPointsResponse.Marshal", "src_writeStreamPointsResponseMarshal"},
		{msg, "StreamVar.Marshal", "src_streamVarMarshal"},
		{msg, "WriteStreamPointsRequest.Marshal", "src_writeStreamPointsRequestMarshal"},
		{dw, "DataWrapper.Marshal", "src_dataWrapperMarshal"},
		{dw, "Unmarshal", "src_dataWrapperUnmarshal"},
		{benc, "AppendString", "src_appendString"},
		{benc, "AppendBytes", "src_appendBytes"},
		{benc, "AppendUint32SliceSafe", "src_appendUint32SliceSafe"},
		{benc, "AppendUint64Slice", "src_appendUint64Slice"},
		{benc, "AppendInt", "src_appendInt"},
		{benc, "AppendInt64", "src_appendInt64"},
		{vmenc, "MarshalInt64", "src_vmMarshalInt64"},
		{vmenc, "UnmarshalInt64", "src_vmUnmarshalInt64"},
	} {
		if err := g.srcDef(f[0], f[1], f[2]); err != nil {
			return err
		}
	}
	for _, s := range [][3]string{
		{"lib/record/record.go", "Record", "fields_Record"},
		{"lib/record/schema.go", "Field", "fields_Field"},
		{msg, "WritePointsResponse", "fields_WritePointsResponse"},
		{msg, "StreamVar", "fields_StreamVar"},
		{msg, "WriteStreamPointsRequest", "fields_WriteStreamPointsRequest"},
		{dw, "DataWrapper", "fields_DataWrapper"},
	} {
		fs, err := g.structFields(s[0], s[1])
		if err != nil {
			return err
		}
		g.StrList(s[2], fs)
	}
	for _, f := range [][3]string{
		{rcod, "Record.Unmarshal", "fp_recordUnmarshal"},
		{ccod, "ColVal.Unmarshal", "fp_colValUnmarshal"},
		{scod, "Field.Unmarshal", "fp_fieldUnmarshal"},
		{msg, "WritePointsResponse.Unmarshal", "fp_writePointsResponseUnmarshal"},
		{msg, "WriteBlobsResponse.Unmarshal", "fp_writeBlobsResponseUnmarshal"},
		{msg, "WriteStreamPointsResponse.Unmarshal", "fp_writeStreamPointsResponseUnmarshal"},
		{msg, "StreamVar.Unmarshal", "fp_streamVarUnmarshal"},
		{msg, "StreamVar.Size", "fp_streamVarSize"},
		{msg, "WriteStreamPointsRequest.Unmarshal", "fp_writeStreamPointsRequestUnmarshal"},
		{bdec, "BinaryDecoder.Int", "fp_decInt"},
		{bdec, "BinaryDecoder.Bool", "fp_decBool"},
		{bdec, "BinaryDecoder.Uint32", "fp_decUint32"},
		{bdec, "BinaryDecoder.BytesNoCopy", "fp_decBytesNoCopy"},
		{bdec, "BinaryDecoder.Bytes", "fp_decBytes"},
		{bdec, "BinaryDecoder.Uint32SliceLE", "fp_decUint32SliceLE"},
		{bdec, "BinaryDecoder.Uint64Slice", "fp_decUint64Slice"},
	} {
		if err := g.fpDef(f[0], f[1], f[2]); err != nil {
			return err
		}
	}
	return nil
}

// genC07PreAgg: the pre-aggregation blocks. The three length tests that keep the block forms
// apart — "is the variable-length form kept" in marshal, "is this the variable-length form" in
// unmarshal, and PreAggOnlyOneRow — are *translated* (the model uses them, preagg_roundtrip is
// re-proved against them); the bodies are pinned.
func genC07PreAgg(g *Gen) error {
	const pa = "engine/immutable/pre_aggregation.go"
	g.P("")
	g.P("/-! ## pre-aggregation blocks -/")
	t := &Tr{g: g}
	t.Ident = func(name string) string {
		switch name {
		case "size":
			return "size0"
		}
		return ""
	}
	t.Call = func(fun, method, recv string, args []string) string {
		switch {
		case fun == "len" && len(args) == 1 && args[0] == "dst":
			return "dstLen"
		case fun == "len" && len(args) == 1 && args[0] == "src":
			return "srcLen"
		case fun == "len" && len(args) == 1 && args[0] == "buf":
			return "bufLen"
		case method == "size" && len(args) == 0:
			return "fixedSize"
		}
		return ""
	}
	// the `if <cond> { return dst }` that keeps the variable-length form, and the
	// `if <cond> { return m.VLCDecode(src) }` that reads it
	cond := func(fn, bodyHas string) (string, error) {
		fd, err := g.Func(pa, fn)
		if err != nil {
			return "", err
		}
		var found []ast.Expr
		ast.Inspect(fd.Body, func(n ast.Node) bool {
			ifs, ok := n.(*ast.IfStmt)
			if !ok || ifs.Init != nil || ifs.Else != nil || len(ifs.Body.List) != 1 {
				return true
			}
			if strings.Contains(g.Src(ifs.Cond), "m.size()") && g.Src(ifs.Body.List[0]) == bodyHas {
				found = append(found, ifs.Cond)
			}
			return true
		})
		if len(found) != 1 {
			return "", fmt.Errorf("%s %s: expected exactly one `if … m.size() … { %s }`, found %d", pa, fn, bodyHas, len(found))
		}
		return t.expr(found[0])
	}
	for _, ty := range []string{"Integer", "Float"} {
		low := strings.ToLower(ty[:1]) + ty[1:]
		c, err := cond(ty+"PreAgg.marshal", "return dst")
		if err != nil {
			return err
		}
		g.P("/-- `%sPreAgg.marshal`: the variable-length form (`dstLen - size0` bytes) is kept -/", ty)
		g.P("def %sPreAggKeepVLC (dstLen size0 fixedSize : Nat) : Bool :=\n  %s\n", low, c)
		c, err = cond(ty+"PreAgg.unmarshal", "return m.VLCDecode(src)")
		if err != nil {
			return err
		}
		g.P("/-- `%sPreAgg.unmarshal`: the block is read as the variable-length form -/", ty)
		g.P("def %sPreAggReadVLC (srcLen fixedSize : Nat) : Bool :=\n  %s\n", low, c)
	}
	if err := t.Method(pa, "PreAggOnlyOneRow", "preAggOnlyOneRow", "(bufLen : Nat)", "Bool"); err != nil {
		return err
	}
	for _, f := range [][3]string{
		{pa, "IntegerPreAgg.marshal", "src_intPreAggMarshal"},
		{pa, "IntegerPreAgg.unmarshal", "src_intPreAggUnmarshal"},
		{pa, "IntegerPreAgg.VLCEncode", "src_intPreAggVLCEncode"},
		{pa, "IntegerPreAgg.VLCDecode", "src_intPreAggVLCDecode"},
		{pa, "IntegerPreAgg.size", "src_intPreAggSize"},
		{pa, "FloatPreAgg.marshal", "src_floatPreAggMarshal"},
		{pa, "FloatPreAgg.unmarshal", "src_floatPreAggUnmarshal"},
		{pa, "FloatPreAgg.VLCEncode", "src_floatPreAggVLCEncode"},
		{pa, "FloatPreAgg.VLCDecode", "src_floatPreAggVLCDecode"},
		{pa, "BooleanPreAgg.marshal", "src_boolPreAggMarshal"},
		{pa, "BooleanPreAgg.unmarshal", "src_boolPreAggUnmarshal"},
		{pa, "StringPreAgg.marshal", "src_stringPreAggMarshal"},
		{pa, "StringPreAgg.unmarshal", "src_stringPreAggUnmarshal"},
		{pa, "TimePreAgg.marshal", "src_timePreAggMarshal"},
		{pa, "TimePreAgg.unmarshal", "src_timePreAggUnmarshal"},
		{pa, "DecodeAggTimes", "src_decodeAggTimes"},
	} {
		if err := g.srcDef(f[0], f[1], f[2]); err != nil {
			return err
		}
	}
	// (the body of FloatPreAgg.size mentions package unsafe, a word the proof-source audit forbids)
	if err := g.fpDef(pa, "FloatPreAgg.size", "fp_floatPreAggSize"); err != nil {
		return err
	}
	for _, s := range [][3]string{
		{pa, "IntegerPreAgg", "fields_IntegerPreAgg"},
		{pa, "FloatPreAgg", "fields_FloatPreAgg"},
		{pa, "BooleanPreAgg", "fields_BooleanPreAgg"},
		{pa, "StringPreAgg", "fields_StringPreAgg"},
		{pa, "TimePreAgg", "fields_TimePreAgg"},
	} {
		fs, err := g.structFields(s[0], s[1])
		if err != nil {
			return err
		}
		g.StrList(s[2], fs)
	}
	// minIndex … countIndex = iota order
	f, err := g.Parse(pa)
	if err != nil {
		return err
	}
	var names []string
	for _, d := range f.Decls {
		gd, ok := d.(*ast.GenDecl)
		if !ok || len(gd.Specs) == 0 {
			continue
		}
		first, ok := gd.Specs[0].(*ast.ValueSpec)
		if !ok || len(first.Names) != 1 || first.Names[0].Name != "minIndex" {
			continue
		}
		for _, sp := range gd.Specs {
			names = append(names, sp.(*ast.ValueSpec).Names[0].Name)
		}
	}
	if len(names) == 0 {
		return fmt.Errorf("%s: minIndex … constants not found", pa)
	}
	g.StrList("preAggIndexNames", names)
	return nil
}
