module verif/ogfacts

go 1.23
