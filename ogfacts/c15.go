package main

import (
	"fmt"
	"go/ast"
	"go/token"
	"os"
	"path/filepath"
	"sort"
	"strings"
)

// C15 — field-coverage table of the catalogue's snapshot path.
//
// For meta.Data and every struct reachable from it: one row per field with
//   - the protobuf fields its value flows to in marshal      (marshalTo)
//   - the protobuf fields its value is rebuilt from in unmarshal (unmarshalFrom)
//   - how clone treats it (deep | copy | afterReturn:* | none | byValue)
// extracted from the working tree by a light data-flow walk over the three functions.
// The Lean side defines snapshot/restore/clone of its model *from this table* and proves
// `restore (snapshot d) = d` by a `decide` over it.

func init() { register("C15", genC15) }

const metaDir = "lib/util/lifted/influx/meta/"

type fnRef struct {
	file string // relative to repo
	fn   string // "Recv.Name" or "Name"
	recv string // expression text standing for the struct value ("" = receiver name)
	lit  string // unmarshal only: the struct is built by a composite literal of this type
	ctx  string // marshal only: every pb field written in fn is attributed to this field
}

type structCfg struct {
	name      string
	file      string // where the type is declared (relative)
	marshal   []fnRef
	unmarshal []fnRef
	clone     []fnRef
}

func c15Structs() []structCfg {
	m := func(f string) string { return metaDir + f }
	std := func(name, file, mar, unmar, clone string) structCfg {
		c := structCfg{name: name, file: m(file)}
		if mar != "" {
			c.marshal = []fnRef{{file: m(file), fn: name + "." + mar}}
		}
		if unmar != "" {
			c.unmarshal = []fnRef{{file: m(file), fn: name + "." + unmar}}
		}
		if clone != "" {
			c.clone = []fnRef{{file: m(file), fn: name + "." + clone}}
		}
		return c
	}
	data := std("Data", "data.go", "MarshalBase", "Unmarshal", "Clone")
	data.marshal = append(data.marshal, fnRef{file: m("data.go"), fn: "Data.Marshal"})
	mst := std("MeasurementInfo", "measurement.go", "marshal", "unmarshal", "clone")
	mst.marshal = append(mst.marshal, fnRef{file: m("measurement.go"), fn: "CleanSchema.Marshal", ctx: "Schema"})
	mst.unmarshal = append(mst.unmarshal, fnRef{file: m("measurement.go"), fn: "UnmarshalCleanSchema", recv: "msti"})
	return []structCfg{
		data,
		std("NodeInfo", "nodeinfo.go", "marshal", "unmarshal", "clone"),
		std("DataNode", "nodeinfo.go", "marshal", "unmarshal", ""),
		std("PtInfo", "database.go", "Marshal", "unmarshal", ""),
		std("PtOwner", "database.go", "marshal", "unmarshal", "clone"),
		std("DatabaseInfo", "database.go", "marshal", "unmarshal", "clone"),
		std("RetentionPolicyInfo", "retentionpolicy.go", "Marshal", "unmarshal", "Clone"),
		{name: "MeasurementVer", file: m("retentionpolicy.go"),
			marshal:   []fnRef{{file: m("retentionpolicy.go"), fn: "RetentionPolicyInfo.Marshal", recv: "v"}},
			unmarshal: []fnRef{{file: m("retentionpolicy.go"), fn: "RetentionPolicyInfo.unmarshal", lit: "MeasurementVer"}},
			clone:     []fnRef{{file: m("retentionpolicy.go"), fn: "MeasurementVer.clone"}}},
		mst,
		{name: "SchemaVal", file: m("measurement.go"),
			marshal:   []fnRef{{file: m("measurement.go"), fn: "CleanSchema.Marshal", recv: "t"}},
			unmarshal: []fnRef{{file: m("measurement.go"), fn: "UnmarshalCleanSchema", lit: "SchemaVal"}}},
		std("ShardKeyInfo", "measurement.go", "Marshal", "unmarshal", "clone"),
		std("ColStoreInfo", "measurement.go", "Marshal", "Unmarshal", ""),
		std("Options", "measurement.go", "Marshal", "Unmarshal", ""),
		std("ShardGroupInfo", "shardinfo.go", "marshal", "unmarshal", "clone"),
		std("ShardInfo", "shardinfo.go", "marshal", "unmarshal", "clone"),
		std("IndexGroupInfo", "indexinfo.go", "marshal", "unmarshal", "clone"),
		std("IndexInfo", "indexinfo.go", "marshal", "unmarshal", "clone"),
		std("ReplicaClearInfo", "indexinfo.go", "marshal", "unmarshal", ""),
		std("SubscriptionInfo", "subscription.go", "marshal", "unmarshal", ""),
		std("DownSamplePolicyInfo", "downsample_policy.go", "Marshal", "Unmarshal", ""),
		std("DownSamplePolicy", "downsample_policy.go", "marshal", "unmarshal", ""),
		std("DownSampleOperators", "downsample_policy.go", "marshal", "unmarshal", ""),
		std("ContinuousQueryInfo", "continuous_query.go", "Marshal", "unmarshal", "Clone"),
		std("UserInfo", "userinfo.go", "marshal", "unmarshal", "clone"),
		std("StreamInfo", "stream.go", "Marshal", "Unmarshal", "clone"),
		std("StreamMeasurementInfo", "stream.go", "marshal", "unmarshal", "Clone"),
		std("StreamCall", "stream.go", "marshal", "unmarshal", "Clone"),
		std("MigrateEventInfo", "migrate_event_info.go", "marshal", "unmarshal", "Clone"),
		std("DbPtInfo", "data.go", "Marshal", "Unmarshal", ""),
		{name: "DatabaseBriefInfo", file: m("database.go"),
			marshal:   []fnRef{{file: m("data.go"), fn: "DbPtInfo.Marshal", recv: "pt.DBBriefInfo"}},
			unmarshal: []fnRef{{file: m("data.go"), fn: "DbPtInfo.Unmarshal", recv: "pt.DBBriefInfo"}}},
		std("ShardDurationInfo", "netdata.go", "marshal", "unmarshal", ""),
		std("ShardIdentifier", "netdata.go", "marshal", "unmarshal", ""),
		std("DurationDescriptor", "netdata.go", "marshal", "unmarshal", ""),
		std("ReplicaGroup", "replication.go", "marshal", "unmarshal", ""),
		{name: "Peer", file: m("replication.go"),
			marshal:   []fnRef{{file: m("replication.go"), fn: "ReplicaGroup.marshal", recv: "rg.Peers[i]"}},
			unmarshal: []fnRef{{file: m("replication.go"), fn: "ReplicaGroup.unmarshal", lit: "Peer"}}},
	}
}

type fieldRow struct {
	ty, field, kind string
	marshalTo       []string
	unmarshalFrom   []string
	clone           string
	// conditions (other than "the field itself is non-empty") under which the most favourable
	// write happens; [] = carried unconditionally
	marshalGuard   []string
	unmarshalGuard []string
	cloneGuard     []string
}

func genC15(g *Gen) error {
	g.Header(metaDir+"{data,database,retentionpolicy,measurement,shardinfo,indexinfo,nodeinfo,userinfo,stream,continuous_query,downsample_policy,migrate_event_info,replication,subscription}.go", "app/ts-meta/meta/store_fsm.go")
	g.GenNS()
	var rows []fieldRow
	benign := map[string]bool{} // harmless self-guards seen (pinned in OG/C15/Facts.lean)
	declared := map[string]bool{}
	for _, sc := range c15Structs() {
		declared[sc.name] = true
		fields, err := structFields(g, sc.file, sc.name)
		if err != nil {
			return err
		}
		mar := map[string]map[string]bool{}
		marG, unmG, clG := guardCollector{}, guardCollector{}, guardCollector{}
		// the struct's own receiver / protobuf parameter: a nil test of those is about the struct
		// as a whole (not for structs handled inside a parent's function: explicit recv / lit)
		selfNames := map[string]bool{}
		for _, frs := range [][]fnRef{sc.marshal, sc.unmarshal, sc.clone} {
			for _, fr := range frs {
				if fr.recv != "" || fr.lit != "" || fr.ctx != "" {
					continue
				}
				if fd, err := g.Func(fr.file, fr.fn); err == nil {
					if r := funcRecv(fd); r != "" {
						selfNames["<self:"+r+">"] = true
					}
					for _, p := range fd.Type.Params.List {
						if strings.Contains(g.Src(p.Type), "roto") {
							for _, n := range p.Names {
								selfNames["<self:"+n.Name+">"] = true
							}
						}
					}
				}
			}
		}
		for _, fr := range sc.marshal {
			if err := marshalFlow(g, fr, mar, marG); err != nil {
				return err
			}
		}
		unm := map[string]map[string]bool{}
		for _, fr := range sc.unmarshal {
			if err := unmarshalFlow(g, fr, sc.name, fields, unm, unmG); err != nil {
				return err
			}
		}
		cl := map[string]string{}
		if len(sc.clone) == 0 {
			for _, f := range fields {
				cl[f[0]] = "byValue"
			}
		}
		for _, fr := range sc.clone {
			if err := cloneFlow(g, fr, fields, cl, clG); err != nil {
				return err
			}
		}
		for _, f := range fields {
			name := f[0]
			row := fieldRow{ty: sc.name, field: name, kind: f[1], marshalTo: setList(mar[name]), unmarshalFrom: setList(unm[name]), clone: cl[name]}
			ownField := func(m string) bool { return m == name || selfNames[m] }
			ownPb := func(m string) bool { return unm[name][m] || selfNames[m] }
			var ok []string
			row.marshalGuard, ok = marG.residual(name, ownField)
			for _, t := range ok {
				benign[fmt.Sprintf("%s.%s marshal: %s", sc.name, name, t)] = true
			}
			row.unmarshalGuard, ok = unmG.residual(name, ownPb)
			for _, t := range ok {
				benign[fmt.Sprintf("%s.%s unmarshal: %s", sc.name, name, t)] = true
			}
			if cl[name] != "copy" && cl[name] != "byValue" {
				// a guarded deep copy on top of `other := *x` still leaves the shallow copy
				row.cloneGuard, ok = clG.residual(name, ownField)
				for _, t := range ok {
					benign[fmt.Sprintf("%s.%s clone: %s", sc.name, name, t)] = true
				}
			}
			rows = append(rows, row)
		}
	}
	g.P("structure FieldFact where")
	g.P("  ty : String")
	g.P("  field : String")
	g.P("  kind : String")
	g.P("  marshalTo : List String")
	g.P("  unmarshalFrom : List String")
	g.P("  clone : String")
	g.P("  marshalGuard : List String")
	g.P("  unmarshalGuard : List String")
	g.P("  cloneGuard : List String")
	g.P("deriving DecidableEq, Repr\n")
	g.P("def fieldTable : List FieldFact := [")
	for i, r := range rows {
		sep := ","
		if i == len(rows)-1 {
			sep = ""
		}
		g.P("  ⟨%s, %s, %s, %s, %s, %s, %s, %s, %s⟩%s", leanStr(r.ty), leanStr(r.field), leanStr(r.kind), leanStrList(r.marshalTo), leanStrList(r.unmarshalFrom), leanStr(r.clone),
			leanStrList(r.marshalGuard), leanStrList(r.unmarshalGuard), leanStrList(r.cloneGuard), sep)
	}
	g.P("]\n")
	// the guards that were classified as harmless: a test of the carried field itself (or of the
	// protobuf field it is rebuilt from) for being non-empty
	g.StrList("selfGuards", setList(benign))

	// struct types of the package that are referenced by a field of a listed struct but are
	// not listed themselves (must stay empty apart from the recorded exemptions)
	ref := map[string]bool{}
	for _, r := range rows {
		for _, n := range typeIdents(r.kind) {
			ref[n] = true
		}
	}
	all, err := packageStructs(g)
	if err != nil {
		return err
	}
	var missing []string
	for n := range ref {
		if all[n] && !declared[n] {
			missing = append(missing, n)
		}
	}
	sort.Strings(missing)
	g.StrList("unlistedStructs", missing)

	// the command dispatch table of the state machine
	cmds, err := applyFuncKeys(g)
	if err != nil {
		return err
	}
	g.StrList("commandTypes", cmds)

	// Snapshot = Clone then MarshalBinary; Restore = UnmarshalBinary
	for _, f := range [][3]string{
		{"app/ts-meta/meta/store_fsm.go", "storeFSM.Snapshot", "src_Snapshot"},
		{"app/ts-meta/meta/snapshot.go", "storeFSMSnapshot.Persist", "src_Persist"},
		{"app/ts-meta/meta/store_fsm.go", "storeFSM.Restore", "src_Restore"},
		{metaDir + "data.go", "Data.MarshalBinary", "src_MarshalBinary"},
		{metaDir + "data.go", "Data.UnmarshalBinary", "src_UnmarshalBinary"},
	} {
		fd, err := g.Func(f[0], f[1])
		if err != nil {
			return err
		}
		g.P("def %s : String := %s", f[2], leanStr(g.Src(fd.Body)))
	}
	// CreateShardGroup: how the measurement is picked and which of its fields are read
	fd, err := g.Func(metaDir+"data.go", "Data.CreateShardGroup")
	if err != nil {
		return err
	}
	g.StrList("createShardGroup_mstiReads", selectorsOf(g, fd.Body, "msti"))
	fd, err = g.Func(metaDir+"data.go", "Data.createShards")
	if err != nil {
		return err
	}
	g.StrList("createShards_mstiReads", selectorsOf(g, fd.Body, "msti"))
	g.Footer()
	return nil
}

func leanStrList(xs []string) string {
	q := make([]string, len(xs))
	for i, x := range xs {
		q[i] = leanStr(x)
	}
	return "[" + strings.Join(q, ", ") + "]"
}

func setList(m map[string]bool) []string {
	out := make([]string, 0, len(m))
	for k := range m {
		out = append(out, k)
	}
	sort.Strings(out)
	return out
}

func add(m map[string]map[string]bool, f string, ks ...string) {
	if m[f] == nil {
		m[f] = map[string]bool{}
	}
	for _, k := range ks {
		m[f][k] = true
	}
}

// structFields lists (name, type text) of a struct's fields; an embedded field is named
// after its type.
func structFields(g *Gen, rel, name string) ([][2]string, error) {
	f, err := g.Parse(rel)
	if err != nil {
		return nil, err
	}
	for _, d := range f.Decls {
		gd, ok := d.(*ast.GenDecl)
		if !ok || gd.Tok != token.TYPE {
			continue
		}
		for _, sp := range gd.Specs {
			ts := sp.(*ast.TypeSpec)
			st, ok := ts.Type.(*ast.StructType)
			if !ok || ts.Name.Name != name {
				continue
			}
			var out [][2]string
			for _, fl := range st.Fields.List {
				t := g.Src(fl.Type)
				if len(fl.Names) == 0 {
					out = append(out, [2]string{typeName(fl.Type), t})
				}
				for _, n := range fl.Names {
					out = append(out, [2]string{n.Name, t})
				}
			}
			return out, nil
		}
	}
	return nil, fmt.Errorf("%s: struct %s not found", rel, name)
}

func packageStructs(g *Gen) (map[string]bool, error) {
	out := map[string]bool{}
	ents, err := os.ReadDir(filepath.Join(g.Repo, metaDir))
	if err != nil {
		return nil, err
	}
	for _, e := range ents {
		if !strings.HasSuffix(e.Name(), ".go") || strings.HasSuffix(e.Name(), "_test.go") {
			continue
		}
		f, err := g.Parse(metaDir + e.Name())
		if err != nil {
			return nil, err
		}
		for _, d := range f.Decls {
			gd, ok := d.(*ast.GenDecl)
			if !ok || gd.Tok != token.TYPE {
				continue
			}
			for _, sp := range gd.Specs {
				ts := sp.(*ast.TypeSpec)
				if _, ok := ts.Type.(*ast.StructType); ok {
					out[ts.Name.Name] = true
				}
			}
		}
	}
	return out, nil
}

func typeIdents(t string) []string {
	var out []string
	cur := ""
	flush := func() {
		if cur != "" {
			out = append(out, cur)
		}
		cur = ""
	}
	for _, r := range t {
		if r == '_' || r >= 'a' && r <= 'z' || r >= 'A' && r <= 'Z' || r >= '0' && r <= '9' {
			cur += string(r)
		} else {
			flush()
		}
	}
	flush()
	return out
}

// rootAndField: for an expression rooted at `<recv>.F…` returns F.
func fieldOf(g *Gen, e ast.Expr, recv string) string {
	for {
		switch x := e.(type) {
		case *ast.SelectorExpr:
			if g.Src(x.X) == recv {
				return x.Sel.Name
			}
			e = x.X
		case *ast.IndexExpr:
			e = x.X
		case *ast.StarExpr:
			e = x.X
		case *ast.ParenExpr:
			e = x.X
		case *ast.UnaryExpr:
			e = x.X
		case *ast.CallExpr:
			// method call on a field: recv.F.M(...)
			if se, ok := x.Fun.(*ast.SelectorExpr); ok {
				e = se.X
				continue
			}
			return ""
		case *ast.SliceExpr:
			e = x.X
		default:
			return ""
		}
	}
}

// recvFieldsIn collects every field F with `<recv>.F` occurring in n, plus tainted locals.
func recvFieldsIn(g *Gen, n ast.Node, recv string, taint map[string]map[string]bool) map[string]bool {
	out := map[string]bool{}
	if n == nil {
		return out
	}
	var visit func(x ast.Node) bool
	visit = func(x ast.Node) bool {
		switch e := x.(type) {
		case *ast.SelectorExpr:
			if g.Src(e.X) == recv {
				// recv.F, or the trivial getter recv.GetF()
				out[strings.TrimPrefix(e.Sel.Name, "Get")] = true
				return false
			}
		case *ast.IndexExpr:
			// the index itself (loop counter, map key) carries no field value
			if g.Src(e) != recv {
				ast.Inspect(e.X, visit)
				return false
			}
		case *ast.Ident:
			for k := range taint[e.Name] {
				out[k] = true
			}
		}
		return true
	}
	ast.Inspect(n, visit)
	return out
}

func funcRecv(fd *ast.FuncDecl) string {
	if fd.Recv != nil && len(fd.Recv.List) == 1 && len(fd.Recv.List[0].Names) == 1 {
		return fd.Recv.List[0].Names[0].Name
	}
	return ""
}

// ---- marshal: which pb fields does each struct field flow into -------------------------

func marshalFlow(g *Gen, fr fnRef, out map[string]map[string]bool, guards guardCollector) error {
	return marshalFlowAt(g, fr, out, guards, nil, 0)
}

// marshalFlowAt: `prefix` = the conditions around the call when the function is walked as a helper
// of another one (package-internal method calls on the receiver are followed one level).
func marshalFlowAt(g *Gen, fr fnRef, out map[string]map[string]bool, guards guardCollector, prefix []guardRec, depth int) error {
	fd, err := g.Func(fr.file, fr.fn)
	if err != nil {
		return err
	}
	recv := fr.recv
	if recv == "" {
		recv = funcRecv(fd)
	}
	if fr.ctx != "" {
		// every pb field written by this helper comes from the one field
		ast.Inspect(fd.Body, func(n ast.Node) bool {
			if as, ok := n.(*ast.AssignStmt); ok {
				for _, l := range as.Lhs {
					if k := pbKey(l); k != "" {
						add(out, fr.ctx, k)
					}
				}
			}
			return true
		})
		return nil
	}
	taint := map[string]map[string]bool{}
	gstack := append([]guardRec(nil), prefix...) // enclosing conditions of the statement being walked
	mentions := func(e ast.Node) []string { return setList(recvFieldsIn(g, e, recv, taint)) }
	// helper methods of the same struct called on the receiver: walked in place, one level deep
	// (an element row — explicit `recv`, e.g. the loop variable `v` of the owner's Marshal — follows
	// the owner's helpers too, looking for the same variable name there)
	self := funcRecv(fd)
	follow := func(n ast.Node) {
		if depth > 0 || n == nil {
			return
		}
		typ := fr.fn
		if i := strings.IndexByte(typ, '.'); i >= 0 {
			typ = typ[:i]
		} else {
			return
		}
		ast.Inspect(n, func(x ast.Node) bool {
			call, ok := x.(*ast.CallExpr)
			if !ok {
				return true
			}
			se, ok := call.Fun.(*ast.SelectorExpr)
			if !ok || g.Src(se.X) != self {
				return true
			}
			callee := typ + "." + se.Sel.Name
			if callee == fr.fn {
				return true
			}
			if _, err := g.Func(fr.file, callee); err == nil {
				_ = marshalFlowAt(g, fnRef{file: fr.file, fn: callee, recv: fr.recv}, out, guards, gstack, depth+1)
			}
			return true
		})
	}
	var walk func(stmts []ast.Stmt, ctx map[string]bool)
	record := func(fields map[string]bool, ctx map[string]bool, key string) {
		if key == "" {
			return
		}
		for f := range fields {
			add(out, f, key)
			guards.note(f, gstack)
		}
		for f := range ctx {
			add(out, f, key)
		}
	}
	var visitExpr func(e ast.Expr, ctx map[string]bool, outerKey string)
	visitExpr = func(e ast.Expr, ctx map[string]bool, outerKey string) {
		// composite literals of proto messages: attribute each keyed value to its key
		handled := false
		ast.Inspect(e, func(n ast.Node) bool {
			cl, ok := n.(*ast.CompositeLit)
			if !ok || handled && false {
				return true
			}
			isProto := strings.Contains(g.Src(cl.Type), "roto")
			if !isProto {
				return true
			}
			for _, el := range cl.Elts {
				kv, ok := el.(*ast.KeyValueExpr)
				if !ok {
					continue
				}
				key, ok := kv.Key.(*ast.Ident)
				if !ok {
					continue
				}
				inner := false
				ast.Inspect(kv.Value, func(m ast.Node) bool {
					if c2, ok := m.(*ast.CompositeLit); ok && strings.Contains(g.Src(c2.Type), "roto") {
						inner = true
					}
					return true
				})
				if inner {
					visitExpr(kv.Value, ctx, key.Name)
					// the outer key also carries the fields
				}
				record(recvFieldsIn(g, kv.Value, recv, taint), nil, key.Name)
			}
			return false
		})
		if outerKey != "" {
			record(recvFieldsIn(g, e, recv, taint), ctx, outerKey)
		}
	}
	walk = func(stmts []ast.Stmt, ctx map[string]bool) {
		blockDepth := -1 // >= 0: guards pushed by an early return, popped at the end of this block
		for _, s := range stmts {
			switch x := s.(type) {
			case *ast.AssignStmt:
				for i, l := range x.Lhs {
					var r ast.Expr
					if i < len(x.Rhs) {
						r = x.Rhs[i]
					} else if len(x.Rhs) == 1 {
						r = x.Rhs[0]
					}
					key := pbKey(l)
					if id, ok := l.(*ast.Ident); ok && r != nil {
						// local variable: propagate taint
						t := recvFieldsIn(g, r, recv, taint)
						for f := range ctx {
							t[f] = true
						}
						taint[id.Name] = t
						visitExpr(r, ctx, "")
						continue
					}
					if r != nil {
						root := rootIdent(l)
						saved, had := taint[root]
						if had {
							delete(taint, root) // pb.K = append(pb.K, …): the target is not a source
						}
						visitExpr(r, ctx, key)
						var add2 map[string]bool
						if key != "" {
							add2 = recvFieldsIn(g, r, recv, taint)
						}
						if had {
							taint[root] = saved
						}
						if root != "" && key != "" {
							if taint[root] == nil {
								taint[root] = map[string]bool{}
							}
							for f := range add2 {
								taint[root][f] = true
							}
						}
					}
				}
			case *ast.ExprStmt:
				visitExpr(x.X, ctx, "")
				follow(x.X)
			case *ast.ReturnStmt:
				for _, r := range x.Results {
					visitExpr(r, ctx, "")
				}
			case *ast.SwitchStmt:
				// every arm is a branch of its own: the tag and the case expressions are its guard
				for _, cl := range x.Body.List {
					cc, ok := cl.(*ast.CaseClause)
					if !ok {
						continue
					}
					c2 := copySet(ctx)
					text := "switch"
					var ms []string
					if x.Tag != nil {
						text += " " + g.Src(x.Tag)
						ms = append(ms, mentions(x.Tag)...)
						for f := range recvFieldsIn(g, x.Tag, recv, taint) {
							c2[f] = true
						}
					}
					if cc.List == nil {
						text += " default"
					}
					for _, e := range cc.List {
						text += " case " + g.Src(e)
						ms = append(ms, mentions(e)...)
						for f := range recvFieldsIn(g, e, recv, taint) {
							c2[f] = true
						}
					}
					depthG := len(gstack)
					gstack = append(gstack, guardRec{text: text, mentions: ms, zero: false})
					walk(cc.Body, c2)
					gstack = gstack[:depthG]
				}
			case *ast.IfStmt:
				c2 := copySet(ctx)
				for f := range recvFieldsIn(g, x.Cond, recv, taint) {
					c2[f] = true
				}
				if x.Init != nil {
					walk([]ast.Stmt{x.Init}, ctx)
				}
				depth := len(gstack)
				gstack = append(gstack, condGuards(g, x.Cond, false, mentions)...)
				walk(x.Body.List, c2)
				gstack = gstack[:depth]
				if x.Else != nil {
					gstack = append(gstack, condGuards(g, x.Cond, true, mentions)...)
					switch e := x.Else.(type) {
					case *ast.BlockStmt:
						walk(e.List, c2)
					case *ast.IfStmt:
						walk([]ast.Stmt{e}, c2)
					}
					gstack = gstack[:depth]
				} else if endsInReturn(x.Body) {
					// `if c { return }`: what follows in this block runs under !c
					gstack = append(gstack, condGuards(g, x.Cond, true, mentions)...)
					blockDepth = depth
				}
			case *ast.RangeStmt:
				c2 := copySet(ctx)
				src := recvFieldsIn(g, x.X, recv, taint)
				for f := range src {
					c2[f] = true
				}
				if id, ok := x.Key.(*ast.Ident); ok {
					delete(taint, id.Name)
				}
				if id, ok := x.Value.(*ast.Ident); ok && id.Name != "_" {
					taint[id.Name] = copySet(src)
				}
				depth := len(gstack)
				gstack = append(gstack, guardRec{text: "range " + g.Src(x.X), mentions: setList(src), zero: true})
				walk(x.Body.List, c2)
				gstack = gstack[:depth]
			case *ast.ForStmt:
				depth := len(gstack)
				if x.Cond != nil {
					gstack = append(gstack, guardRec{text: "for " + g.Src(x.Cond), mentions: mentions(x.Cond), zero: true})
				}
				walk(x.Body.List, ctx)
				gstack = gstack[:depth]
			case *ast.BlockStmt:
				walk(x.List, ctx)
			case *ast.DeclStmt, *ast.IncDecStmt, *ast.DeferStmt:
			}
		}
		if blockDepth >= 0 {
			gstack = gstack[:blockDepth]
		}
	}
	walk(fd.Body.List, map[string]bool{})
	return nil
}

// ---- guards: the enclosing conditions of a write ------------------------------------------

// guardRec is one enclosing condition. `zero` = it only tests something for being non-zero
// (`x != nil`, `len(x) > 0`, `x != ""`, `range x`, `i < len(x)`): if it mentions nothing but the
// field being carried, skipping the write loses nothing (nil and empty are the same catalogue).
type guardRec struct {
	text     string
	mentions []string
	zero     bool
}

// guardCollector: per field, the guard chains of every place its value is written.
type guardCollector map[string][][]guardRec

func (gc guardCollector) note(field string, chain []guardRec) {
	if gc == nil {
		return
	}
	gc[field] = append(gc[field], append([]guardRec(nil), chain...))
}

// residual returns, for the most favourable write of the field, the guards that are *not*
// harmless zero-tests of the field's own value (`own` tells whether a mentioned name belongs to
// the field), and the harmless ones of that write.
func (gc guardCollector) residual(field string, own func(name string) bool) (bad []string, benign []string) {
	chains := gc[field]
	if len(chains) == 0 {
		return nil, nil
	}
	best := -1
	var bestBad, bestBenign []string
	for _, ch := range chains {
		var b, ok []string
		for _, gr := range ch {
			harmless := gr.zero && len(gr.mentions) > 0
			for _, m := range gr.mentions {
				if !own(m) {
					harmless = false
				}
			}
			if harmless {
				ok = append(ok, gr.text)
			} else {
				b = append(b, gr.text)
			}
		}
		if best < 0 || len(b) < best {
			best, bestBad, bestBenign = len(b), b, ok
		}
	}
	return bestBad, bestBenign
}

// selfMention: `x != nil` / `x == nil` on a bare identifier - the struct (or the protobuf message
// it is rebuilt from) as a whole is absent; reported as the pseudo field "<self:x>".
func selfMention(e ast.Expr) []string {
	for {
		p, ok := e.(*ast.ParenExpr)
		if !ok {
			break
		}
		e = p.X
	}
	if b, ok := e.(*ast.BinaryExpr); ok && (b.Op == token.NEQ || b.Op == token.EQL) {
		if id, ok := b.X.(*ast.Ident); ok {
			if y, ok := b.Y.(*ast.Ident); ok && y.Name == "nil" {
				return []string{"<self:" + id.Name + ">"}
			}
		}
	}
	return nil
}

func endsInReturn(b *ast.BlockStmt) bool {
	if len(b.List) == 0 {
		return false
	}
	_, ok := b.List[len(b.List)-1].(*ast.ReturnStmt)
	return ok
}

// condGuards splits a condition into conjuncts (for the negated form: disjuncts) and classifies
// each as a zero-test or not.
func condGuards(g *Gen, cond ast.Expr, negated bool, mentions func(ast.Node) []string) []guardRec {
	var out []guardRec
	var split func(e ast.Expr)
	split = func(e ast.Expr) {
		if p, ok := e.(*ast.ParenExpr); ok {
			split(p.X)
			return
		}
		if b, ok := e.(*ast.BinaryExpr); ok && (!negated && b.Op == token.LAND || negated && b.Op == token.LOR) {
			split(b.X)
			split(b.Y)
			return
		}
		text := g.Src(e)
		if negated {
			text = "!(" + text + ")"
		}
		ms := mentions(e)
		if len(ms) == 0 {
			ms = selfMention(e)
		}
		out = append(out, guardRec{text: text, mentions: ms, zero: isZeroTest(g, e, negated)})
	}
	split(cond)
	return out
}

// isZeroTest: the condition (or its negation) holds exactly when one operand is not the zero
// value of its type: `x != nil`, `x != ""`, `x != 0`, `len(x) > 0`, `len(x) != 0`, `0 < len(x)`.
func isZeroTest(g *Gen, e ast.Expr, negated bool) bool {
	for {
		p, ok := e.(*ast.ParenExpr)
		if !ok {
			break
		}
		e = p.X
	}
	if u, ok := e.(*ast.UnaryExpr); ok && u.Op == token.NOT {
		return isZeroTest(g, u.X, !negated)
	}
	if c, ok := e.(*ast.CallExpr); ok && negated && len(c.Args) == 0 {
		// !x.IsZero()
		if se, ok := c.Fun.(*ast.SelectorExpr); ok && se.Sel.Name == "IsZero" {
			return true
		}
	}
	b, ok := e.(*ast.BinaryExpr)
	if !ok {
		return false
	}
	if !negated && b.Op == token.LOR || negated && b.Op == token.LAND {
		// "some part is non-zero"
		return isZeroTest(g, b.X, negated) && isZeroTest(g, b.Y, negated)
	}
	isZeroLit := func(x ast.Expr) bool {
		s := g.Src(x)
		return s == "nil" || s == "0" || s == `""`
	}
	op := b.Op
	x, y := b.X, b.Y
	if isZeroLit(x) && !isZeroLit(y) {
		x, y = y, x
		switch op {
		case token.LSS:
			op = token.GTR
		case token.GEQ:
			op = token.LEQ
		}
	}
	if !isZeroLit(y) {
		return false
	}
	_ = x
	if !negated {
		return op == token.NEQ || op == token.GTR
	}
	return op == token.EQL || op == token.LEQ
}

func copySet(m map[string]bool) map[string]bool {
	o := map[string]bool{}
	for k := range m {
		o[k] = true
	}
	return o
}

func rootIdent(e ast.Expr) string {
	for {
		switch x := e.(type) {
		case *ast.Ident:
			return x.Name
		case *ast.SelectorExpr:
			e = x.X
		case *ast.IndexExpr:
			e = x.X
		case *ast.StarExpr:
			e = x.X
		case *ast.ParenExpr:
			e = x.X
		default:
			return ""
		}
	}
}

// pbKey: for an assignment target `x.K`, `x.K[i]`, `x.K[i].L` … returns the innermost field
// name of the selector chain directly under a local root (the protobuf message field).
func pbKey(l ast.Expr) string {
	for {
		switch x := l.(type) {
		case *ast.SelectorExpr:
			if _, ok := x.X.(*ast.Ident); ok {
				return x.Sel.Name
			}
			// deeper chain: pb.A[i].B -> B is the innermost written field
			return x.Sel.Name
		case *ast.IndexExpr:
			l = x.X
		case *ast.StarExpr:
			l = x.X
		default:
			return ""
		}
	}
}

// ---- unmarshal: which pb fields is each struct field rebuilt from ----------------------

// pbNames returns the protobuf field names an expression reads: `.GetK()` calls and `.K`
// selectors rooted at a pb-tainted identifier, innermost (last) name of each chain.
func pbNames(g *Gen, n ast.Node, pbVars map[string]map[string]bool) map[string]bool {
	out := map[string]bool{}
	if n == nil {
		return out
	}
	var chain func(e ast.Expr) (root string, last string)
	chain = func(e ast.Expr) (string, string) {
		switch x := e.(type) {
		case *ast.Ident:
			return x.Name, ""
		case *ast.CallExpr:
			if se, ok := x.Fun.(*ast.SelectorExpr); ok {
				r, l := chain(se.X)
				if strings.HasPrefix(se.Sel.Name, "Get") && len(x.Args) == 0 {
					return r, strings.TrimPrefix(se.Sel.Name, "Get")
				}
				return r, l
			}
			return "", ""
		case *ast.SelectorExpr:
			r, _ := chain(x.X)
			return r, x.Sel.Name
		case *ast.IndexExpr:
			return chain(x.X)
		case *ast.StarExpr:
			return chain(x.X)
		case *ast.ParenExpr:
			return chain(x.X)
		case *ast.UnaryExpr:
			return chain(x.X)
		}
		return "", ""
	}
	var visit func(x ast.Node) bool
	visit = func(x ast.Node) bool {
		e, ok := x.(ast.Expr)
		if !ok {
			return true
		}
		switch e.(type) {
		case *ast.IndexExpr:
			r, l := chain(e)
			if _, isPb := pbVars[r]; isPb && l != "" {
				out[l] = true
			} else {
				ast.Inspect(e.(*ast.IndexExpr).X, visit)
			}
			return false
		case *ast.CallExpr, *ast.SelectorExpr:
			r, l := chain(e)
			if r != "" {
				if t, ok := pbVars[r]; ok {
					if l != "" {
						out[l] = true
						return false
					}
					for k := range t {
						out[k] = true
					}
				}
			}
		case *ast.Ident:
			id := e.(*ast.Ident)
			for k := range pbVars[id.Name] {
				out[k] = true
			}
		}
		return true
	}
	ast.Inspect(n, visit)
	return out
}

func unmarshalFlow(g *Gen, fr fnRef, tyName string, fields [][2]string, out map[string]map[string]bool, guards guardCollector) error {
	return unmarshalFlowAt(g, fr, tyName, fields, out, guards, nil, 0)
}

func unmarshalFlowAt(g *Gen, fr fnRef, tyName string, fields [][2]string, out map[string]map[string]bool, guards guardCollector, prefix []guardRec, depth int) error {
	fd, err := g.Func(fr.file, fr.fn)
	if err != nil {
		return err
	}
	recv := fr.recv
	if recv == "" {
		recv = funcRecv(fd)
	}
	// pb-tainted identifiers: parameters of protobuf type, then locals derived from them
	pbVars := map[string]map[string]bool{}
	for _, p := range fd.Type.Params.List {
		if strings.Contains(g.Src(p.Type), "roto") {
			for _, n := range p.Names {
				pbVars[n.Name] = map[string]bool{}
			}
		}
	}
	var walk func(stmts []ast.Stmt, ctx map[string]bool)
	gstack := append([]guardRec(nil), prefix...)
	mentions := func(e ast.Node) []string { return setList(pbNames(g, e, pbVars)) }
	self := funcRecv(fd)
	follow := func(call *ast.CallExpr) {
		if depth > 0 {
			return
		}
		se, ok := call.Fun.(*ast.SelectorExpr)
		if !ok || g.Src(se.X) != self {
			return
		}
		owner := tyName
		if i := strings.IndexByte(fr.fn, '.'); i >= 0 {
			owner = fr.fn[:i]
		}
		callee := owner + "." + se.Sel.Name
		if callee == fr.fn {
			return
		}
		if _, err := g.Func(fr.file, callee); err == nil {
			_ = unmarshalFlowAt(g, fnRef{file: fr.file, fn: callee, recv: fr.recv, lit: fr.lit}, tyName, fields, out, guards, gstack, depth+1)
		}
	}
	rec := func(f string, names map[string]bool, ctx map[string]bool) {
		guards.note(f, gstack)
		if len(names) > 0 {
			for k := range names {
				add(out, f, k)
			}
			return
		}
		for k := range ctx {
			add(out, f, k)
		}
	}
	lits := func(n ast.Node, ctx map[string]bool) {
		if fr.lit == "" {
			return
		}
		ast.Inspect(n, func(x ast.Node) bool {
			cl, ok := x.(*ast.CompositeLit)
			if !ok || g.Src(cl.Type) != fr.lit && g.Src(cl.Type) != "*"+fr.lit {
				return true
			}
			for i, el := range cl.Elts {
				if kv, ok := el.(*ast.KeyValueExpr); ok {
					rec(g.Src(kv.Key), pbNames(g, kv.Value, pbVars), ctx)
				} else if i < len(fields) {
					rec(fields[i][0], pbNames(g, el, pbVars), ctx)
				}
			}
			return false
		})
	}
	walk = func(stmts []ast.Stmt, ctx map[string]bool) {
		blockDepth := -1
		defer func() {
			if blockDepth >= 0 {
				gstack = gstack[:blockDepth]
			}
		}()
		for _, s := range stmts {
			switch x := s.(type) {
			case *ast.AssignStmt:
				for i, l := range x.Lhs {
					var r ast.Expr
					if i < len(x.Rhs) {
						r = x.Rhs[i]
					} else if len(x.Rhs) == 1 {
						r = x.Rhs[0]
					}
					if r != nil {
						lits(r, ctx)
					}
					if id, ok := l.(*ast.Ident); ok && r != nil {
						names := pbNames(g, r, pbVars)
						delete(pbVars, id.Name)
						if len(names) > 0 {
							pbVars[id.Name] = names
						} else if len(ctx) > 0 && isAlloc(r) {
							// an object allocated under a pb-controlled loop/branch and filled
							// from it (dbi := &DatabaseInfo{}; dbi.unmarshal(x))
							pbVars[id.Name] = copySet(ctx)
						}
						continue
					}
					if fr.lit == "" {
						if f := fieldOf(g, l, recv); f != "" && r != nil {
							rec(f, pbNames(g, r, pbVars), ctx)
						}
					}
				}
			case *ast.ExprStmt:
				lits(x.X, ctx)
				// recv.F.unmarshal(x) / recv.F[i].unmarshal(x) / helper(recv, pb)
				if call, ok := x.X.(*ast.CallExpr); ok && fr.lit == "" {
					follow(call)
					if se, ok := call.Fun.(*ast.SelectorExpr); ok {
						if f := fieldOf(g, se.X, recv); f != "" {
							names := map[string]bool{}
							for _, a := range call.Args {
								for k := range pbNames(g, a, pbVars) {
									names[k] = true
								}
							}
							rec(f, names, ctx)
						}
					}
				}
			case *ast.IfStmt:
				c2 := copySet(ctx)
				if x.Init != nil {
					walk([]ast.Stmt{x.Init}, ctx)
					if as, ok := x.Init.(*ast.AssignStmt); ok {
						for _, r := range as.Rhs {
							for k := range pbNames(g, r, pbVars) {
								c2[k] = true
							}
						}
					}
				}
				for k := range pbNames(g, x.Cond, pbVars) {
					c2[k] = true
				}
				depth := len(gstack)
				gstack = append(gstack, condGuards(g, x.Cond, false, mentions)...)
				walk(x.Body.List, c2)
				gstack = gstack[:depth]
				if x.Else != nil {
					gstack = append(gstack, condGuards(g, x.Cond, true, mentions)...)
					switch e := x.Else.(type) {
					case *ast.BlockStmt:
						walk(e.List, c2)
					case *ast.IfStmt:
						walk([]ast.Stmt{e}, c2)
					}
					gstack = gstack[:depth]
				} else if endsInReturn(x.Body) {
					gstack = append(gstack, condGuards(g, x.Cond, true, mentions)...)
					blockDepth = depth
				}
			case *ast.SwitchStmt:
				for _, cl := range x.Body.List {
					cc, ok := cl.(*ast.CaseClause)
					if !ok {
						continue
					}
					c2 := copySet(ctx)
					text := "switch"
					var ms []string
					if x.Tag != nil {
						text += " " + g.Src(x.Tag)
						ms = append(ms, mentions(x.Tag)...)
						for k := range pbNames(g, x.Tag, pbVars) {
							c2[k] = true
						}
					}
					if cc.List == nil {
						text += " default"
					}
					for _, e := range cc.List {
						text += " case " + g.Src(e)
						ms = append(ms, mentions(e)...)
						for k := range pbNames(g, e, pbVars) {
							c2[k] = true
						}
					}
					depthG := len(gstack)
					gstack = append(gstack, guardRec{text: text, mentions: ms, zero: false})
					walk(cc.Body, c2)
					gstack = gstack[:depthG]
				}
			case *ast.RangeStmt:
				src := pbNames(g, x.X, pbVars)
				c2 := copySet(ctx)
				for k := range src {
					c2[k] = true
				}
				for _, kv := range []ast.Expr{x.Key, x.Value} {
					if id, ok := kv.(*ast.Ident); ok && id.Name != "_" {
						delete(pbVars, id.Name)
						if len(src) > 0 {
							pbVars[id.Name] = copySet(src)
						}
					}
				}
				depth := len(gstack)
				gstack = append(gstack, guardRec{text: "range " + g.Src(x.X), mentions: setList(src), zero: true})
				walk(x.Body.List, c2)
				gstack = gstack[:depth]
			case *ast.ForStmt:
				depth := len(gstack)
				if x.Cond != nil {
					gstack = append(gstack, guardRec{text: "for " + g.Src(x.Cond), mentions: mentions(x.Cond), zero: true})
				}
				walk(x.Body.List, ctx)
				gstack = gstack[:depth]
			case *ast.BlockStmt:
				walk(x.List, ctx)
			case *ast.ReturnStmt:
				for _, r := range x.Results {
					lits(r, ctx)
				}
			}
		}
	}
	walk(fd.Body.List, map[string]bool{})
	return nil
}

func isAlloc(e ast.Expr) bool {
	switch x := e.(type) {
	case *ast.UnaryExpr:
		_, ok := x.X.(*ast.CompositeLit)
		return ok && x.Op == token.AND
	case *ast.CompositeLit:
		return true
	case *ast.CallExpr:
		if id, ok := x.Fun.(*ast.Ident); ok {
			return id.Name == "make" || id.Name == "new"
		}
	}
	return false
}

// ---- clone ------------------------------------------------------------------------------

func cloneFlow(g *Gen, fr fnRef, fields [][2]string, out map[string]string, guards guardCollector) error {
	fd, err := g.Func(fr.file, fr.fn)
	if err != nil {
		return err
	}
	recv := funcRecv(fd)
	base := "none"
	other := ""
	// find the copy variable
	for _, s := range fd.Body.List {
		switch x := s.(type) {
		case *ast.AssignStmt:
			if len(x.Lhs) == 1 && len(x.Rhs) == 1 && x.Tok == token.DEFINE {
				id, ok := x.Lhs[0].(*ast.Ident)
				if !ok || other != "" {
					continue
				}
				rs := g.Src(x.Rhs[0])
				switch {
				case rs == recv || rs == "*"+recv:
					other, base = id.Name, "copy"
				case strings.HasPrefix(rs, "&") && strings.Contains(rs, "{"):
					other = id.Name
					if cl, ok := x.Rhs[0].(*ast.UnaryExpr); ok {
						if lit, ok := cl.X.(*ast.CompositeLit); ok {
							for _, el := range lit.Elts {
								if kv, ok := el.(*ast.KeyValueExpr); ok {
									out[g.Src(kv.Key)] = "copy"
								}
							}
						}
					}
				}
			}
		case *ast.ReturnStmt:
			if other == "" && len(x.Results) == 1 && (g.Src(x.Results[0]) == recv || g.Src(x.Results[0]) == "&"+recv) {
				base = "copy"
			}
		}
	}
	for _, f := range fields {
		if _, ok := out[f[0]]; !ok {
			out[f[0]] = base
		}
	}
	if other == "" {
		return nil
	}
	after := false
	var gstack []guardRec
	mentions := func(e ast.Node) []string { return setList(recvFieldsIn(g, e, recv, nil)) }
	var walk func(stmts []ast.Stmt, top bool)
	walk = func(stmts []ast.Stmt, top bool) {
		for _, s := range stmts {
			switch x := s.(type) {
			case *ast.AssignStmt:
				for i, l := range x.Lhs {
					f := fieldOf(g, l, other)
					if f == "" {
						continue
					}
					guards.note(f, gstack)
					mode := "deep"
					if i < len(x.Rhs) && g.Src(x.Rhs[i]) == recv+"."+f {
						mode = "copy"
					}
					if after {
						mode = "afterReturn:" + mode
					}
					// an element-wise assignment inside a loop refines an earlier make()
					if prev, ok := out[f]; !ok || prev == "none" || prev == "copy" || strings.HasPrefix(prev, "afterReturn") == after {
						out[f] = mode
					}
				}
			case *ast.IfStmt:
				hasRet := false
				for _, b := range x.Body.List {
					if _, ok := b.(*ast.ReturnStmt); ok {
						hasRet = true
					}
				}
				depth := len(gstack)
				gstack = append(gstack, condGuards(g, x.Cond, false, mentions)...)
				walk(x.Body.List, false)
				gstack = gstack[:depth]
				if top && hasRet {
					after = true
				}
			case *ast.SwitchStmt:
				for _, cl := range x.Body.List {
					if cc, ok := cl.(*ast.CaseClause); ok {
						text := "switch"
						if x.Tag != nil {
							text += " " + g.Src(x.Tag)
						}
						for _, e := range cc.List {
							text += " case " + g.Src(e)
						}
						depth := len(gstack)
						gstack = append(gstack, guardRec{text: text, mentions: mentions(x), zero: false})
						walk(cc.Body, false)
						gstack = gstack[:depth]
					}
				}
			case *ast.RangeStmt:
				depth := len(gstack)
				gstack = append(gstack, guardRec{text: "range " + g.Src(x.X), mentions: mentions(x.X), zero: true})
				walk(x.Body.List, false)
				gstack = gstack[:depth]
			case *ast.ForStmt:
				depth := len(gstack)
				if x.Cond != nil {
					gstack = append(gstack, guardRec{text: "for " + g.Src(x.Cond), mentions: mentions(x.Cond), zero: true})
				}
				walk(x.Body.List, false)
				gstack = gstack[:depth]
			case *ast.BlockStmt:
				walk(x.List, false)
			}
		}
	}
	walk(fd.Body.List, true)
	return nil
}

// ---- misc -------------------------------------------------------------------------------

func applyFuncKeys(g *Gen) ([]string, error) {
	f, err := g.Parse("app/ts-meta/meta/store_fsm.go")
	if err != nil {
		return nil, err
	}
	var out []string
	for _, d := range f.Decls {
		gd, ok := d.(*ast.GenDecl)
		if !ok {
			continue
		}
		for _, sp := range gd.Specs {
			vs, ok := sp.(*ast.ValueSpec)
			if !ok || len(vs.Names) != 1 || vs.Names[0].Name != "applyFunc" || len(vs.Values) != 1 {
				continue
			}
			cl, ok := vs.Values[0].(*ast.CompositeLit)
			if !ok {
				continue
			}
			for _, el := range cl.Elts {
				if kv, ok := el.(*ast.KeyValueExpr); ok {
					out = append(out, strings.TrimPrefix(g.Src(kv.Key), "proto2.Command_"))
				}
			}
		}
	}
	if len(out) == 0 {
		return nil, fmt.Errorf("applyFunc table not found")
	}
	return out, nil
}

func selectorsOf(g *Gen, n ast.Node, root string) []string {
	set := map[string]bool{}
	ast.Inspect(n, func(x ast.Node) bool {
		if se, ok := x.(*ast.SelectorExpr); ok {
			if id, ok := se.X.(*ast.Ident); ok && id.Name == root {
				set[se.Sel.Name] = true
			}
		}
		return true
	})
	return setList(set)
}
