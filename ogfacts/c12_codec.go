package main

// codec field coverage for C12 (filled in below)
func genC12Codecs(g *Gen) error { return nil }
