package main

// C12 — field coverage of the option / plan / chunk codecs.
//
// For a pair of functions (encode, decode) over a struct the extractor lists, by reading the
// function bodies with go/ast:
//   fields          the fields of the struct (embedded fields by their type name)
//   encoded         fields of the struct the encoder reads           (recv.X)
//   decoded         fields of the struct the decoder sets            (recv.X = …, &T{X: …})
//   wireWritten     fields of the wire message the encoder sets      (pb.X = …, &pb{X: …})
//   wireRead        fields of the wire message the decoder reads     (pb.X, pb.GetX())
// The Lean side proves with `decide`: wireWritten ⊆ wireRead, encoded ⊆ decoded, and
// fields ⊆ encoded ∪ transient, where `transient` is the recorded list of fields the code
// deliberately does not ship (Facts.lean).

import (
	"fmt"
	"go/ast"
	"sort"
	"strings"
)

func c12UniqSorted(xs []string) []string {
	m := map[string]bool{}
	for _, x := range xs {
		m[x] = true
	}
	out := make([]string, 0, len(m))
	for x := range m {
		out = append(out, x)
	}
	sort.Strings(out)
	return out
}

// c12StructFields lists the field names of a struct type declared in a file.
func (g *Gen) c12StructFields(rel, typ string) ([]string, error) {
	f, err := g.Parse(rel)
	if err != nil {
		return nil, err
	}
	for _, d := range f.Decls {
		gd, ok := d.(*ast.GenDecl)
		if !ok {
			continue
		}
		for _, sp := range gd.Specs {
			ts, ok := sp.(*ast.TypeSpec)
			if !ok || ts.Name.Name != typ {
				continue
			}
			st, ok := ts.Type.(*ast.StructType)
			if !ok {
				return nil, fmt.Errorf("%s: %s is not a struct", rel, typ)
			}
			var out []string
			for _, fl := range st.Fields.List {
				if len(fl.Names) == 0 {
					n := typeName(fl.Type)
					if i := strings.LastIndexByte(n, '.'); i >= 0 {
						n = n[i+1:]
					}
					out = append(out, n)
				}
				for _, n := range fl.Names {
					out = append(out, n.Name)
				}
			}
			return out, nil
		}
	}
	return nil, fmt.Errorf("%s: type %s not found", rel, typ)
}

// c12Selectors lists X for every `v.X` / `v.GetX()` in a node where v is the identifier `v`.
func c12Selectors(n ast.Node, v string, stripGet bool) []string {
	var out []string
	ast.Inspect(n, func(x ast.Node) bool {
		se, ok := x.(*ast.SelectorExpr)
		if !ok {
			return true
		}
		id, ok := se.X.(*ast.Ident)
		if !ok || id.Name != v {
			return true
		}
		name := se.Sel.Name
		if stripGet && strings.HasPrefix(name, "Get") && len(name) > 3 {
			name = name[3:]
		}
		out = append(out, name)
		return true
	})
	return c12UniqSorted(out)
}

// c12Assigned lists X for every assignment `v.X = …` / `v.X[i] = …` / `v.X = append(v.X, …)`.
func c12Assigned(n ast.Node, v string) []string {
	var out []string
	var base func(e ast.Expr) (string, bool)
	base = func(e ast.Expr) (string, bool) {
		switch t := e.(type) {
		case *ast.SelectorExpr:
			if id, ok := t.X.(*ast.Ident); ok && id.Name == v {
				return t.Sel.Name, true
			}
			return base(t.X)
		case *ast.IndexExpr:
			return base(t.X)
		case *ast.StarExpr:
			return base(t.X)
		}
		return "", false
	}
	ast.Inspect(n, func(x ast.Node) bool {
		as, ok := x.(*ast.AssignStmt)
		if !ok {
			return true
		}
		for _, l := range as.Lhs {
			if name, ok := base(l); ok {
				out = append(out, name)
			}
		}
		return true
	})
	return c12UniqSorted(out)
}

// c12LiteralKeys lists the keys of every composite literal of a type whose name ends in typ.
func (g *Gen) c12LiteralKeys(n ast.Node, typ string) []string {
	var out []string
	ast.Inspect(n, func(x ast.Node) bool {
		cl, ok := x.(*ast.CompositeLit)
		if !ok || cl.Type == nil {
			return true
		}
		tn := typeName(cl.Type)
		if tn != typ && !strings.HasSuffix(tn, "."+typ) {
			return true
		}
		for _, e := range cl.Elts {
			if kv, ok := e.(*ast.KeyValueExpr); ok {
				out = append(out, g.Src(kv.Key))
			}
		}
		return true
	})
	return c12UniqSorted(out)
}

func c12ParamName(fd *ast.FuncDecl, i int) string {
	k := 0
	for _, p := range fd.Type.Params.List {
		for _, n := range p.Names {
			if k == i {
				return n.Name
			}
			k++
		}
	}
	return ""
}

func c12RecvName(fd *ast.FuncDecl) string {
	if fd.Recv != nil && len(fd.Recv.List) == 1 && len(fd.Recv.List[0].Names) == 1 {
		return fd.Recv.List[0].Names[0].Name
	}
	return ""
}

// c12PbCodec: encode(x *T) *pb.M  /  decode(pb *pb.M) *T with keyed literals.
func (g *Gen) c12PbCodec(tag, structRel, structTyp, rel, enc, dec, pbTyp string) error {
	fields, err := g.c12StructFields(structRel, structTyp)
	if err != nil {
		return err
	}
	fe, err := g.Func(rel, enc)
	if err != nil {
		return err
	}
	fdn, err := g.Func(rel, dec)
	if err != nil {
		return err
	}
	ev := c12ParamName(fe, 0)
	dv := c12ParamName(fdn, 0)
	encoded := c12Selectors(fe.Body, ev, false)
	wireWritten := c12UniqSorted(append(g.c12LiteralKeys(fe.Body, pbTyp), c12Assigned(fe.Body, "pb")...))
	wireRead := c12Selectors(fdn.Body, dv, true)
	// the decoder builds the struct in a literal and may patch fields of the result variable
	decoded := g.c12LiteralKeys(fdn.Body, structTyp)
	for _, v := range []string{"opt", "mm", "o", "res", "ret", "schema", "io", "indexR"} {
		decoded = append(decoded, c12Assigned(fdn.Body, v)...)
	}
	decoded = c12UniqSorted(decoded)
	// only struct fields count as "encoded" (method calls on the value are not fields)
	isField := map[string]bool{}
	for _, f := range fields {
		isField[f] = true
	}
	var enc2 []string
	for _, e := range encoded {
		if isField[e] {
			enc2 = append(enc2, e)
		}
	}
	g.StrList("cov_"+tag+"_fields", fields)
	g.StrList("cov_"+tag+"_encoded", enc2)
	g.StrList("cov_"+tag+"_decoded", decoded)
	g.StrList("cov_"+tag+"_wireWritten", wireWritten)
	g.StrList("cov_"+tag+"_wireRead", wireRead)
	return nil
}

// c12BinCodec: (x *T) Marshal(buf) / (x *T) Unmarshal(buf) over the binary codec helpers.
func (g *Gen) c12BinCodec(tag, structRel, structTyp, rel string) error {
	fields, err := g.c12StructFields(structRel, structTyp)
	if err != nil {
		return err
	}
	m, err := g.Func(rel, structTyp+".Marshal")
	if err != nil {
		return err
	}
	u, err := g.Func(rel, structTyp+".Unmarshal")
	if err != nil {
		return err
	}
	sz, err := g.Func(rel, structTyp+".Size")
	if err != nil {
		return err
	}
	g.StrList("cov_"+tag+"_fields", fields)
	g.StrList("cov_"+tag+"_encoded", c12Selectors(m.Body, c12RecvName(m), false))
	g.StrList("cov_"+tag+"_decoded", c12Assigned(u.Body, c12RecvName(u)))
	g.StrList("cov_"+tag+"_sized", c12Selectors(sz.Body, c12RecvName(sz), false))
	return nil
}

func genC12Codecs(g *Gen) error {
	const qdir = "lib/util/lifted/influx/query/"
	const edir = "engine/executor/"
	g.P("/-! ### codec field coverage -/\n")
	if err := g.c12PbCodec("options", qdir+"select.go", "ProcessorOptions", qdir+"processor_codec.go",
		"encodeProcessorOptions", "decodeProcessorOptions", "ProcessorOptions"); err != nil {
		return err
	}
	if err := g.c12PbCodec("measurement", c12dir+"ast.go", "Measurement", qdir+"processor_codec.go",
		"encodeMeasurement", "decodeMeasurement", "Measurement"); err != nil {
		return err
	}
	for _, t := range [][2]string{{"chunk", "chunk.go:ChunkImpl"}, {"column", "column.gen.go:ColumnImpl"}, {"bitmap", "column.gen.go:Bitmap"},
		{"chunkTags", "chunk_tags.go:ChunkTags"}} {
		p := strings.SplitN(t[1], ":", 2)
		if err := g.c12BinCodec(t[0], edir+p[0], p[1], edir+"chunk_codec.gen.go"); err != nil {
			return err
		}
	}
	// the query message itself: RemoteQuery.Marshal / Unmarshal with their MstInfos helpers
	{
		rel := edir + "rpc_message.go"
		fields, err := g.c12StructFields(rel, "RemoteQuery")
		if err != nil {
			return err
		}
		var enc, dec, wireW, wireR []string
		for _, fn := range []string{"RemoteQuery.Marshal", "RemoteQuery.MarshalMstInfos"} {
			fd, err := g.Func(rel, fn)
			if err != nil {
				return err
			}
			enc = append(enc, c12Selectors(fd.Body, c12RecvName(fd), false)...)
			wireW = append(wireW, g.c12LiteralKeys(fd.Body, "RemoteQuery")...)
			wireW = append(wireW, c12Assigned(fd.Body, "rq")...)
		}
		for _, fn := range []string{"RemoteQuery.Unmarshal", "RemoteQuery.UnmarshalMstInfos"} {
			fd, err := g.Func(rel, fn)
			if err != nil {
				return err
			}
			dec = append(dec, c12Assigned(fd.Body, c12RecvName(fd))...)
			// a field may be filled through a method on it (c.Opt.UnmarshalBinary(…))
			ast.Inspect(fd.Body, func(n ast.Node) bool {
				if ce, ok := n.(*ast.CallExpr); ok {
					if se, ok := ce.Fun.(*ast.SelectorExpr); ok && se.Sel.Name == "UnmarshalBinary" {
						if inner, ok := se.X.(*ast.SelectorExpr); ok {
							if id, ok := inner.X.(*ast.Ident); ok && id.Name == c12RecvName(fd) {
								dec = append(dec, inner.Sel.Name)
							}
						}
					}
				}
				return true
			})
			wireR = append(wireR, c12Selectors(fd.Body, "pb", true)...)
		}
		isField := map[string]bool{}
		for _, f := range fields {
			isField[f] = true
		}
		var enc2 []string
		for _, e := range c12UniqSorted(enc) {
			if isField[e] {
				enc2 = append(enc2, e)
			}
		}
		g.StrList("cov_remoteQuery_fields", fields)
		g.StrList("cov_remoteQuery_encoded", enc2)
		g.StrList("cov_remoteQuery_decoded", c12UniqSorted(dec))
		g.StrList("cov_remoteQuery_wireWritten", c12UniqSorted(wireW))
		g.StrList("cov_remoteQuery_wireRead", c12UniqSorted(wireR))
	}
	// query schema message: what EncodeQuerySchema writes and DecodeQuerySchema reads
	fe, err := g.Func(qdir+"processor_codec.go", "EncodeQuerySchema")
	if err != nil {
		return err
	}
	fd, err := g.Func(qdir+"processor_codec.go", "DecodeQuerySchema")
	if err != nil {
		return err
	}
	g.StrList("cov_schema_wireWritten", g.c12LiteralKeys(fe.Body, "QuerySchema"))
	g.StrList("cov_schema_wireRead", c12Selectors(fd.Body, c12ParamName(fd, 0), true))

	// plan nodes: every node type MarshalBinary knows, with the message fields its closure sets,
	// against the case of UnmarshalBinaryNode and the message fields that case reads
	mb, err := g.Func(edir+"logic_plan_codec.go", "MarshalBinary")
	if err != nil {
		return err
	}
	ub, err := g.Func(edir+"logic_plan_codec.go", "UnmarshalBinaryNode")
	if err != nil {
		return err
	}
	written := map[string][]string{}
	var order []string
	ast.Inspect(mb.Body, func(n ast.Node) bool {
		ts, ok := n.(*ast.TypeSwitchStmt)
		if !ok {
			return true
		}
		for _, st := range ts.Body.List {
			cc := st.(*ast.CaseClause)
			for _, l := range cc.List {
				name := strings.TrimPrefix(typeName(l), "*")
				if name == "HeuVertex" {
					continue
				}
				var body ast.Node = &ast.BlockStmt{List: cc.Body}
				written[name] = c12Assigned(body, "pb")
				order = append(order, name)
			}
		}
		return false
	})
	read := map[string][]string{}
	constructs := map[string]bool{}
	ast.Inspect(ub.Body, func(n ast.Node) bool {
		sw, ok := n.(*ast.SwitchStmt)
		if !ok || sw.Tag == nil || g.Src(sw.Tag) != "pb.Name" {
			return true
		}
		for _, st := range sw.Body.List {
			cc := st.(*ast.CaseClause)
			for _, l := range cc.List {
				name := strings.TrimPrefix(g.Src(l), "internal.LogicPlanType_")
				var body ast.Node = &ast.BlockStmt{List: cc.Body}
				read[name] = c12Selectors(body, "pb", true)
				// does the case build a node at all? (a `return <non-nil>, nil`)
				ast.Inspect(body, func(x ast.Node) bool {
					if r, ok := x.(*ast.ReturnStmt); ok && len(r.Results) == 2 && g.Src(r.Results[0]) != "nil" && g.Src(r.Results[1]) == "nil" {
						constructs[name] = true
					}
					return true
				})
			}
		}
		return false
	})
	g.P("/-- plan node type ↦ (message fields MarshalBinary sets for it, message fields the case of")
	g.P("UnmarshalBinaryNode reads — `none` = no case for the type —, does that case build a node). -/")
	g.P("def cov_plan : List (String × List String × Option (List String) × Bool) := [")
	for i, n := range order {
		var w []string
		for _, x := range written[n] {
			w = append(w, leanStr(x))
		}
		rd := "none"
		if r, ok := read[n]; ok {
			var q []string
			for _, x := range r {
				q = append(q, leanStr(x))
			}
			rd = "some [" + strings.Join(q, ", ") + "]"
		}
		sep := ","
		if i == len(order)-1 {
			sep = ""
		}
		g.P("  (%s, [%s], %s, %v)%s", leanStr(n), strings.Join(w, ", "), rd, constructs[n], sep)
	}
	g.P("]\n")
	return nil
}
