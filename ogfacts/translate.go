package main

import (
	"fmt"
	"go/ast"
	"go/token"
	"strings"
)

// A deliberately tiny translator: straight-line / if-return Go functions over booleans and
// integers become Lean definitions. Anything outside the subset is an error (the generated
// file then fails to build, which is reported, never papered over).

// Tr configures a translation: how identifiers, selectors and calls map to Lean.
type Tr struct {
	g *Gen
	// Call maps a Go call "recv.Method" or "pkg.Func" to a Lean rendering given rendered args
	// (receiver first for methods). Return "" for unsupported.
	Call func(fun string, method string, recv string, args []string) string
	// Ident maps identifiers (parameters, receiver, constants).
	Ident func(name string) string
}

func (t *Tr) expr(e ast.Expr) (string, error) {
	switch x := e.(type) {
	case *ast.ParenExpr:
		s, err := t.expr(x.X)
		return "(" + s + ")", err
	case *ast.Ident:
		switch x.Name {
		case "true", "false":
			return x.Name, nil
		}
		if t.Ident != nil {
			if s := t.Ident(x.Name); s != "" {
				return s, nil
			}
		}
		return x.Name, nil
	case *ast.BasicLit:
		if x.Kind == token.INT {
			return x.Value, nil
		}
		return "", fmt.Errorf("unsupported literal %s", x.Value)
	case *ast.SelectorExpr:
		if t.Ident != nil {
			if s := t.Ident(t.g.Src(x)); s != "" {
				return s, nil
			}
		}
		s, err := t.expr(x.X)
		return s + "." + x.Sel.Name, err
	case *ast.UnaryExpr:
		s, err := t.expr(x.X)
		if err != nil {
			return "", err
		}
		switch x.Op {
		case token.NOT:
			return "(!" + s + ")", nil
		case token.SUB:
			return "(-" + s + ")", nil
		}
		return "", fmt.Errorf("unsupported unary %s", x.Op)
	case *ast.BinaryExpr:
		a, err := t.expr(x.X)
		if err != nil {
			return "", err
		}
		b, err := t.expr(x.Y)
		if err != nil {
			return "", err
		}
		op := ""
		switch x.Op {
		case token.LAND:
			op = "&&"
		case token.LOR:
			op = "||"
		case token.EQL:
			op = "=="
		case token.NEQ:
			op = "!="
		case token.LSS:
			return "(decide (" + a + " < " + b + "))", nil
		case token.LEQ:
			return "(decide (" + a + " ≤ " + b + "))", nil
		case token.GTR:
			return "(decide (" + a + " > " + b + "))", nil
		case token.GEQ:
			return "(decide (" + a + " ≥ " + b + "))", nil
		case token.ADD:
			op = "+"
		case token.SUB:
			op = "-"
		case token.MUL:
			op = "*"
		case token.REM:
			// Go's % truncates toward zero (additive: used by C20 for executor.window)
			return "(Int.tmod " + a + " " + b + ")", nil
		default:
			return "", fmt.Errorf("unsupported operator %s", x.Op)
		}
		return "(" + a + " " + op + " " + b + ")", nil
	case *ast.CallExpr:
		fun := t.g.Src(x.Fun)
		var args []string
		recv, method := "", ""
		if se, ok := x.Fun.(*ast.SelectorExpr); ok {
			r, err := t.expr(se.X)
			if err != nil {
				return "", err
			}
			recv = r
			method = se.Sel.Name
		}
		for _, a := range x.Args {
			s, err := t.expr(a)
			if err != nil {
				return "", err
			}
			args = append(args, s)
		}
		if t.Call != nil {
			if s := t.Call(fun, method, recv, args); s != "" {
				return s, nil
			}
		}
		return "", fmt.Errorf("unsupported call %s", t.g.Src(x))
	}
	return "", fmt.Errorf("unsupported expression %s", t.g.Src(e))
}

// stmts translates a statement list into a Lean term. recv is the (value) receiver name
// whose fields may be assigned.
func (t *Tr) stmts(list []ast.Stmt, recv string) (string, error) {
	if len(list) == 0 {
		return "", fmt.Errorf("function falls off its end")
	}
	s := list[0]
	rest := list[1:]
	switch x := s.(type) {
	case *ast.ReturnStmt:
		if len(x.Results) != 1 {
			return "", fmt.Errorf("return with %d results", len(x.Results))
		}
		return t.expr(x.Results[0])
	case *ast.AssignStmt:
		if x.Tok != token.ASSIGN && x.Tok != token.DEFINE {
			return "", fmt.Errorf("unsupported assignment %s", t.g.Src(x))
		}
		// evaluate all right-hand sides first (parallel assignment)
		var rhs []string
		for _, r := range x.Rhs {
			e, err := t.expr(r)
			if err != nil {
				return "", err
			}
			rhs = append(rhs, e)
		}
		if len(rhs) != len(x.Lhs) {
			return "", fmt.Errorf("unsupported assignment %s", t.g.Src(x))
		}
		var lets []string
		var updates []string
		for i, l := range x.Lhs {
			switch lv := l.(type) {
			case *ast.SelectorExpr:
				id, ok := lv.X.(*ast.Ident)
				if !ok || id.Name != recv {
					return "", fmt.Errorf("assignment to %s", t.g.Src(l))
				}
				updates = append(updates, lv.Sel.Name+" := "+rhs[i])
			case *ast.Ident:
				lets = append(lets, fmt.Sprintf("let %s := %s", lv.Name, rhs[i]))
			default:
				return "", fmt.Errorf("assignment to %s", t.g.Src(l))
			}
		}
		k, err := t.stmts(rest, recv)
		if err != nil {
			return "", err
		}
		out := ""
		for _, l := range lets {
			out += l + "\n  "
		}
		if len(updates) > 0 {
			out += fmt.Sprintf("let %s := { %s with %s }\n  ", recv, recv, strings.Join(updates, ", "))
		}
		return out + k, nil
	case *ast.IfStmt:
		if x.Init != nil {
			return "", fmt.Errorf("if with init")
		}
		c, err := t.expr(x.Cond)
		if err != nil {
			return "", err
		}
		th, err := t.stmts(x.Body.List, recv)
		if err != nil {
			return "", err
		}
		var el string
		if x.Else != nil {
			switch e := x.Else.(type) {
			case *ast.BlockStmt:
				el, err = t.stmts(e.List, recv)
			case *ast.IfStmt:
				el, err = t.stmts([]ast.Stmt{e}, recv)
			}
			if err != nil {
				return "", err
			}
			if len(rest) > 0 {
				return "", fmt.Errorf("statements after if/else")
			}
		} else {
			el, err = t.stmts(rest, recv)
			if err != nil {
				return "", err
			}
		}
		return fmt.Sprintf("if %s then\n    %s\n  else\n    %s", c, th, el), nil
	}
	return "", fmt.Errorf("unsupported statement %s", t.g.Src(s))
}

// Method emits `def <leanName> (recv : RecvT) (params…) : RetT := body`.
func (t *Tr) Method(rel, name, leanName string, params string, ret string) error {
	fd, err := t.g.Func(rel, name)
	if err != nil {
		return err
	}
	recv := ""
	if fd.Recv != nil && len(fd.Recv.List) == 1 && len(fd.Recv.List[0].Names) == 1 {
		recv = fd.Recv.List[0].Names[0].Name
	}
	body, err := t.stmts(fd.Body.List, recv)
	if err != nil {
		return fmt.Errorf("%s %s: %w", rel, name, err)
	}
	t.g.P("def %s %s : %s :=\n  %s\n", leanName, params, ret, body)
	return nil
}
