package main

import (
	"fmt"
	"go/ast"
	"strings"
)

func init() { register("C08", genC08) }

// genC08 regenerates, from the executor's source:
//   - the tie rules of the partial-aggregate merges (FirstMerge, LastMerge, MinMerge, MaxMerge,
//     BooleanFirstMerge, BooleanLastMerge, SumMerge): the `if` condition under which the current
//     point replaces the kept one is translated into a Lean definition; OG.C08.Model builds
//     `Fn.better` from them, so partition_invariant & co are re-proved against the code's rules;
//   - the bodies of the functions the streaming models were transcribed from (Iterator.Next and
//     its three helpers, isSameGroup, the limit helper, isSameTag, the heap order of the merge,
//     aggregateCursor's look-ahead), compared with recorded expectations in OG.C08.Facts;
//   - enumerations and constants: LimitType, FillOption, QuerySchema.LimitType, the default
//     inner chunk size, the fill fast-path condition.
func genC08(g *Gen) error {
	const ex = "engine/executor/"
	g.Header(ex+"agg_func.go", ex+"agg_iterator.go", ex+"agg_transform.go", ex+"limit_transform.go",
		ex+"fill_transform.go", ex+"merge_transform.go", ex+"sort_merge_transform.go", ex+"schema.go",
		"engine/aggregate_cursor.go", "engine/hybridqp/catalog.go", "lib/util/lifted/influx/influxql/ast.go",
		"lib/util/lifted/influx/httpd/handler.go")
	g.GenNS()

	// ---- tie rules: the condition of the (last) if statement whose body assigns prevPoint
	t := &Tr{g: g}
	t.Ident = func(name string) string {
		switch name {
		case "prevPoint.isNil":
			return "pn"
		case "currPoint.isNil":
			return "cn"
		case "prevPoint.time":
			return "pt"
		case "currPoint.time":
			return "ct"
		case "prevPoint.value":
			return "pv"
		case "currPoint.value":
			return "cv"
		}
		return ""
	}
	for _, m := range []struct {
		fn, lean string
		boolVal  bool
	}{
		{"FirstMerge", "firstTakes", false}, {"LastMerge", "lastTakes", false},
		{"MinMerge", "minTakes", false}, {"MaxMerge", "maxTakes", false},
		{"BooleanFirstMerge", "boolFirstTakes", true}, {"BooleanLastMerge", "boolLastTakes", true},
	} {
		fd, err := g.Func(ex+"agg_func.go", m.fn)
		if err != nil {
			return err
		}
		var cond ast.Expr
		for _, st := range fd.Body.List {
			if is, ok := st.(*ast.IfStmt); ok && strings.Contains(g.Src(is.Body), "prevPoint.Assign(currPoint)") {
				cond = is.Cond
			}
		}
		if cond == nil {
			return fmt.Errorf("%s: no `if … { prevPoint.Assign(currPoint) }`", m.fn)
		}
		s, err := t.expr(cond)
		if err != nil {
			return fmt.Errorf("%s: %v", m.fn, err)
		}
		vt := "Int"
		if m.boolVal {
			vt = "Bool"
		}
		g.P("/-- %s: the current point (ct, cv) replaces the kept one (pt, pv; pn = none kept). -/", m.fn)
		g.P("def %s (pn : Bool) (pt ct : Int) (pv cv : %s) : Bool := %s\n", m.lean, vt, s)
		g.P("def src_%s : String := %s\n", m.fn, leanStr(g.Src(fd.Body)))
	}
	for _, fn := range []string{"SumMerge", "CountMerge"} {
		fd, err := g.Func(ex+"agg_func.go", fn)
		if err != nil {
			return err
		}
		g.P("def src_%s : String := %s\n", fn, leanStr(g.Src(fd.Body)))
	}

	// ---- bodies the streaming models were transcribed from
	for _, f := range [][3]string{
		{ex + "agg_iterator.go", "IntegerIterator.Next", "iterNext"},
		{ex + "agg_iterator.go", "IntegerIterator.processFirstWindow", "processFirstWindow"},
		{ex + "agg_iterator.go", "IntegerIterator.processLastWindow", "processLastWindow"},
		{ex + "agg_iterator.go", "IntegerIterator.processMiddleWindow", "processMiddleWindow"},
		{ex + "agg_transform.go", "StreamAggregateTransform.isSameGroup", "isSameGroup"},
		{ex + "agg_transform.go", "StreamAggregateTransform.preProcess", "aggPreProcess"},
		{ex + "limit_transform.go", "LimitTransform.SingleRowIgnoreTagLimitHelper", "limitHelper"},
		{ex + "schema.go", "QuerySchema.LimitType", "limitTypeOf"},
		{ex + "fill_transform.go", "FillTransform.isSameTag", "fillIsSameTag"},
		{ex + "fill_transform.go", "NewNullFillProcessor", "newNullFillProcessor"},
		{ex + "merge_transform.go", "HeapItems.Less", "heapLess"},
		{ex + "sort_merge_transform.go", "SortedHeapItems.Less", "sortedHeapLess"},
		{ex + "sort_merge_transform.go", "SortMergeTransf.updateWithBreakPoint", "updateWithBreakPoint"},
		{"engine/aggregate_cursor.go", "aggregateCursor.inNextWindowWithInfo", "inNextWindowWithInfo"},
		// the second rule for first() of a boolean (finding first-bool-ties): tag-set cursor and
		// statistics shortcut
		{"lib/record/reccord_functions.go", "updateBooleanFirstLastImp", "updateBooleanFirstLastImp"},
		{"lib/record/reccord_functions.go", "UpdateBooleanFirst", "UpdateBooleanFirst"},
		{"lib/record/reccord_functions.go", "booleanCompareGreaterEqual", "booleanCompareGreaterEqual"},
		{"engine/immutable/reader.go", "firstMeta", "firstMeta"},
	} {
		fd, err := g.Func(f[0], f[1])
		if err != nil {
			return err
		}
		g.P("def src_%s : String := %s\n", f[2], leanStr(g.Src(fd.Body)))
	}
	// the fast path of FillTransform.fill: the condition text
	fd, err := g.Func(ex+"fill_transform.go", "FillTransform.fill")
	if err != nil {
		return err
	}
	fast := ""
	ast.Inspect(fd.Body, func(n ast.Node) bool {
		if is, ok := n.(*ast.IfStmt); ok && fast == "" {
			if c := g.Src(is.Cond); strings.Contains(c, "influxql.NullFill") {
				fast = c
			}
		}
		return true
	})
	if fast == "" {
		return fmt.Errorf("FillTransform.fill: fast-path condition not found")
	}
	g.P("def fillFastPathCond : String := %s\n", leanStr(fast))

	// ---- enumerations and constants
	var rows [][2]string
	for _, c := range []string{"SingleRowLimit", "MultipleRowsLimit", "SingleRowIgnoreTagLimit", "MultipleRowsIgnoreTagLimit"} {
		v, err := g.Const("engine/hybridqp/catalog.go", c)
		if err != nil {
			return err
		}
		rows = append(rows, [2]string{c, v})
	}
	g.PairList("limitTypes", rows)
	// FillOption: the iota block in declaration order
	af, err := g.Parse("lib/util/lifted/influx/influxql/ast.go")
	if err != nil {
		return err
	}
	var fills []string
	for _, d := range af.Decls {
		gd, ok := d.(*ast.GenDecl)
		if !ok {
			continue
		}
		isFill := false
		for _, sp := range gd.Specs {
			if vs, ok := sp.(*ast.ValueSpec); ok && vs.Type != nil && g.Src(vs.Type) == "FillOption" {
				isFill = true
			}
		}
		if !isFill {
			continue
		}
		for _, sp := range gd.Specs {
			if vs, ok := sp.(*ast.ValueSpec); ok {
				for _, n := range vs.Names {
					fills = append(fills, n.Name)
				}
			}
		}
	}
	if len(fills) == 0 {
		return fmt.Errorf("FillOption constants not found")
	}
	g.StrList("fillOptions", fills)
	for _, c := range [][3]string{
		{"lib/util/lifted/influx/httpd/handler.go", "DefaultInnerChunkSize", "defaultInnerChunkSize"},
		{ex + "agg_transform.go", "AggBufChunkNum", "aggBufChunkNum"},
		{ex + "fill_transform.go", "FillBufChunkNum", "fillBufChunkNum"},
	} {
		v, err := g.Const(c[0], c[1])
		if err != nil {
			return err
		}
		g.P("def %s : String := %s", c[2], leanStr(v))
	}
	g.P("")
	g.Footer()
	return nil
}
