package main

// C12 — the shipped message as data.
//
// Regenerated on every run, for the codec pairs of processor_codec.go
// (ProcessorOptions, Measurement, Interval, VarRef, ObsOptions, IndexOption):
//
//   desc_<Msg>    the fields of the wire message (name, number, type, repeated), decoded from the
//                 raw file descriptor embedded in internal.pb.go — what the protobuf runtime uses
//   tags_<Msg>    the `protobuf:"…"` struct tags of the generated message struct — what binds the
//                 Go field name the codec writes to a field number
//   codec_<tag>   one Row per struct field: its Go type, the message field the encoder writes and
//                 HOW (identity, integer cast, method call, String() under a guard, helper
//                 function, loop with type assertion, type switch), the message field the decoder
//                 reads and HOW (identity, cast, helper, parse function under a guard, loop)
//   wireOnly_<tag> message fields neither written nor read by the pair
//
// The classification is syntactic (go/ast patterns). What does not match a pattern is emitted as
// `.other "<source>"`, which the Lean model gives no meaning: the round-trip theorem over the
// table then fails to check (a new way of encoding must be modelled, not guessed).

import (
	"fmt"
	"go/ast"
	"go/token"
	"reflect"
	"sort"
	"strconv"
	"strings"
)

// ---------------------------------------------------------------------------------------------
// raw descriptor

type c12pb struct{ b []byte }

func (r *c12pb) varint() (uint64, bool) {
	var v uint64
	for s := uint(0); s < 64; s += 7 {
		if len(r.b) == 0 {
			return 0, false
		}
		c := r.b[0]
		r.b = r.b[1:]
		v |= uint64(c&0x7f) << s
		if c < 0x80 {
			return v, true
		}
	}
	return 0, false
}

// next returns (field number, wire type, varint value, bytes payload)
func (r *c12pb) next() (int, int, uint64, []byte, bool) {
	if len(r.b) == 0 {
		return 0, 0, 0, nil, false
	}
	k, ok := r.varint()
	if !ok {
		return 0, 0, 0, nil, false
	}
	num, wt := int(k>>3), int(k&7)
	switch wt {
	case 0:
		v, ok := r.varint()
		return num, wt, v, nil, ok
	case 1:
		if len(r.b) < 8 {
			return 0, 0, 0, nil, false
		}
		r.b = r.b[8:]
		return num, wt, 0, nil, true
	case 2:
		n, ok := r.varint()
		if !ok || uint64(len(r.b)) < n {
			return 0, 0, 0, nil, false
		}
		p := r.b[:n]
		r.b = r.b[n:]
		return num, wt, 0, p, true
	case 5:
		if len(r.b) < 4 {
			return 0, 0, 0, nil, false
		}
		r.b = r.b[4:]
		return num, wt, 0, nil, true
	}
	return 0, 0, 0, nil, false
}

type c12DescField struct {
	Name     string
	Num      int
	Label    int
	Type     int
	TypeName string
}
type c12DescMsg struct {
	Name     string
	Fields   []c12DescField
	Nested   []c12DescMsg
	MapEntry bool
}

func c12ParseDescMsg(b []byte) (c12DescMsg, error) {
	var m c12DescMsg
	r := &c12pb{b}
	for len(r.b) > 0 {
		num, wt, _, p, ok := r.next()
		if !ok {
			return m, fmt.Errorf("descriptor: truncated message")
		}
		switch {
		case num == 1 && wt == 2:
			m.Name = string(p)
		case num == 2 && wt == 2:
			var f c12DescField
			fr := &c12pb{p}
			for len(fr.b) > 0 {
				n, w, v, q, ok := fr.next()
				if !ok {
					return m, fmt.Errorf("descriptor: truncated field")
				}
				switch {
				case n == 1 && w == 2:
					f.Name = string(q)
				case n == 3 && w == 0:
					f.Num = int(v)
				case n == 4 && w == 0:
					f.Label = int(v)
				case n == 5 && w == 0:
					f.Type = int(v)
				case n == 6 && w == 2:
					f.TypeName = string(q)
				}
			}
			m.Fields = append(m.Fields, f)
		case num == 3 && wt == 2:
			nm, err := c12ParseDescMsg(p)
			if err != nil {
				return m, err
			}
			m.Nested = append(m.Nested, nm)
		case num == 7 && wt == 2:
			or := &c12pb{p}
			for len(or.b) > 0 {
				n, w, v, _, ok := or.next()
				if !ok {
					break
				}
				if n == 7 && w == 0 && v == 1 {
					m.MapEntry = true
				}
			}
		}
	}
	return m, nil
}

// c12RawDesc reads `var <name> = []byte{…}` of a file and decodes the message descriptors.
func (g *Gen) c12RawDesc(rel, varName string) (map[string]c12DescMsg, error) {
	f, err := g.Parse(rel)
	if err != nil {
		return nil, err
	}
	var raw []byte
	found := false
	for _, d := range f.Decls {
		gd, ok := d.(*ast.GenDecl)
		if !ok || gd.Tok != token.VAR {
			continue
		}
		for _, sp := range gd.Specs {
			vs := sp.(*ast.ValueSpec)
			for i, n := range vs.Names {
				if n.Name != varName || i >= len(vs.Values) {
					continue
				}
				cl, ok := vs.Values[i].(*ast.CompositeLit)
				if !ok {
					return nil, fmt.Errorf("%s: %s is not a composite literal", rel, varName)
				}
				for _, e := range cl.Elts {
					bl, ok := e.(*ast.BasicLit)
					if !ok {
						return nil, fmt.Errorf("%s: %s holds a non-literal byte", rel, varName)
					}
					v, err := strconv.ParseUint(bl.Value, 0, 8)
					if err != nil {
						return nil, err
					}
					raw = append(raw, byte(v))
				}
				found = true
			}
		}
	}
	if !found {
		return nil, fmt.Errorf("%s: %s not found", rel, varName)
	}
	out := map[string]c12DescMsg{}
	r := &c12pb{raw}
	for len(r.b) > 0 {
		num, wt, _, p, ok := r.next()
		if !ok {
			return nil, fmt.Errorf("%s: raw descriptor truncated", rel)
		}
		if num == 4 && wt == 2 {
			m, err := c12ParseDescMsg(p)
			if err != nil {
				return nil, err
			}
			out[m.Name] = m
		}
	}
	return out, nil
}

func c12PT(m c12DescMsg, f c12DescField) string {
	switch f.Type {
	case 1:
		return ".double"
	case 3:
		return ".int64"
	case 4:
		return ".uint64"
	case 5:
		return ".int32"
	case 8:
		return ".bool"
	case 9:
		return ".string"
	case 12:
		return ".bytes"
	case 13:
		return ".uint32"
	case 11:
		short := f.TypeName
		if i := strings.LastIndexByte(short, '.'); i >= 0 {
			short = short[i+1:]
		}
		for _, n := range m.Nested {
			if n.Name == short && n.MapEntry && len(n.Fields) == 2 && n.Fields[0].Type == 9 && n.Fields[1].Type == 8 {
				return ".mapStringBool"
			}
		}
		return ".msg " + leanStr(short)
	}
	return fmt.Sprintf(".other %d", f.Type)
}

func (g *Gen) c12EmitDesc(msgs map[string]c12DescMsg, name string) error {
	m, ok := msgs[name]
	if !ok {
		return fmt.Errorf("raw descriptor: message %s not found", name)
	}
	g.P("def desc_%s : List WireField := [", name)
	for i, f := range m.Fields {
		sep := ","
		if i == len(m.Fields)-1 {
			sep = ""
		}
		g.P("  ⟨%s, %d, %s, %v⟩%s", leanStr(f.Name), f.Num, c12PT(m, f), f.Label == 3, sep)
	}
	g.P("]")
	return nil
}

// c12EmitTags: the protobuf struct tags of a generated message struct.
func (g *Gen) c12EmitTags(rel, name string) error {
	f, err := g.Parse(rel)
	if err != nil {
		return err
	}
	for _, d := range f.Decls {
		gd, ok := d.(*ast.GenDecl)
		if !ok {
			continue
		}
		for _, sp := range gd.Specs {
			ts, ok := sp.(*ast.TypeSpec)
			if !ok || ts.Name.Name != name {
				continue
			}
			st, ok := ts.Type.(*ast.StructType)
			if !ok {
				return fmt.Errorf("%s: %s is not a struct", rel, name)
			}
			var rows []string
			for _, fl := range st.Fields.List {
				if fl.Tag == nil || len(fl.Names) != 1 {
					continue
				}
				tag, err := strconv.Unquote(fl.Tag.Value)
				if err != nil {
					return err
				}
				pbt := reflect.StructTag(tag).Get("protobuf")
				if pbt == "" {
					continue
				}
				parts := strings.Split(pbt, ",")
				if len(parts) < 4 {
					return fmt.Errorf("%s.%s: unexpected protobuf tag %q", name, fl.Names[0].Name, pbt)
				}
				num, err := strconv.Atoi(parts[1])
				if err != nil {
					return err
				}
				nm := ""
				for _, p := range parts[3:] {
					if strings.HasPrefix(p, "name=") {
						nm = p[5:]
					}
				}
				rows = append(rows, fmt.Sprintf("  ⟨%s, %s, %d, %v, %s⟩", leanStr(fl.Names[0].Name), leanStr(parts[0]), num, parts[2] == "rep", leanStr(nm)))
			}
			g.P("def tags_%s : List TagField := [", name)
			g.P("%s", strings.Join(rows, ",\n"))
			g.P("]")
			return nil
		}
	}
	return fmt.Errorf("%s: struct %s not found", rel, name)
}

// ---------------------------------------------------------------------------------------------
// Go types of struct fields

var c12IntT = map[string]string{"int": ".int", "int64": ".int64", "int32": ".int32", "uint64": ".uint64", "uint32": ".uint32", "uint8": ".uint8",
	"time.Duration": ".dur"}

// named integer types: where they are declared
var c12NamedTypes = map[string][2]string{
	"influxql.FillOption": {c12dir + "ast.go", "FillOption"},
	"FillOption":          {c12dir + "ast.go", "FillOption"},
	"influxql.DataType":   {c12dir + "ast.go", "DataType"},
	"DataType":            {c12dir + "ast.go", "DataType"},
	"hybridqp.HintType":   {"engine/hybridqp/compiler.go", "HintType"},
	"config.EngineType":   {"lib/config/config.go", "EngineType"},
}

// c12NamedInt resolves a named integer type: underlying type and the number of constants of the
// iota block that declares values of it (0 when there is none).
func (g *Gen) c12NamedInt(rel, name string) (string, int, error) {
	f, err := g.Parse(rel)
	if err != nil {
		return "", 0, err
	}
	under := ""
	n := 0
	for _, d := range f.Decls {
		gd, ok := d.(*ast.GenDecl)
		if !ok {
			continue
		}
		if gd.Tok == token.TYPE {
			for _, sp := range gd.Specs {
				ts := sp.(*ast.TypeSpec)
				if ts.Name.Name == name {
					under = g.Src(ts.Type)
				}
			}
		}
		if gd.Tok == token.CONST && len(gd.Specs) > 0 && n == 0 {
			// every constant of the type written with its value: 0 … max, each value once
			seen := map[int]bool{}
			explicit := true
			for _, sp := range gd.Specs {
				vs := sp.(*ast.ValueSpec)
				if vs.Type == nil || g.Src(vs.Type) != name {
					continue
				}
				if len(vs.Names) != 1 || len(vs.Values) != 1 {
					explicit = false
					break
				}
				bl, ok := vs.Values[0].(*ast.BasicLit)
				if !ok || bl.Kind != token.INT {
					explicit = false
					break
				}
				v, err := strconv.Atoi(bl.Value)
				if err != nil || v < 0 || seen[v] {
					explicit = false
					break
				}
				seen[v] = true
			}
			if explicit && len(seen) > 0 {
				dense := true
				for i := 0; i < len(seen); i++ {
					if !seen[i] {
						dense = false
					}
				}
				if dense {
					n = len(seen)
					continue
				}
			}
			first := gd.Specs[0].(*ast.ValueSpec)
			if first.Type != nil && g.Src(first.Type) == name && len(first.Values) == 1 && g.Src(first.Values[0]) == "iota" {
				ok := true
				for _, sp := range gd.Specs[1:] {
					vs := sp.(*ast.ValueSpec)
					if len(vs.Values) != 0 || vs.Type != nil {
						ok = false // not a plain iota run
					}
				}
				if ok {
					for _, sp := range gd.Specs {
						n += len(sp.(*ast.ValueSpec).Names)
					}
				}
			}
		}
	}
	it, ok := c12IntT[under]
	if !ok {
		return "", 0, fmt.Errorf("%s: type %s has underlying type %q, not an integer type", rel, name, under)
	}
	return it, n, nil
}

func (g *Gen) c12GoT(src string) string {
	if it, ok := c12IntT[src]; ok {
		return ".int " + it
	}
	if w, ok := c12NamedTypes[src]; ok {
		it, n, err := g.c12NamedInt(w[0], w[1])
		if err == nil {
			full := src
			if !strings.Contains(full, ".") {
				full = "influxql." + full
			}
			return fmt.Sprintf(".named %s %s %d", leanStr(full), it, n)
		}
	}
	switch src {
	case "bool":
		return ".bool"
	case "string":
		return ".str"
	case "[]byte":
		return ".bytes"
	case "[]string":
		return ".strs"
	case "map[string]struct{}":
		return ".keyset"
	case "influxql.Expr", "Expr":
		return ".expr"
	case "*time.Location":
		return ".loc"
	case "interface{}", "any":
		return ".iface"
	case "influxql.SortFields", "SortFields":
		return ".sortFields"
	case "[]influxql.VarRef", "influxql.VarRefs", "VarRefs":
		return ".varRefs"
	case "hybridqp.Interval":
		return ".interval"
	case "[]influxql.Source", "Sources", "influxql.Sources":
		return ".sources"
	case "*RegexLiteral", "*influxql.RegexLiteral":
		return ".regexLit"
	}
	if strings.HasPrefix(src, "*") && !strings.ContainsAny(src[1:], "*[]{}( ") {
		n := src[1:]
		if i := strings.LastIndexByte(n, '.'); i >= 0 {
			n = n[i+1:]
		}
		return ".ptr " + leanStr(n)
	}
	return ".other " + leanStr(src)
}

type c12Field struct{ Name, Type string }

func (g *Gen) c12StructFieldTypes(rel, typ string) ([]c12Field, error) {
	f, err := g.Parse(rel)
	if err != nil {
		return nil, err
	}
	for _, d := range f.Decls {
		gd, ok := d.(*ast.GenDecl)
		if !ok {
			continue
		}
		for _, sp := range gd.Specs {
			ts, ok := sp.(*ast.TypeSpec)
			if !ok || ts.Name.Name != typ {
				continue
			}
			st, ok := ts.Type.(*ast.StructType)
			if !ok {
				return nil, fmt.Errorf("%s: %s is not a struct", rel, typ)
			}
			var out []c12Field
			for _, fl := range st.Fields.List {
				t := g.Src(fl.Type)
				if len(fl.Names) == 0 {
					out = append(out, c12Field{typeName(fl.Type), t})
				}
				for _, n := range fl.Names {
					out = append(out, c12Field{n.Name, t})
				}
			}
			return out, nil
		}
	}
	return nil, fmt.Errorf("%s: type %s not found", rel, typ)
}

// ---------------------------------------------------------------------------------------------
// classification of encoder / decoder expressions

// selOf: e is `v.F` -> F
func c12SelOf(e ast.Expr, v string) (string, bool) {
	se, ok := e.(*ast.SelectorExpr)
	if !ok {
		return "", false
	}
	id, ok := se.X.(*ast.Ident)
	if !ok || id.Name != v {
		return "", false
	}
	return se.Sel.Name, true
}

// pbRead: e is `pb.K` or `pb.GetK()` -> K
func c12PbRead(e ast.Expr, v string) (string, bool) {
	if k, ok := c12SelOf(e, v); ok {
		return k, true
	}
	if ce, ok := e.(*ast.CallExpr); ok && len(ce.Args) == 0 {
		if k, ok := c12SelOf(ce.Fun, v); ok && strings.HasPrefix(k, "Get") && len(k) > 3 {
			return k[3:], true
		}
	}
	return "", false
}

func c12FuncName(e ast.Expr) string {
	switch t := e.(type) {
	case *ast.Ident:
		return t.Name
	case *ast.SelectorExpr:
		return typeName(t)
	}
	return ""
}

func c12Guard(g *Gen, cond ast.Expr, v string, pbSide bool) (string, string) {
	// returns (guard constructor, the field / message field it talks about)
	if be, ok := cond.(*ast.BinaryExpr); ok {
		rhs := g.Src(be.Y)
		if be.Op == token.NEQ && rhs == "nil" {
			if pbSide {
				if k, ok := c12PbRead(be.X, v); ok {
					return ".nonNil", k
				}
			} else if f, ok := c12SelOf(be.X, v); ok {
				return ".nonNil", f
			}
		}
		if be.Op == token.NEQ && rhs == `""` {
			if k, ok := c12PbRead(be.X, v); ok && pbSide {
				return ".nonEmpty", k
			}
		}
		if be.Op == token.GTR && rhs == "0" {
			if ce, ok := be.X.(*ast.CallExpr); ok && c12FuncName(ce.Fun) == "len" && len(ce.Args) == 1 {
				if f, ok := c12SelOf(ce.Args[0], v); ok && !pbSide {
					return ".lenPos", f
				}
			}
		}
	}
	return ".other " + leanStr(g.Src(cond)), ""
}

// firstSel: the first `v.F` mentioned in a node (to attribute an unrecognised expression)
func c12FirstSel(n ast.Node, v string) string {
	out := ""
	ast.Inspect(n, func(x ast.Node) bool {
		if out != "" {
			return false
		}
		if e, ok := x.(ast.Expr); ok {
			if f, ok := c12SelOf(e, v); ok {
				out = f
				return false
			}
		}
		return true
	})
	return out
}

// classifyEnc: value expression of a message field, in terms of the struct variable v
func (g *Gen) c12ClassifyEnc(e ast.Expr, v string) (field, kind string) {
	if f, ok := c12SelOf(e, v); ok {
		return f, ".id"
	}
	if ce, ok := e.(*ast.CallExpr); ok {
		fn := c12FuncName(ce.Fun)
		if len(ce.Args) == 1 {
			if f, ok := c12SelOf(ce.Args[0], v); ok {
				if it, ok := c12IntT[fn]; ok {
					return f, ".cast " + it
				}
				if fn != "" {
					if i := strings.LastIndexByte(fn, '.'); i >= 0 {
						fn = fn[i+1:]
					}
					return f, fmt.Sprintf(".helper %s .none", leanStr(fn))
				}
			}
		}
		if len(ce.Args) == 0 {
			if se, ok := ce.Fun.(*ast.SelectorExpr); ok {
				if f, ok := c12SelOf(se.X, v); ok {
					return f, ".method " + leanStr(se.Sel.Name)
				}
			}
		}
	}
	return c12FirstSel(e, v), ".other " + leanStr(g.Src(e))
}

// textPath: e is `v.F.A.B()` -> (F, ".A.B")
func c12TextPath(e ast.Expr, v string) (string, string, bool) {
	ce, ok := e.(*ast.CallExpr)
	if !ok || len(ce.Args) != 0 {
		return "", "", false
	}
	path := ""
	cur := ce.Fun
	for {
		se, ok := cur.(*ast.SelectorExpr)
		if !ok {
			return "", "", false
		}
		if f, ok := c12SelOf(se, v); ok {
			return f, path, path != ""
		}
		path = "." + se.Sel.Name + path
		cur = se.X
	}
}

func (g *Gen) c12ClassifyDec(e ast.Expr, v string) (wire, kind string) {
	if k, ok := c12PbRead(e, v); ok {
		return k, ".id"
	}
	if ce, ok := e.(*ast.CallExpr); ok && len(ce.Args) == 1 {
		if k, ok := c12PbRead(ce.Args[0], v); ok {
			fn := c12FuncName(ce.Fun)
			if it, ok := c12IntT[fn]; ok {
				return k, fmt.Sprintf(".cast %s %s", it, leanStr(fn))
			}
			if w, ok := c12NamedTypes[fn]; ok {
				if it, _, err := g.c12NamedInt(w[0], w[1]); err == nil {
					return k, fmt.Sprintf(".cast %s %s", it, leanStr(fn))
				}
			}
			if fn != "" {
				if i := strings.LastIndexByte(fn, '.'); i >= 0 {
					fn = fn[i+1:]
				}
				return k, fmt.Sprintf(".helper %s .none", leanStr(fn))
			}
		}
	}
	// attribute to the first message field read
	k := ""
	ast.Inspect(e, func(x ast.Node) bool {
		if k != "" {
			return false
		}
		if ex, ok := x.(ast.Expr); ok {
			if kk, ok := c12PbRead(ex, v); ok {
				k = kk
				return false
			}
		}
		return true
	})
	return k, ".other " + leanStr(g.Src(e))
}

type c12Row struct {
	Field            string
	EncWire, Enc     string
	DecWire, Dec     string
	EncSrc, DecSrc   string
	encN, decN       int
}

// c12Codec extracts the rows of one codec pair.
//   structRel/structTyp  the Go struct; pbTyp the generated message struct (internal.<pbTyp>)
func (g *Gen) c12Codec(tag, structRel, structTyp, rel, encName, decName, pbTyp string) error {
	fields, err := g.c12StructFieldTypes(structRel, structTyp)
	if err != nil {
		return err
	}
	fe, err := g.Func(rel, encName)
	if err != nil {
		return err
	}
	fd, err := g.Func(rel, decName)
	if err != nil {
		return err
	}
	ev, dv := c12ParamName(fe, 0), c12ParamName(fd, 0)
	rows := map[string]*c12Row{}
	row := func(f string) *c12Row {
		r, ok := rows[f]
		if !ok {
			r = &c12Row{Field: f, Enc: ".none", Dec: ".none"}
			rows[f] = r
		}
		return r
	}
	var stray []string // message fields set from no struct field / struct fields set from no message field
	setEnc := func(f, wire, kind, src string) {
		if f == "" {
			stray = append(stray, "enc "+wire+" = "+src)
			return
		}
		r := row(f)
		r.encN++
		if r.encN > 1 {
			r.Enc = ".other " + leanStr("several writers: "+r.EncSrc+" ; "+src)
			r.EncSrc += " ; " + src
			return
		}
		r.EncWire, r.Enc, r.EncSrc = wire, kind, src
	}
	setDec := func(f, wire, kind, src string) {
		if f == "" {
			stray = append(stray, "dec "+wire+" : "+src)
			return
		}
		r := row(f)
		r.decN++
		if r.decN > 1 {
			r.Dec = ".other " + leanStr("several writers: "+r.DecSrc+" ; "+src)
			r.DecSrc += " ; " + src
			return
		}
		r.DecWire, r.Dec, r.DecSrc = wire, kind, src
	}

	isPbLit := func(cl *ast.CompositeLit) bool {
		if cl.Type == nil {
			return false
		}
		tn := typeName(cl.Type)
		return tn == pbTyp || strings.HasSuffix(tn, "internal."+pbTyp)
	}
	isStructLit := func(cl *ast.CompositeLit) bool {
		if cl.Type == nil {
			return false
		}
		tn := typeName(cl.Type)
		return (tn == structTyp || strings.HasSuffix(tn, "."+structTyp)) && !strings.HasPrefix(tn, "internal.")
	}

	// ---- encoder ----
	pbVar := "pb"
	var encLit *ast.CompositeLit
	ast.Inspect(fe.Body, func(n ast.Node) bool {
		if cl, ok := n.(*ast.CompositeLit); ok && encLit == nil && isPbLit(cl) {
			encLit = cl
			return false
		}
		return true
	})
	if encLit == nil {
		return fmt.Errorf("%s: no literal of internal.%s", encName, pbTyp)
	}
	for _, el := range encLit.Elts {
		kv, ok := el.(*ast.KeyValueExpr)
		if !ok {
			return fmt.Errorf("%s: unkeyed literal", encName)
		}
		f, kind := g.c12ClassifyEnc(kv.Value, ev)
		setEnc(f, g.Src(kv.Key), kind, g.Src(kv.Value))
	}
	for _, st := range fe.Body.List {
		switch s := st.(type) {
		case *ast.AssignStmt:
			// pb := &internal.T{…} (handled) or pb.K = v
			if len(s.Lhs) == 1 {
				if id, ok := s.Lhs[0].(*ast.Ident); ok && s.Tok == token.DEFINE {
					if ue, ok := s.Rhs[0].(*ast.UnaryExpr); ok {
						if cl, ok := ue.X.(*ast.CompositeLit); ok && cl == encLit {
							pbVar = id.Name
						}
					}
					continue
				}
				if k, ok := c12SelOf(s.Lhs[0], pbVar); ok {
					f, kind := g.c12ClassifyEnc(s.Rhs[0], ev)
					setEnc(f, k, kind, g.Src(s.Rhs[0]))
					continue
				}
			}
			if len(c12Assigned(s, pbVar)) > 0 {
				setEnc(c12FirstSel(s, ev), strings.Join(c12Assigned(s, pbVar), "+"), ".other "+leanStr(g.Src(s)), g.Src(s))
			}
		case *ast.IfStmt:
			written := c12Assigned(s.Body, pbVar)
			if len(written) == 0 {
				continue
			}
			gk, gf := c12Guard(g, s.Cond, ev, false)
			src := g.Src(s)
			if len(written) == 1 && s.Else == nil && gf != "" {
				// if guard { pb.K = v.F<path>() }   |   if guard { pb.K = f(v.F) }
				if len(s.Body.List) == 1 {
					if as, ok := s.Body.List[0].(*ast.AssignStmt); ok && len(as.Lhs) == 1 && len(as.Rhs) == 1 {
						if f, path, ok := c12TextPath(as.Rhs[0], ev); ok && f == gf {
							setEnc(f, written[0], fmt.Sprintf(".text %s %s", gk, leanStr(path)), src)
							continue
						}
						if f, kind := g.c12ClassifyEnc(as.Rhs[0], ev); f == gf && strings.HasPrefix(kind, ".helper ") {
							setEnc(f, written[0], strings.TrimSuffix(kind, ".none")+gk, src)
							continue
						}
					}
				}
				// if v.F != nil { xs := make(…); for _, x := range v.F { y, ok := x.(*T); if !ok { continue }; xs = append(xs, f(y)) }; pb.K = xs }
				if gk == ".nonNil" {
					var rng *ast.RangeStmt
					for _, b := range s.Body.List {
						if r, ok := b.(*ast.RangeStmt); ok {
							rng = r
						}
					}
					if rng != nil {
						if f, ok := c12SelOf(rng.X, ev); ok && f == gf {
							ty, fn, cont := "", "", false
							ast.Inspect(rng.Body, func(n ast.Node) bool {
								switch x := n.(type) {
								case *ast.TypeAssertExpr:
									if x.Type != nil {
										ty = strings.TrimPrefix(g.Src(x.Type), "*")
									}
								case *ast.BranchStmt:
									if x.Tok == token.CONTINUE {
										cont = true
									}
								case *ast.CallExpr:
									if n := c12FuncName(x.Fun); strings.HasPrefix(n, "encode") {
										fn = n
									}
								}
								return true
							})
							if ty != "" && fn != "" && cont {
								setEnc(f, written[0], fmt.Sprintf(".srcLoop %s %s", leanStr(ty), leanStr(fn)), src)
								continue
							}
						}
					}
				}
			}
			f := gf
			if f == "" {
				f = c12FirstSel(s, ev)
			}
			setEnc(f, strings.Join(written, "+"), ".other "+leanStr(src), src)
		case *ast.TypeSwitchStmt:
			written := c12Assigned(s.Body, pbVar)
			if len(written) == 0 {
				continue
			}
			src := g.Src(s)
			// switch x := v.F.(type) { case T: pb.K = x | pb.K = float64(x) }
			f, bound := "", ""
			if as, ok := s.Assign.(*ast.AssignStmt); ok && len(as.Lhs) == 1 && len(as.Rhs) == 1 {
				if ta, ok := as.Rhs[0].(*ast.TypeAssertExpr); ok {
					f, _ = c12SelOf(ta.X, ev)
					bound = g.Src(as.Lhs[0])
				}
			}
			var cases []string
			okAll := f != "" && len(written) == 1
			for _, c := range s.Body.List {
				cc := c.(*ast.CaseClause)
				if len(cc.List) != 1 || len(cc.Body) != 1 {
					okAll = false
					break
				}
				as, ok := cc.Body[0].(*ast.AssignStmt)
				if !ok || len(as.Rhs) != 1 {
					okAll = false
					break
				}
				rhs := g.Src(as.Rhs[0])
				switch rhs {
				case bound:
					cases = append(cases, fmt.Sprintf("(%s, false)", leanStr(g.Src(cc.List[0]))))
				case "float64(" + bound + ")":
					cases = append(cases, fmt.Sprintf("(%s, true)", leanStr(g.Src(cc.List[0]))))
				default:
					okAll = false
				}
			}
			if okAll {
				setEnc(f, written[0], ".ifaceSwitch ["+strings.Join(cases, ", ")+"]", src)
			} else {
				setEnc(c12FirstSel(s, ev), strings.Join(written, "+"), ".other "+leanStr(src), src)
			}
		default:
			if w := c12Assigned(st, pbVar); len(w) > 0 {
				setEnc(c12FirstSel(st, ev), strings.Join(w, "+"), ".other "+leanStr(g.Src(st)), g.Src(st))
			}
		}
	}

	// ---- decoder ----
	resVar := ""
	var decLit *ast.CompositeLit
	ast.Inspect(fd.Body, func(n ast.Node) bool {
		if cl, ok := n.(*ast.CompositeLit); ok && decLit == nil && isStructLit(cl) {
			decLit = cl
			return false
		}
		return true
	})
	if decLit == nil {
		return fmt.Errorf("%s: no literal of %s", decName, structTyp)
	}
	for _, el := range decLit.Elts {
		kv, ok := el.(*ast.KeyValueExpr)
		if !ok {
			return fmt.Errorf("%s: unkeyed literal", decName)
		}
		k, kind := g.c12ClassifyDec(kv.Value, dv)
		setDec(g.Src(kv.Key), k, kind, g.Src(kv.Value))
	}
	for _, st := range fd.Body.List {
		switch s := st.(type) {
		case *ast.AssignStmt:
			if len(s.Lhs) == 1 && len(s.Rhs) == 1 {
				if id, ok := s.Lhs[0].(*ast.Ident); ok && s.Tok == token.DEFINE {
					e := s.Rhs[0]
					if ue, ok := e.(*ast.UnaryExpr); ok {
						e = ue.X
					}
					if cl, ok := e.(*ast.CompositeLit); ok && cl == decLit {
						resVar = id.Name
					}
					continue
				}
				if resVar != "" {
					if f, ok := c12SelOf(s.Lhs[0], resVar); ok {
						k, kind := g.c12ClassifyDec(s.Rhs[0], dv)
						setDec(f, k, kind, g.Src(s.Rhs[0]))
						continue
					}
				}
			}
			if resVar != "" {
				if w := c12Assigned(s, resVar); len(w) > 0 {
					setDec(w[0], "", ".other "+leanStr(g.Src(s)), g.Src(s))
				}
			}
		case *ast.IfStmt:
			if resVar == "" {
				continue
			}
			written := c12Assigned(s.Body, resVar)
			if len(written) == 0 {
				continue
			}
			src := g.Src(s)
			gk, gw := c12Guard(g, s.Cond, dv, true)
			done := false
			if len(written) == 1 && s.Else == nil && gw != "" {
				body := s.Body.List
				// if pb.K != "" { x, err := f(pb.GetK()); if err != nil { return … }; res.F = x | &T{Val: x} }
				if len(body) == 3 {
					if as, ok := body[0].(*ast.AssignStmt); ok && len(as.Rhs) == 1 && len(as.Lhs) == 2 {
						if ce, ok := as.Rhs[0].(*ast.CallExpr); ok && len(ce.Args) == 1 {
							if k, ok := c12PbRead(ce.Args[0], dv); ok && k == gw {
								if _, ok := body[1].(*ast.IfStmt); ok {
									if last, ok := body[2].(*ast.AssignStmt); ok && len(last.Lhs) == 1 {
										if f, ok := c12SelOf(last.Lhs[0], resVar); ok {
											x := g.Src(as.Lhs[0])
											rhs := g.Src(last.Rhs[0])
											if rhs == x || strings.HasSuffix(rhs, "{Val: "+x+"}") {
												setDec(f, k, fmt.Sprintf(".parse %s %s", gk, leanStr(c12FuncName(ce.Fun))), src)
												done = true
											}
										}
									}
								}
							}
						}
					}
				}
				// if pb.GetK() != nil { res.F = f(pb.GetK()) }
				if !done && len(body) == 1 {
					if as, ok := body[0].(*ast.AssignStmt); ok && len(as.Lhs) == 1 && len(as.Rhs) == 1 {
						if f, ok := c12SelOf(as.Lhs[0], resVar); ok {
							if k, kind := g.c12ClassifyDec(as.Rhs[0], dv); k == gw && strings.HasPrefix(kind, ".helper ") {
								setDec(f, k, strings.TrimSuffix(kind, ".none")+gk, src)
								done = true
							}
						}
					}
				}
				// if pb.K != nil { xs := make(…); for i, x := range pb.GetK() { y, err := f(x); …; xs[i] = y }; res.F = xs }
				if !done && gk == ".nonNil" {
					var rng *ast.RangeStmt
					for _, b := range body {
						if r, ok := b.(*ast.RangeStmt); ok {
							rng = r
						}
					}
					if rng != nil {
						if k, ok := c12PbRead(rng.X, dv); ok && k == gw {
							fn := ""
							ast.Inspect(rng.Body, func(n ast.Node) bool {
								if x, ok := n.(*ast.CallExpr); ok {
									if n := c12FuncName(x.Fun); strings.HasPrefix(n, "decode") {
										fn = n
									}
								}
								return true
							})
							if fn != "" {
								setDec(written[0], k, ".srcLoop "+leanStr(fn), src)
								done = true
							}
						}
					}
				}
			}
			if !done {
				setDec(written[0], gw, ".other "+leanStr(src), src)
			}
		default:
			if resVar != "" {
				if w := c12Assigned(st, resVar); len(w) > 0 {
					setDec(w[0], "", ".other "+leanStr(g.Src(st)), g.Src(st))
				}
			}
		}
	}

	// ---- emit ----
	isField := map[string]bool{}
	g.P("def codec_%s : List Row := [", tag)
	var lines []string
	for _, f := range fields {
		isField[f.Name] = true
		r := row(f.Name)
		lines = append(lines, fmt.Sprintf("  { field := %s, goT := %s,\n    encWire := %s, enc := %s,\n    decWire := %s, dec := %s,\n    encSrc := %s,\n    decSrc := %s }",
			leanStr(f.Name), g.c12GoT(f.Type), leanStr(r.EncWire), r.Enc, leanStr(r.DecWire), r.Dec, leanStr(r.EncSrc), leanStr(r.DecSrc)))
	}
	g.P("%s", strings.Join(lines, ",\n"))
	g.P("]")
	for f, r := range rows {
		if !isField[f] {
			stray = append(stray, fmt.Sprintf("not a field of %s: %s (enc %s, dec %s)", structTyp, f, r.EncSrc, r.DecSrc))
		}
	}
	sort.Strings(stray)
	g.StrList("stray_"+tag, stray)
	g.P("")
	return nil
}

func genC12Wire(g *Gen) error {
	const qdir = "lib/util/lifted/influx/query/"
	const pbgo = qdir + "proto/internal.pb.go"
	g.P("/-! ### the shipped message as data: descriptor, struct tags, per-field codec rows -/\n")
	g.P("open OG.C12 (IntT GoT PT WireField TagField Guard EncK DecK Row)\n")
	msgs, err := g.c12RawDesc(pbgo, "file_internal_proto_rawDesc")
	if err != nil {
		return err
	}
	for _, m := range []string{"ProcessorOptions", "Measurement", "Interval", "VarRef", "ObsOptions", "IndexOption", "QuerySchema", "Unnest", "JoinCase"} {
		if err := g.c12EmitDesc(msgs, m); err != nil {
			return err
		}
		if err := g.c12EmitTags(pbgo, m); err != nil {
			return err
		}
		g.P("")
	}
	for _, c := range [][6]string{
		{"options", qdir + "select.go", "ProcessorOptions", "encodeProcessorOptions", "decodeProcessorOptions", "ProcessorOptions"},
		{"measurement", c12dir + "ast.go", "Measurement", "encodeMeasurement", "decodeMeasurement", "Measurement"},
		{"interval", "engine/hybridqp/util.go", "Interval", "encodeInterval", "decodeInterval", "Interval"},
		{"varRef", c12dir + "ast.go", "VarRef", "encodeVarRef", "decodeVarRef", "VarRef"},
		{"obsOptions", "lib/obs/obs_options.go", "ObsOptions", "encodeObsOptions", "decodeObsOptions", "ObsOptions"},
		{"indexOption", c12dir + "ast.go", "IndexOption", "encodeIndexOption", "decodeIndexOption", "IndexOption"},
	} {
		if err := g.c12Codec(c[0], c[1], c[2], qdir+"processor_codec.go", c[3], c[4], c[5]); err != nil {
			return err
		}
	}
	// the list helpers and the map helpers the rows refer to: fingerprints (hand-modelled as `map f`)
	var fps [][2]string
	for _, h := range [][2]string{
		{qdir + "processor_codec.go", "encodeVarRefs"}, {qdir + "processor_codec.go", "decodeVarRefs"},
		{"engine/hybridqp/codec.go", "MapConvert.StructToBool"}, {"engine/hybridqp/codec.go", "MapConvert.BoolToStruct"},
		{qdir + "processor_codec.go", "ProcessorOptions.MarshalBinary"}, {qdir + "processor_codec.go", "ProcessorOptions.UnmarshalBinary"},
	} {
		fp, err := g.Fingerprint(h[0], h[1])
		if err != nil {
			return err
		}
		fps = append(fps, [2]string{h[1], fp})
	}
	g.PairList("wireHelperFingerprints", fps)
	// the re-parse entry points and the printers of what they read, transcribed by hand in Wire.lean / Stmt.lean
	var fps2 [][2]string
	for _, h := range [][2]string{
		{c12dir + "scanner.go", "Scanner.reset"}, {c12dir + "scanner.go", "bufScanner.reset"}, {c12dir + "parser.go", "Parser.reset"},
		{c12dir + "parser.go", "NewParser"}, {c12dir + "parser.go", "ParseExpr"}, {c12dir + "parser.go", "ParseSource"},
		{c12dir + "parser.go", "ParseSortFields"}, {c12dir + "parser.go", "Parser.parseSortFields"}, {c12dir + "parser.go", "Parser.parseSortField"},
		{c12dir + "ast.go", "SortField.RenderBytes"}, {c12dir + "ast.go", "SortFields.RenderBytes"},
		{c12dir + "parser.go", "Parser.parseFields"}, {c12dir + "parser.go", "Parser.parseField"}, {c12dir + "parser.go", "Parser.parseAlias"},
		{c12dir + "ast.go", "Field.RenderBytes"}, {c12dir + "ast.go", "Fields.RenderBytes"}, {"engine/hybridqp/codec.go", "ParseFields"},
	} {
		fp, err := g.Fingerprint(h[0], h[1])
		if err != nil {
			return err
		}
		fps2 = append(fps2, [2]string{h[1], fp})
	}
	g.PairList("reparseFingerprints", fps2)
	g.P("")
	return nil
}
