package main

import (
	"fmt"
	"go/ast"
	"go/token"
	"strings"
)

func init() { register("C10", genC10) }

// C10 — facts the series-index model was written against: thresholds used by the model
// (as definitions), the comparator of sortTagFilterWithCost (translated), the item namespaces and
// separator bytes, how the engine seeds the tsid sequence, and a fingerprint of every function
// the model transcribes (a differing fingerprint = the hand-written model must be re-validated).
func genC10(g *Gen) error {
	const tsi = "engine/index/tsi/"
	g.Header(tsi+"search.go", tsi+"mergeset_index.go", tsi+"search_prune.go", tsi+"tag_filters.go",
		tsi+"index_builder.go", tsi+"cache.go", tsi+"marshal.go", "engine/partition.go", "lib/metaclient/node.go", "lib/config/index.go")
	g.GenNS()

	// numeric thresholds used by the model
	pt, err := g.Const(tsi+"search_prune.go", "pruneThreshold")
	if err != nil {
		return err
	}
	if !isIntLit(pt) {
		return fmt.Errorf("pruneThreshold is not an integer literal: %s", pt)
	}
	g.P("def pruneThreshold : Int := %s", pt)
	ts, err := g.Const("lib/config/index.go", "defaultTagScanPruneThreshold")
	if err != nil {
		return err
	}
	if !isIntLit(ts) {
		return fmt.Errorf("defaultTagScanPruneThreshold is not an integer literal: %s", ts)
	}
	g.P("def defaultTagScanPruneThreshold : Nat := %s", ts)
	for _, c := range [][2]string{{tsi + "search.go", "maxIndexMetrics"}, {tsi + "index_builder.go", "tsidSequenceMask"},
		{"engine/index/mergeindex/merger.go", "MaxTSIDsPerRow"}, {"lib/util/lifted/vm/mergeset/table.go", "rawItemsFlushInterval"}} {
		v, err := g.Const(c[0], c[1])
		if err != nil {
			return err
		}
		g.P("def src_%s : String := %s", c[1], leanStr(v))
	}

	// comparator of sortTagFilterWithCost, translated
	fd, err := g.Func(tsi+"search.go", "indexSearch.sortTagFilterWithCost")
	if err != nil {
		return err
	}
	var lit *ast.FuncLit
	ast.Inspect(fd.Body, func(n ast.Node) bool {
		if fl, ok := n.(*ast.FuncLit); ok && lit == nil {
			lit = fl
			return false
		}
		return lit == nil
	})
	if lit == nil || len(lit.Body.List) < 2 {
		return fmt.Errorf("sortTagFilterWithCost: comparator closure not found")
	}
	if got := g.Src(lit.Body.List[0]); got != "a, b := &tfcosts[i], &tfcosts[j]" {
		return fmt.Errorf("sortTagFilterWithCost: unexpected first statement %q", got)
	}
	t := &Tr{g: g}
	t.Ident = func(name string) string {
		switch name {
		case "a.cost":
			return "aCost"
		case "b.cost":
			return "bCost"
		}
		return ""
	}
	t.Call = func(fun, method, recv string, args []string) string {
		if len(args) != 0 {
			return ""
		}
		switch fun {
		case "a.tf.IsFilterEmptyValue":
			return "aEmpty"
		case "b.tf.IsFilterEmptyValue":
			return "bEmpty"
		}
		return ""
	}
	body, err := t.stmts(lit.Body.List[1:], "")
	if err != nil {
		return fmt.Errorf("sortTagFilterWithCost comparator: %w", err)
	}
	g.P("/-- `less(i, j)` of sortTagFilterWithCost, translated. -/")
	g.P("def tfLess (aEmpty bEmpty : Bool) (aCost bCost : Int) : Bool :=\n  %s\n", body)

	// item namespaces (iota block) and separator bytes
	f, err := g.Parse(tsi + "mergeset_index.go")
	if err != nil {
		return err
	}
	var ns []string
	var seps [][2]string
	for _, d := range f.Decls {
		gd, ok := d.(*ast.GenDecl)
		if !ok || gd.Tok != token.CONST {
			continue
		}
		for _, sp := range gd.Specs {
			vs := sp.(*ast.ValueSpec)
			for i, n := range vs.Names {
				if strings.HasPrefix(n.Name, "nsPrefix") {
					ns = append(ns, n.Name)
				}
				switch n.Name {
				case "escapeChar", "tagSeparatorChar", "kvSeparatorChar", "compositeTagKeyPrefix":
					if i < len(vs.Values) {
						seps = append(seps, [2]string{n.Name, g.Src(vs.Values[i])})
					}
				}
			}
		}
	}
	g.StrList("nsPrefixes", ns)
	g.PairList("separators", seps)

	// how the engine seeds the tsid sequence of a partition
	pf, err := g.Parse("engine/partition.go")
	if err != nil {
		return err
	}
	seed := ""
	ast.Inspect(pf, func(n ast.Node) bool {
		if kv, ok := n.(*ast.KeyValueExpr); ok {
			if id, ok := kv.Key.(*ast.Ident); ok && id.Name == "sequenceID" {
				seed = g.Src(kv.Value)
			}
		}
		return true
	})
	if seed == "" {
		return fmt.Errorf("engine/partition.go: sequenceID initialiser not found")
	}
	g.P("def src_sequenceSeed : String := %s", leanStr(seed))

	// return shapes the model depends on
	for _, fn := range []string{"getTSIDsByTagFilterWithRegex", "getTSIDsByTagFilterNoRegex", "getTSIDBySeriesKey", "searchTSIDsInternal"} {
		r, err := g.Returns(tsi+"search.go", "indexSearch."+fn)
		if err != nil {
			return err
		}
		g.StrList("returns_"+fn, r)
	}

	// fingerprints of the transcribed functions
	var fps [][2]string
	for _, e := range [][2]string{
		{tsi + "search.go", "indexSearch.getTSIDsByTagFilterNoRegex"},
		{tsi + "search.go", "indexSearch.getTSIDsByTagFilterWithRegex"},
		{tsi + "search.go", "indexSearch.searchTSIDsByTagFilterAndDateRange"},
		{tsi + "search.go", "indexSearch.searchTSIDsByTagFilter"},
		{tsi + "search.go", "indexSearch.updateTSIDsByOrSuffixes"},
		{tsi + "search.go", "indexSearch.scanTSIDsForTagFilter"},
		{tsi + "search.go", "indexSearch.getTSIDsForTagFilterSlow"},
		{tsi + "search.go", "indexSearch.getTSIDsByMeasurementName"},
		{tsi + "search.go", "indexSearch.updateTSIDsForPrefix"},
		{tsi + "search.go", "indexSearch.searchTSIDs"},
		{tsi + "search.go", "indexSearch.searchTSIDsInternal"},
		{tsi + "search.go", "indexSearch.searchTSIDsByBinaryExpr"},
		{tsi + "search.go", "indexSearch.containsMeasurement"},
		{tsi + "search.go", "indexSearch.measurementSeriesByExprIterator"},
		{tsi + "search.go", "indexSearch.seriesByExprIterator"},
		{tsi + "search.go", "indexSearch.seriesByBinaryExpr"},
		{tsi + "search.go", "indexSearch.isAllAndExpr"},
		{tsi + "search.go", "indexSearch.seriesByAllAndExprIterator"},
		{tsi + "search.go", "indexSearch.extractTagsAndFilters"},
		{tsi + "search.go", "indexSearch.initTagFilter"},
		{tsi + "search.go", "indexSearch.seriesByTagFilters"},
		{tsi + "search.go", "indexSearch.sortTagFilterWithCost"},
		{tsi + "search.go", "indexSearch.searchTSIDsWithTagFilter"},
		{tsi + "search.go", "indexSearch.getTagFilterCost"},
		{tsi + "search.go", "indexSearch.storeTagFilterCost"},
		{tsi + "search.go", "marshalTagFilterKey"},
		{tsi + "search.go", "indexSearch.getTSIDBySeriesKey"},
		{tsi + "search.go", "indexSearch.searchSeriesKey"},
		{tsi + "search.go", "indexSearch.searchTagValues"},
		{tsi + "search.go", "indexSearch.searchTagValuesBySingleKey"},
		{tsi + "search_prune.go", "indexSearch.doPrune"},
		{tsi + "search_prune.go", "matchSeriesKeyTagFilters"},
		{tsi + "search_prune.go", "matchSeriesKeyTagFilter"},
		{tsi + "mergeset_index.go", "MergeSetIndex.decode"},
		{tsi + "mergeset_index.go", "MergeSetIndex.getSeriesIdBySeriesKey"},
		{tsi + "mergeset_index.go", "MergeSetIndex.createIndexesIfNotExists"},
		{tsi + "mergeset_index.go", "MergeSetIndex.createIndexes"},
		{tsi + "mergeset_index.go", "MergeSetIndex.CreateIndexIfNotExists"},
		{tsi + "mergeset_index.go", "MergeSetIndex.ClearCache"},
		{tsi + "mergeset_index.go", "MergeSetIndex.Close"},
		{tsi + "mergeset_index.go", "MergeSetIndex.Open"},
		{tsi + "mergeset_index.go", "MergeSetIndex.maxStoredSequence"},
		{tsi + "mergeset_index.go", "MergeSetIndex.DeleteTSIDs"},
		{tsi + "mergeset_index.go", "MergeSetIndex.WriteDeleteTsids"},
		{tsi + "mergeset_index.go", "MergeSetIndex.GetDeletedTSIDs"},
		{tsi + "mergeset_index.go", "MergeSetIndex.SearchSeriesIterator"},
		{tsi + "mergeset_index.go", "MergeSetIndex.SearchSeries"},
		{tsi + "mergeset_index.go", "MergeSetIndex.putIndexSearch"},
		{tsi + "mergeset_index.go", "invalidateTagCache"},
		{tsi + "index_builder.go", "IndexBuilder.GenerateUUID"},
		{tsi + "index_builder.go", "IndexBuilder.raiseSequenceID"},
		{tsi + "tag_filters.go", "tagFilter.Marshal"},
		{tsi + "tag_filters.go", "tagFilter.matchSuffix"},
		{tsi + "cache.go", "IndexCache.reset"},
		{tsi + "cache.go", "IndexCache.getFromTagFilterCache"},
		{tsi + "marshal.go", "marshalTagValue"},
		{tsi + "marshal.go", "marshalCompositeTagKey"},
		{"engine/index/mergeindex/parser.go", "BasicRowParser.IsExpectedTag"},
		{"lib/metaclient/node.go", "Node.LoadLogicalClock"},
		{"lib/util/lifted/vm/mergeset/table.go", "Table.DebugFlush"},
		{"lib/util/lifted/vm/mergeset/table.go", "Table.mergeRawItemsBlocks"},
	} {
		fp, err := g.Fingerprint(e[0], e[1])
		if err != nil {
			return err
		}
		name := e[1]
		if i := strings.LastIndexByte(name, '.'); i >= 0 {
			name = name[i+1:]
		}
		fps = append(fps, [2]string{e[0][strings.LastIndexByte(e[0], '/')+1:] + ":" + name, fp})
	}
	g.PairList("fingerprints", fps)
	if err := genC10Bytes(g); err != nil {
		return err
	}
	if err := genC10TF(g); err != nil {
		return err
	}
	g.Footer()
	return nil
}

func isIntLit(s string) bool {
	if s == "" {
		return false
	}
	for _, c := range s {
		if c < '0' || c > '9' {
			return false
		}
	}
	return true
}
