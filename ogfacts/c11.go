package main

import (
	"fmt"
	"go/ast"
	"go/token"
	"strings"
)

func init() { register("C11", genC11) }

// c11Rewrite prepares a function body for the mini translator (which knows neither string
// literals, slicing, indexing, `%`, `&x` nor if/else followed by more statements):
//
//	""                      -> emptyString                 (identifier, mapped by Tr.Ident)
//	x[:n]                   -> goTake(x, n)
//	x[i]                    -> goAt(x, i)
//	a % b                   -> goMod(a, b)
//	&x                      -> goAddr(x)
//	if c {v = A} else {v = B}   -> v = goIte(c, A, B)
//
// The rewritten calls are rendered by Tr.Call in genC11. Anything else outside the
// translator's subset still fails the generation.
func c11RewriteExpr(e ast.Expr) ast.Expr {
	call := func(name string, args ...ast.Expr) ast.Expr {
		return &ast.CallExpr{Fun: ast.NewIdent(name), Args: args}
	}
	switch x := e.(type) {
	case *ast.BasicLit:
		if x.Kind == token.STRING && x.Value == `""` {
			return ast.NewIdent("emptyString")
		}
		return x
	case *ast.ParenExpr:
		x.X = c11RewriteExpr(x.X)
		return x
	case *ast.UnaryExpr:
		x.X = c11RewriteExpr(x.X)
		if x.Op == token.AND {
			return call("goAddr", x.X)
		}
		return x
	case *ast.BinaryExpr:
		x.X = c11RewriteExpr(x.X)
		x.Y = c11RewriteExpr(x.Y)
		if x.Op == token.REM {
			return call("goMod", x.X, x.Y)
		}
		return x
	case *ast.CallExpr:
		for i := range x.Args {
			x.Args[i] = c11RewriteExpr(x.Args[i])
		}
		if se, ok := x.Fun.(*ast.SelectorExpr); ok {
			se.X = c11RewriteExpr(se.X)
		}
		return x
	case *ast.SelectorExpr:
		x.X = c11RewriteExpr(x.X)
		return x
	case *ast.IndexExpr:
		return call("goAt", c11RewriteExpr(x.X), c11RewriteExpr(x.Index))
	case *ast.SliceExpr:
		if x.Low == nil && x.High != nil && x.Max == nil {
			return call("goTake", c11RewriteExpr(x.X), c11RewriteExpr(x.High))
		}
		return x
	}
	return e
}

func c11RewriteStmts(list []ast.Stmt) []ast.Stmt {
	var out []ast.Stmt
	for _, s := range list {
		switch x := s.(type) {
		case *ast.ReturnStmt:
			for i := range x.Results {
				x.Results[i] = c11RewriteExpr(x.Results[i])
			}
		case *ast.AssignStmt:
			for i := range x.Rhs {
				x.Rhs[i] = c11RewriteExpr(x.Rhs[i])
			}
		case *ast.IfStmt:
			x.Cond = c11RewriteExpr(x.Cond)
			x.Body.List = c11RewriteStmts(x.Body.List)
			if eb, ok := x.Else.(*ast.BlockStmt); ok {
				eb.List = c11RewriteStmts(eb.List)
				// if c {v = A} else {v = B}  ->  v = goIte(c, A, B)
				if x.Init == nil && len(x.Body.List) == 1 && len(eb.List) == 1 {
					a, ok1 := x.Body.List[0].(*ast.AssignStmt)
					b, ok2 := eb.List[0].(*ast.AssignStmt)
					if ok1 && ok2 && a.Tok == token.ASSIGN && b.Tok == token.ASSIGN &&
						len(a.Lhs) == 1 && len(b.Lhs) == 1 && len(a.Rhs) == 1 && len(b.Rhs) == 1 {
						va, oka := a.Lhs[0].(*ast.Ident)
						vb, okb := b.Lhs[0].(*ast.Ident)
						if oka && okb && va.Name == vb.Name {
							s = &ast.AssignStmt{Lhs: []ast.Expr{ast.NewIdent(va.Name)}, Tok: token.ASSIGN,
								Rhs: []ast.Expr{&ast.CallExpr{Fun: ast.NewIdent("goIte"), Args: []ast.Expr{x.Cond, a.Rhs[0], b.Rhs[0]}}}}
						}
					}
				}
			}
		}
		out = append(out, s)
	}
	return out
}

// c11Def translates one function after the rewrite; `header` is everything up to ":=".
func c11Def(g *Gen, t *Tr, rel, name, header string, monadic bool) error {
	fd, err := g.Func(rel, name)
	if err != nil {
		return err
	}
	recv := ""
	if fd.Recv != nil && len(fd.Recv.List) == 1 && len(fd.Recv.List[0].Names) == 1 {
		recv = fd.Recv.List[0].Names[0].Name
	}
	body, err := t.stmts(c11RewriteStmts(fd.Body.List), recv)
	if err != nil {
		return fmt.Errorf("%s %s: %w", rel, name, err)
	}
	if monadic {
		g.P("%s := do\n  %s\n", header, body)
	} else {
		g.P("%s :=\n  %s\n", header, body)
	}
	return nil
}

// c11FindIf returns the source of the first if statement of a function whose condition
// prints as cond.
func c11FindIf(g *Gen, rel, name, cond string) (string, error) {
	fd, err := g.Func(rel, name)
	if err != nil {
		return "", err
	}
	res := ""
	ast.Inspect(fd.Body, func(n ast.Node) bool {
		if is, ok := n.(*ast.IfStmt); ok && res == "" && g.Src(is.Cond) == cond {
			res = g.Src(is)
			return false
		}
		return res == ""
	})
	if res == "" {
		return "", fmt.Errorf("%s %s: no `if %s`", rel, name, cond)
	}
	return res, nil
}

func genC11(g *Gen) error {
	const meta = "lib/util/lifted/influx/meta/"
	const shardinfo = meta + "shardinfo.go"
	g.Imports = []string{"OG.C11.Base"}
	g.Header(shardinfo, meta+"retentionpolicy.go", meta+"data.go", "coordinator/points_writer.go",
		"lib/util/lifted/vm/protoparser/influx/parser.go")

	pure := &Tr{g: g}
	pure.Ident = func(name string) string {
		switch name {
		case "emptyString":
			return `""`
		case "prefix":
			return "pfx"
		}
		return ""
	}
	pure.Call = func(fun, method, recv string, args []string) string {
		switch {
		case method == "Before" && len(args) == 1:
			return "(decide (" + recv + " < " + args[0] + "))"
		case method == "After" && len(args) == 1:
			return "(decide (" + recv + " > " + args[0] + "))"
		case fun == "len" && len(args) == 1:
			return "(Go.len " + args[0] + ")"
		case fun == "goTake" && len(args) == 2:
			return "(Go.take " + args[0] + " " + args[1] + ")"
		case fun == "goIte" && len(args) == 3:
			return "(if " + args[0] + " then " + args[1] + " else " + args[2] + ")"
		}
		return ""
	}
	// ShardFor runs in the Option monad: an out-of-range index is a panic (outer none),
	// `return nil` is `pure none`.
	mon := &Tr{g: g}
	mon.Ident = func(name string) string {
		if name == "nil" {
			return "(pure none)"
		}
		return ""
	}
	mon.Call = func(fun, method, recv string, args []string) string {
		switch {
		case fun == "len" && len(args) == 1:
			return "(List.length " + args[0] + ")"
		case fun == "uint64" && len(args) == 1:
			return args[0]
		case fun == "goMod" && len(args) == 2:
			return "(" + args[0] + " % " + args[1] + ")"
		case fun == "goAt" && len(args) == 2:
			return "(← Go.at " + args[0] + " " + args[1] + ")"
		case fun == "goAddr" && len(args) == 1:
			return "(pure (some " + args[0] + "))"
		}
		return ""
	}

	g.P("namespace OG.C11\n")
	for _, d := range []struct {
		t            *Tr
		name, header string
		monadic      bool
	}{
		{pure, "ShardInfo.Contain", "def Shard.Contain (si : Shard) (shardKey : String) : Bool", false},
		{pure, "ShardInfo.ContainPrefix", "def Shard.ContainPrefix (si : Shard) (pfx : String) : Bool", false},
		{pure, "ShardGroupInfo.Contains", "def Group.Contains (sgi : Group) (t : Int) : Bool", false},
		{pure, "ShardGroupInfo.Overlaps", "def Group.Overlaps (sgi : Group) (min max : Int) : Bool", false},
		{mon, "ShardGroupInfo.ShardFor", "def Group.ShardFor (sgi : Group) (hash : Nat) (aliveShardIdxes : List Nat) : Option (Option Shard)", true},
	} {
		if err := c11Def(g, d.t, shardinfo, d.name, d.header, d.monadic); err != nil {
			return err
		}
	}
	// the store's own time-range test on a shard (engine/shard.go: shard.Intersect), used when the
	// store selects shards by time range itself (DBPTInfo.ShardIds / walkShards)
	st := &Tr{g: g}
	st.Ident = func(name string) string {
		switch name {
		case "s.startTime":
			return "startTime"
		case "s.endTime":
			return "endTime"
		case "tr.Max":
			return "tmax"
		case "tr.Min":
			return "tmin"
		}
		return ""
	}
	st.Call = pure.Call
	if err := c11Def(g, st, "engine/shard.go", "shard.Intersect", "def storeIntersect (startTime endTime tmin tmax : Int) : Bool", false); err != nil {
		return err
	}
	g.P("end OG.C11\n")

	g.GenNS()
	// bodies the hand-written model transcribes (loops, type switches): compared with the
	// text the model was written against in OG/C11/Facts.lean
	for _, f := range []struct{ rel, name, lean string }{
		{shardinfo, "getConditionTags", "src_getConditionTags"},
		{shardinfo, "conditionTagsByBinary", "src_conditionTagsByBinary"},
		{shardinfo, "isTimeCondition", "src_isTimeCondition"},
		{shardinfo, "ShardGroupInfo.TargetShards", "src_TargetShards"},
		{shardinfo, "ShardGroupInfo.genShardInfosByIndex", "src_genShardInfosByIndex"},
		{shardinfo, "ShardGroupInfo.TargetShardsHintQuery", "src_TargetShardsHintQuery"},
		{shardinfo, "ShardGroupInfo.getShardsAndSeriesKeyForHintQuery", "src_getShardsAndSeriesKeyForHintQuery"},
		{shardinfo, "ShardGroupInfo.DestShard", "src_DestShard"},
		{shardinfo, "ShardGroupInfo.Deleted", "src_Deleted"},
		{shardinfo, "ShardGroupInfo.Truncated", "src_Truncated"},
		{shardinfo, "HashID", "src_HashID"},
		{shardinfo, "ShardGroupInfos.Less", "src_ShardGroupInfosLess"},
		{meta + "retentionpolicy.go", "RetentionPolicyInfo.ShardGroupByTimestampAndEngineType", "src_ShardGroupByTimestamp"},
		{meta + "data.go", "Data.ShardGroupsByTimeRange", "src_ShardGroupsByTimeRange"},
		{meta + "data.go", "Data.newShardGroup", "src_newShardGroup"},
		{meta + "measurement.go", "MeasurementInfo.GetShardKey", "src_GetShardKey"},
		{"lib/util/lifted/vm/protoparser/influx/parser.go", "Row.UnmarshalShardKeyByTag", "src_UnmarshalShardKeyByTag"},
		{"lib/util/lifted/vm/protoparser/influx/parser.go", "Row.appendShardKey", "src_appendShardKey"},
		{"lib/util/lifted/vm/protoparser/influx/parser.go", "Row.CheckDuplicateTag", "src_CheckDuplicateTag"},
		{"lib/util/lifted/vm/protoparser/influx/parser.go", "PointTags.Less", "src_PointTagsLess"},
		{"lib/util/lifted/vm/protoparser/influx/parser.go", "Row.UnmarshalShardKeyByField", "src_UnmarshalShardKeyByField"},
		{"lib/util/lifted/vm/protoparser/influx/parser.go", "Row.appendShardKeyWithField", "src_appendShardKeyWithField"},
		{"coordinator/write_helper.go", "createShardGroup", "src_createShardGroup"},
	} {
		fd, err := g.Func(f.rel, f.name)
		if err != nil {
			return err
		}
		g.P("def %s : String := %s", f.lean, leanStr(g.Src(fd.Body)))
	}
	// the tail of the write path that the harness recomposes from exported functions
	tail, err := c11FindIf(g, "coordinator/points_writer.go", "PointsWriter.updateShardGroupAndShardKey", "(*si).Type == influxql.RANGE")
	if err != nil {
		return err
	}
	g.P("def src_writeTail : String := %s", leanStr(tail))
	unm, err := c11FindIf(g, "coordinator/points_writer.go", "PointsWriter.updateShardGroupAndShardKey", "!reuseShardKey")
	if err != nil {
		return err
	}
	g.P("def src_writeShardKey : String := %s", leanStr(unm))
	if err := genC11Batch(g); err != nil {
		return err
	}
	c, err := g.Const(shardinfo, "maxConditionTagGroups")
	if err != nil {
		return err
	}
	if strings.TrimSpace(c) == "" {
		return fmt.Errorf("maxConditionTagGroups empty")
	}
	g.P("def maxConditionTagGroups : Nat := %s", c)
	g.Footer()
	return nil
}

// genC11Batch: facts about the stateful batch routing (coordinator/points_writer.go,
// coordinator/write_helper.go) that OG/C11/Batch.lean transcribes.
//
//	skRefreshGuard        the condition under which updateShardGroupAndShardKey re-resolves the
//	                      ShardKeyInfo, translated (the model's step function calls it)
//	routeLoopCalls        the calls on wh / w / ctx in the row loop of routeAndMapOriginRows, in
//	                      source order (sameMeasurement must come before createMeasurement)
//	updateSGCalls         the same for updateShardGroupAndShardKey
//	src_*                 bodies pinned as text
func genC11Batch(g *Gen) error {
	const pw = "coordinator/points_writer.go"
	const whf = "coordinator/write_helper.go"
	upd, err := g.Func(pw, "PointsWriter.updateShardGroupAndShardKey")
	if err != nil {
		return err
	}
	// the if statement whose body assigns *si
	var guard *ast.IfStmt
	ast.Inspect(upd.Body, func(n ast.Node) bool {
		is, ok := n.(*ast.IfStmt)
		if !ok || guard != nil {
			return guard == nil
		}
		for _, st := range is.Body.List {
			inner, ok := st.(*ast.IfStmt)
			if !ok {
				continue
			}
			for _, b := range inner.Body.List {
				if as, ok := b.(*ast.AssignStmt); ok && len(as.Lhs) == 1 && g.Src(as.Lhs[0]) == "*si" {
					guard = is
				}
			}
		}
		return guard == nil
	})
	if guard == nil {
		return fmt.Errorf("%s updateShardGroupAndShardKey: no if statement that assigns *si", pw)
	}
	tr := &Tr{g: g}
	tr.Ident = func(name string) string {
		if name == "wh.sameMst" {
			return "sameMst"
		}
		return ""
	}
	cond, err := tr.expr(guard.Cond)
	if err != nil {
		return fmt.Errorf("%s updateShardGroupAndShardKey guard: %w", pw, err)
	}
	g.P("def skRefreshGuard (sameSg sameMst : Bool) : Bool :=\n  %s\n", cond)

	calls := func(body ast.Node) []string {
		var out []string
		ast.Inspect(body, func(n ast.Node) bool {
			ce, ok := n.(*ast.CallExpr)
			if !ok {
				return true
			}
			se, ok := ce.Fun.(*ast.SelectorExpr)
			if !ok {
				return true
			}
			if id, ok := se.X.(*ast.Ident); ok && (id.Name == "wh" || id.Name == "w" || id.Name == "ctx" || id.Name == "sg" || id.Name == "r") {
				out = append(out, id.Name+"."+se.Sel.Name)
			}
			if g.Src(se.X) == "w.MetaClient" {
				out = append(out, "w.MetaClient."+se.Sel.Name)
			}
			return true
		})
		return out
	}
	route, err := g.Func(pw, "PointsWriter.routeAndMapOriginRows")
	if err != nil {
		return err
	}
	var loop *ast.ForStmt
	for _, st := range route.Body.List {
		if fs, ok := st.(*ast.ForStmt); ok && fs.Cond != nil && g.Src(fs.Cond) == "i < len(rows)" {
			loop = fs
		}
	}
	if loop == nil {
		return fmt.Errorf("%s routeAndMapOriginRows: row loop not found", pw)
	}
	g.StrList("routeLoopCalls", calls(loop.Body))
	g.StrList("updateSGCalls", calls(upd.Body))
	g.P("def src_updateShardGroupAndShardKey : String := %s", leanStr(g.Src(upd.Body)))
	drop, err := c11FindIf(g, pw, "PointsWriter.routeAndMapOriginRows", "isDropRow")
	if err != nil {
		return err
	}
	g.P("def src_dropRowBranch : String := %s", leanStr(drop))
	for _, f := range []struct{ rel, name, lean string }{
		{whf, "writeHelper.sameMeasurement", "src_sameMeasurement"},
		{whf, "writeHelper.createMeasurement", "src_whCreateMeasurement"},
		{whf, "createMeasurement", "src_createMeasurement"},
		{whf, "createMeasurementBase", "src_createMeasurementBase"},
		{whf, "writeHelper.createShardGroup", "src_whCreateShardGroup"},
		{whf, "writeHelper.reset", "src_whReset"},
	} {
		fd, err := g.Func(f.rel, f.name)
		if err != nil {
			return err
		}
		g.P("def %s : String := %s", f.lean, leanStr(g.Src(fd.Body)))
	}
	// the read side's loop: coordinator/shard_mapper.go
	const sm = "coordinator/shard_mapper.go"
	mm, err := g.Func(sm, "ClusterShardMapper.mapMstShards")
	if err != nil {
		return err
	}
	g.P("def src_mapMstShards : String := %s", leanStr(g.Src(mm.Body)))
	// the arguments TargetShards is called with, and where the ShardKeyInfo passed to it is assigned
	var tsArgs []string
	skiAssignedInGroupLoop := false
	ast.Inspect(mm.Body, func(n ast.Node) bool {
		switch x := n.(type) {
		case *ast.CallExpr:
			if se, ok := x.Fun.(*ast.SelectorExpr); ok && se.Sel.Name == "TargetShards" {
				tsArgs = nil
				for _, a := range x.Args {
					tsArgs = append(tsArgs, g.Src(a))
				}
			}
		case *ast.RangeStmt:
			if g.Src(x.X) == "groups" {
				ast.Inspect(x.Body, func(m ast.Node) bool {
					if as, ok := m.(*ast.AssignStmt); ok && len(as.Lhs) == 1 && g.Src(as.Lhs[0]) == "ski" && as.Tok == token.DEFINE {
						skiAssignedInGroupLoop = true
					}
					return true
				})
			}
		}
		return true
	})
	g.StrList("targetShardsArgs", tsArgs)
	g.P("def skiDeclaredInGroupLoop : Bool := %v", skiAssignedInGroupLoop)
	ms, err := g.Func(sm, "ClusterShardMapper.mapShards")
	if err != nil {
		return err
	}
	subCase := ""
	ast.Inspect(ms.Body, func(n ast.Node) bool {
		if cc, ok := n.(*ast.CaseClause); ok && len(cc.List) == 1 && g.Src(cc.List[0]) == "*influxql.SubQuery" && subCase == "" {
			var parts []string
			for _, st := range cc.Body {
				parts = append(parts, g.Src(st))
			}
			subCase = strings.Join(parts, " ")
		}
		return true
	})
	if subCase == "" {
		return fmt.Errorf("%s mapShards: no case *influxql.SubQuery", sm)
	}
	g.P("def src_mapShardsSubQuery : String := %s", leanStr(subCase))
	gt, err := g.Func(sm, "ClusterShardMapper.getTargetShardMsg")
	if err != nil {
		return err
	}
	g.P("def src_getTargetShardMsg : String := %s", leanStr(g.Src(gt.Body)))
	// alive-shard lists (OG.C11.Alive)
	const mc = "lib/metaclient/meta_client_impl.go"
	for _, f := range []struct{ name, lean string }{
		{"Client.GetAliveShards", "src_GetAliveShards"},
		{"Client.getAliveShardsForWAF", "src_getAliveShardsForWAF"},
		{"Client.getAliveShardsForHardWrite", "src_getAliveShardsForHardWrite"},
	} {
		fd, err := g.Func(mc, f.name)
		if err != nil {
			return err
		}
		g.P("def %s : String := %s", f.lean, leanStr(g.Src(fd.Body)))
	}
	msk, err := g.Const(pw, "MaxShardKey")
	if err != nil {
		return err
	}
	g.P("def maxShardKey : Nat := %s", msk)
	return nil
}
