package main

import (
	"go/ast"
	"go/token"
	"sort"
)

// C20, readers and conditions as the stateful objects they are: one PKIndexReader, one key
// condition and one set of skip-index file readers serve every file of a query (and the
// shard-level reader lives across queries). The model of a scan takes only its arguments, so the
// tie has to say which state the real objects carry: the field list of every reader / condition
// struct and every assignment to a receiver field inside their methods are regenerated and compared
// with recorded expectations (OG/C20/SeqFacts.lean). A new cached field, or a method that starts
// to write one, is a broken obligation to be judged; the sequence ops supply the failing input.
func genC20State(g *Gen) error {
	const sk = "engine/index/sparseindex/"
	for _, t := range [][3]string{
		{sk + "primary_index.go", "PKIndexReaderImpl", "PKIndexReaderImpl"},
		{sk + "skip_index.go", "SKIndexReaderImpl", "SKIndexReaderImpl"},
		{sk + "util.go", "IndexProperty", "IndexProperty"},
		{sk + "condition.go", "KeyConditionImpl", "KeyConditionImpl"},
		{sk + "condition.go", "SKConditionImpl", "SKConditionImpl"},
		{sk + "util.go", "RPNElement", "RPNElement"},
		{sk + "bloom_filter_index.go", "BloomFilterIndexReader", "BloomFilterIndexReader"},
		{sk + "bloom_filter_fulltext_index.go", "BloomFilterFullTextIndexReader", "BloomFilterFullTextIndexReader"},
		{sk + "min_max_index.go", "MinMaxIndexReader", "MinMaxIndexReader"},
		{sk + "set_index.go", "SetIndexReader", "SetIndexReader"},
		{"engine/index/textindex/textindex_reader.go", "TextIndexReader", "TextIndexReader"},
	} {
		fields, err := g.c20StructFields(t[0], t[1])
		if err != nil {
			return err
		}
		g.StrList("fields_"+t[2], fields)
		if t[1] == "IndexProperty" || t[1] == "RPNElement" {
			continue
		}
		w, err := g.c20ReceiverWrites(t[0], t[1])
		if err != nil {
			return err
		}
		g.PairList("writes_"+t[2], w)
	}
	// the production callers that share the objects over the files of a query
	ctxFields, err := g.c20StructFields("engine/hybrid_index_reader.go", "indexContext")
	if err != nil {
		return err
	}
	g.StrList("fields_indexContext", ctxFields)
	for _, f := range [][3]string{
		{"engine/hybrid_index_reader.go", "NewIndexContext", "seqNewIndexContext"},
		{"engine/hybrid_index_reader.go", "attachedIndexReader.Init", "seqAttachedInit"},
		{"engine/hybrid_index_reader.go", "attachedIndexReader.Next", "seqAttachedNext"},
		{sk + "primary_index.go", "PKIndexReaderImpl.createFieldRefFunc", "pkCreateFieldRefFunc"},
		{sk + "primary_index.go", "PKIndexReaderImpl.Scan", "pkScan"},
		{sk + "primary_index.go", "NewPKIndexReader", "pkNewPKIndexReader"},
	} {
		d, err := g.Func(f[0], f[1])
		if err != nil {
			return err
		}
		g.P("def src_%s : String := %s", f[2], leanStr(g.Src(d.Body)))
	}
	return nil
}

// c20StructFields lists "name type" for every field of a struct type, in source order.
func (g *Gen) c20StructFields(rel, name string) ([]string, error) {
	f, err := g.Parse(rel)
	if err != nil {
		return nil, err
	}
	var out []string
	found := false
	ast.Inspect(f, func(n ast.Node) bool {
		ts, ok := n.(*ast.TypeSpec)
		if !ok || ts.Name.Name != name {
			return true
		}
		st, ok := ts.Type.(*ast.StructType)
		if !ok {
			return false
		}
		found = true
		for _, fl := range st.Fields.List {
			ty := g.Src(fl.Type)
			if len(fl.Names) == 0 {
				out = append(out, "(embedded) "+ty)
			}
			for _, nm := range fl.Names {
				out = append(out, nm.Name+" "+ty)
			}
		}
		return false
	})
	if !found {
		return nil, c20ErrNotFound(rel, "struct "+name)
	}
	return out, nil
}

type c20NotFound struct{ rel, what string }

func (e c20NotFound) Error() string         { return e.rel + ": " + e.what + " not found" }
func c20ErrNotFound(rel, what string) error { return c20NotFound{rel, what} }

// c20ReceiverWrites lists (method, assigned expression) for every statement of a method of the type
// that assigns to, increments or appends into something reached through the receiver.
func (g *Gen) c20ReceiverWrites(rel, typ string) ([][2]string, error) {
	f, err := g.Parse(rel)
	if err != nil {
		return nil, err
	}
	var out [][2]string
	for _, d := range f.Decls {
		fd, ok := d.(*ast.FuncDecl)
		if !ok || fd.Recv == nil || len(fd.Recv.List) != 1 || typeName(fd.Recv.List[0].Type) != typ || fd.Body == nil {
			continue
		}
		if len(fd.Recv.List[0].Names) != 1 {
			continue
		}
		recv := fd.Recv.List[0].Names[0].Name
		rooted := func(e ast.Expr) bool {
			for {
				switch x := e.(type) {
				case *ast.SelectorExpr:
					if id, ok := x.X.(*ast.Ident); ok && id.Name == recv {
						return true
					}
					e = x.X
				case *ast.IndexExpr:
					e = x.X
				case *ast.StarExpr:
					e = x.X
				case *ast.ParenExpr:
					e = x.X
				default:
					return false
				}
			}
		}
		ast.Inspect(fd.Body, func(n ast.Node) bool {
			switch s := n.(type) {
			case *ast.AssignStmt:
				if s.Tok == token.DEFINE {
					return true
				}
				for _, l := range s.Lhs {
					if rooted(l) {
						out = append(out, [2]string{fd.Name.Name, g.Src(l)})
					}
				}
			case *ast.IncDecStmt:
				if rooted(s.X) {
					out = append(out, [2]string{fd.Name.Name, g.Src(s.X)})
				}
			}
			return true
		})
	}
	sort.SliceStable(out, func(i, j int) bool { return out[i][0] < out[j][0] })
	return out, nil
}
