package main

// C16 — the catalogue model (lean/OG/Meta/Model.lean) is a hand transcription of the command
// implementations below. Their fingerprints (canonical source text without comments, hashed)
// are regenerated on every run and compared with the values the model was written against: a
// differing fingerprint means "the modelled source changed, re-validate" — the correspondence
// run then decides whether behaviour still agrees and supplies the failing input.

func init() { register("C16", genC16) }

func genC16(g *Gen) error {
	g.Header(metaDir+"data.go", metaDir+"retentionpolicy.go", metaDir+"shardinfo.go", metaDir+"indexinfo.go", metaDir+"apply_func_base.go")
	g.GenNS()
	type fn struct{ file, name string }
	fns := []fn{
		{"data.go", "Data.CreateDatabase"}, {"data.go", "Data.CheckCanCreateDatabase"}, {"data.go", "Data.DropDatabase"}, {"data.go", "Data.MarkDatabaseDelete"},
		{"data.go", "Data.CheckCanCreateRetentionPolicy"}, {"data.go", "Data.CreateRetentionPolicy"}, {"data.go", "Data.SetRetentionPolicy"},
		{"data.go", "Data.DropRetentionPolicy"}, {"data.go", "Data.MarkRetentionPolicyDelete"}, {"data.go", "Data.SetDefaultRetentionPolicy"},
		{"data.go", "Data.UpdateRetentionPolicy"}, {"retentionpolicy.go", "RetentionPolicyInfo.updateWithOtherRetentionPolicy"},
		{"retentionpolicy.go", "RetentionPolicyInfo.CheckSpecValid"}, {"retentionpolicy.go", "RetentionPolicyInfo.checkGeqThanMinDuration"},
		{"retentionpolicy.go", "RetentionPolicyInfo.checkGeqThanShardGroupDuration"}, {"retentionpolicy.go", "RetentionPolicyInfo.checkLeqThanDuration"},
		{"retentionpolicy.go", "RetentionPolicyInfo.checkShardMergeDuration"}, {"retentionpolicy.go", "RetentionPolicyInfo.checkIndexColdDuration"},
		{"retentionpolicy.go", "shardGroupDuration"}, {"retentionpolicy.go", "normalisedShardDuration"}, {"retentionpolicy.go", "normalisedShardMergeDuration"},
		{"indexinfo.go", "normalisedIndexDuration"}, {"retentionpolicy.go", "RetentionPolicyInfo.EqualsAnotherRp"},
		{"retentionpolicy.go", "RetentionPolicyInfo.ShardGroupByTimestampAndEngineType"}, {"retentionpolicy.go", "RetentionPolicyInfo.validMeasurementShardType"},
		{"retentionpolicy.go", "RetentionPolicyInfo.Measurement"}, {"retentionpolicy.go", "RetentionPolicyInfo.maxShardGroupID"},
		{"data.go", "Data.CreateMeasurement"}, {"data.go", "Data.createVersionMeasurement"}, {"data.go", "Data.UpdateSchema"}, {"data.go", "checkFieldsToCreate"},
		{"data.go", "Data.AlterShardKey"}, {"data.go", "Data.Measurement"}, {"data.go", "Data.MarkMeasurementDelete"}, {"data.go", "Data.DropMeasurement"},
		{"data.go", "Data.CreateShardGroup"}, {"data.go", "Data.newShardGroup"}, {"data.go", "Data.createShards"}, {"data.go", "Data.CreateIndexGroup"},
		{"data.go", "Data.createIndexGroupIfNeeded"}, {"data.go", "Data.DeleteShardGroup"}, {"data.go", "Data.DeleteIndexGroup"},
		{"data.go", "Data.pruneShardGroups"}, {"data.go", "Data.pruneIndexGroups"}, {"data.go", "Data.SchemaClean"},
		{"shardinfo.go", "ShardGroupInfos.Less"}, {"indexinfo.go", "IndexGroupInfos.Less"}, {"shardinfo.go", "ShardGroupInfo.Contains"},
		{"data.go", "Data.CreateDataNode"}, {"data.go", "Data.initDataNodePtView"}, {"data.go", "Data.expandDBPtView"}, {"data.go", "Data.updatePtStatus"},
		{"data.go", "Data.DBReplicaN"}, {"data.go", "Data.CreateDBPtView"}, {"data.go", "assignPtForWAF"}, {"data.go", "Data.UpdateShardInfoTier"},
		{"data.go", "Data.CreateUser"}, {"data.go", "Data.DropUser"}, {"data.go", "Data.UpdateUser"}, {"data.go", "Data.SetPrivilege"}, {"data.go", "Data.SetAdminPrivilege"},
		{"apply_func_base.go", "ApplyCreateDataNode"}, {"apply_func_base.go", "ApplyCreateDbPtViewCommand"}, {"apply_func_base.go", "ApplyUpdateRetentionPolicy"},
		{"apply_func_base.go", "ApplyCreateShardGroup"}, {"apply_func_base.go", "ApplyDeleteShardGroup"},
	}
	var rows [][2]string
	for _, f := range fns {
		fp, err := g.Fingerprint(metaDir+f.file, f.name)
		if err != nil {
			return err
		}
		rows = append(rows, [2]string{f.name, fp})
	}
	fp, err := g.Fingerprint("app/ts-meta/meta/store_fsm.go", "storeFSM.applyCreateDatabaseCommand")
	if err != nil {
		return err
	}
	rows = append(rows, [2]string{"storeFSM.applyCreateDatabaseCommand", fp})
	g.PairList("fingerprints", rows)

	// the functions the second model layer (OG/Meta/Model2.lean) transcribes
	fns2 := []fn{
		{"data.go", "Data.UpdateIndexInfoTier"}, {"data.go", "Data.UpdatePtVersion"}, {"data.go", "Data.ReSharding"}, {"data.go", "Data.createIndexGroup"},
		{"data.go", "Data.CreateShardGroupWithBounds"}, {"data.go", "Data.ExpandGroups"}, {"retentionpolicy.go", "RetentionPolicyInfo.shardingType"},
		{"retentionpolicy.go", "RetentionPolicyInfo.firstMeasurement"}, {"data.go", "Data.MarkTakeover"}, {"data.go", "Data.MarkBalancer"},
		{"data.go", "Data.CreateSubscription"}, {"data.go", "Data.DropSubscription"},
		{"continuous_query.go", "Data.CreateContinuousQueryBase"}, {"continuous_query.go", "Data.CreateContinuousQuery"},
		{"continuous_query.go", "Data.DropContinuousQueryBase"}, {"continuous_query.go", "Data.DropContinuousQuery"},
		{"continuous_query.go", "Data.BatchUpdateContinuousQueryStat"}, {"continuous_query.go", "ContinuousQueryInfo.UpdateContinuousQueryStat"},
		{"data.go", "Data.SetStream"}, {"data.go", "Data.CreateStream"}, {"data.go", "Data.DropStream"}, {"stream.go", "StreamInfo.Equal"},
		{"data.go", "Data.CheckStreamExistInDatabase"}, {"data.go", "Data.CheckStreamExistInRetention"}, {"data.go", "Data.CheckStreamExistInMst"},
		{"apply_func_base.go", "ApplyUpdatePtVersion"}, {"apply_func_base.go", "ApplyReSharding"},
	}
	var rows2 [][2]string
	for _, f := range fns2 {
		fp, err := g.Fingerprint(metaDir+f.file, f.name)
		if err != nil {
			return err
		}
		rows2 = append(rows2, [2]string{f.name, fp})
	}
	for _, name := range []string{"storeFSM.applyDropDatabaseCommand", "storeFSM.applyCreateContinuousQueryCommand", "storeFSM.applyDropContinuousQueryCommand", "storeFSM.applyExpandGroupsCommand"} {
		fp, err := g.Fingerprint("app/ts-meta/meta/store_fsm.go", name)
		if err != nil {
			return err
		}
		rows2 = append(rows2, [2]string{name, fp})
	}
	g.PairList("fingerprints2", rows2)
	// the group boundary computation, verbatim (the subject of the alignment clause)
	fd, err := g.Func(metaDir+"data.go", "Data.newShardGroup")
	if err != nil {
		return err
	}
	g.P("def src_newShardGroup : String := %s", leanStr(g.Src(fd.Body)))
	for _, c := range [][2]string{{"data.go", "MinRetentionPolicyDuration"}, {"data.go", "MarkDelete"}, {"data.go", "CancelDelete"}} {
		v, err := g.Const(metaDir+c[0], c[1])
		if err != nil {
			return err
		}
		g.P("def const_%s : String := %s", c[1], leanStr(v))
	}
	g.Footer()
	return nil
}
