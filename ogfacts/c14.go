package main

import (
	"fmt"
	"go/ast"
	"go/token"
	"strings"
)

func init() { register("C14", genC14) }

// genC14 regenerates the expiry predicates of the retention path as Lean definitions over
// Int nanoseconds:
//
//	engine/shard.go    (*shard).IsExpired            -> OG.C14.shardIsExpired
//	engine/engine.go   (*EngineImpl).nilShardIsExpired -> OG.C14.nilShardIsExpired
//	coordinator/context.go (*injestionCtx).checkDBRP : the `minTime` statement
//	                                                   -> OG.C14.writeMinTime
//	coordinator/points_writer.go: `r.Timestamp < ctx.minTime` -> OG.C14.writeRejected
//	meta/shardinfo.go  ShardGroupInfo.Overlaps         -> OG.C14.groupOverlaps
//
// time.Time is an Int (ns), time.Duration is an Int (ns); `time.Now().UTC()` is the explicit
// parameter `wallNow`; x.Add(d) is x + d, x.Before(y) is x < y, x.After(y) is x > y,
// x.Equal(y) is x == y, x.Sub(y) is x - y.  Anything outside this vocabulary is a generation
// failure (the Lean build then fails, which is the point).
//
// Besides the translated definitions it emits, as data: the source text of the statements of
// ExpiredShards / UpdateShardDurationInfo / the service loop the hand-written model
// transcribes, so that Facts.lean notices when their shape changes.
func genC14(g *Gen) error {
	g.Header("engine/shard.go", "engine/engine.go", "services/retention/service.go", "coordinator/context.go",
		"coordinator/points_writer.go", "lib/util/lifted/influx/meta/data.go", "lib/util/lifted/influx/meta/shardinfo.go")
	t := &Tr{g: g}
	t.Ident = func(name string) string {
		switch name {
		case "s.durationInfo.Duration":
			return "duration"
		case "s.endTime":
			return "endTime"
		case "s.rp.Duration":
			return "duration"
		case "r.Timestamp":
			return "ts"
		case "ctx.minTime":
			return "minTime"
		case "sgi.StartTime":
			return "startTime"
		case "sgi.EndTime":
			return "endTime"
		case "min":
			return "tmin"
		case "max":
			return "tmax"
		}
		return ""
	}
	t.Call = c14Call
	g.P("namespace OG.C14\n")
	// Go's int64 (and time.Duration) arithmetic wraps; time.Time arithmetic (Add / Sub / Before /
	// After on values built from int64 nanoseconds) does not. Every `+`, `-`, `*` of a translated
	// function is therefore rendered through wrap64, every Time method exactly (c14WrapArith).
	var wrapped []*ast.FuncDecl
	g.P("/-- two's-complement wrap of an integer into the int64 range. -/")
	g.P("def wrap64 (x : Int) : Int := (x + 9223372036854775808) %% 18446744073709551616 - 9223372036854775808\n")
	for _, f := range [][2]string{{"engine/shard.go", "shard.IsExpired"}, {"engine/shard.go", "shard.IsTierExpired"},
		{"engine/engine.go", "EngineImpl.nilShardIsExpired"}, {"coordinator/context.go", "injestionCtx.checkDBRP"},
		{"coordinator/points_writer.go", "PointsWriter.routeAndMapOriginRows"}, {"lib/util/lifted/influx/meta/shardinfo.go", "ShardGroupInfo.Overlaps"},
		{"engine/index/tsi/index_builder.go", "IndexBuilder.SetDuration"}, {"engine/index/tsi/index_builder.go", "IndexBuilder.Expired"},
		{"engine/index/tsi/index_builder.go", "IndexBuilder.ExpiredCache"}, {"engine/index/tsi/index_builder.go", "IndexBuilder.IsTierExpired"},
		{"lib/metaclient/meta_client_impl.go", "Client.GetExpiredShards"}, {"lib/metaclient/meta_client_impl.go", "Client.GetExpiredIndexes"}} {
		fd, err := g.Func(f[0], f[1])
		if err != nil {
			return err
		}
		c14WrapArith(fd.Body)
		wrapped = append(wrapped, fd)
	}
	if err := t.Method("engine/shard.go", "shard.IsExpired", "shardIsExpired", "(wallNow duration endTime : Int)", "Bool"); err != nil {
		return err
	}
	if err := t.Method("engine/engine.go", "EngineImpl.nilShardIsExpired", "nilShardIsExpired", "(wallNow duration endTime : Int)", "Bool"); err != nil {
		return err
	}

	// --- write-side window check: `if s.rp.Duration > 0 { s.minTime = int64(fasttime.UnixTimestamp()*1e9) - s.rp.Duration.Nanoseconds() }`
	// in checkDBRP (minTime is reset to 0 before), and `r.Timestamp < ctx.minTime` in routeAndMapOriginRows.
	fd, err := g.Func("coordinator/context.go", "injestionCtx.checkDBRP")
	if err != nil {
		return err
	}
	var ifs *ast.IfStmt
	ast.Inspect(fd.Body, func(n ast.Node) bool {
		if s, ok := n.(*ast.IfStmt); ok && strings.Contains(g.Src(s.Cond), "rp.Duration") {
			ifs = s
			return false
		}
		return true
	})
	if ifs == nil {
		return fmt.Errorf("coordinator/context.go checkDBRP: no `if s.rp.Duration …` statement")
	}
	if ifs.Else != nil || len(ifs.Body.List) != 1 {
		return fmt.Errorf("coordinator/context.go checkDBRP: unexpected shape of the minTime statement: %s", g.Src(ifs))
	}
	as, ok := ifs.Body.List[0].(*ast.AssignStmt)
	if !ok || len(as.Lhs) != 1 || len(as.Rhs) != 1 || g.Src(as.Lhs[0]) != "s.minTime" || as.Tok != token.ASSIGN {
		return fmt.Errorf("coordinator/context.go checkDBRP: unexpected minTime assignment: %s", g.Src(ifs))
	}
	c14IntLits(as.Rhs[0])
	cond, err := t.expr(ifs.Cond)
	if err != nil {
		return err
	}
	rhs, err := t.expr(as.Rhs[0])
	if err != nil {
		return err
	}
	// reset value of minTime (injestionCtx.Reset): must be the literal 0
	rfd, err := g.Func("coordinator/context.go", "injestionCtx.Reset")
	if err != nil {
		return err
	}
	reset := ""
	ast.Inspect(rfd.Body, func(n ast.Node) bool {
		if a, ok := n.(*ast.AssignStmt); ok && len(a.Lhs) == 1 && g.Src(a.Lhs[0]) == "s.minTime" && len(a.Rhs) == 1 {
			reset = g.Src(a.Rhs[0])
		}
		return true
	})
	if reset != "0" {
		return fmt.Errorf("coordinator/context.go Reset: minTime reset value is %q, want 0", reset)
	}
	g.P("def writeMinTime (nowSec duration : Int) : Int :=\n  if %s then\n    %s\n  else\n    %s\n", cond, rhs, reset)

	// the rejection test itself: first operand of the `||` guarding WritePointOutOfRP
	wfd, err := g.Func("coordinator/points_writer.go", "PointsWriter.routeAndMapOriginRows")
	if err != nil {
		return err
	}
	var rej ast.Expr
	ast.Inspect(wfd.Body, func(n ast.Node) bool {
		s, ok := n.(*ast.IfStmt)
		if !ok || rej != nil {
			return rej == nil
		}
		if strings.Contains(g.Src(s.Body), "errno.WritePointOutOfRP") && !strings.Contains(g.Src(s.Cond), "err") {
			if b, ok := s.Cond.(*ast.BinaryExpr); ok && b.Op == token.LOR {
				rej = b.X
				g.P("def writeRejectOtherSrc : String := %s", leanStr(g.Src(b.Y)))
			}
			return false
		}
		return true
	})
	if rej == nil {
		return fmt.Errorf("coordinator/points_writer.go: WritePointOutOfRP guard not found")
	}
	rs, err := t.expr(rej)
	if err != nil {
		return err
	}
	g.P("def writeRejected (ts minTime : Int) : Bool :=\n  %s\n", rs)
	// ShardGroupInfo.Overlaps(min, max): which groups a query for [min, max] may read
	if err := t.Method("lib/util/lifted/influx/meta/shardinfo.go", "ShardGroupInfo.Overlaps", "groupOverlaps", "(startTime endTime tmin tmax : Int)", "Bool"); err != nil {
		return err
	}
	// index side (c14ix.go): IndexBuilder.SetDuration / Expired / ExpiredCache / IsTierExpired, shard.IsTierExpired
	if err := c14IxDefs(g, t); err != nil {
		return err
	}
	// the command path of ALTER RETENTION POLICY (c14cmd.go)
	if err := c14CmdDefs(g); err != nil {
		return err
	}
	// shared-storage retention decided by the catalogue (c14sh.go)
	if err := c14SharedDefs(g, t); err != nil {
		return err
	}
	g.P("end OG.C14\n")
	// the source shapes below are printed from the same syntax trees: undo the rewrite first
	for _, fd := range wrapped {
		c14UnwrapArith(fd.Body)
	}

	// --- shapes the hand-written model transcribes ------------------------------------
	g.GenNS()
	for _, f := range [][3]string{
		{"engine/engine.go", "EngineImpl.ExpiredShards", "src_ExpiredShards"},
		{"engine/engine.go", "EngineImpl.UpdateShardDurationInfo", "src_UpdateShardDurationInfo"},
		{"engine/engine.go", "EngineImpl.containSid", "src_containSid"},
		{"services/retention/service.go", "Service.handle", "src_handle"},
		{"services/retention/service.go", "Service.updateShardDurationInfo", "src_updateShardDurationInfo"},
		{"services/retention/service.go", "Service.updateDurationInfo", "src_updateDurationInfo"},
		{"services/retention/service.go", "Service.DeleteShardOrIndex", "src_DeleteShardOrIndex"},
		{"lib/util/lifted/influx/meta/data.go", "Data.DeleteShardGroup", "src_DeleteShardGroup"},
		{"lib/util/lifted/influx/meta/data.go", "Data.pruneShardGroups", "src_pruneShardGroups"},
		{"lib/util/lifted/influx/meta/data.go", "Data.ShardGroupsByTimeRange", "src_ShardGroupsByTimeRange"},
		{"lib/util/lifted/influx/meta/shardinfo.go", "ShardGroupInfo.canDelete", "src_canDelete"},
		{"lib/util/lifted/influx/meta/shardinfo.go", "ShardGroupInfo.Deleted", "src_Deleted"},
		{"lib/util/lifted/influx/meta/shardinfo.go", "ShardGroupInfo.Overlaps", "src_Overlaps"},
	} {
		fd, err := g.Func(f[0], f[1])
		if err != nil {
			return err
		}
		g.P("def %s : String := %s", f[2], leanStr(c14StripLogs(g, fd.Body)))
	}
	// the shard part of HandleLocalStorage: the first `for` loop of the function
	hfd, err := g.Func("services/retention/service.go", "Service.HandleLocalStorage")
	if err != nil {
		return err
	}
	var pre []ast.Stmt
	var loop *ast.RangeStmt
	for _, s := range hfd.Body.List {
		if r, ok := s.(*ast.RangeStmt); ok {
			loop = r
			break
		}
		pre = append(pre, s)
	}
	if loop == nil {
		return fmt.Errorf("HandleLocalStorage: no range loop")
	}
	var parts []string
	for _, s := range pre {
		parts = append(parts, g.Src(s))
	}
	parts = append(parts, "for "+g.Src(loop.Key)+" := range "+g.Src(loop.X)+" "+c14StripLogs(g, loop.Body))
	g.P("def src_HandleLocalStorage_shards : String := %s", leanStr(strings.Join(parts, "; ")))
	// which duration DurationInfos hands to the store: the policy's
	dfd, err := g.Func("lib/util/lifted/influx/meta/data.go", "Data.DurationInfos")
	if err != nil {
		return err
	}
	var durAssign []string
	ast.Inspect(dfd.Body, func(n ast.Node) bool {
		if a, ok := n.(*ast.AssignStmt); ok && len(a.Lhs) == 1 {
			l := g.Src(a.Lhs[0])
			if l == "durationInfo.DurationInfo.Duration" || l == "durationInfo.Ident.EndTime" || l == "durationInfo.Ident.ShardGroupID" || l == "durationInfo.Ident.ShardID" {
				durAssign = append(durAssign, g.Src(a))
			}
		}
		return true
	})
	g.StrList("durationInfos_assign", durAssign)
	if err := c14IxShapes(g); err != nil {
		return err
	}
	if err := c14SharedShapes(g); err != nil {
		return err
	}
	if err := c14CmdShapes(g); err != nil {
		return err
	}
	g.Footer()
	return nil
}

// c14Call: the time vocabulary.
func c14Call(fun, method, recv string, args []string) string {
	switch fun {
	case "time.Now":
		if len(args) == 0 {
			return "wallNow"
		}
	case "fasttime.UnixTimestamp":
		if len(args) == 0 {
			return "nowSec"
		}
	case "int64", "time.Duration":
		if len(args) == 1 {
			return args[0]
		}
	case "w64add":
		if len(args) == 2 {
			return "(wrap64 (" + args[0] + " + " + args[1] + "))"
		}
	case "w64sub":
		if len(args) == 2 {
			return "(wrap64 (" + args[0] + " - " + args[1] + "))"
		}
	case "w64mul":
		if len(args) == 2 {
			return "(wrap64 (" + args[0] + " * " + args[1] + "))"
		}
	}
	switch method {
	case "UTC":
		if len(args) == 0 {
			return recv
		}
	case "Nanoseconds", "UnixNano":
		// an int64 count of nanoseconds: the value itself (times are built from int64 nanoseconds)
		if len(args) == 0 {
			return recv
		}
	case "Add":
		if len(args) == 1 {
			return "(" + recv + " + " + args[0] + ")"
		}
	case "Sub":
		if len(args) == 1 {
			return "(" + recv + " - " + args[0] + ")"
		}
	case "Before":
		if len(args) == 1 {
			return "(decide (" + recv + " < " + args[0] + "))"
		}
	case "After":
		if len(args) == 1 {
			return "(decide (" + recv + " > " + args[0] + "))"
		}
	case "Equal":
		if len(args) == 1 {
			return "(" + recv + " == " + args[0] + ")"
		}
	}
	return ""
}

// c14IntLits rewrites float literals with an integral value (1e9) into integer literals, in
// place, so that the integer-only translator accepts `x*1e9`.
func c14IntLits(e ast.Expr) {
	ast.Inspect(e, func(n ast.Node) bool {
		if l, ok := n.(*ast.BasicLit); ok && l.Kind == token.FLOAT {
			var mant, exp int
			if k, _ := fmt.Sscanf(l.Value, "%de%d", &mant, &exp); k == 2 && exp >= 0 && exp <= 18 {
				l.Kind = token.INT
				l.Value = fmt.Sprintf("%d%s", mant, strings.Repeat("0", exp))
			}
		}
		return true
	})
}

// c14StripLogs prints a block without logging statements (calls on log/logger/e.log/s.Logger/
// zap and `logEnd()`), which carry no behaviour the model transcribes.
func c14StripLogs(g *Gen, b *ast.BlockStmt) string {
	var strip func(list []ast.Stmt) []ast.Stmt
	isLog := func(s ast.Stmt) bool {
		es, ok := s.(*ast.ExprStmt)
		if !ok {
			return false
		}
		c, ok := es.X.(*ast.CallExpr)
		if !ok {
			return false
		}
		f := g.Src(c.Fun)
		for _, p := range []string{"log.Info", "log.Error", "log.Warn", "log.Debug", "logger.Info", "logger.Error", "logger.Warn", "e.log.", "s.Logger.", "logEnd"} {
			if strings.HasPrefix(f, p) {
				return true
			}
		}
		return false
	}
	strip = func(list []ast.Stmt) []ast.Stmt {
		var out []ast.Stmt
		for _, s := range list {
			if isLog(s) {
				continue
			}
			switch x := s.(type) {
			case *ast.IfStmt:
				c := *x
				c.Body = &ast.BlockStmt{List: strip(x.Body.List)}
				if eb, ok := x.Else.(*ast.BlockStmt); ok {
					c.Else = &ast.BlockStmt{List: strip(eb.List)}
				}
				out = append(out, &c)
			case *ast.ForStmt:
				c := *x
				c.Body = &ast.BlockStmt{List: strip(x.Body.List)}
				out = append(out, &c)
			case *ast.RangeStmt:
				c := *x
				c.Body = &ast.BlockStmt{List: strip(x.Body.List)}
				out = append(out, &c)
			case *ast.BlockStmt:
				out = append(out, &ast.BlockStmt{List: strip(x.List)})
			default:
				out = append(out, s)
			}
		}
		return out
	}
	return g.Src(&ast.BlockStmt{List: strip(b.List)})
}

// c14WrapArith rewrites, in place, every binary +, -, * of a function body into a call
// w64add / w64sub / w64mul (rendered through wrap64 by c14Call): Go integer arithmetic wraps.
// Method calls on time.Time (Add, Sub, Before, After) are not touched: they are exact.
func c14WrapArith(n ast.Node) {
	var rw func(e ast.Expr) ast.Expr
	rw = func(e ast.Expr) ast.Expr {
		switch x := e.(type) {
		case *ast.BinaryExpr:
			x.X, x.Y = rw(x.X), rw(x.Y)
			name := ""
			switch x.Op {
			case token.ADD:
				name = "w64add"
			case token.SUB:
				name = "w64sub"
			case token.MUL:
				name = "w64mul"
			}
			if name != "" {
				return &ast.CallExpr{Fun: ast.NewIdent(name), Args: []ast.Expr{x.X, x.Y}}
			}
			return x
		case *ast.ParenExpr:
			x.X = rw(x.X)
			return x
		case *ast.UnaryExpr:
			x.X = rw(x.X)
			return x
		case *ast.CallExpr:
			for i := range x.Args {
				x.Args[i] = rw(x.Args[i])
			}
			if se, ok := x.Fun.(*ast.SelectorExpr); ok {
				se.X = rw(se.X)
			}
			return x
		case *ast.SelectorExpr:
			x.X = rw(x.X)
			return x
		}
		return e
	}
	ast.Inspect(n, func(m ast.Node) bool {
		switch s := m.(type) {
		case *ast.IfStmt:
			s.Cond = rw(s.Cond)
		case *ast.ReturnStmt:
			for i := range s.Results {
				s.Results[i] = rw(s.Results[i])
			}
		case *ast.AssignStmt:
			for i := range s.Rhs {
				s.Rhs[i] = rw(s.Rhs[i])
			}
		}
		return true
	})
}

// c14UnwrapArith undoes c14WrapArith (the source texts emitted as facts are the code's own).
func c14UnwrapArith(n ast.Node) {
	var rw func(e ast.Expr) ast.Expr
	rw = func(e ast.Expr) ast.Expr {
		switch x := e.(type) {
		case *ast.CallExpr:
			for i := range x.Args {
				x.Args[i] = rw(x.Args[i])
			}
			if se, ok := x.Fun.(*ast.SelectorExpr); ok {
				se.X = rw(se.X)
			}
			if id, ok := x.Fun.(*ast.Ident); ok && len(x.Args) == 2 {
				switch id.Name {
				case "w64add":
					return &ast.BinaryExpr{X: x.Args[0], Op: token.ADD, Y: x.Args[1]}
				case "w64sub":
					return &ast.BinaryExpr{X: x.Args[0], Op: token.SUB, Y: x.Args[1]}
				case "w64mul":
					return &ast.BinaryExpr{X: x.Args[0], Op: token.MUL, Y: x.Args[1]}
				}
			}
			return x
		case *ast.BinaryExpr:
			x.X, x.Y = rw(x.X), rw(x.Y)
			return x
		case *ast.ParenExpr:
			x.X = rw(x.X)
			return x
		case *ast.UnaryExpr:
			x.X = rw(x.X)
			return x
		case *ast.SelectorExpr:
			x.X = rw(x.X)
			return x
		}
		return e
	}
	ast.Inspect(n, func(m ast.Node) bool {
		switch s := m.(type) {
		case *ast.IfStmt:
			s.Cond = rw(s.Cond)
		case *ast.ReturnStmt:
			for i := range s.Results {
				s.Results[i] = rw(s.Results[i])
			}
		case *ast.AssignStmt:
			for i := range s.Rhs {
				s.Rhs[i] = rw(s.Rhs[i])
			}
		}
		return true
	})
}
