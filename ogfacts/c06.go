package main

// C06 — line protocol in = query out. Regenerated from the working tree:
//   * the IsValidNumber automaton of valid_number.go (char classes, transition table, accepting states),
//   * the escape set of unescapeTagValue, the boolean spellings and the suffix dispatch of
//     parseFieldNumValue (parser.go),
//   * the precision -> timestamp multiplier switch of serveWrite (httpd/handler.go),
//   * the length limits (lib/util/util.go) and the NoTimestamp sentinel,
//   * canonical source text of every function the model transcribes by hand.

import (
	"fmt"
	"go/ast"
	"go/constant"
	"go/token"
	"go/types"
	"strconv"
	"strings"
)

func init() { register("C06", genC06) }

const (
	c06Parser  = "lib/util/lifted/vm/protoparser/influx/parser.go"
	c06Number  = "lib/util/lifted/vm/protoparser/influx/valid_number.go"
	c06Stream  = "lib/util/lifted/vm/protoparser/influx/streamparser.go"
	c06Handler = "lib/util/lifted/influx/httpd/handler.go"
	c06Util    = "lib/util/util.go"
	c06Record  = "lib/record/record_group.go"
	c06PW      = "coordinator/points_writer.go"
	c06WH      = "coordinator/write_helper.go"
	c06Data    = "lib/util/lifted/influx/meta/data.go"
	c06Valid   = "lib/util/lifted/influx/meta/validator.go"
	c06Time    = "lib/util/lifted/influxdb/models/time.go"
	c06RP      = "lib/util/lifted/influx/meta/retentionpolicy.go"
)

// iotaEnum returns the names of the const block whose first spec has the given type, in order.
func (g *Gen) c06IotaEnum(rel, typ string) ([]string, error) {
	f, err := g.Parse(rel)
	if err != nil {
		return nil, err
	}
	for _, d := range f.Decls {
		gd, ok := d.(*ast.GenDecl)
		if !ok || gd.Tok != token.CONST || len(gd.Specs) == 0 {
			continue
		}
		first := gd.Specs[0].(*ast.ValueSpec)
		if first.Type == nil || typeName(first.Type) != typ || len(first.Values) != 1 || g.Src(first.Values[0]) != "iota" {
			continue
		}
		var names []string
		for i, sp := range gd.Specs {
			vs := sp.(*ast.ValueSpec)
			if i > 0 && (vs.Type != nil || len(vs.Values) != 0) {
				return nil, fmt.Errorf("%s: const block of %s is not a plain iota enumeration", rel, typ)
			}
			if len(vs.Names) != 1 {
				return nil, fmt.Errorf("%s: const block of %s declares several names per line", rel, typ)
			}
			names = append(names, vs.Names[0].Name)
		}
		return names, nil
	}
	return nil, fmt.Errorf("%s: iota enumeration of %s not found", rel, typ)
}

func c06IndexOf(xs []string, x string) int {
	for i, y := range xs {
		if y == x {
			return i
		}
	}
	return -1
}

// evalConst evaluates a package-level constant expression of one file (identifiers of the same
// file are substituted recursively) with go/types' constant evaluator.
func (g *Gen) c06EvalConst(rel, name string, depth int) (constant.Value, error) {
	if depth > 8 {
		return nil, fmt.Errorf("%s: constant %s: too deep", rel, name)
	}
	src, err := g.Const(rel, name)
	if err != nil {
		return nil, err
	}
	return g.c06EvalExpr(rel, src, depth)
}

func (g *Gen) c06EvalExpr(rel, src string, depth int) (constant.Value, error) {
	// substitute identifiers that are constants of the same file
	var b strings.Builder
	i := 0
	isIdent := func(c byte) bool {
		return c == '_' || (c >= 'a' && c <= 'z') || (c >= 'A' && c <= 'Z') || (c >= '0' && c <= '9')
	}
	for i < len(src) {
		c := src[i]
		if c == '_' || (c >= 'a' && c <= 'z') || (c >= 'A' && c <= 'Z') {
			j := i
			for j < len(src) && isIdent(src[j]) {
				j++
			}
			id := src[i:j]
			if types.Universe.Lookup(id) != nil {
				b.WriteString(id)
			} else {
				v, err := g.c06EvalConst(rel, id, depth+1)
				if err != nil {
					return nil, err
				}
				b.WriteString("(" + v.ExactString() + ")")
			}
			i = j
			continue
		}
		if c >= '0' && c <= '9' { // number literal, may contain e/E
			j := i
			for j < len(src) && (isIdent(src[j]) || src[j] == '.') {
				j++
			}
			b.WriteString(src[i:j])
			i = j
			continue
		}
		b.WriteByte(c)
		i++
	}
	tv, err := types.Eval(token.NewFileSet(), nil, token.NoPos, b.String())
	if err != nil {
		return nil, fmt.Errorf("%s: cannot evaluate %q: %v", rel, src, err)
	}
	if tv.Value == nil {
		return nil, fmt.Errorf("%s: %q is not constant", rel, src)
	}
	return tv.Value, nil
}

func c06ConstInt(v constant.Value) (string, error) {
	iv := constant.ToInt(v)
	if iv.Kind() != constant.Int {
		return "", fmt.Errorf("constant %s is not an integer", v.ExactString())
	}
	return iv.ExactString(), nil
}

func c06CharLit(e ast.Expr) (byte, bool) {
	bl, ok := e.(*ast.BasicLit)
	if !ok || bl.Kind != token.CHAR {
		return 0, false
	}
	s, err := strconv.Unquote(bl.Value)
	if err != nil || len(s) != 1 {
		return 0, false
	}
	return s[0], true
}

func genC06(g *Gen) error {
	g.Header(c06Number, c06Parser, c06Stream, c06Handler, c06Util, c06Record)
	g.GenNS()

	// ---- number automaton -----------------------------------------------------------------
	states, err := g.c06IotaEnum(c06Number, "State")
	if err != nil {
		return err
	}
	ctypes, err := g.c06IotaEnum(c06Number, "CharType")
	if err != nil {
		return err
	}
	g.StrList("stateNames", states)
	g.StrList("charTypeNames", ctypes)
	for _, need := range []string{"StateNone", "StateInitial", "StateEnd"} {
		if c06IndexOf(states, need) < 0 {
			return fmt.Errorf("state %s missing", need)
		}
	}
	illegal := c06IndexOf(ctypes, "CharIllegal")
	if illegal < 0 {
		return fmt.Errorf("CharIllegal missing")
	}
	g.P("def stateNone : Nat := %d", c06IndexOf(states, "StateNone"))
	g.P("def stateInitial : Nat := %d", c06IndexOf(states, "StateInitial"))
	g.P("def stateEnd : Nat := %d", c06IndexOf(states, "StateEnd"))
	g.P("def charIllegal : Nat := %d", illegal)

	// toCharType: switch ch { case '0', …: return CharNumber … default: return CharIllegal }
	rows, err := g.SwitchTable(c06Number, "toCharType")
	if err != nil {
		return err
	}
	g.P("/-- `toCharType` -/")
	g.P("def charTypeOf (c : UInt8) : Nat :=")
	g.P("  match c.toNat with")
	def := -1
	seen := map[string]bool{}
	for _, r := range rows {
		if !strings.HasPrefix(r[1], "return ") {
			return fmt.Errorf("toCharType: clause body %q is not a return", r[1])
		}
		ct := c06IndexOf(ctypes, strings.TrimPrefix(r[1], "return "))
		if ct < 0 {
			return fmt.Errorf("toCharType: unknown char type in %q", r[1])
		}
		if r[0] == "default" {
			def = ct
			continue
		}
		s, err := strconv.Unquote(r[0])
		if err != nil || len(s) != 1 {
			return fmt.Errorf("toCharType: label %s is not a byte literal", r[0])
		}
		if seen[s] {
			return fmt.Errorf("toCharType: duplicate label %s", r[0])
		}
		seen[s] = true
		g.P("  | %d => %d", s[0], ct)
	}
	if def < 0 {
		return fmt.Errorf("toCharType: no default clause")
	}
	g.P("  | _ => %d", def)
	g.P("")

	// transfer[StateX] = [CharIllegal]State{…} in init()
	f, err := g.Parse(c06Number)
	if err != nil {
		return err
	}
	var initFn *ast.FuncDecl
	for _, d := range f.Decls {
		if fd, ok := d.(*ast.FuncDecl); ok && fd.Name.Name == "init" && fd.Recv == nil {
			initFn = fd
		}
	}
	if initFn == nil {
		return fmt.Errorf("%s: init not found", c06Number)
	}
	var trows []string
	seenRow := map[int]bool{}
	for _, st := range initFn.Body.List {
		as, ok := st.(*ast.AssignStmt)
		if !ok || as.Tok != token.ASSIGN || len(as.Lhs) != 1 || len(as.Rhs) != 1 {
			return fmt.Errorf("init: unexpected statement %s", g.Src(st))
		}
		ix, ok := as.Lhs[0].(*ast.IndexExpr)
		if !ok || g.Src(ix.X) != "transfer" {
			return fmt.Errorf("init: unexpected assignment %s", g.Src(st))
		}
		row := c06IndexOf(states, g.Src(ix.Index))
		cl, ok := as.Rhs[0].(*ast.CompositeLit)
		if row < 0 || !ok || g.Src(cl.Type) != "[CharIllegal]State" {
			return fmt.Errorf("init: unexpected assignment %s", g.Src(st))
		}
		if seenRow[row] {
			return fmt.Errorf("init: row %s assigned twice", g.Src(ix.Index))
		}
		seenRow[row] = true
		if len(cl.Elts) > illegal {
			return fmt.Errorf("init: row %s has %d entries", g.Src(ix.Index), len(cl.Elts))
		}
		var cells []string
		for _, e := range cl.Elts {
			v := c06IndexOf(states, g.Src(e))
			if v < 0 {
				return fmt.Errorf("init: unknown state %s", g.Src(e))
			}
			cells = append(cells, strconv.Itoa(v))
		}
		for len(cells) < illegal { // Go zero value
			cells = append(cells, strconv.Itoa(c06IndexOf(states, "StateNone")))
		}
		trows = append(trows, fmt.Sprintf("(%d, [%s])", row, strings.Join(cells, ", ")))
	}
	g.P("/-- rows of `transfer` assigned in `init()`; a row that is not assigned is all `StateNone` (Go zero value) -/")
	g.P("def transferRows : List (Nat × List Nat) := [%s]", strings.Join(trows, ", "))

	// IsValidNumber: the accepting states are the operands of the final return
	rets, err := g.Returns(c06Number, "IsValidNumber")
	if err != nil {
		return err
	}
	if len(rets) == 0 {
		return fmt.Errorf("IsValidNumber: no return")
	}
	var acc []string
	for _, part := range strings.Split(rets[len(rets)-1], "||") {
		part = strings.TrimSpace(part)
		if !strings.HasPrefix(part, "state == ") {
			return fmt.Errorf("IsValidNumber: final return %q is not a disjunction of state tests", rets[len(rets)-1])
		}
		v := c06IndexOf(states, strings.TrimPrefix(part, "state == "))
		if v < 0 {
			return fmt.Errorf("IsValidNumber: unknown state in %q", part)
		}
		acc = append(acc, strconv.Itoa(v))
	}
	g.P("def acceptStates : List Nat := [%s]", strings.Join(acc, ", "))
	g.StrList("returns_IsValidNumber", rets)
	g.P("")

	// ---- escape set of unescapeTagValue ------------------------------------------------------
	fd, err := g.Func(c06Parser, "unescapeTagValue")
	if err != nil {
		return err
	}
	var esc []string
	ast.Inspect(fd.Body, func(n ast.Node) bool {
		if be, ok := n.(*ast.BinaryExpr); ok && be.Op == token.NEQ {
			if id, ok := be.X.(*ast.Ident); ok && id.Name == "ch" {
				if c, ok := c06CharLit(be.Y); ok {
					esc = append(esc, strconv.Itoa(int(c)))
				}
			}
		}
		return true
	})
	if len(esc) == 0 {
		return fmt.Errorf("unescapeTagValue: escape set not found")
	}
	g.P("/-- bytes after which `unescapeTagValue` drops the preceding backslash -/")
	g.P("def escapeSet : List UInt8 := [%s]", strings.Join(esc, ", "))

	// ---- parseFieldNumValue: suffix dispatch and boolean spellings --------------------------
	fd, err = g.Func(c06Parser, "parseFieldNumValue")
	if err != nil {
		return err
	}
	var suffix [][2]string
	var trueLits, falseLits []string
	for _, st := range fd.Body.List {
		is, ok := st.(*ast.IfStmt)
		if !ok {
			continue
		}
		cond := g.Src(is.Cond)
		var body []string
		for _, s := range is.Body.List {
			body = append(body, g.Src(s))
		}
		if strings.Contains(cond, "ch ==") {
			suffix = append(suffix, [2]string{cond, strings.Join(body, "; ")})
		}
		var lits []string
		onlyLits := true
		var walk func(e ast.Expr)
		walk = func(e ast.Expr) {
			be, ok := e.(*ast.BinaryExpr)
			if !ok {
				onlyLits = false
				return
			}
			switch be.Op {
			case token.LOR:
				walk(be.X)
				walk(be.Y)
			case token.EQL:
				id, ok1 := be.X.(*ast.Ident)
				bl, ok2 := be.Y.(*ast.BasicLit)
				if ok1 && ok2 && id.Name == "s" && bl.Kind == token.STRING {
					lits = append(lits, bl.Value)
				} else {
					onlyLits = false
				}
			default:
				onlyLits = false
			}
		}
		walk(is.Cond)
		if onlyLits && len(lits) > 0 {
			b := strings.Join(body, "; ")
			switch {
			case strings.HasPrefix(b, "return 1, Field_Type_Boolean, nil"):
				trueLits = append(trueLits, lits...)
			case strings.HasPrefix(b, "return 0, Field_Type_Boolean, nil"):
				falseLits = append(falseLits, lits...)
			default:
				return fmt.Errorf("parseFieldNumValue: literal test %q with unexpected body %q", cond, b)
			}
		}
	}
	g.PairList("suffixTable", suffix)
	bytesOf := func(quoted string) (string, error) {
		u, err := strconv.Unquote(quoted)
		if err != nil {
			return "", err
		}
		var bs []string
		for i := 0; i < len(u); i++ {
			bs = append(bs, strconv.Itoa(int(u[i])))
		}
		return "[" + strings.Join(bs, ", ") + "]", nil
	}
	for _, l := range []struct {
		name string
		lits []string
	}{{"trueLits", trueLits}, {"falseLits", falseLits}} {
		var bl []string
		for _, q := range l.lits {
			b, err := bytesOf(q)
			if err != nil {
				return err
			}
			bl = append(bl, b)
		}
		g.P("/-- %s -/", strings.Join(l.lits, " "))
		g.P("def %s : List (List UInt8) := [%s]", l.name, strings.Join(bl, ", "))
	}
	g.P("")

	// ---- precision switch of serveWrite -------------------------------------------------------
	prows, err := g.SwitchTable(c06Handler, "Handler.serveWrite")
	if err != nil {
		return err
	}
	g.P("/-- `switch precision` of serveWrite: label ↦ timestamp multiplier -/")
	g.P("def precisionTable : List (List UInt8 × Int) := [")
	for i, r := range prows {
		if !strings.HasPrefix(r[1], "tsMultiplier = ") || r[0] == "default" {
			return fmt.Errorf("serveWrite: first switch is not the precision switch (%q: %q)", r[0], r[1])
		}
		v, err := g.c06EvalExpr(c06Handler, strings.TrimPrefix(r[1], "tsMultiplier = "), 0)
		if err != nil {
			return err
		}
		iv, err := c06ConstInt(v)
		if err != nil {
			return err
		}
		sep := ","
		if i == len(prows)-1 {
			sep = ""
		}
		lb, err := bytesOf(r[0])
		if err != nil {
			return err
		}
		g.P("  (%s, %s)%s  -- %s", lb, iv, sep, r[0])
	}
	g.P("]")
	// the default multiplier: `tsMultiplier := int64(1)`
	fd, err = g.Func(c06Handler, "Handler.serveWrite")
	if err != nil {
		return err
	}
	defMul := ""
	ast.Inspect(fd.Body, func(n ast.Node) bool {
		if as, ok := n.(*ast.AssignStmt); ok && as.Tok == token.DEFINE && len(as.Lhs) == 1 && g.Src(as.Lhs[0]) == "tsMultiplier" && defMul == "" {
			defMul = g.Src(as.Rhs[0])
		}
		return true
	})
	if defMul == "" {
		return fmt.Errorf("serveWrite: tsMultiplier definition not found")
	}
	v, err := g.c06EvalExpr(c06Handler, defMul, 0)
	if err != nil {
		return err
	}
	iv, err := c06ConstInt(v)
	if err != nil {
		return err
	}
	g.P("def defaultTsMultiplier : Int := %s", iv)
	g.P("")

	// ---- limits and the timestamp sentinel ----------------------------------------------------
	for _, c := range [][2]string{
		{"MaxMeasurementLength", "maxMeasurementLength"}, {"MaxTagNameLength", "maxTagNameLength"},
		{"MaxTagValueLength", "maxTagValueLength"}, {"MaxFieldNameLength", "maxFieldNameLength"},
	} {
		v, err := g.c06EvalConst(c06Util, c[0], 0)
		if err != nil {
			return err
		}
		iv, err := c06ConstInt(v)
		if err != nil {
			return err
		}
		g.P("def %s : Nat := %s", c[1], iv)
	}
	v, err = g.c06EvalConst(c06Parser, "NoTimestamp", 0)
	if err != nil {
		return err
	}
	iv, err = c06ConstInt(v)
	if err != nil {
		return err
	}
	g.P("def noTimestamp : Int := %s", iv)
	g.P("")

	// ---- fingerprints (canonical text, hashed) of the hand-transcribed functions -------------------------------------
	for _, fn := range [][3]string{
		{c06Number, "IsValidNumber", "IsValidNumber"},
		{c06Parser, "checkWhitespace", "checkWhitespace"},
		{c06Parser, "stripLeadingWhitespace", "stripLeadingWhitespace"},
		{c06Parser, "nextUnescapedChar", "nextUnescapedChar"},
		{c06Parser, "nextUnquotedChar", "nextUnquotedChar"},
		{c06Parser, "isInQuote", "isInQuote"},
		{c06Parser, "unescapeTagValue", "unescapeTagValue"},
		{c06Parser, "parseFieldNumValue", "parseFieldNumValue"},
		{c06Parser, "parseFloatValue", "parseFloatValue"},
		{c06Parser, "parseFieldStrValue", "parseFieldStrValue"},
		{c06Parser, "nextTimestamp", "nextTimestamp"},
		{c06Parser, "Row.unmarshal", "Row_unmarshal"},
		{c06Parser, "Tag.unmarshal", "Tag_unmarshal"},
		{c06Parser, "Field.unmarshal", "Field_unmarshal"},
		{c06Parser, "unmarshalTags", "unmarshalTags"},
		{c06Parser, "unmarshalInfluxFields", "unmarshalInfluxFields"},
		{c06Parser, "unmarshalRows", "unmarshalRows"},
		{c06Parser, "unmarshalRow", "unmarshalRow"},
		{c06Parser, "Row.CheckValid", "Row_CheckValid"},
		{c06Parser, "PointTags.Less", "PointTags_Less"},
		{c06Stream, "unmarshalWork.Unmarshal", "unmarshalWork_Unmarshal"},
		{c06Record, "AppendFieldToCol", "AppendFieldToCol"},
	} {
		fp, err := g.Fingerprint(fn[0], fn[1])
		if err != nil {
			return err
		}
		g.P("def fp_%s : String := %s", fn[2], leanStr(fp))
	}
	// ---- behind the parser: handler glue, points writer, catalogue, splitter (Store.lean, Split.lean) ----
	for _, fn := range [][3]string{
		{c06Handler, "Handler.serveWrite", "serveWrite"},
		{c06Handler, "Handler.serveWriteV1", "serveWriteV1"},
		{c06Handler, "Handler.serveWriteV2", "serveWriteV2"},
		{c06Handler, "bucket2dbrp", "bucket2dbrp"},
		{c06Handler, "convertToEpoch", "convertToEpoch"},
		{c06Stream, "ReadLinesBlockExt", "ReadLinesBlockExt"},
		{c06Stream, "streamContext.Read", "streamContext_Read"},
		{c06PW, "fixFields", "fixFields"},
		{c06PW, "dropFieldByIndex", "dropFieldByIndex"},
		{c06PW, "dropTagByIndex", "dropTagByIndex"},
		{c06PW, "PointsWriter.routeAndMapOriginRows", "routeAndMapOriginRows"},
		{c06PW, "PointsWriter.writePointRows", "writePointRows"},
		{c06WH, "writeHelper.updateSchemaCheck", "updateSchemaCheck"},
		{c06WH, "writeHelper.updateSchemaIfNeeded", "updateSchemaIfNeeded"},
		{c06Data, "Data.UpdateSchema", "Data_UpdateSchema"},
		{c06Data, "checkFieldsToCreate", "checkFieldsToCreate"},
		{c06Valid, "ValidMeasurementName", "ValidMeasurementName"},
		{c06Valid, "validName", "validName"},
		{c06Parser, "Row.CheckDuplicateTag", "Row_CheckDuplicateTag"},
		{c06RP, "shardGroupDuration", "shardGroupDuration"},
		{c06Time, "CheckTime", "CheckTime"},
	} {
		fp, err := g.Fingerprint(fn[0], fn[1])
		if err != nil {
			return err
		}
		g.P("def fp_%s : String := %s", fn[2], leanStr(fp))
	}
	g.P("")
	// the characters a measurement name must not hold
	src, err := g.Const(c06Valid, "unsupportedCharsInMstName")
	if err != nil {
		return err
	}
	un, err := strconv.Unquote(src)
	if err != nil {
		return fmt.Errorf("unsupportedCharsInMstName: %v", err)
	}
	lb, err := bytesOf(src)
	if err != nil {
		return err
	}
	g.P("/-- `unsupportedCharsInMstName` = %s -/", strconv.Quote(un))
	g.P("def unsupportedMstChars : List UInt8 := %s", lb)
	// the supported time range
	for _, c := range [][2]string{{"MinNanoTime", "minNanoTimeGen"}, {"MaxNanoTime", "maxNanoTimeGen"}} {
		src, err := g.Const(c06Time, c[0])
		if err != nil {
			return err
		}
		src = strings.ReplaceAll(src, "math.MinInt64", "(-9223372036854775808)")
		src = strings.ReplaceAll(src, "math.MaxInt64", "9223372036854775807")
		v, err := g.c06EvalExpr(c06Time, src, 0)
		if err != nil {
			return err
		}
		iv, err := c06ConstInt(v)
		if err != nil {
			return err
		}
		g.P("def %s : Int := %s", c[1], iv)
	}
	// the query parameters of the write entrances, in the order the code reads them:
	// serveWriteV1 hands (db, rp) to serveWrite, serveWriteV2 splits bucket, serveWrite reads precision
	var names []string
	for _, fn := range []string{"Handler.serveWriteV1", "Handler.serveWriteV2", "Handler.serveWrite"} {
		fd, err := g.Func(c06Handler, fn)
		if err != nil {
			return err
		}
		ast.Inspect(fd.Body, func(n ast.Node) bool {
			ce, ok := n.(*ast.CallExpr)
			if !ok || len(ce.Args) != 1 {
				return true
			}
			se, ok := ce.Fun.(*ast.SelectorExpr)
			if !ok || se.Sel.Name != "Get" {
				return true
			}
			recv := g.Src(se.X)
			if recv != "r.URL.Query()" && recv != "urlValues" {
				return true
			}
			if bl, ok := ce.Args[0].(*ast.BasicLit); ok && bl.Kind == token.STRING {
				if u, err := strconv.Unquote(bl.Value); err == nil {
					names = append(names, u)
				}
			}
			return true
		})
	}
	g.StrList("writeParamNames", names)
	// ReadLinesBlockExt: the guard under which what is buffered is handed over as a block when a
	// read returned no byte (`if n == 0 { … if <guard> { return dstBuf, tailBuf, nil } … }`), as
	// the list of its conjuncts
	fd, err = g.Func(c06Stream, "ReadLinesBlockExt")
	if err != nil {
		return err
	}
	var guard []string
	found := 0
	ast.Inspect(fd.Body, func(n ast.Node) bool {
		is, ok := n.(*ast.IfStmt)
		if !ok || g.Src(is.Cond) != "n == 0" {
			return true
		}
		for _, st := range is.Body.List {
			inner, ok := st.(*ast.IfStmt)
			if !ok || len(inner.Body.List) == 0 {
				continue
			}
			rs, ok := inner.Body.List[len(inner.Body.List)-1].(*ast.ReturnStmt)
			if !ok || len(rs.Results) != 3 || g.Src(rs.Results[0]) != "dstBuf" || g.Src(rs.Results[2]) != "nil" {
				continue
			}
			found++
			var conj func(e ast.Expr)
			conj = func(e ast.Expr) {
				if be, ok := e.(*ast.BinaryExpr); ok && be.Op == token.LAND {
					conj(be.X)
					conj(be.Y)
					return
				}
				if pe, ok := e.(*ast.ParenExpr); ok {
					conj(pe.X)
					return
				}
				guard = append(guard, g.Src(e))
			}
			conj(inner.Cond)
		}
		return false
	})
	if found != 1 {
		return fmt.Errorf("ReadLinesBlockExt: %d hand-over branches under `n == 0` (expected 1)", found)
	}
	g.StrList("tailHandoverGuard", guard)
	g.Footer()
	return nil
}
