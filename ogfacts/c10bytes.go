package main

import (
	"fmt"
	"go/ast"
	"go/token"
	"strconv"
	"strings"
)

// C10, byte level — what the item-encoding model (lean/OG/C10/Bytes.lean) is written against:
// the separator bytes and item namespaces as numbers, the escaping switch of marshalTagValue
// and the un-escaping switch of unmarshalTagValue as tables (the model escapes / un-escapes
// *with these tables*, so the round-trip, injectivity, prefix and order theorems are re-proved
// against what the source says now), the bytes of the fast-path test, and the statement lists of
// the small composing functions (compared with recorded expectations in Facts.lean).

// byteLit evaluates an integer or character literal, or a known constant name, to a byte.
func byteLit(g *Gen, e ast.Expr, consts map[string]int) (int, error) {
	switch x := e.(type) {
	case *ast.BasicLit:
		switch x.Kind {
		case token.INT:
			n, err := strconv.ParseInt(x.Value, 0, 64)
			if err != nil || n < 0 || n > 255 {
				return 0, fmt.Errorf("not a byte: %s", x.Value)
			}
			return int(n), nil
		case token.CHAR:
			s := x.Value
			if len(s) < 3 {
				return 0, fmt.Errorf("bad char literal %s", s)
			}
			r, _, _, err := strconv.UnquoteChar(s[1:len(s)-1], '\'')
			if err != nil || r < 0 || r > 255 {
				return 0, fmt.Errorf("not a byte: %s", s)
			}
			return int(r), nil
		}
	case *ast.Ident:
		if v, ok := consts[x.Name]; ok {
			return v, nil
		}
	case *ast.ParenExpr:
		return byteLit(g, x.X, consts)
	}
	return 0, fmt.Errorf("cannot evaluate %s to a byte", g.Src(e))
}

// appendBytes recognises `dst = append(dst, a, b, …)` and returns the appended bytes
// (identifier `self` stands for the loop variable and is returned as -1).
func appendBytes(g *Gen, s ast.Stmt, consts map[string]int, self string) ([]int, error) {
	as, ok := s.(*ast.AssignStmt)
	if !ok || len(as.Lhs) != 1 || len(as.Rhs) != 1 || g.Src(as.Lhs[0]) != "dst" {
		return nil, fmt.Errorf("not `dst = append(dst, …)`: %s", g.Src(s))
	}
	call, ok := as.Rhs[0].(*ast.CallExpr)
	if !ok || g.Src(call.Fun) != "append" || len(call.Args) < 2 || g.Src(call.Args[0]) != "dst" || call.Ellipsis != token.NoPos {
		return nil, fmt.Errorf("not `dst = append(dst, …)`: %s", g.Src(s))
	}
	var out []int
	for _, a := range call.Args[1:] {
		if id, ok := a.(*ast.Ident); ok && id.Name == self {
			out = append(out, -1)
			continue
		}
		v, err := byteLit(g, a, consts)
		if err != nil {
			return nil, err
		}
		out = append(out, v)
	}
	return out, nil
}

func u8List(xs []int) string {
	var p []string
	for _, x := range xs {
		p = append(p, strconv.Itoa(x))
	}
	return "[" + strings.Join(p, ", ") + "]"
}

func stmtList(g *Gen, list []ast.Stmt) []string {
	var out []string
	for _, s := range list {
		out = append(out, g.Src(s))
	}
	return out
}

func genC10Bytes(g *Gen) error {
	const tsi = "engine/index/tsi/"
	f, err := g.Parse(tsi + "mergeset_index.go")
	if err != nil {
		return err
	}
	consts := map[string]int{}
	// separator bytes and the namespace iota block, as numbers
	for _, d := range f.Decls {
		gd, ok := d.(*ast.GenDecl)
		if !ok || gd.Tok != token.CONST {
			continue
		}
		isNS := false
		for i, sp := range gd.Specs {
			vs := sp.(*ast.ValueSpec)
			if len(vs.Names) != 1 {
				continue
			}
			n := vs.Names[0].Name
			if i == 0 && strings.HasPrefix(n, "nsPrefix") {
				if len(vs.Values) != 1 || g.Src(vs.Values[0]) != "iota" {
					return fmt.Errorf("namespace block does not start with `= iota`")
				}
				isNS = true
			}
			if isNS {
				if i > 0 && len(vs.Values) != 0 {
					return fmt.Errorf("namespace %s has an explicit value", n)
				}
				consts[n] = i
				g.P("def %s : UInt8 := %d", n, i)
				continue
			}
			switch n {
			case "escapeChar", "tagSeparatorChar", "kvSeparatorChar", "compositeTagKeyPrefix":
				if len(vs.Values) != 1 {
					return fmt.Errorf("%s without a value", n)
				}
				v, err := byteLit(g, vs.Values[0], consts)
				if err != nil {
					return err
				}
				consts[n] = v
				g.P("def %s : UInt8 := %d", n, v)
			}
		}
	}
	for _, n := range []string{"escapeChar", "tagSeparatorChar", "kvSeparatorChar", "compositeTagKeyPrefix", "nsPrefixKeyToTSID", "nsPrefixTSIDToKey", "nsPrefixTagToTSIDs"} {
		if _, ok := consts[n]; !ok {
			return fmt.Errorf("constant %s not found", n)
		}
	}

	// marshalTagValue: fast-path test, escaping switch, tail
	fd, err := g.Func(tsi+"marshal.go", "marshalTagValue")
	if err != nil {
		return err
	}
	var special []int
	var esc [][2]string
	escDefaultIdentity := false
	var skeleton []string
	for _, st := range fd.Body.List {
		switch x := st.(type) {
		case *ast.AssignStmt:
			if len(x.Lhs) == 1 && g.Src(x.Lhs[0]) == "hasSpecialChars" {
				// a || b || c of `bytes.IndexByte(src, X) != -1`
				var terms func(e ast.Expr) error
				terms = func(e ast.Expr) error {
					if be, ok := e.(*ast.BinaryExpr); ok && be.Op == token.LOR {
						if err := terms(be.X); err != nil {
							return err
						}
						return terms(be.Y)
					}
					be, ok := e.(*ast.BinaryExpr)
					if !ok || be.Op != token.NEQ || g.Src(be.Y) != "-1" {
						return fmt.Errorf("marshalTagValue: unexpected fast-path term %s", g.Src(e))
					}
					call, ok := be.X.(*ast.CallExpr)
					if !ok || g.Src(call.Fun) != "bytes.IndexByte" || len(call.Args) != 2 || g.Src(call.Args[0]) != "src" {
						return fmt.Errorf("marshalTagValue: unexpected fast-path term %s", g.Src(e))
					}
					v, err := byteLit(g, call.Args[1], consts)
					if err != nil {
						return err
					}
					special = append(special, v)
					return nil
				}
				if err := terms(x.Rhs[0]); err != nil {
					return err
				}
				skeleton = append(skeleton, "hasSpecialChars := <terms>")
				continue
			}
			skeleton = append(skeleton, g.Src(st))
		case *ast.RangeStmt:
			if g.Src(x.X) != "src" || x.Value == nil || len(x.Body.List) != 1 {
				return fmt.Errorf("marshalTagValue: unexpected loop %s", g.Src(x))
			}
			self := g.Src(x.Value)
			sw, ok := x.Body.List[0].(*ast.SwitchStmt)
			if !ok || sw.Tag == nil || g.Src(sw.Tag) != self {
				return fmt.Errorf("marshalTagValue: loop body is not a switch on the byte")
			}
			for _, c := range sw.Body.List {
				cc := c.(*ast.CaseClause)
				if len(cc.Body) != 1 {
					return fmt.Errorf("marshalTagValue: case with %d statements", len(cc.Body))
				}
				bs, err := appendBytes(g, cc.Body[0], consts, self)
				if err != nil {
					return err
				}
				if cc.List == nil {
					escDefaultIdentity = len(bs) == 1 && bs[0] == -1
					continue
				}
				for _, b := range bs {
					if b < 0 {
						return fmt.Errorf("marshalTagValue: escaped form refers to the byte itself")
					}
				}
				for _, l := range cc.List {
					v, err := byteLit(g, l, consts)
					if err != nil {
						return err
					}
					esc = append(esc, [2]string{strconv.Itoa(v), u8List(bs)})
				}
			}
			skeleton = append(skeleton, "for _, ch := range src { switch ch <table> }")
		case *ast.IfStmt:
			skeleton = append(skeleton, g.Src(st))
		default:
			skeleton = append(skeleton, g.Src(st))
		}
	}
	g.P("/-- bytes whose presence makes marshalTagValue leave its copy-through fast path -/")
	g.P("def specialBytes : List UInt8 := %s", u8List(special))
	g.P("/-- the escaping switch of marshalTagValue: byte ↦ what is appended for it -/")
	g.P("def escTable : List (UInt8 × List UInt8) := [")
	for i, r := range esc {
		sep := ","
		if i == len(esc)-1 {
			sep = ""
		}
		g.P("  (%s, %s)%s", r[0], r[1], sep)
	}
	g.P("]")
	g.P("def escDefaultIsIdentity : Bool := %v", escDefaultIdentity)
	g.StrList("src_marshalTagValue", skeleton)

	// unmarshalTagValue: separator searched, escape byte searched, un-escaping switch
	fd, err = g.Func(tsi+"marshal.go", "unmarshalTagValue")
	if err != nil {
		return err
	}
	var unesc [][2]int
	unescDefaultErr := false
	var idxBytes []int
	ast.Inspect(fd.Body, func(n ast.Node) bool {
		switch x := n.(type) {
		case *ast.CallExpr:
			if g.Src(x.Fun) == "bytes.IndexByte" && len(x.Args) == 2 {
				if v, err := byteLit(g, x.Args[1], consts); err == nil {
					idxBytes = append(idxBytes, v)
				} else {
					idxBytes = append(idxBytes, -1)
				}
			}
		case *ast.SwitchStmt:
			if x.Tag == nil || g.Src(x.Tag) != "encoded[0]" {
				err = fmt.Errorf("unmarshalTagValue: switch on %s", g.Src(x.Tag))
				return false
			}
			for _, c := range x.Body.List {
				cc := c.(*ast.CaseClause)
				if cc.List == nil {
					if len(cc.Body) == 1 {
						if r, ok := cc.Body[0].(*ast.ReturnStmt); ok && len(r.Results) == 3 && g.Src(r.Results[2]) != "nil" {
							unescDefaultErr = true
						}
					}
					continue
				}
				if len(cc.Body) != 1 {
					err = fmt.Errorf("unmarshalTagValue: case with %d statements", len(cc.Body))
					return false
				}
				bs, e2 := appendBytes(g, cc.Body[0], consts, "")
				if e2 != nil || len(bs) != 1 {
					err = fmt.Errorf("unmarshalTagValue: unexpected case body %s", g.Src(cc.Body[0]))
					return false
				}
				for _, l := range cc.List {
					v, e3 := byteLit(g, l, consts)
					if e3 != nil {
						err = e3
						return false
					}
					unesc = append(unesc, [2]int{v, bs[0]})
				}
			}
			return false
		}
		return true
	})
	if err != nil {
		return err
	}
	if len(idxBytes) != 2 || idxBytes[0] < 0 || idxBytes[1] < 0 {
		return fmt.Errorf("unmarshalTagValue: expected two bytes.IndexByte calls on constants, got %v", idxBytes)
	}
	g.P("/-- unmarshalTagValue: the byte that ends a value, the byte that starts an escape -/")
	g.P("def unmarshalSeparator : UInt8 := %d", idxBytes[0])
	g.P("def unmarshalEscape : UInt8 := %d", idxBytes[1])
	g.P("/-- the un-escaping switch of unmarshalTagValue: escape code ↦ byte -/")
	g.P("def unescTable : List (UInt8 × UInt8) := [")
	for i, r := range unesc {
		sep := ","
		if i == len(unesc)-1 {
			sep = ""
		}
		g.P("  (%d, %d)%s", r[0], r[1], sep)
	}
	g.P("]")
	g.P("def unescDefaultIsError : Bool := %v", unescDefaultErr)

	// the small composing functions, statement by statement
	for _, e := range [][3]string{
		{tsi + "marshal.go", "marshalTagValueNoTrailingTagSeparator", "src_marshalNoTrailing"},
		{tsi + "marshal.go", "marshalCompositeTagKey", "src_marshalCompositeTagKey"},
		{tsi + "marshal.go", "unmarshalCompositeTagKey", "src_unmarshalCompositeTagKey"},
		{tsi + "marshal.go", "marshalCompositeNamePrefix", "src_marshalCompositeNamePrefix"},
		{tsi + "mergeset_index.go", "MergeSetIndex.marshalTagToTSIDs", "src_marshalTagToTSIDs"},
	} {
		fd, err := g.Func(e[0], e[1])
		if err != nil {
			return err
		}
		g.StrList(e[2], stmtList(g, fd.Body.List))
	}
	// decode: everything outside the tag loop
	fd, err = g.Func(tsi+"mergeset_index.go", "MergeSetIndex.decode")
	if err != nil {
		return err
	}
	var dec []string
	for _, st := range fd.Body.List {
		if is, ok := st.(*ast.IfStmt); ok && is.Else != nil {
			// the tag-array branch is outside the model (assumption: tag arrays disabled)
			dec = append(dec, "if "+g.Src(is.Cond)+" {…} else "+g.Src(is.Else))
			continue
		}
		dec = append(dec, g.Src(st))
	}
	g.StrList("src_decode", dec)
	// tagFilter.Init: how the item prefix of a filter is built
	fd, err = g.Func(tsi+"tag_filters.go", "tagFilter.Init")
	if err != nil {
		return err
	}
	var pre []string
	for _, st := range fd.Body.List {
		s := g.Src(st)
		if strings.Contains(s, "tf.prefix") || strings.Contains(s, "compositeKey") {
			pre = append(pre, s)
		}
	}
	g.StrList("src_initPrefix", pre)
	var fps [][2]string
	for _, e := range [][2]string{
		{tsi + "marshal.go", "unmarshalTagValue"},
		{tsi + "marshal.go", "ParseItem"},
		{tsi + "search.go", "indexSearch.collectTSIDsForSuffix"},
		{tsi + "search.go", "indexSearch.seekToNextTagValue"},
		{"lib/util/lifted/vm/protoparser/influx/parser.go", "MeasurementName"},
		{"lib/util/lifted/vm/protoparser/influx/parser.go", "Row.UnmarshalIndexKeys"},
		{"lib/util/lifted/VictoriaMetrics/lib/encoding/int.go", "MarshalVarUint64"},
		{"lib/util/lifted/VictoriaMetrics/lib/encoding/int.go", "UnmarshalVarUint64"},
	} {
		fp, err := g.Fingerprint(e[0], e[1])
		if err != nil {
			return err
		}
		name := e[1]
		if i := strings.LastIndexByte(name, '.'); i >= 0 {
			name = name[i+1:]
		}
		fps = append(fps, [2]string{e[0][strings.LastIndexByte(e[0], '/')+1:] + ":" + name, fp})
	}
	g.PairList("byteFingerprints", fps)
	return nil
}
