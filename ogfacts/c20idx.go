package main

import (
	"encoding/json"
	"fmt"
	"go/ast"
	"go/token"
	"os"
	"path/filepath"
	"strings"
)

// overlayPath: the file a repository path resolves to under VERIF_OVERLAY (as Gen.Parse does).
func (g *Gen) overlayPath(rel string) string {
	path := filepath.Join(g.Repo, rel)
	if ov := os.Getenv("VERIF_OVERLAY"); ov != "" {
		if b, err := os.ReadFile(ov); err == nil {
			var o struct{ Replace map[string]string }
			if json.Unmarshal(b, &o) == nil {
				if r, ok := o.Replace[path]; ok && r != "" {
					return r
				}
			}
		}
	}
	return path
}

// C20, reader-construction layer of the skip indexes (model OG/C20/SkipIdx.lean): which keys
// BloomFilterIndexReader.ReInit puts into splitMap, which schema field names the filter file it
// opens, and the bodies of the functions between the index relation and the filter reader.
// Called from genC20Skip; everything lands in namespace OG.Gen.C20.
func genC20Idx(g *Gen) error {
	const (
		sk    = "engine/index/sparseindex/"
		bf    = "engine/index/bloomfilter/"
		qlAst = "lib/util/lifted/influx/influxql/ast.go"
	)
	fd, err := g.Func(sk+"bloom_filter_index.go", "BloomFilterIndexReader.ReInit")
	if err != nil {
		return err
	}
	// structural fact 1: every `splitMap[K] = …` of ReInit with the range/for statement around it
	var keys [][2]string
	var walk func(n ast.Node, loop string)
	walk = func(n ast.Node, loop string) {
		ast.Inspect(n, func(m ast.Node) bool {
			if m == nil || m == n {
				return true
			}
			switch s := m.(type) {
			case *ast.FuncLit:
				return false
			case *ast.RangeStmt:
				walk(s.Body, "range "+g.Src(s.X))
				return false
			case *ast.ForStmt:
				walk(s.Body, "for")
				return false
			case *ast.AssignStmt:
				for _, l := range s.Lhs {
					if ix, ok := l.(*ast.IndexExpr); ok {
						if id, ok := ix.X.(*ast.Ident); ok && id.Name == "splitMap" {
							keys = append(keys, [2]string{g.Src(ix.Index), loop})
						}
					}
				}
			}
			return true
		})
	}
	walk(fd.Body, "")
	g.PairList("bfReInitSplitMapKeys", keys)
	// structural fact 2: the `<recv>.schema[…].Name` operands of every assignment to fileName
	var cols []string
	ast.Inspect(fd.Body, func(m ast.Node) bool {
		s, ok := m.(*ast.AssignStmt)
		if !ok || len(s.Lhs) != 1 || (s.Tok != token.ASSIGN && s.Tok != token.DEFINE) {
			return true
		}
		if id, ok := s.Lhs[0].(*ast.Ident); !ok || id.Name != "fileName" {
			return true
		}
		for _, r := range s.Rhs {
			ast.Inspect(r, func(e ast.Node) bool {
				if se, ok := e.(*ast.SelectorExpr); ok && se.Sel.Name == "Name" {
					if ix, ok := se.X.(*ast.IndexExpr); ok {
						if sx, ok := ix.X.(*ast.SelectorExpr); ok && sx.Sel.Name == "schema" {
							cols = append(cols, g.Src(se))
							return false
						}
					}
				}
				return true
			})
		}
		return true
	})
	g.StrList("bfReInitFileNameCols", cols)
	// the arguments ReInit hands to the two filter-reader constructors it reaches for a TSSP / OBS file
	var calls []string
	ast.Inspect(fd.Body, func(m ast.Node) bool {
		if c, ok := m.(*ast.CallExpr); ok {
			if se, ok := c.Fun.(*ast.SelectorExpr); ok {
				switch se.Sel.Name {
				case "CreateFilterReader", "NewFilterReader", "NewVerticalFilterReader":
					calls = append(calls, g.Src(c))
				}
			}
		}
		return true
	})
	g.StrList("bfReInitReaderCalls", calls)
	// the C++ write-side tokenizer of the text index (not Go: the text of NextBatch, blanks squeezed)
	cpp, err := os.ReadFile(g.overlayPath("engine/index/textindex/FullTextIndex.cpp"))
	if err != nil {
		return err
	}
	body := string(cpp)
	if i := strings.Index(body, "bool SimpleGramTokenizer::NextBatch"); i >= 0 {
		body = body[i:]
		if j := strings.Index(body, "\nint32_t FullTextIndex::Init"); j >= 0 {
			body = body[:j]
		}
	} else {
		return fmt.Errorf("FullTextIndex.cpp: SimpleGramTokenizer::NextBatch not found")
	}
	g.P("def src_txCppNextBatch : String := %s", leanStr(strings.Join(strings.Fields(body), " ")))
	// … and the order it sorts the tokens of a block in (the reader binary-searches them)
	hdr, err := os.ReadFile(g.overlayPath("engine/index/textindex/invert.h"))
	if err != nil {
		return err
	}
	less := string(hdr)
	if i := strings.Index(less, "bool operator<(const Token& t) const"); i >= 0 {
		less = less[i:]
		if j := strings.Index(less, "void operator=(const Token& t)"); j >= 0 {
			less = less[:j]
		}
	} else {
		return fmt.Errorf("invert.h: Token::operator< not found")
	}
	g.P("def src_txCppTokenLess : String := %s", leanStr(strings.Join(strings.Fields(less), " ")))
	for _, f := range [][3]string{
		{sk + "bloom_filter_index.go", "BloomFilterIndexReader.ReInit", "bfReInit"},
		{sk + "bloom_filter_index.go", "NewBloomFilterIndexReader", "bfNewBloomFilterIndexReader"},
		{sk + "bloom_filter_index.go", "BloomFilterReaderCreator.CreateSKFileReader", "bfCreateSKFileReader"},
		{sk + "bloom_filter_index.go", "BloomFilterWriter.CreateAttachIndex", "bfCreateAttachIndex"},
		{sk + "bloom_filter_index.go", "BloomFilterWriter.getSkipIndexFilePath", "bfGetSkipIndexFilePath"},
		{sk + "bloom_filter_fulltext_index.go", "BloomFilterFullTextIndexReader.ReInit", "ftReInit"},
		{sk + "skip_index.go", "SKIndexReaderImpl.CreateSKFileReaders", "skCreateSKFileReaders"},
		{sk + "skip_index.go", "SKIndexReaderImpl.createSKFileReaders", "skCreateSKFileReadersInner"},
		{sk + "condition.go", "NewSKCondition", "skNewSKCondition"},
		{bf + "filter_reader.go", "NewLineFilterReader", "lineNewLineFilterReader"},
		{bf + "filter_reader.go", "FilterReader.getAllHashes", "filterGetAllHashes"},
		{bf + "filter_reader.go", "CreateFilterReader", "bfCreateFilterReader"},
		{bf + "multi_field_filter_reader.go", "NewMultiFiledLineFilterReader", "multiNewMultiFiledLineFilterReader"},
		{bf + "filter_ip_reader.go", "LineFilterIpReader.hitExpr", "ipHitExpr"},
		{bf + "filter_ip_reader.go", "LineFilterIpReader.isIndexedAtom", "ipIsIndexedAtom"},
		{bf + "filter_ip_reader.go", "LineFilterIpReader.hitIp", "ipHitIp"},
		{bf + "filter_ip_reader.go", "LineFilterIpReader.hitIpSubnet", "ipHitIpSubnet"},
		{bf + "filter_ip_reader.go", "NewLineFilterIpReader", "ipNewLineFilterIpReader"},
		{"lib/tokenizer/tokenizer_ip.go", "IpTokenizer.HashWithMaskIndex", "ipHashWithMaskIndex"},
		{"lib/tokenizer/tokenizer_ip.go", "IpTokenizer.GetMatchedMaskIndex", "ipGetMatchedMaskIndex"},
		{"lib/tokenizer/tokenizer_ip.go", "IpTokenizer.Next", "ipTokNext"},
		{"lib/tokenizer/tokenizer_ip.go", "IpTokenizer.ProcessTokenizerBatch", "ipProcessTokenizerBatch"},
		{"lib/tokenizer/tokenizer_ip.go", "init", "ipTokInit"},
		{sk + "bloom_filter_ip_index.go", "BloomFilterIpReaderCreator.CreateSKFileReader", "ipCreateSKFileReader"},
		{sk + "bloom_filter_ip_index.go", "BloomFilterIpIndexWriter.GenBloomFilterData", "ipGenBloomFilterData"},
		{"engine/index/textindex/textindex_reader.go", "TextIndexFilterReader.IsExist", "txIsExist"},
		{"engine/index/textindex/textindex_reader.go", "TextIndexFilterReaders.IsExist", "txReadersIsExist"},
		{"engine/index/textindex/textindex_reader.go", "TextIndexReader.ReInit", "txReInit"},
		{"engine/index/textindex/textindex.go", "PartHeader.Contain", "txPartHeaderContain"},
		{"lib/tokenizer/tokenizer.go", "StandardTokenizer.Split", "txStandardSplit"},
		{bf + "filter_reader.go", "FilterReader.IsExist", "filterIsExist"},
		{bf + "filter_reader.go", "NewFilterReader", "filterNewFilterReader"},
		{bf + "filter_reader.go", "VerticalFilterReader.hitExpr", "vertHitExpr"},
		{bf + "filter_reader.go", "VerticalFilterReader.loadHash", "vertLoadHash"},
		{bf + "filter_reader.go", "VerticalFilterReader.getPieceOffset", "vertGetPieceOffset"},
		{"lib/logstore/bloomfilter.go", "FlushVerticalFilter", "lsFlushVerticalFilter"},
		{sk + "bloom_filter_index.go", "BloomFilterWriter.CreateDetachIndex", "bfCreateDetachIndex"},
		{qlAst, "IndexRelation.GetFullTextColumns", "irGetFullTextColumns"},
		{qlAst, "IndexRelation.GetIndexOidByName", "irGetIndexOidByName"},
		{"engine/index/index.go", "GetSchemaIndex", "idxGetSchemaIndex"},
	} {
		d, err := g.Func(f[0], f[1])
		if err != nil {
			return err
		}
		g.P("def src_%s : String := %s", f[2], leanStr(g.Src(d.Body)))
	}
	return nil
}
