package main

import (
	"fmt"
	"go/ast"
	"go/constant"
	"go/token"
	"strings"
)

// C07 — facts for the segment-level column framing (engine/immutable/column_builder.go,
// chunkdata_builder.go, reader.go; lib/encoding/encoding.go; lib/record):
//   * block-type constants (BlockInteger … BlockStringEmpty, the One/Full/Empty ranges);
//   * IsBlockOne / IsBlockFull / IsBlockEmpty, RewriteTypeToFull / RewriteTypeToEmpty,
//     CanEncodeOneRowMode and rewriteType *translated* to Lean definitions the model uses;
//   * per column encoder (encIntegerColumn …, ChunkDataBuilder.EncodeTime): which one-value
//     marker, which header type and which block codec it uses;
//   * fingerprints of the hand-transcribed functions.
func genC07Col(g *Gen) error {
	const (
		encEnc = "lib/encoding/encoding.go"
		influx = "lib/util/lifted/vm/protoparser/influx/parser.go"
		colB   = "engine/immutable/column_builder.go"
		chunkB = "engine/immutable/chunkdata_builder.go"
		reader = "engine/immutable/reader.go"
		recCol = "lib/record/column.go"
		recRec = "lib/record/record.go"
		recStr = "lib/record/column_string.go"
		recUtl = "lib/record/column_util.go"
	)
	g.P("")
	g.P("/-! ## column segment framing -/")
	env := map[string]constant.Value{}
	for _, c := range []string{"Field_Type_Int", "Field_Type_Float", "Field_Type_String", "Field_Type_Boolean", "Field_Type_Tag"} {
		if err := g.natConst(influx, c, "fieldType"+strings.TrimPrefix(c, "Field_Type_"), env); err != nil {
			return err
		}
		// the block constants are written byte(influx.Field_Type_X)
		env["influx."+c] = env[c]
	}
	lower := func(s string) string { return strings.ToLower(s[:1]) + s[1:] }
	consts := []string{"BlockFloat64", "BlockInteger", "BlockBoolean", "BlockString",
		"BlockOneBegin", "BlockFloat64One", "BlockIntegerOne", "BlockBooleanOne", "BlockStringOne", "BlockOneEnd",
		"BlockFullBegin", "BlockFloat64Full", "BlockIntegerFull", "BlockBooleanFull", "BlockStringFull", "BlockFullEnd",
		"BlockEmptyBegin", "BlockFloat64Empty", "BlockIntegerEmpty", "BlockBooleanEmpty", "BlockStringEmpty", "BlockEmptyEnd"}
	for _, c := range consts {
		if err := g.natConstConv(encEnc, c, lower(c), env); err != nil {
			return err
		}
	}
	isConst := map[string]bool{}
	for _, c := range consts {
		isConst[c] = true
	}
	t := &Tr{g: g}
	t.Ident = func(name string) string {
		name = strings.TrimPrefix(name, "encoding.")
		if isConst[name] {
			return lower(name)
		}
		switch name {
		case "col.Len":
			return "colLen"
		case "col.NilCount":
			return "colNilCount"
		case "col.Val":
			return "colVal"
		}
		return ""
	}
	t.Call = func(fun, method, recv string, args []string) string {
		switch fun {
		case "len":
			if len(args) == 1 && args[0] == "colVal" {
				return "colValLen"
			}
		case "encoding.RewriteTypeToFull":
			if len(args) == 1 {
				return "(rewriteTypeToFull " + args[0] + ")"
			}
		case "encoding.RewriteTypeToEmpty":
			if len(args) == 1 {
				return "(rewriteTypeToEmpty " + args[0] + ")"
			}
		}
		return ""
	}
	for _, f := range []string{"IsBlockOne", "IsBlockFull", "IsBlockEmpty"} {
		if err := t.Method(encEnc, f, lower(f), "(typ : Nat)", "Bool"); err != nil {
			return err
		}
	}
	// switch typ { case BlockX: return BlockXFull … default: return typ }
	for _, f := range []string{"RewriteTypeToFull", "RewriteTypeToEmpty"} {
		rows, err := g.SwitchTable(encEnc, f)
		if err != nil {
			return err
		}
		fd, _ := g.Func(encEnc, f)
		if len(fd.Body.List) != 1 {
			return fmt.Errorf("%s %s: body is not a single switch", encEnc, f)
		}
		if sw, ok := fd.Body.List[0].(*ast.SwitchStmt); !ok || sw.Init != nil || g.Src(sw.Tag) != "typ" {
			return fmt.Errorf("%s %s: not `switch typ`", encEnc, f)
		}
		body := ""
		def := ""
		for _, r := range rows {
			val := strings.TrimPrefix(r[1], "return ")
			if val == r[1] || strings.Contains(val, ";") {
				return fmt.Errorf("%s %s: clause %q is not a single return", encEnc, f, r[1])
			}
			if val != "typ" && !isConst[val] {
				return fmt.Errorf("%s %s: clause returns %q", encEnc, f, val)
			}
			if val != "typ" {
				val = lower(val)
			}
			if r[0] == "default" {
				def = val
				continue
			}
			if !isConst[r[0]] {
				return fmt.Errorf("%s %s: case label %q", encEnc, f, r[0])
			}
			body += fmt.Sprintf("if typ = %s then %s\n  else ", lower(r[0]), val)
		}
		if def == "" {
			return fmt.Errorf("%s %s: no default clause", encEnc, f)
		}
		g.P("def %s (typ : Nat) : Nat :=\n  %s%s\n", lower(f), body, def)
	}
	if err := t.Method(colB, "CanEncodeOneRowMode", "canEncodeOneRowMode", "(colLen colNilCount colValLen : Nat)", "Bool"); err != nil {
		return err
	}
	if err := t.Method(colB, "rewriteType", "rewriteType", "(colLen colNilCount typ : Nat)", "Nat"); err != nil {
		return err
	}
	// which marker / header type / block codec every column encoder uses
	var table []string
	for _, e := range [][2]string{{colB, "ColumnBuilder.encIntegerColumn"}, {colB, "ColumnBuilder.encFloatColumn"},
		{colB, "ColumnBuilder.encStringColumn"}, {colB, "ColumnBuilder.encBooleanColumn"}, {chunkB, "ChunkDataBuilder.EncodeTime"}} {
		row, err := g.colEncoderShape(e[0], e[1])
		if err != nil {
			return err
		}
		table = append(table, row)
	}
	g.P("/-- per column encoder: (function, one-value test, marker, payload of the one-value form, header type, block codec) -/")
	g.P("def colEncoders : List (String × String × String × String × String × String) := [\n  %s]", strings.Join(table, ",\n  "))
	for _, f := range [][3]string{
		{colB, "EncodeColumnHeader", "fp_encodeColumnHeader"},
		{colB, "DecodeColumnHeader", "fp_decodeColumnHeader"},
		{colB, "ColumnBuilder.EncodeColumn", "fp_cbEncodeColumn"},
		{colB, "ColumnBuilder.encode", "fp_cbEncode"},
		{reader, "DecodeColumnOfOneValue", "fp_decodeColumnOfOneValue"},
		{reader, "decodeColumnData", "fp_decodeColumnData"},
		{reader, "appendTimeColumnData", "fp_appendTimeColumnData"},
		{reader, "appendIntegerColumn", "fp_appendIntegerColumn"},
		{reader, "appendFloatColumn", "fp_appendFloatColumn"},
		{reader, "appendBooleanColumn", "fp_appendBooleanColumn"},
		{reader, "appendStringColumn", "fp_appendStringColumn"},
		{recRec, "subBitmapBytes", "fp_subBitmapBytes"},
		{recCol, "ColVal.appendBitmap", "fp_cvAppendBitmap"},
		{recCol, "ColVal.Append", "fp_cvAppend"},
		{recCol, "ColVal.FillBitmap", "fp_cvFillBitmap"},
		{recCol, "ColVal.RepairBitmap", "fp_cvRepairBitmap"},
		{recCol, "ColVal.IsNil", "fp_cvIsNil"},
		{recCol, "ColVal.Split", "fp_cvSplit"},
		{recCol, "ColVal.sliceBitMap", "fp_cvSliceBitMap"},
		{recCol, "ColVal.sliceValAndOffset", "fp_cvSliceValAndOffset"},
		{recCol, "ColVal.ValidCount", "fp_cvValidCount"},
		{recStr, "ColVal.StringValueSafe", "fp_cvStringValueSafe"},
		{recUtl, "value", "fp_cvValue"},
		{encEnc, "EncodeIntegerBlock", "fp_encodeIntegerBlock"},
		{encEnc, "DecodeIntegerBlock", "fp_decodeIntegerBlock"},
		{encEnc, "EncodeFloatBlock", "fp_encodeFloatBlock"},
		{encEnc, "DecodeFloatBlock", "fp_decodeFloatBlock"},
		{encEnc, "EncodeBooleanBlock", "fp_encodeBooleanBlock"},
		{encEnc, "DecodeBooleanBlock", "fp_decodeBooleanBlock"},
		{encEnc, "EncodeTimestampBlock", "fp_encodeTimestampBlock"},
		{encEnc, "DecodeTimestampBlock", "fp_decodeTimestampBlock"},
	} {
		if err := g.fpDef(f[0], f[1], f[2]); err != nil {
			return err
		}
	}
	// BitMask = [8]byte{1, 2, 4, …}: bit i of a bitmap byte is row i (least significant first)
	bm, err := g.Const(recCol, "BitMask")
	if err != nil {
		return err
	}
	g.P("def src_bitMask : String := %s", leanStr(bm))
	return nil
}

// natConstConv: natConst that also accepts `byte(<const expr>)`.
func (g *Gen) natConstConv(rel, name, lean string, env map[string]constant.Value) error {
	f, err := g.Parse(rel)
	if err != nil {
		return err
	}
	for _, d := range f.Decls {
		gd, ok := d.(*ast.GenDecl)
		if !ok || gd.Tok != token.CONST {
			continue
		}
		for _, sp := range gd.Specs {
			vs, ok := sp.(*ast.ValueSpec)
			if !ok {
				continue
			}
			for i, n := range vs.Names {
				if n.Name != name || i >= len(vs.Values) {
					continue
				}
				e := vs.Values[i]
				if ce, ok := e.(*ast.CallExpr); ok && len(ce.Args) == 1 && g.Src(ce.Fun) == "byte" {
					e = ce.Args[0]
				}
				var v constant.Value
				if se, ok := e.(*ast.SelectorExpr); ok {
					v = env[g.Src(se)]
					if v == nil {
						return fmt.Errorf("%s %s: unknown constant %s", rel, name, g.Src(se))
					}
				} else {
					v, err = constEval(e, env)
					if err != nil {
						return fmt.Errorf("%s %s: %w", rel, name, err)
					}
				}
				iv := constant.ToInt(v)
				if iv.Kind() != constant.Int || constant.Sign(iv) < 0 || constant.Compare(iv, token.GTR, constant.MakeInt64(255)) {
					return fmt.Errorf("%s %s: not a byte value: %s", rel, name, v)
				}
				env[name] = iv
				g.P("def %s : Nat := %s", lean, iv.ExactString())
				return nil
			}
		}
	}
	return fmt.Errorf("%s: constant %s not found", rel, name)
}

// colEncoderShape finds, in a column encoder, the statement
//
//	if CanEncodeOneRowMode(x) { buf = append(buf, MARK); buf = append(buf, x.Val...) }
//	else { buf = EncodeColumnHeader(x, buf, TYPE); buf, err = encoding.CODEC(x.Val…, buf, coder); … }
//
// and returns (function, test, MARK, payload, TYPE, CODEC) as a Lean tuple of strings.
func (g *Gen) colEncoderShape(rel, fn string) (string, error) {
	fd, err := g.Func(rel, fn)
	if err != nil {
		return "", err
	}
	var found *ast.IfStmt
	n := 0
	ast.Inspect(fd.Body, func(nd ast.Node) bool {
		if ifs, ok := nd.(*ast.IfStmt); ok && strings.HasPrefix(g.Src(ifs.Cond), "CanEncodeOneRowMode(") {
			found = ifs
			n++
		}
		return true
	})
	if found == nil || n != 1 {
		return "", fmt.Errorf("%s %s: expected exactly one `if CanEncodeOneRowMode(…)`, found %d", rel, fn, n)
	}
	els, ok := found.Else.(*ast.BlockStmt)
	if !ok || len(found.Body.List) != 2 || len(els.List) < 2 {
		return "", fmt.Errorf("%s %s: unexpected shape of the one-row branch", rel, fn)
	}
	appendArg := func(s ast.Stmt) (string, error) {
		as, ok := s.(*ast.AssignStmt)
		if !ok || len(as.Rhs) != 1 {
			return "", fmt.Errorf("%s %s: %s is not an append", rel, fn, g.Src(s))
		}
		ce, ok := as.Rhs[0].(*ast.CallExpr)
		if !ok || g.Src(ce.Fun) != "append" || len(ce.Args) != 2 || g.Src(as.Lhs[0]) != g.Src(ce.Args[0]) {
			return "", fmt.Errorf("%s %s: %s is not `buf = append(buf, x)`", rel, fn, g.Src(s))
		}
		a := g.Src(ce.Args[1])
		if ce.Ellipsis.IsValid() {
			a += "..."
		}
		return a, nil
	}
	mark, err := appendArg(found.Body.List[0])
	if err != nil {
		return "", err
	}
	payload, err := appendArg(found.Body.List[1])
	if err != nil {
		return "", err
	}
	hdr, ok := els.List[0].(*ast.AssignStmt)
	if !ok || len(hdr.Rhs) != 1 {
		return "", fmt.Errorf("%s %s: no header statement", rel, fn)
	}
	hc, ok := hdr.Rhs[0].(*ast.CallExpr)
	if !ok || g.Src(hc.Fun) != "EncodeColumnHeader" || len(hc.Args) != 3 {
		return "", fmt.Errorf("%s %s: %s is not EncodeColumnHeader(col, buf, typ)", rel, fn, g.Src(hdr))
	}
	cod, ok := els.List[1].(*ast.AssignStmt)
	if !ok || len(cod.Rhs) != 1 {
		return "", fmt.Errorf("%s %s: no block codec statement", rel, fn)
	}
	cc, ok := cod.Rhs[0].(*ast.CallExpr)
	if !ok {
		return "", fmt.Errorf("%s %s: %s is not a codec call", rel, fn, g.Src(cod))
	}
	var args []string
	for _, a := range cc.Args {
		args = append(args, g.Src(a))
	}
	// normalise the receiver-specific names: segCol / col, b.data / b.chunk, b.coder / b.colBuilder.coder
	norm := func(s string) string {
		s = strings.ReplaceAll(s, "segCol", "col")
		s = strings.ReplaceAll(s, "&col", "col")
		s = strings.ReplaceAll(s, "b.data", "buf")
		s = strings.ReplaceAll(s, "b.chunk", "buf")
		s = strings.ReplaceAll(s, "b.colBuilder.coder", "coder")
		s = strings.ReplaceAll(s, "b.coder", "coder")
		return s
	}
	row := []string{fn, norm(g.Src(found.Cond)), mark, norm(payload), norm(g.Src(hc.Args[0])) + ", " + g.Src(hc.Args[2]),
		g.Src(cc.Fun) + "(" + norm(strings.Join(args, ", ")) + ")"}
	for i := range row {
		row[i] = leanStr(row[i])
	}
	return "(" + strings.Join(row, ", ") + ")", nil
}
