package main

import (
	"fmt"
	"go/ast"
	"strings"
)

// C14, shared-storage (logkeeper) retention: the catalogue decides (called from genC14).
//
//	lib/metaclient/meta_client_impl.go  (*Client).GetExpiredShards : the mark test and the
//	    grace test                        -> OG.C14.sharedMarkCond, OG.C14.sharedInGrace
//	                                    (*Client).GetExpiredIndexes : the skip test
//	                                      -> OG.C14.sharedIndexSkip
//
// `t` (= time.Now().UTC()) is the parameter wallNow, RetentionDelayedTime the parameter delay.

func c14FindIf(g *Gen, fd *ast.FuncDecl, must ...string) (*ast.IfStmt, error) {
	var found *ast.IfStmt
	n := 0
	ast.Inspect(fd.Body, func(x ast.Node) bool {
		s, ok := x.(*ast.IfStmt)
		if !ok {
			return true
		}
		src := g.Src(s.Cond)
		for _, m := range must {
			if !strings.Contains(src, m) {
				return true
			}
		}
		found = s
		n++
		return true
	})
	if n != 1 {
		return nil, fmt.Errorf("%s: %d if-statements whose condition mentions %v (want 1)", fd.Name.Name, n, must)
	}
	return found, nil
}

func c14SharedDefs(g *Gen, t *Tr) error {
	const file = "lib/metaclient/meta_client_impl.go"
	old := t.Ident
	defer func() { t.Ident = old }()
	t.Ident = func(name string) string {
		switch name {
		case "rp.Duration":
			return "duration"
		case "rp.ShardGroups[i].EndTime", "rp.IndexGroups[i].EndTime":
			return "endTime"
		case "rp.ShardGroups[i].DeletedAt":
			return "deletedAt"
		case "RetentionDelayedTime":
			return "delay"
		case "t":
			return "wallNow"
		}
		return ""
	}
	fd, err := g.Func(file, "Client.GetExpiredShards")
	if err != nil {
		return err
	}
	mark, err := c14FindIf(g, fd, "rp.Duration", "EndTime")
	if err != nil {
		return err
	}
	grace, err := c14FindIf(g, fd, "DeletedAt", "RetentionDelayedTime")
	if err != nil {
		return err
	}
	ifd, err := g.Func(file, "Client.GetExpiredIndexes")
	if err != nil {
		return err
	}
	skip, err := c14FindIf(g, ifd, "rp.Duration", "RetentionDelayedTime")
	if err != nil {
		return err
	}
	for _, d := range []struct {
		s      *ast.IfStmt
		name   string
		params string
		body   string // what the statement does when the condition holds
	}{
		{mark, "sharedMarkCond", "(wallNow duration endTime : Int)", "markDelSgInfos = append("},
		{grace, "sharedInGrace", "(wallNow deletedAt delay : Int)", "continue"},
		{skip, "sharedIndexSkip", "(wallNow duration endTime delay : Int)", "continue"},
	} {
		if !strings.Contains(g.Src(d.s.Body), d.body) || d.s.Else != nil {
			return fmt.Errorf("%s: unexpected body of the statement behind %s: %s", file, d.name, g.Src(d.s))
		}
		e, err := t.expr(d.s.Cond)
		if err != nil {
			return fmt.Errorf("%s %s: %w", file, d.name, err)
		}
		g.P("def %s %s : Bool :=\n  %s\n", d.name, d.params, e)
	}
	return nil
}

func c14SharedShapes(g *Gen) error {
	for _, f := range [][3]string{
		{"lib/metaclient/meta_client_impl.go", "Client.GetExpiredShards", "src_GetExpiredShards"},
		{"lib/metaclient/meta_client_impl.go", "Client.GetExpiredIndexes", "src_GetExpiredIndexes"},
		{"lib/metaclient/meta_client_impl.go", "Client.RevertRetentionPolicyDelete", "src_RevertRetentionPolicyDelete"},
		{"services/retention/service.go", "Service.HandleSharedStorage", "src_HandleSharedStorage"},
	} {
		fd, err := g.Func(f[0], f[1])
		if err != nil {
			return err
		}
		g.P("def %s : String := %s", f[2], leanStr(c14StripLogs(g, fd.Body)))
	}
	c, err := g.Const("lib/metaclient/meta_client.go", "RetentionDelayedTime")
	if err != nil {
		return err
	}
	g.P("def retentionDelayedTime_src : String := %s", leanStr(c))
	return nil
}
