package main

import (
	"fmt"
	"go/ast"
	"go/token"
	"strings"
)

func init() { register("C05", genC05) }

// c05Pos walks a function body in source order and reports the position (0-based rank among the
// recognised events) of every event `name` for which match(node) is true.
func c05Events(g *Gen, body *ast.BlockStmt, kinds []struct {
	name  string
	match func(n ast.Node) bool
}) []string {
	var out []string
	ast.Inspect(body, func(n ast.Node) bool {
		if n == nil {
			return false
		}
		for _, k := range kinds {
			if k.match(n) {
				out = append(out, k.name)
				break
			}
		}
		return true
	})
	return out
}

func c05CallNamed(g *Gen, n ast.Node, suffix string) bool {
	c, ok := n.(*ast.CallExpr)
	if !ok {
		return false
	}
	s := g.Src(c.Fun)
	return s == suffix || strings.HasSuffix(s, "."+suffix)
}

func genC05(g *Gen) error {
	const (
		node   = "lib/raftconn/node.go"
		praft  = "engine/partition_raft.go"
		eng    = "engine/engine.go"
		tsst   = "engine/ts_storage.go"
		rlog   = "lib/raftlog/"
		mdata  = "lib/util/lifted/influx/meta/data.go"
		cm     = "app/ts-meta/meta/cluster_manager.go"
		mcli   = "lib/metaclient/meta_client_impl.go"
		walSrc = "engine/wal.go"
	)
	g.Header(node, praft, eng, tsst, rlog+"entrylog.go", rlog+"storage.go", rlog+"log.go", rlog+"snapshotter.go", mdata, cm, mcli, walSrc)
	g.GenNS()
	g.P("set_option linter.unusedVariables false")

	// ---- geometry of the entry files ---------------------------------------------------------
	cfiles := []string{rlog + "log.go", rlog + "file.go", rlog + "meta.go"}
	for _, c := range [][2]string{{"maxNumEntries", "goCap"}, {"logFileOffset", "goDataOff"}, {"maxLogFileSize", "goMaxSize"}, {"unit32Size", "goLenPrefix"}} {
		v, err := c17EvalConst(g, cfiles, c[0], 0)
		if err != nil {
			return err
		}
		g.P("def %s : Nat := %d", c[1], v)
	}
	// the rotate condition and the next offset of entryLog.AddEntries
	fd, err := g.Func(rlog+"entrylog.go", "entryLog.AddEntries")
	if err != nil {
		return err
	}
	t := &Tr{g: g}
	t.Ident = func(name string) string {
		switch name {
		case "l.nextEntryIdx":
			return "nextEntryIdx"
		case "logFileOffset":
			return "(dataOff : Int)"
		case "maxNumEntries":
			return "(cap : Int)"
		case "maxLogFileSize":
			return "(maxSize : Int)"
		case "unit32Size":
			return "(goLenPrefix : Int)"
		}
		return ""
	}
	t.Call = func(fun, method, recv string, args []string) string {
		switch {
		case (fun == "int64" || fun == "int" || fun == "uint64") && len(args) == 1:
			return args[0]
		case fun == "len" && len(args) == 1 && args[0] == "re.Data":
			return "dataLen"
		}
		return ""
	}
	var rotateCond, nextOff string
	var terr error
	ast.Inspect(fd.Body, func(n ast.Node) bool {
		switch x := n.(type) {
		case *ast.IfStmt:
			if len(x.Body.List) > 0 && rotateCond == "" {
				if is, ok := x.Body.List[0].(*ast.IfStmt); ok && is.Init != nil && g.Src(is.Init) == "err := l.rotate(re.Index, offset)" {
					rotateCond, terr = t.expr(x.Cond)
				}
			}
		case *ast.AssignStmt:
			if len(x.Lhs) == 1 && g.Src(x.Lhs[0]) == "next" && x.Tok == token.DEFINE {
				nextOff, terr = t.expr(x.Rhs[0])
			}
		}
		return terr == nil
	})
	if terr != nil || rotateCond == "" || nextOff == "" {
		return fmt.Errorf("AddEntries: rotate condition / next offset not found (%v)", terr)
	}
	g.P("/-- the condition under which AddEntries starts a new entry file before writing an entry -/")
	g.P("def needRotate (cap dataOff maxSize : Nat) (nextEntryIdx offset dataLen : Int) : Bool := %s", rotateCond)
	g.P("def nextOffset (offset dataLen : Int) : Int := %s\n", nextOff)

	// ---- genProposeData: the index a ClearEntryLog entry carries -------------------------------
	if err := c05GenIndex(g, node); err != nil {
		return err
	}
	// which Match values enter the minimum
	for _, f := range [][2]string{{"RaftNode.prepareDeleteEntryLogProposeData", "prepareDelete"}, {"RaftNode.forceDeleteEntryLog", "forceDelete"},
		{"RaftNode.deleteEntryLog", "deleteEntryLog"}, {"RaftNode.deleteEntryLogBySize", "deleteBySize"}, {"RaftNode.forceDeleteEntryLogBySize", "forceDeleteBySize"},
		{"RaftNode.CheckAllRgMembers", "checkAllRgMembers"}, {"RaftNode.comparePeerFileIdWithLeaderFileId", "compareFileId"},
		{"RaftNode.entriesToApply", "entriesToApply"}, {"RaftNode.PublishEntries", "publishEntries"}, {"RaftNode.snapShot", "snapShot"},
		{"RaftNode.InitAndStartNode", "initAndStart"}, {"RaftNode.RetCommittedDataC", "retCommittedDataC"}, {"RaftNode.AddCommittedDataC", "addCommittedDataC"},
		{"RaftNode.GenerateProposeId", "generateProposeId"}, {"RaftNode.saveConfStateToMeta", "saveConfState"}} {
		fd, err := g.Func(node, f[0])
		if err != nil {
			return err
		}
		g.P("def src_%s : String := %s", f[1], leanStr(g.Src(fd.Body)))
	}

	// ---- replay: the range read back after a restart ----------------------------------------
	if err := c05Replay(g, node); err != nil {
		return err
	}

	// ---- dealCommitData / WriteToRaft: when and with what the writer is answered ------------
	if err := c05Ack(g, praft, eng); err != nil {
		return err
	}

	// ---- flush: order of the raft snapshot signal and the commit of the flushed table --------
	fd, err = g.Func(tsst, "tsstoreImpl.writeSnapshot")
	if err != nil {
		return err
	}
	ev := c05Events(g, fd.Body, []struct {
		name  string
		match func(n ast.Node) bool
	}{
		{"flag0", func(n ast.Node) bool {
			return c05CallNamed(g, n, "StoreUint32") && strings.Contains(g.Src(n), "RaftFlag, 0")
		}},
		{"flag1", func(n ast.Node) bool {
			return c05CallNamed(g, n, "StoreUint32") && strings.Contains(g.Src(n), "RaftFlag, 1")
		}},
		{"switch", func(n ast.Node) bool {
			a, ok := n.(*ast.AssignStmt)
			return ok && len(a.Lhs) == 1 && g.Src(a.Lhs[0]) == "s.snapshotTbl" && g.Src(a.Rhs[0]) == "s.activeTbl"
		}},
		{"signal", func(n ast.Node) bool {
			s, ok := n.(*ast.SendStmt)
			return ok && strings.HasSuffix(g.Src(s.Chan), "RaftFlushC")
		}},
		{"commit", func(n ast.Node) bool { return c05CallNamed(g, n, "commitSnapshot") }},
		{"walremove", func(n ast.Node) bool { return c05CallNamed(g, n, "RemoveWalFiles") }},
	})
	g.StrList("flushEvents", ev)
	idx := func(name string) int {
		for i, e := range ev {
			if e == name {
				return i
			}
		}
		return -1
	}
	g.P("/-- the raft snapshot is signalled after the flushed table is in the data files -/")
	g.P("def snapSignalAfterCommit : Bool := %v", idx("signal") >= 0 && idx("commit") >= 0 && idx("signal") > idx("commit"))
	// is the SnapShotter read once (a local taken before the flag is cleared) and used for the flag and the signal?
	captured := ""
	for _, st := range fd.Body.List {
		if a, ok := st.(*ast.AssignStmt); ok && a.Tok == token.DEFINE && len(a.Lhs) == 1 && len(a.Rhs) == 1 && g.Src(a.Rhs[0]) == "s.SnapShotter" {
			captured = g.Src(a.Lhs[0])
		}
		break
	}
	usesField := false
	ast.Inspect(fd.Body, func(n ast.Node) bool {
		switch x := n.(type) {
		case *ast.SendStmt:
			if strings.HasSuffix(g.Src(x.Chan), "RaftFlushC") && g.Src(x.Chan) != captured+".RaftFlushC" {
				usesField = true
			}
		case *ast.CallExpr:
			if c05CallNamed(g, x, "StoreUint32") && strings.Contains(g.Src(x), "RaftFlag") && !strings.Contains(g.Src(x), "&"+captured+".RaftFlag") {
				usesField = true
			}
		}
		return true
	})
	g.P("/-- the flush clears the flag and gives the signal through one SnapShotter value read at its start -/")
	g.P("def snpCapturedOnce : Bool := %v", captured != "" && !usesField)
	g.P("/-- the committed index is frozen (RaftFlag 0) from before the table switch until after the signal -/")
	g.P("def flagFrozenAcrossFlush : Bool := %v\n", idx("flag0") >= 0 && idx("flag0") < idx("switch") && idx("flag1") > idx("signal") && idx("signal") >= 0)

	// the column-store flush: the signal is given by the flush goroutine after the commit
	if cfd, err := g.Func("engine/cs_storage.go", "ColumnStoreImpl.writeSnapshot"); err == nil {
		cev := c05Events(g, cfd.Body, []struct {
			name  string
			match func(n ast.Node) bool
		}{
			{"flag0", func(n ast.Node) bool {
				return c05CallNamed(g, n, "StoreUint32") && strings.Contains(g.Src(n), "RaftFlag, 0")
			}},
			{"flag1", func(n ast.Node) bool {
				return c05CallNamed(g, n, "StoreUint32") && strings.Contains(g.Src(n), "RaftFlag, 1")
			}},
			{"switch", func(n ast.Node) bool {
				a, ok := n.(*ast.AssignStmt)
				return ok && len(a.Lhs) == 1 && g.Src(a.Lhs[0]) == "storage.snapshotContainer[idx]" && g.Src(a.Rhs[0]) == "s.activeTbl"
			}},
			{"signal", func(n ast.Node) bool {
				sd, ok := n.(*ast.SendStmt)
				return ok && strings.HasSuffix(g.Src(sd.Chan), "RaftFlushC")
			}},
			{"commit", func(n ast.Node) bool { return c05CallNamed(g, n, "flush") && strings.HasPrefix(g.Src(n), "storage.flush(") }},
		})
		g.StrList("csFlushEvents", cev)
	} else {
		return err
	}

	for _, f := range [][3]string{
		{rlog + "snapshotter.go", "SnapShotter.TryToUpdateCommittedIndex", "tryToUpdateCommittedIndex"},
		{rlog + "storage.go", "Init", "storageInit"},
		{rlog + "storage.go", "RaftDiskStorage.FirstIndexWithSnap", "firstIndexWithSnap"},
		{rlog + "storage.go", "RaftDiskStorage.CreateSnapshot", "createSnapshot"},
		{rlog + "storage.go", "RaftDiskStorage.DeleteBefore", "storageDeleteBefore"},
		{rlog + "entrylog.go", "entryLog.deleteBefore", "entryLogDeleteBefore"},
		{rlog + "entrylog.go", "entryLog.slotGe", "entryLogSlotGe"},
		{rlog + "log.go", "logFile.slotGe", "logFileSlotGe"},
		{rlog + "meta.go", "IsValidSnapshot", "isValidSnapshot"},
		{praft, "readCommitFromRaft", "readCommitFromRaft"},
		{praft, "readReplayForReplication", "readReplay"},
		{praft, "dealNormalData", "dealNormalData"},
		{eng, "EngineImpl.WriteRows", "engineWriteRows"},
		{"engine/shard.go", "shard.SetSnapShotter", "setSnapShotter"},
		{walSrc, "WAL.Write", "walWrite"},
		{cm, "electRgMaster", "electRgMaster"},
		{mdata, "Data.GetNewRg", "getNewRg"},
		{mdata, "Data.UpdateReplication", "updateReplication"},
		{mcli, "Client.getAliveShardsForRepDB", "getAliveShardsForRepDB"},
		{"lib/util/lifted/influx/meta/replication.go", "ReplicaGroup.nextHealth", "nextHealth"},
		{"lib/util/lifted/influx/meta/replication.go", "ReplicaGroup.nextSubHealth", "nextSubHealth"},
		{mdata, "Data.updatePtViewStatus", "updatePtViewStatus"},
		{mdata, "Data.updatePtStatus", "updatePtStatus"},
		{"coordinator/points_writer.go", "PointsWriter.writeRowToShard", "writeRowToShard"},
		{"lib/errno/error.go", "IsRetryErrorForPtView", "isRetryErrorForPtView"},
		{"engine/engine_replication.go", "EngineImpl.startRaftNode", "startRaftNode"},
	} {
		fd, err := g.Func(f[0], f[1])
		if err != nil {
			return err
		}
		g.P("def src_%s : String := %s", f[2], leanStr(g.Src(fd.Body)))
	}

	// ---- does the commit loop wait for the start-up replay? ----------------------------------
	gated := false
	if scl, err := g.Func(praft, "startCommitLoop"); err == nil {
		// go func() { <-replayDone; readCommitFromRaft(...) }()
		ast.Inspect(scl.Body, func(n ast.Node) bool {
			fl, ok := n.(*ast.FuncLit)
			if !ok || len(fl.Body.List) < 2 {
				return true
			}
			if es, ok := fl.Body.List[0].(*ast.ExprStmt); ok {
				if u, ok := es.X.(*ast.UnaryExpr); ok && u.Op == token.ARROW && g.Src(u.X) == "replayDone" {
					if c05CallNamed(g, fl.Body.List[1].(*ast.ExprStmt).X, "readCommitFromRaft") {
						gated = true
					}
				}
			}
			return true
		})
		g.P("def src_startCommitLoop : String := %s", leanStr(g.Src(scl.Body)))
	} else {
		g.P("def src_startCommitLoop : String := \"\"")
	}
	srn, err := g.Func("engine/engine_replication.go", "EngineImpl.startRaftNode")
	if err != nil {
		return err
	}
	usesGate, startsBare := false, false
	ast.Inspect(srn.Body, func(n ast.Node) bool {
		switch x := n.(type) {
		case *ast.GoStmt:
			if c05CallNamed(g, x.Call, "readCommitFromRaft") {
				startsBare = true
			}
		case *ast.CallExpr:
			if c05CallNamed(g, x, "startCommitLoop") && len(x.Args) == 4 && g.Src(x.Args[3]) == "dbPt.replayDone" {
				usesGate = true
			}
		}
		return true
	})
	// the caller closes the gate after it has applied the replay
	closesAfter := false
	if f, err := g.Parse("engine/engine_ha.go"); err == nil {
		for _, d := range f.Decls {
			fd, ok := d.(*ast.FuncDecl)
			if !ok || fd.Body == nil {
				continue
			}
			ev := c05Events(g, fd.Body, []struct {
				name  string
				match func(n ast.Node) bool
			}{
				{"start", func(n ast.Node) bool { return c05CallNamed(g, n, "startRaftNode") }},
				{"replay", func(n ast.Node) bool { return c05CallNamed(g, n, "readReplayForReplication") }},
				{"open", func(n ast.Node) bool {
					c, ok := n.(*ast.CallExpr)
					return ok && g.Src(c.Fun) == "close" && len(c.Args) == 1 && g.Src(c.Args[0]) == "dbPt.replayDone"
				}},
			})
			if strings.Join(ev, ",") == "start,replay,open" {
				closesAfter = true
				g.StrList("assignReplayEvents", ev)
			}
		}
	}
	if !closesAfter {
		g.StrList("assignReplayEvents", nil)
	}
	g.P("/-- the commit loop of a partition applies nothing before the start-up replay has been applied -/")
	g.P("def commitLoopAfterReplay : Bool := %v\n", gated && usesGate && !startsBare && closesAfter)

	// the errors on which the coordinator asks the meta data again and retries
	for _, v := range []string{"retryableErrnos", "retryableErrStrs"} {
		src, err := g.Const("lib/errno/error.go", v)
		if err != nil {
			return err
		}
		g.P("def %s : String := %s", v, leanStr(src))
	}

	// ---- propose ids: unique across the lives of a node? -------------------------------------
	fd, err = g.Func(node, "StartNode")
	if err != nil {
		return err
	}
	seeded := false
	ast.Inspect(fd.Body, func(n ast.Node) bool {
		if c, ok := n.(*ast.CallExpr); ok && strings.HasSuffix(g.Src(c.Fun), "proposeId.Store") {
			seeded = true
		}
		return true
	})
	g.P("/-- StartNode gives the propose-id counter a start value of its own (ids of two lives of a node differ) -/")
	g.P("def pidSeededPerLife : Bool := %v", seeded)
	g.Footer()
	return nil
}

// c05GenIndex translates the body of genProposeData up to the point where minIndex is fixed:
//   def genIndex (fileOf : Nat → Int) (maxU64 index minMatch : Nat) : Nat
func c05GenIndex(g *Gen, node string) error {
	fd, err := g.Func(node, "RaftNode.genProposeData")
	if err != nil {
		return err
	}
	cmp, err := g.Func(node, "RaftNode.comparePeerFileIdWithLeaderFileId")
	if err != nil {
		return err
	}
	// comparePeerFileIdWithLeaderFileId: `if a != b { return errors.New(..) }; return nil`
	cmpOK := false
	if len(cmp.Body.List) == 2 {
		if is, ok := cmp.Body.List[0].(*ast.IfStmt); ok && g.Src(is.Cond) == "memberFilId != filId" {
			if r, ok := cmp.Body.List[1].(*ast.ReturnStmt); ok && g.Src(r.Results[0]) == "nil" {
				cmpOK = true
			}
		}
	}
	if !cmpOK {
		return fmt.Errorf("comparePeerFileIdWithLeaderFileId: unexpected shape %s", g.Src(cmp.Body))
	}
	t := &Tr{g: g}
	t.Ident = func(name string) string {
		if name == "math.MaxUint64" {
			return "maxU64"
		}
		return ""
	}
	t.Call = func(fun, method, recv string, args []string) string {
		switch {
		case (fun == "uint64" || fun == "float64") && len(args) == 1:
			return args[0]
		case fun == "math.Min" && len(args) == 2:
			return "(Nat.min " + args[0] + " " + args[1] + ")"
		case fun == "math.Max" && len(args) == 2:
			return "(Nat.max " + args[0] + " " + args[1] + ")"
		}
		return ""
	}
	// value of minIndex at the end of a statement list (the last assignment to it on each path)
	var val func(list []ast.Stmt) (string, error)
	val = func(list []ast.Stmt) (string, error) {
		lets := ""
		for i, s := range list {
			switch x := s.(type) {
			case *ast.DeclStmt:
				continue
			case *ast.AssignStmt:
				lhs := g.Src(x.Lhs[0])
				if lhs == "minIndex" && len(x.Rhs) == 1 {
					e, err := t.expr(x.Rhs[0])
					if err != nil {
						return "", err
					}
					return lets + e, nil
				}
				if c, ok := x.Rhs[0].(*ast.CallExpr); ok && len(x.Rhs) == 1 {
					fn := g.Src(c.Fun)
					if strings.HasSuffix(fn, "Store.SlotGe") && len(c.Args) == 1 {
						a, err := t.expr(c.Args[0])
						if err != nil {
							return "", err
						}
						lets += fmt.Sprintf("let %s := fileOf %s; ", lhs, a)
						continue
					}
					if strings.HasSuffix(fn, "comparePeerFileIdWithLeaderFileId") && len(c.Args) == 2 {
						lets += fmt.Sprintf("let %s := (%s != %s); ", lhs, g.Src(c.Args[0]), g.Src(c.Args[1]))
						continue
					}
				}
				return "", fmt.Errorf("genProposeData: unsupported statement %s", g.Src(s))
			case *ast.IfStmt:
				cond := g.Src(x.Cond)
				var c string
				if cond == "err != nil" {
					c = "err"
				} else {
					c, err = t.expr(x.Cond)
					if err != nil {
						return "", err
					}
				}
				th, err := val(x.Body.List)
				if err != nil {
					return "", err
				}
				var el string
				switch e := x.Else.(type) {
				case *ast.BlockStmt:
					el, err = val(e.List)
				case nil:
					el, err = val(list[i+1:])
				default:
					err = fmt.Errorf("genProposeData: else-if")
				}
				if err != nil {
					return "", err
				}
				return fmt.Sprintf("%s(if %s then %s else %s)", lets, c, th, el), nil
			default:
				return "", fmt.Errorf("genProposeData: minIndex not assigned before %s", g.Src(s))
			}
		}
		return "", fmt.Errorf("genProposeData: minIndex not assigned")
	}
	body, err := val(fd.Body.List)
	if err != nil {
		return err
	}
	g.P("/-- the index genProposeData puts into a ClearEntryLog entry (`fileOf` = first result of Store.SlotGe) -/")
	g.P("def genIndex (fileOf : Nat → Int) (maxU64 index minMatch : Nat) : Nat :=\n  %s\n", body)
	g.P("def src_genProposeData : String := %s", leanStr(g.Src(fd.Body)))
	return nil
}

// c05Replay: `fromIndex := sp.Metadata.Index; if fromIndex == 0 { fromIndex = 1 }; … Entries(fromIndex, committedIndex+1, …)`
func c05Replay(g *Gen, node string) error {
	fd, err := g.Func(node, "RaftNode.replay")
	if err != nil {
		return err
	}
	t := &Tr{g: g}
	t.Ident = func(name string) string {
		switch name {
		case "sp.Metadata.Index":
			return "snap"
		case "hardState.Commit":
			return "commit"
		}
		return ""
	}
	var init, cond, alt, lo, hi, cidx string
	var terr error
	ast.Inspect(fd.Body, func(n ast.Node) bool {
		if terr != nil {
			return false
		}
		switch x := n.(type) {
		case *ast.AssignStmt:
			if len(x.Lhs) == 1 && len(x.Rhs) == 1 {
				switch {
				case g.Src(x.Lhs[0]) == "fromIndex" && x.Tok == token.DEFINE:
					init, terr = t.expr(x.Rhs[0])
				case g.Src(x.Lhs[0]) == "committedIndex" && x.Tok == token.DEFINE:
					cidx, terr = t.expr(x.Rhs[0])
				}
			}
		case *ast.IfStmt:
			if len(x.Body.List) == 1 {
				if a, ok := x.Body.List[0].(*ast.AssignStmt); ok && g.Src(a.Lhs[0]) == "fromIndex" && a.Tok == token.ASSIGN {
					cond, terr = t.expr(x.Cond)
					if terr == nil {
						alt, terr = t.expr(a.Rhs[0])
					}
				}
			}
		case *ast.CallExpr:
			if strings.HasSuffix(g.Src(x.Fun), "Store.Entries") && len(x.Args) == 3 {
				lo, terr = t.expr(x.Args[0])
				if terr == nil {
					hi, terr = t.expr(x.Args[1])
				}
			}
		}
		return true
	})
	if terr != nil || init == "" || cond == "" || lo == "" || cidx == "" {
		return fmt.Errorf("replay: unexpected shape (%v)", terr)
	}
	g.P("/-- the half-open range [lo, hi) of entries RaftNode.replay reads back -/")
	g.P("def replayRange (snap commit : Nat) : Nat × Nat :=\n  let fromIndex := %s\n  let fromIndex := if %s then %s else fromIndex\n  let committedIndex := %s\n  (%s, %s)\n", init, cond, alt, cidx, lo, hi)
	g.P("def src_replay : String := %s", leanStr(g.Src(fd.Body)))
	return nil
}

// c05Ack: how dealCommitData answers the waiting writer.
func c05Ack(g *Gen, praft, eng string) error {
	fd, err := g.Func(praft, "dealCommitData")
	if err != nil {
		return err
	}
	deferred, late, direct := false, false, false
	applyAssignsErr := false
	posAck, posApply := token.NoPos, token.NoPos
	clampCall := ""
	ast.Inspect(fd.Body, func(n ast.Node) bool {
		switch x := n.(type) {
		case *ast.DeferStmt:
			if c05CallNamed(g, x.Call, "retCommittedDataC") {
				deferred, direct = true, true // arguments evaluated at the defer statement
				posAck = x.Pos()
				return false
			}
			if fl, ok := x.Call.Fun.(*ast.FuncLit); ok {
				ast.Inspect(fl.Body, func(m ast.Node) bool {
					if c05CallNamed(g, m, "retCommittedDataC") {
						deferred, late = true, true
					}
					return true
				})
				return false
			}
		case *ast.CallExpr:
			if c05CallNamed(g, x, "retCommittedDataC") && posAck == token.NoPos {
				posAck = x.Pos()
			}
			if c05CallNamed(g, x, "dealNormalData") {
				posApply = x.Pos()
			}
			if s := g.Src(x.Fun); strings.HasSuffix(s, "ClearIndex") {
				clampCall = g.Src(x)
			}
		case *ast.AssignStmt:
			if len(x.Rhs) == 1 && c05CallNamed(g, x.Rhs[0], "dealNormalData") && x.Tok == token.ASSIGN && g.Src(x.Lhs[0]) == "err" {
				applyAssignsErr = true
			}
		}
		return true
	})
	g.P("/-- dealCommitData answers the writer in a deferred call (i.e. after the local apply) -/")
	g.P("def ackDeferred : Bool := %v", deferred)
	g.P("/-- … or, if not deferred, by a call placed after the apply -/")
	g.P("def ackAfterApply : Bool := %v", deferred || (posAck != token.NoPos && posApply != token.NoPos && posAck > posApply))
	g.P("/-- the error handed to the writer is read when the deferred call runs and the apply assigns to it -/")
	g.P("def ackCarriesApplyResult : Bool := %v", deferred && late && !direct && applyAssignsErr)
	g.P("def src_dealCommitData : String := %s", leanStr(g.Src(fd.Body)))

	// the index a follower really truncates at
	rl := "lib/raftlog/storage.go"
	if cfd, err := g.Func(rl, "ClearIndex"); err == nil && clampCall != "" {
		t := &Tr{g: g}
		_ = cfd
		if err := t.Method(rl, "ClearIndex", "clearIndex", "(index ownSnapshot : Nat)", "Nat"); err != nil {
			return err
		}
		g.P("def clearIndexCall : String := %s", leanStr(clampCall))
		g.P("def clampClearToOwnSnap : Bool := true")
	} else {
		g.P("/-- a ClearEntryLog entry is applied with the index the leader computed -/")
		g.P("def clearIndex (index ownSnapshot : Nat) : Nat := index")
		g.P("def clearIndexCall : String := \"\"")
		g.P("def clampClearToOwnSnap : Bool := false")
	}

	// WriteToRaft: register the waiter, propose, wait
	fd, err = g.Func(eng, "EngineImpl.WriteToRaft")
	if err != nil {
		return err
	}
	ev := c05Events(g, fd.Body, []struct {
		name  string
		match func(n ast.Node) bool
	}{
		{"register", func(n ast.Node) bool { return c05CallNamed(g, n, "AddCommittedDataC") }},
		{"unregister", func(n ast.Node) bool { return c05CallNamed(g, n, "RemoveCommittedDataC") }},
		{"propose", func(n ast.Node) bool {
			s, ok := n.(*ast.SendStmt)
			return ok && strings.HasSuffix(g.Src(s.Chan), "proposeC")
		}},
		{"wait", func(n ast.Node) bool {
			u, ok := n.(*ast.UnaryExpr)
			return ok && u.Op == token.ARROW && g.Src(u.X) == "c"
		}},
		{"timeout", func(n ast.Node) bool {
			u, ok := n.(*ast.UnaryExpr)
			return ok && u.Op == token.ARROW && g.Src(u.X) == "timeT"
		}},
	})
	g.StrList("writeToRaftEvents", ev)
	rs, err := g.Returns(eng, "EngineImpl.WriteToRaft")
	if err != nil {
		return err
	}
	g.StrList("returns_WriteToRaft", rs)
	g.P("")
	return nil
}
