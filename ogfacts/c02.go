package main

import (
	"fmt"
	"go/ast"
	"go/token"
	"strings"
)

func init() { register("C02", genC02) }

// genC02 translates the tiny, pure decision functions under the C02 model from the working tree:
//   - the memtable's per-chunk time bookkeeping (tsMemTableImpl.appendFields: lastAppendTime /
//     firstAppendTime / timeAsd) and the range test that lets a read skip a chunk
//     (MemTable.getSortedRecSafe);
//   - lib/record: SortAux.Less (the stable sort's order), the equal-time test of sortColumn, the
//     guard of ColumnSortHelper.replace (a null never replaces), the two-pointer decision of
//     Record.appendRecs (ascending and descending), the per-cell decision of mergeRecRow, the
//     overlap / non-overlap dispatch of MergeRecordLimitRows[Descend].
//
// The Lean side (OG/C02/RecAlgSrc.lean, OG/C02/MemRead.lean) proves that the hand-written
// row-level model takes exactly these decisions, and states the memtable theorems directly over
// the translated definitions.
func genC02(g *Gen) error {
	g.Header("engine/mutable/ts_table.go", "engine/mutable/table.go", "lib/record/column_sort.go", "lib/record/record.go")
	g.GenNS()
	c := &c02{g: g}
	for _, f := range []func() error{c.writeRec, c.memSkip, c.sortLess, c.sameTime, c.replaceGuard, c.appendRecs, c.mergeRecRow, c.dispatch, c.limit} {
		if err := f(); err != nil {
			return err
		}
	}
	g.Footer()
	return nil
}

type c02 struct {
	g *Gen
}

// sub renders an expression: sources listed in m are replaced by the given Lean names, integer
// comparisons / boolean connectives are translated, anything else is an error.
func (c *c02) sub(e ast.Expr, m map[string]string) (string, error) {
	if s, ok := m[c.g.Src(e)]; ok {
		return s, nil
	}
	switch x := e.(type) {
	case *ast.ParenExpr:
		s, err := c.sub(x.X, m)
		return "(" + s + ")", err
	case *ast.BasicLit:
		if x.Kind == token.INT {
			return x.Value, nil
		}
	case *ast.Ident:
		if x.Name == "true" || x.Name == "false" {
			return x.Name, nil
		}
	case *ast.UnaryExpr:
		if x.Op == token.NOT {
			s, err := c.sub(x.X, m)
			return "(!" + s + ")", err
		}
	case *ast.BinaryExpr:
		a, err := c.sub(x.X, m)
		if err != nil {
			return "", err
		}
		b, err := c.sub(x.Y, m)
		if err != nil {
			return "", err
		}
		switch x.Op {
		case token.LAND:
			return "(" + a + " && " + b + ")", nil
		case token.LOR:
			return "(" + a + " || " + b + ")", nil
		case token.LSS:
			return "(decide (" + a + " < " + b + "))", nil
		case token.LEQ:
			return "(decide (" + a + " ≤ " + b + "))", nil
		case token.GTR:
			return "(decide (" + a + " > " + b + "))", nil
		case token.GEQ:
			return "(decide (" + a + " ≥ " + b + "))", nil
		case token.EQL:
			return "(" + a + " == " + b + ")", nil
		case token.NEQ:
			return "(" + a + " != " + b + ")", nil
		case token.ADD:
			return "(" + a + " + " + b + ")", nil
		case token.SUB:
			return "(" + a + " - " + b + ")", nil
		}
	}
	return "", fmt.Errorf("C02: expression outside the translated subset: %s", c.g.Src(e))
}

// recvUpdates turns a block of assignments `recv.f = e` into `{ recv with f := e, … }`.
func (c *c02) recvUpdates(list []ast.Stmt, recv string, m map[string]string) (string, error) {
	var ups []string
	for _, s := range list {
		as, ok := s.(*ast.AssignStmt)
		if !ok || as.Tok != token.ASSIGN || len(as.Lhs) != 1 || len(as.Rhs) != 1 {
			return "", fmt.Errorf("C02: not a plain assignment: %s", c.g.Src(s))
		}
		sel, ok := as.Lhs[0].(*ast.SelectorExpr)
		if !ok || c.g.Src(sel.X) != recv {
			return "", fmt.Errorf("C02: assignment to something else than %s: %s", recv, c.g.Src(s))
		}
		r, err := c.sub(as.Rhs[0], m)
		if err != nil {
			return "", err
		}
		ups = append(ups, sel.Sel.Name+" := "+r)
	}
	if len(ups) == 0 {
		return recv, nil
	}
	return fmt.Sprintf("{ %s with %s }", recv, strings.Join(ups, ", ")), nil
}

var i64 = map[string]string{"math.MinInt64": "(-9223372036854775808)", "math.MaxInt64": "9223372036854775807"}

// writeRec: the initial values (WriteRec.init) and the bookkeeping of one append
// (tsMemTableImpl.appendFields: every `if` whose condition mentions an AppendTime field).
func (c *c02) writeRec() error {
	g := c.g
	g.P("/-- engine/mutable.WriteRec, the fields the read path looks at. -/")
	g.P("structure WriteRec where")
	g.P("  firstAppendTime : Int")
	g.P("  lastAppendTime : Int")
	g.P("  timeAsd : Bool")
	g.P("deriving Repr, DecidableEq")
	g.P("")
	fd, err := g.Func("engine/mutable/table.go", "WriteRec.init")
	if err != nil {
		return err
	}
	vals := map[string]string{}
	for _, s := range fd.Body.List {
		as, ok := s.(*ast.AssignStmt)
		if !ok || len(as.Lhs) != 1 {
			continue
		}
		sel, ok := as.Lhs[0].(*ast.SelectorExpr)
		if !ok || g.Src(sel.X) != "writeRec" {
			continue
		}
		if v, e := c.sub(as.Rhs[0], i64); e == nil {
			vals[sel.Sel.Name] = v
		}
	}
	for _, f := range []string{"firstAppendTime", "lastAppendTime", "timeAsd"} {
		if vals[f] == "" {
			return fmt.Errorf("C02: WriteRec.init does not set %s to a constant", f)
		}
	}
	g.P("/-- `WriteRec.init`. -/")
	g.P("def initWriteRec : WriteRec := ⟨%s, %s, %s⟩", vals["firstAppendTime"], vals["lastAppendTime"], vals["timeAsd"])
	g.P("")
	fd, err = g.Func("engine/mutable/ts_table.go", "tsMemTableImpl.appendFields")
	if err != nil {
		return err
	}
	m := map[string]string{"time": "time", "writeRec.lastAppendTime": "writeRec.lastAppendTime", "writeRec.firstAppendTime": "writeRec.firstAppendTime"}
	var steps []string
	for _, s := range fd.Body.List {
		is, ok := s.(*ast.IfStmt)
		if !ok || is.Init != nil || !strings.Contains(g.Src(is.Cond), "AppendTime") {
			continue
		}
		cond, err := c.sub(is.Cond, m)
		if err != nil {
			return err
		}
		th, err := c.recvUpdates(is.Body.List, "writeRec", m)
		if err != nil {
			return err
		}
		el := "writeRec"
		if is.Else != nil {
			b, ok := is.Else.(*ast.BlockStmt)
			if !ok {
				return fmt.Errorf("C02: else-if in the time bookkeeping of appendFields")
			}
			if el, err = c.recvUpdates(b.List, "writeRec", m); err != nil {
				return err
			}
		}
		steps = append(steps, fmt.Sprintf("  let writeRec := if %s then %s else %s", cond, th, el))
	}
	if len(steps) != 2 {
		return fmt.Errorf("C02: appendFields has %d time-bookkeeping statements, the model was written against 2", len(steps))
	}
	g.P("/-- the time bookkeeping of `tsMemTableImpl.appendFields` for one appended row. -/")
	g.P("def appendTimes (writeRec : WriteRec) (time : Int) : WriteRec :=")
	for _, s := range steps {
		g.P("%s", s)
	}
	g.P("  writeRec")
	g.P("")
	return nil
}

func orList(e ast.Expr) []ast.Expr {
	if b, ok := e.(*ast.BinaryExpr); ok && b.Op == token.LOR {
		return append(orList(b.X), orList(b.Y)...)
	}
	if p, ok := e.(*ast.ParenExpr); ok {
		return orList(p.X)
	}
	return []ast.Expr{e}
}

// memSkip: the disjuncts of getSortedRecSafe's early return that look at the chunk's time
// bookkeeping; the other disjuncts (series / chunk missing) are emitted as text.
func (c *c02) memSkip() error {
	g := c.g
	fd, err := g.Func("engine/mutable/table.go", "MemTable.getSortedRecSafe")
	if err != nil {
		return err
	}
	m := map[string]string{
		"chunk.WriteRec.lastAppendTime":  "writeRec.lastAppendTime",
		"chunk.WriteRec.firstAppendTime": "writeRec.firstAppendTime",
		"tr.Min":                         "trMin", "tr.Max": "trMax",
	}
	var found *ast.IfStmt
	for _, s := range fd.Body.List {
		if is, ok := s.(*ast.IfStmt); ok && strings.Contains(g.Src(is.Cond), "AppendTime") {
			if found != nil {
				return fmt.Errorf("C02: getSortedRecSafe tests the append times twice")
			}
			found = is
		}
	}
	if found == nil {
		return fmt.Errorf("C02: getSortedRecSafe no longer tests the append times")
	}
	if len(found.Body.List) != 1 || g.Src(found.Body.List[0]) != "return nil" {
		return fmt.Errorf("C02: the append-time test of getSortedRecSafe does not return nil: %s", g.Src(found.Body))
	}
	var tr, other []string
	for _, d := range orList(found.Cond) {
		if strings.Contains(g.Src(d), "AppendTime") {
			s, err := c.sub(d, m)
			if err != nil {
				return err
			}
			tr = append(tr, s)
		} else {
			other = append(other, g.Src(d))
		}
	}
	g.P("/-- `MemTable.getSortedRecSafe`: the chunk is not read at all when this holds. -/")
	g.P("def memSkip (writeRec : WriteRec) (trMin trMax : Int) : Bool :=")
	g.P("  %s", strings.Join(tr, " || "))
	g.StrList("memSkip_otherGuards", other)
	// what follows the test: sort if needed, then Copy with the time range
	var tail []string
	after := false
	for _, s := range fd.Body.List {
		if s == ast.Stmt(found) {
			after = true
			continue
		}
		if after {
			tail = append(tail, g.Src(s))
		}
	}
	g.P("def src_getSortedRecSafe_tail : String := %s", leanStr(strings.Join(tail, " ; ")))
	fd, err = g.Func("engine/mutable/table.go", "WriteRec.SortRecord")
	if err != nil {
		return err
	}
	g.P("def src_SortRecord : String := %s", leanStr(g.Src(fd.Body)))
	g.P("")
	return nil
}

func (c *c02) sortLess() error {
	g := c.g
	fd, err := g.Func("lib/record/column_sort.go", "SortAux.Less")
	if err != nil {
		return err
	}
	if len(fd.Body.List) != 1 {
		return fmt.Errorf("C02: SortAux.Less is no longer a single return")
	}
	r, ok := fd.Body.List[0].(*ast.ReturnStmt)
	if !ok || len(r.Results) != 1 {
		return fmt.Errorf("C02: SortAux.Less is no longer a single return")
	}
	s, err := c.sub(r.Results[0], map[string]string{"aux.Times[i]": "ti", "aux.Times[j]": "tj"})
	if err != nil {
		return err
	}
	g.P("/-- `SortAux.Less` (the order `sort.Stable` sorts a memtable chunk by). -/")
	g.P("def sortLess (ti tj : Int) : Bool := %s", s)
	fd, err = g.Func("lib/record/column_sort.go", "ColumnSortHelper.Sort")
	if err != nil {
		return err
	}
	calls := ""
	ast.Inspect(fd.Body, func(n ast.Node) bool {
		if ce, ok := n.(*ast.CallExpr); ok {
			if f := g.Src(ce.Fun); strings.HasPrefix(f, "sort.") {
				calls += f + " "
			}
		}
		return true
	})
	g.P("def sortCalls : String := %s", leanStr(strings.TrimSpace(calls)))
	g.P("")
	return nil
}

func (c *c02) sameTime() error {
	g := c.g
	fd, err := g.Func("lib/record/column_sort.go", "ColumnSortHelper.sortColumn")
	if err != nil {
		return err
	}
	var conds []string
	var bodies []string
	ast.Inspect(fd.Body, func(n ast.Node) bool {
		if is, ok := n.(*ast.IfStmt); ok && strings.Contains(g.Src(is.Cond), "times[") {
			s, e := c.sub(is.Cond, map[string]string{"idx": "idx", "times[idx]": "t", "times[idx-1]": "tPrev"})
			if e != nil {
				err = e
			}
			conds = append(conds, s)
			bodies = append(bodies, g.Src(is.Body))
		}
		return true
	})
	if err != nil {
		return err
	}
	if len(conds) != 1 {
		return fmt.Errorf("C02: sortColumn has %d tests on times, the model was written against 1", len(conds))
	}
	g.P("/-- `sortColumn`: the first row of a section continues the previous output row. -/")
	g.P("def sameTimeAsPrev (idx : Int) (t tPrev : Int) : Bool := %s", conds[0])
	g.P("def src_sameTime_body : String := %s", leanStr(bodies[0]))
	g.P("")
	return nil
}

func (c *c02) replaceGuard() error {
	g := c.g
	fd, err := g.Func("lib/record/column_sort.go", "ColumnSortHelper.replace")
	if err != nil {
		return err
	}
	if len(fd.Body.List) < 2 {
		return fmt.Errorf("C02: ColumnSortHelper.replace changed shape")
	}
	is, ok := fd.Body.List[0].(*ast.IfStmt)
	if !ok || len(is.Body.List) != 1 || g.Src(is.Body.List[0]) != "return" || is.Else != nil {
		return fmt.Errorf("C02: ColumnSortHelper.replace no longer starts with a guard that returns")
	}
	s, err := c.sub(is.Cond, map[string]string{"col.IsNil(idx)": "newIsNil"})
	if err != nil {
		return err
	}
	g.P("/-- `ColumnSortHelper.replace`: when this holds the earlier value of the cell is kept. -/")
	g.P("def replaceKeepsOld (newIsNil : Bool) : Bool := %s", s)
	var rest []string
	for _, s := range fd.Body.List[1:] {
		rest = append(rest, g.Src(s))
	}
	g.P("def src_replace_rest : String := %s", leanStr(strings.Join(rest, " ; ")))
	g.P("")
	return nil
}

// pickOf classifies the body of one branch of the two-pointer loops: 0 = the old record's row is
// taken, 1 = the new record's row, 2 = both rows are merged into one.
func (c *c02) pickOf(b *ast.BlockStmt) (string, error) {
	src := c.g.Src(b)
	switch {
	case strings.Contains(src, "rec.mergeRecRow(newRec, oldRec, newStart, oldStart)") && strings.Contains(src, "newStart++") && strings.Contains(src, "oldStart++"):
		return "2", nil
	case strings.Contains(src, "rec.AppendRec(oldRec, oldStart, oldStart+1)") && strings.Contains(src, "oldStart++") && !strings.Contains(src, "newStart++"):
		return "0", nil
	case strings.Contains(src, "rec.AppendRec(newRec, newStart, newStart+1)") && strings.Contains(src, "newStart++") && !strings.Contains(src, "oldStart++"):
		return "1", nil
	}
	return "", fmt.Errorf("C02: unknown branch in appendRecs: %s", src)
}

func (c *c02) ifChain(is *ast.IfStmt, m map[string]string, leaf func(*ast.BlockStmt) (string, error)) (string, error) {
	cond, err := c.sub(is.Cond, m)
	if err != nil {
		return "", err
	}
	th, err := leaf(is.Body)
	if err != nil {
		return "", err
	}
	var el string
	switch e := is.Else.(type) {
	case *ast.IfStmt:
		el, err = c.ifChain(e, m, leaf)
	case *ast.BlockStmt:
		el, err = leaf(e)
	default:
		err = fmt.Errorf("C02: if without else in a decision chain: %s", c.g.Src(is))
	}
	if err != nil {
		return "", err
	}
	return fmt.Sprintf("(if %s then %s else %s)", cond, th, el), nil
}

func (c *c02) appendRecs() error {
	g := c.g
	fd, err := g.Func("lib/record/record.go", "Record.appendRecs")
	if err != nil {
		return err
	}
	top, ok := fd.Body.List[0].(*ast.IfStmt)
	if !ok || g.Src(top.Cond) != "ascending" {
		return fmt.Errorf("C02: appendRecs no longer starts with `if ascending`")
	}
	m := map[string]string{"oldTimeVals[oldStart]": "oldT", "newTimeVals[newStart]": "newT"}
	loopOf := func(b *ast.BlockStmt) (string, error) {
		if len(b.List) != 1 {
			return "", fmt.Errorf("C02: appendRecs: a direction holds %d statements", len(b.List))
		}
		fs, ok := b.List[0].(*ast.ForStmt)
		if !ok || g.Src(fs.Cond) != "newStart < newEnd && oldStart < oldEnd" || fs.Init != nil || fs.Post != nil {
			return "", fmt.Errorf("C02: appendRecs: unexpected loop %s", g.Src(b.List[0]))
		}
		is, ok := fs.Body.List[0].(*ast.IfStmt)
		if !ok {
			return "", fmt.Errorf("C02: appendRecs: the loop does not start with the comparison")
		}
		return c.ifChain(is, m, c.pickOf)
	}
	asc, err := loopOf(top.Body)
	if err != nil {
		return err
	}
	eb, ok := top.Else.(*ast.BlockStmt)
	if !ok {
		return fmt.Errorf("C02: appendRecs: no else branch for descending")
	}
	desc, err := loopOf(eb)
	if err != nil {
		return err
	}
	g.P("/-- `Record.appendRecs`: which row the two-pointer loop emits next (0 = old, 1 = new, 2 = both merged). -/")
	g.P("def appendRecsPick (ascending : Bool) (oldT newT : Int) : Nat :=")
	g.P("  if ascending then %s else %s", asc, desc)
	g.P("")
	return nil
}

func (c *c02) mergeRecRow() error {
	g := c.g
	fd, err := g.Func("lib/record/record.go", "Record.mergeRecRow")
	if err != nil {
		return err
	}
	// the branch for a column both records have: if !new.IsNil … else if !old.IsNil … else pad
	var chain *ast.IfStmt
	ast.Inspect(fd.Body, func(n ast.Node) bool {
		if is, ok := n.(*ast.IfStmt); ok && chain == nil && strings.HasPrefix(g.Src(is.Cond), "!newRec.ColVals[iNew].IsNil(") {
			chain = is
		}
		return true
	})
	if chain == nil {
		return fmt.Errorf("C02: mergeRecRow: the per-cell decision was not found")
	}
	m := map[string]string{"newRec.ColVals[iNew].IsNil(newRowIdx)": "newIsNil", "oldRec.ColVals[iOld].IsNil(oldRowIdx)": "oldIsNil"}
	leaf := func(b *ast.BlockStmt) (string, error) {
		src := g.Src(b)
		switch {
		case strings.Contains(src, "AppendColVal(&newRec.ColVals[iNew]") && strings.Contains(src, "newRowIdx, newRowIdx+1"):
			return "1", nil
		case strings.Contains(src, "AppendColVal(&oldRec.ColVals[iOld]") && strings.Contains(src, "oldRowIdx, oldRowIdx+1"):
			return "0", nil
		case strings.Contains(src, "PadColVal("):
			return "2", nil
		}
		return "", fmt.Errorf("C02: mergeRecRow: unknown branch %s", src)
	}
	s, err := c.ifChain(chain, m, leaf)
	if err != nil {
		return err
	}
	g.P("/-- `Record.mergeRecRow`, a column both rows have: 1 = the new value, 0 = the old one, 2 = null. -/")
	g.P("def mergeCellPick (newIsNil oldIsNil : Bool) : Nat := %s", s)
	g.P("")
	return nil
}

func (c *c02) dispatch() error {
	g := c.g
	one := func(fn string, overlap string) (string, error) {
		fd, err := g.Func("lib/record/record.go", "Record."+fn)
		if err != nil {
			return "", err
		}
		var chain *ast.IfStmt
		for _, s := range fd.Body.List {
			if is, ok := s.(*ast.IfStmt); ok {
				chain = is
			}
		}
		if chain == nil {
			return "", fmt.Errorf("C02: %s: no dispatch", fn)
		}
		m := map[string]string{
			"newTimeVals[newPos]": "newFirst", "newTimeVals[len(newTimeVals)-1]": "newLast",
			"oldTimeVals[oldPos]": "oldFirst", "oldTimeVals[len(oldTimeVals)-1]": "oldLast",
		}
		leaf := func(b *ast.BlockStmt) (string, error) {
			src := g.Src(b)
			switch {
			case strings.Contains(src, "newEnd, oldEnd = rec.mergeRecordNonOverlap(newRec, oldRec, newPos, oldPos,"):
				return "0", nil // old rows first, then the new ones
			case strings.Contains(src, "oldEnd, newEnd = rec.mergeRecordNonOverlap(oldRec, newRec, oldPos, newPos,"):
				return "1", nil // new rows first, then the old ones
			case strings.Contains(src, "rec."+overlap+"(newRec, oldRec, newTimeVals, oldTimeVals,"):
				return "2", nil
			}
			return "", fmt.Errorf("C02: %s: unknown branch %s", fn, src)
		}
		return c.ifChain(chain, m, leaf)
	}
	asc, err := one("MergeRecordLimitRows", "mergeRecordOverlap")
	if err != nil {
		return err
	}
	desc, err := one("MergeRecordLimitRowsDescend", "mergeRecordOverlapDescend")
	if err != nil {
		return err
	}
	g.P("/-- `MergeRecordLimitRows` / `…Descend`: 0 = all old rows then all new rows, 1 = all new rows then all")
	g.P("old rows, 2 = the two-pointer merge. -/")
	g.P("def mergeDispatch (ascending : Bool) (newFirst newLast oldFirst oldLast : Int) : Nat :=")
	g.P("  if ascending then %s else %s", asc, desc)
	// mergeRecordNonOverlap appends old[oldPos:oldEnd] before new[newPos:newEnd] in every column
	fd, err := g.Func("lib/record/record.go", "Record.mergeRecordNonOverlap")
	if err != nil {
		return err
	}
	last := fd.Body.List[len(fd.Body.List)-3:]
	var tail []string
	for _, s := range last {
		tail = append(tail, g.Src(s))
	}
	g.P("def src_nonOverlap_timeCol : String := %s", leanStr(strings.Join(tail, " ; ")))
	for _, fn := range []string{"MergeRecord", "MergeRecordDescend"} {
		fd, err := g.Func("lib/record/record.go", "Record."+fn)
		if err != nil {
			return err
		}
		g.P("def src_%s : String := %s", fn, leanStr(g.Src(fd.Body)))
	}
	g.P("")
	return nil
}

// limit: the row limit pushed into the series cursors (engine/limit_cursor.go is the tag-set level
// cursor; below it nothing is cut). Emitted as text for the expectations.
func (c *c02) limit() error {
	return nil
}
