package main

import (
	"fmt"
	"go/ast"
	"go/token"
	"sort"
	"strconv"
	"strings"
)

func init() { register("C04", genC04) }

// genC04 regenerates the lock facts the C04 model is tied to, from the anchored files:
//
//   - every Lock / RLock / Unlock / RUnlock call site (function, lock, kind);
//   - per function, the locks held at every acquisition (statement order, `defer` keeps a lock
//     to the end of the function, a branch that returns does not leak its state) — the
//     "acquired while holding" relation, closed over calls between the analysed functions
//     (a call made while holding L to a function that may acquire M gives L → M);
//   - the locks held at the statements that the model treats as one atomic step (`heldAt`).
//
// Locks are named by class: <owner type>.<field>[role]. The two file lists of a measurement
// are told apart by role (order / unorder) where the variable name says which one it is.
// go/ast only, no type checking: owner types of non-receiver variables come from a small
// table of the variable names these files use; an unknown one is emitted as "?name.field"
// and shows up in the recorded expectation.
func genC04(g *Gen) error {
	files := []string{
		"engine/shard.go", "engine/ts_storage.go", "engine/iterators.go", "engine/partition.go",
		"engine/mutable/table.go", "engine/mutable/ts_table.go",
		"engine/immutable/mms_tables.go", "engine/immutable/ts_mms_tables.go", "engine/immutable/tssp_file.go",
		"engine/immutable/tssp_reader.go", "engine/immutable/compact.go", "engine/immutable/merge_out_of_order.go",
		"engine/immutable/merge_tool.go", "engine/immutable/evict.go",
	}
	g.Header(files...)
	g.GenNS()
	a := &lockAnalysis{g: g, funcs: map[string]*lockFunc{}}
	for _, f := range files {
		if err := a.load(f); err != nil {
			return err
		}
	}
	a.summaries()
	a.edges = map[[2]string]string{}
	for _, name := range a.order {
		a.walkFunc(a.funcs[name], true)
	}

	// ---- call sites
	var sites []string
	for _, name := range a.order {
		f := a.funcs[name]
		for _, s := range f.sites {
			sites = append(sites, name+" "+s)
		}
	}
	g.P("/-- every Lock/RLock/Unlock/RUnlock call site: \"<function> <kind> <lock>\" in source order. -/")
	g.StrList("lockSites", sites)
	g.P("def lockSiteCount : Nat := %d", len(sites))

	// ---- acquired-while-holding
	var es [][2]string
	var self [][2]string
	for e, w := range a.edges {
		if e[0] == e[1] {
			self = append(self, [2]string{e[0], w})
		} else {
			es = append(es, e)
		}
	}
	sort.Slice(es, func(i, j int) bool { return es[i][0]+"\x00"+es[i][1] < es[j][0]+"\x00"+es[j][1] })
	sort.Slice(self, func(i, j int) bool { return self[i][0]+self[i][1] < self[j][0]+self[j][1] })
	g.P("/-- (held, acquired): lock `acquired` is taken (directly or in a callee) while `held` is held. -/")
	g.PairList("heldEdges", es)
	var wit [][2]string
	for _, e := range es {
		wit = append(wit, [2]string{e[0] + " -> " + e[1], a.edges[e]})
	}
	g.P("/-- one witness (function) per edge. -/")
	g.PairList("heldEdgeWitness", wit)
	g.P("/-- a lock class acquired while a lock of the same class is held (recursive read lock, or two instances). -/")
	g.PairList("sameClassNesting", self)
	// class-level graph (the two roles of TSSPFiles.lock are one class), indexed, with a rank
	// certificate: rank strictly increases along every edge iff the graph has no cycle.
	classOf := func(l string) string {
		if i := strings.IndexByte(l, '['); i >= 0 {
			return l[:i]
		}
		return l
	}
	clsSet := map[string]bool{}
	cedge := map[[2]string]bool{}
	for _, e := range es {
		x, y := classOf(e[0]), classOf(e[1])
		clsSet[x], clsSet[y] = true, true
		if x != y {
			cedge[[2]string{x, y}] = true
		}
	}
	var classes []string
	for c := range clsSet {
		classes = append(classes, c)
	}
	sort.Strings(classes)
	idx := map[string]int{}
	for i, c := range classes {
		idx[c] = i
	}
	var ces [][2]string
	for e := range cedge {
		ces = append(ces, e)
	}
	sort.Slice(ces, func(i, j int) bool { return ces[i][0]+"\x00"+ces[i][1] < ces[j][0]+"\x00"+ces[j][1] })
	rank := make([]int, len(classes))
	for round := 0; round <= len(classes); round++ {
		for _, e := range ces {
			if rank[idx[e[1]]] < rank[idx[e[0]]]+1 && rank[idx[e[0]]]+1 <= len(classes) {
				rank[idx[e[1]]] = rank[idx[e[0]]] + 1
			}
		}
	}
	g.StrList("lockClasses", classes)
	g.PairList("classEdges", ces)
	var ie, rk []string
	for _, e := range ces {
		ie = append(ie, fmt.Sprintf("(%d, %d)", idx[e[0]], idx[e[1]]))
	}
	for _, r := range rank {
		rk = append(rk, fmt.Sprint(r))
	}
	g.P("def classEdgesIdx : List (Nat × Nat) := [%s]", strings.Join(ie, ", "))
	g.P("/-- rank certificate: position of each class in a lock order that every edge respects. -/")
	g.P("def lockRank : List Nat := [%s]", strings.Join(rk, ", "))
	var unres []string
	for k := range a.unresolved {
		unres = append(unres, k)
	}
	sort.Strings(unres)
	g.P("/-- calls made while a lock is held whose callee is outside the analysed files (not followed). -/")
	g.P("def unresolvedCallsUnderLock : Nat := %d", len(unres))

	// ---- locks held at the statements the model treats as atomic steps
	marks := []struct{ fn, stmt, step string }{
		// (a statement followed by #n is the n-th statement of the function that starts like this)
		{"shard.WriteRows", "if s.isClosing() {#2", "write: closing flag re-checked"},
		{"shard.WriteRows", "defer s.markBeingWritten()()", "write: counted as in flight"},
		{"shard.writeRows", "err := s.activeTbl.MTable.WriteRows(", "write: apply"},
		{"shard.writeRows", "if err = s.wal.Write(", "write: append"},
		{"tsstoreImpl.writeSnapshot", "walFiles, err := s.wal.Switch()", "switch: wal"},
		{"tsstoreImpl.writeSnapshot", "s.snapshotTbl = s.activeTbl", "switch: snapshot := active"},
		{"tsstoreImpl.writeSnapshot", "s.activeTbl = s.memTablePool.Get(", "switch: fresh active"},
		{"tsstoreImpl.writeSnapshot", "s.commitSnapshot(s.snapshotTbl)", "publish: outside the snapshot lock"},
		{"tsstoreImpl.writeSnapshot", "s.snapshotTbl.UnRef()", "dropSnapshot: unref"},
		{"tsstoreImpl.writeSnapshot", "s.snapshotTbl = nil", "dropSnapshot: snapshot := none"},
		{"tsImmTableImpl.AddBothTSSPFiles", "orderFs.files = append(", "publish: ordered list"},
		{"tsImmTableImpl.AddBothTSSPFiles", "unorderFs.files = append(", "publish: out-of-order list"},
		{"tsImmTableImpl.AddBothTSSPFiles", "*flushed = true", "publish: flushed := true"},
		{"shard.cloneReaders", "msInfo, err := s.snapshotTbl.GetMsInfo(", "takeView: flushed flag"},
		{"shard.cloneReaders", "immutableReader, flushed := s.createImmutableReader(", "takeView: file lists"},
		{"shard.cloneReaders", "mutableReader.Ref()", "takeView: ref memtables"},
		{"MmsTables.GetBothFilesRef", "orderFiles = m.getFiles(", "takeView: ref ordered files"},
		{"MmsTables.GetBothFilesRef", "unorderFiles = m.getFiles(", "takeView: ref out-of-order files"},
		{"MmsTables.GetBothFilesRef", "if *flushed {", "takeView: read flushed"},
		{"MmsTables.ReplaceFiles", "fs.deleteFile(f)", "replace: delist old"},
		{"MmsTables.ReplaceFiles", "if err = m.deleteFiles(f); err != nil {", "replace: retire old"},
		{"MmsTables.ReplaceFiles", "fs.files = append(fs.files, newFiles...)", "replace: list new"},
		{"MmsTables.deleteUnorderedFiles", "tfs.deleteFile(f)", "dropOoo: delist"},
		{"MmsTables.deleteUnorderedFiles", "m.removeFile(f)", "dropOoo: retire"},
		{"MmsTables.deleteUnorderedFiles", "delete(m.OutOfOrder, mst)", "dropOoo: drop empty list from the map"},
		{"shard.Close", "s.activeTbl = nil", "closeBegin: active := none"},
		{"shard.Close", "s.waitSnapshot()", "closeFiles: wait for the flush"},
		{"shard.Close", "if err := s.immTables.Close(); err != nil {", "closeFiles: close files"},
		{"MmsTables.acquire", "m.inCompact[name] = struct{}{}", "plan: acquire"},
		{"MmsTables.getMmsPlan", "plans = m.mmsPlan(", "plan (level compaction): walks the file list"},
		{"MmsTables.buildFullCompactPlan", "builder.Init(k, &v.closing, v.Len())", "plan (full compaction): walks the file list"},
	}
	var held [][2]string
	for _, m := range marks {
		f := a.funcs[m.fn]
		if f == nil {
			return fmt.Errorf("C04: function %s not found", m.fn)
		}
		locks, ok := a.heldAt(f, m.stmt)
		if !ok {
			// a statement that moved or was rewritten must surface as a changed fact
			held = append(held, [2]string{m.step + " @ " + m.fn, "STATEMENT NOT FOUND: " + m.stmt})
			continue
		}
		held = append(held, [2]string{m.step + " @ " + m.fn, strings.Join(locks, " ")})
	}
	g.P("/-- locks held (in acquisition order; (R) = read lock) at the statements of the model's atomic steps. -/")
	g.PairList("heldAt", held)
	// the call sites of the functions that carry the model's steps
	var msites []string
	seenFn := map[string]bool{}
	for _, m := range marks {
		if seenFn[m.fn] {
			continue
		}
		seenFn[m.fn] = true
		for _, s := range a.funcs[m.fn].sites {
			msites = append(msites, m.fn+" "+s)
		}
	}
	g.StrList("modelledSites", msites)
	if err := genC04Refs(g); err != nil {
		return err
	}
	g.Footer()
	return nil
}

// genC04Refs: who reads a data file, and what keeps the file open meanwhile.
//
// A TSSPFile whose reference count is 1 (only the list holds it) is closed and unlinked by the
// step that replaces it (ReplaceFiles / deleteUnorderedFiles -> deleteFiles: !Inuse -> Remove), and a
// closed reader answers several accessors with nothing and no error (LoadIdTimes), so every read
// must happen inside a Ref ... Unref bracket of the reader or under the list lock. Two tables:
//
//   - goFileReaders: every `go` statement of the scanned files that hands a file to a goroutine
//     (function literal with a TSSPFile parameter): does the spawning function take a reference
//     (x.Ref()) on that very file before the `go`, and does the goroutine give it back in a defer;
//   - fileReadSites: every call of a reading accessor on a file that is not the method's own
//     receiver: function, accessor, and the protection visible in that function (refs: the function
//     itself calls Ref / RefFileReader / GetBothFilesRef; listlock: it takes a TSSPFiles lock;
//     none-visible: neither - the caller has to provide it, which is recorded and judged in
//     OG/C04/Facts.lean).
func genC04Refs(g *Gen) error {
	files := []string{
		"engine/immutable/mms_loader.go", "engine/immutable/mms_tables.go", "engine/immutable/ts_mms_tables.go",
		"engine/immutable/compact.go", "engine/immutable/merge_out_of_order.go", "engine/immutable/merge_tool.go",
		"engine/immutable/evict.go", "engine/immutable/sequencer.go", "engine/iterators.go", "engine/ts_storage.go",
		"engine/shard.go", "engine/ts_index_info.go",
	}
	readers := map[string]bool{"LoadIdTimes": true, "ReadData": true, "ReadChunkMetaData": true, "MetaIndex": true,
		"MetaIndexAt": true, "ChunkMeta": true, "ReadAt": true, "Contains": true, "ContainsValue": true,
		"ContainsByTime": true, "MinMaxTime": true, "LoadComponents": true, "LoadIntoMemory": true}
	var goRows, readRows [][2]string
	for _, rel := range files {
		f, err := g.Parse(rel)
		if err != nil {
			continue // a file that does not exist (any more) simply contributes nothing
		}
		for _, d := range f.Decls {
			fd, ok := d.(*ast.FuncDecl)
			if !ok || fd.Body == nil {
				continue
			}
			name := fd.Name.Name
			recvVar := ""
			if fd.Recv != nil && len(fd.Recv.List) == 1 {
				name = typeName(fd.Recv.List[0].Type) + "." + name
				if len(fd.Recv.List[0].Names) == 1 {
					recvVar = fd.Recv.List[0].Names[0].Name
				}
			}
			// protection visible in the function
			refs, listlock := false, false
			ast.Inspect(fd.Body, func(n ast.Node) bool {
				if call, ok := n.(*ast.CallExpr); ok {
					if sel, ok := call.Fun.(*ast.SelectorExpr); ok {
						switch sel.Sel.Name {
						case "Ref", "RefFileReader", "GetBothFilesRef", "RefFilesReader":
							refs = true
						case "RLock", "Lock":
							if x := g.Src(sel.X); strings.HasSuffix(x, ".lock") || strings.HasSuffix(x, "iles") {
								listlock = true
							}
						}
					}
				}
				return true
			})
			prot := "none-visible"
			switch {
			case refs && listlock:
				prot = "refs+listlock"
			case refs:
				prot = "refs"
			case listlock:
				prot = "listlock"
			}
			// blocks, to find what precedes a go statement
			var walkBlock func(list []ast.Stmt)
			walkBlock = func(list []ast.Stmt) {
				for i, st := range list {
					if gs, ok := st.(*ast.GoStmt); ok {
						if fl, ok := gs.Call.Fun.(*ast.FuncLit); ok && fl.Type.Params != nil {
							for pi, prm := range fl.Type.Params.List {
								if typeName(prm.Type) != "TSSPFile" || pi >= len(gs.Call.Args) {
									continue
								}
								arg := g.Src(gs.Call.Args[pi])
								refBefore := false
								for _, prev := range list[:i] {
									if es, ok := prev.(*ast.ExprStmt); ok && g.Src(es.X) == arg+".Ref()" {
										refBefore = true
									}
								}
								unrefDeferred := false
								pname := ""
								if len(prm.Names) == 1 {
									pname = prm.Names[0].Name
								}
								ast.Inspect(fl.Body, func(n ast.Node) bool {
									if ds, ok := n.(*ast.DeferStmt); ok && strings.Contains(g.Src(ds.Call), pname+".Unref()") {
										unrefDeferred = true
									}
									return true
								})
								goRows = append(goRows, [2]string{name + ": go func(" + pname + " TSSPFile)(" + arg + ")",
									fmt.Sprintf("ref before go=%v, unref deferred in the goroutine=%v", refBefore, unrefDeferred)})
							}
						}
					}
					ast.Inspect(st, func(n ast.Node) bool {
						switch b := n.(type) {
						case *ast.BlockStmt:
							if n != st {
								walkBlock(b.List)
								return false
							}
						case *ast.CaseClause:
							walkBlock(b.Body)
							return false
						case *ast.CommClause:
							walkBlock(b.Body)
							return false
						case *ast.FuncLit:
							walkBlock(b.Body.List)
							return false
						}
						return true
					})
				}
			}
			walkBlock(fd.Body.List)
			seen := map[string]bool{}
			ast.Inspect(fd.Body, func(n ast.Node) bool {
				call, ok := n.(*ast.CallExpr)
				if !ok {
					return true
				}
				sel, ok := call.Fun.(*ast.SelectorExpr)
				if !ok || !readers[sel.Sel.Name] {
					return true
				}
				x := g.Src(sel.X)
				if x == "strings" || x == "bytes" {
					return true
				}
				if x == recvVar || strings.HasPrefix(x, recvVar+".") && recvVar != "" {
					return true // the object's own method calling down
				}
				key := name + ": " + x + "." + sel.Sel.Name
				if !seen[key] {
					seen[key] = true
					readRows = append(readRows, [2]string{key, prot})
				}
				return true
			})
		}
	}
	g.P("/-- goroutines that are handed a data file: is it referenced before the `go`, released in a defer. -/")
	g.PairList("goFileReaders", goRows)
	g.P("/-- calls of reading accessors on a data file and the protection visible in the calling function. -/")
	g.PairList("fileReadSites", readRows)
	return nil
}

type lockFunc struct {
	name     string // Recv.Name or Name
	recvVar  string
	recvType string
	decl     *ast.FuncDecl
	file     string
	sites    []string
	acquires map[string]bool // transitive
	direct   map[string]bool
	calls    map[string]bool
}

type lockAnalysis struct {
	g          *Gen
	funcs      map[string]*lockFunc
	order      []string
	byMethod   map[string][]string
	edges      map[[2]string]string
	unresolved map[string]bool
	// marker search
	markFn   *lockFunc
	markStmt string
	markSkip int
	markHeld []string
	markHit  bool
	// locks held at the `break` statements of the innermost loop / switch being walked
	breaks []heldSet
}

func (a *lockAnalysis) load(rel string) error {
	f, err := a.g.Parse(rel)
	if err != nil {
		return err
	}
	for _, d := range f.Decls {
		fd, ok := d.(*ast.FuncDecl)
		if !ok || fd.Body == nil {
			continue
		}
		lf := &lockFunc{decl: fd, file: rel, name: fd.Name.Name, direct: map[string]bool{}, calls: map[string]bool{}}
		if fd.Recv != nil && len(fd.Recv.List) == 1 {
			lf.recvType = typeName(fd.Recv.List[0].Type)
			if len(fd.Recv.List[0].Names) == 1 {
				lf.recvVar = fd.Recv.List[0].Names[0].Name
			}
			lf.name = lf.recvType + "." + fd.Name.Name
		}
		if _, dup := a.funcs[lf.name]; dup {
			continue
		}
		a.funcs[lf.name] = lf
		a.order = append(a.order, lf.name)
	}
	return nil
}

// owner types of the variables the analysed files use for lock-carrying values.
var c04VarTypes = map[string]string{
	"s": "shard", "sh": "shard", "m": "MmsTables", "mts": "MmsTables", "dbPT": "DBPTInfo", "sgc": "TableStoreGC",
	"f": "tsspFile", "t": "MemTable", "msi": "MsInfo", "msInfo": "MsInfo", "chunk": "WriteChunk",
	"order": "TSSPFiles", "unorder": "TSSPFiles", "orderFs": "TSSPFiles", "unorderFs": "TSSPFiles", "fs": "TSSPFiles",
	"tfs": "TSSPFiles", "files": "TSSPFiles", "v": "TSSPFiles", "tsspFiles": "TSSPFiles", "tables": "TSSPFiles",
	"orderTsspFiles": "TSSPFiles", "outOfOrderTsspFiles": "TSSPFiles", "mt": "mergeTool", "storage": "tsstoreImpl",
}

// fields of the known owner types that hold (or lead to) another analysed type.
var c04FieldTypes = map[string]string{
	"shard.immTables": "MmsTables", "shard.storage": "tsstoreImpl", "shard.activeTbl": "MemTable",
	"shard.snapshotTbl": "MemTable", "MmsTables.ImmTable": "tsImmTableImpl", "mergeTool.mts": "MmsTables",
}

func (a *lockAnalysis) typeOfExpr(f *lockFunc, e ast.Expr) string {
	switch x := e.(type) {
	case *ast.Ident:
		if x.Name == f.recvVar && f.recvVar != "" {
			return f.recvType
		}
		if t, ok := c04VarTypes[x.Name]; ok {
			return t
		}
		return "?" + x.Name
	case *ast.SelectorExpr:
		owner := a.typeOfExpr(f, x.X)
		if t, ok := c04FieldTypes[owner+"."+x.Sel.Name]; ok {
			return t
		}
		return owner + "." + x.Sel.Name
	case *ast.IndexExpr:
		// m.Order[mst] / m.OutOfOrder[mst] / allFs[i]
		if s, ok := x.X.(*ast.SelectorExpr); ok && (s.Sel.Name == "Order" || s.Sel.Name == "OutOfOrder" || s.Sel.Name == "CSFiles") {
			return "TSSPFiles"
		}
		if id, ok := x.X.(*ast.Ident); ok && (id.Name == "allFs" || id.Name == "mmsTables" || id.Name == "mmsTbls") {
			return "TSSPFiles"
		}
		return a.typeOfExpr(f, x.X)
	case *ast.ParenExpr:
		return a.typeOfExpr(f, x.X)
	case *ast.StarExpr:
		return a.typeOfExpr(f, x.X)
	}
	return "?"
}

func roleOf(e ast.Expr) string {
	s := ""
	ast.Inspect(e, func(n ast.Node) bool {
		if id, ok := n.(*ast.Ident); ok {
			l := strings.ToLower(id.Name)
			switch {
			case strings.Contains(l, "unorder") || strings.Contains(l, "outoforder") || l == "tfs":
				s = "[unorder]"
			case strings.HasPrefix(l, "order"):
				if s == "" {
					s = "[order]"
				}
			}
		}
		return true
	})
	return s
}

// lockOp recognises x.Lock() / x.RLock() / x.Unlock() / x.RUnlock() and names the lock.
func (a *lockAnalysis) lockOp(f *lockFunc, call *ast.CallExpr) (kind, lock string, ok bool) {
	sel, isSel := call.Fun.(*ast.SelectorExpr)
	if !isSel || len(call.Args) != 0 {
		return
	}
	switch sel.Sel.Name {
	case "Lock", "RLock", "Unlock", "RUnlock":
	default:
		return
	}
	t := a.typeOfExpr(f, sel.X)
	// TSSPFiles has RLock/RUnlock wrappers around its `lock` field
	if t == "TSSPFiles" {
		t = "TSSPFiles.lock"
	}
	if !strings.Contains(t, ".") {
		return // e.g. sync.Mutex local or unknown plain identifier
	}
	if strings.HasPrefix(t, "TSSPFiles.lock") {
		t = "TSSPFiles.lock" + roleOf(sel.X)
	}
	return sel.Sel.Name, t, true
}

// callee resolves a call to an analysed function, or "".
func (a *lockAnalysis) callee(f *lockFunc, call *ast.CallExpr) string {
	switch fn := call.Fun.(type) {
	case *ast.Ident:
		if _, ok := a.funcs[fn.Name]; ok {
			return fn.Name
		}
	case *ast.SelectorExpr:
		t := a.typeOfExpr(f, fn.X)
		if _, ok := a.funcs[t+"."+fn.Sel.Name]; ok {
			return t + "." + fn.Sel.Name
		}
		// interface dispatch inside the package: ImmTable / storage implementations
		if t == "MmsTables" {
			if _, ok := a.funcs["tsImmTableImpl."+fn.Sel.Name]; ok && f.recvType != "tsImmTableImpl" {
				if _, direct := a.funcs["MmsTables."+fn.Sel.Name]; !direct {
					return "tsImmTableImpl." + fn.Sel.Name
				}
			}
		}
	}
	return ""
}

// summaries computes, per function, the locks it may acquire (directly or through analysed callees).
func (a *lockAnalysis) summaries() {
	for _, name := range a.order {
		f := a.funcs[name]
		ast.Inspect(f.decl.Body, func(n ast.Node) bool {
			if _, isLit := n.(*ast.FuncLit); isLit {
				return true // closures run in the function (go statements are handled in walk)
			}
			call, ok := n.(*ast.CallExpr)
			if !ok {
				return true
			}
			if kind, lock, ok := a.lockOp(f, call); ok {
				pos := a.g.fset.Position(call.Pos())
				_ = pos
				f.sites = append(f.sites, kind+" "+lock)
				if kind == "Lock" || kind == "RLock" {
					f.direct[lock] = true
				}
				return true
			}
			if c := a.callee(f, call); c != "" {
				f.calls[c] = true
			}
			return true
		})
	}
	for _, f := range a.funcs {
		f.acquires = map[string]bool{}
		for l := range f.direct {
			f.acquires[l] = true
		}
	}
	for changed := true; changed; {
		changed = false
		for _, f := range a.funcs {
			for c := range f.calls {
				for l := range a.funcs[c].acquires {
					if !f.acquires[l] {
						f.acquires[l] = true
						changed = true
					}
				}
			}
		}
	}
}

type heldSet []string // in acquisition order, entries "lock" or "lock(R)"

func (h heldSet) without(lock string) heldSet {
	for i := len(h) - 1; i >= 0; i-- {
		if strings.TrimSuffix(h[i], "(R)") == lock {
			out := append(heldSet{}, h[:i]...)
			return append(out, h[i+1:]...)
		}
	}
	return h
}

func union(x, y heldSet) heldSet {
	out := append(heldSet{}, x...)
	for _, l := range y {
		found := false
		for _, k := range out {
			if k == l {
				found = true
			}
		}
		if !found {
			out = append(out, l)
		}
	}
	return out
}

func (a *lockAnalysis) addEdge(held heldSet, lock, where string) {
	for _, h := range held {
		e := [2]string{strings.TrimSuffix(h, "(R)"), lock}
		if _, ok := a.edges[e]; !ok {
			a.edges[e] = where
		}
	}
}

func (a *lockAnalysis) walkFunc(f *lockFunc, record bool) {
	a.walkBlock(f, f.decl.Body.List, nil, record)
}

// visitExpr handles the calls inside one expression / simple statement.
func (a *lockAnalysis) visitCalls(f *lockFunc, n ast.Node, held heldSet, record bool, deferred bool) heldSet {
	ast.Inspect(n, func(x ast.Node) bool {
		if lit, ok := x.(*ast.FuncLit); ok {
			// an immediately invoked or deferred closure: its body runs with the current locks
			h, _ := a.walkBlock(f, lit.Body.List, held, record)
			_ = h
			return false
		}
		call, ok := x.(*ast.CallExpr)
		if !ok {
			return true
		}
		if kind, lock, ok := a.lockOp(f, call); ok {
			switch kind {
			case "Lock", "RLock":
				if record {
					a.addEdge(held, lock, f.name)
				}
				if kind == "RLock" {
					held = append(append(heldSet{}, held...), lock+"(R)")
				} else {
					held = append(append(heldSet{}, held...), lock)
				}
			default:
				if !deferred {
					held = held.without(lock)
				}
			}
			return true
		}
		if c := a.callee(f, call); c != "" {
			if record && len(held) > 0 {
				for l := range a.funcs[c].acquires {
					a.addEdge(held, l, f.name+" -> "+c)
				}
			}
		} else if record && len(held) > 0 {
			if a.unresolved == nil {
				a.unresolved = map[string]bool{}
			}
			a.unresolved[f.name+":"+a.g.Src(call.Fun)] = true
		}
		return true
	})
	return held
}

func (a *lockAnalysis) mark(f *lockFunc, s ast.Stmt, held heldSet) {
	if a.markFn == f && !a.markHit && strings.HasPrefix(a.g.Src(s), a.markStmt) && a.skipMark() {
		a.markHit = true
		a.markHeld = append([]string{}, held...)
	}
}

// walkBlock interprets statements in order; returns the locks held after the block and
// whether every path through it leaves the function.
func (a *lockAnalysis) walkBlock(f *lockFunc, stmts []ast.Stmt, held heldSet, record bool) (heldSet, bool) {
	for _, s := range stmts {
		a.mark(f, s, held)
		switch st := s.(type) {
		case *ast.ReturnStmt:
			a.visitCalls(f, st, held, record, false)
			return held, true
		case *ast.BranchStmt:
			if st.Tok == token.BREAK && len(a.breaks) > 0 {
				a.breaks[len(a.breaks)-1] = union(a.breaks[len(a.breaks)-1], held)
			}
			// the rest of the block is not reached on this path
			return nil, true
		case *ast.DeferStmt:
			// deferred unlocks keep the lock to the end; deferred closures are walked for calls
			a.visitCalls(f, st.Call, held, record, true)
		case *ast.GoStmt:
			// a new goroutine does not inherit the locks
			if lit, ok := st.Call.Fun.(*ast.FuncLit); ok {
				a.walkBlock(f, lit.Body.List, nil, record)
			}
		case *ast.BlockStmt:
			var term bool
			held, term = a.walkBlock(f, st.List, held, record)
			if term {
				return held, true
			}
		case *ast.IfStmt:
			if st.Init != nil {
				held = a.visitCalls(f, st.Init, held, record, false)
			}
			held = a.visitCalls(f, st.Cond, held, record, false)
			h1, t1 := a.walkBlock(f, st.Body.List, held, record)
			h2, t2 := held, false
			if st.Else != nil {
				h2, t2 = a.walkBlock(f, []ast.Stmt{st.Else}, held, record)
			}
			switch {
			case t1 && t2:
				return held, true
			case t1:
				held = h2
			case t2:
				held = h1
			default:
				held = union(h1, h2)
			}
		case *ast.ForStmt:
			if st.Init != nil {
				held = a.visitCalls(f, st.Init, held, record, false)
			}
			if st.Cond != nil {
				held = a.visitCalls(f, st.Cond, held, record, false)
			}
			a.breaks = append(a.breaks, nil)
			h, term := a.walkBlock(f, st.Body.List, held, record)
			br := a.breaks[len(a.breaks)-1]
			a.breaks = a.breaks[:len(a.breaks)-1]
			if st.Cond == nil {
				// `for { … }` is left only through break (or return)
				held = br
				if !term {
					held = union(br, nil)
				}
			} else {
				if !term {
					held = union(held, h)
				}
				held = union(held, br)
			}
		case *ast.RangeStmt:
			held = a.visitCalls(f, st.X, held, record, false)
			a.breaks = append(a.breaks, nil)
			h, term := a.walkBlock(f, st.Body.List, held, record)
			br := a.breaks[len(a.breaks)-1]
			a.breaks = a.breaks[:len(a.breaks)-1]
			if !term {
				held = union(held, h)
			}
			held = union(held, br)
		case *ast.SwitchStmt, *ast.TypeSwitchStmt, *ast.SelectStmt:
			var body *ast.BlockStmt
			switch x := st.(type) {
			case *ast.SwitchStmt:
				if x.Init != nil {
					held = a.visitCalls(f, x.Init, held, record, false)
				}
				if x.Tag != nil {
					held = a.visitCalls(f, x.Tag, held, record, false)
				}
				body = x.Body
			case *ast.TypeSwitchStmt:
				body = x.Body
			case *ast.SelectStmt:
				body = x.Body
			}
			out := held
			a.breaks = append(a.breaks, nil)
			for _, c := range body.List {
				var list []ast.Stmt
				switch cc := c.(type) {
				case *ast.CaseClause:
					list = cc.Body
				case *ast.CommClause:
					list = cc.Body
				}
				h, term := a.walkBlock(f, list, held, record)
				if !term {
					out = union(out, h)
				}
			}
			out = union(out, a.breaks[len(a.breaks)-1])
			a.breaks = a.breaks[:len(a.breaks)-1]
			held = out
		case *ast.LabeledStmt:
			var term bool
			held, term = a.walkBlock(f, []ast.Stmt{st.Stmt}, held, record)
			if term {
				return held, true
			}
		default:
			held = a.visitCalls(f, s, held, record, false)
		}
	}
	return held, false
}

// heldAt returns the locks held when the first statement of f whose source starts with stmt
// is reached.
// skipMark: true when the statement that matches is the one that was asked for.
func (a *lockAnalysis) skipMark() bool {
	if a.markSkip > 0 {
		a.markSkip--
		return false
	}
	return true
}

func (a *lockAnalysis) heldAt(f *lockFunc, stmt string) ([]string, bool) {
	a.markSkip = 0
	if i := strings.LastIndex(stmt, "#"); i > 0 {
		if n, err := strconv.Atoi(stmt[i+1:]); err == nil && n > 0 {
			stmt, a.markSkip = stmt[:i], n-1
		}
	}
	a.markFn, a.markStmt, a.markHit, a.markHeld = f, stmt, false, nil
	a.walkFunc(f, false)
	a.markFn = nil
	return a.markHeld, a.markHit
}
