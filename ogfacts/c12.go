package main

// C12 — facts for "a shipped query is the planned query".
//
// Regenerated from /repo's working tree on every run:
//   sql.y        %token order (keyword range FROM..ASC), %left/%right/%nonassoc lines, the
//                alternatives of the expression nonterminals, the operator lists of
//                CONDITION_OPERATOR and COLUMN, the type names of COLUMN_VAREF_TYPE
//   token.go     Precedence(), operatorMap, tokens[...] (operator and keyword spellings)
//   ast.go       DataType.String
//   parser.go    the type names ParseVarRef accepts, the two quoting replacers
//   fingerprints of every function body the model transcribes by hand
//   codec field coverage (processor_codec.go, logic_plan_codec.go / hybridqp, chunk codec)

import (
	"crypto/sha256"
	"encoding/json"
	"fmt"
	"go/ast"
	"go/token"
	"os"
	"path/filepath"
	"regexp"
	"sort"
	"strconv"
	"strings"
)

func init() { register("C12", genC12) }

const c12dir = "lib/util/lifted/influx/influxql/"

// Go token name -> constructor of OG.C12.Op
var c12Op = map[string]string{
	"OR": "or", "AND": "and", "EQ": "eq", "NEQ": "neq", "EQREGEX": "eqregex", "NEQREGEX": "neqregex",
	"LT": "lt", "LTE": "lte", "GT": "gt", "GTE": "gte", "IN": "inOp", "NOTIN": "notin",
	"ADD": "add", "SUB": "sub", "BITWISE_OR": "bitor", "BITWISE_XOR": "bitxor",
	"MUL": "mul", "DIV": "div", "MOD": "mod", "BITWISE_AND": "bitand",
	"MATCH": "matchOp", "MATCHPHRASE": "matchphrase", "LIKE": "like", "IPINRANGE": "ipinrange",
}

// order of OG.C12.Op.all
var c12OpOrder = []string{"OR", "AND", "EQ", "NEQ", "EQREGEX", "NEQREGEX", "LT", "LTE", "GT", "GTE", "IN", "NOTIN",
	"ADD", "SUB", "BITWISE_OR", "BITWISE_XOR", "MUL", "DIV", "MOD", "BITWISE_AND",
	"MATCH", "MATCHPHRASE", "LIKE", "IPINRANGE"}

var c12Type = map[string]string{
	"Unknown": "unknown", "Float": "float", "Integer": "integer", "String": "string", "Boolean": "boolean",
	"Time": "time", "Duration": "duration", "Tag": "tag", "AnyField": "anyField", "Unsigned": "unsigned",
	"FloatTuple": "floatTuple", "Graph": "graph",
}
var c12TypeOrder = []string{"Unknown", "Float", "Integer", "String", "Boolean", "Time", "Duration", "Tag", "AnyField", "Unsigned", "FloatTuple", "Graph"}

// c12ReadRepoFile reads a (non-Go) file of the repository, honouring VERIF_OVERLAY like Gen.Parse.
func (g *Gen) c12ReadRepoFile(rel string) (string, error) {
	path := filepath.Join(g.Repo, rel)
	if ov := os.Getenv("VERIF_OVERLAY"); ov != "" {
		if b, err := os.ReadFile(ov); err == nil {
			var o struct{ Replace map[string]string }
			if json.Unmarshal(b, &o) == nil {
				if r, ok := o.Replace[path]; ok && r != "" {
					path = r
				}
			}
		}
	}
	b, err := os.ReadFile(path)
	return string(b), err
}

// ---------------------------------------------------------------------------------------------
// sql.y reader

type c12YAlt struct {
	Syms   []string // symbols, "%prec X" kept as two symbols
	Action string   // action text, whitespace-normalised ("" when none)
}
type c12YGrammar struct {
	Tokens []string            // every %token name in declaration order
	Prec   [][]string          // each: [assoc, tok, tok, ...]
	Rules  map[string][]c12YAlt   // nonterminal -> alternatives
	Order  []string
}

var c12ReTypeTag = regexp.MustCompile(`<[^>]*>`)

func c12ParseYacc(src string) (*c12YGrammar, error) {
	y := &c12YGrammar{Rules: map[string][]c12YAlt{}}
	parts := strings.SplitN(src, "\n%%", 3)
	if len(parts) < 2 {
		return nil, fmt.Errorf("sql.y: no %%%% separator")
	}
	// ---- declarations: skip the %{ ... %} prologue and the %union block
	decl := parts[0]
	if i := strings.Index(decl, "%}"); i >= 0 {
		decl = decl[i+2:]
	}
	lines := strings.Split(decl, "\n")
	cur := ""
	flush := func() {
		f := strings.Fields(c12ReTypeTag.ReplaceAllString(cur, " "))
		cur = ""
		if len(f) == 0 {
			return
		}
		switch f[0] {
		case "%token":
			y.Tokens = append(y.Tokens, f[1:]...)
		case "%left", "%right", "%nonassoc":
			y.Prec = append(y.Prec, append([]string{f[0][1:]}, f[1:]...))
		}
	}
	inUnion := false
	for _, l := range lines {
		t := strings.TrimSpace(l)
		if inUnion {
			if t == "}" {
				inUnion = false
			}
			continue
		}
		if strings.HasPrefix(t, "%union") {
			flush()
			inUnion = true
			continue
		}
		if strings.HasPrefix(t, "%") {
			flush()
			cur = t
		} else if cur != "" {
			cur += " " + t
		}
	}
	flush()
	// ---- rules
	body := parts[1]
	i, n := 0, len(body)
	skipSpace := func() {
		for i < n {
			switch {
			case body[i] == ' ' || body[i] == '\t' || body[i] == '\n' || body[i] == '\r':
				i++
			case strings.HasPrefix(body[i:], "//"):
				for i < n && body[i] != '\n' {
					i++
				}
			case strings.HasPrefix(body[i:], "/*"):
				j := strings.Index(body[i+2:], "*/")
				if j < 0 {
					i = n
				} else {
					i += j + 4
				}
			default:
				return
			}
		}
	}
	readAction := func() (string, error) { // body[i] == '{'
		depth, start := 0, i
		for i < n {
			c := body[i]
			switch {
			case c == '{':
				depth++
				i++
			case c == '}':
				depth--
				i++
				if depth == 0 {
					return strings.Join(strings.Fields(body[start:i]), " "), nil
				}
			case c == '"':
				i++
				for i < n && body[i] != '"' {
					if body[i] == '\\' {
						i++
					}
					i++
				}
				i++
			case c == '`':
				i++
				for i < n && body[i] != '`' {
					i++
				}
				i++
			case c == '\'':
				i++
				for i < n && body[i] != '\'' {
					if body[i] == '\\' {
						i++
					}
					i++
				}
				i++
			case strings.HasPrefix(body[i:], "//"):
				for i < n && body[i] != '\n' {
					i++
				}
			case strings.HasPrefix(body[i:], "/*"):
				j := strings.Index(body[i+2:], "*/")
				if j < 0 {
					i = n
				} else {
					i += j + 4
				}
			default:
				i++
			}
		}
		return "", fmt.Errorf("sql.y: unterminated action")
	}
	isSym := func(c byte) bool {
		return c == '_' || c == '%' || (c >= 'a' && c <= 'z') || (c >= 'A' && c <= 'Z') || (c >= '0' && c <= '9')
	}
	var lhs string
	var alt *c12YAlt
	endAlt := func() {
		if lhs != "" && alt != nil {
			y.Rules[lhs] = append(y.Rules[lhs], *alt)
		}
		alt = nil
	}
	for {
		skipSpace()
		if i >= n {
			break
		}
		c := body[i]
		switch {
		case c == '{':
			a, err := readAction()
			if err != nil {
				return nil, err
			}
			if alt == nil {
				alt = &c12YAlt{}
			}
			if alt.Action != "" {
				alt.Action += " "
			}
			alt.Action += a
		case c == '|':
			i++
			if alt == nil {
				alt = &c12YAlt{}
			}
			endAlt()
			alt = &c12YAlt{}
		case c == ';':
			i++
		case c == '\'':
			j := i + 1
			for j < n && body[j] != '\'' {
				j++
			}
			if alt == nil {
				alt = &c12YAlt{}
			}
			alt.Syms = append(alt.Syms, body[i:j+1])
			i = j + 1
		case isSym(c):
			j := i
			for j < n && isSym(body[j]) {
				j++
			}
			word := body[i:j]
			k := j
			for k < n && (body[k] == ' ' || body[k] == '\t') {
				k++
			}
			if k < n && body[k] == ':' && !strings.HasPrefix(word, "%") {
				// a new rule starts
				if alt == nil && lhs != "" {
					alt = &c12YAlt{}
				}
				endAlt()
				lhs = word
				if _, ok := y.Rules[lhs]; !ok {
					y.Order = append(y.Order, lhs)
				}
				alt = &c12YAlt{}
				i = k + 1
			} else {
				if alt == nil {
					alt = &c12YAlt{}
				}
				alt.Syms = append(alt.Syms, word)
				i = j
			}
		default:
			return nil, fmt.Errorf("sql.y: unexpected character %q in the rules section", c)
		}
	}
	if alt == nil && lhs != "" {
		alt = &c12YAlt{}
	}
	endAlt()
	return y, nil
}

// ---------------------------------------------------------------------------------------------
// helpers

func c12LeanChars(s string) string {
	if s == "" {
		return "[]"
	}
	var parts []string
	for _, r := range s {
		switch {
		case r == '\'':
			parts = append(parts, `'\''`)
		case r == '\\':
			parts = append(parts, `'\\'`)
		case r == '\n':
			parts = append(parts, `'\n'`)
		case r < 0x20 || r == 0x7f:
			parts = append(parts, fmt.Sprintf("Char.ofNat %d", r))
		default:
			parts = append(parts, "'"+string(r)+"'")
		}
	}
	return "[" + strings.Join(parts, ", ") + "]"
}

// c12CompositeEntries returns the key/value source text of a package-level composite literal.
func (g *Gen) c12CompositeEntries(rel, name string) ([][2]string, error) {
	f, err := g.Parse(rel)
	if err != nil {
		return nil, err
	}
	for _, d := range f.Decls {
		gd, ok := d.(*ast.GenDecl)
		if !ok {
			continue
		}
		for _, sp := range gd.Specs {
			vs, ok := sp.(*ast.ValueSpec)
			if !ok {
				continue
			}
			for i, n := range vs.Names {
				if n.Name != name || i >= len(vs.Values) {
					continue
				}
				cl, ok := vs.Values[i].(*ast.CompositeLit)
				if !ok {
					return nil, fmt.Errorf("%s: %s is not a composite literal", rel, name)
				}
				var out [][2]string
				for _, e := range cl.Elts {
					kv, ok := e.(*ast.KeyValueExpr)
					if !ok {
						return nil, fmt.Errorf("%s: %s has a non key/value element", rel, name)
					}
					out = append(out, [2]string{g.Src(kv.Key), g.Src(kv.Value)})
				}
				return out, nil
			}
		}
	}
	return nil, fmt.Errorf("%s: %s not found", rel, name)
}

// c12SwitchOn finds, inside a function, the switch statement whose tag prints as tagSrc and
// returns (label, body) rows.
func (g *Gen) c12SwitchOn(rel, fn, tagSrc string) ([][2]string, error) {
	fd, err := g.Func(rel, fn)
	if err != nil {
		return nil, err
	}
	var sw *ast.SwitchStmt
	ast.Inspect(fd.Body, func(n ast.Node) bool {
		if s, ok := n.(*ast.SwitchStmt); ok && sw == nil && s.Tag != nil && g.Src(s.Tag) == tagSrc {
			sw = s
		}
		return sw == nil
	})
	if sw == nil {
		return nil, fmt.Errorf("%s: no switch on %s in %s", rel, tagSrc, fn)
	}
	var rows [][2]string
	for _, st := range sw.Body.List {
		cc := st.(*ast.CaseClause)
		var body []string
		for _, s := range cc.Body {
			body = append(body, g.Src(s))
		}
		b := strings.Join(body, "; ")
		if cc.List == nil {
			rows = append(rows, [2]string{"default", b})
		}
		for _, l := range cc.List {
			rows = append(rows, [2]string{g.Src(l), b})
		}
	}
	return rows, nil
}

func c12Unquote(s string) (string, error) {
	return strconv.Unquote(s)
}

// c12OpFn emits `def name : Op → T` with one arm per operator.
func (g *Gen) c12OpFn(name, typ string, val func(goTok string) string) {
	g.P("def %s : OG.C12.Op → %s", name, typ)
	for _, t := range c12OpOrder {
		g.P("  | .%s => %s", c12Op[t], val(t))
	}
	g.P("")
}

// ---------------------------------------------------------------------------------------------

func genC12(g *Gen) error {
	g.Imports = []string{"OG.C12.Base", "OG.C12.WireBase"}
	g.Header(c12dir+"sql.y", c12dir+"token.go", c12dir+"ast.go", c12dir+"parser.go", c12dir+"scanner.go", c12dir+"yyParser.go",
		"lib/util/lifted/influx/query/processor_codec.go", "engine/executor/logic_plan_codec.go", "engine/executor/chunk_codec.gen.go")
	g.GenNS()
	g.P("open OG.C12 (Op Assoc DataType)\n")

	ysrc, err := g.c12ReadRepoFile(c12dir + "sql.y")
	if err != nil {
		return err
	}
	y, err := c12ParseYacc(ysrc)
	if err != nil {
		return err
	}

	// ---- keywords: tokens FROM..ASC (sql.y order) with their spelling in token.go's tokens[...]
	toks, err := g.c12CompositeEntries(c12dir+"token.go", "tokens")
	if err != nil {
		return err
	}
	spelling := map[string]string{}
	for _, kv := range toks {
		s, err := c12Unquote(kv[1])
		if err != nil {
			return fmt.Errorf("tokens[%s]: %v", kv[0], err)
		}
		spelling[kv[0]] = s
	}
	from, asc := -1, -1
	for i, t := range y.Tokens {
		if t == "FROM" && from < 0 {
			from = i
		}
		if t == "ASC" {
			asc = i
		}
	}
	if from < 0 || asc < from {
		return fmt.Errorf("sql.y: keyword range FROM..ASC not found in the %%token declarations")
	}
	kwNames := append([]string{}, y.Tokens[from:asc+1]...)
	on := -1
	for i, t := range kwNames {
		if t == "ON" {
			on = i
		}
	}
	if on < 0 {
		return fmt.Errorf("sql.y: token ON not in the keyword range")
	}
	all := append(append([]string{}, kwNames...), "AND", "OR")
	seen := map[string]bool{}
	for _, k := range all {
		if seen[k] {
			return fmt.Errorf("sql.y: token %s declared twice", k)
		}
		seen[k] = true
	}
	g.P("/-- keyword tokens: `for tok := FROM; tok <= ASC; tok++` of token.go's init, then AND, OR. -/")
	g.P("inductive Kw where")
	for _, k := range all {
		g.P("  | %s", k)
	}
	g.P("deriving DecidableEq, Repr\n")
	// Go map semantics: a later token with the same (lower-cased) spelling wins.
	last := map[string]string{}
	var order []string
	for _, k := range all {
		s := strings.ToLower(spelling[k])
		if _, ok := last[s]; !ok {
			order = append(order, s)
		}
		last[s] = k
	}
	g.P("/-- the `keywords` map of token.go (lower-cased spelling ↦ token). -/")
	g.P("def kwTable : List (List Char × Kw) := [")
	for i, s := range order {
		sep := ","
		if i == len(order)-1 {
			sep = ""
		}
		g.P("  (%s, .%s)%s", c12LeanChars(s), last[s], sep)
	}
	g.P("]\n")
	g.P("/-- tokens with `tok >= FROM && tok <= ON` (Scanner.Scan sets checkDOT after them). -/")
	g.P("def kwCheckDot : List Kw := [%s]\n", "."+strings.Join(kwNames[:on+1], ", ."))
	g.P("/-- upper-case spelling of a keyword token (`tokens[tok]`). -/")
	g.P("def kwText : Kw → List Char")
	for _, k := range all {
		g.P("  | .%s => %s", k, c12LeanChars(spelling[k]))
	}
	g.P("")

	// ---- Token.Precedence
	rows, err := g.SwitchTable(c12dir+"token.go", "Token.Precedence")
	if err != nil {
		return err
	}
	prec := map[string]string{}
	for _, r := range rows {
		if r[0] == "default" {
			continue
		}
		if _, ok := c12Op[r[0]]; !ok {
			return fmt.Errorf("Precedence(): token %s is not an operator the model knows", r[0])
		}
		v := strings.TrimPrefix(r[1], "return ")
		if _, err := strconv.Atoi(v); err != nil {
			return fmt.Errorf("Precedence(): case %s has body %q", r[0], r[1])
		}
		prec[r[0]] = v
	}
	g.P("/-- `Token.Precedence()` (token.go). -/")
	g.c12OpFn("pePrec", "Nat", func(t string) string {
		if v, ok := prec[t]; ok {
			return v
		}
		return "0"
	})

	// ---- operatorMap
	om, err := g.c12CompositeEntries(c12dir+"token.go", "operatorMap")
	if err != nil {
		return err
	}
	isOp := map[string]bool{}
	for _, kv := range om {
		if _, ok := c12Op[kv[0]]; !ok {
			return fmt.Errorf("operatorMap: token %s is not an operator the model knows", kv[0])
		}
		isOp[kv[0]] = true
	}
	g.P("/-- `Token.isOperator()`: membership in operatorMap (token.go). -/")
	g.c12OpFn("isOperator", "Bool", func(t string) string { return strconv.FormatBool(isOp[t]) })

	// ---- operator spelling
	g.P("/-- `Token.String()` of an operator (tokens[...] of token.go). -/")
	g.c12OpFn("opText", "List Char", func(t string) string { return c12LeanChars(spelling[t]) })

	// ---- yacc precedence lines
	g.P("/-- the %%left/%%right/%%nonassoc lines of sql.y, lowest precedence first. -/")
	g.P("def yaccPrecLines : List (Assoc × List String) := [")
	level := map[string]int{}
	assoc := map[string]string{}
	for i, l := range y.Prec {
		var q []string
		for _, t := range l[1:] {
			q = append(q, leanStr(t))
			if _, dup := level[t]; dup {
				return fmt.Errorf("sql.y: token %s has two precedence lines", t)
			}
			level[t] = i + 1
			assoc[t] = l[0]
		}
		sep := ","
		if i == len(y.Prec)-1 {
			sep = ""
		}
		g.P("  (.%s, [%s])%s", l[0], strings.Join(q, ", "), sep)
	}
	g.P("]\n")
	g.P("/-- precedence level a token gets from those lines (0 = none). -/")
	g.c12OpFn("yaccLevel", "Nat", func(t string) string { return strconv.Itoa(level[t]) })
	g.c12OpFn("yaccAssoc", "Assoc", func(t string) string {
		if a, ok := assoc[t]; ok {
			return "." + a
		}
		return ".nonassoc"
	})
	g.P("def yaccUminusLevel : Nat := %d", level["UMINUS"])
	if a, ok := assoc["UMINUS"]; ok {
		g.P("def yaccUminusAssoc : Assoc := .%s\n", a)
	} else {
		g.P("def yaccUminusAssoc : Assoc := .nonassoc\n")
	}

	// ---- grammar shape of the expression nonterminals
	ruleNames := []string{"WHERE_CLAUSE", "CONDITION", "OR_CONDITION", "AND_CONDITION", "OPERATION_EQUAL", "CONDITION_COLUMN",
		"CONDITION_OPERATOR", "COLUMN", "COLUMN_CALL", "COLUMN_VAREF", "COLUMN_VAREF_TYPE", "COLUMN_CLAUSES", "COLUMN_CLAUSE",
		"REGULAR_EXPRESSION", "STRING_TYPE"}
	for _, rn := range ruleNames {
		alts, ok := y.Rules[rn]
		if !ok {
			return fmt.Errorf("sql.y: nonterminal %s not found", rn)
		}
		var xs []string
		h := sha256.New()
		for _, a := range alts {
			xs = append(xs, strings.Join(a.Syms, " "))
			h.Write([]byte(strings.Join(a.Syms, " ") + "\x00" + a.Action + "\x01"))
		}
		g.StrList("rule_"+rn, xs)
		g.P("def ruleHash_%s : String := %s", rn, leanStr(fmt.Sprintf("%x", h.Sum(nil)[:8])))
	}
	g.P("")
	var cmp []string
	for _, a := range y.Rules["CONDITION_OPERATOR"] {
		if len(a.Syms) != 1 {
			return fmt.Errorf("sql.y: CONDITION_OPERATOR alternative %v", a.Syms)
		}
		c, ok := c12Op[a.Syms[0]]
		if !ok {
			return fmt.Errorf("sql.y: CONDITION_OPERATOR %s is not an operator the model knows", a.Syms[0])
		}
		// the action must hand the same token on
		if !strings.Contains(a.Action, "$$ = "+a.Syms[0]) {
			return fmt.Errorf("sql.y: CONDITION_OPERATOR %s has action %q", a.Syms[0], a.Action)
		}
		cmp = append(cmp, "."+c)
	}
	g.P("/-- the alternatives of CONDITION_OPERATOR. -/")
	g.P("def yaccCmpOps : List Op := [%s]\n", strings.Join(cmp, ", "))
	var bin []string
	for _, a := range y.Rules["COLUMN"] {
		if len(a.Syms) == 3 && a.Syms[0] == "COLUMN" && a.Syms[2] == "COLUMN" {
			c, ok := c12Op[a.Syms[1]]
			if !ok {
				return fmt.Errorf("sql.y: COLUMN operator %s is not an operator the model knows", a.Syms[1])
			}
			if !strings.Contains(a.Action, "Op:Token("+a.Syms[1]+")") || !strings.Contains(a.Action, "LHS:$1, RHS:$3") {
				return fmt.Errorf("sql.y: COLUMN %s COLUMN has action %q", a.Syms[1], a.Action)
			}
			bin = append(bin, "."+c)
		}
	}
	g.P("/-- the binary alternatives `COLUMN op COLUMN` of COLUMN. -/")
	g.P("def yaccColumnOps : List Op := [%s]\n", strings.Join(bin, ", "))
	// type names of COLUMN_VAREF_TYPE
	reCase := regexp.MustCompile(`case "([a-z]+)": \$\$ = ([A-Za-z]+)`)
	var ytypes []string
	for _, a := range y.Rules["COLUMN_VAREF_TYPE"] {
		if len(a.Syms) == 1 && a.Syms[0] == "IDENT" {
			for _, m := range reCase.FindAllStringSubmatch(a.Action, -1) {
				c, ok := c12Type[m[2]]
				if !ok {
					return fmt.Errorf("sql.y: COLUMN_VAREF_TYPE yields unknown type %s", m[2])
				}
				ytypes = append(ytypes, fmt.Sprintf("(%s, .%s)", c12LeanChars(m[1]), c))
			}
		}
	}
	g.P("/-- `switch strings.ToLower($1)` of COLUMN_VAREF_TYPE: type name ↦ DataType. -/")
	g.P("def yaccTypeNames : List (List Char × DataType) := [%s]\n", strings.Join(ytypes, ", "))

	// ---- DataType.String and the names ParseVarRef accepts
	rows, err = g.SwitchTable(c12dir+"ast.go", "DataType.String")
	if err != nil {
		return err
	}
	tyText := map[string]string{}
	for _, r := range rows {
		if r[0] == "default" {
			continue
		}
		s, err := c12Unquote(strings.TrimPrefix(r[1], "return "))
		if err != nil {
			return fmt.Errorf("DataType.String: case %s: %v", r[0], err)
		}
		tyText[r[0]] = s
	}
	g.P("/-- `DataType.String()` (ast.go); a type without a case prints \"unknown\". -/")
	g.P("def typeText : DataType → List Char")
	for _, t := range c12TypeOrder {
		s, ok := tyText[t]
		if !ok {
			s = "unknown"
		}
		g.P("  | .%s => %s", c12Type[t], c12LeanChars(s))
	}
	g.P("")
	rows, err = g.c12SwitchOn(c12dir+"parser.go", "Parser.ParseVarRef", "strings.ToLower(lit)")
	if err != nil {
		return err
	}
	var ptypes []string
	for _, r := range rows {
		if r[0] == "default" {
			continue
		}
		name, err := c12Unquote(r[0])
		if err != nil {
			return err
		}
		c, ok := c12Type[strings.TrimPrefix(r[1], "dtype = ")]
		if !ok {
			return fmt.Errorf("ParseVarRef: case %s has body %q", r[0], r[1])
		}
		ptypes = append(ptypes, fmt.Sprintf("(%s, .%s)", c12LeanChars(name), c))
	}
	g.P("/-- `switch strings.ToLower(lit)` of ParseVarRef: type name ↦ DataType. -/")
	g.P("def peTypeNames : List (List Char × DataType) := [%s]\n", strings.Join(ptypes, ", "))
	rows, err = g.c12SwitchOn(c12dir+"parser.go", "Parser.ParseVarRef", "tok")
	if err != nil {
		return err
	}
	g.PairList("peTypeTokens", rows[1:len(rows)-1])

	// ---- replacers
	for _, c := range []string{"qsReplacer", "qiReplacer"} {
		s, err := g.Const(c12dir+"parser.go", c)
		if err != nil {
			return err
		}
		g.P("def src_%s : String := %s", c, leanStr(s))
	}
	g.P("")

	// ---- fingerprints of the hand-transcribed bodies
	fps := [][2]string{
		{"scanner.go", "Scanner.Scan"}, {"scanner.go", "Scanner.scanWhitespace"}, {"scanner.go", "Scanner.skipUntilNewline"},
		{"scanner.go", "Scanner.skipUntilEndComment"}, {"scanner.go", "Scanner.skipUntilEndRegex"}, {"scanner.go", "Scanner.scanIdent"},
		{"scanner.go", "Scanner.scanString"}, {"scanner.go", "Scanner.ScanRegex"}, {"scanner.go", "Scanner.scanNumber"},
		{"scanner.go", "Scanner.scanDigits"}, {"scanner.go", "ScanDelimited"}, {"scanner.go", "Scanner.ScanString"},
		{"scanner.go", "Scanner.ScanBareIdent"}, {"scanner.go", "reader.read"},
		{"scanner.go", "isWhitespace"}, {"scanner.go", "isLetter"}, {"scanner.go", "isDigit"}, {"scanner.go", "isIdentChar"}, {"scanner.go", "isIdentFirstChar"},
		{"scanner.go", "IsRegexOp"}, {"scanner.go", "IsInOp"},
		{"yyParser.go", "YyParser.Lex"},
		{"token.go", "Lookup"}, {"token.go", "init"},
		{"parser.go", "Parser.ParseExpr"}, {"parser.go", "Parser.parseUnaryExpr"}, {"parser.go", "Parser.parseRegex"}, {"parser.go", "Parser.parseSet"},
		{"parser.go", "Parser.parseCall"}, {"parser.go", "Parser.ParseVarRef"}, {"parser.go", "Parser.parseSegmentedIdents"}, {"parser.go", "Parser.ParseIdent"},
		{"parser.go", "Parser.ScanIgnoreWhitespace"}, {"parser.go", "Parser.consumeWhitespace"}, {"parser.go", "Parser.peekRune"},
		{"parser.go", "ParseDuration"}, {"parser.go", "FormatDuration"}, {"parser.go", "QuoteString"}, {"parser.go", "QuoteIdent"}, {"parser.go", "IdentNeedsQuotes"},
		{"ast.go", "VarRef.RenderBytes"}, {"ast.go", "Call.RenderBytes"}, {"ast.go", "NumberLiteral.RenderBytes"}, {"ast.go", "IntegerLiteral.RenderBytes"},
		{"ast.go", "UnsignedLiteral.RenderBytes"}, {"ast.go", "BooleanLiteral.RenderBytes"}, {"ast.go", "SetLiteral.RenderBytes"}, {"ast.go", "StringLiteral.RenderBytes"},
		{"ast.go", "DurationLiteral.RenderBytes"}, {"ast.go", "BinaryExpr.RenderBytes"}, {"ast.go", "ParenExpr.RenderBytes"}, {"ast.go", "RegexLiteral.RenderBytes"},
		{"ast.go", "Wildcard.RenderBytes"},
	}
	g.P("/-- fingerprints (sha256/64 of the comment-free body) of the functions the model transcribes. -/")
	g.P("def fingerprints : List (String × String) := [")
	for i, f := range fps {
		fp, err := g.Fingerprint(c12dir+f[0], f[1])
		if err != nil {
			return err
		}
		sep := ","
		if i == len(fps)-1 {
			sep = ""
		}
		g.P("  (%s, %s)%s", leanStr(f[0]+":"+f[1]), leanStr(fp), sep)
	}
	g.P("]\n")

	if err := genC12Codecs(g); err != nil {
		return err
	}
	if err := genC12Wire(g); err != nil {
		return err
	}
	if err := genC12Rewrite(g); err != nil {
		return err
	}
	g.Footer()
	return nil
}

var _ = sort.Strings
var _ = token.ADD
